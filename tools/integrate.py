#!/usr/bin/env python3
"""tools/integrate.py <Cxx> <copy-root> <JdProofs module names,comma> <JdProps module names,comma> "<strength text to append>"
Copies new proof / statement modules from a scratch copy of /verif into /verif/lean, registers them in the
library roots, makes the property's statement file import the new statement modules, and lists the new
statement theorems under the property in lean/obligations.json."""
import json, os, re, shutil, sys
prop, src, proofs, stmts, strength = sys.argv[1:6]
flt = re.compile(sys.argv[6]) if len(sys.argv) > 6 else None
L = '/verif/lean'
proofs = [p for p in proofs.split(',') if p]
stmts = [p for p in stmts.split(',') if p]
def add_import(path, line, after_last_import=True):
    s = open(path).read()
    if line in s.splitlines():
        return
    lines = s.splitlines()
    idx = max([i for i, l in enumerate(lines) if l.startswith('import ')] + [-1])
    lines.insert(idx + 1, line)
    open(path, 'w').write('\n'.join(lines) + '\n')
for m in proofs:
    shutil.copy(f'{src}/lean/JdProofs/{m}.lean', f'{L}/JdProofs/{m}.lean')
    add_import(f'{L}/JdProofs.lean', f'import JdProofs.{m}')
names = []
for m in stmts:
    shutil.copy(f'{src}/lean/JdProps/{m}.lean', f'{L}/JdProps/{m}.lean')
    add_import(f'{L}/JdProps/{prop}.lean', f'import JdProps.{m}')
    ns = []
    for l in open(f'{L}/JdProps/{m}.lean'):
        mm = re.match(r'^namespace\s+(\S+)', l)
        if mm: ns.append(mm.group(1)); continue
        mm = re.match(r'^end\s+(\S+)', l)
        if mm and ns and ns[-1] == mm.group(1): ns.pop(); continue
        mm = re.match(r'^(?:@\[[^\]]*\]\s*)?theorem\s+(\S+)', l)
        if mm and (flt is None or flt.search(mm.group(1))): names.append('.'.join(ns + [mm.group(1)]))
o = json.load(open(f'{L}/obligations.json'))
for n in names:
    if n not in o[prop]['theorems']:
        o[prop]['theorems'].append(n)
if strength and strength not in o[prop]['strength']:
    o[prop]['strength'] += ' ' + strength
json.dump(o, open(f'{L}/obligations.json', 'w'), indent=1, ensure_ascii=False)
print(prop, 'added', len(names), 'theorems')
