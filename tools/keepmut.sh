#!/bin/bash
# tools/keepmut.sh <worktree> <seeded-id> "<demo command run from worktree root>" <Cxx>...
# Confirms a seeded change (suite passes with it; demo fails with it and passes without it), runs the
# given checks against it and archives it under /verif/seeded/<id>/.
set -u
WT="$1"; ID="$2"; DEMO="$3"; shift 3
export GOFLAGS=-mod=mod GOPROXY=off
cd "$WT" || exit 2
git apply --check -R mutdemo/patch.diff 2>/dev/null || { echo "patch not applied in worktree?"; }
suite() { (cd "$WT" && go test -vet=off -count=1 . ./lib 2>&1 | grep -v "^ok" ; cd "$WT/v2" && go test -vet=off -count=1 . ./jd 2>&1 | grep -v "^ok"); }
echo "== suite with change:"; S=$(suite); if [ -z "$S" ]; then echo "passes"; SP=true; else echo "$S" | head -5; SP=false; fi
echo "== demo with change:"; (cd "$WT" && eval "$DEMO" >/tmp/demo_with.out 2>&1); DW=$?; echo "exit=$DW"
git apply -R mutdemo/patch.diff
echo "== demo without change:"; (cd "$WT" && eval "$DEMO" >/tmp/demo_without.out 2>&1); DO=$?; echo "exit=$DO"
git apply mutdemo/patch.diff
echo "== checks:"; RES=$(/verif/tools/muttest.sh "$WT" "$@"); echo "$RES"
D=/verif/seeded/$ID; mkdir -p "$D"
cp mutdemo/patch.diff "$D/patch.diff"
for f in mutdemo/*; do case "$f" in *patch.diff|*meta.json) ;; *) cp -r "$f" "$D/";; esac; done
python3 - "$D" "$ID" "$SP" "$DW" "$DO" "$DEMO" "$RES" "$@" <<'PY'
import json,sys,os
d,id_,sp,dw,do,demo,res=sys.argv[1:8]; props=sys.argv[8:]
meta={}
try: meta=json.load(open(os.path.join(os.path.dirname(d),'..','..','tmp','x')))
except Exception: pass
src=None
for cand in ['mutdemo/meta.json']:
    if os.path.exists(cand): src=json.load(open(cand))
out={"id":id_,"origin":"blind sub-agent given only the property text and a scratch worktree" if src else "hand-written",
     "property":(src or {}).get("property"),"summary":(src or {}).get("summary"),"needs":(src or {}).get("needs"),
     "confirmed":{"suite_passes_with_change":sp=="true","demo_exit_with_change":int(dw),"demo_exit_without_change":int(do),"demo_command":demo},
     "checks_run":props,"check_results":res.splitlines()}
json.dump(out,open(os.path.join(d,'meta.json'),'w'),indent=1)
PY
echo "archived in $D"
