// tools/pathfacts — regenerate lean/JdModel/Gen/PathSites.lean from /repo's current Go source.
//
// For every place where the diff-building code of v2/ and lib/ (functions named diff*, readMergeInto,
// readDiff) and the renderers STORE a path in a DiffElement, PASS a path to a diff-building callee, or
// ASSIGN to a slot of a path, the path expression is translated into the little expression language of
// JdModel/PathHeap.lean (param / append / clone / drop), local variables, closures and the path helper
// methods inlined. JdProofs/PathSites.lean checks the aliasing discipline on the table (what is stored
// or edited in place is a copy), and JdProofs/PathHeapProofs.lean proves that under this discipline the
// imperative slice semantics of Go agrees with the functional model.
//
// Exit 3 (with a message naming the site) when an expression has a form the translator does not know:
// a broken tie (DESIGN.md §5), not a silent default.
package main

import (
	"fmt"
	"go/ast"
	"go/parser"
	"go/token"
	"os"
	"path/filepath"
	"sort"
	"strings"
)

type sexpr struct {
	op string // param | append | clone | drop
	e  *sexpr
}

func (s *sexpr) lean() string {
	if s.op == "param" {
		return ".param"
	}
	return "(." + s.op + " " + s.e.lean() + ")"
}

func fresh(s *sexpr) bool {
	switch s.op {
	case "param":
		return false
	case "clone":
		return true
	default:
		return fresh(s.e)
	}
}

var freshNew = &sexpr{"clone", &sexpr{op: "param"}} // a value made from nothing (make, literal, parser result)

// fields of a DiffElement / patch element that hold slices owned by whoever owns the element
var ownedFields = map[string]bool{"Path": true, "Add": true, "Remove": true, "Before": true, "After": true, "OldValues": true, "NewValues": true}

var containerTypes = map[string]bool{"jsonArray": true, "jsonList": true, "jsonSet": true, "jsonMultiset": true, "jsonObject": true}

type unknown struct{ msg string }

func fail(format string, a ...interface{}) { panic(unknown{fmt.Sprintf(format, a...)}) }

type pkgInfo struct {
	fset    *token.FileSet
	helpers map[string]*ast.FuncDecl // methods with a receiver of the path type, by name
	pathTy  string                   // "Path" (v2) or "path" (lib)
}

type funcCtx struct {
	pkg      *pkgInfo
	params   map[string]bool     // identifiers that are path parameters of the enclosing function
	defs     map[string]ast.Expr // local := definitions (single definition only)
	multi    map[string]bool     // locals defined or assigned more than once
	closures map[string]ast.Expr // name := func() Path { return X }
	env      map[string]*sexpr   // values bound while inlining a helper
	fields   map[string]ast.Expr // "e.Add" -> right-hand side of the single assignment e.Add = …
	fieldsN  map[string]int
	busy     map[string]bool
	ptrs     map[string]bool // locals defined as &x: assignments to their fields write into the caller's data
	deep     bool            // a handover into a document that is patched in place: only a DEEP copy counts (slices.Clone is shallow)
}

func isPathType(t ast.Expr, ty string) bool {
	id, ok := t.(*ast.Ident)
	return ok && id.Name == ty
}

func (c *funcCtx) conv(e ast.Expr, depth int) *sexpr {
	if depth > 12 {
		fail("expression too deep")
	}
	switch x := e.(type) {
	case *ast.ParenExpr:
		return c.conv(x.X, depth+1)
	case *ast.Ident:
		if v, ok := c.env[x.Name]; ok {
			return v
		}
		if c.params[x.Name] {
			return &sexpr{op: "param"}
		}
		if c.multi[x.Name] {
			fail("local %s is assigned more than once", x.Name)
		}
		if d, ok := c.defs[x.Name]; ok {
			return c.conv(d, depth+1)
		}
		fail("identifier %s is not a path parameter or a local with a single definition", x.Name)
	case *ast.SelectorExpr:
		if ownedFields[x.Sel.Name] {
			if id, ok := x.X.(*ast.Ident); ok && c.fields != nil {
				key := id.Name + "." + x.Sel.Name
				if rhs, ok := c.fields[key]; ok && c.fieldsN[key] == 1 && !c.busy[key] && !c.ptrs[id.Name] {
					// the field of a local COPY of the element was re-assigned: e.Add = slices.Clone(e.Add)
					c.busy[key] = true
					defer delete(c.busy, key)
					return c.conv(rhs, depth+1)
				}
			}
			return &sexpr{op: "param"} // a slice of a DiffElement owned by the caller
		}
		fail("selector .%s", x.Sel.Name)
	case *ast.CompositeLit:
		return freshNew
	case *ast.SliceExpr:
		if x.Low != nil {
			fail("reslice from the left")
		}
		return &sexpr{"drop", c.conv(x.X, depth+1)}
	case *ast.CallExpr:
		switch f := x.Fun.(type) {
		case *ast.Ident:
			switch {
			case f.Name == "append":
				if len(x.Args) < 2 {
					fail("append with %d arguments", len(x.Args))
				}
				r := c.conv(x.Args[0], depth+1)
				for range x.Args[1:] {
					r = &sexpr{"append", r}
				}
				return r
			case f.Name == "make":
				return freshNew
			case f.Name == c.pkg.pathTy: // conversion Path(x) of something that is not a path yet
				return &sexpr{op: "param"}
			case containerTypes[f.Name] && len(x.Args) == 1: // conversion jsonArray(x): the same backing array
				return c.conv(x.Args[0], depth+1)
			case strings.HasPrefix(f.Name, "clone") && len(x.Args) == 1:
				// cloneNodes / cloneNode: their bodies are checked site by site (kind store: every container they return is fresh)
				return &sexpr{"clone", c.conv(x.Args[0], depth+1)}
			default:
				if body, ok := c.closures[f.Name]; ok && len(x.Args) == 0 {
					return c.conv(body, depth+1)
				}
				// another function: its result is a new value unless a path goes in
				for _, a := range x.Args {
					if c.pathish(a) {
						fail("call of %s with a path argument", f.Name)
					}
				}
				return freshNew
			}
		case *ast.SelectorExpr:
			name := f.Sel.Name
			if pk, ok := f.X.(*ast.Ident); ok && pk.Name == "slices" && name == "Clone" && len(x.Args) == 1 {
				if c.deep {
					return c.conv(x.Args[0], depth+1) // a copy of the slice, not of the nodes in it
				}
				return &sexpr{"clone", c.conv(x.Args[0], depth+1)}
			}
			switch name {
			case "clone":
				return &sexpr{"clone", c.conv(f.X, depth+1)}
			case "drop":
				return &sexpr{"drop", c.conv(f.X, depth+1)}
			}
			if h, ok := c.pkg.helpers[name]; ok && c.pathish(f.X) {
				return c.inline(h, c.conv(f.X, depth+1), depth+1)
			}
			for _, a := range x.Args {
				if c.pathish(a) {
					fail("call of .%s with a path argument", name)
				}
			}
			if c.pathish(f.X) {
				fail("unknown method .%s on a path", name)
			}
			return freshNew
		}
	}
	fail("expression form %T", e)
	return nil
}

// pathish: does the expression mention a path parameter, a local defined from one, or a .Path field?
func (c *funcCtx) pathish(e ast.Expr) bool {
	found := false
	ast.Inspect(e, func(n ast.Node) bool {
		switch x := n.(type) {
		case *ast.Ident:
			if c.params[x.Name] || c.env[x.Name] != nil {
				found = true
			} else if d, ok := c.defs[x.Name]; ok && !c.multi[x.Name] && d != e {
				sub := &funcCtx{pkg: c.pkg, params: c.params, defs: map[string]ast.Expr{}, multi: c.multi, closures: c.closures, env: c.env}
				for k, v := range c.defs {
					if k != x.Name {
						sub.defs[k] = v
					}
				}
				if sub.pathish(d) {
					found = true
				}
			} else if _, ok := c.closures[x.Name]; ok {
				found = true
			}
		case *ast.SelectorExpr:
			if ownedFields[x.Sel.Name] {
				found = true
			}
		}
		return !found
	})
	return found
}

// inline a helper method of the path type: a straight-line body (assignments to the receiver and one
// final return) is interpreted; a branching body is accepted only if every return is a fresh value.
func (c *funcCtx) inline(h *ast.FuncDecl, recv *sexpr, depth int) *sexpr {
	rname := h.Recv.List[0].Names[0].Name
	sub := &funcCtx{pkg: c.pkg, params: map[string]bool{}, defs: map[string]ast.Expr{}, multi: map[string]bool{}, closures: map[string]ast.Expr{}, env: map[string]*sexpr{rname: recv}}
	straight := true
	for _, st := range h.Body.List {
		switch s := st.(type) {
		case *ast.AssignStmt, *ast.ReturnStmt, *ast.ExprStmt, *ast.DeclStmt:
			_ = s
		default:
			// a compound statement is irrelevant when it neither returns nor assigns to the receiver
			ast.Inspect(st, func(nd ast.Node) bool {
				switch y := nd.(type) {
				case *ast.ReturnStmt:
					straight = false
				case *ast.AssignStmt:
					for _, l := range y.Lhs {
						if id, ok := l.(*ast.Ident); ok && id.Name == rname {
							straight = false
						}
						if ix, ok := l.(*ast.IndexExpr); ok {
							if id, ok := ix.X.(*ast.Ident); ok && id.Name == rname {
								straight = false
							}
						}
					}
				}
				return straight
			})
		}
	}
	if straight {
		for _, st := range h.Body.List {
			switch s := st.(type) {
			case *ast.AssignStmt:
				if len(s.Lhs) == 1 && len(s.Rhs) == 1 {
					if id, ok := s.Lhs[0].(*ast.Ident); ok {
						if id.Name == rname || sub.env[id.Name] != nil {
							sub.env[id.Name] = sub.conv(s.Rhs[0], depth+1)
						} else if sub.pathish(s.Rhs[0]) {
							sub.env[id.Name] = sub.conv(s.Rhs[0], depth+1)
						}
					}
				}
			case *ast.ReturnStmt:
				if len(s.Results) != 1 {
					fail("helper %s returns %d values", h.Name.Name, len(s.Results))
				}
				return sub.conv(s.Results[0], depth+1)
			}
		}
		fail("helper %s has no return", h.Name.Name)
	}
	// branching helper: every return must be a fresh value; a returned local counts as fresh when EVERY
	// assignment to it (in any branch) has a fresh right-hand side (slot assignments x[i] = … go into the copy)
	delete(sub.env, rname)
	sub.params[rname] = true
	assigns := map[string][]ast.Expr{}
	ast.Inspect(h.Body, func(nd ast.Node) bool {
		if as, isAs := nd.(*ast.AssignStmt); isAs && len(as.Lhs) == len(as.Rhs) {
			for i, l := range as.Lhs {
				if id, isId := l.(*ast.Ident); isId {
					assigns[id.Name] = append(assigns[id.Name], as.Rhs[i])
				}
			}
		}
		return true
	})
	isFresh := func(e ast.Expr) bool {
		if id, isId := e.(*ast.Ident); isId && !sub.params[id.Name] {
			rs := assigns[id.Name]
			if len(rs) == 0 {
				return false
			}
			for _, r := range rs {
				if !fresh(sub.conv(r, depth+1)) {
					return false
				}
			}
			return true
		}
		return fresh(sub.conv(e, depth+1))
	}
	ok := true
	n := 0
	ast.Inspect(h.Body, func(nd ast.Node) bool {
		if _, isLit := nd.(*ast.FuncLit); isLit {
			return false
		}
		if r, isRet := nd.(*ast.ReturnStmt); isRet {
			n++
			if len(r.Results) != 1 || !isFresh(r.Results[0]) {
				ok = false
			}
		}
		return true
	})
	if !ok || n == 0 {
		fail("helper %s branches and not every return is a fresh value", h.Name.Name)
	}
	return &sexpr{"clone", recv}
}

func collectDefs(body *ast.BlockStmt, c *funcCtx) {
	seen := map[string]int{}
	ast.Inspect(body, func(n ast.Node) bool {
		switch s := n.(type) {
		case *ast.AssignStmt:
			if len(s.Lhs) == len(s.Rhs) {
				for i, l := range s.Lhs {
					if sel, ok := l.(*ast.SelectorExpr); ok && ownedFields[sel.Sel.Name] && c.fields != nil {
						if id, ok := sel.X.(*ast.Ident); ok {
							key := id.Name + "." + sel.Sel.Name
							c.fields[key] = s.Rhs[i]
							c.fieldsN[key]++
						}
					}
					id, ok := l.(*ast.Ident)
					if !ok || id.Name == "_" {
						continue
					}
					if u, ok := s.Rhs[i].(*ast.UnaryExpr); ok && u.Op == token.AND && c.ptrs != nil {
						c.ptrs[id.Name] = true
					}
					seen[id.Name]++
					if s.Tok == token.DEFINE && seen[id.Name] == 1 {
						if fl, isFn := s.Rhs[i].(*ast.FuncLit); isFn {
							// closure with a single return statement and no parameters
							if len(fl.Type.Params.List) == 0 && len(fl.Body.List) == 1 {
								if r, isRet := fl.Body.List[0].(*ast.ReturnStmt); isRet && len(r.Results) == 1 {
									c.closures[id.Name] = r.Results[0]
								}
							}
						} else {
							c.defs[id.Name] = s.Rhs[i]
						}
					} else {
						c.multi[id.Name] = true
					}
				}
			} else {
				// v, err := f(...): each result is a value of its own
				_, isCall := s.Rhs[0].(*ast.CallExpr)
				for _, l := range s.Lhs {
					if id, ok := l.(*ast.Ident); ok && id.Name != "_" {
						seen[id.Name]++
						if s.Tok == token.DEFINE && seen[id.Name] == 1 && isCall && len(s.Rhs) == 1 {
							c.defs[id.Name] = s.Rhs[0]
						} else {
							c.multi[id.Name] = true
						}
					}
				}
			}
		case *ast.RangeStmt:
			for _, l := range []ast.Expr{s.Key, s.Value} {
				if id, ok := l.(*ast.Ident); ok && id.Name != "_" {
					c.multi[id.Name] = true
				}
			}
		}
		return true
	})
	for k := range c.multi {
		delete(c.defs, k)
	}
}

type site struct {
	label string
	kind  string
	e     *sexpr
}

func main() {
	repo := os.Getenv("VERIF_REPO")
	if repo == "" {
		repo = "/repo"
	}
	out := os.Args[1]
	var sites []site
	defer func() {
		if r := recover(); r != nil {
			if u, ok := r.(unknown); ok {
				fmt.Fprintln(os.Stderr, "pathfacts: "+u.msg)
				os.Exit(3)
			}
			panic(r)
		}
	}()
	for _, d := range []struct{ dir, ty string }{{"v2", "Path"}, {"lib", "path"}} {
		fset := token.NewFileSet()
		files, _ := filepath.Glob(filepath.Join(repo, d.dir, "*.go"))
		sort.Strings(files)
		pkg := &pkgInfo{fset: fset, helpers: map[string]*ast.FuncDecl{}, pathTy: d.ty}
		var parsed []*ast.File
		var names []string
		for _, f := range files {
			b := filepath.Base(f)
			if strings.HasSuffix(b, "_test.go") || b == "verif_hooks.go" {
				continue
			}
			af, err := parser.ParseFile(fset, f, nil, 0)
			if err != nil {
				fail("parse %s: %v", f, err)
			}
			parsed = append(parsed, af)
			names = append(names, d.dir+"/"+b)
		}
		// path helper methods and the functions that take a path to build diffs on
		callee := map[string][]int{} // name -> possible indices of the path parameter
		for _, af := range parsed {
			for _, dc := range af.Decls {
				fd, ok := dc.(*ast.FuncDecl)
				if !ok || fd.Body == nil {
					continue
				}
				if fd.Recv != nil && len(fd.Recv.List) == 1 && isPathType(fd.Recv.List[0].Type, d.ty) && len(fd.Recv.List[0].Names) == 1 {
					n := fd.Name.Name
					if n != "clone" && n != "drop" {
						pkg.helpers[n] = fd
					}
				}
				if strings.HasPrefix(fd.Name.Name, "diff") || fd.Name.Name == "readMergeInto" {
					idx := 0
					for _, p := range fd.Type.Params.List {
						k := len(p.Names)
						if k == 0 {
							k = 1
						}
						if isPathType(p.Type, d.ty) {
							known := false
							for _, o := range callee[fd.Name.Name] {
								known = known || o == idx
							}
							if !known {
								callee[fd.Name.Name] = append(callee[fd.Name.Name], idx)
							}
						}
						idx += k
					}
				}
			}
		}
		for fi, af := range parsed {
			for _, dc := range af.Decls {
				fd, ok := dc.(*ast.FuncDecl)
				if !ok || fd.Body == nil {
					continue
				}
				fname := fd.Name.Name
				if fd.Recv != nil && len(fd.Recv.List) == 1 {
					if id, ok := fd.Recv.List[0].Type.(*ast.Ident); ok {
						fname = id.Name + "." + fname
					} else if st, ok := fd.Recv.List[0].Type.(*ast.StarExpr); ok {
						if id, ok := st.X.(*ast.Ident); ok {
							fname = id.Name + "." + fname
						}
					}
				}
				c := &funcCtx{pkg: pkg, params: map[string]bool{}, defs: map[string]ast.Expr{}, multi: map[string]bool{}, closures: map[string]ast.Expr{}, env: map[string]*sexpr{},
					fields: map[string]ast.Expr{}, fieldsN: map[string]int{}, busy: map[string]bool{}, ptrs: map[string]bool{}}
				for _, p := range fd.Type.Params.List {
					if isPathType(p.Type, d.ty) {
						for _, n := range p.Names {
							c.params[n.Name] = true
						}
					}
				}
				if fd.Recv != nil && isPathType(fd.Recv.List[0].Type, d.ty) {
					continue // the helpers themselves are analysed where they are used
				}
				collectDefs(fd.Body, c)
				ord := map[string]int{}
				add := func(kind string, e ast.Expr) {
					ord[kind]++
					label := fmt.Sprintf("%s:%s:%s#%d", names[fi], fname, kind, ord[kind])
					func() {
						defer func() {
							if r := recover(); r != nil {
								if u, ok := r.(unknown); ok {
									pos := fset.Position(e.Pos())
									fail("%s (%s:%d): %s", label, pos.Filename, pos.Line, u.msg)
								}
								panic(r)
							}
						}()
						sites = append(sites, site{label, kind, c.conv(e, 0)})
					}()
				}
				isCloneFn := strings.HasPrefix(fd.Name.Name, "clone") && fd.Recv == nil
				if isCloneFn {
					// the single parameter is what the caller owns
					for _, p := range fd.Type.Params.List {
						for _, n := range p.Names {
							c.params[n.Name] = true
						}
					}
				}
				var stack []ast.Node
				ast.Inspect(fd.Body, func(n ast.Node) bool {
					if isCloneFn && n != nil {
						switch y := n.(type) {
						case *ast.TypeSwitchStmt:
							if as, ok := y.Assign.(*ast.AssignStmt); ok && len(as.Lhs) == 1 {
								if id, ok := as.Lhs[0].(*ast.Ident); ok {
									c.params[id.Name] = true // t := n.(type): the same node
								}
							}
						case *ast.ReturnStmt:
							// which case clause are we in?
							container := false
							inSwitch := false
							for i := len(stack) - 1; i >= 0; i-- {
								if cc, ok := stack[i].(*ast.CaseClause); ok {
									inSwitch = true
									for _, t := range cc.List {
										if id, ok := t.(*ast.Ident); ok && containerTypes[id.Name] {
											container = true
										}
									}
									break
								}
							}
							if len(y.Results) == 1 {
								if id, ok := y.Results[0].(*ast.Ident); ok && id.Name == "nil" {
									break
								}
								if container || !inSwitch && fd.Name.Name != "cloneNode" {
									// a container (or the slice of cloneNodes) handed back to patchAll: must be a copy
									if !(inSwitch == false && c.pathish(y.Results[0]) == false) {
										add("store", y.Results[0])
									} else {
										add("store", y.Results[0])
									}
								}
							}
						}
					}
					if n == nil {
						stack = stack[:len(stack)-1]
						return true
					}
					stack = append(stack, n)
					switch x := n.(type) {
					case *ast.KeyValueExpr:
						if k, ok := x.Key.(*ast.Ident); ok && k.Name == "Path" {
							// inside a DiffElement literal (explicit type, or an element of a Diff literal)?
							isDE := false
							if len(stack) >= 2 {
								if cl, ok := stack[len(stack)-2].(*ast.CompositeLit); ok {
									if id, ok := cl.Type.(*ast.Ident); ok && id.Name == "DiffElement" {
										isDE = true
									}
									if cl.Type == nil && len(stack) >= 3 {
										if outer, ok := stack[len(stack)-3].(*ast.CompositeLit); ok {
											if id, ok := outer.Type.(*ast.Ident); ok && id.Name == "Diff" {
												isDE = true
											}
										}
									}
								}
							}
							if isDE {
								add("store", x.Value)
							}
						}
					case *ast.AssignStmt:
						for i, l := range x.Lhs {
							if sel, ok := l.(*ast.SelectorExpr); ok && sel.Sel.Name == "Path" && len(x.Lhs) == len(x.Rhs) {
								add("store", x.Rhs[i])
							}
							if sel, ok := l.(*ast.SelectorExpr); ok && ownedFields[sel.Sel.Name] {
								if id, ok := sel.X.(*ast.Ident); ok && c.ptrs[id.Name] {
									add("write", sel) // assignment through a pointer into the caller's element
								}
							}
							if ix, ok := l.(*ast.IndexExpr); ok && x.Tok == token.ASSIGN {
								if c.pathish(ix.X) {
									add("write", ix.X)
								}
							}
						}
					case *ast.CallExpr:
						name := ""
						switch f := x.Fun.(type) {
						case *ast.Ident:
							name = f.Name
						case *ast.SelectorExpr:
							name = f.Sel.Name
						}
						if fd.Name.Name != "patch" && name == "patch" {
							// the added values become part of the patched document, which is patched in place later
							for _, a := range x.Args {
								hands := false
								ast.Inspect(a, func(nd ast.Node) bool {
									if se, ok := nd.(*ast.SelectorExpr); ok && (se.Sel.Name == "Add" || se.Sel.Name == "NewValues") {
										hands = true
									}
									if id, ok := nd.(*ast.Ident); ok {
										if d, ok := c.defs[id.Name]; ok {
											ast.Inspect(d, func(n2 ast.Node) bool {
												if se, ok := n2.(*ast.SelectorExpr); ok && (se.Sel.Name == "Add" || se.Sel.Name == "NewValues") {
													hands = true
												}
												return true
											})
										}
										if c.multi[id.Name] && (strings.Contains(strings.ToLower(id.Name), "add") || strings.Contains(strings.ToLower(id.Name), "new")) {
											hands = true
										}
									}
									return true
								})
								if hands {
									c.deep = true
									add("write", a)
									c.deep = false
								}
							}
						}
						if sel, ok := x.Fun.(*ast.SelectorExpr); ok {
							if pk, ok := sel.X.(*ast.Ident); ok && (pk.Name == "slices" || pk.Name == "sort") && name != "Clone" && len(x.Args) >= 1 && c.pathish(x.Args[0]) {
								add("write", x.Args[0]) // slices.Reverse, slices.Sort, sort.Slice … work in place
							}
						}
						for _, idx := range callee[name] {
							if len(x.Args) > idx && c.pathish(x.Args[idx]) {
								add("call", x.Args[idx])
							}
						}
					}
					return true
				})
			}
		}
	}
	var b strings.Builder
	b.WriteString("-- GENERATED by tools/pathfacts from /repo — do not edit\nimport JdModel.PathHeap\nnamespace Jd.Gen\nopen Jd.PathHeap\n\n")
	b.WriteString("/-- every site of the Go source where a diff path is stored, passed to a diff-building callee or\n    edited in place: (file:function:kind#ordinal, kind, shape of the path expression) -/\n")
	b.WriteString("def pathSites : List (String × SiteKind × SExpr) := [\n")
	for i, s := range sites {
		sep := ","
		if i == len(sites)-1 {
			sep = ""
		}
		fmt.Fprintf(&b, "  (%q, .%s, %s)%s\n", s.label, s.kind, strings.TrimSuffix(strings.TrimPrefix(s.e.lean(), "("), ")"), sep)
	}
	b.WriteString("]\n\nend Jd.Gen\n")
	old, _ := os.ReadFile(out)
	if string(old) != b.String() {
		if err := os.WriteFile(out, []byte(b.String()), 0o644); err != nil {
			fmt.Fprintln(os.Stderr, err)
			os.Exit(1)
		}
	}
	fmt.Printf("pathfacts: %d sites\n", len(sites))
}
