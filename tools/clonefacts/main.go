// tools/clonefacts — regenerate lean/JdModel/Gen/CloneCases.lean from /repo's current Go source.
//
// The deep-copy function `cloneNode` / `cloneNodes` (v2/patch_common.go, lib/patch_common.go) is modelled by
// lean/JdModel/NodeHeap.lean. The model's case analysis (`modelCloneCases`) used to be compared with tables
// transcribed by hand. This tool reads the tables off the source instead, for each of the two libraries:
//
//	(a) cloneNode: the clauses of its type switch in source order, each with its type names and the SHAPE of
//	    its body: copyMap | copySlice T | asIs | other "<printed body>"  (the `default` clause has the
//	    type list ["default"]);
//	(b) cloneNodes: standard | other "<printed body>";
//	(c) the underlying kind (map / slice / other) of every type of the package that implements JsonNode;
//	(d) every place the type name jsonNull occurs, classified (typeDecl, receiver, caseType, assertType,
//	    emptyLit `jsonNull{}`, nilConv `jsonNull(nil)`, other:…), and every use of the receiver inside the
//	    methods of jsonNull (methodCall, argument, returned, other:…): jsonNull is a SLICE type that
//	    cloneNode returns shared, which is harmless only as long as every jsonNull has capacity 0.
//
// A body is classified by an exact syntactic match; ANYTHING else is printed as `other`, so any edit of
// the two functions changes the table. lean/JdProofs/CloneCases.lean proves the regenerated tables equal to
// what the model does. Usage: go run main.go <out.lean>   (repo from env VERIF_REPO, default /repo).
// Exit 3: a file does not parse, or cloneNode / cloneNodes / JsonNode cannot be found.
package main

import (
	"fmt"
	"go/ast"
	"go/parser"
	"go/printer"
	"go/token"
	"os"
	"path/filepath"
	"sort"
	"strings"
)

func die(f string, a ...any) {
	fmt.Fprintf(os.Stderr, "clonefacts: "+f+"\n", a...)
	os.Exit(3)
}

type pkg struct {
	dir   string
	fset  *token.FileSet
	files []*ast.File
	names []string
	types map[string]ast.Expr      // declared type name -> its type expression
	funcs map[string]*ast.FuncDecl // top-level functions (no receiver)
}

func (p *pkg) txt(n any) string {
	var sb strings.Builder
	printer.Fprint(&sb, p.fset, n)
	return strings.Join(strings.Fields(sb.String()), " ")
}

func (p *pkg) stmts(l []ast.Stmt) string {
	var parts []string
	for _, s := range l {
		parts = append(parts, p.txt(s))
	}
	return strings.Join(parts, "; ")
}

func load(repo, dir string) *pkg {
	p := &pkg{dir: dir, fset: token.NewFileSet(), types: map[string]ast.Expr{}, funcs: map[string]*ast.FuncDecl{}}
	files, _ := filepath.Glob(filepath.Join(repo, dir, "*.go"))
	sort.Strings(files)
	for _, f := range files {
		b := filepath.Base(f)
		if strings.HasSuffix(b, "_test.go") || b == "verif_hooks.go" {
			continue
		}
		af, err := parser.ParseFile(p.fset, f, nil, 0)
		if err != nil {
			die("%v", err)
		}
		p.files = append(p.files, af)
		p.names = append(p.names, dir+"/"+b)
		for _, dc := range af.Decls {
			switch d := dc.(type) {
			case *ast.GenDecl:
				for _, s := range d.Specs {
					if ts, ok := s.(*ast.TypeSpec); ok {
						p.types[ts.Name.Name] = ts.Type
					}
				}
			case *ast.FuncDecl:
				if d.Recv == nil {
					p.funcs[d.Name.Name] = d
				}
			}
		}
	}
	if len(p.files) == 0 {
		die("no Go files in %s/%s", repo, dir)
	}
	return p
}

func isIdent(e ast.Expr, name string) bool {
	id, ok := e.(*ast.Ident)
	return ok && name != "" && id.Name == name
}

// call of the plain function `fn` with exactly the identifiers `args`
func isCall(e ast.Expr, fn string, args ...string) bool {
	c, ok := e.(*ast.CallExpr)
	if !ok || !isIdent(c.Fun, fn) || len(c.Args) != len(args) || c.Ellipsis.IsValid() {
		return false
	}
	for i, a := range args {
		if !isIdent(c.Args[i], a) {
			return false
		}
	}
	return true
}

func soleParam(fd *ast.FuncDecl) string {
	if fd.Type.Params == nil || len(fd.Type.Params.List) != 1 || len(fd.Type.Params.List[0].Names) != 1 {
		return ""
	}
	return fd.Type.Params.List[0].Names[0].Name
}

// `c := <alloc>` where alloc makes an empty map of type ty: make(ty) | make(ty, len(src)) | ty{} |
// newJsonObject() (only when that function of the package returns an empty ty)
func (p *pkg) allocMap(e ast.Expr, ty, src string) bool {
	switch x := e.(type) {
	case *ast.CompositeLit:
		return isIdent(x.Type, ty) && len(x.Elts) == 0
	case *ast.CallExpr:
		if isIdent(x.Fun, "make") && !x.Ellipsis.IsValid() {
			if len(x.Args) == 1 {
				return isIdent(x.Args[0], ty)
			}
			if len(x.Args) == 2 {
				return isIdent(x.Args[0], ty) && isCall(x.Args[1], "len", src)
			}
			return false
		}
		if isIdent(x.Fun, "newJsonObject") && len(x.Args) == 0 {
			fd := p.funcs["newJsonObject"]
			if fd == nil || fd.Body == nil || len(fd.Body.List) != 1 || len(fd.Type.Params.List) != 0 {
				return false
			}
			r, ok := fd.Body.List[0].(*ast.ReturnStmt)
			if !ok || len(r.Results) != 1 || isCall(r.Results[0], "newJsonObject") {
				return false
			}
			return p.allocMap(r.Results[0], ty, "")
		}
	}
	return false
}

// `for k, v := range src { dst[k] = cloneNode(v) }` and nothing else
func fillLoop(s ast.Stmt, src, dst string) bool {
	r, ok := s.(*ast.RangeStmt)
	if !ok || r.Tok != token.DEFINE || r.Key == nil || r.Value == nil || !isIdent(r.X, src) {
		return false
	}
	k, ok1 := r.Key.(*ast.Ident)
	v, ok2 := r.Value.(*ast.Ident)
	if !ok1 || !ok2 || k.Name == "_" || v.Name == "_" || k.Name == v.Name || k.Name == dst || v.Name == dst {
		return false
	}
	if len(r.Body.List) != 1 {
		return false
	}
	a, ok := r.Body.List[0].(*ast.AssignStmt)
	if !ok || a.Tok != token.ASSIGN || len(a.Lhs) != 1 || len(a.Rhs) != 1 {
		return false
	}
	ix, ok := a.Lhs[0].(*ast.IndexExpr)
	if !ok || !isIdent(ix.X, dst) || !isIdent(ix.Index, k.Name) {
		return false
	}
	return isCall(a.Rhs[0], "cloneNode", v.Name)
}

func defineOne(s ast.Stmt) (string, ast.Expr) {
	a, ok := s.(*ast.AssignStmt)
	if !ok || a.Tok != token.DEFINE || len(a.Lhs) != 1 || len(a.Rhs) != 1 {
		return "", nil
	}
	id, ok := a.Lhs[0].(*ast.Ident)
	if !ok || id.Name == "_" {
		return "", nil
	}
	return id.Name, a.Rhs[0]
}

func returnsIdent(s ast.Stmt, names ...string) bool {
	r, ok := s.(*ast.ReturnStmt)
	if !ok || len(r.Results) != 1 {
		return false
	}
	for _, n := range names {
		if isIdent(r.Results[0], n) {
			return true
		}
	}
	return false
}

// the Lean term for the body of one clause. `tys`: the clause's types (nil: default), `sw`: the variable
// the type switch binds ("" if none), `arg`: cloneNode's parameter
func (p *pkg) classify(body []ast.Stmt, tys []string, sw, arg string) string {
	other := fmt.Sprintf(".other %q", p.stmts(body))
	if len(body) == 1 {
		if returnsIdent(body[0], arg, sw) {
			return ".asIs"
		}
		r, ok := body[0].(*ast.ReturnStmt)
		if ok && len(r.Results) == 1 && sw != "" {
			if c, ok := r.Results[0].(*ast.CallExpr); ok && len(c.Args) == 1 && !c.Ellipsis.IsValid() {
				if id, ok := c.Fun.(*ast.Ident); ok && p.types[id.Name] != nil && isCall(c.Args[0], "cloneNodes", sw) {
					return fmt.Sprintf(".copySlice %q", id.Name)
				}
			}
		}
		return other
	}
	if len(body) == 3 && len(tys) == 1 && sw != "" {
		c, alloc := defineOne(body[0])
		if c != "" && c != sw && c != arg && p.allocMap(alloc, tys[0], sw) && fillLoop(body[1], sw, c) && returnsIdent(body[2], c) {
			return ".copyMap"
		}
	}
	return other
}

type row struct {
	types []string
	body  string
}

func (p *pkg) cloneNodeTable() []row {
	fd := p.funcs["cloneNode"]
	if fd == nil || fd.Body == nil {
		die("%s: func cloneNode not found", p.dir)
	}
	arg := soleParam(fd)
	whole := []row{{[]string{"body"}, fmt.Sprintf(".other %q", p.txt(fd.Type)+" { "+p.stmts(fd.Body.List)+" }")}}
	if arg == "" || len(fd.Body.List) != 1 {
		return whole
	}
	ts, ok := fd.Body.List[0].(*ast.TypeSwitchStmt)
	if !ok || ts.Init != nil {
		return whole
	}
	sw := ""
	var x ast.Expr
	switch a := ts.Assign.(type) {
	case *ast.AssignStmt:
		if len(a.Lhs) != 1 || len(a.Rhs) != 1 || a.Tok != token.DEFINE {
			return whole
		}
		sw = a.Lhs[0].(*ast.Ident).Name
		x = a.Rhs[0]
	case *ast.ExprStmt:
		x = a.X
	}
	ta, ok := x.(*ast.TypeAssertExpr)
	if !ok || ta.Type != nil || !isIdent(ta.X, arg) {
		return whole
	}
	var rows []row
	for _, s := range ts.Body.List {
		cc := s.(*ast.CaseClause)
		var tys []string
		for _, t := range cc.List {
			tys = append(tys, p.txt(t))
		}
		label := tys
		if cc.List == nil {
			label = []string{"default"}
		}
		rows = append(rows, row{label, p.classify(cc.Body, tys, sw, arg)})
	}
	return rows
}

func (p *pkg) cloneNodesShape() string {
	fd := p.funcs["cloneNodes"]
	if fd == nil || fd.Body == nil {
		die("%s: func cloneNodes not found", p.dir)
	}
	other := fmt.Sprintf(".other %q", p.txt(fd.Type)+" { "+p.stmts(fd.Body.List)+" }")
	arg := soleParam(fd)
	b := fd.Body.List
	if arg == "" || len(b) != 4 || p.txt(fd.Type) != "func("+arg+" []JsonNode) []JsonNode" {
		return other
	}
	g, ok := b[0].(*ast.IfStmt)
	if !ok || g.Init != nil || g.Else != nil || p.txt(g.Cond) != arg+" == nil" || len(g.Body.List) != 1 || !returnsIdent(g.Body.List[0], "nil") {
		return other
	}
	c, alloc := defineOne(b[1])
	if c == "" || c == arg || p.txt(alloc) != "make([]JsonNode, len("+arg+"))" {
		return other
	}
	if !fillLoop(b[2], arg, c) || !returnsIdent(b[3], c) {
		return other
	}
	return ".standard"
}

// ---- (c) node types and their underlying kind

func (p *pkg) ifaceMethods(name string, seen map[string]bool) []string {
	if seen[name] {
		return nil
	}
	seen[name] = true
	it, ok := p.types[name].(*ast.InterfaceType)
	if !ok {
		die("%s: interface %s not found", p.dir, name)
	}
	var ms []string
	for _, m := range it.Methods.List {
		if len(m.Names) > 0 {
			for _, n := range m.Names {
				ms = append(ms, n.Name)
			}
		} else if id, ok := m.Type.(*ast.Ident); ok {
			ms = append(ms, p.ifaceMethods(id.Name, seen)...)
		} else {
			die("%s: interface %s embeds %s", p.dir, name, p.txt(m.Type))
		}
	}
	return ms
}

func (p *pkg) kind(e ast.Expr, depth int) string {
	switch x := e.(type) {
	case *ast.MapType:
		return ".map"
	case *ast.ArrayType:
		if x.Len == nil {
			return ".slice"
		}
	case *ast.Ident:
		if t, ok := p.types[x.Name]; ok && depth < 20 {
			return p.kind(t, depth+1)
		}
	case *ast.ParenExpr:
		return p.kind(x.X, depth)
	}
	return ".other"
}

func recvType(fd *ast.FuncDecl) (string, string) { // (type name, receiver name)
	if fd.Recv == nil || len(fd.Recv.List) != 1 {
		return "", ""
	}
	t := fd.Recv.List[0].Type
	if st, ok := t.(*ast.StarExpr); ok {
		t = st.X
	}
	id, ok := t.(*ast.Ident)
	if !ok {
		return "", ""
	}
	n := ""
	if len(fd.Recv.List[0].Names) == 1 {
		n = fd.Recv.List[0].Names[0].Name
	}
	return id.Name, n
}

type kindRow struct{ name, kind, decl string }

func (p *pkg) nodeKinds() []kindRow {
	want := p.ifaceMethods("JsonNode", map[string]bool{})
	have := map[string]map[string]bool{}
	for _, af := range p.files {
		for _, dc := range af.Decls {
			if fd, ok := dc.(*ast.FuncDecl); ok {
				if t, _ := recvType(fd); t != "" {
					if have[t] == nil {
						have[t] = map[string]bool{}
					}
					have[t][fd.Name.Name] = true
				}
			}
		}
	}
	var rows []kindRow
	for name, te := range p.types {
		all := true
		for _, m := range want {
			if !have[name][m] {
				all = false
			}
		}
		if all && len(want) > 0 {
			rows = append(rows, kindRow{name, p.kind(te, 0), p.txt(te)})
		}
	}
	sort.Slice(rows, func(i, j int) bool { return rows[i].name < rows[j].name })
	return rows
}

// ---- (d) where jsonNull values come from

type site struct{ label, class string }

var sliceBuiltins = map[string]bool{"append": true, "copy": true, "make": true, "new": true, "cap": true, "len": true, "clear": true}

func (p *pkg) nullSites() (occ []site, uses []site) {
	nOcc, nUse := map[string]int{}, map[string]int{} // per file and function
	for fi, af := range p.files {
		for _, dc := range af.Decls {
			fname := "(top)"
			recvName := ""
			if fd, ok := dc.(*ast.FuncDecl); ok {
				fname = fd.Name.Name
				if t, r := recvType(fd); t != "" {
					fname = t + "." + fname
					if t == "jsonNull" && r != "_" {
						recvName = r
					}
				}
			}
			var stack []ast.Node
			up := func(k int) ast.Node {
				if len(stack) > k {
					return stack[len(stack)-1-k]
				}
				return nil
			}
			ast.Inspect(dc, func(n ast.Node) bool {
				if n == nil {
					stack = stack[:len(stack)-1]
					return true
				}
				id, ok := n.(*ast.Ident)
				if ok && id.Name == "jsonNull" {
					nOcc[p.names[fi]+":"+fname]++
					occ = append(occ, site{fmt.Sprintf("%s:%s#%d", p.names[fi], fname, nOcc[p.names[fi]+":"+fname]), p.nullOccurrence(id, up)})
				} else if ok && recvName != "" && id.Name == recvName {
					if f, isField := up(0).(*ast.Field); !(isField && len(f.Names) > 0 && f.Names[0] == id) {
						nUse[p.names[fi]+":"+fname]++
						uses = append(uses, site{fmt.Sprintf("%s:%s#%d", p.names[fi], fname, nUse[p.names[fi]+":"+fname]), p.receiverUse(id, up)})
					}
				}
				stack = append(stack, n)
				return true
			})
		}
	}
	return
}

// values of a slice type escape the "capacity 0" discipline when they are appended to, re-sliced or indexed
func (p *pkg) grows(val ast.Node, parent ast.Node) bool {
	switch g := parent.(type) {
	case *ast.CallExpr:
		if f, ok := g.Fun.(*ast.Ident); ok && sliceBuiltins[f.Name] {
			return true
		}
	case *ast.SliceExpr, *ast.IndexExpr, *ast.UnaryExpr, *ast.StarExpr:
		return true
	}
	return false
}

func (p *pkg) nullOccurrence(id *ast.Ident, up func(int) ast.Node) string {
	par := up(0)
	other := "other:" + p.txt(par)
	switch x := par.(type) {
	case *ast.TypeSpec:
		if x.Name == id {
			return "typeDecl"
		}
	case *ast.Field:
		if fl, ok := up(1).(*ast.FieldList); ok {
			if fd, ok := up(2).(*ast.FuncDecl); ok && fd.Recv == fl && x.Type == id {
				return "receiver"
			}
		}
	case *ast.CaseClause:
		if _, ok := up(2).(*ast.TypeSwitchStmt); ok {
			for _, t := range x.List {
				if t == id {
					return "caseType"
				}
			}
		}
	case *ast.TypeAssertExpr:
		if x.Type == id {
			return "assertType"
		}
	case *ast.CompositeLit:
		if x.Type == id && len(x.Elts) == 0 {
			if p.grows(x, up(1)) {
				return "other:" + p.txt(up(1))
			}
			return "emptyLit"
		}
	case *ast.CallExpr:
		if x.Fun == id && len(x.Args) == 1 && isIdent(x.Args[0], "nil") && !x.Ellipsis.IsValid() {
			if p.grows(x, up(1)) {
				return "other:" + p.txt(up(1))
			}
			return "nilConv"
		}
	}
	return other
}

func (p *pkg) receiverUse(id *ast.Ident, up func(int) ast.Node) string {
	par := up(0)
	switch x := par.(type) {
	case *ast.SelectorExpr:
		if c, ok := up(1).(*ast.CallExpr); ok && x.X == id && c.Fun == x {
			return "methodCall"
		}
	case *ast.CallExpr:
		if f, ok := x.Fun.(*ast.Ident); ok && f != id && !sliceBuiltins[f.Name] && !x.Ellipsis.IsValid() {
			return "argument"
		}
	case *ast.ReturnStmt:
		return "returned"
	}
	return "other:" + p.txt(par)
}

// ---- output

func strList(l []string) string {
	var q []string
	for _, s := range l {
		q = append(q, fmt.Sprintf("%q", s))
	}
	return "[" + strings.Join(q, ", ") + "]"
}

func main() {
	repo := os.Getenv("VERIF_REPO")
	if repo == "" {
		repo = "/repo"
	}
	if len(os.Args) != 2 {
		die("usage: go run main.go <out.lean>")
	}
	out := os.Args[1]
	var b strings.Builder
	b.WriteString("-- GENERATED by tools/clonefacts from /repo — do not edit\nnamespace Jd.Gen\n\n")
	b.WriteString(`/-- the shape of the body of one clause of cloneNode's type switch -/
inductive CloneBody where
  | copyMap                    -- c := make(T, len(t)); for k, v := range t { c[k] = cloneNode(v) }; return c
  | copySlice (ty : String)    -- return ty(cloneNodes(t))
  | asIs                       -- return n
  | other (body : String)      -- anything else, printed
deriving Repr, DecidableEq, Inhabited

/-- the shape of cloneNodes -/
inductive CloneNodesShape where
  | standard                   -- nil guard; c := make([]JsonNode, len(nodes)); c[i] = cloneNode(n) for all; return c
  | other (body : String)
deriving Repr, DecidableEq, Inhabited

/-- Go's underlying type of a node type, as far as interior pointers go -/
inductive GoKind where
  | map | slice | other
deriving Repr, DecidableEq, Inhabited

`)
	summary := []string{}
	for _, dir := range []string{"v2", "lib"} {
		p := load(repo, dir)
		rows := p.cloneNodeTable()
		fmt.Fprintf(&b, "/-- %s/patch_common.go (or wherever it is declared): the clauses of `cloneNode`'s type switch, in source order -/\n", dir)
		fmt.Fprintf(&b, "def cloneNodeCases_%s : List (List String × CloneBody) := [\n", dir)
		for i, r := range rows {
			sep := ","
			if i == len(rows)-1 {
				sep = ""
			}
			fmt.Fprintf(&b, "  (%s, %s)%s\n", strList(r.types), r.body, sep)
		}
		b.WriteString("]\n\n")
		fmt.Fprintf(&b, "def cloneNodesShape_%s : CloneNodesShape := %s\n\n", dir, p.cloneNodesShape())
		kinds := p.nodeKinds()
		fmt.Fprintf(&b, "/-- %s: every declared type that has all methods of JsonNode, with the kind of its underlying type -/\n", dir)
		fmt.Fprintf(&b, "def nodeKinds_%s : List (String × GoKind) := [\n", dir)
		for i, k := range kinds {
			sep := ","
			if i == len(kinds)-1 {
				sep = ""
			}
			fmt.Fprintf(&b, "  (%q, %s)%s  -- %s\n", k.name, k.kind, sep, k.decl)
		}
		b.WriteString("]\n\n")
		occ, uses := p.nullSites()
		for _, t := range []struct {
			name, doc string
			l         []site
		}{
			{"jsonNullSites", "every occurrence of the type name jsonNull", occ},
			{"jsonNullReceiverUses", "every use of the receiver inside the methods of jsonNull", uses},
		} {
			fmt.Fprintf(&b, "/-- %s: %s -/\ndef %s_%s : List (String × String) := [\n", dir, t.doc, t.name, dir)
			for i, s := range t.l {
				sep := ","
				if i == len(t.l)-1 {
					sep = ""
				}
				fmt.Fprintf(&b, "  (%q, %q)%s\n", s.label, s.class, sep)
			}
			b.WriteString("]\n\n")
		}
		summary = append(summary, fmt.Sprintf("%s: %d clauses, %d node types, %d jsonNull sites", dir, len(rows), len(kinds), len(occ)))
	}
	b.WriteString("end Jd.Gen\n")
	old, _ := os.ReadFile(out)
	if string(old) != b.String() {
		if err := os.WriteFile(out, []byte(b.String()), 0o644); err != nil {
			die("%v", err)
		}
	}
	fmt.Println("clonefacts: " + strings.Join(summary, "; "))
}
