module clonefacts

go 1.23
