// tools/condfacts — regenerate lean/JdModel/Gen/CondSites.lean from /repo's current Go source.
//
// "Branch conditions": for every function and method of the library code (v2/ package jd and lib/, without the
// tests and without verif_hooks.go) the conditions the code branches on, in source order:
//
//	if       the condition of an `if` / `else if` (with its init statement: "init; cond")
//	for      the header of a three-clause / condition-only / bare loop: "init; cond; post"
//	range    the header of a range loop: "k, v := range x"
//	switch   the tag of a switch ("init; tag", "<none>" for a tag-less switch) or the guard of a type
//	         switch ("n2 := n.(type)")
//	case     the expression list of one case of an expression switch ("default" for the default clause)
//	typecase the type list of one case of a type switch ("default" for the default clause)
//	retcmp   a result of a `return` that is a boolean-valued expression built from a comparison
//	         (==, !=, <, <=, >, >=, &&, ||, !), e.g. `return math.Abs(a-b) <= precision`
//
// Key   = "<dir>/<file>:<Receiver.>Func:<kind>#<ordinal of that kind within the function>"
// Value = the expression as go/printer prints it, on one line, white space outside string literals normalised.
//
// The hand-written Lean model makes its case analyses on exactly these conditions; JdProofs/CondSites.lean holds
// the table the model was written against (per Go file) and proves the regenerated one equal to it by kernel
// evaluation. A changed boundary (`<` for `<=`), a condition on another variable, a dropped conjunct, a
// reordered `&&`, a changed case list or changed loop bounds changes the table and breaks the theorem of that
// file, whether or not a generated input reaches the branch.
package main

import (
	"fmt"
	"go/ast"
	"go/parser"
	"go/printer"
	"go/token"
	"os"
	"path/filepath"
	"sort"
	"strings"
)

// oneLine collapses every run of white space outside string / rune / raw-string literals to one blank
// (a raw string spanning lines keeps its content; the line breaks in it become "\n" when written to Lean).
func oneLine(s string) string {
	var b strings.Builder
	rs := []rune(s)
	pendingSpace := false
	i := 0
	emit := func(r rune) {
		if pendingSpace && b.Len() > 0 {
			b.WriteByte(' ')
		}
		pendingSpace = false
		b.WriteRune(r)
	}
	for i < len(rs) {
		r := rs[i]
		switch {
		case r == ' ' || r == '\t' || r == '\n' || r == '\r':
			pendingSpace = true
			i++
		case r == '"' || r == '\'':
			q := r
			emit(r)
			i++
			for i < len(rs) {
				c := rs[i]
				b.WriteRune(c)
				i++
				if c == '\\' && i < len(rs) {
					b.WriteRune(rs[i])
					i++
					continue
				}
				if c == q {
					break
				}
			}
		case r == '`':
			emit(r)
			i++
			for i < len(rs) {
				c := rs[i]
				b.WriteRune(c)
				i++
				if c == '`' {
					break
				}
			}
		default:
			emit(r)
			i++
		}
	}
	return b.String()
}

// leanString writes s as a Lean string literal.
func leanString(s string) string {
	var b strings.Builder
	b.WriteByte('"')
	for _, r := range s {
		switch {
		case r == '\\':
			b.WriteString("\\\\")
		case r == '"':
			b.WriteString("\\\"")
		case r == '\n':
			b.WriteString("\\n")
		case r == '\t':
			b.WriteString("\\t")
		case r == '\r':
			b.WriteString("\\r")
		case r < 0x20 || r == 0x7f:
			fmt.Fprintf(&b, "\\x%02x", r)
		default:
			b.WriteRune(r)
		}
	}
	b.WriteByte('"')
	return b.String()
}

func isBoolCmp(e ast.Expr) bool {
	switch x := e.(type) {
	case *ast.ParenExpr:
		return isBoolCmp(x.X)
	case *ast.BinaryExpr:
		switch x.Op {
		case token.EQL, token.NEQ, token.LSS, token.LEQ, token.GTR, token.GEQ, token.LAND, token.LOR:
			return true
		}
	case *ast.UnaryExpr:
		return x.Op == token.NOT
	}
	return false
}

type site struct{ key, val string }

type fileSites struct {
	name  string // "v2/list.go"
	ident string // "v2_list"
	sites []site
}

func identOf(name string) string {
	s := strings.TrimSuffix(name, ".go")
	var b strings.Builder
	for _, r := range s {
		if r >= 'a' && r <= 'z' || r >= 'A' && r <= 'Z' || r >= '0' && r <= '9' || r == '_' {
			b.WriteRune(r)
		} else {
			b.WriteByte('_')
		}
	}
	return b.String()
}

func main() {
	repo := os.Getenv("VERIF_REPO")
	if repo == "" {
		repo = "/repo"
	}
	if len(os.Args) != 2 {
		fmt.Fprintln(os.Stderr, "usage: go run main.go <out.lean>")
		os.Exit(2)
	}
	out := os.Args[1]
	var all []fileSites
	total := 0
	// the two libraries, and the two command-line programs (C14): "top" = /repo/main.go, "v2jd" = /repo/v2/jd/main.go
	for _, dl := range [][2]string{{"v2", "v2"}, {"lib", "lib"}, {".", "top"}, {"v2/jd", "v2jd"}} {
		dir := dl[1]
		files, _ := filepath.Glob(filepath.Join(repo, dl[0], "*.go"))
		sort.Strings(files)
		if len(files) == 0 {
			fmt.Fprintf(os.Stderr, "condfacts: no Go files in %s\n", filepath.Join(repo, dir))
			os.Exit(3)
		}
		for _, f := range files {
			base := filepath.Base(f)
			if strings.HasSuffix(base, "_test.go") || base == "verif_hooks.go" {
				continue
			}
			fset := token.NewFileSet()
			af, err := parser.ParseFile(fset, f, nil, 0)
			if err != nil {
				fmt.Fprintln(os.Stderr, "condfacts:", err)
				os.Exit(3)
			}
			show := func(n ast.Node) string {
				if n == nil {
					return ""
				}
				var sb strings.Builder
				if err := printer.Fprint(&sb, fset, n); err != nil {
					fmt.Fprintln(os.Stderr, "condfacts:", err)
					os.Exit(3)
				}
				return oneLine(sb.String())
			}
			showList := func(l []ast.Expr) string {
				if l == nil {
					return "default"
				}
				parts := make([]string, len(l))
				for i, e := range l {
					parts[i] = show(e)
				}
				return strings.Join(parts, ", ")
			}
			fs := fileSites{name: dir + "/" + base, ident: identOf(dir + "/" + base)}
			seen := map[string]int{} // function label -> how many declarations of that label so far
			walk := func(label string, body ast.Node) {
				seen[label]++
				if seen[label] > 1 {
					label = fmt.Sprintf("%s~%d", label, seen[label])
				}
				ord := map[string]int{}
				add := func(kind, val string) {
					ord[kind]++
					fs.sites = append(fs.sites, site{fmt.Sprintf("%s:%s:%s#%d", fs.name, label, kind, ord[kind]), val})
				}
				withInit := func(init ast.Stmt, rest string) string {
					if init == nil {
						return rest
					}
					return show(init) + "; " + rest
				}
				ast.Inspect(body, func(n ast.Node) bool {
					switch x := n.(type) {
					case *ast.IfStmt:
						add("if", withInit(x.Init, show(x.Cond)))
					case *ast.ForStmt:
						if x.Init == nil && x.Post == nil {
							if x.Cond == nil {
								add("for", "<forever>")
							} else {
								add("for", show(x.Cond))
							}
						} else {
							add("for", show(x.Init)+"; "+show(x.Cond)+"; "+show(x.Post))
						}
					case *ast.RangeStmt:
						h := ""
						if x.Key != nil {
							h = show(x.Key)
							if x.Value != nil {
								h += ", " + show(x.Value)
							}
							h += " " + x.Tok.String() + " "
						}
						add("range", h+"range "+show(x.X))
					case *ast.SwitchStmt:
						tag := "<none>"
						if x.Tag != nil {
							tag = show(x.Tag)
						}
						add("switch", withInit(x.Init, tag))
						for _, c := range x.Body.List {
							if cc, ok := c.(*ast.CaseClause); ok {
								add("case", showList(cc.List))
							}
						}
					case *ast.TypeSwitchStmt:
						add("switch", withInit(x.Init, show(x.Assign)))
						for _, c := range x.Body.List {
							if cc, ok := c.(*ast.CaseClause); ok {
								add("typecase", showList(cc.List))
							}
						}
					case *ast.SelectStmt:
						fmt.Fprintf(os.Stderr, "condfacts: %s: select statement in %s — not a form this extractor knows\n", fs.name, label)
						os.Exit(3)
					case *ast.ReturnStmt:
						for _, r := range x.Results {
							if isBoolCmp(r) {
								add("retcmp", show(r))
							}
						}
					}
					return true
				})
			}
			for _, dc := range af.Decls {
				switch d := dc.(type) {
				case *ast.FuncDecl:
					if d.Body == nil {
						continue
					}
					label := d.Name.Name
					if d.Recv != nil && len(d.Recv.List) == 1 {
						t := d.Recv.List[0].Type
						if st, ok := t.(*ast.StarExpr); ok {
							t = st.X
						}
						if ix, ok := t.(*ast.IndexExpr); ok { // generic receiver
							t = ix.X
						}
						if id, ok := t.(*ast.Ident); ok {
							label = id.Name + "." + label
						}
					}
					walk(label, d.Body)
				case *ast.GenDecl:
					// function literals in package-level var initialisers
					for _, sp := range d.Specs {
						vs, ok := sp.(*ast.ValueSpec)
						if !ok {
							continue
						}
						for i, v := range vs.Values {
							has := false
							ast.Inspect(v, func(n ast.Node) bool {
								if _, ok := n.(*ast.FuncLit); ok {
									has = true
								}
								return !has
							})
							if has {
								name := "_"
								if i < len(vs.Names) {
									name = vs.Names[i].Name
								}
								walk("var "+name, v)
							}
						}
					}
				}
			}
			total += len(fs.sites)
			all = append(all, fs)
		}
	}

	var b strings.Builder
	b.WriteString("-- GENERATED by tools/condfacts from /repo — do not edit\nnamespace Jd.Gen\n\n")
	b.WriteString("/-! Branch conditions of the library code, one table per Go file, in source order. Key =\n")
	b.WriteString("   \"<dir>/<file>:<Receiver.>Func:<kind>#<ordinal of that kind within the function>\", kinds: if (condition, with\n")
	b.WriteString("   its init statement), for (\"init; cond; post\"), range (header), switch (tag or type-switch guard), case\n")
	b.WriteString("   (expression list), typecase (type list), retcmp (a returned comparison). Value = the Go expression as\n")
	b.WriteString("   go/printer prints it on one line. -/\n\n")
	for _, fs := range all {
		fmt.Fprintf(&b, "/-- %s: %d entries -/\n", fs.name, len(fs.sites))
		fmt.Fprintf(&b, "def condSites_%s : List (String × String) := [", fs.ident)
		for i, s := range fs.sites {
			sep := ","
			if i == len(fs.sites)-1 {
				sep = ""
			}
			fmt.Fprintf(&b, "\n  (%s, %s)%s", leanString(s.key), leanString(s.val), sep)
		}
		if len(fs.sites) > 0 {
			b.WriteString("\n")
		}
		b.WriteString("]\n\n")
	}
	b.WriteString("/-- the names of the per-file tables, in the order of `condSites` -/\n")
	b.WriteString("def condSiteFiles : List String := [")
	for i, fs := range all {
		if i > 0 {
			b.WriteString(",")
		}
		fmt.Fprintf(&b, "\n  %s", leanString(fs.name))
	}
	b.WriteString("\n]\n\n")
	fmt.Fprintf(&b, "/-- all %d branch conditions of v2/ and lib/ -/\n", total)
	b.WriteString("def condSites : List (String × String) :=")
	for i, fs := range all {
		if i == 0 {
			fmt.Fprintf(&b, "\n  condSites_%s", fs.ident)
		} else {
			fmt.Fprintf(&b, "\n  ++ condSites_%s", fs.ident)
		}
	}
	b.WriteString("\n\nend Jd.Gen\n")
	old, _ := os.ReadFile(out)
	if string(old) != b.String() {
		if err := os.WriteFile(out, []byte(b.String()), 0o644); err != nil {
			fmt.Fprintln(os.Stderr, "condfacts:", err)
			os.Exit(3)
		}
	}
	for _, fs := range all {
		fmt.Printf("condfacts: %-24s %d\n", fs.name, len(fs.sites))
	}
	fmt.Printf("condfacts: %d conditions in %d files\n", total, len(all))
}
