module condfacts

go 1.23
