// tools/optfacts — regenerate lean/JdModel/Gen/OptSites.lean from /repo's current Go source.
//
// "Option plumbing": for every call, inside v2/ and lib/, of a function or method that takes the option
// list (v2: []Option / ...Option, lib: []Metadata / ...Metadata), WHICH option list is passed — the caller's
// own parameter, nothing, nil, or something derived. The hand-written model makes exactly these choices
// (e.g. diff_common.go compares leaves WITHOUT the options, jsonList.Equals passes them on, set patching
// uses the metadata of the path); JdProofs/OptSites.lean holds the table the model was written against
// and proves the regenerated one equal to it. Dropping or adding an option argument anywhere (the shape of
// the defects D3, D5c and of several seeded changes) changes the table and breaks that proof, whether or
// not a generated input reaches the place.
package main

import (
	"fmt"
	"go/ast"
	"go/parser"
	"go/printer"
	"go/token"
	"os"
	"path/filepath"
	"sort"
	"strings"
)

func isOptType(t ast.Expr, ty string) (bool, bool) { // (is option list, variadic)
	switch x := t.(type) {
	case *ast.Ellipsis:
		if id, ok := x.Elt.(*ast.Ident); ok && id.Name == ty {
			return true, true
		}
	case *ast.ArrayType:
		if id, ok := x.Elt.(*ast.Ident); ok && id.Name == ty && x.Len == nil {
			return true, false
		}
	}
	return false, false
}

// calls that only produce text (error messages, output): not part of the comparison semantics
var rendering = map[string]bool{"Json": true, "Yaml": true, "Render": true, "RenderPatch": true, "RenderMerge": true, "raw": true}

type sig struct {
	idx      int
	variadic bool
}

func main() {
	repo := os.Getenv("VERIF_REPO")
	if repo == "" {
		repo = "/repo"
	}
	out := os.Args[1]
	type site struct{ label, kind string }
	var sites []site
	for _, d := range []struct{ dir, ty string }{{"v2", "Option"}, {"lib", "Metadata"}} {
		fset := token.NewFileSet()
		files, _ := filepath.Glob(filepath.Join(repo, d.dir, "*.go"))
		sort.Strings(files)
		var parsed []*ast.File
		var names []string
		for _, f := range files {
			b := filepath.Base(f)
			if strings.HasSuffix(b, "_test.go") || b == "verif_hooks.go" {
				continue
			}
			af, err := parser.ParseFile(fset, f, nil, 0)
			if err != nil {
				fmt.Fprintln(os.Stderr, "optfacts:", err)
				os.Exit(3)
			}
			parsed = append(parsed, af)
			names = append(names, d.dir+"/"+b)
		}
		// callees: name -> position of the option list (all declarations of that name must agree)
		callee := map[string]sig{}
		bad := map[string]bool{}
		for _, af := range parsed {
			for _, dc := range af.Decls {
				fd, ok := dc.(*ast.FuncDecl)
				if !ok {
					continue
				}
				idx := 0
				for _, p := range fd.Type.Params.List {
					k := len(p.Names)
					if k == 0 {
						k = 1
					}
					if is, v := isOptType(p.Type, d.ty); is {
						s := sig{idx + k - 1, v}
						if old, ok := callee[fd.Name.Name]; ok && old != s {
							bad[fd.Name.Name] = true
						}
						callee[fd.Name.Name] = s
					}
					idx += k
				}
			}
			// interface methods
			ast.Inspect(af, func(n ast.Node) bool {
				it, ok := n.(*ast.InterfaceType)
				if !ok {
					return true
				}
				for _, m := range it.Methods.List {
					ft, ok := m.Type.(*ast.FuncType)
					if !ok || len(m.Names) != 1 {
						continue
					}
					idx := 0
					for _, p := range ft.Params.List {
						k := len(p.Names)
						if k == 0 {
							k = 1
						}
						if is, v := isOptType(p.Type, d.ty); is {
							s := sig{idx + k - 1, v}
							if old, ok := callee[m.Names[0].Name]; ok && old != s {
								bad[m.Names[0].Name] = true
							}
							callee[m.Names[0].Name] = s
						}
						idx += k
					}
				}
				return true
			})
		}
		for fi, af := range parsed {
			for _, dc := range af.Decls {
				fd, ok := dc.(*ast.FuncDecl)
				if !ok || fd.Body == nil {
					continue
				}
				fname := fd.Name.Name
				if fd.Recv != nil && len(fd.Recv.List) == 1 {
					t := fd.Recv.List[0].Type
					if st, ok := t.(*ast.StarExpr); ok {
						t = st.X
					}
					if id, ok := t.(*ast.Ident); ok {
						fname = id.Name + "." + fname
					}
				}
				own := map[string]bool{}
				for _, p := range fd.Type.Params.List {
					if is, _ := isOptType(p.Type, d.ty); is {
						for _, n := range p.Names {
							own[n.Name] = true
						}
					}
				}
				ord := map[string]int{}
				ast.Inspect(fd.Body, func(n ast.Node) bool {
					call, ok := n.(*ast.CallExpr)
					if !ok {
						return true
					}
					name := ""
					switch f := call.Fun.(type) {
					case *ast.Ident:
						name = f.Name
					case *ast.SelectorExpr:
						name = f.Sel.Name
					}
					s, ok := callee[name]
					if !ok || bad[name] || rendering[name] {
						return true
					}
					kind := ""
					switch {
					case len(call.Args) <= s.idx:
						kind = "none"
					default:
						a := call.Args[s.idx]
						var sb strings.Builder
						printer.Fprint(&sb, fset, a)
						txt := sb.String()
						if id, ok := a.(*ast.Ident); ok && own[id.Name] {
							kind = "own"
						} else if id, ok := a.(*ast.Ident); ok && id.Name == "nil" {
							kind = "nil"
						} else {
							kind = "expr:" + strings.Join(strings.Fields(txt), " ")
						}
						if s.variadic && len(call.Args) > s.idx+1 {
							kind = "list:" + fmt.Sprint(len(call.Args)-s.idx)
						}
					}
					ord[name]++
					sites = append(sites, site{fmt.Sprintf("%s:%s:%s#%d", names[fi], fname, name, ord[name]), kind})
					return true
				})
			}
		}
	}
	var b strings.Builder
	b.WriteString("-- GENERATED by tools/optfacts from /repo — do not edit\nnamespace Jd.Gen\n\n")
	b.WriteString("/-- every call of a function that takes the option list (v2) / metadata list (lib): which list is passed —\n    \"own\" the caller's own parameter, \"none\" no argument, \"nil\", \"expr:…\" something else -/\n")
	b.WriteString("def optSites : List (String × String) := [\n")
	for i, s := range sites {
		sep := ","
		if i == len(sites)-1 {
			sep = ""
		}
		fmt.Fprintf(&b, "  (%q, %q)%s\n", s.label, s.kind, sep)
	}
	b.WriteString("]\n\nend Jd.Gen\n")
	old, _ := os.ReadFile(out)
	if string(old) != b.String() {
		os.WriteFile(out, []byte(b.String()), 0o644)
	}
	fmt.Printf("optfacts: %d sites\n", len(sites))
}
