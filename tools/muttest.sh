#!/bin/bash
# tools/muttest.sh <repo-worktree> <Cxx> [<Cxx>...]
# Runs the quick checks of the given properties against a scratch worktree of josephburnett/jd
# (e.g. one with a seeded change applied) from a scratch copy of /verif, so that neither /repo nor
# /verif is disturbed. Prints one line per property: "<Cxx> exit=<n> <VIOLATION line or ->".
set -u
WT="$1"; shift
SCR=$(mktemp -d /tmp/vmut.XXXXXX)
rsync -a --exclude .git --exclude replays --exclude evidence /verif/ "$SCR/"
mkdir -p "$SCR/evidence"
cd "$SCR"
for p in "$@"; do
  out=$(VERIF_REPO="$WT" ./check "$p" ${TIER:-quick} 2>&1)
  rc=$?
  v=$(echo "$out" | grep -m1 "^VIOLATION" || echo "-")
  echo "$p exit=$rc $v"
  if [ -n "${VERBOSE:-}" ]; then echo "$out" | tail -15; fi
  if [ $rc -ne 0 ] && [ -n "${KEEP:-}" ]; then mkdir -p "$KEEP"; cp -r "$SCR/replays" "$KEEP/" 2>/dev/null; fi
done
cd /; rm -rf "$SCR"
