#!/usr/bin/env python3
"""Regenerate /verif/MANIFEST.json from lean/obligations.json (claimed properties) and properties.jsonl."""
import json, os
ROOT = os.path.join(os.path.dirname(os.path.abspath(__file__)), "..")
props = [json.loads(l) for l in open(os.path.join(ROOT, "properties.jsonl"))]
obl = json.load(open(os.path.join(ROOT, "lean", "obligations.json")))
na_reasons = json.load(open(os.path.join(ROOT, "tools", "not_applicable.json")))
claimed = [p["id"] for p in props if p["id"] in obl]
checks = []
for p in props:
    if p["id"] not in obl:
        continue
    o = obl[p["id"]]
    checks.append({
        "property_id": p["id"],
        "quick_cmd": f"./check {p['id']} quick",
        "thorough_cmd": f"./check {p['id']} thorough",
        "evidence_file": f"/verif/evidence/{p['id']}.json",
        "replay_cmd_template": "./check replay {path}",
        "engine": "lean-model+correspondence",
        "level_claimed": {
            "category": "proof",
            "text": o.get("level_text") or ("Lean 4 theorems about a hand-written executable model of the jd library, tied to /repo on every run by a "
                     "differential correspondence check (native model driver vs. the real library in-process, exact comparison of canonically "
                     "encoded outputs) and by facts regenerated from the Go source; the property's spec oracle is also evaluated on the "
                     "implementation's own outputs. " + o.get("strength", "")),
            "design_ref": "DESIGN.md §7 " + p["id"]},
        "level_note": o.get("level_note") or ("Trusted: Lean kernel; axioms ⊆ {propext, Classical.choice, Quot.sound}; the correspondence harness, its generators and "
                      "the fact extractor; contracts for encoding/json, strconv, yaml.v2, golcs, jsonpointer, sort; FNV collision-freedom "
                      "on the inputs at hand (HashOK); Lean runtime Float = Go float64."),
        "technique": "machine-checked proof in Lean 4 over a hand-written model + model/implementation correspondence check"})
m = {"version": 1,
     "setup_cmd": "./check setup",
     "hooks": {"guard": "verif (Go build tag)",
               "enable": "go build -tags verif (the harness module replaces github.com/josephburnett/jd and .../jd/v2 by /repo and /repo/v2)",
               "baseline_off_cmd": "cd /repo && GOFLAGS=-mod=mod GOPROXY=off go test -vet=off -count=1 ./... ; cd /repo/v2 && GOFLAGS=-mod=mod GOPROXY=off go test -vet=off -count=1 ./...",
               "source_commits": json.load(open(os.path.join(ROOT, "tools", "hook_commits.json"))),
               "add_only": True},
     "engines": [{"name": "lean-model+correspondence", "path": "/verif/lean, /verif/harness, /verif/check, /verif/tools",
                  "serves_properties": claimed,
                  "kind_free_text": "Lean 4 model + theorems (lake), native model driver (lean_exe), Go differential harness against /repo built with -tags verif, go source fact extractor"}],
     "checks": checks,
     "not_applicable": [{"property_id": p["id"], "reason": na_reasons.get(p["id"], "check under construction in this round; will be claimed when its check runs")}
                        for p in props if p["id"] not in obl],
     "notes": "See DESIGN.md. ./check <Cxx> quick|thorough; ./check replay <file>; known findings in known_findings.json."}
json.dump(m, open(os.path.join(ROOT, "MANIFEST.json"), "w"), indent=1, ensure_ascii=False)
print("claimed:", claimed)
