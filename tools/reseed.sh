#!/bin/bash
# tools/reseed.sh [jobs] — re-run the registered checks against every seeded change applied on top of /repo's HEAD
# (scratch worktrees + scratch copies of /verif; nothing is changed in /repo or /verif except seeded/*/meta.json).
# RESEED_TAG=<tag> stores the result under final_on_head_<tag>; VERIF_SEED selects the generators' seed.
cd /verif
JOBS=${1:-4}
one() {
  d=$1
  id=$(basename $d)
  prop=$(python3 -c "import json;print(json.load(open('/verif/$d/meta.json')).get('property') or '')")
  checks=$(python3 -c "import json;print(' '.join(json.load(open('/verif/$d/meta.json')).get('checks_run') or []))")
  [ -z "$checks" ] && checks=$prop
  wt=/tmp/reseed_wt_$id
  git -C /repo worktree remove --force $wt >/dev/null 2>&1
  git -C /repo worktree add -q --detach $wt HEAD
  if (cd $wt && git apply /verif/$d/patch.diff 2>/dev/null); then
    res=$(/verif/tools/muttest.sh $wt $checks 2>&1 | grep "exit=")
    applied=true
  else
    res="patch no longer applies on HEAD (superseded by a later fix)"
    applied=false
  fi
  python3 - "/verif/$d/meta.json" "$applied" "$res" <<'PY'
import json,sys,subprocess,os
p,applied,res=sys.argv[1:4]
m=json.load(open(p))
tag=os.environ.get('RESEED_TAG')
m['final_on_head'+(('_'+tag) if tag else '')]={"head":subprocess.check_output(['git','-C','/repo','log','--format=%h','-1']).decode().strip(),"patch_applies":applied=="true","check_results":[l.split(' replay=')[0]+(" no-failing-input-found" if "no-failing-input-found" in l else "") for l in res.splitlines()]}
json.dump(m,open(p,'w'),indent=1)
PY
  git -C /repo worktree remove --force $wt >/dev/null 2>&1
  echo "$id: $res" | tr '\n' ' '; echo
}
export -f one
ls -d seeded/*/ | xargs -P $JOBS -I{} bash -c 'one {}'
git -C /repo worktree prune
