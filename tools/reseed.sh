#!/bin/bash
# tools/reseed.sh — re-run the registered checks against every seeded change applied on top of /repo's HEAD
# (scratch worktree + scratch copy of /verif; nothing is changed in /repo or /verif except seeded/*/meta.json).
cd /verif
for d in seeded/*/; do
  id=$(basename $d)
  prop=$(python3 -c "import json;print(json.load(open('$d/meta.json')).get('property') or '')")
  checks=$(python3 -c "import json;print(' '.join(json.load(open('$d/meta.json')).get('checks_run') or []))")
  [ -z "$checks" ] && checks=$prop
  wt=/tmp/reseed_wt
  git -C /repo worktree remove --force $wt >/dev/null 2>&1
  git -C /repo worktree add -q --detach $wt HEAD
  if (cd $wt && git apply /verif/$d/patch.diff 2>/dev/null); then
    res=$(tools/muttest.sh $wt $checks 2>&1 | grep "exit=")
    applied=true
  else
    res="patch no longer applies on HEAD (superseded by a later fix)"
    applied=false
  fi
  python3 - "$d/meta.json" "$applied" "$res" <<'PY'
import json,sys,subprocess
p,applied,res=sys.argv[1:4]
m=json.load(open(p))
m['final_on_head'+(('_'+__import__('os').environ['RESEED_TAG']) if __import__('os').environ.get('RESEED_TAG') else '')]={"head":subprocess.check_output(['git','-C','/repo','log','--format=%h','-1']).decode().strip(),"patch_applies":applied=="true","check_results":[l.split(' replay=')[0]+(" no-failing-input-found" if "no-failing-input-found" in l else "") for l in res.splitlines()]}
json.dump(m,open(p,'w'),indent=1)
PY
  echo "$id: $res" | tr '\n' ' '; echo
done
git -C /repo worktree remove --force /tmp/reseed_wt >/dev/null 2>&1
