#!/usr/bin/env python3
"""tools/metanote.py <seeded-id> <note> <new check result line>... — record that a seeded change escaped the first run:
moves check_results to first_check_results, stores the new results and the note."""
import json, sys, os
d = os.path.join(os.path.dirname(os.path.dirname(os.path.abspath(__file__))), "seeded", sys.argv[1], "meta.json")
m = json.load(open(d))
if "first_check_results" not in m:
    m["first_check_results"] = m.get("check_results")
m["check_results"] = [l.split(" replay=")[0] + (" no-failing-input-found" if "no-failing-input-found" in l else "") for l in sys.argv[3:]]
m["note"] = sys.argv[2]
json.dump(m, open(d, "w"), indent=1)
