#!/usr/bin/env python3
"""tools/mkseeded.py — regenerate seeded/README.md from seeded/*/meta.json"""
import json, glob, os
ROOT = os.path.dirname(os.path.dirname(os.path.abspath(__file__)))
def short(s, n):
    s = " ".join((s or "").split()).replace("|", "/")
    return s if len(s) <= n else s[:n - 1] + "…"
def verdict(lines):
    out = []
    for l in lines or []:
        f = l.split()
        if not f or not f[0].startswith("C"):
            out.append(short(l, 80)); continue
        p = f[0]
        if "exit=0" in l: out.append(f"{p} quiet")
        elif "no-failing-input-found" in l: out.append(f"{p} alarm (proof/tie broke, no failing input)")
        elif "VIOLATION" in l: out.append(f"**{p} failing input**")
        else: out.append(short(l, 60))
    return "; ".join(out)
rows = []
for mp in sorted(glob.glob(os.path.join(ROOT, "seeded", "*", "meta.json"))):
    m = json.load(open(mp))
    foh = m.get("final_on_head") or {}
    if foh and not foh.get("patch_applies", True):
        head = "patch superseded by a later fix"
    else:
        head = verdict(foh.get("check_results"))
    first = verdict(m.get("first_check_results")) if m.get("first_check_results") else ""
    rows.append((m.get("id") or os.path.basename(os.path.dirname(mp)), m.get("property") or "", short(m.get("summary"), 170), short(m.get("needs"), 150),
                 first, verdict(m.get("check_results")), (foh.get("head") or "") + ": " + head if foh else "", short(m.get("note"), 200)))
with open(os.path.join(ROOT, "seeded", "README.md"), "w") as f:
    f.write("# Seeded changes\n\nEach directory holds `patch.diff` (applies to /repo with `git apply`), the demonstration that fails with the change and passes "
            "without it, and `meta.json` (origin, what it needs to manifest, what was confirmed, the check results). Origin: blind sub-agents that were given only the "
            "text of one property and a scratch worktree (no access to /verif), unless `meta.json` says otherwise. None of these changes is committed in /repo.\n"
            "Re-run one with `tools/muttest.sh <worktree with the patch applied> <Cxx>…`, all of them on /repo's HEAD with `tools/reseed.sh` (fills `final_on_head`), "
            "and regenerate this file with `tools/mkseeded.py`.\n\n"
            "Columns: *first run* = result before the check was strengthened (only where the change escaped at first); *at archive time* = after strengthening; "
            "*on HEAD* = the registered quick checks re-run with the patch applied on the final /repo HEAD.\n\n")
    f.write("| id | property | change | needs | first run | at archive time | on HEAD | note |\n|---|---|---|---|---|---|---|---|\n")
    for r in rows:
        f.write("| " + " | ".join(r) + " |\n")
print(len(rows), "seeded changes")
