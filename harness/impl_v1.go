package main

import (
	"fmt"
	"math"
	"strings"

	jd1 "github.com/josephburnett/jd/lib"
)

// V1Meta is the ordered metadata list given to the v1 API (package lib). It reuses OptItem:
// "S" SET, "B" MULTISET, "M" MERGE, "P" SetPrecision, "K" Setkeys.
type V1Meta []OptItem

func (m V1Meta) Wire() string {
	parts := []string{}
	for _, it := range m {
		switch it.Kind {
		case "P":
			parts = append(parts, fmt.Sprintf("P%016x", math.Float64bits(it.Prec)))
		case "K":
			hs := []string{}
			for _, k := range it.Keys {
				hs = append(hs, hexStr(k))
			}
			parts = append(parts, "K"+strings.Join(hs, "/"))
		default:
			parts = append(parts, it.Kind)
		}
	}
	return "m=" + strings.Join(parts, ",")
}

// ParseV1Meta reads the wire form back (for recipes).
func ParseV1Meta(w string) (V1Meta, error) {
	if !strings.HasPrefix(w, "m=") {
		return nil, fmt.Errorf("bad v1 metadata %q", w)
	}
	o, err := ParseOpts("o=" + w[2:])
	if err != nil {
		return nil, err
	}
	for _, it := range o {
		if it.Kind == "C" {
			return nil, fmt.Errorf("v1 has no COLOR metadata")
		}
	}
	return V1Meta(o), nil
}

func (m V1Meta) Go() []jd1.Metadata {
	out := []jd1.Metadata{}
	for _, it := range m {
		switch it.Kind {
		case "M":
			out = append(out, jd1.MERGE)
		case "S":
			out = append(out, jd1.SET)
		case "B":
			out = append(out, jd1.MULTISET)
		case "P":
			out = append(out, jd1.SetPrecision(it.Prec))
		case "K":
			out = append(out, jd1.Setkeys(it.Keys...))
		}
	}
	return out
}

func (m V1Meta) Name() string {
	if len(m) == 0 {
		return "none"
	}
	parts := []string{}
	for _, it := range m {
		switch it.Kind {
		case "M":
			parts = append(parts, "MERGE")
		case "S":
			parts = append(parts, "SET")
		case "B":
			parts = append(parts, "MULTISET")
		case "P":
			parts = append(parts, fmt.Sprintf("SetPrecision(%v)", it.Prec))
		case "K":
			parts = append(parts, "Setkeys("+strings.Join(it.Keys, ",")+")")
		}
	}
	return strings.Join(parts, "+")
}

func (m V1Meta) Has(kind string) bool { return OptSet(m).Has(kind) }

func mustNodeV1(w string) jd1.JsonNode {
	n, err := jd1.VerifDecodeNode(w)
	if err != nil {
		panic("harness: cannot decode v1 node " + w + ": " + err.Error())
	}
	return n
}

func mustDiffV1(w string) jd1.Diff {
	d, err := jd1.VerifDecodeDiff(w)
	if err != nil {
		panic("harness: cannot decode v1 diff " + w + ": " + err.Error())
	}
	return d
}

func encOutcomeNodeV1(n jd1.JsonNode, err error) string {
	if err != nil {
		return "err"
	}
	return "ok " + jd1.VerifEncodeNode(n)
}

// ---- implementation side of the v1 core operations (fresh values per call: v1 Patch mutates
// ---- maps and slices of its receiver in place)

func implV1Hash(m V1Meta, nw string) string {
	r, _ := safely(func() string { return hashWire(jd1.VerifHashCode(mustNodeV1(nw), m.Go())) })
	return r
}

func implV1Equals(m V1Meta, aw, bw string) string {
	r, _ := safely(func() string { return boolWire(mustNodeV1(aw).Equals(mustNodeV1(bw), m.Go()...)) })
	return r
}

func implV1Diff(m V1Meta, aw, bw string) string {
	r, _ := safely(func() string { return jd1.VerifEncodeDiff(mustNodeV1(aw).Diff(mustNodeV1(bw), m.Go()...)) })
	return r
}

func implV1Patch(nw, dw string) string {
	r, _ := safely(func() string { return encOutcomeNodeV1(mustNodeV1(nw).Patch(mustDiffV1(dw))) })
	return r
}

// implV1DiffPatch: a.Diff(b, meta) then a.Patch(d) on the SAME in-memory values.
// Returns the diff as produced (encoded BEFORE patching: Patch mutates shared structure), the patch
// outcome, whether the result Equals a fresh b under the metadata, and the panic message if any.
func implV1DiffPatch(m V1Meta, aw, bw string) (dw, outcome string, equalsB bool, pmsg string) {
	res, msg := safely(func() string {
		a, b := mustNodeV1(aw), mustNodeV1(bw)
		d := a.Diff(b, m.Go()...)
		dw = jd1.VerifEncodeDiff(d)
		r, err := a.Patch(d)
		outcome = encOutcomeNodeV1(r, err)
		if err == nil {
			equalsB = r.Equals(mustNodeV1(bw), m.Go()...)
		}
		return "done"
	})
	if res == "panic" {
		pmsg = msg
		if dw == "" {
			dw = "panic"
		}
		outcome = "panic"
	}
	return
}

// ---- implementation side of the v1 text layer (diff_write.go, diff_read.go, pointer.go)

func encOutcomeDiffV1(d jd1.Diff, err error) string {
	if err != nil {
		return "err"
	}
	return "ok " + jd1.VerifEncodeDiff(d)
}

// implV1Render: Diff.Render() of the wire-decoded diff ("ok x…" | "panic").
func implV1Render(dw string, color bool) string {
	r, _ := safely(func() string {
		d := mustDiffV1(dw)
		if color {
			return "ok " + textWire(d.Render(jd1.COLOR))
		}
		return "ok " + textWire(d.Render())
	})
	return r
}

func implV1ReadDiff(text string) string {
	r, _ := safely(func() string { return encOutcomeDiffV1(jd1.ReadDiffString(text)) })
	return r
}

func implV1RenderPatch(dw string) string {
	r, _ := safely(func() string { return encOutcomeText(mustDiffV1(dw).RenderPatch()) })
	return r
}

func implV1ReadPatch(text string) string {
	r, _ := safely(func() string { return encOutcomeDiffV1(jd1.ReadPatchString(text)) })
	return r
}

// implV1RenderMerge: RenderMerge stores jsonNull{} into the diff it is called on, hence a fresh diff per call.
func implV1RenderMerge(dw string) string {
	r, _ := safely(func() string { return encOutcomeText(mustDiffV1(dw).RenderMerge()) })
	return r
}

func implV1ReadMerge(text string) string {
	r, _ := safely(func() string { return encOutcomeDiffV1(jd1.ReadMergeString(text)) })
	return r
}

func implV1Json(nw string) string {
	r, _ := safely(func() string { return "ok " + textWire(mustNodeV1(nw).Json()) })
	return r
}

// v1TextHalf is the second half of C17 on the real values: d := a.Diff(b, meta); text := d.Render();
// d2 := ReadDiffString(text); r := a'.Patch(d2) on a fresh a'; r.Equals(b', meta).
type v1TextHalf struct {
	text    string // the rendered diff
	render  string // "ok x…" | "panic"
	read    string // outcome of ReadDiffString: "ok <diff>" | "err" | "panic" | "" (not reached)
	patch   string // outcome of patching a fresh a with the re-read diff
	equalsB bool
	pmsg    string
}

func implV1TextHalf(m V1Meta, aw, bw string) v1TextHalf {
	var t v1TextHalf
	stage := "render"
	res, msg := safely(func() string {
		a, b := mustNodeV1(aw), mustNodeV1(bw)
		d := a.Diff(b, m.Go()...)
		t.text = d.Render()
		t.render = "ok " + textWire(t.text)
		stage = "read"
		d2, err := jd1.ReadDiffString(t.text)
		t.read = encOutcomeDiffV1(d2, err)
		if err != nil {
			t.patch = "err"
			return "done"
		}
		stage = "patch"
		r, err := mustNodeV1(aw).Patch(d2)
		t.patch = encOutcomeNodeV1(r, err)
		if err == nil {
			t.equalsB = r.Equals(mustNodeV1(bw), m.Go()...)
		}
		return "done"
	})
	if res == "panic" {
		t.pmsg = msg
		switch stage {
		case "render":
			t.render, t.read, t.patch = "panic", "", "panic"
		case "read":
			t.read, t.patch = "panic", "panic"
		default:
			t.patch = "panic"
		}
	}
	return t
}
