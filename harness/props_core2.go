package main

import (
	"fmt"
	"math"
	"sort"
	"strings"
	"unicode/utf8"

	jd "github.com/josephburnett/jd/v2"
)

// ---------------------------------------------------------------------------------------------
// C04 — Equals decides exactly the advertised equivalence
func propC04(run *Run, n int) {
	run.rule = "pairs (a, b): b = permutation / duplication / mutation of a, type-confusable scalars, constructed hash aliases; x {none, SET, MULTISET, SetKeys, Precision}; non-trivial = a and b are not identical texts; distinct = distinct (options, a, b)"
	r := NewRng(run.Seed)
	precCfg := func() GenCfg {
		c := DefaultCfg()
		c.Nums = []float64{1, 1.00001, 1.0005, 1.4, 1.5, 2, 0, math.Copysign(0, -1), 100, 100.0004}
		return c
	}
	keyed := func() GenCfg { c := DefaultCfg(); c.SetKeys = []string{"id"}; c.Keys = []string{"a", "id", "x"}; return c }
	keyedPrecC04 := func() GenCfg {
		c := keyed()
		c.Nums = []float64{1, 1.00001, 1.0005, 1.4, 2}
		c.ScalarBias = 3
		return c
	}
	type ch struct {
		o   OptSet
		cfg func() GenCfg
		lbl string
	}
	choices := []ch{
		{OptNone, DefaultCfg, "none"}, {OptNone, NastyCfg, "none-nasty"},
		{OptSetO, DefaultCfg, "SET"}, {OptSetO, NastyCfg, "SET-nasty"},
		{OptMset, DefaultCfg, "MULTISET"}, {OptMset, NastyCfg, "MULTISET-nasty"},
		{OptKeys("id"), keyed, "SetKeys(id)"},
		{OptPrec(0.001), precCfg, "Precision(0.001)"}, {OptPrec(0.5), precCfg, "Precision(0.5)"}, {OptPrec(0), precCfg, "Precision(0)"},
		// a Precision together with the set readings (the library accepts the combination; the CLI refuses -precision with
		// -set / -mset but accepts it with -setkeys). MULTISET + Precision is left out: "within eps" is not transitive and
		// the bag comparison of the spec matches greedily, so the spec itself is not a judge there.
		{append(append(OptSet{}, OptSetO...), OptPrec(0.001)...), precCfg, "SET+Precision(0.001)"},
		{append(OptKeys("id"), OptPrec(0.001)...), keyedPrecC04, "SetKeys(id)+Precision(0.001)"},
	}
	confusable := []*Val{VStr(""), VArr(), VObj(), VNull(), VVoid(), VStr("AAAAAAAA"), VNum(2261634.5098039214), VNum(0), VNum(math.Copysign(0, -1)), VBool(false), VStr("0"), VStr("false"), VStr("null"), VArr(VArr()), VArr(VStr("")), VArr(VObj()), VObj("a", VArr())}
	for i := 0; i < n; i++ {
		c := choices[r.Intn(len(choices))]
		cfg := c.cfg()
		var a, b *Val
		switch r.Intn(10) {
		case 0, 1: // permutation / duplication of an array somewhere
			a = cfg.Arr(r, 0)
			b = a.Clone()
			permuteDeep(r, b, !strings.HasPrefix(c.lbl, "SetKeys"))
		case 2: // confusable pool, possibly wrapped in arrays
			a = confusable[r.Intn(len(confusable))].Clone()
			b = confusable[r.Intn(len(confusable))].Clone()
			if r.Chance(1, 2) {
				a, b = VArr(a), VArr(b)
			}
			if r.Chance(1, 4) {
				a, b = VArr(a, VNum(1)), VArr(VNum(1), b)
			}
		case 4: // multiplicities: every element repeated k times vs other elements repeated k times
			k := 2 + r.Intn(2)
			x, y := cfg.scalar(r), cfg.scalar(r)
			a, b = VArr(), VArr()
			a.A, b.A = []*Val{}, []*Val{}
			for j := 0; j < k; j++ {
				a.A = append(a.A, x.Clone())
				b.A = append(b.A, y.Clone())
			}
			if r.Chance(1, 2) {
				z := cfg.scalar(r)
				a.A = append(a.A, z)
				b.A = append(b.A, z.Clone())
			}
			if r.Chance(1, 3) { // nested bags are compared by hash only
				a, b = VArr(a), VArr(b)
			}
			if r.Chance(1, 4) {
				b.A = b.A[:0]
				if len(a.A) > 0 && a.A[0].K == KArr {
					b.A = append(b.A, VArr())
				}
			}
		case 3: // constructed alias: singleton set vs the number whose bits are the member's hash
			m := cfg.scalar(r)
			h := jd.VerifHashCode(mustNode(m.Wire()), c.o.Go())
			var u uint64
			for k := 7; k >= 0; k-- {
				u = u<<8 | uint64(h[k])
			}
			x := math.Float64frombits(u)
			if math.IsNaN(x) || math.IsInf(x, 0) {
				a, b = cfg.Pair(r)
			} else {
				a, b = VArr(VArr(m)), VArr(VNum(x))
			}
		case 5: // SetKeys: two members that share an identity and differ elsewhere (Equals compares whole members)
			a, b = cfg.Pair(r)
			if len(cfg.SetKeys) > 0 {
				arr := cfg.Arr(r, 0)
				objs := []int{}
				for j, e := range arr.A {
					if e.K == KObj {
						objs = append(objs, j)
					}
				}
				if len(objs) > 0 {
					j := objs[r.Intn(len(objs))]
					tw := arr.A[j].Clone()
					tw.O["x"] = VNum(7)
					if arr.A[j].O["x"] != nil && arr.A[j].O["x"].Wire() == tw.O["x"].Wire() {
						tw.O["x"] = VNum(8)
					}
					arr.A = append(arr.A[:j+1], append([]*Val{tw}, arr.A[j+1:]...)...)
					a = arr
					b = arr.Clone()
					switch r.Intn(3) {
					case 0:
						b.A = append(b.A[:j], b.A[j+1:]...) // only the twin is left
					case 1:
						b.A = append(b.A[:j+1], b.A[j+2:]...) // only the original is left
					default:
						b.A[j], b.A[j+1] = b.A[j+1], b.A[j] // the same set, permuted
					}
					if r.Chance(1, 3) {
						a, b = VObj("items", a), VObj("items", b)
					}
					run.Count("setkeys:shared-identity")
				}
			}
		case 7: // an object whose ONE key spells "<k1><the 8 hash-code bytes of v1><k2>" of another object {k1:v1, k2:v2}: the
			// encodings that object hashing feeds to the hash function must not be confusable (keys are hashed, not
			// concatenated raw)
			if n, hs, ok := printableHashNumber(c.o); ok {
				a = VArr(VObj("a", VNum(n), "b", VNum(2)))
				b = VArr(VObj("a"+hs+"b", VNum(2)))
				if r.Chance(1, 2) {
					a, b = VArr(VObj("k", a)), VArr(VObj("k", b))
				}
				run.Count("objects:key-spelling-key-hash-key")
			} else {
				a, b = cfg.Pair(r)
			}
		case 6: // numbers at the boundary of the precision: one ulp apart, exactly eps apart, just beyond eps
			a = cfg.Doc(r, 0)
			if r.Chance(1, 3) {
				a = VArr(VNum(cfg.Nums[r.Intn(len(cfg.Nums))]), a)
			}
			b = a.Clone()
			if boundaryJitter(r, b, c.o.PrecOf()) == 0 {
				a, b = VNum(1), VNum(1)
				boundaryJitter(r, b, c.o.PrecOf())
			}
			run.Count("numbers:boundary-of-precision")
		default:
			a, b = cfg.Pair(r)
		}
		a, b = withVoid(r, a, b)
		addC04Case(run, c.o, c.lbl, a, b)
		if r.Chance(1, 25) {
			addC04Chained(run, r, cfg)
		}
		if r.Chance(1, 20) {
			addC04ChainedTyped(run, r, cfg)
		}
	}
}

var printableHashCache = map[string][2]interface{}{}

// printableHashNumber finds a small integer whose hash code (under the options) consists of printable ASCII bytes only,
// so that it can be spelled inside an object key
func printableHashNumber(o OptSet) (float64, string, bool) {
	if v, ok := printableHashCache[o.Wire()]; ok {
		return v[0].(float64), v[1].(string), v[1].(string) != ""
	}
	found, hs := 0.0, ""
	safely(func() string {
		for i := 0; i < 60000 && hs == ""; i++ {
			h := jd.VerifHashCode(mustNode(VNum(float64(i)).Wire()), o.Go())
			okb := true
			for _, c := range h {
				if c < 0x20 || c > 0x7e || c == '"' || c == '\\' {
					okb = false
					break
				}
			}
			if okb {
				found, hs = float64(i), string(h[:])
			}
		}
		return ""
	})
	printableHashCache[o.Wire()] = [2]interface{}{found, hs}
	return found, hs, hs != ""
}

// addC04Chained: Equals between documents that successive Patch calls returned (they may share backing arrays:
// appending at index -1 reuses spare capacity), judged on their encodings by the same oracle
func addC04Chained(run *Run, r *Rng, cfg GenCfg) {
	n := r.Intn(4)
	xs := []*Val{}
	for j := 0; j < n; j++ {
		xs = append(xs, cfg.scalar(r))
	}
	docs := []string{}
	eqs := map[[2]int]string{}
	res, _ := safely(func() string {
		cur := mustNode(VArr(xs...).Wire())
		nodes := []jd.JsonNode{cur}
		for k := 0; k < 4; k++ {
			v := cfg.scalar(r)
			if r.Chance(1, 3) && len(xs) > 0 {
				v = xs[0].Clone()
			}
			d := mustDiff(fmt.Sprintf("< ( s I-1 | | | %s | ) >", v.Wire()))
			nx, err := cur.Patch(d)
			if err != nil {
				break
			}
			nodes = append(nodes, nx)
			cur = nx
		}
		for _, nd := range nodes {
			docs = append(docs, jd.VerifEncodeNode(nd))
		}
		for i := range nodes {
			for j := range nodes {
				eqs[[2]int{i, j}] = boolWire(nodes[i].Equals(nodes[j]))
			}
		}
		return "done"
	})
	if res == "panic" {
		return
	}
	for i := range docs {
		for j := range docs {
			if i == j {
				continue
			}
			aw, bw := untagWire(docs[i]), untagWire(docs[j])
			c := Case{Recipe: Recipe{"c04x", []string{aw, bw, eqs[[2]int{i, j}], eqs[[2]int{j, i}], eqs[[2]int{i, i}]}}, Desc: map[string]string{"a": aw, "b": bw, "how": "documents returned by successive Patch calls (append at -1)"}}
			c.Nontrivial = aw != bw
			c.Sig = "chained|" + aw + "|" + bw
			c.Probes = append(c.Probes, Probe{Kind: "oracle", Rel: "C04 Equals = advertised equivalence (hash-free spec), symmetric, reflexive",
				Line: fmt.Sprintf("c04 %s %s %s %s %s %s", OptNone.Wire(), aw, bw, eqs[[2]int{i, j}], eqs[[2]int{j, i}], eqs[[2]int{i, i}])})
			run.Count("opts:chained-patch-results")
			run.Add(c)
		}
	}
}

// addC04ChainedTyped: Equals whose receiver (or argument) is a document RETURNED BY Patch under SET / MULTISET — its array
// nodes carry the Go types jsonSet / jsonMultiset — compared under the same or ANOTHER reading (none, SET, MULTISET) with a
// plain document. Such values are outside the property's quantifier (what a typed node means under another reading is not
// specified; the unchanged code answers by the receiver's Go type), so the cases are TIED to the model's `equals` on the
// typed encodings and not judged by the oracle.
func addC04ChainedTyped(run *Run, r *Rng, cfg GenCfg) {
	a := cfg.Arr(r, 0)
	b := cfg.Mutate(r, a, 2)
	if r.Chance(1, 2) {
		a, b = VObj("k", a), VObj("k", b)
	}
	o1 := OptSetO
	if r.Chance(1, 2) {
		o1 = OptMset
	}
	cdoc := b.Clone()
	permuteDeep(r, cdoc, r.Chance(1, 2))
	aw, bw, cw := a.Wire(), b.Wire(), cdoc.Wire()
	type obs struct {
		o           OptSet
		pw, eq, eqr string
	}
	var all []obs
	res, _ := safely(func() string {
		an := mustNode(aw)
		d := an.Diff(mustNode(bw), o1.Go()...)
		pn, err := mustNode(aw).Patch(d)
		if err != nil || pn == nil {
			return "done"
		}
		pw := jd.VerifEncodeNode(pn)
		for _, o2 := range []OptSet{OptNone, OptSetO, OptMset} {
			cn := mustNode(cw)
			all = append(all, obs{o2, pw, boolWire(pn.Equals(cn, o2.Go()...)), boolWire(cn.Equals(pn, o2.Go()...))})
		}
		return "done"
	})
	if res == "panic" {
		return
	}
	for _, x := range all {
		c := Case{Recipe: Recipe{"c04t", []string{x.o.Wire(), x.pw, cw}}, Desc: map[string]string{"a": x.pw, "b": cw, "options": x.o.Name(), "how": "receiver returned by Patch under " + o1.Name() + " (typed array nodes), compared under " + x.o.Name() + " (tie only)"}}
		c.Nontrivial = x.pw != cw
		c.Sig = "chained-typed|" + x.o.Wire() + "|" + x.pw + "|" + cw
		c.Probes = append(c.Probes,
			Probe{Kind: "corr", Rel: "Equals = equals model", Line: fmt.Sprintf("equals %s %s %s", x.o.Wire(), x.pw, cw), Want: x.eq},
			Probe{Kind: "corr", Rel: "Equals = equals model", Line: fmt.Sprintf("equals %s %s %s", x.o.Wire(), cw, x.pw), Want: x.eqr})
		// symmetry is claimed for every pair of values, also for one that Patch returned
		sym := "ok"
		if x.eq != x.eqr {
			sym = fmt.Sprintf("fail Equals is not symmetric: p.Equals(c)=%s, c.Equals(p)=%s for p returned by Patch under %s, compared under %s", x.eq, x.eqr, o1.Name(), x.o.Name())
		}
		c.Probes = append(c.Probes, Probe{Kind: "direct", Rel: "C04 Equals is symmetric also when one side is a document returned by Patch (typed array nodes)", Want: sym})
		run.Count("opts:chained-typed-receiver")
		run.Add(c)
	}
}

func permuteDeep(r *Rng, v *Val, dup bool) {
	if v.K == KArr {
		for i := len(v.A) - 1; i > 0; i-- {
			j := r.Intn(i + 1)
			v.A[i], v.A[j] = v.A[j], v.A[i]
		}
		if dup && len(v.A) > 0 && r.Chance(1, 3) {
			v.A = append(v.A, v.A[r.Intn(len(v.A))].Clone())
		}
		for _, e := range v.A {
			permuteDeep(r, e, dup)
		}
	}
	if v.K == KObj {
		for _, e := range v.O {
			permuteDeep(r, e, dup)
		}
	}
}

func addC04Case(run *Run, o OptSet, label string, a, b *Val) {
	aw, bw := a.Wire(), b.Wire()
	c := Case{Recipe: Recipe{"c04", []string{o.Wire(), aw, bw}}, Desc: map[string]string{"options": o.Name(), "a": a.Human(), "b": b.Human()}}
	c.Nontrivial = aw != bw
	c.Sig = o.Wire() + "|" + aw + "|" + bw
	ha, hb := implHash(o, aw), implHash(o, bw)
	eq, eqr, refl := implEquals(o, aw, bw), implEquals(o, bw, aw), implEquals(o, aw, aw)
	c.Desc["impl_equals"] = eq
	c.Probes = append(c.Probes,
		Probe{Kind: "corr", Rel: "hashCode = hashCode model (via hook)", Line: fmt.Sprintf("hash %s %s", o.Wire(), aw), Want: ha},
		Probe{Kind: "corr", Rel: "hashCode = hashCode model (via hook)", Line: fmt.Sprintf("hash %s %s", o.Wire(), bw), Want: hb},
		Probe{Kind: "corr", Rel: "Equals = equals model", Line: fmt.Sprintf("equals %s %s %s", o.Wire(), aw, bw), Want: eq},
		Probe{Kind: "oracle", Rel: "C04 Equals = advertised equivalence (hash-free spec), symmetric, reflexive", Line: fmt.Sprintf("c04 %s %s %s %s %s %s", o.Wire(), aw, bw, eq, eqr, refl)},
	)
	// Equals asked twice on the SAME values, and the values afterwards: a comparison must not change what it compares
	{
		v := "ok"
		res, _ := safely(func() string {
			x, y := mustNode(aw), mustNode(bw)
			jx, jy := x.Json(), y.Json()
			e1 := x.Equals(y, o.Go()...)
			e2 := x.Equals(y, o.Go()...)
			if e1 != e2 {
				v = "fail a second Equals on the same values answers differently"
			} else if x.Json() != jx || y.Json() != jy {
				v = "fail Equals changed one of the documents it compared: " + short(x.Json()) + " / " + short(y.Json())
			} else if !x.Equals(mustNode(aw)) || !y.Equals(mustNode(bw)) {
				v = "fail after an Equals a document is no longer Equal (list reading) to a fresh copy of itself"
			}
			return "done"
		})
		if res == "panic" {
			v = "ok"
		}
		if v != "ok" {
			c.Probes = append(c.Probes, Probe{Kind: "direct", Rel: "C04 Equals does not change its operands and answers the same when asked again", Want: v})
		}
	}
	run.Count("opts:" + label)
	run.Count("impl_equals:" + eq)
	run.Add(c)
}

// ---------------------------------------------------------------------------------------------
// C05 — a diff is empty exactly when the documents are equal
func propC05(run *Run, n int) {
	run.rule = "random (a, b) incl. equal, permuted (equal as sets, not as lists), numbers within eps x {none, SET, MULTISET, SetKeys, MERGE, SET+MERGE, MULTISET+MERGE, Precision}; non-trivial = a and b are not identical texts; distinct = distinct (options, a, b)"
	r := NewRng(run.Seed)
	choices := coreOptChoices()
	precCfg := func() GenCfg {
		c := DefaultCfg()
		c.Nums = []float64{1, 1.00001, 1.0005, 1.4, 1.5, 2}
		return c
	}
	choices = append(choices, optChoice{OptPrec(0.001), precCfg, "Precision(0.001)"}, optChoice{OptPrec(0), precCfg, "Precision(0)"})
	// SetKeys together with a Precision (the CLI accepts -setkeys with -precision; only -set / -mset are refused):
	// members keep their identity while numbers in their other fields move by less than eps
	keyedPrec := func() GenCfg {
		c := DefaultCfg()
		c.SetKeys = []string{"id"}
		c.Keys = []string{"a", "id", "x"}
		c.Nums = []float64{1, 1.00001, 1.0005, 1.4, 2}
		c.ScalarBias = 3
		return c
	}
	choices = append(choices, optChoice{append(OptKeys("id"), OptPrec(0.001)...), keyedPrec, "SetKeys(id)+Precision(0.001)"})
	// C05 is not restricted to null-free documents in merge mode
	withNull := func() GenCfg { c := DefaultCfg(); c.ScalarBias = 4; return c }
	withNullDeep := func() GenCfg { return DeepCfg() }
	choices = append(choices, optChoice{OptMerge, withNull, "MERGE-nulls"}, optChoice{OptMerge, withNullDeep, "MERGE-nulls-deep"},
		optChoice{OptSetMrg, withNull, "SET+MERGE-nulls"}, optChoice{OptMsetMrg, withNull, "MULTISET+MERGE-nulls"})
	// fixed pairs that do not depend on the random stream: hash-confusable shapes at aligned positions inside arrays, for
	// every option profile (values exchanged between keys, a key exchanged with its value, the empty array against the
	// empty string, the same members in another order)
	for _, ch := range choices {
		for _, pr := range [][2]*Val{
			{VArr(VObj("x", VNum(1), "y", VNum(2))), VArr(VObj("x", VNum(2), "y", VNum(1)))},
			{VArr(VObj("a", VStr("b"))), VArr(VObj("b", VStr("a")))},
			{VArr(VArr()), VArr(VStr(""))},
			{VObj("tags", VArr(VStr("x"), VArr(), VStr("y"))), VObj("tags", VArr(VStr("x"), VStr(""), VStr("y")))},
			{VArr(VObj("args", VArr(VArr()))), VArr(VObj("args", VArr(VStr(""))))},
			{VArr(VArr(VNum(1), VNum(2)), VArr(VNum(3))), VArr(VArr(VNum(2), VNum(1)), VArr(VNum(3)))},
			// lists three levels deep that differ only in a scalar BEFORE a nested list at least as long as what precedes it
			{VArr(VArr(VNum(1), VArr(VNum(7)))), VArr(VArr(VNum(2), VArr(VNum(7))))},
			{VObj("k", VArr(VArr(VStr("x"), VArr(VStr("y"), VStr("z"))), VNum(3))), VObj("k", VArr(VArr(VStr("w"), VArr(VStr("y"), VStr("z"))), VNum(3)))},
			{VArr(VArr(VNum(1), VNum(5), VArr(VNum(7), VNum(8), VArr(VNum(9), VNum(9), VNum(9))))), VArr(VArr(VNum(1), VNum(6), VArr(VNum(7), VNum(8), VArr(VNum(9), VNum(9), VNum(9)))))},
		} {
			if ch.o.Has("K") {
				continue
			}
			run.Count("fixed:hash-confusable-pairs")
			addC05Case(run, ch.o, ch.label+"-fixed", pr[0], pr[1])
		}
	}
	for i := 0; i < n; i++ {
		ch := choices[r.Intn(len(choices))]
		cfg := ch.cfg()
		a, b := cfg.Pair(r)
		if r.Chance(1, 4) {
			b = a.Clone()
			if r.Chance(2, 3) {
				permuteDeep(r, b, len(cfg.SetKeys) == 0 && r.Chance(1, 2))
			}
		}
		if ch.o.Has("P") && r.Chance(1, 2) {
			b = a.Clone()
			if ch.o.Has("K") {
				jitterNonKey(r, b, ch.o.KeysOf())
			} else {
				jitter(r, b)
			}
		}
		if ch.o.Has("K") && !ch.o.Has("P") && r.Chance(1, 6) {
			// SetKeys: a member written twice on one side (or a different number of times on both): the same set
			b = a.Clone()
			if r.Chance(1, 2) {
				b = cfg.Mutate(r, a, 1)
			}
			if dupIdentical(r, a)+dupIdentical(r, b) > 0 {
				run.Count("setkeys:member-written-twice")
			}
		}
		if i%40 == 0 {
			sa, sb := sameValueTwoKeysPair(r)
			run.Count("setkeys:same-value-under-two-set-keys")
			addC05Case(run, OptKeys("a", "b"), "SetKeys(a,b)-same-value", sa, sb)
			sc := sa.Clone()
			permuteDeep(r, sc, false)
			addC05Case(run, OptKeys("a", "b"), "SetKeys(a,b)-same-value", sa, sc)
		}
		if r.Chance(1, 8) && !ch.o.Has("K") {
			// numbers one ulp apart / exactly eps apart / just beyond eps (also with no Precision option: eps = 0)
			b = a.Clone()
			if boundaryJitter(r, b, ch.o.PrecOf()) == 0 {
				a, b = VArr(VNum(1)), VArr(VNum(1))
				boundaryJitter(r, b, ch.o.PrecOf())
			}
			run.Count("numbers:boundary-of-precision")
		}
		a, b = withVoid(r, a, b)
		addC05Case(run, ch.o, ch.label, a, b)
	}
}

// dupIdentical repeats some object members of arrays IDENTICALLY (the same element twice: as a set it is the same set;
// the SetKeys precondition speaks of different members sharing an identity, not of one member written twice)
func dupIdentical(r *Rng, v *Val) int {
	n := 0
	switch v.K {
	case KArr:
		for _, e := range v.A {
			n += dupIdentical(r, e)
		}
		objs := []int{}
		for i, e := range v.A {
			if e.K == KObj {
				objs = append(objs, i)
			}
		}
		if len(objs) > 0 && r.Chance(1, 2) {
			j := objs[r.Intn(len(objs))]
			at := r.Intn(len(v.A) + 1)
			c := v.A[j].Clone()
			v.A = append(v.A[:at], append([]*Val{c}, v.A[at:]...)...)
			n++
		}
	case KObj:
		ks := make([]string, 0, len(v.O))
		for k := range v.O {
			ks = append(ks, k)
		}
		sort.Strings(ks)
		for _, k := range ks {
			n += dupIdentical(r, v.O[k])
		}
	}
	return n
}

// boundaryJitter moves some numbers of v to the boundary of "within eps": one or two ulps away, exactly eps away
// (as far as x+eps is exact), one ulp beyond that, and beyond eps by a relative 1e-9 / 1e-12 / an absolute 1e-12 / 1e-13
// (the sizes of plausible "rounding slack" constants). Returns the number of values moved.
func boundaryJitter(r *Rng, v *Val, eps float64) int {
	n := 0
	switch v.K {
	case KNum:
		if math.IsInf(v.N, 0) || math.IsNaN(v.N) || math.Abs(v.N) > 1e15 || !r.Chance(2, 3) {
			return 0
		}
		x := v.N
		sign := 1.0
		if r.Chance(1, 2) {
			sign = -1
		}
		var y float64
		switch r.Intn(9) {
		case 0:
			y = math.Nextafter(x, x+sign)
		case 1:
			y = math.Nextafter(math.Nextafter(x, x+sign), x+sign)
		case 2:
			y = x + sign*eps
		case 3:
			y = math.Nextafter(x+sign*eps, x+sign*(eps+1))
		case 4:
			y = x + sign*eps*(1+1e-9)
		case 5:
			y = x + sign*eps*(1+1e-12)
		case 6:
			y = x + sign*(eps+1e-12)
		case 7:
			y = x + sign*(eps+1e-13)
		default:
			y = math.Nextafter(x+sign*eps, x)
		}
		if y != x && !math.IsInf(y, 0) {
			v.N = y
			n++
		}
	case KArr:
		for _, e := range v.A {
			n += boundaryJitter(r, e, eps)
		}
	case KObj:
		ks := make([]string, 0, len(v.O))
		for k := range v.O {
			ks = append(ks, k)
		}
		sort.Strings(ks)
		for _, k := range ks {
			n += boundaryJitter(r, v.O[k], eps)
		}
	}
	return n
}

// jitter moves some numbers by less than 0.001 (inside eps for Precision(0.001))
func jitter(r *Rng, v *Val) {
	switch v.K {
	case KNum:
		if r.Chance(1, 2) {
			v.N += 0.00001
		}
	case KArr:
		for _, e := range v.A {
			jitter(r, e)
		}
	case KObj:
		for _, e := range v.O {
			jitter(r, e)
		}
	}
}

// jitterNonKey: as jitter, but the values of the set keys stay (members keep their identity)
func jitterNonKey(r *Rng, v *Val, keys []string) {
	switch v.K {
	case KNum:
		if r.Chance(1, 2) {
			v.N += 0.00001
		}
	case KArr:
		for _, e := range v.A {
			jitterNonKey(r, e, keys)
		}
	case KObj:
		for k, e := range v.O {
			if !isIn(k, keys) {
				jitterNonKey(r, e, keys)
			}
		}
	}
}

func addC05Case(run *Run, o OptSet, label string, a, b *Val) {
	aw, bw := a.Wire(), b.Wire()
	c := Case{Recipe: Recipe{"c05", []string{o.Wire(), aw, bw}}, Desc: map[string]string{"options": o.Name(), "a": a.Human(), "b": b.Human()}}
	c.Nontrivial = aw != bw
	c.Sig = o.Wire() + "|" + aw + "|" + bw
	dw := implDiff(o, aw, bw)
	eq := implEquals(o, aw, bw)
	c.Desc["impl_diff"] = dw
	c.Desc["impl_equals"] = eq
	c.Probes = append(c.Probes,
		Probe{Kind: "corr", Rel: "Diff is empty = diffM is empty", Line: fmt.Sprintf("diffempty %s %s %s", o.Wire(), aw, bw), Want: boolWire(dw == "< >")},
		Probe{Kind: "corr", Rel: "Equals = equals model", Line: fmt.Sprintf("equals %s %s %s", o.Wire(), aw, bw), Want: eq},
		Probe{Kind: "oracle", Rel: "C05 diff empty ⇔ Equals", Line: fmt.Sprintf("c05 %s %s %s %s %s", o.Wire(), aw, bw, boolWire(dw == "< >"), eq)},
	)
	// the same question asked a second time (Diff must not depend on what was diffed before it)
	if dw2 := implDiff(o, aw, bw); dw2 != dw {
		c.Probes = append(c.Probes, Probe{Kind: "direct", Rel: "C05 a second Diff of the same pair gives the same diff", Want: "fail a second Diff of the same documents gives " + short(dw2) + " instead of " + short(dw)})
	}
	run.Count("opts:" + label)
	run.Count("diff_empty:" + fmt.Sprint(dw == "< >") + ",equals:" + eq)
	run.Add(c)
}

// ---------------------------------------------------------------------------------------------
// perturbations of a target document (C03, C08, C10)
func perturb(r *Rng, cfg GenCfg, a, b *Val) *Val {
	switch r.Intn(8) {
	case 0:
		return a.Clone()
	case 1:
		return b.Clone()
	default:
		t := cfg.Mutate(r, a, 2)
		return t
	}
}

// aliasPartner: a value of ANOTHER JSON type with the same hash code (the hash pre-images are not domain-separated:
// a string of 8 bytes and the number with that bit pattern, the empty string and the empty array), or nil
func aliasPartner(v *Val) *Val {
	switch v.K {
	case KStr:
		if v.S == "" {
			return VArr()
		}
		if len(v.S) == 8 {
			var u uint64
			for k := 7; k >= 0; k-- {
				u = u<<8 | uint64(v.S[k])
			}
			x := math.Float64frombits(u)
			if !math.IsNaN(x) && !math.IsInf(x, 0) {
				return VNum(x)
			}
		}
	case KNum:
		u := math.Float64bits(v.N)
		bs := make([]byte, 8)
		for k := 0; k < 8; k++ {
			bs[k] = byte(u >> (8 * k))
		}
		if utf8.Valid(bs) {
			ok := true
			for _, c := range bs {
				if c < 0x20 || c == 0x7f {
					ok = false
				}
			}
			if ok {
				return VStr(string(bs))
			}
		}
	case KArr:
		if len(v.A) == 0 && (v.Tag == "" || v.Tag == "r") {
			return VStr("")
		}
	}
	return nil
}

// aliasSwapDeep replaces some values inside v by their alias partners; returns how many
func aliasSwapDeep(r *Rng, v *Val) int {
	n := 0
	switch v.K {
	case KArr:
		for i, e := range v.A {
			if p := aliasPartner(e); p != nil && r.Chance(2, 3) {
				v.A[i] = p
				n++
			} else {
				n += aliasSwapDeep(r, e)
			}
		}
	case KObj:
		ks := make([]string, 0, len(v.O))
		for k := range v.O {
			ks = append(ks, k)
		}
		sort.Strings(ks)
		for _, k := range ks {
			if p := aliasPartner(v.O[k]); p != nil && r.Chance(1, 2) {
				v.O[k] = p
				n++
			} else {
				n += aliasSwapDeep(r, v.O[k])
			}
		}
	}
	return n
}

// aliasCfg: pools rich in values that have an alias partner
func aliasCfg() GenCfg {
	c := DefaultCfg()
	c.Strs = []string{"AAAAAAAA", "password", "username", "", "a", "12345678"}
	c.Nums = []float64{2261634.5098039214, 7.295422314059467e+175, 3.8098506874642707e+180, 1, 2}
	c.ScalarBias = 4
	return c
}

func splitHunks(dw string) []string {
	// dw = "< ( … ) ( … ) >"; hunks never nest parentheses
	dw = strings.TrimSpace(dw)
	dw = strings.TrimPrefix(dw, "<")
	dw = strings.TrimSuffix(dw, ">")
	out := []string{}
	for {
		i := strings.Index(dw, "( ")
		if i < 0 {
			break
		}
		j := strings.Index(dw[i:], " )")
		if j < 0 {
			break
		}
		out = append(out, dw[i:i+j+2])
		dw = dw[i+j+2:]
	}
	return out
}

func joinHunks(hs []string) string {
	if len(hs) == 0 {
		return "< >"
	}
	return "< " + strings.Join(hs, " ") + " >"
}

// ---------------------------------------------------------------------------------------------
// C03 — strict patches apply only where they match
func propC03(run *Run, n int) {
	run.rule = "list-mode d = a.Diff(b), random sub-sequences of its hunks x targets (a, b, perturbations of a at any depth); non-trivial = at least one hunk; distinct = distinct (hunks, target)"
	r := NewRng(run.Seed)
	for i := 0; i < n; i++ {
		cfg := DefaultCfg()
		if r.Chance(1, 4) {
			cfg = NastyCfg()
		}
		cfg.ScalarBias = 3
		if r.Chance(1, 4) {
			cfg = DeepCfg()
		}
		aliasRun := r.Chance(1, 6)
		if aliasRun {
			cfg = aliasCfg()
		}
		a, b := cfg.Pair(r)
		dw := implDiff(OptNone, a.Wire(), b.Wire())
		hs := splitHunks(dw)
		for k := 0; k < 3; k++ {
			sub := []string{}
			for _, h := range hs {
				if k == 0 || r.Chance(2, 3) {
					sub = append(sub, h)
				}
			}
			t := perturb(r, cfg, a, b)
			if k == 0 && r.Chance(1, 2) {
				t = a.Clone()
			}
			if !aliasRun && k == 2 && r.Chance(1, 3) {
				// the target differs from a only by numbers moved by one ulp / 1e-13 / 1e-12: a strict expectation compares
				// exactly (Patch passes no Precision)
				t = a.Clone()
				if boundaryJitter(r, t, 0) > 0 {
					run.Count("target:numbers-moved-by-an-ulp")
				}
			}
			if aliasRun && k > 0 {
				// the target differs from a only by values of another type with the SAME HASH CODE as the one expected
				t = a.Clone()
				if aliasSwapDeep(r, t) > 0 {
					run.Count("target:hash-alias-of-expected-value")
				}
			}
			addC03Case(run, t, joinHunks(sub))
		}
		if r.Chance(1, 12) {
			// build-up: a hunk adds an array holding a container, a later hunk edits inside that container
			t, hw := buildUpDiff(r)
			run.Count("hunk:build-up-then-edit-inside")
			addC03Case(run, t, hw)
		}
		if r.Chance(1, 10) {
			// a CONTEXT-ONLY hunk (nothing removed, nothing added: an assertion about two neighbours; only the exported
			// DiffElement fields can build it): it applies exactly when both context lines hold
			t, hw := contextOnlyHunk(r)
			run.Count("hunk:context-only")
			addC03Case(run, t, hw)
		}
		if r.Chance(1, 6) {
			// a hand-edited diff of TWO hunks on the same array: first a list edit inside it, then a hunk that replaces
			// the array as a whole value — declaring the array as it was BEFORE the first hunk (stale: must be
			// rejected), as it is after it (applies), or nothing at all (add-only on an existing value: rejected)
			t, hw := staleReplaceDiff(r)
			run.Count("hunk:edit-then-whole-array-replacement")
			addC03Case(run, t, hw)
		}
		if r.Chance(1, 3) {
			// hand-written / hand-extended hunks: SEVERAL lines of before and after context (the reader accepts any
			// number, doc/v2.md describes adding more), taken from the target or deliberately wrong
			t, hw := handListHunk(r, cfg)
			run.Count("hunk:hand-written-context")
			addC03Case(run, t, hw)
		}
	}
}

func buildUpDiff(r *Rng) (*Val, string) {
	inner := VObj("tags", VArr(VStr("a")))
	if r.Chance(1, 2) {
		inner = VArr(VStr("a"))
	}
	added := VArr(inner)
	var t *Val = VArr()
	pre := ""
	if r.Chance(1, 2) {
		t, pre = VObj("k", VArr()), "K\"6b "
	}
	h1 := fmt.Sprintf("( s %sI0 | V | | %s | V )", pre, added.Wire())
	var h2 string
	if inner.K == KObj {
		h2 = fmt.Sprintf("( s %sI0 I0 K\"74616773 I1 | \"61 | | \"62 | V )", pre)
	} else {
		h2 = fmt.Sprintf("( s %sI0 I0 I1 | \"61 | | \"62 | V )", pre)
	}
	if r.Chance(1, 3) {
		h2 = strings.Replace(h2, "| V )", "| )", 1) // without the end-of-array marker
	}
	return t, joinHunks([]string{strings.Join(strings.Fields(h1), " "), strings.Join(strings.Fields(h2), " ")})
}

func contextOnlyHunk(r *Rng) (*Val, string) {
	n := 1 + r.Intn(4)
	xs := []*Val{}
	for j := 0; j < n; j++ {
		xs = append(xs, VNum(float64(j+1)))
	}
	i := r.Intn(n + 1) // between xs[i-1] and xs[i]
	before, after := VVoid(), VVoid()
	if i > 0 {
		before = xs[i-1].Clone()
	}
	if i < n {
		after = xs[i].Clone()
	}
	switch r.Intn(5) {
	case 0:
		after = VStr("wrong")
	case 1:
		before = VStr("wrong")
	case 2:
		if i < n {
			after = VVoid() // claims the end of the array where there is an element
		} else {
			after = VNum(7) // claims an element behind the end
		}
	}
	arr := VArr(xs...)
	var t *Val = arr
	pre := ""
	switch r.Intn(3) {
	case 0:
		t, pre = VObj("a", arr), "K\"61 "
	case 1:
		t, pre = VArr(VStr("h"), arr), "I1 "
	}
	h := fmt.Sprintf("( s %sI%d | %s | | | %s )", pre, i, before.Wire(), after.Wire())
	return t, joinHunks([]string{strings.Join(strings.Fields(h), " ")})
}

func staleReplaceDiff(r *Rng) (*Val, string) {
	n := 2 + r.Intn(3)
	xs := []*Val{}
	for j := 0; j < n; j++ {
		xs = append(xs, VNum(float64(j+1)))
	}
	i := r.Intn(n)
	before, after := VVoid(), VVoid()
	if i > 0 {
		before = xs[i-1].Clone()
	}
	if i+1 < n {
		after = xs[i+1].Clone()
	}
	ys := cloneAll(xs)
	ys[i] = VNum(9)
	var declared string
	switch r.Intn(4) {
	case 0:
		declared = VArr(cloneAll(xs)...).Wire() // stale
	case 1:
		declared = VArr(ys...).Wire() // current
	case 2:
		declared = "" // add-only
	default:
		declared = VArr(VNum(0)).Wire()
	}
	arr := VArr(xs...)
	var t *Val = arr
	pre := ""
	switch r.Intn(3) {
	case 0:
		t, pre = VObj("a", arr), "K\"61 "
	case 1:
		t, pre = VArr(VStr("h"), arr), "I1 "
	}
	h1 := fmt.Sprintf("( s %sI%d | %s | %s | #4022000000000000 | %s )", pre, i, before.Wire(), xs[i].Wire(), after.Wire())
	h2 := fmt.Sprintf("( s %s| | %s | \"78 | )", pre, declared)
	return t, joinHunks([]string{strings.Join(strings.Fields(h1), " "), strings.Join(strings.Fields(h2), " ")})
}

// handListHunk: a target holding an array (at the root, below a key, or inside an outer array) and ONE strict
// list hunk at index i with nb before lines and na after lines; with probability 1/2 every expectation holds,
// otherwise one of them is broken (two context lines swapped, a line replaced, the index shifted, `[` / `]`
// claimed where there is an element)
func handListHunk(r *Rng, cfg GenCfg) (*Val, string) {
	n := 2 + r.Intn(5)
	xs := []*Val{}
	for j := 0; j < n; j++ {
		if r.Chance(1, 6) {
			xs = append(xs, VArr(VNum(float64(j))))
		} else {
			xs = append(xs, VNum(float64(j%4)))
		}
	}
	i := r.Intn(n + 1)
	rm := 0
	if i < n {
		rm = r.Intn(min(3, n-i) + 1)
	}
	nb, na := r.Intn(4), r.Intn(4)
	before := []*Val{}
	for j := i - nb; j < i; j++ {
		if j < 0 {
			if j == -1 {
				before = append(before, VVoid()) // the `[` marker
			}
			continue
		}
		before = append(before, xs[j].Clone())
	}
	remove := []*Val{}
	for j := i; j < i+rm; j++ {
		remove = append(remove, xs[j].Clone())
	}
	after := []*Val{}
	for j := i + rm; j < i+rm+na; j++ {
		if j >= n {
			if j == n {
				after = append(after, VVoid()) // the `]` marker
			}
			break
		}
		after = append(after, xs[j].Clone())
	}
	add := []*Val{}
	for j := r.Intn(3); j > 0; j-- {
		add = append(add, VNum(float64(7+j)))
	}
	if len(remove) == 0 && len(add) == 0 && !r.Chance(1, 4) {
		// (one time in four the hunk stays CONTEXT-ONLY: nothing removed, nothing added — a guard; it can only be
		// built through the exported DiffElement fields, and its expectations must hold all the same)
		add = append(add, VStr("n"))
	}
	idx := i
	if r.Chance(1, 2) {
		switch r.Intn(5) {
		case 0:
			if len(before) >= 2 {
				before[0], before[len(before)-1] = before[len(before)-1], before[0]
			}
		case 1:
			if len(after) >= 2 {
				after[0], after[len(after)-1] = after[len(after)-1], after[0]
			}
		case 2:
			if len(before) > 0 {
				before[r.Intn(len(before))] = VStr("wrong")
			}
		case 3:
			if len(after) > 0 {
				after[r.Intn(len(after))] = VStr("wrong")
			}
		default:
			idx = i + 1 - 2*r.Intn(2)
			if idx < 0 {
				idx = 0
			}
		}
	}
	ws := func(l []*Val) string {
		out := []string{}
		for _, v := range l {
			out = append(out, v.Wire())
		}
		return strings.Join(out, " ")
	}
	arr := VArr(xs...)
	var t *Val = arr
	path := fmt.Sprintf("I%d", idx)
	switch r.Intn(3) {
	case 0:
		t = VObj("a", arr, "z", VNum(1))
		path = "K\"61 " + path
	case 1:
		t = VArr(VNum(9), arr)
		path = "I1 " + path
	}
	w := fmt.Sprintf("( s %s | %s | %s | %s | %s )", path, ws(before), ws(remove), ws(add), ws(after))
	return t, joinHunks([]string{strings.Join(strings.Fields(w), " ")})
}

func addC03Case(run *Run, t *Val, dw string) {
	tw := t.Wire()
	c := Case{Recipe: Recipe{"c03", []string{tw, dw}}, Desc: map[string]string{"target": t.Human(), "diff": dw}}
	out := implPatch(tw, dw)
	c.Desc["impl_patch"] = out
	c.Nontrivial = hunkCount(dw) > 0
	c.Sig = tw + "|" + dw
	c.Probes = append(c.Probes,
		Probe{Kind: "corr", Rel: "Patch = patchM", Line: fmt.Sprintf("patch %s %s", tw, dw), Want: out},
		Probe{Kind: "oracle", Rel: "C03 Patch = reference interpreter of strict hunks (applies iff every expectation holds, changes only what the hunks say)", Line: fmt.Sprintf("c03 %s %s %s", tw, dw, out)},
	)
	// ONE diff value applied twice to fresh copies of the target: the second application must give what the first gave
	// (applying a diff must not change it; "changes only what the hunks say" holds for every application)
	if hunkCount(dw) > 1 {
		twice := "ok"
		res, _ := safely(func() string {
			d := mustDiff(dw)
			r1, e1 := mustNode(tw).Patch(d)
			o1 := encOutcomeNode(r1, e1)
			r2, e2 := mustNode(tw).Patch(d)
			o2 := encOutcomeNode(r2, e2)
			if untagWire(o1) != untagWire(o2) {
				twice = "fail the same diff value applied a second time to a fresh copy of the target gives " + short(o2) + " instead of " + short(o1)
			}
			return "done"
		})
		if res == "panic" {
			twice = "ok"
		}
		c.Probes = append(c.Probes, Probe{Kind: "direct", Rel: "C03 a diff value applies the same way every time (fresh target, same diff value)", Want: twice})
	}
	// … and after the document it produced has been EDITED by a later Patch (every leaf changed in place, at every
	// depth): the values a diff adds must not stay shared with the document they were added to
	if strings.HasPrefix(out, "ok ") && hunkCount(dw) > 0 {
		after := "ok"
		res, _ := safely(func() string {
			d := mustDiff(dw)
			r1, e1 := mustNode(tw).Patch(d)
			if e1 != nil {
				return "done"
			}
			o1 := encOutcomeNode(r1, e1)
			rv, err := ParseWire(o1[3:])
			if err != nil {
				return "done"
			}
			bumped := mustNode(bumpLeaves(rv).Wire())
			if _, e := r1.Patch(r1.Diff(bumped)); e != nil {
				return "done"
			}
			r3, e3 := mustNode(tw).Patch(d)
			o3 := encOutcomeNode(r3, e3)
			if untagWire(o1) != untagWire(o3) {
				after = "fail after the patched document was edited by a later Patch, the same diff value applied to a fresh copy of the target gives " + short(o3) + " instead of " + short(o1)
			}
			return "done"
		})
		if res == "panic" {
			after = "ok"
		}
		c.Probes = append(c.Probes, Probe{Kind: "direct", Rel: "C03 a diff value applies the same way after the document it produced was edited in place", Want: after})
	}
	run.Count("outcome:" + strings.Fields(out)[0])
	run.Count("hunks:" + sizeBucket(hunkCount(dw)))
	run.Add(c)
}

// bumpLeaves: a copy of v with every scalar leaf changed (numbers +1, strings extended, booleans flipped, null -> 0), the
// structure kept
func bumpLeaves(v *Val) *Val {
	w := v.Clone()
	var walk func(x *Val)
	walk = func(x *Val) {
		switch x.K {
		case KNum:
			x.N = x.N + 1
		case KStr:
			x.S = x.S + "'"
		case KBool:
			x.B = !x.B
		case KNull:
			x.K, x.N = KNum, 0
		case KArr:
			for _, e := range x.A {
				walk(e)
			}
		case KObj:
			for _, e := range x.O {
				walk(e)
			}
		}
	}
	walk(w)
	return w
}

// ---------------------------------------------------------------------------------------------
// C08 — set and multiset hunks have set / bag semantics
func propC08(run *Run, n int) {
	run.rule = "d = a.Diff(b, SET|MULTISET|SetKeys), sub-sequences x targets (permutations of a, members added/removed/changed, members differing in non-key fields); non-trivial = at least one hunk; distinct = distinct (hunks, target)"
	r := NewRng(run.Seed)
	keyed := func() GenCfg { c := DefaultCfg(); c.SetKeys = []string{"id"}; c.Keys = []string{"a", "id", "x", "t"}; c.ScalarBias = 3; return c }
	type ch struct {
		o   OptSet
		cfg func() GenCfg
		lbl string
	}
	keyed2 := func() GenCfg { c := DefaultCfg(); c.SetKeys = []string{"id", "k"}; c.Keys = []string{"a", "id", "k", "x"}; c.ScalarBias = 3; return c }
	choices := []ch{{OptSetO, DefaultCfg, "SET"}, {OptMset, DefaultCfg, "MULTISET"}, {OptKeys("id"), keyed, "SetKeys(id)"}, {OptKeys("id"), keyed, "SetKeys(id)"}, {OptKeys("id", "k"), keyed2, "SetKeys(id,k)"}}
	for i := 0; i < n; i++ {
		if i%25 == 0 {
			addTypedTargetTies(run, r)
		}
		if i%30 == 0 {
			// a keyed member holding a LIST that is edited in the middle: the nested hunk carries a before and an after
			// context line that differ from each other; applied to the document it was made for and to a permutation
			tags := VArr(VStr("a"), VStr("b"), VStr("d"), VStr("e"))
			m1 := VObj("id", VNum(1), "tags", tags)
			m2 := VObj("id", VNum(2), "tags", VArr(VStr("x")))
			a := VArr(m2, m1)
			b := a.Clone()
			b.A[1].O["tags"] = VArr(VStr("a"), VStr("c"), VStr("d"), VStr("e"))
			if r.Chance(1, 2) {
				b.A[1].O["tags"] = VArr(VStr("a"), VStr("b"), VStr("c"), VStr("d"), VStr("e"))
			}
			_ = b
			// (a hand-written hunk: under SetKeys `Diff` reads nested arrays as sets and never emits an index below a keyed member)
			dw := "< ( s SK { \"6964 #3ff0000000000000 } K\"74616773 I1 | \"61 | \"62 | \"63 | \"64 ) >"
			if r.Chance(1, 2) {
				dw = "< ( s SK { \"6964 #3ff0000000000000 } K\"74616773 I2 | \"62 | | \"63 | \"64 ) >"
			}
			if r.Chance(1, 4) {
				dw = strings.Replace(dw, "| \"64 )", "| \"65 )", 1) // a wrong after-context: must be rejected (or, as the code is, swallowed)
			}
			run.Count("keyed-member:nested-list-hunk-with-context")
			addC08Case(run, "SetKeys(id)-nested-list", a, dw)
			addC08Case(run, "SetKeys(id)-nested-list", VArr(m1.Clone(), m2.Clone()), dw)
			// TWO hunks in the same keyed member: the first edits its list (and succeeds), the second begins to edit the
			// same list and fails on its after-context: the member must show the first edit only (or the patch must fail)
			h1 := "( s SK { \"6964 #3ff0000000000000 } K\"74616773 I0 | V | \"61 | \"41 | \"62 )"
			h2 := "( s SK { \"6964 #3ff0000000000000 } K\"74616773 I1 | \"41 | \"62 | \"63 | \"65 )"
			if r.Chance(1, 2) {
				h2 = "( s SK { \"6964 #3ff0000000000000 } K\"74616773 I1 | \"41 | \"62 | \"63 | \"64 )" // the second succeeds too
			}
			addC08Case(run, "SetKeys(id)-nested-list-two-hunks", a, joinHunks([]string{h1, h2}))
		}
		c := choices[r.Intn(len(choices))]
		cfg := c.cfg()
		if len(cfg.SetKeys) > 1 && r.Chance(1, 2) {
			// directed: a member whose set key k is null (or absent) changes in a non-key field, so the
			// hunk addresses it by {"id":…,"k":null}; the target holds, in front of it or behind it, the
			// twin with the other spelling (absent / null): two identities, the exact one has precedence
			a := cfg.Arr(r, 0)
			objs := []int{}
			for j, e := range a.A {
				if e.K == KObj {
					if _, ok := e.O["id"]; ok {
						objs = append(objs, j)
					}
				}
			}
			if len(objs) > 0 {
				j := objs[r.Intn(len(objs))]
				absent := r.Chance(1, 2)
				if absent {
					delete(a.A[j].O, "k")
				} else {
					a.A[j].O["k"] = VNull()
				}
				a.A[j].O["a"] = VNum(1)
				a = cfg.fixKeyed(a)
				b := a.Clone()
				for _, e := range b.A {
					if e.K == KObj && e.O["a"] != nil && e.O["a"].K == KNum && e.O["a"].N == 1 {
						if kv, has := e.O["k"]; (absent && !has) || (!absent && has && kv.K == KNull) {
							e.O["a"] = VNum(2)
						}
					}
				}
				dw := implDiff(c.o, a.Wire(), b.Wire())
				t := a.Clone()
				variant := r.Intn(3)
				if variant == 1 {
					// no twin: the exact pass finds the member only when it holds null; a member lacking the key is
					// found by the second, tolerant pass
					run.Count("target:directed-null-notwin")
					addC08Case(run, c.lbl, t, dw)
					continue
				}
				if variant == 2 {
					// the addressed member is gone: both passes run over the remaining members and fail
					keep := []*Val{}
					for _, e := range t.A {
						if e.K == KObj && e.O["a"] != nil && e.O["a"].K == KNum && e.O["a"].N == 1 {
							kv, has := e.O["k"]
							if (absent && !has) || (!absent && has && kv.K == KNull) {
								continue
							}
						}
						keep = append(keep, e)
					}
					t.A = keep
					run.Count("target:directed-null-member-gone")
					addC08Case(run, c.lbl, t, dw)
					continue
				}
				for jj, e := range t.A {
					if e.K == KObj && e.O["a"] != nil && e.O["a"].K == KNum && e.O["a"].N == 1 {
						kv, has := e.O["k"]
						if (absent && !has) || (!absent && has && kv.K == KNull) {
							tw := e.Clone()
							if absent {
								tw.O["k"] = VNull()
							} else {
								delete(tw.O, "k")
							}
							if r.Chance(1, 2) {
								t.A = append(t.A[:jj], append([]*Val{tw}, t.A[jj:]...)...)
							} else {
								t.A = append(t.A, tw)
							}
							t = cfg.fixKeyed(t) // identities stay pairwise distinct
							run.Count("target:directed-null-twin")
							break
						}
					}
				}
				addC08Case(run, c.lbl, t, dw)
				continue
			}
		}
		if len(cfg.SetKeys) == 0 && r.Chance(1, 4) {
			// hand-written set / multiset hunk (the property is about any hunk, not only those Diff emits):
			// removals drawn from the target's members (repeated, more often than present) and from
			// non-members, additions drawn from the removals themselves, the members and fresh values —
			// in particular the same value under `-` and `+`
			t, dw := handSetHunk(r, cfg, c.lbl == "MULTISET")
			run.Count("hunk:hand-written")
			addC08Case(run, c.lbl, t, dw)
			if r.Chance(1, 4) {
				addC08Branching(run, r, cfg, c.lbl == "MULTISET")
			}
			continue
		}
		var a *Val
		if r.Chance(2, 3) {
			a = cfg.Arr(r, 0)
			if r.Chance(1, 3) {
				a = VObj("k", a)
			}
		} else {
			a = cfg.Doc(r, 0)
		}
		b := cfg.Mutate(r, a, 3)
		dw := implDiff(c.o, a.Wire(), b.Wire())
		hs := splitHunks(dw)
		for k := 0; k < 3; k++ {
			sub := []string{}
			for _, h := range hs {
				if k == 0 || r.Chance(2, 3) {
					sub = append(sub, h)
				}
			}
			var t *Val
			switch r.Intn(5) {
			case 0:
				t = a.Clone()
			case 1:
				t = a.Clone()
				permuteDeep(r, t, false)
			default:
				t = cfg.Mutate(r, a, 2)
				if r.Chance(1, 2) {
					permuteDeep(r, t, false)
				}
			}
			if len(cfg.SetKeys) > 1 && r.Chance(1, 2) {
				addSwappedKeyMember(r, t, cfg.SetKeys)
				t = cfg.fixKeyed(t) // keep identities pairwise distinct inside every array
			}
			if len(cfg.SetKeys) > 1 && r.Chance(1, 3) {
				if addNullTwin(r, t, cfg.SetKeys) {
					t = cfg.fixKeyed(t)
					run.Count("target:null-twin")
				}
			}
			addC08Case(run, c.lbl, t, joinHunks(sub))
		}
	}
}

// handSetHunk builds a target holding an array (at the root or below key "k"; sometimes a non-array)
// and ONE strict hunk addressed to it as a set (`{}`) or multiset (`[]`).
func handSetHunk(r *Rng, cfg GenCfg, mset bool) (*Val, string) {
	cfg.ScalarBias = 3
	arr := cfg.Arr(r, 1)
	if mset && len(arr.A) > 0 && r.Chance(1, 2) {
		// repeated members
		for k := r.Intn(3); k >= 0; k-- {
			arr.A = append(arr.A, arr.A[r.Intn(len(arr.A))].Clone())
		}
	}
	pool := func() *Val {
		switch {
		case len(arr.A) > 0 && r.Chance(3, 5):
			return arr.A[r.Intn(len(arr.A))].Clone()
		case r.Chance(1, 2):
			return cfg.scalar(r)
		default:
			return cfg.Doc(r, 2)
		}
	}
	rem := []*Val{}
	for k := r.Intn(4); k > 0; k-- {
		if len(rem) > 0 && r.Chance(1, 3) {
			rem = append(rem, rem[r.Intn(len(rem))].Clone()) // the same value removed again
		} else {
			rem = append(rem, pool())
		}
	}
	add := []*Val{}
	for k := r.Intn(4); k > 0; k-- {
		if len(rem) > 0 && r.Chance(1, 2) {
			add = append(add, rem[r.Intn(len(rem))].Clone()) // a value both removed and added
		} else {
			add = append(add, pool())
		}
	}
	ws := func(l []*Val) string {
		out := []string{}
		for _, v := range l {
			out = append(out, v.Wire())
		}
		return strings.Join(out, " ")
	}
	el := "S"
	if mset {
		el = "M"
	}
	var t *Val = arr
	path := el
	if r.Chance(1, 3) {
		t = VObj("k", arr, "z", VNum(1))
		path = "K\"6b " + el
	}
	if r.Chance(1, 8) {
		// the addressed value is not an array: a scalar, null, or an OBJECT — and half of the time the hunk removes
		// exactly that value (and adds at most one), the shape of a whole-value replacement
		var nv *Val
		switch r.Intn(4) {
		case 0:
			nv = VObj("x", VNum(1))
		case 1:
			nv = VObj()
		case 2:
			nv = VNull()
		default:
			nv = cfg.scalar(r)
		}
		if t == arr {
			t = nv
		} else {
			t.O["k"] = nv
		}
		if r.Chance(1, 2) {
			rem = []*Val{nv.Clone()}
			if len(add) > 1 {
				add = add[:1]
			}
		}
	}
	w := fmt.Sprintf("( s %s | | %s | %s | )", path, ws(rem), ws(add))
	return t, joinHunks([]string{strings.Join(strings.Fields(w), " ")})
}

// addNullTwin inserts, in front of a keyed member one of whose set keys is null (or absent), a twin
// that lacks that key (or holds null for it): two members with different identities which the path
// object {"k":null} both could denote — the one with the key values of the path has precedence.
func addNullTwin(r *Rng, v *Val, keys []string) bool {
	switch v.K {
	case KArr:
		for i, e := range v.A {
			if e.K != KObj {
				continue
			}
			for _, k := range keys {
				kv, has := e.O[k]
				if has && kv.K != KNull {
					continue
				}
				others := 0
				for _, k2 := range keys {
					if _, ok := e.O[k2]; ok && k2 != k {
						others++
					}
				}
				if others == 0 || !r.Chance(2, 3) {
					continue
				}
				c := e.Clone()
				if has {
					delete(c.O, k)
				} else {
					c.O[k] = VNull()
				}
				c.O["x"] = VNum(7)
				v.A = append(v.A[:i], append([]*Val{c}, v.A[i:]...)...)
				return true
			}
		}
		for _, e := range v.A {
			if addNullTwin(r, e, keys) {
				return true
			}
		}
	case KObj:
		for _, k := range v.Keys() {
			if addNullTwin(r, v.O[k], keys) {
				return true
			}
		}
	}
	return false
}

// addSwappedKeyMember inserts, in front of some keyed member of an array, a copy whose key values are
// swapped between the keys (a different key tuple with the same multiset of key values).
func addSwappedKeyMember(r *Rng, v *Val, keys []string) bool {
	switch v.K {
	case KArr:
		for i, e := range v.A {
			if e.K == KObj {
				k0, k1 := keys[0], keys[1]
				x, okx := e.O[k0]
				y, oky := e.O[k1]
				if okx && oky && x.Wire() != y.Wire() && r.Chance(1, 2) {
					c := e.Clone()
					c.O[k0], c.O[k1] = y.Clone(), x.Clone()
					if r.Chance(1, 2) {
						c.O["x"] = VNum(7)
					}
					v.A = append(v.A[:i], append([]*Val{c}, v.A[i:]...)...)
					return true
				}
			}
		}
		for _, e := range v.A {
			if addSwappedKeyMember(r, e, keys) {
				return true
			}
		}
	case KObj:
		for _, k := range v.Keys() {
			if addSwappedKeyMember(r, v.O[k], keys) {
				return true
			}
		}
	}
	return false
}

// addC08Branching: two different add-only hunks applied to the SAME document value (itself the result of an add-only
// hunk): what the first call returned must still hold its members after the second call
func addC08Branching(run *Run, r *Rng, cfg GenCfg, mset bool) {
	el := "S"
	if mset {
		el = "M"
	}
	base := cfg.Arr(r, 1)
	hunk := func(vs ...*Val) string {
		ws := []string{}
		for _, v := range vs {
			ws = append(ws, v.Wire())
		}
		return fmt.Sprintf("< ( s %s | | | %s | ) >", el, strings.Join(ws, " "))
	}
	h0, hA, hB := hunk(VNum(31)), hunk(VStr("A")), hunk(VStr("B"), VNum(32))
	c := Case{Recipe: Recipe{"c08b", []string{base.Wire(), h0, hA, hB}}, Desc: map[string]string{"base": base.Human(), "h0": h0, "hA": hA, "hB": hB}, Nontrivial: true}
	c.Sig = "branch|" + base.Wire() + el
	verdict := "ok"
	res, _ := safely(func() string {
		mid, err := mustNode(base.Wire()).Patch(mustDiff(h0))
		if err != nil {
			return "done"
		}
		rA, err := mid.Patch(mustDiff(hA))
		if err != nil {
			return "done"
		}
		encA := jd.VerifEncodeNode(rA)
		if _, err := mid.Patch(mustDiff(hB)); err != nil {
			return "done"
		}
		if jd.VerifEncodeNode(rA) != encA {
			verdict = "fail the document returned by the first add-only hunk changed when another hunk was applied to the same source: " + encA + " became " + jd.VerifEncodeNode(rA)
		}
		return "done"
	})
	if res == "panic" {
		verdict = "fail panic"
	}
	c.Probes = append(c.Probes, Probe{Kind: "direct", Rel: "C08 adds the listed elements and leaves all other members untouched — also in a document returned earlier from the same source", Want: verdict})
	run.Count("branching-add-only")
	run.Add(c)
}

// addTypedTargetTies: strict hunks applied to documents whose array nodes carry the Go dynamic types jsonSet /
// jsonMultiset / jsonList, as an earlier Patch under those readings returns them (a second step of an API chain): the
// base cases of the typed nodes' patch methods (compare with the removed value by the NODE's own Equals, then replace)
// are tied to the model; the documents are outside the properties' quantifier, so no oracle is applied.
func addTypedTargetTies(run *Run, r *Rng) {
	elems := []*Val{VNum(1), VNum(2), VStr("a"), VObj("id", VNum(1)), VNum(1)}
	for _, tag := range []string{"s", "m", "l"} {
		k := 1 + r.Intn(4)
		xs := []*Val{}
		for j := 0; j < k; j++ {
			xs = append(xs, elems[r.Intn(len(elems))].Clone())
		}
		typed := &Val{K: KArr, Tag: tag, A: xs}
		// the removed value: the same elements in order, reversed, with one dropped, or something else
		var rem *Val
		switch r.Intn(4) {
		case 0:
			rem = VArr(cloneAll(xs)...)
		case 1:
			ys := cloneAll(xs)
			for i, j := 0, len(ys)-1; i < j; i, j = i+1, j-1 {
				ys[i], ys[j] = ys[j], ys[i]
			}
			rem = VArr(ys...)
		case 2:
			rem = VArr(cloneAll(xs[1:])...)
		default:
			rem = VStr("other")
		}
		var t *Val
		var path string
		switch r.Intn(3) {
		case 0:
			t, path = typed, ""
		case 1:
			t, path = VObj("k", typed, "z", VNum(0)), "K\"6b"
		default:
			t, path = VArr(VNum(0), typed), "I1"
		}
		dw := strings.Join(strings.Fields(fmt.Sprintf("< ( s %s | | %s | \"6e6577 | ) >", path, rem.Wire())), " ")
		tw := t.Wire()
		out := implPatch(tw, dw)
		c := Case{Recipe: Recipe{"c08typed", []string{tw, dw}}, Desc: map[string]string{"mode": "typed-target (tie only)", "target": t.Human(), "target_wire": tw, "diff": dw, "impl_patch": out}}
		c.Nontrivial = true
		c.Sig = "typed|" + tw + "|" + dw
		c.Probes = append(c.Probes, Probe{Kind: "corr", Rel: "Patch = patchM", Line: fmt.Sprintf("patch %s %s", tw, dw), Want: out})
		run.Count("mode:typed-target-" + tag)
		run.Add(c)
	}
}

func cloneAll(xs []*Val) []*Val {
	out := make([]*Val, len(xs))
	for i, x := range xs {
		out[i] = x.Clone()
	}
	return out
}

func addC08Case(run *Run, label string, t *Val, dw string) {
	tw := t.Wire()
	c := Case{Recipe: Recipe{"c08", []string{label, tw, dw}}, Desc: map[string]string{"mode": label, "target": t.Human(), "diff": dw}}
	out := implPatch(tw, dw)
	c.Desc["impl_patch"] = out
	c.Nontrivial = hunkCount(dw) > 0
	c.Sig = tw + "|" + dw
	c.Probes = append(c.Probes,
		Probe{Kind: "corr", Rel: "Patch = patchM", Line: fmt.Sprintf("patch %s %s", tw, dw), Want: out},
		Probe{Kind: "oracle", Rel: "C08 Patch = reference set/bag/keyed-member semantics", Line: fmt.Sprintf("c08 %s %s %s", tw, dw, out)},
	)
	run.Count("mode:" + label)
	run.Count("outcome:" + strings.Fields(out)[0])
	if strings.Contains(dw, " SK ") {
		run.Count("keyed-member-hunks")
	}
	run.Add(c)
}

// ---------------------------------------------------------------------------------------------
// C06 — list diffs are minimal and carry adjacent context
func propC06(run *Run, n int) {
	r := NewRng(run.Seed)
	alpha := []*Val{VNum(0), VNum(1), VNum(2)}
	maxLen := 4
	if run.Tier == "thorough" {
		maxLen = 5
	}
	arrs := FlatArrays(alpha, maxLen)
	run.rule = fmt.Sprintf("exhaustive: all ordered pairs of arrays over {0,1,2} up to length %d at top level; plus the same pairs sampled under a key and inside an array, and random arrays with nested containers and repeats; non-trivial = the two arrays differ; distinct = distinct (wrapper, a, b)", maxLen)
	for _, x := range arrs {
		for _, y := range arrs {
			addC06Case(run, "top", VArr(x...), VArr(y...), 0, nil)
		}
	}
	run.Count(fmt.Sprintf("exhaustive_pairs_len<=%d", maxLen))
	{
		a, b := largePair(r, false)
		run.Count("large-arrays")
		addLargeArrayCase(run, a, b, false)
		a, b = largeEndsPair(r, 2100+r.Intn(50), true)
		addLargeArrayCase(run, a, b, false)
		a, b = largeEndsPair(r, 4200+r.Intn(50), false)
		addLargeArrayCase(run, a, b, false)
	}
	for i := 0; i < n; i++ {
		var a, b *Val
		if r.Chance(1, 2) {
			a = VArr(arrs[r.Intn(len(arrs))]...)
			b = VArr(arrs[r.Intn(len(arrs))]...)
		} else {
			cfg := DefaultCfg()
			cfg.MaxLen = 8
			cfg.ScalarBias = 6
			a = cfg.Arr(r, 0)
			b = cfg.Mutate(r, a, 4)
			if b.K != KArr {
				b = cfg.Arr(r, 0)
			}
		}
		if r.Chance(1, 10) {
			// Precision(0.1): an edited element directly in front of an object whose two versions differ only in
			// numbers by less than the precision
			x := VObj("x", VNum(1), "t", VArr(VStr("a")))
			y := VObj("x", VNum(1.04), "t", VArr(VStr("a")))
			pa := []*Val{VNum(float64(r.Intn(3))), x, VNum(2)}
			pb := []*Val{VNum(float64(3 + r.Intn(3))), y, VNum(2)}
			if r.Chance(1, 2) {
				pa = append([]*Val{VArr(VStr("id"), VNum(7))}, pa...)
				pb = append([]*Val{VArr(VStr("id"), VNum(7))}, pb...)
			}
			addC06CaseO(run, OptPrec(0.1), "precision", VArr(pa...), VArr(pb...), 0, nil)
			continue
		}
		if r.Chance(1, 6) {
			// chained use of the API: a document read from text is diffed against the document an earlier
			// Patch returned (its edited arrays are typed jsonList nodes). In this direction the library
			// recurses and the hunks are those of the plain documents, so the oracle applies.
			// directed: an inner array X at some position; Patch edits inside it (X -> X1), a fresh document
			// holds X2 there, different from X1 at one position
			inner := arrs[1+r.Intn(len(arrs)-1)]
			mut := func(xs []*Val) []*Val {
				out := make([]*Val, len(xs))
				for j := range xs {
					out[j] = xs[j].Clone()
				}
				j := r.Intn(len(out))
				out[j] = VNum(float64(3 + r.Intn(4)))
				return out
			}
			x1, x2 := mut(inner), mut(inner)
			pre := []*Val{}
			for k := r.Intn(3); k > 0; k-- {
				pre = append(pre, VNum(float64(r.Intn(3))))
			}
			post := []*Val{}
			for k := r.Intn(3); k > 0; k-- {
				post = append(post, VNum(float64(r.Intn(3))))
			}
			mk := func(x []*Val) *Val {
				l := []*Val{}
				for _, e := range pre {
					l = append(l, e.Clone())
				}
				l = append(l, VArr(x...))
				for _, e := range post {
					l = append(l, e.Clone())
				}
				return VArr(l...)
			}
			a0, b0, c0 := mk(inner), mk(x1), mk(x2)
			_, outcome, _ := implDiffPatch(OptNone, a0.Wire(), b0.Wire())
			if strings.HasPrefix(outcome, "ok ") {
				if pv, err := ParseWire(outcome[3:]); err == nil && pv.K == KArr {
					addC06Case(run, "fresh-vs-patched", c0, pv, 0, nil)
					continue
				}
			}
		}
		switch r.Intn(3) {
		case 0:
			addC06Case(run, "top", a, b, 0, nil)
		case 1:
			addC06Case(run, "under-key", a, b, 1, func(v *Val) *Val { return VObj("k", v, "z", VNum(1)) })
		default:
			addC06Case(run, "in-array", a, b, 1, func(v *Val) *Val { return VArr(v) })
		}
	}
}

func addC06Case(run *Run, wrap string, a, b *Val, pre int, w func(*Val) *Val) {
	addC06CaseO(run, OptNone, wrap, a, b, pre, w)
}

// with a Precision option the reading is still the list reading (Diff ignores the precision, KF-C05-precision)
func addC06CaseO(run *Run, o OptSet, wrap string, a, b *Val, pre int, w func(*Val) *Val) {
	da, db := a, b
	if w != nil {
		da, db = w(a.Clone()), w(b.Clone())
	}
	aw, bw := da.Wire(), db.Wire()
	dw := implDiff(o, aw, bw)
	c := Case{Recipe: Recipe{"c06", []string{wrap, a.Wire(), b.Wire()}}, Desc: map[string]string{"wrapper": wrap, "a": a.Human(), "b": b.Human(), "impl_diff": dw}}
	c.Nontrivial = a.Wire() != b.Wire()
	c.Sig = wrap + "|" + aw + "|" + bw
	c.Probes = append(c.Probes,
		Probe{Kind: "corr", Rel: "Diff = diffM (incl. golcs Values = lcsValues)", Line: fmt.Sprintf("diff %s %s %s", o.Wire(), aw, bw), Want: dw},
		Probe{Kind: "oracle", Rel: "C06 removes/adds = len - LCS (spec), same-kind containers recursed into, one line of context equal to the neighbours", Line: fmt.Sprintf("c06 %d %s %s %s", pre, a.Wire(), b.Wire(), dw)},
	)
	// the diff against a document PRODUCED BY Patch (its containers were hashed by an earlier Diff and then edited in
	// place) must be the diff against the same document freshly read: c = b with its last element moved to the front
	// (documents as decoded only: a typed array and a decoded array are different Go types and diff as a replacement)
	if db.K == KArr && len(db.A) > 1 && o.Wire() == OptNone.Wire() && !strings.Contains(aw+bw, "[l ") && !strings.Contains(aw+bw, "[s ") && !strings.Contains(aw+bw, "[m ") {
		v := "ok"
		res, _ := safely(func() string {
			x := mustNode(aw)
			p, err := x.Patch(x.Diff(mustNode(bw)))
			if err != nil {
				return "done"
			}
			cv := db.Clone()
			cv.A = append([]*Val{cv.A[len(cv.A)-1]}, cv.A[:len(cv.A)-1]...)
			d1 := jd.VerifEncodeDiff(mustNode(cv.Wire()).Diff(p))
			d2 := jd.VerifEncodeDiff(mustNode(cv.Wire()).Diff(mustNode(bw)))
			if untagWire(d1) != untagWire(d2) {
				v = "fail the diff of " + short(cv.Wire()) + " against the document Patch produced is " + short(d1) + ", against the same document freshly read " + short(d2)
			}
			return "done"
		})
		if res == "panic" {
			v = "ok"
		}
		if v != "ok" {
			c.Probes = append(c.Probes, Probe{Kind: "direct", Rel: "C06 a list diff against a patched document is the diff against the same document freshly read", Want: v})
		}
	}
	run.Count("wrapper:" + wrap)
	run.Count("hunks:" + sizeBucket(hunkCount(dw)))
	run.Add(c)
}

// ---------------------------------------------------------------------------------------------
// C07 — a diff reports only real differences
func propC07(run *Run, n int) {
	run.rule = "random (a, b) x {list, SET, MULTISET, SetKeys, MERGE}; per hunk facts and every leave-one-out sub-diff applied by the implementation; non-trivial = at least two hunks (leave-one-out is meaningful); distinct = distinct (options, a, b)"
	r := NewRng(run.Seed)
	all := coreOptChoices()
	choices := all[:10]
	for _, ch := range all {
		// the explicit Precision(0) the command line always passes
		if strings.HasSuffix(ch.label, "Precision(0)") {
			choices = append(choices[:len(choices):len(choices)], ch)
		}
	}
	addDeepPathCases(run, func(o OptSet, label string, a, b *Val) { addC07Case(run, o, label, a, b) })
	for k := 0; k < 2; k++ {
		a, b := largePair(r, k == 1)
		run.Count("large-arrays")
		addLargeArrayCase(run, a, b, k == 1)
	}
	{
		a, b := largeEndsPair(r, 2100+r.Intn(50), true)
		addLargeArrayCase(run, a, b, false)
	}
	for i := 0; i < n; i++ {
		ch := choices[r.Intn(len(choices))]
		cfg := ch.cfg()
		cfg.ScalarBias = 4
		a, b := cfg.Pair(r)
		if (ch.o.Has("S") || ch.o.Has("B") || ch.o.Has("K")) && r.Chance(1, 3) {
			// equal-as-sets parts: permute arrays of b at every depth (a real difference may remain elsewhere)
			permuteDeep(r, b, false)
		}
		if ch.o.Has("K") && r.Chance(1, 6) {
			if dupIdentical(r, a)+dupIdentical(r, b) > 0 {
				run.Count("setkeys:member-written-twice")
			}
		}
		addC07Case(run, ch.o, ch.label, a, b)
		if r.Chance(1, 20) {
			// with a Precision the hunks must still be located where the values are (Diff ignores the precision:
			// a nudged number is a reported difference; KF-C05-precision belongs to C05, not to this property)
			pa, pb := precRunPair(r, 0.1)
			run.Count("precision:nudged-pair-next-to-a-changed-pair")
			addC07Case(run, OptPrec(0.1), "Precision(0.1)-runs", pa, pb)
		}
	}
}

// largePair: two arrays of more than 1024 elements (|a|*|b| beyond a million cells: where an implementation would
// be tempted to cap the LCS table) that differ at two places with unchanged elements between them
// largeEndsPair: n elements, the two arrays differ at BOTH ends (nothing to trim) and in between at a few places;
// with `container` an unchanged object sits directly behind the first changed element
func largeEndsPair(r *Rng, n int, container bool) (*Val, *Val) {
	xs := make([]*Val, n)
	for j := range xs {
		xs[j] = VNum(float64(j))
	}
	a := VArr(xs...)
	if container {
		a.A[1] = VObj("id", VNum(1), "tags", VArr(VStr("x")))
	}
	b := a.Clone()
	b.A[0] = VStr("first")
	b.A[n-1] = VStr("last")
	if !container {
		// drop some elements and insert others in the middle
		out := []*Val{}
		for j, e := range b.A {
			if j > 1 && j < n-1 && j%97 == 0 {
				continue
			}
			out = append(out, e)
			if j > 1 && j < n-1 && j%211 == 0 {
				out = append(out, VStr(fmt.Sprintf("s%d", j)))
			}
		}
		b.A = out
	}
	return a, b
}

func largePair(r *Rng, nested bool) (*Val, *Val) {
	n := 1030 + r.Intn(80)
	xs := make([]*Val, n)
	for j := range xs {
		xs[j] = VNum(float64(j % 7))
	}
	a := VArr(xs...)
	b := a.Clone()
	i := 100 + r.Intn(400)
	j := i + 2 + r.Intn(3)
	if nested {
		a.A[i], b.A[i] = VArr(VNum(1)), VArr(VNum(3))
		a.A[j], b.A[j] = VArr(VNum(2)), VArr(VNum(4))
	} else {
		b.A[i], b.A[j] = VStr("x"), VStr("y")
	}
	return a, b
}

// addLargeArrayCase judges the diff of two large arrays directly (the driver's reference LCS is the textbook
// recursion and the model's table is quadratic in lists: both are for small inputs): the hunks turn a into b, top
// level hunks remove / add exactly len - LCS elements (LCS by dynamic programming here), no hunk removes and adds
// the same values, and when the changed positions hold containers no top-level hunk touches anything
func addLargeArrayCase(run *Run, a, b *Val, nested bool) {
	aw, bw := a.Wire(), b.Wire()
	dw := implDiff(OptNone, aw, bw)
	c := Case{Recipe: Recipe{"largearr", []string{aw, bw, boolWire(nested)}}, Desc: map[string]string{"a_len": fmt.Sprint(len(a.A)), "b_len": fmt.Sprint(len(b.A)), "impl_diff": dw}}
	c.Nontrivial = true
	c.Sig = "large|" + fmt.Sprint(len(a.A)) + "|" + dw
	verdict := "ok"
	out := implPatch(aw, dw)
	if !strings.HasPrefix(out, "ok ") || implEquals(OptNone, out[3:], bw) != "T" {
		verdict = "fail the diff of the two large arrays does not turn a into b"
	}
	// LCS length of the element wires
	x, y := []string{}, []string{}
	for _, e := range a.A {
		x = append(x, e.Wire())
	}
	for _, e := range b.A {
		y = append(y, e.Wire())
	}
	prev := make([]int, len(y)+1)
	for i := 1; i <= len(x); i++ {
		cur := make([]int, len(y)+1)
		for j := 1; j <= len(y); j++ {
			if x[i-1] == y[j-1] {
				cur[j] = prev[j-1] + 1
			} else if prev[j] >= cur[j-1] {
				cur[j] = prev[j]
			} else {
				cur[j] = cur[j-1]
			}
		}
		prev = cur
	}
	lcs := prev[len(y)]
	rm, ad := 0, 0
	for _, h := range splitHunks(dw) {
		// fields of a hunk: tokens separated by the token "|"
		f := []string{}
		cur := []string{}
		for _, t := range strings.Fields(h) {
			if t == "|" {
				f = append(f, strings.Join(cur, " "))
				cur = []string{}
			} else {
				cur = append(cur, t)
			}
		}
		f = append(f, strings.Join(cur, " "))
		if len(f) != 5 {
			continue
		}
		path := strings.Fields(f[0])
		if len(path) != 3 { // "(", "s", "I<k>": a hunk of the top-level array
			continue
		}
		rmv, addv := topValues(f[2]), topValues(f[3])
		rm += len(rmv)
		ad += len(addv)
		if strings.Join(rmv, " ") == strings.Join(addv, " ") && len(rmv) > 0 {
			verdict = "fail a hunk removes and adds the same values: " + h
		}
	}
	if verdict == "ok" {
		if nested && (rm != 0 || ad != 0) {
			verdict = fmt.Sprintf("fail same-position containers differ, yet top-level hunks remove %d and add %d elements", rm, ad)
		} else if !nested && (rm != len(x)-lcs || ad != len(y)-lcs) {
			verdict = fmt.Sprintf("fail not minimal: removes %d adds %d, LCS length %d, |a|=%d |b|=%d", rm, ad, lcs, len(x), len(y))
		}
	}
	c.Probes = append(c.Probes, Probe{Kind: "direct", Rel: "large arrays (> 1024 elements): the diff applies, is minimal (len - LCS) and mentions no unchanged element", Want: verdict})
	run.Add(c)
}

// topValues splits a wire value list into its top-level values
func topValues(s string) []string {
	out := []string{}
	depth := 0
	cur := []string{}
	for _, t := range strings.Fields(s) {
		cur = append(cur, t)
		if strings.HasPrefix(t, "[") || t == "{" {
			depth++
		}
		if t == "]" || t == "}" {
			depth--
		}
		if depth == 0 {
			out = append(out, strings.Join(cur, " "))
			cur = []string{}
		}
	}
	return out
}

func addC07Case(run *Run, o OptSet, label string, a, b *Val) {
	aw, bw := a.Wire(), b.Wire()
	dw := implDiff(o, aw, bw)
	hs := splitHunks(dw)
	c := Case{Recipe: Recipe{"c07", []string{o.Wire(), aw, bw}}, Desc: map[string]string{"options": o.Name(), "a": a.Human(), "b": b.Human(), "impl_diff": dw}}
	c.Nontrivial = len(hs) >= 2
	c.Sig = o.Wire() + "|" + aw + "|" + bw
	outs := []string{}
	if len(hs) <= 12 {
		for j := range hs {
			sub := append(append([]string{}, hs[:j]...), hs[j+1:]...)
			outs = append(outs, implPatch(aw, joinHunks(sub)))
		}
	}
	c.Probes = append(c.Probes,
		Probe{Kind: "corr", Rel: "Diff = diffM", Line: fmt.Sprintf("diff %s %s %s", o.Wire(), aw, bw), Want: dw},
		Probe{Kind: "oracle", Rel: "C07 hunks are real differences; no hunk is redundant (leave-one-out via the implementation's Patch)", Line: fmt.Sprintf("c07 %s %s %s %s %d %s", o.Wire(), aw, bw, dw, len(outs), strings.Join(outs, " "))},
	)
	run.Count("opts:" + label)
	run.Count("hunks:" + sizeBucket(len(hs)))
	run.Add(c)
}

func init() {
	recipes["c04"] = func(run *Run, a []string) { addC04Case(run, mustOpts(a[0]), "corpus", mustVal(a[1]), mustVal(a[2])) }
	recipes["c04x"] = func(run *Run, a []string) {
		c := Case{Recipe: Recipe{"c04x", a}, Nontrivial: true, Sig: "chained|" + a[0] + "|" + a[1]}
		c.Probes = append(c.Probes, Probe{Kind: "oracle", Rel: "C04 Equals = advertised equivalence (hash-free spec), symmetric, reflexive",
			Line: fmt.Sprintf("c04 %s %s %s %s %s %s", func() string {
				if len(a) > 5 {
					return a[5]
				}
				return OptNone.Wire()
			}(), a[0], a[1], a[2], a[3], a[4])})
		run.Add(c)
	}
	recipes["c04t"] = func(run *Run, a []string) {
		o := mustOpts(a[0])
		c := Case{Recipe: Recipe{"c04t", a}, Nontrivial: true, Sig: "chained-typed|" + a[0] + "|" + a[1] + "|" + a[2]}
		c.Probes = append(c.Probes,
			Probe{Kind: "corr", Rel: "Equals = equals model", Line: fmt.Sprintf("equals %s %s %s", a[0], a[1], a[2]), Want: implEquals(o, a[1], a[2])},
			Probe{Kind: "corr", Rel: "Equals = equals model", Line: fmt.Sprintf("equals %s %s %s", a[0], a[2], a[1]), Want: implEquals(o, a[2], a[1])})
		run.Add(c)
	}
	recipes["c05"] = func(run *Run, a []string) { addC05Case(run, mustOpts(a[0]), "corpus", mustVal(a[1]), mustVal(a[2])) }
	recipes["c03"] = func(run *Run, a []string) { addC03Case(run, mustVal(a[0]), a[1]) }
	recipes["c08"] = func(run *Run, a []string) { addC08Case(run, a[0], mustVal(a[1]), a[2]) }
	recipes["c08typed"] = func(run *Run, a []string) {
		out := implPatch(a[0], a[1])
		c := Case{Recipe: Recipe{"c08typed", a}, Desc: map[string]string{"target_wire": a[0], "diff": a[1], "impl_patch": out}, Nontrivial: true, Sig: "typed|" + a[0] + "|" + a[1]}
		c.Probes = append(c.Probes, Probe{Kind: "corr", Rel: "Patch = patchM", Line: fmt.Sprintf("patch %s %s", a[0], a[1]), Want: out})
		run.Add(c)
	}
	recipes["largearr"] = func(run *Run, a []string) { addLargeArrayCase(run, mustVal(a[0]), mustVal(a[1]), a[2] == "T") }
	recipes["c07"] = func(run *Run, a []string) { addC07Case(run, mustOpts(a[0]), "corpus", mustVal(a[1]), mustVal(a[2])) }
	recipes["c06"] = func(run *Run, a []string) {
		switch a[0] {
		case "under-key":
			addC06Case(run, a[0], mustVal(a[1]), mustVal(a[2]), 1, func(v *Val) *Val { return VObj("k", v, "z", VNum(1)) })
		case "in-array":
			addC06Case(run, a[0], mustVal(a[1]), mustVal(a[2]), 1, func(v *Val) *Val { return VArr(v) })
		case "precision":
			addC06CaseO(run, OptPrec(0.1), a[0], mustVal(a[1]), mustVal(a[2]), 0, nil)
		default:
			addC06Case(run, a[0], mustVal(a[1]), mustVal(a[2]), 0, nil)
		}
	}
	props["C03"] = propC03
	props["C04"] = propC04
	props["C05"] = propC05
	props["C06"] = propC06
	props["C07"] = propC07
	props["C08"] = propC08
	for k, v := range map[string]int{"C03": 1500, "C04": 5000, "C05": 4000, "C06": 1500, "C07": 2500, "C08": 1500} {
		quickN[k] = v
	}
	for k, v := range map[string]int{"C03": 60000, "C04": 300000, "C05": 200000, "C06": 60000, "C07": 100000, "C08": 60000} {
		thoroughN[k] = v
	}
}
