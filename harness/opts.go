package main

import (
	"encoding/hex"
	"fmt"
	"math"
	"strings"

	jd "github.com/josephburnett/jd/v2"
)

// OptItem is one option of the v2 API; an OptSet is the ordered list given to the library.
type OptItem struct {
	Kind string // "M" merge, "S" set, "B" multiset, "C" color, "P" precision, "K" setkeys
	Prec float64
	Keys []string
}

type OptSet []OptItem

func (o OptSet) Wire() string {
	parts := []string{}
	for _, it := range o {
		switch it.Kind {
		case "P":
			parts = append(parts, fmt.Sprintf("P%016x", math.Float64bits(it.Prec)))
		case "K":
			hs := []string{}
			for _, k := range it.Keys {
				hs = append(hs, hexStr(k))
			}
			parts = append(parts, "K"+strings.Join(hs, "/"))
		default:
			parts = append(parts, it.Kind)
		}
	}
	return "o=" + strings.Join(parts, ",")
}

// ParseOpts reads the wire form back (for recipes).
func ParseOpts(w string) (OptSet, error) {
	if !strings.HasPrefix(w, "o=") {
		return nil, fmt.Errorf("bad opts %q", w)
	}
	body := w[2:]
	out := OptSet{}
	if body == "" {
		return out, nil
	}
	for _, it := range strings.Split(body, ",") {
		switch {
		case it == "M" || it == "S" || it == "B" || it == "C":
			out = append(out, OptItem{Kind: it})
		case strings.HasPrefix(it, "P"):
			var u uint64
			if _, err := fmt.Sscanf(it[1:], "%016x", &u); err != nil {
				return nil, err
			}
			out = append(out, OptItem{Kind: "P", Prec: math.Float64frombits(u)})
		case strings.HasPrefix(it, "K"):
			keys := []string{}
			if it != "K" {
				for _, h := range strings.Split(it[1:], "/") {
					b, err := hex.DecodeString(h)
					if err != nil {
						return nil, err
					}
					keys = append(keys, string(b))
				}
			}
			out = append(out, OptItem{Kind: "K", Keys: keys})
		default:
			return nil, fmt.Errorf("bad opt item %q", it)
		}
	}
	return out, nil
}

func (o OptSet) Go() []jd.Option {
	out := []jd.Option{}
	for _, it := range o {
		switch it.Kind {
		case "M":
			out = append(out, jd.MERGE)
		case "S":
			out = append(out, jd.SET)
		case "B":
			out = append(out, jd.MULTISET)
		case "C":
			out = append(out, jd.COLOR)
		case "P":
			out = append(out, jd.Precision(it.Prec))
		case "K":
			out = append(out, jd.SetKeys(it.Keys...))
		}
	}
	return out
}

func (o OptSet) Name() string {
	if len(o) == 0 {
		return "none"
	}
	parts := []string{}
	for _, it := range o {
		switch it.Kind {
		case "M":
			parts = append(parts, "MERGE")
		case "S":
			parts = append(parts, "SET")
		case "B":
			parts = append(parts, "MULTISET")
		case "C":
			parts = append(parts, "COLOR")
		case "P":
			parts = append(parts, fmt.Sprintf("Precision(%v)", it.Prec))
		case "K":
			parts = append(parts, "SetKeys("+strings.Join(it.Keys, ",")+")")
		}
	}
	return strings.Join(parts, "+")
}

func (o OptSet) Has(kind string) bool {
	for _, it := range o {
		if it.Kind == kind {
			return true
		}
	}
	return false
}

// PrecOf: the precision in force (0 without a Precision option)
func (o OptSet) PrecOf() float64 {
	for _, it := range o {
		if it.Kind == "P" {
			return it.Prec
		}
	}
	return 0
}

func (o OptSet) KeysOf() []string {
	for _, it := range o {
		if it.Kind == "K" {
			return it.Keys
		}
	}
	return nil
}

var (
	OptNone    = OptSet{}
	OptSetO    = OptSet{{Kind: "S"}}
	OptMset    = OptSet{{Kind: "B"}}
	OptMerge   = OptSet{{Kind: "M"}}
	OptSetMrg  = OptSet{{Kind: "S"}, {Kind: "M"}}
	OptMsetMrg = OptSet{{Kind: "B"}, {Kind: "M"}}
)

func OptKeys(keys ...string) OptSet { return OptSet{{Kind: "K", Keys: keys}} }
func OptKeysMrg(keys ...string) OptSet {
	return OptSet{{Kind: "K", Keys: keys}, {Kind: "M"}}
}
func OptPrec(eps float64) OptSet    { return OptSet{{Kind: "P", Prec: eps}} }
