package main

import (
	"encoding/hex"
	"fmt"
	"math"
	"sort"
	"strings"
)

// Val is the harness's own document representation (independent of jd's types).
type Kind int

const (
	KVoid Kind = iota
	KNull
	KBool
	KNum
	KStr
	KArr
	KObj
)

type Val struct {
	K   Kind
	B   bool
	N   float64
	S   string
	A   []*Val
	O   map[string]*Val
	Tag string // "r" (default), "l", "s", "m" for arrays
}

func VVoid() *Val            { return &Val{K: KVoid} }
func VNull() *Val            { return &Val{K: KNull} }
func VBool(b bool) *Val      { return &Val{K: KBool, B: b} }
func VNum(n float64) *Val    { return &Val{K: KNum, N: n} }
func VStr(s string) *Val     { return &Val{K: KStr, S: s} }
func VArr(a ...*Val) *Val    { return &Val{K: KArr, A: a, Tag: "r"} }
func VObj(kv ...interface{}) *Val {
	o := map[string]*Val{}
	for i := 0; i+1 < len(kv); i += 2 {
		o[kv[i].(string)] = kv[i+1].(*Val)
	}
	return &Val{K: KObj, O: o}
}

func (v *Val) Clone() *Val {
	c := *v
	if v.A != nil {
		c.A = make([]*Val, len(v.A))
		for i, e := range v.A {
			c.A[i] = e.Clone()
		}
	}
	if v.O != nil {
		c.O = map[string]*Val{}
		for k, e := range v.O {
			c.O[k] = e.Clone()
		}
	}
	return &c
}

func (v *Val) Keys() []string {
	ks := make([]string, 0, len(v.O))
	for k := range v.O {
		ks = append(ks, k)
	}
	sort.Strings(ks)
	return ks
}

func hexStr(s string) string { return hex.EncodeToString([]byte(s)) }

// Wire is the tagged protocol encoding of a document.
func (v *Val) Wire() string {
	var b strings.Builder
	v.wire(&b)
	return b.String()
}

func (v *Val) wire(b *strings.Builder) {
	switch v.K {
	case KVoid:
		b.WriteString("V")
	case KNull:
		b.WriteString("N")
	case KBool:
		if v.B {
			b.WriteString("T")
		} else {
			b.WriteString("F")
		}
	case KNum:
		fmt.Fprintf(b, "#%016x", math.Float64bits(v.N))
	case KStr:
		b.WriteString("\"" + hexStr(v.S))
	case KArr:
		t := v.Tag
		if t == "" {
			t = "r"
		}
		b.WriteString("[" + t)
		for _, e := range v.A {
			b.WriteString(" ")
			e.wire(b)
		}
		b.WriteString(" ]")
	case KObj:
		b.WriteString("{")
		for _, k := range v.Keys() {
			b.WriteString(" \"" + hexStr(k) + " ")
			v.O[k].wire(b)
		}
		b.WriteString(" }")
	}
}

// Human renders a document as (approximately) JSON for reports; void is shown as <void>.
func (v *Val) Human() string {
	switch v.K {
	case KVoid:
		return "<void>"
	case KNull:
		return "null"
	case KBool:
		return fmt.Sprint(v.B)
	case KNum:
		if v.N == 0 && math.Signbit(v.N) {
			return "-0"
		}
		return fmt.Sprint(v.N)
	case KStr:
		return fmt.Sprintf("%q", v.S)
	case KArr:
		parts := make([]string, len(v.A))
		for i, e := range v.A {
			parts[i] = e.Human()
		}
		t := ""
		if v.Tag != "" && v.Tag != "r" {
			t = v.Tag + ":"
		}
		return t + "[" + strings.Join(parts, ",") + "]"
	case KObj:
		parts := []string{}
		for _, k := range v.Keys() {
			parts = append(parts, fmt.Sprintf("%q:%s", k, v.O[k].Human()))
		}
		return "{" + strings.Join(parts, ",") + "}"
	}
	return "?"
}

func (v *Val) Depth() int {
	d := 0
	for _, e := range v.A {
		if x := e.Depth(); x > d {
			d = x
		}
	}
	for _, e := range v.O {
		if x := e.Depth(); x > d {
			d = x
		}
	}
	if v.K == KArr || v.K == KObj {
		return d + 1
	}
	return 0
}

func (v *Val) Size() int {
	n := 1
	for _, e := range v.A {
		n += e.Size()
	}
	for _, e := range v.O {
		n += e.Size()
	}
	return n
}

func (v *Val) HasNull() bool {
	if v.K == KNull {
		return true
	}
	for _, e := range v.A {
		if e.HasNull() {
			return true
		}
	}
	for _, e := range v.O {
		if e.HasNull() {
			return true
		}
	}
	return false
}

// ParseWire reads a wire-encoded node into a Val (for decoding implementation outputs).
func ParseWire(s string) (*Val, error) {
	toks := strings.Fields(s)
	pos := 0
	v, err := parseWireToks(toks, &pos)
	if err != nil {
		return nil, err
	}
	if pos != len(toks) {
		return nil, fmt.Errorf("trailing tokens")
	}
	return v, nil
}

func parseWireToks(toks []string, pos *int) (*Val, error) {
	if *pos >= len(toks) {
		return nil, fmt.Errorf("eof")
	}
	t := toks[*pos]
	*pos++
	switch {
	case t == "V":
		return VVoid(), nil
	case t == "N":
		return VNull(), nil
	case t == "T":
		return VBool(true), nil
	case t == "F":
		return VBool(false), nil
	case strings.HasPrefix(t, "#"):
		var u uint64
		if _, err := fmt.Sscanf(t[1:], "%016x", &u); err != nil {
			return nil, err
		}
		return VNum(math.Float64frombits(u)), nil
	case strings.HasPrefix(t, "\""):
		bs, err := hex.DecodeString(t[1:])
		if err != nil {
			return nil, err
		}
		return VStr(string(bs)), nil
	case len(t) == 2 && t[0] == '[':
		v := &Val{K: KArr, Tag: t[1:], A: []*Val{}}
		for {
			if *pos >= len(toks) {
				return nil, fmt.Errorf("eof in array")
			}
			if toks[*pos] == "]" {
				*pos++
				return v, nil
			}
			e, err := parseWireToks(toks, pos)
			if err != nil {
				return nil, err
			}
			v.A = append(v.A, e)
		}
	case t == "{":
		v := &Val{K: KObj, O: map[string]*Val{}}
		for {
			if *pos >= len(toks) {
				return nil, fmt.Errorf("eof in object")
			}
			if toks[*pos] == "}" {
				*pos++
				return v, nil
			}
			kt := toks[*pos]
			*pos++
			if !strings.HasPrefix(kt, "\"") {
				return nil, fmt.Errorf("bad key")
			}
			kb, err := hex.DecodeString(kt[1:])
			if err != nil {
				return nil, err
			}
			e, err := parseWireToks(toks, pos)
			if err != nil {
				return nil, err
			}
			v.O[string(kb)] = e
		}
	}
	return nil, fmt.Errorf("bad token %q", t)
}
