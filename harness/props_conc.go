package main

// (1) CONCURRENT USE. Diff, Equals and the renderers called from several goroutines on INDEPENDENT documents must give
//     what they give when called one after the other (C15 "a deterministic function of the inputs"; C06: a diff computed
//     next to other diffs is still minimal). Package-level state shared between calls (a pooled hasher, a cached
//     buffer) shows only here.
// (2) READING THE SAME TEXT AGAIN gives the same document or the same refusal (YAML mappings with keys that are not
//     strings, or that become equal once they are; JSON with repeated names).

import (
	"fmt"
	"strings"
	"sync"

	jd1 "github.com/josephburnett/jd/lib"
	jd "github.com/josephburnett/jd/v2"
)

func addConcurrencyCase(run *Run, seed uint64, workers, perWorker int) {
	r := NewRng(seed ^ 0xc0c0)
	type job struct {
		aw, bw string
		o      OptSet
	}
	jobs := []job{}
	opts := []OptSet{OptNone, OptSetO, OptMset, OptMerge, OptKeys("id")}
	for i := 0; i < workers*perWorker; i++ {
		cfg := DefaultCfg()
		o := opts[r.Intn(len(opts))]
		if o.Has("K") {
			cfg.SetKeys = []string{"id"}
			cfg.Keys = []string{"a", "id", "x"}
		}
		if r.Chance(1, 3) {
			// long strings: hashing them takes long enough for calls to overlap
			cfg.Strs = []string{strings.Repeat("x", 3000) + "1", strings.Repeat("x", 3000) + "2", strings.Repeat("y", 4000), "a"}
		}
		a := cfg.Arr(r, 0)
		b := cfg.Mutate(r, a, 2)
		jobs = append(jobs, job{a.Wire(), b.Wire(), o})
	}
	one := func(j job) string {
		res, _ := safely(func() string {
			an, bn := mustNode(j.aw), mustNode(j.bw)
			d := an.Diff(bn, j.o.Go()...)
			p, _ := d.RenderPatch()
			return jd.VerifEncodeDiff(d) + "|" + d.Render() + "|" + p + "|" + boolWire(an.Equals(bn, j.o.Go()...)) + "|" + an.Json(j.o.Go()...)
		})
		return res
	}
	seq := make([]string, len(jobs))
	for i, j := range jobs {
		seq[i] = one(j)
	}
	verdict := "ok"
	for round := 0; round < 3 && verdict == "ok"; round++ {
		par := make([]string, len(jobs))
		var wg sync.WaitGroup
		for w := 0; w < workers; w++ {
			wg.Add(1)
			go func(w int) {
				defer wg.Done()
				for k := 0; k < perWorker; k++ {
					i := w*perWorker + k
					par[i] = one(jobs[i])
				}
			}(w)
		}
		wg.Wait()
		for i := range jobs {
			if par[i] != seq[i] {
				verdict = fmt.Sprintf("fail called from %d goroutines at once, Diff / Render / Equals of job %d (options %s) give %s where the same call alone gives %s", workers, i, jobs[i].o.Name(), short(par[i]), short(seq[i]))
				break
			}
		}
	}
	c := Case{Recipe: Recipe{"conc", []string{fmt.Sprint(seed), fmt.Sprint(workers), fmt.Sprint(perWorker)}}, Desc: map[string]string{"goroutines": fmt.Sprint(workers), "calls": fmt.Sprint(len(jobs))}, Nontrivial: true, Sig: fmt.Sprintf("conc|%d|%d|%d", seed, workers, perWorker)}
	c.Probes = append(c.Probes, Probe{Kind: "direct", Rel: "calls from several goroutines on independent documents give what the same calls give alone", Want: verdict})
	run.Count("concurrent-batches")
	run.Add(c)
}

func addRereadCase(run *Run, yaml bool, text string) {
	c := Case{Recipe: Recipe{"reread", []string{boolWire(yaml), textWire(text)}}, Desc: map[string]string{"text": short(text), "yaml": fmt.Sprint(yaml)}, Nontrivial: true, Sig: "reread|" + boolWire(yaml) + text}
	outs := map[string]bool{}
	for k := 0; k < 40; k++ {
		res, _ := safely(func() string {
			var n jd.JsonNode
			var err error
			var n1 jd1.JsonNode
			var err1 error
			if yaml {
				n, err = jd.ReadYamlString(text)
				n1, err1 = jd1.ReadYamlString(text)
			} else {
				n, err = jd.ReadJsonString(text)
				n1, err1 = jd1.ReadJsonString(text)
			}
			return encOutcomeNode(n, err) + "|" + encOutcomeNodeV1(n1, err1)
		})
		outs[res] = true
	}
	verdict := "ok"
	if len(outs) > 1 {
		verdict = fmt.Sprintf("fail reading the same text 40 times gives %d different outcomes", len(outs))
	}
	c.Probes = append(c.Probes, Probe{Kind: "direct", Rel: "reading the same text again gives the same document or the same refusal", Want: verdict})
	run.Count("reread-texts")
	run.Add(c)
}

var rereadYaml = []string{
	"ports:\n  80: http\n  \"80\": http-alt\n  443: https\n", "1: a\n1.0: b\n\"1\": c\n", "true: a\n\"true\": b\nyes: c\n", "? [1, 2]\n: x\n", "a: 1\na: 2\n",
	"~: x\nnull: y\n\"\": z\n", "k: {1: a, \"1\": b, 01: c}\n", "- {2: x, \"2\": y}\n- {\"2\": y, 2: x}\n",
}
var rereadJson = []string{`{"a":1,"a":2}`, `{"a":{"b":1,"b":2},"a":3}`, `[{"k":1,"k":1}]`}

func addConcurrencyAndReread(run *Run) {
	for k := 0; k < 2; k++ {
		addConcurrencyCase(run, run.Seed+uint64(k), 8, 24)
	}
	for _, t := range rereadYaml {
		addRereadCase(run, true, t)
	}
	for _, t := range rereadJson {
		addRereadCase(run, false, t)
	}
}

func init() {
	recipes["conc"] = func(run *Run, a []string) {
		var seed uint64
		var w, p int
		fmt.Sscan(a[0], &seed)
		fmt.Sscan(a[1], &w)
		fmt.Sscan(a[2], &p)
		addConcurrencyCase(run, seed, w, p)
	}
	recipes["reread"] = func(run *Run, a []string) {
		t, _ := outcomeText("ok " + a[1])
		addRereadCase(run, a[0] == "T", t)
	}
}
