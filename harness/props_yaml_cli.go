package main

// C16, process level: "yaml2json / json2yaml translations … preserve content exactly". The real binaries
// (both of them) translate a document JSON -> YAML -> JSON, through stdout or through -o files that already
// exist and hold something longer, and the document that comes back must Equal the original and re-render to
// the same JSON. Direct probe on the implementation (no model involved); documents of the listed
// known-finding classes of C16 (key "<<", -0) and the void document are kept out.

import (
	"fmt"
	"os"
	"os/exec"
	"path/filepath"
	"strings"

	jd "github.com/josephburnett/jd/v2"
)

var c16Bins *cliBins

func c16CliBins() *cliBins {
	if c16Bins == nil {
		c16Bins = cliBuild()
	}
	return c16Bins
}

func c16RunCli(bin string, stdin string, args ...string) (string, int, string) {
	cmd := exec.Command(bin, args...)
	cmd.Stdin = strings.NewReader(stdin)
	var out, errb strings.Builder
	cmd.Stdout, cmd.Stderr = &out, &errb
	err := cmd.Run()
	code := 0
	if err != nil {
		if ee, ok := err.(*exec.ExitError); ok {
			code = ee.ExitCode()
		} else {
			code = -1
		}
	}
	return out.String(), code, errb.String()
}

// addC16CliCase: one translation round trip of document v with one binary; useO: through -o files that exist already
func addC16CliCase(run *Run, v *Val, top bool, useO bool, yamlFirst bool) {
	w := v.Wire()
	c := Case{Recipe: Recipe{"c16cli", []string{w, boolWire(top), boolWire(useO), boolWire(yamlFirst)}},
		Desc:       map[string]string{"document": v.Human(), "binary": map[bool]string{true: "jd (top level)", false: "v2/jd"}[top], "through": map[bool]string{true: "-o onto existing longer files", false: "stdout"}[useO]},
		Nontrivial: true, Sig: "cli|" + w + boolWire(top) + boolWire(useO) + boolWire(yamlFirst)}
	bins := c16CliBins()
	verdict := "ok"
	if bins.err != nil {
		verdict = "fail cannot build the binaries: " + bins.err.Error()
	} else {
		bin := bins.v2jd
		if top {
			bin = bins.top
		}
		dir, _ := os.MkdirTemp("", "verif-c16-")
		defer os.RemoveAll(dir)
		node := mustNode(w)
		src := node.Json()
		first, second := "json2yaml", "yaml2json"
		if yamlFirst {
			src = node.Yaml()
			first, second = "yaml2json", "json2yaml"
		}
		in := filepath.Join(dir, "in")
		os.WriteFile(in, []byte(src), 0o644)
		step := func(mode, input, name string) (string, bool) {
			if useO {
				out := filepath.Join(dir, name)
				os.WriteFile(out, []byte(strings.Repeat("stale: \"0123456789\"\n", 400)), 0o644)
				so, code, se := c16RunCli(bin, "", "-t", mode, "-o", out, input)
				if code != 0 {
					verdict = fmt.Sprintf("fail jd -t %s -o exits %d: %s", mode, code, short(se))
					return "", false
				}
				if so != "" {
					verdict = fmt.Sprintf("fail jd -t %s -o writes to stdout: %s", mode, short(so))
					return "", false
				}
				return out, true
			}
			so, code, se := c16RunCli(bin, "", "-t", mode, input)
			if code != 0 {
				verdict = fmt.Sprintf("fail jd -t %s exits %d: %s", mode, code, short(se))
				return "", false
			}
			out := filepath.Join(dir, name)
			os.WriteFile(out, []byte(so), 0o644)
			return out, true
		}
		mid, ok := step(first, in, "mid")
		if ok {
			fin, ok2 := step(second, mid, "fin")
			if ok2 {
				res, _ := safely(func() string {
					bs, _ := os.ReadFile(fin)
					var back jd.JsonNode
					var err error
					if yamlFirst {
						back, err = jd.ReadYamlString(string(bs))
					} else {
						back, err = jd.ReadJsonString(string(bs))
					}
					if err != nil {
						verdict = "fail the translated-back text does not parse: " + short(string(bs))
						return "done"
					}
					if !back.Equals(node) || !node.Equals(back) || back.Json() != node.Json() {
						verdict = "fail the document translated " + first + " then " + second + " is " + short(back.Json()) + ", not " + short(node.Json())
					}
					return "done"
				})
				if res == "panic" {
					verdict = "fail panic while reading the translated-back text"
				}
			}
		}
	}
	c.Probes = append(c.Probes, Probe{Kind: "direct", Rel: "C16 jd -t json2yaml / yaml2json (both binaries, stdout and -o) translate there and back to an Equal document with identical JSON", Want: verdict})
	run.Count("cli-translation")
	run.Add(c)
}

// addC16CliPatchCase: `jd -yaml a b` then `jd -yaml -p <diff> a` with one binary: the YAML printed by the second run
// must read back to a document Equal to b that renders like b (diffs and patches of YAML documents preserve content)
func addC16CliPatchCase(run *Run, a, b *Val, top bool) {
	aw, bw := a.Wire(), b.Wire()
	c := Case{Recipe: Recipe{"c16clip", []string{aw, bw, boolWire(top)}},
		Desc:       map[string]string{"a": a.Human(), "b": b.Human(), "binary": map[bool]string{true: "jd (top level)", false: "v2/jd"}[top]},
		Nontrivial: aw != bw, Sig: "clip|" + aw + "|" + bw + boolWire(top)}
	bins := c16CliBins()
	verdict := "ok"
	if bins.err != nil {
		verdict = "fail cannot build the binaries: " + bins.err.Error()
	} else {
		bin := bins.v2jd
		if top {
			bin = bins.top
		}
		dir, _ := os.MkdirTemp("", "verif-c16p-")
		defer os.RemoveAll(dir)
		res, _ := safely(func() string {
			an, bn := mustNode(aw), mustNode(bw)
			fa, fb, fd := filepath.Join(dir, "a.yaml"), filepath.Join(dir, "b.yaml"), filepath.Join(dir, "d")
			os.WriteFile(fa, []byte(an.Yaml()), 0o644)
			os.WriteFile(fb, []byte(bn.Yaml()), 0o644)
			dtext, code, se := c16RunCli(bin, "", "-yaml", fa, fb)
			if code != 0 && code != 1 {
				verdict = fmt.Sprintf("fail jd -yaml a b exits %d: %s", code, short(se))
				return "done"
			}
			os.WriteFile(fd, []byte(dtext), 0o644)
			out, code, se := c16RunCli(bin, "", "-yaml", "-p", fd, fa)
			if code != 0 {
				verdict = fmt.Sprintf("fail jd -yaml -p exits %d: %s", code, short(se))
				return "done"
			}
			back, err := jd.ReadYamlString(out)
			if err != nil {
				verdict = "fail the patched YAML does not parse: " + short(out)
				return "done"
			}
			if !back.Equals(bn) || !bn.Equals(back) || back.Json() != bn.Json() {
				verdict = "fail jd -yaml -p printed " + short(out) + " which reads as " + short(back.Json()) + ", not " + short(bn.Json())
			}
			return "done"
		})
		if res == "panic" {
			verdict = "ok panic-elsewhere"
		}
	}
	if strings.HasPrefix(verdict, "ok") {
		verdict = "ok"
	}
	c.Probes = append(c.Probes, Probe{Kind: "direct", Rel: "C16 jd -yaml a b then jd -yaml -p reproduces b (both binaries, YAML in and out)", Want: verdict})
	run.Count("cli-yaml-diff-patch")
	run.Add(c)
}

func init() {
	recipes["c16clip"] = func(run *Run, a []string) {
		owned := c16Bins == nil
		addC16CliPatchCase(run, mustVal(a[0]), mustVal(a[1]), a[2] == "T")
		if owned && c16Bins != nil {
			c16Bins.cleanup()
			c16Bins = nil
		}
	}
	recipes["c16cli"] = func(run *Run, a []string) {
		owned := c16Bins == nil
		addC16CliCase(run, mustVal(a[0]), a[1] == "T", a[2] == "T", a[3] == "T")
		if owned && c16Bins != nil {
			c16Bins.cleanup()
			c16Bins = nil
		}
	}
}
