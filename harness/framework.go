package main

import (
	"encoding/json"
	"fmt"
	"os"
	"sort"
	"strings"
)

// A Probe is one line sent to the model driver together with what the implementation produced.
//   corr:   the model's result must equal Want (exact, after canonical encoding)
//   oracle: the driver evaluates the property's spec predicate on the implementation's own outputs;
//           expected answer "ok"; "fail …" is a failing input; "kf <ID> …" a listed known-finding class
//   direct: verdict computed by the harness itself on the implementation (Want = "ok" / "fail …")
type Probe struct {
	Kind string `json:"kind"`
	Rel  string `json:"relation"`
	Line string `json:"line"`
	Want string `json:"want"`
	Got  string `json:"got,omitempty"`
}

type Recipe struct {
	Name string   `json:"name"`
	Args []string `json:"args"`
}

type Case struct {
	N      int               `json:"n"`
	Recipe Recipe            `json:"recipe"`
	Desc   map[string]string `json:"desc"`
	Probes []Probe           `json:"probes"`
	// bookkeeping for evidence
	Nontrivial bool   `json:"nontrivial"`
	Sig        string `json:"-"`
	Features   []string `json:"features,omitempty"`
}

type Finding struct {
	Class  string `json:"class"` // "oracle-fail" | "corr-mismatch" | "known-finding" | "driver-error"
	KF     string `json:"kf,omitempty"`
	Detail string `json:"detail"`
	Case   Case   `json:"case"`
	Probe  Probe  `json:"probe"`
}

type Summary struct {
	Property           string         `json:"property"`
	Tier               string         `json:"tier"`
	Seed               uint64         `json:"seed"`
	Evaluations        int            `json:"evaluations"`
	Probes             int            `json:"probes"`
	DistinctNontrivial int            `json:"distinct_nontrivial"`
	Rule               string         `json:"rule"`
	Samples            []Case         `json:"samples"`
	Distribution       map[string]int `json:"distribution"`
	Relations          map[string]int `json:"relations_checked"`
	Findings           []Finding      `json:"findings"`
	Exhaustive         bool           `json:"exhaustive,omitempty"`
	Notes              []string       `json:"notes,omitempty"`
}

type Run struct {
	Prop      string
	Tier      string
	Seed      uint64
	DriverBin string
	cases     []Case
	dist      map[string]int
	notes     []string
	rule      string
}

func (r *Run) Add(c Case) {
	c.N = len(r.cases)
	r.cases = append(r.cases, c)
}

func (r *Run) Count(key string) { r.dist[key]++ }

func (r *Run) Note(s string) { r.notes = append(r.notes, s) }

// Finish sends all probes to the driver, compares, and builds the summary.
func (r *Run) Finish() Summary {
	lines := []string{}
	for ci := range r.cases {
		for pi := range r.cases[ci].Probes {
			p := &r.cases[ci].Probes[pi]
			if p.Kind == "direct" {
				continue
			}
			lines = append(lines, fmt.Sprintf("%d.%d %s", ci, pi, p.Line))
		}
	}
	sum := Summary{Property: r.Prop, Tier: r.Tier, Seed: r.Seed, Distribution: r.dist, Relations: map[string]int{}, Rule: r.rule, Notes: r.notes}
	res, err := RunDriver(r.DriverBin, lines)
	if err != nil {
		sum.Findings = append(sum.Findings, Finding{Class: "driver-error", Detail: err.Error()})
		return sum
	}
	sigs := map[string]bool{}
	for ci := range r.cases {
		c := &r.cases[ci]
		sum.Evaluations++
		if c.Nontrivial && !sigs[c.Sig] {
			sigs[c.Sig] = true
			sum.DistinctNontrivial++
		}
		for pi := range c.Probes {
			p := &c.Probes[pi]
			sum.Probes++
			sum.Relations[p.Kind+":"+p.Rel]++
			switch p.Kind {
			case "direct":
				if p.Want != "ok" {
					if strings.HasPrefix(p.Want, "kf ") {
						f := strings.Fields(p.Want)
						sum.Findings = append(sum.Findings, Finding{Class: "known-finding", KF: f[1], Detail: p.Want, Case: *c, Probe: *p})
					} else {
						sum.Findings = append(sum.Findings, Finding{Class: "oracle-fail", Detail: p.Rel + ": " + p.Want, Case: *c, Probe: *p})
					}
				}
			case "corr":
				got, ok := res[fmt.Sprintf("%d.%d", ci, pi)]
				p.Got = got
				if !ok {
					sum.Findings = append(sum.Findings, Finding{Class: "driver-error", Detail: "no answer from driver", Case: *c, Probe: *p})
					continue
				}
				if got == p.Want {
					continue
				}
				if strings.HasSuffix(got, " kfskip") && strings.HasPrefix(p.Want, strings.TrimSuffix(got, "kfskip")) {
					// the diff agrees; the patch outcome is not tied in this known-finding class (see Driver/Ops.lean)
					sum.Relations["corr-diff-only:"+p.Rel]++
					continue
				}
				if strings.Contains(got, "okswallow ") {
					// keyed-member error swallowed (KF-C08-swallow): the implementation's result is
					// not compared, only that it also reports success
					g := strings.Replace(got, "okswallow ", "ok ", 1)
					if g == p.Want || (strings.Contains(p.Want, "ok ") && !strings.Contains(p.Want, "err") && !strings.Contains(p.Want, "panic")) {
						if r.Prop == "C08" || r.Prop == "C13" {
							sum.Findings = append(sum.Findings, Finding{Class: "known-finding", KF: "KF-C08-swallow", Detail: "nested keyed-member error swallowed", Case: *c, Probe: *p})
						}
						// elsewhere the tie holds modulo the discarded result; whether the property holds on
						// this case is for its oracle probe to say
						continue
					}
				}
				sum.Findings = append(sum.Findings, Finding{Class: "corr-mismatch", Detail: p.Rel + ": model and implementation differ", Case: *c, Probe: *p})
			case "oracle":
				got, ok := res[fmt.Sprintf("%d.%d", ci, pi)]
				p.Got = got
				if !ok || strings.HasPrefix(got, "bad-") {
					sum.Findings = append(sum.Findings, Finding{Class: "driver-error", Detail: "driver: " + got, Case: *c, Probe: *p})
					continue
				}
				if got == "ok" || strings.HasPrefix(got, "ok ") {
					continue
				}
				if strings.HasPrefix(got, "kf ") {
					f := strings.Fields(got)
					sum.Findings = append(sum.Findings, Finding{Class: "known-finding", KF: f[1], Detail: got, Case: *c, Probe: *p})
					continue
				}
				sum.Findings = append(sum.Findings, Finding{Class: "oracle-fail", Detail: p.Rel + ": " + got, Case: *c, Probe: *p})
			}
		}
	}
	// samples: first few non-trivial cases
	for ci := range r.cases {
		if r.cases[ci].Nontrivial && len(sum.Samples) < 5 {
			sum.Samples = append(sum.Samples, r.cases[ci])
		}
	}
	if len(sum.Samples) == 0 && len(r.cases) > 0 {
		sum.Samples = append(sum.Samples, r.cases[0])
	}
	return sum
}

func writeJSON(path string, v interface{}) error {
	b, err := json.MarshalIndent(v, "", " ")
	if err != nil {
		return err
	}
	return os.WriteFile(path, b, 0644)
}

func sortedKeys(m map[string]int) []string {
	ks := make([]string, 0, len(m))
	for k := range m {
		ks = append(ks, k)
	}
	sort.Strings(ks)
	return ks
}
