package main

// The FILE entry points of both libraries (ReadJsonFile, ReadYamlFile, ReadDiffFile, ReadPatchFile, ReadMergeFile)
// must return what the corresponding STRING entry points return on the file's content. The string variants are
// tied to the model and judged by the oracles of C02 / C10 / C12 / C16 / C17 / C18; this direct probe transfers
// that to the file variants (found missing by measuring the statement coverage of the quick tiers, and by a
// seeded change that gave ReadMergeFile a reader of its own).

import (
	"fmt"
	"os"
	"path/filepath"
	"strings"

	jd1 "github.com/josephburnett/jd/lib"
	jd "github.com/josephburnett/jd/v2"
)

func fileTwinOutcome(v1 bool, kind, text string, viaFile bool) string {
	res, _ := safely(func() string {
		name := text
		if viaFile {
			dir, err := os.MkdirTemp("", "verif-file-")
			if err != nil {
				return "skip"
			}
			defer os.RemoveAll(dir)
			name = filepath.Join(dir, "in")
			if err := os.WriteFile(name, []byte(text), 0o644); err != nil {
				return "skip"
			}
		}
		if v1 {
			switch kind {
			case "json":
				if viaFile {
					n, err := jd1.ReadJsonFile(name)
					return encOutcomeNodeV1(n, err)
				}
				n, err := jd1.ReadJsonString(name)
				return encOutcomeNodeV1(n, err)
			case "yaml":
				if viaFile {
					n, err := jd1.ReadYamlFile(name)
					return encOutcomeNodeV1(n, err)
				}
				n, err := jd1.ReadYamlString(name)
				return encOutcomeNodeV1(n, err)
			case "diff":
				if viaFile {
					return encOutcomeDiffV1(jd1.ReadDiffFile(name))
				}
				return encOutcomeDiffV1(jd1.ReadDiffString(name))
			case "patch":
				if viaFile {
					return encOutcomeDiffV1(jd1.ReadPatchFile(name))
				}
				return encOutcomeDiffV1(jd1.ReadPatchString(name))
			default:
				if viaFile {
					return sortV1Hunks(encOutcomeDiffV1(jd1.ReadMergeFile(name)))
				}
				return sortV1Hunks(encOutcomeDiffV1(jd1.ReadMergeString(name)))
			}
		}
		switch kind {
		case "json":
			if viaFile {
				n, err := jd.ReadJsonFile(name)
				return encOutcomeNode(n, err)
			}
			n, err := jd.ReadJsonString(name)
			return encOutcomeNode(n, err)
		case "yaml":
			if viaFile {
				n, err := jd.ReadYamlFile(name)
				return encOutcomeNode(n, err)
			}
			n, err := jd.ReadYamlString(name)
			return encOutcomeNode(n, err)
		case "diff":
			if viaFile {
				return encOutcomeDiff(jd.ReadDiffFile(name))
			}
			return encOutcomeDiff(jd.ReadDiffString(name))
		case "patch":
			if viaFile {
				return encOutcomeDiff(jd.ReadPatchFile(name))
			}
			return encOutcomeDiff(jd.ReadPatchString(name))
		default:
			if viaFile {
				return encOutcomeDiff(jd.ReadMergeFile(name))
			}
			return encOutcomeDiff(jd.ReadMergeString(name))
		}
	})
	return res
}

func addFileTwinCase(run *Run, v1 bool, kind, text string) {
	lib := "v2"
	if v1 {
		lib = "v1"
	}
	c := Case{Recipe: Recipe{"filetwin", []string{boolWire(v1), kind, textWire(text)}}, Desc: map[string]string{"library": lib, "kind": kind, "text": short(text)}, Nontrivial: strings.TrimSpace(text) != "", Sig: "file|" + lib + kind + text}
	s, f := fileTwinOutcome(v1, kind, text, false), fileTwinOutcome(v1, kind, text, true)
	w := "ok"
	if s != f && s != "skip" && f != "skip" {
		w = fmt.Sprintf("fail %s Read%sFile returns %s but Read%sString on the same content returns %s", lib, strings.Title(kind), short(f), strings.Title(kind), short(s))
	}
	c.Probes = append(c.Probes, Probe{Kind: "direct", Rel: "the file entry point returns what the string entry point returns on the file's content", Want: w})
	run.Count("file-entry-point:" + lib + "-" + kind)
	run.Add(c)
}

var fileTwinFixed = map[string][]string{
	"json":  {"{}", "[]", "null", " \n", "", "{\"a\":1}\n", "[1,2", "\"x\"", "1e3", "\ufeff{}"},
	"yaml":  {"{}", "a: 1\n", "- 1\n- x\n", "", "  \n", "a: [1, 2]\n", "a:\n  b: null\n", "x: 'y'\n", ": bad", "---\na: 1\n"},
	"merge": {"{}", "{ }\n", "null", "{\"a\":null}", "{\"a\":{}}", "{\"a\":{\"b\":{}}}", "[1]", "1", "\"\"", "", " ", "{\"a\":1", "{\"a\":[1,null]}"},
	"patch": {"[]", "null", "[{\"op\":\"add\",\"path\":\"/a\",\"value\":1}]", "[{\"op\":\"test\",\"path\":\"/0\",\"value\":1},{\"op\":\"remove\",\"path\":\"/0\",\"value\":1}]", "", "{}", "[{\"op\":\"add\",\"path\":\"/-\",\"value\":null}]\n"},
	"diff":  {"", "@ [\"a\"]\n- 1\n+ 2\n", "@ [0]\n[\n- 1\n  2\n", "^ {\"Merge\":true}\n@ [\"a\"]\n+ 1\n", "@ [{}]\n- 1\n+ 2\n", "@ [\"a\"]\n- 1", "garbage", "@ []\n+ {}\n"},
}

// addFileTwins: fixed texts plus texts rendered from random documents, for the given library and kinds
func addFileTwins(run *Run, v1 bool, kinds ...string) {
	r := NewRng(run.Seed ^ 0xf11e)
	for _, kind := range kinds {
		for _, t := range fileTwinFixed[kind] {
			addFileTwinCase(run, v1, kind, t)
		}
		for i := 0; i < 12; i++ {
			cfg := DefaultCfg()
			cfg.AllowNull = kind != "merge" || r.Chance(1, 2)
			a, b := cfg.Pair(r)
			text := ""
			safely(func() string {
				an, bn := mustNode(a.Wire()), mustNode(b.Wire())
				switch kind {
				case "json":
					text = an.Json()
				case "yaml":
					text = an.Yaml()
				case "merge":
					text = bn.Json()
				case "patch":
					text, _ = an.Diff(bn).RenderPatch()
				default:
					if r.Chance(1, 3) {
						text = an.Diff(bn, jd.SET).Render()
					} else if r.Chance(1, 2) {
						text = an.Diff(bn, jd.MERGE).Render()
					} else {
						text = an.Diff(bn).Render()
					}
				}
				return ""
			})
			addFileTwinCase(run, v1, kind, text)
		}
	}
}

func init() {
	recipes["filetwin"] = func(run *Run, a []string) {
		t, _ := outcomeText("ok " + a[2])
		addFileTwinCase(run, a[0] == "T", a[1], t)
	}
	wrap := func(prop string, v1 bool, kinds ...string) {
		orig := props[prop]
		if orig == nil {
			return
		}
		props[prop] = func(run *Run, n int) {
			addFileTwins(run, v1, kinds...)
			orig(run, n)
		}
	}
	fileTwinWrap = func() {
		for _, prop := range []string{"C15", "C06", "C16"} {
			prop := prop
			if orig := props[prop]; orig != nil {
				props[prop] = func(run *Run, n int) {
					if prop == "C06" {
						addConcurrencyCase(run, run.Seed, 8, 24)
					} else {
						addConcurrencyAndReread(run)
					}
					orig(run, n)
				}
			}
		}
		if orig := props["C05"]; orig != nil && c05CliHook != nil {
			props["C05"] = func(run *Run, n int) {
				c05CliHook(run, n)
				orig(run, n)
			}
		}
		wrap("C02", false, "diff")
		wrap("C10", false, "patch")
		wrap("C12", false, "merge")
		wrap("C16", false, "json", "yaml")
		wrap("C17", true, "diff", "json", "yaml")
		wrap("C18", true, "patch", "merge")
	}
}

var fileTwinWrap func()
