package main

import (
	"encoding/json"
	"fmt"
	"sort"
	"strconv"
	"strings"

	jd "github.com/josephburnett/jd/v2"
)

func encOutcomeText(s string, err error) string {
	if err != nil {
		return "err"
	}
	return "ok " + textWire(s)
}

func implRenderPatch(dw string) string {
	r, _ := safely(func() string { return encOutcomeText(mustDiff(dw).RenderPatch()) })
	return r
}

func implRenderMerge(dw string) string {
	r, _ := safely(func() string { return encOutcomeText(mustDiff(dw).RenderMerge()) })
	return r
}

func implReadPatch(text string) string {
	r, _ := safely(func() string { return encOutcomeDiff(jd.ReadPatchString(text)) })
	return r
}

func implReadMerge(text string) string {
	r, _ := safely(func() string { return encOutcomeDiff(jd.ReadMergeString(text)) })
	return r
}

func outcomeText(w string) (string, bool) {
	if !strings.HasPrefix(w, "ok x") {
		return "", false
	}
	b, err := hexDecode(w[4:])
	if err != nil {
		return "", false
	}
	return string(b), true
}

func hexDecode(s string) ([]byte, error) {
	out := make([]byte, len(s)/2)
	for i := 0; i+1 < len(s); i += 2 {
		v, err := strconv.ParseUint(s[i:i+2], 16, 8)
		if err != nil {
			return nil, err
		}
		out[i/2] = byte(v)
	}
	return out, nil
}

func fmtCfg(r *Rng) GenCfg {
	cfg := DefaultCfg()
	cfg.ScalarBias = 4
	if r.Chance(1, 2) {
		cfg.Keys = nastyKeys
		cfg.Strs = nastyStrs
	}
	if r.Chance(1, 4) {
		cfg.Nums = nastyNums
	}
	if r.Chance(1, 5) {
		d := DeepCfg()
		d.Keys, d.Strs = cfg.Keys, cfg.Strs
		return d
	}
	return cfg
}

// ---------------------------------------------------------------------------------------------
// C09 — RFC 6902 output means the same as the native diff
func propC09(run *Run, n int) {
	run.rule = "list-mode d = a.Diff(b) over random (a,b) with keys containing '/', '~', empty, unicode, number-like keys and '-'; targets a, b and perturbations on which the native diff applies; non-trivial = at least one hunk; distinct = distinct (a,b)"
	r := NewRng(run.Seed)
	// hunks at large indices (seven and more digits, 2^31, 2^32, 2^52; the model covers indices below 2^53): the pointer text must be the decimal index (tie only:
	// v2's list diff of million-element arrays does not finish, so no real document pair stands behind these)
	for _, idx := range []int64{999999, 1000000, 1000001, 12345678, 2147483647, 2147483648, 4294967296, 4503599627370496} {
		addC09Tie(run, fmt.Sprintf("< ( s K\"6974656d73 I%d | #3ff0000000000000 | #4000000000000000 | \"78 | #4008000000000000 ) >", idx))
	}
	// hand-written hunks the renderer must refuse with an error: context on a path that does not end in an index,
	// context at the empty path, two lines of before / after context (tie only)
	for _, dw := range []string{
		"< ( s K\"61 | #3ff0000000000000 | #4000000000000000 | \"78 | ) >",
		"< ( s K\"61 | | #4000000000000000 | \"78 | #4008000000000000 ) >",
		"< ( s | #3ff0000000000000 | #4000000000000000 | \"78 | ) >",
		"< ( s | | #4000000000000000 | \"78 | #4008000000000000 ) >",
		"< ( s I1 | #3ff0000000000000 #3ff0000000000000 | #4000000000000000 | \"78 | ) >",
		"< ( s I1 | | #4000000000000000 | \"78 | #4008000000000000 #4008000000000000 ) >",
		"< ( s I0 | V | #4000000000000000 | \"78 | V ) >",
	} {
		addC09Tie(run, dw)
	}
	// fixed pairs whose strings and keys hold, LITERALLY, what encoding/json writes as escapes (backslash-u003c …):
	// the rendered patch must carry them through untouched (a textual post-processing of the output would not)
	for _, lit := range []string{"\\u003cb\\u003e", "\\u0026amp;", "a\\u003e\\\\u003cb", "\\n\\t\\\"", "<\\u003c>", "\\u2028", "\\/"} {
		other := lit + "!"
		addC09Case(run, VObj("snippet", VStr(lit), "n", VNum(1)), VObj("snippet", VStr(other), "n", VNum(1)), nil)
		addC09Case(run, VArr(VStr(lit), VNum(2), VStr(lit)), VArr(VStr(lit), VNum(3), VStr(lit)), nil)
		addC09Case(run, VObj(lit, VArr(VNum(1))), VObj(lit, VArr(VNum(1), VStr(lit))), nil)
		run.Count("fixed:literal-escape-sequences")
	}
	for i := 0; i < n; i++ {
		cfg := fmtCfg(r)
		a, b := cfg.Pair(r)
		if a.K == KVoid || b.K == KVoid {
			continue
		}
		ts := []*Val{}
		for k := 0; k < 3; k++ {
			ts = append(ts, perturb(r, cfg, a, b))
		}
		addC09Case(run, a, b, ts)
		if r.Chance(1, 4) {
			// a hand-written list hunk with several context lines, on a target where it applies: RenderPatch
			// may refuse it, but what it renders must mean the same
			t, hw := handListHunk(r, cfg)
			nat := implPatch(t.Wire(), hw)
			if strings.HasPrefix(nat, "ok ") {
				if rb, err := ParseWire(nat[3:]); err == nil {
					addC09Hand(run, t, rb, hw)
				}
			}
		}
	}
}

// addC09Tie: the rendering of a hand-written diff, tied to the model (no documents behind it)
func addC09Tie(run *Run, dw string) {
	txt := implRenderPatch(dw)
	c := Case{Recipe: Recipe{"c09big", []string{dw}}, Desc: map[string]string{"diff": dw, "impl_patch_text": txt}, Nontrivial: true, Sig: "big|" + dw}
	text, _ := outcomeText(txt)
	nd := numDict([]string{dw}, []string{text})
	c.Probes = append(c.Probes, Probe{Kind: "corr", Rel: "RenderPatch = renderPatchM", Line: fmt.Sprintf("renderpatch %s %s", nd, dw), Want: txt})
	run.Count("hand-written:large-index")
	run.Add(c)
}

func init() {
	recipes["c09big"] = func(run *Run, a []string) { addC09Tie(run, a[0]) }
}

// addC09Hand: dw is a hand-written diff that applies to a and gives b
func addC09Hand(run *Run, a, b *Val, dw string) {
	aw, bw := a.Wire(), b.Wire()
	txt := implRenderPatch(dw)
	c := Case{Recipe: Recipe{"c09h", []string{aw, bw, dw}}, Desc: map[string]string{"a": a.Human(), "b": b.Human(), "diff": dw, "impl_patch_text": txt}}
	c.Nontrivial = true
	c.Sig = "hand|" + aw + "|" + dw
	text, ok := outcomeText(txt)
	nd := numDict([]string{dw, aw, bw}, []string{text})
	c.Probes = append(c.Probes, Probe{Kind: "corr", Rel: "RenderPatch = renderPatchM", Line: fmt.Sprintf("renderpatch %s %s", nd, dw), Want: txt})
	if ok {
		c.Probes = append(c.Probes, Probe{Kind: "oracle", Rel: "C09 RFC 6902 evaluation of the rendered patch: on a gives b; same result wherever the native diff applies; inexpressible paths refused",
			Line: fmt.Sprintf("c09 %s %s %s %s %s %d %s", nd, aw, bw, dw, txt, 1, aw+" ok "+bw)})
		run.Count("hand-written:rendered")
	} else {
		run.Count("hand-written:refused")
	}
	run.Add(c)
}

func addC09Case(run *Run, a, b *Val, ts []*Val) {
	aw, bw := a.Wire(), b.Wire()
	dw := implDiff(OptNone, aw, bw)
	txt := implRenderPatch(dw)
	args := []string{aw, bw}
	for _, t := range ts {
		args = append(args, t.Wire())
	}
	c := Case{Recipe: Recipe{"c09", args}, Desc: map[string]string{"a": a.Human(), "b": b.Human(), "impl_diff": dw}}
	if s, ok := outcomeText(txt); ok {
		c.Desc["impl_patch_text"] = s
	} else {
		c.Desc["impl_patch_text"] = txt
	}
	c.Nontrivial = hunkCount(dw) > 0
	c.Sig = aw + "|" + bw
	tl := []string{}
	wires := []string{dw, aw, bw}
	applied := 0
	for _, t := range ts {
		out := implPatch(t.Wire(), dw)
		tl = append(tl, t.Wire()+" "+out)
		wires = append(wires, t.Wire(), out)
		if strings.HasPrefix(out, "ok") {
			applied++
		}
	}
	text, _ := outcomeText(txt)
	nd := numDict(wires, []string{text})
	want := txt
	c.Probes = append(c.Probes,
		Probe{Kind: "corr", Rel: "RenderPatch = renderPatchM", Line: fmt.Sprintf("renderpatch %s %s", nd, dw), Want: want},
		Probe{Kind: "oracle", Rel: "C09 RFC 6902 evaluation of the rendered patch: on a gives b; same result wherever the native diff applies; inexpressible paths refused", Line: fmt.Sprintf("c09 %s %s %s %s %s %d %s", nd, aw, bw, dw, txt, len(tl), strings.Join(tl, " "))},
	)
	// realistic reuse: render, then patch with the SAME diff value
	reuse := "ok"
	safely(func() string {
		an, bn := mustNode(aw), mustNode(bw)
		d := an.Diff(bn)
		// (what a diff that was never rendered does — inside the class KF-C04-alias it may itself not apply)
		r0, err0 := mustNode(aw).Patch(mustNode(aw).Diff(mustNode(bw)))
		_, _ = d.RenderPatch()
		r, err := mustNode(aw).Patch(d)
		switch {
		case (err == nil) != (err0 == nil):
			reuse = fmt.Sprintf("fail after RenderPatch the same diff value applies differently to a (error %v) than a diff that was never rendered (error %v)", err, err0)
		case err == nil && jd.VerifEncodeNode(r) != jd.VerifEncodeNode(r0):
			reuse = "fail after RenderPatch the same diff value no longer turns a into what a diff that was never rendered turns it into"
		case err == nil && !r.Equals(bn) && r0.Equals(bn):
			reuse = "fail after RenderPatch the same diff value no longer turns a into b"
		}
		return ""
	})
	c.Probes = append(c.Probes, Probe{Kind: "direct", Rel: "C09 the diff still means the same after it was rendered as JSON Patch", Want: reuse})
	run.Count("render:" + strings.Fields(txt)[0])
	run.Count(fmt.Sprintf("targets_applied:%d", applied))
	run.Add(c)
}

// ---------------------------------------------------------------------------------------------
// C10 — RFC 6902 input is read faithfully
type jop struct {
	Op    string          `json:"op"`
	Path  string          `json:"path"`
	Value json.RawMessage `json:"value"`
}

func propC10(run *Run, n int) {
	run.rule = "p = RenderPatch(a.Diff(b)) rendered hunk by hunk, and subset-preserving variations (changed values in matching test/remove pairs, indices shifted consistently across a hunk, dropped hunks, dropped context tests, '-' append) and respell-token (a reference token respelled outside the RFC 6901 grammar: index N as 0N, +N, -N, 00N, 00; '-' as -1; a key with an invalid ~ escape; a member renamed — in patch and documents — to a number-like name 007, 01, -1, +1, -0 so that it reaches an object) and malformed-op (the patch DOCUMENT damaged: an op without value / path / op, member names in another letter case, an extra Value / PATH / Op member with another content next to the exact one, an exact member written twice, a non-object element, the texts null, {}, [null], [[]], \"x\") x targets (a, b, perturbations); non-trivial = jd reads and applies the patch; distinct = distinct (patch text, target)"
	r := NewRng(run.Seed)
	// fixed: a context test on the slot ONE PAST THE END of the array after the edit (RFC 6902: the test fails; jd must not
	// apply), at the root, below a key, after a removal
	for _, w := range []struct{ doc *Val; patch string }{
		{VArr(), `[{"op":"test","path":"/0","value":"c"},{"op":"add","path":"/0","value":"x"}]`},
		{VObj("k", VArr(VStr("a"))), `[{"op":"test","path":"/k/0","value":"a"},{"op":"test","path":"/k/1","value":"q"},{"op":"add","path":"/k/1","value":"x"}]`},
		{VArr(VStr("a"), VStr("b")), `[{"op":"test","path":"/0","value":"a"},{"op":"test","path":"/2","value":"zz"},{"op":"test","path":"/1","value":"b"},{"op":"remove","path":"/1","value":"b"}]`},
		{VArr(VStr("b")), `[{"op":"test","path":"/1","value":"zz"},{"op":"test","path":"/0","value":"b"},{"op":"remove","path":"/0","value":"b"},{"op":"add","path":"/0","value":"y"}]`},
		{VArr(VStr("a")), `[{"op":"test","path":"/0","value":"a"},{"op":"add","path":"/1","value":"x"}]`},
	} {
		run.Count("variation:context-past-the-end")
		addC10Case(run, "context-past-the-end", w.patch, w.doc, w.doc, w.doc)
	}
	// consecutive `-` appends to ONE array that is NOT the root (below keys / indices), two to four values: RFC 6902
	// appends them in document order
	for i := 0; i < n/60+8; i++ {
		k := 2 + r.Intn(3)
		vals := []*Val{}
		for j := 0; j < k; j++ {
			vals = append(vals, VNum(float64(10+j)))
		}
		arr := VArr(VNum(1))
		if r.Chance(1, 3) {
			arr = VArr()
		}
		var t *Val
		var ptr string
		switch r.Intn(4) {
		case 0:
			t, ptr = VObj("foo", arr), "/foo/-"
		case 1:
			t, ptr = VObj("a", VObj("b", arr), "z", VNum(0)), "/a/b/-"
		case 2:
			t, ptr = VArr(VNum(0), arr), "/1/-"
		default:
			t, ptr = VObj("k", VArr(VObj("l", arr))), "/k/0/l/-"
		}
		ops := []string{}
		want := arr.Clone()
		for _, v := range vals {
			ops = append(ops, fmt.Sprintf(`{"op":"add","path":%q,"value":%s}`, ptr, cliJSON(v)))
			want.A = append(want.A, v)
		}
		run.Count("variation:nested-consecutive-appends")
		addC10Case(run, "nested-consecutive-appends", "["+strings.Join(ops, ",")+"]", t, t, t)
	}
	for i := 0; i < n; i++ {
		cfg := DefaultCfg()
		cfg.ScalarBias = 4
		if r.Chance(1, 3) {
			cfg.Keys = []string{"a", "b", "a/b", "m~n", "", "é", "x", "01", "007", "+1", "-1", "-0"}
		}
		if r.Chance(1, 6) {
			// keys holding SEVERAL separators or tildes (an escape applied to the first occurrence only would show)
			cfg.Keys = []string{"a/b/c", "~a~", "//", "~~", "/pets/{id}", "x~/~/y", "a", "b"}
		}
		a, b := cfg.Pair(r)
		if a.K == KVoid || b.K == KVoid {
			continue
		}
		dw := implDiff(OptNone, a.Wire(), b.Wire())
		// ops per hunk
		groups := [][]jop{}
		ok := true
		for _, h := range splitHunks(dw) {
			t := implRenderPatch(joinHunks([]string{h}))
			s, isOk := outcomeText(t)
			if !isOk {
				ok = false
				break
			}
			var ops []jop
			if err := json.Unmarshal([]byte(s), &ops); err != nil {
				ok = false
				break
			}
			groups = append(groups, ops)
		}
		if !ok {
			run.Count("skipped:inexpressible")
			continue
		}
		if r.Chance(1, 6) {
			// build-up patches (hand-written style): a container is added — into an array that is empty at that
			// moment, or as an object member — and a LATER op of the same patch edits inside it
			inner := json.RawMessage(`[1]`)
			var ops []jop
			var t *Val
			switch r.Intn(4) {
			case 0:
				t = VObj("rows", VArr(), "z", VNum(1))
				ops = []jop{{"add", "/rows/0", inner}, {"add", "/rows/0/-", json.RawMessage(`2`)}}
			case 1:
				t = VObj("rows", VArr(VArr(VStr("x"))))
				ops = []jop{{"test", "/rows/0", json.RawMessage(`["x"]`)}, {"remove", "/rows/0", json.RawMessage(`["x"]`)}, {"add", "/rows/0", inner}, {"add", "/rows/0/-", json.RawMessage(`2`)}}
			case 2:
				t = VArr()
				ops = []jop{{"add", "/0", inner}, {"add", "/0/1", json.RawMessage(`2`)}, {"add", "/0/-", json.RawMessage(`3`)}}
			default:
				t = VObj("k", VNum(1))
				ops = []jop{{"add", "/o", json.RawMessage(`{"a":[]}`)}, {"add", "/o/a/0", json.RawMessage(`[5]`)}, {"add", "/o/a/0/-", json.RawMessage(`6`)}}
			}
			addC10Case(run, "build-up", opsText([][]jop{ops}), t, t, t)
		}
		if r.Chance(1, 8) {
			// hand-written: [test /i-1 X] [add /i+k V] then k test+remove pairs at /i, V = the element behind the
			// removed ones: the add sits where an after-context test would (RFC 6902 executes it)
			n := 3 + r.Intn(3)
			xs := []*Val{}
			for j := 0; j < n; j++ {
				xs = append(xs, VStr(string(rune('a'+j))))
			}
			i := 1 + r.Intn(n-2)
			k := 1 + r.Intn(n-1-i)
			enc := func(v *Val) json.RawMessage { return json.RawMessage(cliJSON(v)) }
			ops := []jop{{"test", fmt.Sprintf("/%d", i-1), enc(xs[i-1])}, {"add", fmt.Sprintf("/%d", i+k), enc(VStr("end"))}}
			if i+k < n {
				ops[1].Value = enc(xs[i+k])
			}
			for j := 0; j < k; j++ {
				ops = append(ops, jop{"test", fmt.Sprintf("/%d", i), enc(xs[i+j])}, jop{"remove", fmt.Sprintf("/%d", i), enc(xs[i+j])})
			}
			t := VArr(xs...)
			addC10Case(run, "nontest-in-after-slot", opsText([][]jop{ops}), t, t, t)
		}
		// own output first
		addC10Case(run, "own", opsText(groups), a, a, b)
		for k := 0; k < 3; k++ {
			g2, kind := varyOps(r, groups)
			t := perturb(r, cfg, a, b)
			switch r.Intn(6) {
			case 0, 1, 2:
				t = a.Clone()
			case 3, 4:
				// a target that differs from a exactly on the way to a location the patch addresses
				// (missing ancestor, emptied parent, ancestor of another type)
				if all := flatOps(g2); len(all) > 0 {
					t = perturbAlongPointer(r, a, all[r.Intn(len(all))].Path)
					kind += "+ancestor"
				}
			}
			addC10Case(run, kind, opsText(g2), t, a, b)
		}
		// respell-token (D30): the SPELLING of a reference token of the rendered patch is changed. RFC 6901
		// section 4: an array index is `0` or digits without a leading zero, `-` is the position after the last
		// element; every other token is a member name and an error on an array. Section 3: `~` must be followed
		// by `0` or `1`. jd must not apply a patch with such a token where RFC 6902 evaluation fails.
		if len(flatOps(groups)) > 0 && r.Chance(2, 3) {
			g3, a3, b3, kind := respellToken(r, groups, a, b)
			t := a3.Clone()
			switch r.Intn(5) {
			case 0:
				t = b3.Clone()
			case 1:
				t = perturb(r, cfg, a3, b3)
			}
			addC10Case(run, kind, opsText(g3), t, a3, b3)
		}
		// malformed-op (D31): the patch DOCUMENT is damaged. RFC 6902 section 3: a JSON Patch document is an
		// array of objects; section 4: each object has exactly one "op" and one "path" member (strings), and
		// "add" / "test" have a "value" member. Member names are exact. jd must not apply such a text where the
		// independent decoder rejects it, nor read another member than the exact one.
		if r.Chance(1, 2) {
			text, kind := malformedOp(r, groups)
			t := a.Clone()
			switch r.Intn(6) {
			case 0:
				t = b.Clone()
			case 1:
				t = perturb(r, cfg, a, b)
			}
			addC10Case(run, kind, text, t, a, b)
		}
	}
}

// jmember is one member of an operation object, in writing order (value = raw JSON text)
type jmember struct{ k, v string }

func opMembers(o jop) []jmember {
	q := func(s string) string { b, _ := json.Marshal(s); return string(b) }
	v := string(o.Value)
	if v == "" {
		v = "null"
	}
	return []jmember{{"op", q(o.Op)}, {"path", q(o.Path)}, {"value", v}}
}

func membersText(ms []jmember) string {
	parts := []string{}
	for _, m := range ms {
		kb, _ := json.Marshal(m.k)
		parts = append(parts, string(kb)+":"+m.v)
	}
	return "{" + strings.Join(parts, ",") + "}"
}

// malformedOp damages the rendered patch as a DOCUMENT (D31): one operation loses its `value` (add, test) or
// its `path`; its member names are written in another letter case (OP, Path, VALUE — all or one of them); it
// gets an extra `Value` / `PATH` / `Op` member with a DIFFERENT content next to the exact one (before or
// after it); an exact member is written twice with different contents (the last one counts, for jd as for
// the independent parser); an element of the array is replaced by / preceded by a string, null, an array;
// or the whole text is `null`, `{}`, `[null]`, `[[]]`, `"x"`.
func malformedOp(r *Rng, groups [][]jop) (string, string) {
	all := flatOps(groups)
	whole := []struct{ kind, text string }{
		{"doc-null", "null"}, {"doc-object", "{}"}, {"doc-null-element", "[null]"},
		{"doc-array-element", "[[]]"}, {"doc-string", `"x"`},
	}
	if len(all) == 0 || r.Chance(1, 8) {
		w := whole[r.Intn(len(whole))]
		text := w.text
		if r.Chance(1, 3) {
			text = " " + text + "\n"
		}
		return text, "malformed-op:" + w.kind
	}
	elems := make([]string, len(all))
	for i, o := range all {
		elems[i] = membersText(opMembers(o))
	}
	join := func() string { return "[" + strings.Join(elems, ",") + "]" }
	pick := func(ops ...string) int {
		cand := []int{}
		for i, o := range all {
			for _, x := range ops {
				if o.Op == x {
					cand = append(cand, i)
				}
			}
		}
		if len(cand) == 0 {
			return r.Intn(len(all))
		}
		return cand[r.Intn(len(cand))]
	}
	drop := func(ms []jmember, k string) []jmember {
		out := []jmember{}
		for _, m := range ms {
			if m.k != k {
				out = append(out, m)
			}
		}
		return out
	}
	other := func(k, v string) string {
		switch k {
		case "op":
			if v == `"add"` {
				return `"remove"`
			}
			return `"add"`
		case "path":
			var p string
			json.Unmarshal([]byte(v), &p)
			b, _ := json.Marshal(p + "/d31")
			return string(b)
		}
		if v == `"d31"` {
			return "0"
		}
		return `"d31"`
	}
	upper := map[string][]string{"op": {"OP", "Op", "oP"}, "path": {"PATH", "Path", "pAth"}, "value": {"VALUE", "Value", "valuE"}}
	switch r.Intn(8) {
	case 0:
		i := pick("add", "test")
		elems[i] = membersText(drop(opMembers(all[i]), "value"))
		return join(), "malformed-op:no-value-" + all[i].Op
	case 1:
		i := pick("add", "add", "test", "remove")
		elems[i] = membersText(drop(opMembers(all[i]), "path"))
		return join(), "malformed-op:no-path"
	case 2:
		i := r.Intn(len(all))
		elems[i] = membersText(drop(opMembers(all[i]), "op"))
		return join(), "malformed-op:no-op"
	case 3:
		// other letter case: all three names, or one of them, in one op or in every op
		ks := []string{"op", "path", "value"}
		if r.Chance(1, 2) {
			ks = []string{ks[r.Intn(3)]}
		}
		is := []int{pick("add")}
		if r.Chance(1, 2) {
			is = nil
			for i := range all {
				is = append(is, i)
			}
		}
		for _, i := range is {
			ms := opMembers(all[i])
			for j := range ms {
				for _, k := range ks {
					if ms[j].k == k {
						ms[j].k = upper[k][r.Intn(3)]
					}
				}
			}
			elems[i] = membersText(ms)
		}
		kind := "malformed-op:other-case-all"
		if len(ks) == 1 {
			kind = "malformed-op:other-case-" + ks[0]
		}
		return join(), kind
	case 4, 5:
		// an extra member whose name differs from the exact one in letter case only, with another content
		i := pick("add", "add", "test", "remove")
		k := []string{"value", "value", "path", "op"}[r.Intn(4)]
		ms := opMembers(all[i])
		out := []jmember{}
		after := r.Chance(2, 3)
		for _, m := range ms {
			x := jmember{upper[k][r.Intn(3)], other(k, m.v)}
			if m.k == k && !after {
				out = append(out, x)
			}
			out = append(out, m)
			if m.k == k && after {
				out = append(out, x)
			}
		}
		elems[i] = membersText(out)
		pos := "before"
		if after {
			pos = "after"
		}
		return join(), "malformed-op:extra-case-" + k + "-" + pos
	case 6:
		// the exact member twice, with different contents: the last one counts
		i := pick("add", "add", "test", "remove")
		k := []string{"value", "path", "op"}[r.Intn(3)]
		ms := opMembers(all[i])
		out := []jmember{}
		first := r.Chance(1, 2)
		for _, m := range ms {
			x := jmember{k, other(k, m.v)}
			if m.k == k && first {
				out = append(out, x)
			}
			out = append(out, m)
			if m.k == k && !first {
				out = append(out, x)
			}
		}
		elems[i] = membersText(out)
		if first {
			return join(), "malformed-op:duplicate-" + k + "-original-last"
		}
		return join(), "malformed-op:duplicate-" + k + "-original-first"
	default:
		// an element that is not an object
		junk := []struct{ kind, text string }{{"string-element", `"x"`}, {"null-element", "null"}, {"array-element", "[]"}, {"number-element", "1"}}
		j := junk[r.Intn(len(junk))]
		i := r.Intn(len(all) + 1)
		if i < len(all) && r.Chance(1, 2) {
			elems[i] = j.text
		} else {
			elems = append(elems[:i], append([]string{j.text}, elems[i:]...)...)
		}
		return join(), "malformed-op:" + j.kind
	}
}

// numberLikeNames are member names that strconv.Atoi accepts and that are not RFC 6901 array indices
var numberLikeNames = []string{"007", "01", "-1", "+1", "-0", "00", "+0"}

func ptrEscapeTok(k string) string {
	return strings.ReplaceAll(strings.ReplaceAll(k, "~", "~0"), "/", "~1")
}

// renameKey renames the member `from` to `to` in every object of v that has `from` and not `to`.
func renameKey(v *Val, from, to string) *Val {
	c := *v
	if v.A != nil {
		c.A = make([]*Val, len(v.A))
		for i, e := range v.A {
			c.A[i] = renameKey(e, from, to)
		}
	}
	if v.O != nil {
		c.O = map[string]*Val{}
		_, clash := v.O[to]
		for k, e := range v.O {
			if k == from && !clash {
				k = to
			}
			c.O[k] = renameKey(e, from, to)
		}
	}
	return &c
}

func hasKey(v *Val, k string) bool {
	if v.O != nil {
		if _, ok := v.O[k]; ok {
			return true
		}
	}
	for _, e := range v.A {
		if hasKey(e, k) {
			return true
		}
	}
	for _, e := range v.O {
		if hasKey(e, k) {
			return true
		}
	}
	return false
}

// respellToken rewrites reference tokens of the ops: an index N becomes 0N, +N, -N or 00…N; `-` becomes
// -1; a key gets an invalid escape (~2 inserted, or a trailing ~); or a member name is replaced, in the patch
// AND in the documents, by a number-like name (007, 01, -1, +1, …) so that such a token reaches an OBJECT
// that holds the member. The choice is applied to one op, or consistently to all ops of the patch that
// share the token at that position (so that test/remove pairs and context tests stay aligned).
func respellToken(r *Rng, groups [][]jop, a, b *Val) ([][]jop, *Val, *Val, string) {
	g := make([][]jop, len(groups))
	for i := range groups {
		g[i] = append([]jop{}, groups[i]...)
	}
	all := flatOps(g)
	if len(all) == 0 {
		return g, a, b, "respell-token:none"
	}
	if r.Chance(1, 4) {
		// number-like member name reaching an object target
		keys := []string{}
		seen := map[string]bool{}
		for _, o := range all {
			if o.Path == "" {
				continue
			}
			for _, tok := range strings.Split(o.Path[1:], "/") {
				k := strings.ReplaceAll(strings.ReplaceAll(tok, "~1", "/"), "~0", "~")
				if !isIndexTok(tok) && tok != "-" && !seen[k] && (hasKey(a, k) || hasKey(b, k)) {
					seen[k] = true
					keys = append(keys, k)
				}
			}
		}
		if len(keys) == 0 {
			// no member on the way: add the patch's root below a number-like member of a new object
			name := numberLikeNames[r.Intn(len(numberLikeNames))]
			for i := range g {
				for j := range g[i] {
					g[i][j].Path = "/" + name + g[i][j].Path
				}
			}
			return g, VObj(name, a.Clone()), VObj(name, b.Clone()), "respell-token:numberlike-member-wrapped"
		}
		from := keys[r.Intn(len(keys))]
		to := numberLikeNames[r.Intn(len(numberLikeNames))]
		if hasKey(a, to) || hasKey(b, to) {
			return g, a, b, "respell-token:none"
		}
		esc := ptrEscapeTok(from)
		for i := range g {
			for j := range g[i] {
				if g[i][j].Path == "" {
					continue
				}
				toks := strings.Split(g[i][j].Path[1:], "/")
				for k := range toks {
					if toks[k] == esc {
						toks[k] = to
					}
				}
				g[i][j].Path = "/" + strings.Join(toks, "/")
			}
		}
		return g, renameKey(a, from, to), renameKey(b, from, to), "respell-token:numberlike-member-renamed"
	}
	if r.Chance(1, 6) {
		// `-` respelled as -1: a hunk that only adds at an array index becomes a run of "appends" at -1 (in
		// document order, as the dash-append variation writes them)
		start := r.Intn(len(g))
		for k := 0; k < len(g); k++ {
			gi := (start + k) % len(g)
			allAdd := len(g[gi]) > 0
			for _, o := range g[gi] {
				if o.Op != "add" {
					allAdd = false
				}
			}
			if !allAdd {
				continue
			}
			i := strings.LastIndex(g[gi][0].Path, "/")
			if i < 0 || !isIndexTok(g[gi][0].Path[i+1:]) {
				continue
			}
			for j := range g[gi] {
				g[gi][j].Path = g[gi][j].Path[:i+1] + "-1"
			}
			for x, y := 0, len(g[gi])-1; x < y; x, y = x+1, y-1 {
				g[gi][x], g[gi][y] = g[gi][y], g[gi][x]
			}
			return g, a, b, "respell-token:dash-as-minus-one"
		}
	}
	// choose an op and a token position
	cand := []int{}
	for i, o := range all {
		if o.Path != "" {
			cand = append(cand, i)
		}
	}
	if len(cand) == 0 {
		return g, a, b, "respell-token:none"
	}
	o := all[cand[r.Intn(len(cand))]]
	toks := strings.Split(o.Path[1:], "/")
	pos := len(toks) - 1
	if r.Chance(1, 3) {
		pos = r.Intn(len(toks))
	}
	tok := toks[pos]
	var repl, kind string
	switch {
	case tok == "-":
		repl, kind = "-1", "dash-as-minus-one"
	case isIndexTok(tok):
		switch r.Intn(5) {
		case 0:
			repl, kind = "0"+tok, "index-leading-zero"
		case 1:
			repl, kind = "+"+tok, "index-plus-sign"
		case 2:
			repl, kind = "-"+tok, "index-minus-sign"
		case 3:
			repl, kind = "00"+tok, "index-two-leading-zeros"
		default:
			if tok == "0" {
				repl, kind = "00", "index-double-zero"
			} else {
				repl, kind = "0"+tok, "index-leading-zero"
			}
		}
	default:
		switch r.Intn(3) {
		case 0:
			repl, kind = tok+"~2", "key-invalid-escape"
		case 1:
			repl, kind = tok+"~", "key-trailing-tilde"
		default:
			repl, kind = "~"+tok, "key-leading-tilde"
			if strings.HasPrefix(tok, "0") || strings.HasPrefix(tok, "1") {
				repl = tok + "~x"
			}
		}
	}
	prefix := "/" + strings.Join(toks[:pos], "/")
	if pos == 0 {
		prefix = ""
	}
	consistent := r.Chance(2, 3)
	done := false
	for i := range g {
		for j := range g[i] {
			p := g[i][j].Path
			if p == "" {
				continue
			}
			ts := strings.Split(p[1:], "/")
			if len(ts) <= pos || ts[pos] != tok {
				continue
			}
			pre := "/" + strings.Join(ts[:pos], "/")
			if pos == 0 {
				pre = ""
			}
			if pre != prefix {
				continue
			}
			if !consistent && (done || p != o.Path || g[i][j].Op != o.Op) {
				continue
			}
			ts[pos] = repl
			g[i][j].Path = "/" + strings.Join(ts, "/")
			done = true
		}
	}
	if consistent {
		kind += "+all"
	}
	return g, a, b, "respell-token:" + kind
}

func flatOps(groups [][]jop) []jop {
	all := []jop{}
	for _, g := range groups {
		all = append(all, g...)
	}
	return all
}

// perturbAlongPointer returns a copy of t changed at a proper ancestor of the location the JSON
// Pointer addresses: the member on the way is deleted, emptied, or replaced by a value of another type.
func perturbAlongPointer(r *Rng, t *Val, ptr string) *Val {
	t = t.Clone()
	if ptr == "" || ptr[0] != '/' {
		return t
	}
	toks := strings.Split(ptr[1:], "/")
	for i := range toks {
		toks[i] = strings.ReplaceAll(strings.ReplaceAll(toks[i], "~1", "/"), "~0", "~")
	}
	if len(toks) < 2 {
		return t
	}
	cut := r.Intn(len(toks) - 1) // the member toks[cut] of the node at toks[:cut] is changed
	cur := t
	for i := 0; i < cut; i++ {
		switch cur.K {
		case KObj:
			n, ok := cur.O[toks[i]]
			if !ok {
				return t
			}
			cur = n
		case KArr:
			j, err := strconv.Atoi(toks[i])
			if err != nil || j < 0 || j >= len(cur.A) {
				return t
			}
			cur = cur.A[j]
		default:
			return t
		}
	}
	repl := []*Val{VObj(), VArr(), VNull(), VStr("x"), VNum(0)}[r.Intn(5)]
	switch cur.K {
	case KObj:
		if _, ok := cur.O[toks[cut]]; !ok {
			return t
		}
		if r.Chance(1, 2) {
			delete(cur.O, toks[cut])
		} else {
			cur.O[toks[cut]] = repl
		}
	case KArr:
		j, err := strconv.Atoi(toks[cut])
		if err != nil || j < 0 || j >= len(cur.A) {
			return t
		}
		if r.Chance(1, 2) {
			cur.A = cur.A[:j]
		} else {
			cur.A[j] = repl
		}
	}
	return t
}

func opsText(groups [][]jop) string {
	all := []jop{}
	for _, g := range groups {
		all = append(all, g...)
	}
	b, _ := json.Marshal(all)
	return string(b)
}

func isIndexTok(s string) bool {
	if s == "" {
		return false
	}
	for _, c := range s {
		if c < '0' || c > '9' {
			return false
		}
	}
	return true
}

func shiftPath(p string, delta int) (string, bool) {
	i := strings.LastIndex(p, "/")
	if i < 0 {
		return p, false
	}
	tok := p[i+1:]
	if !isIndexTok(tok) {
		return p, false
	}
	v, _ := strconv.Atoi(tok)
	if v+delta < 0 {
		return p, false
	}
	return p[:i+1] + strconv.Itoa(v+delta), true
}

func varyOps(r *Rng, groups [][]jop) ([][]jop, string) {
	g := make([][]jop, len(groups))
	for i := range groups {
		g[i] = append([]jop{}, groups[i]...)
	}
	if len(g) == 0 {
		return g, "none"
	}
	switch r.Intn(9) {
	case 0: // changed value in a matching test/remove pair
		gi := r.Intn(len(g))
		for j := 0; j+1 < len(g[gi]); j++ {
			if g[gi][j].Op == "test" && g[gi][j+1].Op == "remove" && g[gi][j].Path == g[gi][j+1].Path {
				nv := json.RawMessage(`"changed"`)
				if r.Chance(1, 2) {
					nv = json.RawMessage(`7`)
				}
				g[gi][j].Value = nv
				g[gi][j+1].Value = nv
				break
			}
		}
		return g, "value-changed"
	case 1: // indices shifted consistently across one hunk's ops
		gi := r.Intn(len(g))
		delta := 1
		if r.Chance(1, 2) {
			delta = -1
		}
		okAll := true
		ng := append([]jop{}, g[gi]...)
		for j := range ng {
			p, ok := shiftPath(ng[j].Path, delta)
			if !ok {
				okAll = false
				break
			}
			ng[j].Path = p
		}
		if okAll {
			g[gi] = ng
		}
		return g, "index-shifted"
	case 2: // dropped hunk
		gi := r.Intn(len(g))
		g = append(g[:gi], g[gi+1:]...)
		return g, "hunk-dropped"
	case 3: // dropped context tests: leading tests that are not part of a test/remove pair
		gi := r.Intn(len(g))
		ng := []jop{}
		dropped := false
		for j := 0; j < len(g[gi]); j++ {
			o := g[gi][j]
			isPair := o.Op == "test" && j+1 < len(g[gi]) && g[gi][j+1].Op == "remove" && g[gi][j+1].Path == o.Path
			if o.Op == "test" && !isPair && !dropped && r.Chance(2, 3) {
				dropped = true
				continue
			}
			ng = append(ng, o)
		}
		g[gi] = ng
		return g, "context-dropped"
	case 8: // the same hunk twice in a row (two elements on one path, the second with its own context tests;
		// optionally without its before test): the second must be evaluated on the document the first produced
		gi := r.Intn(len(g))
		dup := append([]jop{}, g[gi]...)
		if r.Chance(1, 2) && len(dup) > 1 && dup[0].Op == "test" && !(dup[1].Op == "remove" && dup[1].Path == dup[0].Path) {
			// drop the before-context test when there are two context tests (the first one is the before test)
			if len(dup) > 2 && dup[1].Op == "test" && !(dup[2].Op == "remove" && dup[2].Path == dup[1].Path) {
				dup = dup[1:]
			}
		}
		if r.Chance(1, 2) {
			for j := range dup {
				if dup[j].Op == "add" {
					dup[j].Value = json.RawMessage(`"again"`)
				}
			}
		}
		ng := make([][]jop, 0, len(g)+1)
		ng = append(ng, g[:gi+1]...)
		ng = append(ng, dup)
		ng = append(ng, g[gi+1:]...)
		return ng, "hunk-repeated"
	case 7: // a context test that is NOT adjacent to the edit any more: jd must not read it as relative context
		gi := r.Intn(len(g))
		for j := 0; j < len(g[gi]); j++ {
			o := g[gi][j]
			isPair := o.Op == "test" && j+1 < len(g[gi]) && g[gi][j+1].Op == "remove" && g[gi][j+1].Path == o.Path
			if o.Op != "test" || isPair {
				break
			}
			if !r.Chance(1, 2) {
				continue
			}
			switch r.Intn(3) {
			case 0: // index moved on its own
				if p, ok := shiftPath(o.Path, []int{-2, -1, 1, 2, 3}[r.Intn(5)]); ok {
					g[gi][j].Path = p
				}
			case 1: // same index in another array
				i := strings.LastIndex(o.Path, "/")
				if i >= 0 {
					g[gi][j].Path = o.Path[:i] + []string{"/0", "/other", "x"}[r.Intn(3)] + o.Path[i:]
				}
			default: // not a test at all
				g[gi][j].Op = []string{"remove", "add", "replace"}[r.Intn(3)]
			}
			return g, "context-misplaced"
		}
		return g, "context-misplaced"
	case 6: // the adds of a hunk moved in front of its test/remove pairs (same ops, different order)
		gi := r.Intn(len(g))
		adds, others := []jop{}, []jop{}
		for _, o := range g[gi] {
			if o.Op == "add" {
				adds = append(adds, o)
			} else {
				others = append(others, o)
			}
		}
		if len(adds) > 0 && len(others) > 0 {
			// keep leading context tests in front
			k := 0
			for k < len(others) && others[k].Op == "test" && !(k+1 < len(others) && others[k+1].Op == "remove" && others[k+1].Path == others[k].Path) {
				k++
			}
			ng := append([]jop{}, others[:k]...)
			ng = append(ng, adds...)
			ng = append(ng, others[k:]...)
			g[gi] = ng
		}
		return g, "adds-before-removes"
	case 4: // '-' append that KEEPS its context tests: the trailing adds of a hunk without removes become appends
		gi := r.Intn(len(g))
		hasRemove := false
		for _, o := range g[gi] {
			if o.Op == "remove" {
				hasRemove = true
			}
		}
		if !hasRemove {
			adds := []int{}
			for j, o := range g[gi] {
				if o.Op == "add" {
					adds = append(adds, j)
				}
			}
			if len(adds) > 0 {
				i := strings.LastIndex(g[gi][adds[0]].Path, "/")
				if i >= 0 && isIndexTok(g[gi][adds[0]].Path[i+1:]) {
					vals := []json.RawMessage{}
					for _, j := range adds {
						vals = append(vals, g[gi][j].Value)
					}
					// jd renders adds in reverse; appends must come in document order
					for k, j := range adds {
						g[gi][j].Path = g[gi][j].Path[:i+1] + "-"
						g[gi][j].Value = vals[len(vals)-1-k]
					}
				}
			}
		}
		return g, "dash-append-with-context"
	default: // '-' append: an add at an array index becomes an append
		gi := r.Intn(len(g))
		last := len(g[gi]) - 1
		if last >= 0 && g[gi][last].Op == "add" {
			allAdd := true
			for _, o := range g[gi] {
				if o.Op != "add" {
					allAdd = false
				}
			}
			if allAdd {
				i := strings.LastIndex(g[gi][last].Path, "/")
				if i >= 0 && isIndexTok(g[gi][last].Path[i+1:]) {
					for j := range g[gi] {
						g[gi][j].Path = g[gi][j].Path[:i+1] + "-"
					}
					// appends must come in document order, jd renders adds in reverse
					for x, y := 0, len(g[gi])-1; x < y; x, y = x+1, y-1 {
						g[gi][x], g[gi][y] = g[gi][y], g[gi][x]
					}
				}
			}
		}
		return g, "dash-append"
	}
}

func addC10Case(run *Run, kind, text string, t, a, b *Val) {
	tw := t.Wire()
	c := Case{Recipe: Recipe{"c10", []string{kind, text, tw, a.Wire(), b.Wire()}}, Desc: map[string]string{"variation": kind, "patch": text, "target": t.Human(), "a": a.Human(), "b": b.Human()}}
	rd := implReadPatch(text)
	po := "err"
	if strings.HasPrefix(rd, "ok ") {
		po = implPatch(tw, rd[3:])
	}
	c.Desc["impl_read"] = rd
	c.Desc["impl_patch"] = po
	c.Nontrivial = strings.HasPrefix(po, "ok")
	c.Sig = text + "|" + tw
	nd := numDict([]string{tw, rd, po}, []string{text})
	c.Probes = append(c.Probes,
		Probe{Kind: "corr", Rel: "ReadPatchString = readPatchM", Line: fmt.Sprintf("readpatch %s %s", nd, textWire(text)), Want: rd},
		Probe{Kind: "oracle", Rel: "C10 jd reads+applies ⇒ RFC 6902 evaluation succeeds with the same result", Line: fmt.Sprintf("c10 %s %s %s %s %s", nd, textWire(text), tw, rd, po)},
	)
	if strings.HasPrefix(rd, "ok ") {
		c.Probes = append(c.Probes, Probe{Kind: "corr", Rel: "Patch = patchM (diff read from JSON Patch)", Line: fmt.Sprintf("patch %s %s", tw, rd[3:]), Want: po})
	}
	if strings.HasPrefix(rd, "ok ") {
		// the Diff VALUE that ReadPatchString returned, applied twice to fresh copies of the target: applying
		// it must not change it (the property is about every application, not only the first)
		v, _ := safely(func() string {
			d, err := jd.ReadPatchString(text)
			if err != nil {
				return "ok"
			}
			r1, e1 := mustNode(tw).Patch(d)
			o1 := encOutcomeNode(r1, e1)
			r2, e2 := mustNode(tw).Patch(d)
			o2 := encOutcomeNode(r2, e2)
			if o1 != po {
				return "fail the diff read from the patch applies differently (" + o1 + ") than a fresh copy of it (" + po + ")"
			}
			if o2 != o1 {
				return "fail the same diff value applied a second time to a fresh copy of the target gives " + o2 + ", the first time " + o1
			}
			return "ok"
		})
		if v == "panic" {
			v = "fail panic"
		}
		c.Probes = append(c.Probes, Probe{Kind: "direct", Rel: "C10 a diff read from a JSON Patch applies the same way every time", Want: v})
	}
	if kind == "own" {
		v := "ok"
		if !strings.HasPrefix(po, "ok ") {
			v = "fail jd cannot read and apply its own JSON Patch output: read " + strings.Fields(rd)[0] + " patch " + strings.Fields(po)[0]
		} else if implEquals(OptNone, po[3:], b.Wire()) != "T" {
			v = "fail reading jd's own JSON Patch output and applying it to a does not reproduce b"
		}
		c.Probes = append(c.Probes, Probe{Kind: "direct", Rel: "C10 own output round trip reproduces b", Want: v})
	}
	run.Count("variation:" + kind)
	run.Count("read:" + strings.Fields(rd)[0] + ",patch:" + strings.Fields(po)[0])
	run.Add(c)
}

// ---------------------------------------------------------------------------------------------
// C11 — RFC 7386 output means the same as the merge diff
func propC11(run *Run, n int) {
	run.rule = "null-free (a,b), a != b, incl. key removal at depth, object<->scalar<->array type changes, empty objects x {MERGE, SET+MERGE, MULTISET+MERGE, SetKeys(id)+MERGE on keyed arrays}; non-trivial = the diff is non-empty; distinct = distinct (options, a, b)"
	r := NewRng(run.Seed)
	opts := []OptSet{OptMerge, OptSetMrg, OptMsetMrg, OptKeysMrg("id")}
	// fixed pairs whose merge patch ADDS empty containers (at the end, in the middle, nested)
	for _, pr := range [][2]*Val{
		{VObj("cfg", VObj("mode", VStr("x")), "id", VNum(1)), VObj("cfg", VObj("mode", VStr("x"), "extra", VObj()), "id", VNum(1))},
		{VObj("a", VNum(0)), VObj("a", VNum(1), "z", VObj())},
		{VObj("a", VNum(0)), VObj("a", VObj("b", VObj("c", VObj())), "m", VObj(), "z", VNum(1))},
		{VObj("a", VArr(VNum(1))), VObj("a", VObj())},
	} {
		run.Count("fixed:adds-empty-object")
		addC11Case(run, OptMerge, pr[0], pr[1])
	}
	for i := 0; i < n; i++ {
		cfg := fmtCfg(r)
		cfg.AllowNull = false
		o := opts[r.Intn(len(opts))]
		if len(o.KeysOf()) > 0 {
			// SetKeys + MERGE: arrays of objects identified by "id" (identities pairwise distinct within an
			// array), members that keep their identity and change elsewhere
			cfg = DefaultCfg()
			cfg.AllowNull = false
			cfg.SetKeys = o.KeysOf()
			cfg.Keys = []string{"a", "id", "x", "t"}
			cfg.ScalarBias = 3
		}
		a, b := cfg.Pair(r)
		if a.K == KVoid || b.K == KVoid {
			continue
		}
		if len(o.KeysOf()) == 0 && r.Chance(1, 5) {
			// RFC 7386 takes an array value verbatim: nulls INSIDE arrays are within the property
			if nullsIntoArrays(r, b, false) > 0 {
				run.Count("merge:nulls-inside-arrays")
			}
			if r.Chance(1, 2) {
				nullsIntoArrays(r, a, false)
			}
		}
		addC11Case(run, o, a, b)
		if i%40 == 0 {
			// two hunks whose paths differ but PRINT alike when their elements are joined (a key that holds a separator):
			// ["a","b"] next to ["a b"], ["a/b"], ["a.b"], ["a,b"], ["[a b]"] — both change
			ja, jb := joinCollisionPair(r)
			run.Count("paths-that-print-alike")
			addC11Case(run, OptMerge, ja, jb)
		}
	}
}

func joinCollisionPair(r *Rng) (*Val, *Val) {
	x, y := "a", "b"
	if r.Chance(1, 3) {
		x, y = "k", "1"
	}
	seps := []string{" ", "/", ".", ",", "~1", "\x00", "\"", "][", " | "}
	sep := seps[r.Intn(len(seps))]
	joined := x + sep + y
	if r.Chance(1, 6) {
		joined = "[" + x + " " + y + "]"
	}
	a := VObj(x, VObj(y, VNum(1)), joined, VNum(1))
	b := VObj(x, VObj(y, VNum(2)), joined, VNum(2))
	switch r.Intn(4) {
	case 0: // the nested member is deleted, the joined one changes
		b = VObj(x, VObj(), joined, VNum(2))
		a.O[x].O["z"] = VNum(0)
		b.O[x].O["z"] = VNum(0)
	case 1: // at depth
		a, b = VObj("r", a), VObj("r", b)
	}
	return a, b
}

func addC11Case(run *Run, o OptSet, a, b *Val) {
	aw, bw := a.Wire(), b.Wire()
	if implEquals(o, aw, bw) == "T" {
		run.Count("skipped:equal")
		return
	}
	dw := implDiff(o, aw, bw)
	txt := implRenderMerge(dw)
	c := Case{Recipe: Recipe{"c11", []string{o.Wire(), aw, bw}}, Desc: map[string]string{"options": o.Name(), "a": a.Human(), "b": b.Human(), "impl_diff": dw}}
	text, _ := outcomeText(txt)
	c.Desc["impl_merge_text"] = text
	c.Nontrivial = hunkCount(dw) > 0
	c.Sig = o.Wire() + "|" + aw + "|" + bw
	nd := numDict([]string{dw, aw, bw}, []string{text})
	c.Probes = append(c.Probes,
		Probe{Kind: "corr", Rel: "Diff (merge) = diffM", Line: fmt.Sprintf("diff %s %s %s", o.Wire(), aw, bw), Want: dw},
		Probe{Kind: "corr", Rel: "RenderMerge = renderMergeM", Line: fmt.Sprintf("rendermerge %s %s", nd, dw), Want: txt},
		Probe{Kind: "oracle", Rel: "C11 RFC 7386 MergePatch(a, rendered patch) ≈ b", Line: fmt.Sprintf("c11 %s %s %s %s %s", nd, o.Wire(), aw, bw, txt)},
	)
	// the rendering of ONE diff value before and after it was used: applied to a, and the document it produced edited in
	// place (every leaf changed, a member put into every empty object) by a later Patch — the text must not change
	if strings.HasPrefix(txt, "ok ") && hunkCount(dw) > 0 {
		again := "ok"
		res, _ := safely(func() string {
			d := mustNode(aw).Diff(mustNode(bw), o.Go()...)
			t1, e1 := d.RenderMerge()
			p, e2 := mustNode(aw).Patch(d)
			if e1 != nil || e2 != nil {
				return "done"
			}
			pv, err := ParseWire(encOutcomeNode(p, nil)[3:])
			if err != nil {
				return "done"
			}
			edited := fillEmptyObjects(bumpLeaves(pv))
			if _, e := p.Patch(p.Diff(mustNode(edited.Wire()))); e != nil {
				return "done"
			}
			t2, e3 := d.RenderMerge()
			if e3 != nil || t2 != t1 {
				again = "fail after the diff was applied and the patched document edited in place by a later Patch, RenderMerge of the same diff value gives " + short(t2) + " instead of " + short(t1)
			}
			return "done"
		})
		if res == "panic" {
			again = "ok"
		}
		c.Probes = append(c.Probes, Probe{Kind: "direct", Rel: "C11 a diff value renders the same merge patch after it was used", Want: again})
	}
	run.Count("opts:" + o.Name())
	run.Count("hunks:" + sizeBucket(hunkCount(dw)))
	run.Add(c)
}

// fillEmptyObjects puts a member into every empty object of v (in place; returns v)
func fillEmptyObjects(v *Val) *Val {
	switch v.K {
	case KObj:
		if len(v.O) == 0 {
			v.O = map[string]*Val{"later": VBool(true)}
			return v
		}
		for _, e := range v.O {
			fillEmptyObjects(e)
		}
	case KArr:
		for _, e := range v.A {
			fillEmptyObjects(e)
		}
	}
	return v
}

// ---------------------------------------------------------------------------------------------
// C12 — RFC 7386 input is applied as the RFC specifies
// addC12ChainCase: merge patches read and applied in a CHAIN on the same Go values inside one process
// (the document a Patch returned is patched again below an object that came out of the merge-patch
// reader), then on fresh documents, then the no-op patch {}: state shared between calls shows only here.
func addC12ChainCase(run *Run, r *Rng, cfg GenCfg) {
	key := cfg.Keys[r.Intn(len(cfg.Keys))]
	inner := cfg.Keys[r.Intn(len(cfg.Keys))]
	a0 := cfg.Obj(r, 1)
	a0.O[key] = VNum(1)
	b1 := a0.Clone()
	b1.O[key] = VObj()
	b2 := b1.Clone()
	b2.O[key] = VObj(inner, VNum(float64(1+r.Intn(3))))
	a3 := VObj(key, VNum(2))
	b3 := VObj(key, VObj())
	steps := [][2]string{{"", b1.Wire()}, {"", b2.Wire()}, {a3.Wire(), b3.Wire()}, {VObj("q", VArr(VNum(1))).Wire(), VObj("q", VObj()).Wire()}}
	c := Case{Recipe: Recipe{"c12chain", []string{}}, Desc: map[string]string{"a0": a0.Human(), "b1": b1.Human(), "b2": b2.Human()}}
	c.Nontrivial = true
	c.Sig = "chain|" + a0.Wire() + b2.Wire()
	verdict, _ := safely(func() string {
		cur := mustNode(a0.Wire())
		for i, st := range steps {
			if st[0] != "" {
				cur = mustNode(st[0])
			}
			b := mustNode(st[1])
			d := cur.Diff(b, jd.MERGE)
			txt, err := d.RenderMerge()
			if err != nil {
				return fmt.Sprintf("fail step %d: RenderMerge: %v", i+1, err)
			}
			d2, err := jd.ReadMergeString(txt)
			if err != nil {
				return fmt.Sprintf("fail step %d: ReadMergeString(%s): %v", i+1, txt, err)
			}
			res, err := cur.Patch(d2)
			if err != nil {
				return fmt.Sprintf("fail step %d: Patch: %v", i+1, err)
			}
			if !res.Equals(b, jd.MERGE) {
				return fmt.Sprintf("fail step %d: merge patch %s read and applied gives %s, not %s", i+1, txt, res.Json(), b.Json())
			}
			cur = res
		}
		// a diff value read ONCE and applied again after the document it produced was patched below the member
		// it added: every application must give MergePatch(target, patch)
		{
			d1, err := jd.ReadMergeString(`{"a":{},"n":{"m":{}}}`)
			if err != nil {
				return "fail ReadMergeString: " + err.Error()
			}
			r1, err := mustNode(VObj("x", VNum(1)).Wire()).Patch(d1)
			if err != nil {
				return "fail Patch: " + err.Error()
			}
			d2, _ := jd.ReadMergeString(`{"a":{"k":1,"deep":{"z":[null]}},"n":{"m":{"w":true}}}`)
			if _, err := r1.Patch(d2); err != nil {
				return "fail Patch (second): " + err.Error()
			}
			r3, err := mustNode(VObj("y", VNum(2), "a", VArr(VNum(1), VNum(2))).Wire()).Patch(d1)
			if err != nil {
				return "fail Patch (same diff value again): " + err.Error()
			}
			want := mustNode(VObj("y", VNum(2), "a", VObj(), "n", VObj("m", VObj())).Wire())
			if !res3Equals(r3, want) {
				return "fail the merge patch {\"a\":{},\"n\":{\"m\":{}}} read once and applied a second time gives " + r3.Json() + ", RFC 7386 gives " + want.Json()
			}
		}
		q := mustNode(VObj("q", VBool(true)).Wire())
		d0, err := jd.ReadMergeString("{}")
		if err != nil {
			return "fail ReadMergeString({}): " + err.Error()
		}
		res, err := q.Patch(d0)
		if err != nil || !res.Equals(q) {
			return "fail the no-op merge patch {} changed the document to " + res.Json()
		}
		return "ok"
	})
	if verdict == "panic" {
		verdict = "fail panic in a chained merge round trip"
	}
	c.Probes = append(c.Probes, Probe{Kind: "direct", Rel: "C12 merge patches read and applied in a chain on the same values in one process", Want: verdict})
	run.Count("chain")
	run.Add(c)
}

func res3Equals(a, b jd.JsonNode) bool { return a.Equals(b) && b.Equals(a) }

func propC12(run *Run, n int) {
	run.rule = "random targets x random merge patch documents (objects nested with nulls, empty objects at any depth over objects/scalars/absent keys, arrays, scalars, null at the root); non-trivial = the patch is not the empty object; distinct = distinct (target, patch)"
	r := NewRng(run.Seed)
	// patch TEXTS in spellings a JSON reader accepts and another reader (YAML) would not, or would read differently
	for k, text := range []string{
		`{"link":"http:\/\/example.com\/a"}`, `{"t":-0}`, "{\"s\":\"line1\u0085line2\"}", `{"id":9223372036854775808}`, "{\"d\":\"\x7f\"}",
		`{"` + strings.Repeat("k", 1100) + `":1}`, `{"a":1.0E+2,"b":[1e0,2E0]}`, "{\t\"a\"\t:\t[\t1\t,\t2\t]\t}", `{"y":"yes","n":"~","o":"0o17","x":"0x1F","t":"2001-01-01"}`,
		`{"a":"\u0041\u00e9\ud83d\ude00"}`, `{"a": "b: c", "d": "- e", "f": "#g"}`,
	} {
		t := VObj("a", VNum(1), "link", VStr("x"))
		if k%2 == 1 {
			t = VArr(VNum(1))
		}
		run.Count("patch_text:json-only-spelling")
		addC12CaseText(run, t, text, "", Recipe{"c12text", []string{t.Wire(), textWire(text)}})
	}
	for i := 0; i < n; i++ {
		cfg := DefaultCfg()
		cfg.ScalarBias = 4
		cfg.MaxDepth = 4
		t := cfg.Doc(r, 0)
		var p *Val
		switch r.Intn(6) {
		case 0:
			p = cfg.Doc(r, 0)
		case 1:
			p = cfg.scalar(r)
		default:
			// a patch shaped like the target with edits: nulls (deletions), empty objects, replaced values
			p = mergeShape(r, cfg, t, 0)
		}
		if r.Chance(1, 6) {
			// deep chains: a patch whose object at depth 2..6 has several leaf members
			d := DeepCfg()
			t, p = d.ChainPair(r, false)
			if r.Chance(1, 2) {
				t = cfg.Doc(r, 0)
			}
		}
		if r.Chance(1, 6) {
			// the target is a document an earlier SET / MULTISET Patch returned: its edited arrays are typed
			// jsonSet / jsonMultiset nodes; the patch puts objects where the target holds such arrays
			o := OptSetO
			if r.Chance(1, 2) {
				o = OptMset
			}
			t0 := VObj("name", VStr("svc"), "tags", cfg.Arr(r, 1), "spec", VObj("tags", cfg.Arr(r, 1)))
			t1 := t0.Clone()
			t1.O["tags"] = cfg.Mutate(r, t0.O["tags"], 2)
			t1.O["spec"].O["tags"] = cfg.Mutate(r, t0.O["spec"].O["tags"], 2)
			_, outcome, _ := implDiffPatch(o, t0.Wire(), t1.Wire())
			if strings.HasPrefix(outcome, "ok ") {
				if pv, err := ParseWire(outcome[3:]); err == nil && pv.K == KObj {
					t = pv
					inner := VObj("owner", VStr("x"))
					switch r.Intn(3) {
					case 0:
						inner = VObj("owner", VNull())
					case 1:
						inner = VObj("a", VObj("b", VNum(1)))
					}
					if r.Chance(1, 2) {
						p = VObj("tags", inner, "name", VStr("svc2"))
					} else {
						p = VObj("spec", VObj("tags", inner))
					}
					run.Count("target:typed-from-set-patch")
				}
			}
		}
		if p.K == KVoid {
			continue
		}
		addC12Case(run, t, p)
		if r.Chance(1, 6) {
			addC12CaseSpelled(run, t, p, r)
		}
		if r.Chance(1, 40) {
			addC12ChainCase(run, r, cfg)
		}
	}
}

func mergeShape(r *Rng, cfg GenCfg, t *Val, depth int) *Val {
	if t.K != KObj || depth > 3 {
		switch r.Intn(4) {
		case 0:
			return VNull()
		case 1:
			return VObj()
		default:
			return cfg.Doc(r, depth+1)
		}
	}
	p := VObj()
	for _, k := range t.Keys() {
		switch r.Intn(5) {
		case 0:
			p.O[k] = VNull()
		case 1:
			p.O[k] = mergeShape(r, cfg, t.O[k], depth+1)
		case 2:
			p.O[k] = VObj()
		case 3:
			p.O[k] = cfg.Doc(r, depth+1)
		}
	}
	for j := 0; j < r.Intn(2); j++ {
		k := cfg.Keys[r.Intn(len(cfg.Keys))]
		switch r.Intn(3) {
		case 0:
			p.O[k] = VNull()
		case 1:
			p.O[k] = VObj("n", VObj())
		default:
			p.O[k] = cfg.Doc(r, depth+1)
		}
	}
	return p
}

// sortHunks orders the hunks of an encoded diff outcome canonically.
func sortHunks(out string) string {
	if !strings.HasPrefix(out, "ok <") {
		return out
	}
	hs := splitHunks(out[3:])
	sort.Strings(hs)
	return "ok " + joinHunks(hs)
}

// jsonRespell writes the same JSON value with other spellings that RFC 8259 allows (and a YAML reader would not all
// accept or would read differently): "\/" for "/", \u00XX for ASCII letters, white space between tokens, integers as N.0 /
// NeK forms. The value denoted does not change.
func jsonRespell(r *Rng, text string) string {
	var b strings.Builder
	inStr := false
	for i := 0; i < len(text); i++ {
		ch := text[i]
		if inStr {
			switch {
			case ch == '\\' && i+1 < len(text):
				b.WriteByte(ch)
				i++
				b.WriteByte(text[i])
			case ch == '"':
				inStr = false
				b.WriteByte(ch)
			case ch == '/' && r.Chance(1, 2):
				b.WriteString("\\/")
			case ((ch >= 'a' && ch <= 'z') || (ch >= 'A' && ch <= 'Z')) && r.Chance(1, 8):
				fmt.Fprintf(&b, "\\u%04x", ch)
			default:
				b.WriteByte(ch)
			}
			continue
		}
		switch {
		case ch == '"':
			inStr = true
			b.WriteByte(ch)
		case ch == ',' || ch == ':' || ch == '[' || ch == '{':
			b.WriteByte(ch)
			if r.Chance(1, 4) {
				b.WriteString([]string{" ", "\n", "\t", "\r\n  "}[r.Intn(4)])
			}
		case ch >= '0' && ch <= '9':
			j := i
			for j < len(text) && ((text[j] >= '0' && text[j] <= '9') || text[j] == '.' || text[j] == 'e' || text[j] == 'E' || text[j] == '+' || text[j] == '-') {
				j++
			}
			tok := text[i:j]
			if !strings.ContainsAny(tok, ".eE") && len(tok) < 15 && r.Chance(1, 3) {
				tok += []string{".0", "e0", "E+0", ".00"}[r.Intn(4)]
			}
			b.WriteString(tok)
			i = j - 1
		default:
			b.WriteByte(ch)
		}
	}
	return b.String()
}

func addC12Case(run *Run, t, p *Val) { addC12CaseSpelled(run, t, p, nil) }

// with a generator: the patch text is respelled (same JSON value, other spelling)
func addC12CaseSpelled(run *Run, t, p *Val, r *Rng) {
	ptext := ""
	safely(func() string { ptext = mustNode(p.Wire()).Json(); return "" })
	if r == nil {
		addC12CaseText(run, t, ptext, p.Wire(), Recipe{"c12", []string{t.Wire(), p.Wire()}})
		return
	}
	ptext = jsonRespell(r, ptext)
	run.Count("patch_text:respelled")
	addC12CaseText(run, t, ptext, p.Wire(), Recipe{"c12text", []string{t.Wire(), textWire(ptext)}})
}

func addC12CaseText(run *Run, t *Val, ptext, pwire string, rec Recipe) {
	tw := t.Wire()
	c := Case{Recipe: rec, Desc: map[string]string{"target": t.Human(), "patch": ptext}}
	rd := implReadMerge(ptext)
	po := "err"
	if strings.HasPrefix(rd, "ok ") {
		po = implPatch(tw, rd[3:])
	}
	c.Desc["impl_read"] = rd
	c.Desc["impl_patch"] = po
	c.Nontrivial = ptext != "{}"
	c.Sig = tw + "|" + ptext
	nd := numDict([]string{tw, pwire, po}, []string{ptext})
	c.Probes = append(c.Probes,
		Probe{Kind: "corr", Rel: "ReadMergeString = readMergeM (as a set of hunks; their order is C15's)", Line: fmt.Sprintf("readmergesorted %s %s", nd, textWire(ptext)), Want: sortHunks(rd)},
		Probe{Kind: "oracle", Rel: "C12 read + apply = MergePatch(target, patch) of RFC 7386", Line: fmt.Sprintf("c12 %s %s %s %s", nd, tw, textWire(ptext), po)},
	)
	if strings.HasPrefix(rd, "ok ") {
		c.Probes = append(c.Probes, Probe{Kind: "corr", Rel: "Patch = patchM (merge hunks)", Line: fmt.Sprintf("patch %s %s", tw, rd[3:]), Want: po})
	}
	kind := "scalar"
	switch strings.TrimSpace(ptext + " ")[0] {
	case '{':
		kind = "object"
	case '[':
		kind = "array"
	case 'n':
		kind = "null"
	}
	run.Count("patch_kind:" + kind)
	run.Count("apply:" + strings.Fields(po)[0])
	run.Add(c)
}

func init() {
	props["C09"] = propC09
	props["C10"] = propC10
	props["C11"] = propC11
	props["C12"] = propC12
	for k, v := range map[string]int{"C09": 2500, "C10": 1500, "C11": 3000, "C12": 4000} {
		quickN[k] = v
	}
	for k, v := range map[string]int{"C09": 100000, "C10": 60000, "C11": 150000, "C12": 200000} {
		thoroughN[k] = v
	}
	recipes["c09"] = func(run *Run, a []string) {
		ts := []*Val{}
		for _, w := range a[2:] {
			ts = append(ts, mustVal(w))
		}
		addC09Case(run, mustVal(a[0]), mustVal(a[1]), ts)
	}
	recipes["c09h"] = func(run *Run, a []string) { addC09Hand(run, mustVal(a[0]), mustVal(a[1]), a[2]) }
	recipes["c10"] = func(run *Run, a []string) { addC10Case(run, a[0], a[1], mustVal(a[2]), mustVal(a[3]), mustVal(a[4])) }
	recipes["c11"] = func(run *Run, a []string) { addC11Case(run, mustOpts(a[0]), mustVal(a[1]), mustVal(a[2])) }
	recipes["c12"] = func(run *Run, a []string) { addC12Case(run, mustVal(a[0]), mustVal(a[1])) }
	recipes["c12text"] = func(run *Run, a []string) {
		t, _ := outcomeText("ok " + a[1])
		addC12CaseText(run, mustVal(a[0]), t, "", Recipe{"c12text", a})
	}
	recipes["c12chain"] = func(run *Run, a []string) { addC12ChainCase(run, NewRng(run.Seed), DefaultCfg()) }
}
