package main

// C05, process level: "Consequently the CLI exits 0 exactly when the two inputs are equal under the flags given and 1
// exactly when they differ." Both binaries are run on small document pairs (equal, equal up to the reading, different)
// under flag sets including -color, -yaml and the output formats; the exit status is compared with Equals computed
// in-process under the options the flags denote. Direct probe (no model involved). Documents are drawn from pools
// without the known-finding shapes of this property (no hash aliases, one set key, no nulls, every member keyed).

import (
	"fmt"
	"os"
	"path/filepath"
	"strings"

	jd "github.com/josephburnett/jd/v2"
)

type c05Flags struct {
	args []string
	o    OptSet
	yaml bool
}

func addC05CliCase(run *Run, a, b *Val, fl c05Flags, top bool) {
	aw, bw := a.Wire(), b.Wire()
	c := Case{Recipe: Recipe{"c05cli", []string{aw, bw, strings.Join(fl.args, " "), fl.o.Wire(), boolWire(fl.yaml), boolWire(top)}},
		Desc:       map[string]string{"a": a.Human(), "b": b.Human(), "flags": strings.Join(fl.args, " "), "binary": map[bool]string{true: "jd (top level)", false: "v2/jd"}[top]},
		Nontrivial: aw != bw, Sig: "cli|" + aw + "|" + bw + "|" + strings.Join(fl.args, " ") + boolWire(top)}
	bins := c16CliBins()
	verdict := "ok"
	if bins.err != nil {
		verdict = "fail cannot build the binaries: " + bins.err.Error()
	} else {
		bin := bins.v2jd
		if top {
			bin = bins.top
		}
		dir, _ := os.MkdirTemp("", "verif-c05-")
		defer os.RemoveAll(dir)
		res, _ := safely(func() string {
			an, bn := mustNode(aw), mustNode(bw)
			ta, tb := an.Json(), bn.Json()
			if fl.yaml {
				ta, tb = an.Yaml(), bn.Yaml()
			}
			fa, fb := filepath.Join(dir, "a"), filepath.Join(dir, "b")
			os.WriteFile(fa, []byte(ta), 0o644)
			os.WriteFile(fb, []byte(tb), 0o644)
			eq := an.Equals(bn, fl.o.Go()...)
			_, code, se := c16RunCli(bin, "", append(append([]string{}, fl.args...), fa, fb)...)
			want := 1
			if eq {
				want = 0
			}
			if code != want {
				verdict = fmt.Sprintf("fail jd %s exits %d but Equals under these options is %v (stderr: %s)", strings.Join(fl.args, " "), code, eq, short(se))
			}
			return "done"
		})
		if res == "panic" {
			verdict = "ok panic-elsewhere"
		}
	}
	if strings.HasPrefix(verdict, "ok") {
		verdict = "ok"
	}
	c.Probes = append(c.Probes, Probe{Kind: "direct", Rel: "C05 the binaries exit 0 exactly when the inputs are Equal under the flags given, 1 when they differ", Want: verdict})
	run.Count("cli-exit-status")
	run.Add(c)
}

func addC05CliCases(run *Run, n int) {
	r := NewRng(run.Seed ^ 0xc05c11)
	flagSets := []c05Flags{
		{nil, OptNone, false}, {[]string{"-color"}, OptNone, false}, {[]string{"-yaml"}, OptNone, true}, {[]string{"-color", "-yaml"}, OptNone, true},
		{[]string{"-set"}, OptSetO, false}, {[]string{"-color", "-set"}, OptSetO, false}, {[]string{"-mset"}, OptMset, false}, {[]string{"-color", "-mset"}, OptMset, false},
		{[]string{"-setkeys", "id"}, OptKeys("id"), false}, {[]string{"-color", "-setkeys", "id"}, OptKeys("id"), false},
		{[]string{"-f", "patch"}, OptNone, false}, {[]string{"-f", "merge"}, OptMerge, false}, {[]string{"-f", "merge", "-set"}, OptSetMrg, false},
	}
	cfg := DefaultCfg()
	cfg.AllowNull = false
	cfg.Strs = []string{"a", "b", "c"}
	cfg.Nums = []float64{1, 2, 3}
	cfg.Keys = []string{"k", "m", "x"}
	keyed := cfg
	keyed.SetKeys = []string{"id"}
	keyed.Keys = []string{"id", "v", "x"}
	for i := 0; i < n; i++ {
		fl := flagSets[r.Intn(len(flagSets))]
		g := cfg
		if fl.o.Has("K") {
			g = keyed
		}
		a := g.Doc(r, 0)
		if a.K == KVoid {
			a = VObj("k", VNum(1))
		}
		var b *Val
		switch r.Intn(3) {
		case 0:
			b = a.Clone()
		case 1:
			b = a.Clone()
			permuteDeep(r, b, !fl.o.Has("K") && r.Chance(1, 2))
		default:
			b = g.Mutate(r, a, 2)
			if b.K == KVoid {
				b = VObj("k", VNum(2))
			}
		}
		addC05CliCase(run, a, b, fl, r.Chance(1, 2))
	}
}

func init() {
	recipes["c05cli"] = func(run *Run, a []string) {
		owned := c16Bins == nil
		o := mustOpts(a[3])
		var args []string
		if a[2] != "" {
			args = strings.Fields(a[2])
		}
		addC05CliCase(run, mustVal(a[0]), mustVal(a[1]), c05Flags{args, o, a[4] == "T"}, a[5] == "T")
		if owned && c16Bins != nil {
			c16Bins.cleanup()
			c16Bins = nil
		}
	}
	c05CliHook = func(run *Run, n int) {
		defer func() {
			if c16Bins != nil {
				c16Bins.cleanup()
				c16Bins = nil
			}
		}()
		k := 40
		if run.Tier == "thorough" {
			k = 400
		}
		addC05CliCases(run, k)
	}
	_ = jd.SET
}

var c05CliHook func(run *Run, n int)
