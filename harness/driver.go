package main

import (
	"bufio"
	"bytes"
	"fmt"
	"os/exec"
	"strings"
)

// RunDriver pipes the operation lines to the Lean model driver and returns result per id.
func RunDriver(bin string, lines []string) (map[string]string, error) {
	cmd := exec.Command(bin)
	var in bytes.Buffer
	for _, l := range lines {
		in.WriteString(l)
		in.WriteString("\n")
	}
	cmd.Stdin = &in
	var out, errb bytes.Buffer
	cmd.Stdout = &out
	cmd.Stderr = &errb
	if err := cmd.Run(); err != nil {
		return nil, fmt.Errorf("driver failed: %v: %s", err, errb.String())
	}
	res := map[string]string{}
	sc := bufio.NewScanner(&out)
	sc.Buffer(make([]byte, 1<<20), 1<<28)
	for sc.Scan() {
		l := sc.Text()
		i := strings.IndexByte(l, ' ')
		if i < 0 {
			continue
		}
		res[l[:i]] = l[i+1:]
	}
	return res, nil
}
