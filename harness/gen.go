package main

import "math"

// Generators: structure-aware, small alphabets with repeats (so LCS, sets and bags are exercised),
// mutation-based second documents. All choices come from one Rng.

type GenCfg struct {
	MaxDepth  int
	MaxLen    int
	MaxKeys   int
	Nums      []float64
	Strs      []string
	Keys      []string
	AllowNull bool
	AllowBool bool
	// when non-empty: object members of arrays carry all these keys, with identities
	// pairwise distinct inside one array (the SetKeys precondition)
	SetKeys []string
	// probability weights
	ScalarBias int // 0..10: higher = more scalars at depth>0
	Chain      int  // k in 10 pairs are ChainPairs (deep chain to an edited leaf object)
	ChainLists bool // chains may step through list indices
	Descend    int // 0 = default (1 in 2); k > 0: mutations descend into a child with probability k in k+1
}

func (c GenCfg) descend(r *Rng) bool {
	if c.Descend <= 0 {
		return r.Chance(1, 2)
	}
	return r.Chance(c.Descend, c.Descend+1)
}

var smallNums = []float64{0, 1, 2, 3}
var nastyNums = []float64{0, 1, 2, 3, -1, 0.5, 1.5, 0.1, 1e21, 1e-7, 9007199254740993, 2261634.5098039214, math.Copysign(0, -1), 1.00001, 1.0005, 100, -2.5}
var smallStrs = []string{"a", "b", "c", ""}
var nastyStrs = []string{"a", "b", "c", "", "AAAAAAAA", "100%d done", "50%", "a%%20b", "%s%v%!", "$1 \\1 ${x}", "`x`", "'q'", "true", "1", "null", "a/b", "m~n", "a/b/c", "~a~", "//", "~~", "x~/~/y", "-", "0", "01", "<x>&", " ", "é", "😀", "line\nbreak", "line1\u0085line2", "del\x7f", "tab\t", "q\"uote", "back\\slash", "\x01", "{}", "[]", " "}
var smallKeys = []string{"a", "b", "c", "d"}
var nastyKeys = []string{"a", "b", "c", "d", "", "/", "~", "~0", "~1", "~01", "a/b", "m~n", "a/b/c", "~a~", "//", "~~", "x~/~/y", "-", "0", "1", "01", "-1", "<<", "é", "id", "k", "a ", " ", "\t", " a", "\u00a0", "k\n", "a\u0001b", "\u007f", "b\a\v", "ID", "Id", "iD", "A"}

func DefaultCfg() GenCfg {
	return GenCfg{MaxDepth: 3, MaxLen: 5, MaxKeys: 3, Nums: smallNums, Strs: smallStrs, Keys: smallKeys, AllowNull: true, AllowBool: true, ScalarBias: 5}
}

func NastyCfg() GenCfg {
	return GenCfg{MaxDepth: 4, MaxLen: 6, MaxKeys: 4, Nums: nastyNums, Strs: nastyStrs, Keys: nastyKeys, AllowNull: true, AllowBool: true, ScalarBias: 5}
}

// DeepCfg: narrow but deeply nested, object-heavy documents (paths of length 3..6)
func DeepCfg() GenCfg {
	return GenCfg{MaxDepth: 6, MaxLen: 3, MaxKeys: 3, Nums: smallNums, Strs: smallStrs, Keys: smallKeys, AllowNull: true, AllowBool: true, ScalarBias: 2, Descend: 5, Chain: 5, ChainLists: true}
}

func (c GenCfg) scalar(r *Rng) *Val {
	n := 2
	if c.AllowBool {
		n++
	}
	if c.AllowNull {
		n++
	}
	switch r.Intn(n) {
	case 0:
		return VNum(c.Nums[r.Intn(len(c.Nums))])
	case 1:
		return VStr(c.Strs[r.Intn(len(c.Strs))])
	case 2:
		if c.AllowBool {
			return VBool(r.Intn(2) == 0)
		}
		return VNull()
	default:
		return VNull()
	}
}

func (c GenCfg) Doc(r *Rng, depth int) *Val {
	if depth >= c.MaxDepth || r.Intn(10) < c.ScalarBias && depth > 0 {
		return c.scalar(r)
	}
	switch r.Intn(5) {
	case 0, 1:
		return c.Arr(r, depth)
	case 2, 3:
		return c.Obj(r, depth)
	default:
		return c.scalar(r)
	}
}

func (c GenCfg) Arr(r *Rng, depth int) *Val {
	n := r.Intn(c.MaxLen + 1)
	v := VArr()
	v.A = []*Val{}
	if len(c.SetKeys) > 0 && r.Chance(2, 3) {
		// array of keyed objects with distinct identities
		used := map[string]bool{}
		for i := 0; i < n; i++ {
			o := c.Obj(r, depth+1)
			id := ""
			for try := 0; try < 8; try++ {
				id = ""
				for _, k := range c.SetKeys {
					kv := c.keyValue(r)
					o.O[k] = kv
					id += kv.Wire() + "|"
				}
				if !used[id] {
					break
				}
			}
			if len(c.SetKeys) > 1 && r.Chance(1, 5) {
				// a member that has only some of the set keys (identified by the ones it has)
				delete(o.O, c.SetKeys[r.Intn(len(c.SetKeys))])
				id = keyedID(o, c.SetKeys)
			}
			if used[id] {
				continue
			}
			used[id] = true
			v.A = append(v.A, o)
		}
		return v
	}
	for i := 0; i < n; i++ {
		e := c.Doc(r, depth+1)
		if len(c.SetKeys) > 0 && e.K == KObj {
			// keep the precondition: give stray objects the keys too (identity may repeat: avoided by caller filters)
			for _, k := range c.SetKeys {
				e.O[k] = c.keyValue(r)
			}
		}
		v.A = append(v.A, e)
	}
	if len(c.SetKeys) > 0 {
		v.A = dedupKeyed(v.A, c.SetKeys)
	}
	return v
}

func (c GenCfg) keyValue(r *Rng) *Val {
	if len(c.SetKeys) > 1 && r.Chance(1, 10) {
		return VNull() // a set key that is present and null (distinct from a member that lacks the key)
	}
	switch r.Intn(6) {
	case 0:
		return VStr(c.Strs[r.Intn(len(c.Strs))])
	case 1:
		if r.Chance(1, 4) {
			// array-valued key: sorted and duplicate-free, so that distinct texts are distinct as sets too
			x := r.Intn(3)
			return VArr(VNum(float64(x)), VNum(float64(x+1+r.Intn(2))))
		}
		return VNum(float64(r.Intn(4)))
	default:
		return VNum(float64(r.Intn(6)))
	}
}

// dedupKeyed drops object members whose key tuple repeats an earlier one (keeps the precondition
// "identities pairwise distinct within an array").
func dedupKeyed(a []*Val, keys []string) []*Val {
	seen := map[string]bool{}
	out := []*Val{}
	for _, e := range a {
		if e.K == KObj {
			id := keyedID(e, keys)
			if seen[id] {
				continue
			}
			seen[id] = true
		}
		out = append(out, e)
	}
	return out
}

// keyedID is the tuple of the values of the set keys a member HAS, in key order: members missing a key
// are identified by the keys they have (the libraries skip missing keys), so {id:1} and {k:1} count as
// the same identity here and only one of them is kept.
func keyedID(e *Val, keys []string) string {
	id := ""
	for _, k := range keys {
		if kv, ok := e.O[k]; ok {
			id += kv.Wire() + "|"
		}
	}
	return id
}

func (c GenCfg) Obj(r *Rng, depth int) *Val {
	n := r.Intn(c.MaxKeys + 1)
	v := VObj()
	for i := 0; i < n; i++ {
		v.O[c.Keys[r.Intn(len(c.Keys))]] = c.Doc(r, depth+1)
	}
	return v
}

// Mutate returns a mutated deep copy of v: between 1 and `edits` random edits at random places.
func (c GenCfg) Mutate(r *Rng, v *Val, edits int) *Val {
	out := v.Clone()
	n := 1 + r.Intn(edits)
	for i := 0; i < n; i++ {
		out = c.mutateOnce(r, out, 0)
	}
	if len(c.SetKeys) > 0 {
		out = c.fixKeyed(out)
	}
	return out
}

func (c GenCfg) fixKeyed(v *Val) *Val {
	switch v.K {
	case KArr:
		for i, e := range v.A {
			v.A[i] = c.fixKeyed(e)
		}
		v.A = dedupKeyed(v.A, c.SetKeys)
	case KObj:
		for k, e := range v.O {
			v.O[k] = c.fixKeyed(e)
		}
	}
	return v
}

// emptyRetype: "" <-> [] <-> {} (values whose hash codes are not domain-separated under the set readings) — at
// the same location, so that a differ which trusts hash equality instead of comparing kinds misses the change
func emptyRetype(r *Rng, v *Val) (*Val, bool) {
	isEmpty := (v.K == KStr && v.S == "") || (v.K == KArr && len(v.A) == 0) || (v.K == KObj && len(v.O) == 0)
	if !isEmpty {
		return v, false
	}
	for {
		var n *Val
		switch r.Intn(3) {
		case 0:
			n = VStr("")
		case 1:
			n = VArr()
		default:
			n = VObj()
		}
		if n.K != v.K {
			return n, true
		}
	}
}

func (c GenCfg) mutateOnce(r *Rng, v *Val, depth int) *Val {
	if depth > 0 && r.Chance(1, 3) {
		if n, ok := emptyRetype(r, v); ok {
			return n
		}
	}
	// descend with some probability
	switch v.K {
	case KArr:
		if len(v.A) > 0 && c.descend(r) {
			i := r.Intn(len(v.A))
			v.A[i] = c.mutateOnce(r, v.A[i], depth+1)
			return v
		}
		switch r.Intn(10) {
		case 8: // regroup: move the boundary between two adjacent nested arrays ([[1],[2,3]] -> [[1,2],[3]])
			for i := 0; i+1 < len(v.A); i++ {
				x, y := v.A[i], v.A[i+1]
				if x.K == KArr && y.K == KArr && len(y.A) > 0 {
					x.A = append(x.A, y.A[0])
					y.A = y.A[1:]
					break
				}
			}
		case 9: // wrap / unwrap an element ([1] <-> [[1]])
			if len(v.A) > 0 && len(c.SetKeys) == 0 {
				i := r.Intn(len(v.A))
				if v.A[i].K == KArr && len(v.A[i].A) == 1 {
					v.A[i] = v.A[i].A[0]
				} else {
					v.A[i] = VArr(v.A[i])
				}
			}
		case 0: // insert
			i := r.Intn(len(v.A) + 1)
			e := c.elemFor(r, v, depth)
			v.A = append(v.A[:i], append([]*Val{e}, v.A[i:]...)...)
		case 1: // delete
			if len(v.A) > 0 {
				i := r.Intn(len(v.A))
				v.A = append(v.A[:i], v.A[i+1:]...)
			}
		case 2: // duplicate an element elsewhere
			if len(v.A) > 0 && len(c.SetKeys) == 0 {
				e := v.A[r.Intn(len(v.A))].Clone()
				i := r.Intn(len(v.A) + 1)
				v.A = append(v.A[:i], append([]*Val{e}, v.A[i:]...)...)
			}
		case 3: // swap
			if len(v.A) > 1 {
				i, j := r.Intn(len(v.A)), r.Intn(len(v.A))
				v.A[i], v.A[j] = v.A[j], v.A[i]
			}
		case 4: // replace element
			if len(v.A) > 0 {
				v.A[r.Intn(len(v.A))] = c.elemFor(r, v, depth)
			}
		case 5: // rotate
			if len(v.A) > 1 {
				v.A = append(v.A[1:], v.A[0])
			}
		case 6: // delete a run
			if len(v.A) > 1 {
				i := r.Intn(len(v.A))
				j := i + 1 + r.Intn(len(v.A)-i)
				v.A = append(v.A[:i], v.A[j:]...)
			}
		default: // retype whole node
			return c.Doc(r, depth)
		}
		return v
	case KObj:
		ks := v.Keys()
		if len(ks) > 0 && c.descend(r) {
			k := ks[r.Intn(len(ks))]
			if !isIn(k, c.SetKeys) || r.Chance(1, 4) {
				v.O[k] = c.mutateOnce(r, v.O[k], depth+1)
			}
			return v
		}
		switch r.Intn(8) {
		case 5: // swap the values of two keys ({"x":1,"y":2} -> {"x":2,"y":1})
			if len(ks) > 1 {
				i, j := r.Intn(len(ks)), r.Intn(len(ks))
				if !isIn(ks[i], c.SetKeys) && !isIn(ks[j], c.SetKeys) {
					v.O[ks[i]], v.O[ks[j]] = v.O[ks[j]], v.O[ks[i]]
				}
			}
		case 6: // swap a key with its string value ({"a":"b"} -> {"b":"a"})
			if len(ks) > 0 {
				k := ks[r.Intn(len(ks))]
				if x := v.O[k]; x.K == KStr && !isIn(k, c.SetKeys) && !isIn(x.S, c.SetKeys) {
					if _, exists := v.O[x.S]; !exists {
						delete(v.O, k)
						v.O[x.S] = VStr(k)
					}
				}
			}
		case 7: // delete the FIRST key (so that later keys are still visited by the differ)
			if len(ks) > 1 && !isIn(ks[0], c.SetKeys) {
				delete(v.O, ks[0])
			}
		case 0, 1: // add / overwrite key
			v.O[c.Keys[r.Intn(len(c.Keys))]] = c.Doc(r, depth+1)
		case 2, 3: // delete key
			if len(ks) > 0 {
				k := ks[r.Intn(len(ks))]
				if !isIn(k, c.SetKeys) {
					delete(v.O, k)
				}
			}
		default:
			if depth == 0 || len(c.SetKeys) == 0 {
				return c.Doc(r, depth)
			}
		}
		return v
	default:
		if r.Chance(1, 4) {
			return c.Doc(r, depth)
		}
		return c.scalar(r)
	}
}

func (c GenCfg) elemFor(r *Rng, arr *Val, depth int) *Val {
	e := c.Doc(r, depth+1)
	if len(c.SetKeys) > 0 && e.K == KObj {
		for _, k := range c.SetKeys {
			e.O[k] = c.keyValue(r)
		}
	}
	return e
}

func isIn(s string, l []string) bool {
	for _, x := range l {
		if x == s {
			return true
		}
	}
	return false
}

// ChainPair: a path of 2..6 keys / list indices leading to a leaf object with 2..4 members, and a second
// document that edits the leaf (remove, change, add members in any position). Slices that hold paths of
// length 3, 5, 6, 7 have spare capacity in Go: aliasing bugs on paths only show at those depths.
func (c GenCfg) ChainPair(r *Rng, listSteps bool) (*Val, *Val) {
	depth := 2 + r.Intn(5)
	keys := []string{"w", "x", "y", "z"}
	leafA, leafB := VObj(), VObj()
	for _, k := range keys[:2+r.Intn(3)] {
		v := c.scalar(r)
		if !c.AllowNull && v.K == KNull {
			v = VNum(1)
		}
		if r.Chance(1, 3) {
			// container-valued member: it may change its type in b
			if r.Chance(1, 2) {
				v = VArr(VNum(1), VNum(2))
			} else {
				v = VObj("q", VNum(1))
			}
		}
		leafA.O[k] = v
		switch r.Intn(4) {
		case 0: // removed in b
		case 1:
			w := c.scalar(r)
			if !c.AllowNull && w.K == KNull {
				w = VNum(2)
			}
			leafB.O[k] = w
		default:
			leafB.O[k] = v.Clone()
		}
	}
	if r.Chance(1, 3) {
		leafB.O["v"] = VNum(9)
	}
	if r.Chance(1, 4) {
		leafB.O["zz"] = VStr("n")
	}
	a, b := leafA, leafB
	for i := 0; i < depth; i++ {
		if listSteps && r.Chance(1, 3) {
			pre := VNum(float64(r.Intn(3)))
			a, b = VArr(pre, a), VArr(pre.Clone(), b)
		} else {
			k := c.Keys[r.Intn(len(c.Keys))]
			a, b = VObj(k, a), VObj(k, b)
			if r.Chance(1, 3) {
				a.O["s"] = VNum(5)
				b.O["s"] = VNum(5)
			}
		}
	}
	return a, b
}

// Pair generates (a, b): b is a mutation of a most of the time, sometimes independent or equal.
func (c GenCfg) Pair(r *Rng) (*Val, *Val) {
	if c.Chain > 0 && r.Chance(c.Chain, 10) {
		return c.ChainPair(r, c.ChainLists)
	}
	a := c.Doc(r, 0)
	switch r.Intn(10) {
	case 0:
		return a, c.Doc(r, 0)
	case 1:
		return a, a.Clone()
	default:
		return a, c.Mutate(r, a, 4)
	}
}

// FlatArrays enumerates all arrays over the alphabet up to length n.
func FlatArrays(alpha []*Val, n int) [][]*Val {
	out := [][]*Val{{}}
	prev := [][]*Val{{}}
	for l := 1; l <= n; l++ {
		next := [][]*Val{}
		for _, p := range prev {
			for _, x := range alpha {
				q := append(append([]*Val{}, p...), x)
				next = append(next, q)
			}
		}
		out = append(out, next...)
		prev = next
	}
	return out
}
