package main

import (
	"fmt"
	"os"
	"strings"
)

// ---------------------------------------------------------------------------------------------
// C17 — v1 API (package lib): Patch(a, Diff(a, b, meta)) Equals b, and the diff is empty exactly
// when Equals holds (in-memory half: Diff / Patch / Equals / hashCode).

type v1Choice struct {
	m     V1Meta
	cfg   func() GenCfg
	label string
	// inDomain: the metadata choice is one of those quantified over by C17; the other profiles are
	// correspondence-only (model = implementation), the oracle is not asked
	inDomain bool
}

func v1Keys(keys ...string) OptItem { return OptItem{Kind: "K", Keys: keys} }

func v1Choices() []v1Choice {
	def := func() GenCfg { return DefaultCfg() }
	nasty := func() GenCfg { return NastyCfg() }
	nonull := func() GenCfg { c := DefaultCfg(); c.AllowNull = false; return c }
	keyed := func(keys ...string) func() GenCfg {
		return func() GenCfg {
			c := DefaultCfg()
			c.SetKeys = keys
			c.Keys = []string{"a", "b", "id", "k", "x"}
			return c
		}
	}
	precCfg := func() GenCfg {
		c := DefaultCfg()
		c.Nums = []float64{1, 1.00001, 1.0005, 1.4, 1.5, 2, 0, 100, 100.0004}
		return c
	}
	S, B, M := OptItem{Kind: "S"}, OptItem{Kind: "B"}, OptItem{Kind: "M"}
	P := func(eps float64) OptItem { return OptItem{Kind: "P", Prec: eps} }
	return []v1Choice{
		{V1Meta{}, def, "none", true},
		{V1Meta{}, nasty, "none-nasty", true},
		{V1Meta{P(0)}, def, "SetPrecision(0) [CLI default]", true},
		{V1Meta{S}, def, "SET", true},
		{V1Meta{S}, nasty, "SET-nasty", true},
		{V1Meta{B}, def, "MULTISET", true},
		{V1Meta{B}, nasty, "MULTISET-nasty", true},
		// jd -set -setkeys id: the CLI passes SET, Setkeys(id), SetPrecision(0)
		{V1Meta{S, v1Keys("id"), P(0)}, keyed("id"), "SET+Setkeys(id)", true},
		{V1Meta{S, v1Keys("id", "k")}, keyed("id", "k"), "SET+Setkeys(id,k)", true},
		// jd -setkeys id alone: Setkeys without SET leaves arrays as lists in v1
		{V1Meta{v1Keys("id")}, keyed("id"), "Setkeys(id) alone", true},
		{V1Meta{M}, nonull, "MERGE", true},
		{V1Meta{M, P(0)}, nonull, "MERGE+SetPrecision(0) [CLI]", true},
		{V1Meta{P(0.001)}, precCfg, "SetPrecision(0.001)", true},
		{V1Meta{P(0.5)}, precCfg, "SetPrecision(0.5)", true},
		// outside the quantifier of C17: correspondence only
		{V1Meta{S, M}, nonull, "x:SET+MERGE", false},
		{V1Meta{B, M}, nonull, "x:MULTISET+MERGE", false},
		{V1Meta{S, v1Keys("id"), M}, func() GenCfg { c := keyed("id")(); c.AllowNull = false; return c }, "x:SET+Setkeys(id)+MERGE", false},
		{V1Meta{B, S}, def, "x:MULTISET+SET", false},
		{V1Meta{M, P(0.001)}, func() GenCfg { c := precCfg(); c.AllowNull = false; return c }, "x:MERGE+SetPrecision(0.001)", false},
	}
}

func propC17(run *Run, n int) {
	run.rule = "v1 (package lib): random (a, b=mutation of a; arrays growing, shrinking, changing in place) x v1 metadata {none, SET, MULTISET, SET+Setkeys, Setkeys alone, MERGE (null-free), SetPrecision} plus out-of-domain combinations checked for correspondence only; non-trivial = the diff has at least one hunk; distinct = distinct (metadata, a, b)"
	r := NewRng(run.Seed)
	choices := v1Choices()
	for i := 0; i < n; i++ {
		ch := choices[r.Intn(len(choices))]
		cfg := ch.cfg()
		var a, b *Val
		switch r.Intn(8) {
		case 0: // arrays at the root: growing / shrinking / changing in place
			a = cfg.Arr(r, 0)
			b = cfg.Mutate(r, a, 4)
		case 1: // same length, changed in place
			a = cfg.Arr(r, 0)
			b = a.Clone()
			for j := range b.A {
				if r.Chance(1, 2) {
					b.A[j] = cfg.elemFor(r, b, 0)
				}
			}
			if len(cfg.SetKeys) > 0 {
				b = cfg.fixKeyed(b)
			}
		case 2: // pure growth / pure shrink of a tail
			a = cfg.Arr(r, 0)
			b = a.Clone()
			if r.Chance(1, 2) {
				k := 1 + r.Intn(3)
				for j := 0; j < k; j++ {
					b.A = append(b.A, cfg.elemFor(r, b, 0))
				}
				if len(cfg.SetKeys) > 0 {
					b = cfg.fixKeyed(b)
				}
			} else if len(b.A) > 0 {
				b.A = b.A[:r.Intn(len(b.A))]
			}
			if r.Chance(1, 2) {
				a, b = VObj("k", a), VObj("k", b)
			}
		default:
			a, b = cfg.Pair(r)
		}
		if ch.m.Has("P") && ch.m[len(ch.m)-1].Prec > 0 && r.Chance(1, 3) {
			b = a.Clone()
			jitter(r, b)
		}
		if !ch.m.Has("M") {
			a, b = withVoid(r, a, b)
		}
		// VERIF_C17_ALL=1: ask the oracle on the out-of-domain metadata combinations too (exploration)
		addC17Case(run, ch.m, ch.label, ch.inDomain || os.Getenv("VERIF_C17_ALL") == "1", a, b)
		if r.Chance(1, 8) {
			addV1HostileCase(run, ch.m, ch.label, a, b, r, cfg)
		}
	}
}

func addC17Case(run *Run, m V1Meta, label string, inDomain bool, a, b *Val) {
	aw, bw, mw := a.Wire(), b.Wire(), m.Wire()
	dw, outcome, eqRB, pmsg := implV1DiffPatch(m, aw, bw)
	eqAB := implV1Equals(m, aw, bw)
	dom := "in"
	if !inDomain {
		dom = "out"
	}
	c := Case{Recipe: Recipe{"c17", []string{mw, aw, bw, dom}}, Desc: map[string]string{"api": "v1 (github.com/josephburnett/jd/lib)", "metadata": m.Name(), "a": a.Human(), "b": b.Human(), "a_wire": aw, "b_wire": bw, "meta_wire": mw, "impl_diff": dw, "impl_patch": outcome, "impl_equals_ab": eqAB, "domain": dom}}
	if pmsg != "" {
		c.Desc["impl_panic"] = pmsg
	}
	c.Nontrivial = hunkCount(dw) > 0
	c.Sig = mw + "|" + aw + "|" + bw
	c.Probes = append(c.Probes,
		Probe{Kind: "corr", Rel: "v1 Diff;Patch = V1.diffM;V1.patchM", Line: fmt.Sprintf("v1diffpatch %s %s %s", mw, aw, bw), Want: dw + " " + outcome},
		Probe{Kind: "corr", Rel: "v1 Equals = V1.equals", Line: fmt.Sprintf("v1equals %s %s %s", mw, aw, bw), Want: eqAB},
		Probe{Kind: "corr", Rel: "v1 hashCode = V1.hashCode (via hook)", Line: fmt.Sprintf("v1hash %s %s", mw, aw), Want: implV1Hash(m, aw)},
		Probe{Kind: "corr", Rel: "v1 hashCode = V1.hashCode (via hook)", Line: fmt.Sprintf("v1hash %s %s", mw, bw), Want: implV1Hash(m, bw)},
	)
	// Patch of the wire-decoded diff on a fresh a (no sharing between diff and document) must agree too
	if dw != "panic" {
		c.Probes = append(c.Probes, Probe{Kind: "corr", Rel: "v1 Patch (fresh values) = V1.patchM", Line: fmt.Sprintf("v1patch %s %s", aw, dw), Want: implV1Patch(aw, dw)})
	}
	if inDomain {
		diffEmpty := strings.TrimSpace(dw) == "< >"
		c.Probes = append(c.Probes, Probe{Kind: "oracle", Rel: "C17 v1: patch(a,diff(a,b)) ≈ b and (diff empty ⇔ Equals) (impl outputs, spec Equiv)",
			Line: fmt.Sprintf("c17 %s %s %s %s %s %s %s", mw, aw, bw, boolWire(eqRB), outcome, boolWire(diffEmpty), eqAB)})
	}
	run.Count("meta:" + label)
	run.Count("hunks:" + sizeBucket(hunkCount(dw)))
	run.Count("size_a:" + sizeBucket(a.Size()))
	run.Count("impl_patch:" + strings.Fields(outcome + " ?")[0])
	if a.K == KArr && b.K == KArr {
		switch {
		case len(a.A) < len(b.A):
			run.Count("root_array:grows")
		case len(a.A) > len(b.A):
			run.Count("root_array:shrinks")
		default:
			run.Count("root_array:same_length")
		}
	}
	run.Add(c)
}

// ---- hostile patches: the library's own diff, damaged, applied to a / b / another document.
// Correspondence only (v1 Patch = V1.patchM, including errors and panics).

type v1HunkWire struct{ path, old, new []string }

func splitV1Diff(dw string) []v1HunkWire {
	toks := strings.Fields(dw)
	out := []v1HunkWire{}
	i := 1
	for i < len(toks) && toks[i] == "(" {
		i++
		secs := [][]string{{}, {}, {}}
		sec, depth := 0, 0
		for i < len(toks) {
			t := toks[i]
			i++
			if depth == 0 && t == "|" {
				sec++
				continue
			}
			if depth == 0 && t == ")" {
				break
			}
			if strings.HasPrefix(t, "[") || t == "{" {
				depth++
			}
			if t == "]" || t == "}" {
				depth--
			}
			secs[sec] = append(secs[sec], t)
		}
		out = append(out, v1HunkWire{secs[0], secs[1], secs[2]})
	}
	return out
}

func joinV1Diff(hs []v1HunkWire) string {
	var b strings.Builder
	b.WriteString("<")
	for _, h := range hs {
		b.WriteString(" (")
		for _, sec := range [][]string{h.path, h.old, h.new} {
			for _, t := range sec {
				b.WriteString(" " + t)
			}
			b.WriteString(" |")
		}
		b.WriteString(")")
	}
	b.WriteString(" >")
	return strings.ReplaceAll(b.String(), " |)", " )")
}

func mutateV1Diff(r *Rng, dw string, cfg GenCfg) string {
	hs := splitV1Diff(dw)
	if len(hs) == 0 {
		// make one up
		return "< ( " + VNum(float64(r.Intn(3)-1)).Wire() + " | | " + cfg.scalar(r).Wire() + " ) >"
	}
	k := r.Intn(len(hs))
	h := &hs[k]
	idxs := []float64{-1, -2, 0, 1, 2, 5, 1.5, 1e30}
	switch r.Intn(9) {
	case 0, 1, 2: // change a top-level number (index) of the path
		depth := 0
		cands := []int{}
		for i, t := range h.path {
			if depth == 0 && strings.HasPrefix(t, "#") {
				cands = append(cands, i)
			}
			if strings.HasPrefix(t, "[") || t == "{" {
				depth++
			}
			if t == "]" || t == "}" {
				depth--
			}
		}
		if len(cands) > 0 {
			h.path[cands[r.Intn(len(cands))]] = VNum(idxs[r.Intn(len(idxs))]).Wire()
		} else {
			h.path = append(h.path, VNum(idxs[r.Intn(len(idxs))]).Wire())
		}
	case 3: // swap old and new
		h.old, h.new = h.new, h.old
	case 4: // drop the hunk
		hs = append(hs[:k], hs[k+1:]...)
	case 5: // duplicate the hunk
		hs = append(hs[:k+1], hs[k:]...)
	case 6: // drop old values / add an extra new value
		if r.Chance(1, 2) {
			h.old = nil
		} else {
			h.new = append(h.new, cfg.scalar(r).Wire())
		}
	case 7: // truncate or extend the path
		if len(h.path) > 0 && r.Chance(1, 2) {
			// drop the last top-level element
			depth, start := 0, len(h.path)-1
			for i := len(h.path) - 1; i >= 0; i-- {
				t := h.path[i]
				if t == "]" || t == "}" {
					depth++
				}
				if strings.HasPrefix(t, "[") || t == "{" {
					depth--
				}
				if depth == 0 {
					start = i
					break
				}
			}
			h.path = h.path[:start]
		} else {
			ext := []string{VStr("a").Wire(), VNum(0).Wire(), "{ }", "[r \"" + hexStr("set") + " ] { }", "[r \"" + hexStr("multiset") + " ] { }", "[r \"" + hexStr("MERGE") + " ]"}
			e := strings.Fields(ext[r.Intn(len(ext))])
			if r.Chance(1, 2) {
				h.path = append(e, h.path...)
			} else {
				h.path = append(h.path, e...)
			}
		}
	default: // reverse the hunk order
		for i, j := 0, len(hs)-1; i < j; i, j = i+1, j-1 {
			hs[i], hs[j] = hs[j], hs[i]
		}
	}
	return joinV1Diff(hs)
}

func addV1HostileCase(run *Run, m V1Meta, label string, a, b *Val, r *Rng, cfg GenCfg) {
	aw, bw := a.Wire(), b.Wire()
	dw := implV1Diff(m, aw, bw)
	if dw == "panic" {
		return
	}
	mut := mutateV1Diff(r, dw, cfg)
	target := aw
	switch r.Intn(4) {
	case 0:
		target = bw
	case 1:
		target = cfg.Doc(r, 0).Wire()
	}
	addV1PatchCase(run, label, target, mut)
}

func addV1PatchCase(run *Run, label, nw, dw string) {
	out := implV1Patch(nw, dw)
	c := Case{Recipe: Recipe{"c17patch", []string{nw, dw}}, Desc: map[string]string{"api": "v1 (github.com/josephburnett/jd/lib)", "node_wire": nw, "diff_wire": dw, "impl_patch": out, "domain": "out"}}
	c.Sig = nw + "|" + dw
	c.Nontrivial = true
	c.Probes = append(c.Probes, Probe{Kind: "corr", Rel: "v1 Patch (damaged diff) = V1.patchM", Line: fmt.Sprintf("v1patch %s %s", nw, dw), Want: out})
	run.Count("meta:x:hostile-patch " + label)
	run.Count("hostile_patch:" + strings.Fields(out + " ?")[0])
	run.Add(c)
}

func init() {
	recipes["c17patch"] = func(run *Run, a []string) { addV1PatchCase(run, "corpus", a[0], a[1]) }
	props["C17"] = propC17
	quickN["C17"] = 4000
	thoroughN["C17"] = 150000
	recipes["c17"] = func(run *Run, a []string) {
		m, err := ParseV1Meta(a[0])
		if err != nil {
			panic(err)
		}
		addC17Case(run, m, "corpus", len(a) < 4 || a[3] != "out", mustVal(a[1]), mustVal(a[2]))
	}
}
