package main

import (
	"encoding/json"
	"fmt"
	"os"
	"sort"
	"strings"

	jd1 "github.com/josephburnett/jd/lib"
)

// ---------------------------------------------------------------------------------------------
// C17 — v1 API (package lib): Patch(a, Diff(a, b, meta)) Equals b, directly (in-memory half: Diff /
// Patch / Equals / hashCode) or after Render and ReadDiffString (text half), and the diff is empty
// exactly when Equals holds.

type v1Choice struct {
	m     V1Meta
	cfg   func() GenCfg
	label string
	// inDomain: the metadata choice is one of those quantified over by C17; the other profiles are
	// correspondence-only (model = implementation), the oracle is not asked
	inDomain bool
}

func v1Keys(keys ...string) OptItem { return OptItem{Kind: "K", Keys: keys} }

func v1Choices() []v1Choice {
	def := func() GenCfg { return DefaultCfg() }
	nasty := func() GenCfg { return NastyCfg() }
	nonull := func() GenCfg { c := DefaultCfg(); c.AllowNull = false; return c }
	keyed := func(keys ...string) func() GenCfg {
		return func() GenCfg {
			c := DefaultCfg()
			c.SetKeys = keys
			c.Keys = []string{"a", "b", "id", "k", "x"}
			return c
		}
	}
	precCfg := func() GenCfg {
		c := DefaultCfg()
		c.Nums = []float64{1, 1.00001, 1.0005, 1.4, 1.5, 2, 0, 100, 100.0004}
		return c
	}
	S, B, M := OptItem{Kind: "S"}, OptItem{Kind: "B"}, OptItem{Kind: "M"}
	P := func(eps float64) OptItem { return OptItem{Kind: "P", Prec: eps} }
	return []v1Choice{
		{V1Meta{}, def, "none", true},
		{V1Meta{}, nasty, "none-nasty", true},
		{V1Meta{P(0)}, def, "SetPrecision(0) [CLI default]", true},
		{V1Meta{S}, def, "SET", true},
		{V1Meta{S}, nasty, "SET-nasty", true},
		{V1Meta{B}, def, "MULTISET", true},
		{V1Meta{B}, nasty, "MULTISET-nasty", true},
		// jd -set -setkeys id: the CLI passes SET, Setkeys(id), SetPrecision(0)
		{V1Meta{S, v1Keys("id"), P(0)}, keyed("id"), "SET+Setkeys(id)", true},
		{V1Meta{S, v1Keys("id", "k")}, keyed("id", "k"), "SET+Setkeys(id,k)", true},
		// jd -setkeys id alone: Setkeys without SET leaves arrays as lists in v1
		{V1Meta{v1Keys("id")}, keyed("id"), "Setkeys(id) alone", true},
		{V1Meta{M}, nonull, "MERGE", true},
		{V1Meta{M, P(0)}, nonull, "MERGE+SetPrecision(0) [CLI]", true},
		{V1Meta{P(0.001)}, precCfg, "SetPrecision(0.001)", true},
		{V1Meta{P(0.5)}, precCfg, "SetPrecision(0.5)", true},
		// outside the quantifier of C17: correspondence only
		{V1Meta{S, M}, nonull, "x:SET+MERGE", false},
		{V1Meta{B, M}, nonull, "x:MULTISET+MERGE", false},
		{V1Meta{S, v1Keys("id"), M}, func() GenCfg { c := keyed("id")(); c.AllowNull = false; return c }, "x:SET+Setkeys(id)+MERGE", false},
		{V1Meta{B, S}, def, "MULTISET+SET (both options: the set reading wins)", true},
		{V1Meta{M, P(0.001)}, func() GenCfg { c := precCfg(); c.AllowNull = false; return c }, "x:MERGE+SetPrecision(0.001)", false},
	}
}

func propC17(run *Run, n int) {
	run.rule = "v1 (package lib): random (a, b=mutation of a; arrays growing, shrinking, changing in place) x v1 metadata {none, SET, MULTISET, SET+Setkeys, Setkeys alone, MERGE (null-free), SetPrecision} plus out-of-domain combinations checked for correspondence only; every case both on the in-memory diff and on the diff after Render and ReadDiffString; plus damaged diffs and hand-written diff texts (correspondence only); non-trivial = the diff has at least one hunk; distinct = distinct (metadata, a, b)"
	r := NewRng(run.Seed)
	choices := v1Choices()
	for _, dw := range v1RenderSpecials {
		addV1RenderCase(run, "special", dw)
	}
	// long lines through the v1 text leg (Render, ReadDiffString): a value whose JSON text is just below / at / above
	// 64 KiB (the default token limit of bufio.Scanner), followed by a second hunk
	for _, size := range []int{65531, 65536, 70000} {
		long := VStr(strings.Repeat("x", size))
		for _, ch := range choices {
			if !ch.inDomain || ch.m.Has("P") {
				continue
			}
			a, b := VObj("a", VStr("short"), "b", VNum(1)), VObj("a", long, "b", VNum(2))
			if size == 65536 {
				a, b = VObj("a", VArr(long, VNum(1)), "b", VNum(1)), VObj("a", VArr(long, VNum(2)), "b", VNum(2))
			}
			run.Count("long-line")
			addC17Case(run, ch.m, ch.label+"-long-line", true, a, b)
			break
		}
	}
	// SET + Setkeys(id,k): a member carrying SOME of the set keys changes in two fields (two hunks below one keyed path
	// element), in memory and through the text
	for _, ch := range choices {
		if !ch.inDomain || !ch.m.Has("K") || !ch.m.Has("S") || len(OptSet(ch.m).KeysOf()) < 2 {
			continue
		}
		ks := OptSet(ch.m).KeysOf()
		a := VArr(VObj(ks[0], VNum(1), "v", VNum(1), "w", VNum(1)), VObj(ks[0], VNum(2), ks[1], VNum(2), "v", VNum(0)))
		b := VArr(VObj(ks[0], VNum(1), "v", VNum(2), "w", VNum(2)), VObj(ks[0], VNum(2), ks[1], VNum(2), "v", VNum(0)))
		run.Count("v1:partial-key-member-two-changes")
		addC17Case(run, ch.m, ch.label+"-partial-key", true, a, b)
		break
	}
	// set readings: a member whose VALUES are permuted among its keys (or a key swapped with its string value) is another
	// member — fixed cases for every in-domain set / multiset metadata
	for _, ch := range choices {
		if !ch.inDomain || !(ch.m.Has("S") || ch.m.Has("B")) || ch.m.Has("K") || ch.m.Has("P") {
			continue
		}
		for _, pr := range [][2]*Val{
			{VArr(VObj("x", VNum(1), "y", VNum(2))), VArr(VObj("x", VNum(2), "y", VNum(1)))},
			{VArr(VObj("x", VStr("y"), "z", VNum(0))), VArr(VObj("y", VStr("x"), "z", VNum(0)))},
			{VObj("k", VArr(VNum(0), VObj("a", VStr("b"), "b", VStr("a")))), VObj("k", VArr(VObj("a", VStr("a"), "b", VStr("b")), VNum(0)))},
		} {
			run.Count("v1:values-permuted-among-keys")
			addC17Case(run, ch.m, ch.label+"-permuted-values", true, pr[0], pr[1])
		}
		// a changed set below a chain of objects (path lengths 1 … 13: slices with spare capacity) with a LATER sibling key
		for _, depth := range []int{1, 3, 5, 6, 9, 11, 13} {
			leafA := VObj("x", VArr(VNum(1), VNum(2)), "y", VArr(VNum(3), VNum(4)), "z", VNum(0))
			leafB := VObj("x", VArr(VNum(1), VNum(5)), "y", VArr(VNum(3), VNum(4)), "z", VNum(1))
			a, b := leafA, leafB
			for k := depth - 1; k >= 0; k-- {
				key := string(rune('a' + k%20))
				a, b = VObj(key, a), VObj(key, b)
			}
			run.Count("v1:set-below-chain-with-later-sibling")
			addC17Case(run, ch.m, ch.label+"-deep-sibling", true, a, b)
		}
	}
	for i := 0; i < n; i++ {
		ch := choices[r.Intn(len(choices))]
		cfg := ch.cfg()
		var a, b *Val
		switch r.Intn(8) {
		case 0: // arrays at the root: growing / shrinking / changing in place
			a = cfg.Arr(r, 0)
			b = cfg.Mutate(r, a, 4)
		case 1: // same length, changed in place
			a = cfg.Arr(r, 0)
			b = a.Clone()
			for j := range b.A {
				if r.Chance(1, 2) {
					b.A[j] = cfg.elemFor(r, b, 0)
				}
			}
			if len(cfg.SetKeys) > 0 {
				b = cfg.fixKeyed(b)
			}
		case 2: // pure growth / pure shrink of a tail
			a = cfg.Arr(r, 0)
			b = a.Clone()
			if r.Chance(1, 2) {
				k := 1 + r.Intn(3)
				for j := 0; j < k; j++ {
					b.A = append(b.A, cfg.elemFor(r, b, 0))
				}
				if len(cfg.SetKeys) > 0 {
					b = cfg.fixKeyed(b)
				}
			} else if len(b.A) > 0 {
				b.A = b.A[:r.Intn(len(b.A))]
			}
			if r.Chance(1, 2) {
				a, b = VObj("k", a), VObj("k", b)
			}
		case 3: // deep chains to an edited leaf object (paths of length 3..7: slices with spare capacity)
			if len(cfg.SetKeys) == 0 {
				a, b = cfg.ChainPair(r, true)
			} else {
				a, b = cfg.Pair(r)
			}
		default:
			a, b = cfg.Pair(r)
		}
		if len(cfg.SetKeys) > 0 && r.Chance(1, 5) {
			// a keyed member changes in one, two or three non-key fields (several hunks under one keyed path element)
			a = cfg.Arr(r, 0)
			if r.Chance(1, 3) {
				// one member that carries NONE of the set keys (its path object is the whole member)
				for _, e := range a.A {
					if e.K == KObj {
						for _, k := range cfg.SetKeys {
							delete(e.O, k)
						}
						e.O["a"] = VNum(1)
						e.O["b"] = VNum(1)
						run.Count("v1:keyless-member")
						break
					}
				}
			}
			b = a.Clone()
			for _, e := range b.A {
				if e.K != KObj || r.Chance(1, 3) {
					continue
				}
				for j := 1 + r.Intn(3); j > 0; j-- {
					k := cfg.Keys[r.Intn(len(cfg.Keys))]
					if isIn(k, cfg.SetKeys) {
						continue
					}
					if _, has := e.O[k]; has && r.Chance(1, 4) {
						delete(e.O, k)
					} else {
						e.O[k] = cfg.Doc(r, 2)
					}
				}
			}
			if r.Chance(1, 3) {
				a, b = VObj("k", a), VObj("k", b)
			}
		}
		if ch.m.Has("P") && ch.m[len(ch.m)-1].Prec > 0 && r.Chance(1, 3) {
			b = a.Clone()
			jitter(r, b)
		}
		if !ch.m.Has("M") {
			a, b = withVoid(r, a, b)
		}
		// VERIF_C17_ALL=1: ask the oracle on the out-of-domain metadata combinations too (exploration)
		addC17Case(run, ch.m, ch.label, ch.inDomain || os.Getenv("VERIF_C17_ALL") == "1", a, b)
		if r.Chance(1, 8) {
			addV1HostileCase(run, ch.m, ch.label, a, b, r, cfg)
		}
		if r.Chance(1, 16) {
			addV1ReadDiffCase(run, malformedV1DiffText(r))
		}
	}
}

func addC17Case(run *Run, m V1Meta, label string, inDomain bool, a, b *Val) {
	aw, bw, mw := a.Wire(), b.Wire(), m.Wire()
	dw, outcome, eqRB, pmsg := implV1DiffPatch(m, aw, bw)
	eqAB := implV1Equals(m, aw, bw)
	dom := "in"
	if !inDomain {
		dom = "out"
	}
	c := Case{Recipe: Recipe{"c17", []string{mw, aw, bw, dom}}, Desc: map[string]string{"api": "v1 (github.com/josephburnett/jd/lib)", "metadata": m.Name(), "a": a.Human(), "b": b.Human(), "a_wire": aw, "b_wire": bw, "meta_wire": mw, "impl_diff": dw, "impl_patch": outcome, "impl_equals_ab": eqAB, "domain": dom}}
	if pmsg != "" {
		c.Desc["impl_panic"] = pmsg
	}
	c.Nontrivial = hunkCount(dw) > 0
	c.Sig = mw + "|" + aw + "|" + bw
	c.Probes = append(c.Probes,
		Probe{Kind: "corr", Rel: "v1 Diff;Patch = V1.diffM;V1.patchM", Line: fmt.Sprintf("v1diffpatch %s %s %s", mw, aw, bw), Want: dw + " " + outcome},
		Probe{Kind: "corr", Rel: "v1 Equals = V1.equals", Line: fmt.Sprintf("v1equals %s %s %s", mw, aw, bw), Want: eqAB},
		Probe{Kind: "corr", Rel: "v1 hashCode = V1.hashCode (via hook)", Line: fmt.Sprintf("v1hash %s %s", mw, aw), Want: implV1Hash(m, aw)},
		Probe{Kind: "corr", Rel: "v1 hashCode = V1.hashCode (via hook)", Line: fmt.Sprintf("v1hash %s %s", mw, bw), Want: implV1Hash(m, bw)},
	)
	// Patch of the wire-decoded diff on a fresh a (no sharing between diff and document) must agree too
	if dw != "panic" {
		c.Probes = append(c.Probes, Probe{Kind: "corr", Rel: "v1 Patch (fresh values) = V1.patchM", Line: fmt.Sprintf("v1patch %s %s", aw, dw), Want: implV1Patch(aw, dw)})
	}
	if inDomain {
		diffEmpty := strings.TrimSpace(dw) == "< >"
		c.Probes = append(c.Probes, Probe{Kind: "oracle", Rel: "C17 v1: patch(a,diff(a,b)) ≈ b and (diff empty ⇔ Equals) (impl outputs, spec Equiv)",
			Line: fmt.Sprintf("c17 %s %s %s %s %s %s %s", mw, aw, bw, boolWire(eqRB), outcome, boolWire(diffEmpty), eqAB)})
	}
	if dw != "panic" {
		addC17TextHalf(run, &c, m, inDomain, strings.HasPrefix(outcome, "ok ") && eqRB, aw, bw, dw)
	}
	run.Count("meta:" + label)
	run.Count("hunks:" + sizeBucket(hunkCount(dw)))
	run.Count("size_a:" + sizeBucket(a.Size()))
	run.Count("impl_patch:" + strings.Fields(outcome + " ?")[0])
	if a.K == KArr && b.K == KArr {
		switch {
		case len(a.A) < len(b.A):
			run.Count("root_array:grows")
		case len(a.A) > len(b.A):
			run.Count("root_array:shrinks")
		default:
			run.Count("root_array:same_length")
		}
	}
	run.Add(c)
}

// addC17TextHalf: the same case through the native text format. Correspondence of Render and
// ReadDiffString on the diff, of Patch on the re-read diff, and the property itself.
// memOK: the in-memory half held on this case (Patch succeeded and its result Equals b).
func addC17TextHalf(run *Run, c *Case, m V1Meta, inDomain, memOK bool, aw, bw, dw string) {
	mw := m.Wire()
	th := implV1TextHalf(m, aw, bw)
	c.Desc["impl_render"] = th.text
	c.Desc["impl_text_patch"] = th.patch
	if th.pmsg != "" {
		c.Desc["impl_text_panic"] = th.pmsg
	}
	nd := numDict([]string{dw, aw, bw}, []string{th.text})
	c.Probes = append(c.Probes,
		Probe{Kind: "corr", Rel: "v1 Diff.Render = V1.renderM", Line: fmt.Sprintf("v1render %s %s", nd, dw), Want: th.render},
		Probe{Kind: "corr", Rel: "v1 Diff.Render(COLOR) = V1.renderM", Line: fmt.Sprintf("v1renderc %s %s", nd, dw), Want: implV1Render(dw, true)},
	)
	if th.render == "panic" {
		run.Count("text_half:render-panics")
		if inDomain {
			c.Probes = append(c.Probes, Probe{Kind: "direct", Rel: "C17 v1 text half: patch(a, ReadDiffString(Render(diff(a,b)))) Equals b", Want: "fail Render panicked: " + th.pmsg})
		}
		return
	}
	c.Probes = append(c.Probes, Probe{Kind: "corr", Rel: "v1 ReadDiffString = V1.readDiffM", Line: fmt.Sprintf("v1readdiff %s %s", nd, textWire(th.text)), Want: th.read})
	if strings.HasPrefix(th.read, "ok ") {
		c.Probes = append(c.Probes, Probe{Kind: "corr", Rel: "v1 Patch (diff re-read from text) = V1.patchM", Line: fmt.Sprintf("v1patch %s %s", aw, th.read[3:]), Want: th.patch})
	}
	run.Count("text_half:patch-" + strings.Fields(th.patch + " ?")[0])
	if !inDomain {
		return
	}
	rel := "C17 v1 text half: patch(a, ReadDiffString(Render(diff(a,b)))) Equals b"
	switch {
	case strings.HasPrefix(th.patch, "ok ") && th.equalsB:
		c.Probes = append(c.Probes, Probe{Kind: "direct", Rel: rel, Want: "ok"})
	case th.patch == "panic" || th.read == "panic":
		c.Probes = append(c.Probes, Probe{Kind: "direct", Rel: rel, Want: "fail panic: " + th.pmsg})
	default:
		what := "after Render and ReadDiffString the patched document does not Equal b"
		if !strings.HasPrefix(th.read, "ok ") {
			what = "the rendered diff cannot be read back"
		} else if !strings.HasPrefix(th.patch, "ok ") {
			what = "after Render and ReadDiffString, Patch returns an error on the library's own diff"
		}
		_ = what
		if memOK && v1KeyedPathClass(m, dw) && strings.HasPrefix(th.read, "ok ") {
			run.Count("text_half:keyedpath-shape")
		}
		{
			// not in the keyed-path class, or the in-memory half fails too: the class predicates of the
			// driver decide (hash aliases, -0, precision, Setkeys precondition, then the keyed-path class)
			c.Probes = append(c.Probes,
				Probe{Kind: "oracle", Rel: rel + " — failure outside the keyed-path class, classified by the driver (hash aliases, -0, precision, Setkeys precondition)", Line: fmt.Sprintf("c17t %s %s %s %s %s", mw, aw, bw, th.patch, boolWire(th.equalsB))})
			run.Count("text_half:failure-classified-by-driver")
		}
	}
}

// v1KeyedPathClass is the class predicate of KF-C17-keyedpath on the implementation's diff: SET + Setkeys
// metadata, and two or more hunks lie under the same keyed path element (a member object followed
// by a field that is not a set key), i.e. some keyed member changes in two or more places.
func v1KeyedPathClass(m V1Meta, dw string) bool {
	if !m.Has("S") || !m.Has("K") {
		return false
	}
	var setKeys []string
	for _, it := range m {
		if it.Kind == "K" {
			setKeys = it.Keys
			break
		}
	}
	count := map[string]int{}
	for _, h := range splitV1Diff(dw) {
		seen := map[string]bool{}
		depth := 0
		for i, t := range h.path {
			if strings.HasPrefix(t, "[") || t == "{" {
				depth++
			}
			if t == "]" || t == "}" {
				depth--
				if depth == 0 && t == "}" && i+1 < len(h.path) {
					// a top-level object element that closes here and is followed by more path
					j := i
					d2 := 0
					for ; j >= 0; j-- {
						if h.path[j] == "}" || h.path[j] == "]" {
							d2++
						}
						if strings.HasPrefix(h.path[j], "[") || h.path[j] == "{" {
							d2--
						}
						if d2 == 0 {
							break
						}
					}
					if j >= 0 && h.path[j] == "{" && strings.HasPrefix(h.path[i+1], "\"") {
						if kb, err := hexDecode(h.path[i+1][1:]); err == nil && !isIn(string(kb), setKeys) {
							seen[strings.Join(h.path[:i+1], " ")] = true
						}
					}
				}
			}
		}
		for k := range seen {
			count[k]++
		}
	}
	for _, n := range count {
		if n >= 2 {
			return true
		}
	}
	return false
}

// ---- hand-written diff texts for the four-state reader (correspondence only)

func malformedV1DiffText(r *Rng) string {
	lines := []string{"@ [0]", "@ [\"a\"]", "@ []", "@ [{}]", "@ [[\"set\"],{}]", "@ [[\"multiset\"],{}]", "@ [[\"MERGE\"],\"a\"]", "@ [[\"set\",\"setkeys=id\"],{\"id\":1},\"x\"]",
		"@ [[1,2]]", "@ [true]", "@ 5", "@", "@ ", "@ {}", "@ [1.5]", "@ [-1]", "@ [1e300]", "@ [null]", "@[\"a\"]",
		"- 1", "+ 2", "-", "+", "- ", "+ ", "  3", " ", "- {", "+ [1,", "x", "é", "", "- \"a\"", "+ \"b\"", "- 1 2", "-1", "+[1]", "- {}", "+ {}", "- null", "+ [1,[2]]",
		"^ {\"Merge\":true}", "[", "]", "- 3\r", "+\t4"}
	out := []string{}
	if r.Chance(1, 2) {
		// mostly well-formed: elements of "@ path, - values, + values", now and then a stray line
		paths := []string{"@ [0]", "@ [\"a\"]", "@ []", "@ [{}]", "@ [[\"set\"],{}]", "@ [[\"multiset\"],{}]", "@ [[\"MERGE\"],\"a\"]", "@ [[\"MERGE\"]]", "@ [\"a\",{}]", "@ [\"a\",[\"set\"],{\"id\":1},\"x\"]", "@ [-1]", "@[1,\"b\"]", "@ [ \"a\" , 2 ]\r"}
		vals := []string{" 1", " 2", " \"a\"", " null", " {}", " []", " [1,[2]]", " {\"a\":{\"b\":[1]}}", "", " ", " true", "1", " 1.5e3", " -0"}
		for e := 1 + r.Intn(3); e > 0; e-- {
			out = append(out, paths[r.Intn(len(paths))])
			for j := r.Intn(3); j > 0; j-- {
				out = append(out, "-"+vals[r.Intn(len(vals))])
			}
			for j := r.Intn(3); j > 0; j-- {
				out = append(out, "+"+vals[r.Intn(len(vals))])
			}
			if r.Chance(1, 8) {
				out = append(out, lines[r.Intn(len(lines))])
			}
			if r.Chance(1, 4) {
				out = append(out, "")
			}
		}
	} else {
		for k := 1 + r.Intn(7); k > 0; k-- {
			out = append(out, lines[r.Intn(len(lines))])
		}
	}
	s := strings.Join(out, "\n")
	if r.Chance(1, 2) {
		s += "\n"
	}
	return s
}

// ---- renderers on arbitrary diffs (damaged diffs, typed values, nil metadata): correspondence only

var v1RenderSpecials = []string{
	// nil left in a metadata array by prependMetadataMerge: Render dereferences it
	"< ( [r \"736574 NIL ] { } | | #3ff0000000000000 ) >",
	"< ( \"61 | #3ff0000000000000 | #4000000000000000 ) ( [r \"736574 \"7365746b6579733d6964 NIL ] { \"6964 #3ff0000000000000 } \"78 | | #4000000000000000 ) >",
	// typed arrays as values: stored order; inside an object: Json() order of the object
	"< ( \"61 | [s #4000000000000000 #3ff0000000000000 #4000000000000000 ] | [m #4000000000000000 #3ff0000000000000 ] ) >",
	"< ( \"61 | { \"6b [s #4000000000000000 #3ff0000000000000 #4000000000000000 \"61 ] } | [l [s \"62 \"61 \"62 ] { \"6b [s T F T ] } ] ) >",
	// merge hunks: void new value prints a bare +
	"< ( [r \"4d45524745 ] \"61 | | V ) ( [r \"4d45524745 ] \"62 \"63 | | { } ) >",
	"< ( [r ] [r \"4d45524745 ] \"61 | | V ) >",
	"< ( \"61 [r \"4d45524745 ] | | V ) >",
	"< ( \"61 | V | V ) >",
	// jsonStringOrInteger tokens, odd path elements
	"< ( SORI\"30 SORI\"2d31 \"61 | #3ff0000000000000 | ) ( SORI\"3031 | | N ) >",
	"< ( V N T #bff0000000000000 #3ff8000000000000 \"2d | | #3ff0000000000000 ) >",
	"< ( \"2d | | #3ff0000000000000 ) >",
	"< ( #bff0000000000000 | | #3ff0000000000000 ) ( \"612f62 \"6d7e6e \" \"7e31 | \"3c3e | ) >",
	"< ( [s \"61 ] | | #3ff0000000000000 ) ( { \"6b [s #4000000000000000 #3ff0000000000000 ] } \"61 | | #3ff0000000000000 ) >",
	"< ( [r \"4d45524745 \"736574 ] \"61 | | #3ff0000000000000 ) ( [l \"4d45524745 ] \"61 | | #3ff0000000000000 ) >",
	"< ( [r \"4d45524745 ] | | N ) >",
	"< ( [r \"4d45524745 ] | | V ) >",
	"< ( [r \"4d45524745 ] SORI\"30 | | #3ff0000000000000 ) >",
	"< ( [r \"4d45524745 ] \"61 SORI\"30 | | #3ff0000000000000 ) ( [r \"4d45524745 ] \"61 SORI\"31 \"62 | | #3ff0000000000000 ) >",
	"< ( | | ) >",
	"< ( \"61 | #3ff0000000000000 #4000000000000000 | ) >",
	"< >",
}

func addV1RenderCase(run *Run, label, dw string) {
	native := implV1Render(dw, false)
	ntext, okNative := outcomeText(native)
	ptxt := implV1RenderPatch(dw)
	ptext, _ := outcomeText(ptxt)
	mtxt := implV1RenderMerge(dw)
	mtext, _ := outcomeText(mtxt)
	c := Case{Recipe: Recipe{"c17render", []string{dw}}, Desc: map[string]string{"api": "v1 (github.com/josephburnett/jd/lib)", "kind": "renderers on an arbitrary diff", "diff_wire": dw, "impl_render": native, "impl_render_patch": ptxt, "impl_render_merge": mtxt, "domain": "out"}}
	c.Sig = "render|" + dw
	c.Nontrivial = true
	nd := numDict([]string{dw}, []string{ntext, ptext, mtext})
	c.Probes = append(c.Probes,
		Probe{Kind: "corr", Rel: "v1 Diff.Render = V1.renderM (arbitrary diff)", Line: fmt.Sprintf("v1render %s %s", nd, dw), Want: native},
		Probe{Kind: "corr", Rel: "v1 Diff.Render(COLOR) = V1.renderM (arbitrary diff)", Line: fmt.Sprintf("v1renderc %s %s", nd, dw), Want: implV1Render(dw, true)},
		Probe{Kind: "corr", Rel: "v1 RenderPatch = V1.renderPatchM (arbitrary diff)", Line: fmt.Sprintf("v1renderpatch %s %s", nd, dw), Want: ptxt},
		Probe{Kind: "corr", Rel: "v1 RenderMerge = V1.renderMergeM (arbitrary diff)", Line: fmt.Sprintf("v1rendermerge %s %s", nd, dw), Want: mtxt},
	)
	if okNative {
		c.Probes = append(c.Probes, Probe{Kind: "corr", Rel: "v1 ReadDiffString = V1.readDiffM (text of an arbitrary diff)", Line: fmt.Sprintf("v1readdiff %s %s", nd, textWire(ntext)), Want: implV1ReadDiff(ntext)})
	}
	run.Count("meta:x:render-arbitrary " + label)
	run.Count("render_arbitrary:native-" + strings.Fields(native + " ?")[0] + ",patch-" + strings.Fields(ptxt + " ?")[0] + ",merge-" + strings.Fields(mtxt + " ?")[0])
	run.Add(c)
}

func addV1ReadDiffCase(run *Run, text string) {
	rd := implV1ReadDiff(text)
	c := Case{Recipe: Recipe{"c17read", []string{text}}, Desc: map[string]string{"api": "v1 (github.com/josephburnett/jd/lib)", "kind": "hand-written diff text", "text": text, "impl_read": rd, "domain": "out"}}
	c.Sig = "text|" + text
	c.Nontrivial = true
	nd := numDict([]string{rd}, []string{text})
	c.Probes = append(c.Probes, Probe{Kind: "corr", Rel: "v1 ReadDiffString = V1.readDiffM (hand-written line sequences)", Line: fmt.Sprintf("v1readdiff %s %s", nd, textWire(text)), Want: rd})
	if strings.HasPrefix(rd, "ok ") {
		// what was read renders again, and the model agrees
		rw := implV1Render(rd[3:], false)
		t2, _ := outcomeText(rw)
		nd2 := numDict([]string{rd}, []string{text, t2})
		c.Probes = append(c.Probes, Probe{Kind: "corr", Rel: "v1 Diff.Render = V1.renderM (diff read from hand-written text)", Line: fmt.Sprintf("v1render %s %s", nd2, rd[3:]), Want: rw})
	}
	run.Count("meta:x:hand-written-text")
	run.Count("read_text:" + strings.Fields(rd + " ?")[0])
	run.Add(c)
}

// ---- hostile patches: the library's own diff, damaged, applied to a / b / another document.
// Correspondence only (v1 Patch = V1.patchM, including errors and panics).

type v1HunkWire struct{ path, old, new []string }

func splitV1Diff(dw string) []v1HunkWire {
	toks := strings.Fields(dw)
	out := []v1HunkWire{}
	i := 1
	for i < len(toks) && toks[i] == "(" {
		i++
		secs := [][]string{{}, {}, {}}
		sec, depth := 0, 0
		for i < len(toks) {
			t := toks[i]
			i++
			if depth == 0 && t == "|" {
				sec++
				continue
			}
			if depth == 0 && t == ")" {
				break
			}
			if strings.HasPrefix(t, "[") || t == "{" {
				depth++
			}
			if t == "]" || t == "}" {
				depth--
			}
			secs[sec] = append(secs[sec], t)
		}
		out = append(out, v1HunkWire{secs[0], secs[1], secs[2]})
	}
	return out
}

func joinV1Diff(hs []v1HunkWire) string {
	var b strings.Builder
	b.WriteString("<")
	for _, h := range hs {
		b.WriteString(" (")
		for _, sec := range [][]string{h.path, h.old, h.new} {
			for _, t := range sec {
				b.WriteString(" " + t)
			}
			b.WriteString(" |")
		}
		b.WriteString(")")
	}
	b.WriteString(" >")
	return strings.ReplaceAll(b.String(), " |)", " )")
}

func mutateV1Diff(r *Rng, dw string, cfg GenCfg) string {
	hs := splitV1Diff(dw)
	if len(hs) == 0 {
		// make one up
		return "< ( " + VNum(float64(r.Intn(3)-1)).Wire() + " | | " + cfg.scalar(r).Wire() + " ) >"
	}
	k := r.Intn(len(hs))
	h := &hs[k]
	idxs := []float64{-1, -2, 0, 1, 2, 5, 1.5, 1e30}
	switch r.Intn(9) {
	case 0, 1, 2: // change a top-level number (index) of the path
		depth := 0
		cands := []int{}
		for i, t := range h.path {
			if depth == 0 && strings.HasPrefix(t, "#") {
				cands = append(cands, i)
			}
			if strings.HasPrefix(t, "[") || t == "{" {
				depth++
			}
			if t == "]" || t == "}" {
				depth--
			}
		}
		if len(cands) > 0 {
			h.path[cands[r.Intn(len(cands))]] = VNum(idxs[r.Intn(len(idxs))]).Wire()
		} else {
			h.path = append(h.path, VNum(idxs[r.Intn(len(idxs))]).Wire())
		}
	case 3: // swap old and new
		h.old, h.new = h.new, h.old
	case 4: // drop the hunk
		hs = append(hs[:k], hs[k+1:]...)
	case 5: // duplicate the hunk
		hs = append(hs[:k+1], hs[k:]...)
	case 6: // drop old values / add an extra new value
		if r.Chance(1, 2) {
			h.old = nil
		} else {
			h.new = append(h.new, cfg.scalar(r).Wire())
		}
	case 7: // truncate or extend the path
		if len(h.path) > 0 && r.Chance(1, 2) {
			// drop the last top-level element
			depth, start := 0, len(h.path)-1
			for i := len(h.path) - 1; i >= 0; i-- {
				t := h.path[i]
				if t == "]" || t == "}" {
					depth++
				}
				if strings.HasPrefix(t, "[") || t == "{" {
					depth--
				}
				if depth == 0 {
					start = i
					break
				}
			}
			h.path = h.path[:start]
		} else {
			ext := []string{VStr("a").Wire(), VNum(0).Wire(), "{ }", "[r \"" + hexStr("set") + " ] { }", "[r \"" + hexStr("multiset") + " ] { }", "[r \"" + hexStr("MERGE") + " ]"}
			e := strings.Fields(ext[r.Intn(len(ext))])
			if r.Chance(1, 2) {
				h.path = append(e, h.path...)
			} else {
				h.path = append(h.path, e...)
			}
		}
	default: // reverse the hunk order
		for i, j := 0, len(hs)-1; i < j; i, j = i+1, j-1 {
			hs[i], hs[j] = hs[j], hs[i]
		}
	}
	return joinV1Diff(hs)
}

func addV1HostileCase(run *Run, m V1Meta, label string, a, b *Val, r *Rng, cfg GenCfg) {
	aw, bw := a.Wire(), b.Wire()
	dw := implV1Diff(m, aw, bw)
	if dw == "panic" {
		return
	}
	mut := mutateV1Diff(r, dw, cfg)
	if r.Chance(1, 2) {
		addV1RenderCase(run, "damaged", mut)
	}
	target := aw
	switch r.Intn(4) {
	case 0:
		target = bw
	case 1:
		target = cfg.Doc(r, 0).Wire()
	}
	addV1PatchCase(run, label, target, mut)
}

func addV1PatchCase(run *Run, label, nw, dw string) {
	out := implV1Patch(nw, dw)
	c := Case{Recipe: Recipe{"c17patch", []string{nw, dw}}, Desc: map[string]string{"api": "v1 (github.com/josephburnett/jd/lib)", "node_wire": nw, "diff_wire": dw, "impl_patch": out, "domain": "out"}}
	c.Sig = nw + "|" + dw
	c.Nontrivial = true
	c.Probes = append(c.Probes, Probe{Kind: "corr", Rel: "v1 Patch (damaged diff) = V1.patchM", Line: fmt.Sprintf("v1patch %s %s", nw, dw), Want: out})
	run.Count("meta:x:hostile-patch " + label)
	run.Count("hostile_patch:" + strings.Fields(out + " ?")[0])
	run.Add(c)
}

// ---------------------------------------------------------------------------------------------
// C18 — v1 JSON Patch / JSON Merge Patch output: evaluated by independent RFC 6902 / RFC 7386
// implementations on a it yields b; read back with the v1 readers and applied to a it yields b.

var c18Keys = []string{"a", "b", "0", "1", "10", "01", "-1", "a/b", "m~n", "", "~1"}
var c18KeysMore = []string{"a", "0", "1", "2", "-0", "+1", "007", "9223372036854775807", "9223372036854775808", "1e3", "1.0", "٣", " 1", "~0", "~01", "/", "//", "~", "a~1b", "é", "<&>", "k", "a ", " ", "\t", "1 ", "\u00a0", "k\n", " a"}

func c18Cfg(r *Rng) GenCfg {
	cfg := DefaultCfg()
	cfg.ScalarBias = 4
	cfg.Keys = c18Keys
	cfg.MaxKeys = 4
	if r.Chance(1, 5) {
		cfg.Keys = c18KeysMore
	}
	if r.Chance(1, 4) {
		cfg.Strs = nastyStrs
	}
	if r.Chance(1, 5) {
		cfg.Nums = nastyNums
	}
	if r.Chance(1, 5) {
		d := DeepCfg()
		d.Keys, d.Strs, d.Nums = cfg.Keys, cfg.Strs, cfg.Nums
		return d
	}
	return cfg
}

func c18MergeMetas() []struct {
	m     V1Meta
	label string
} {
	S, B, M := OptItem{Kind: "S"}, OptItem{Kind: "B"}, OptItem{Kind: "M"}
	P0 := OptItem{Kind: "P", Prec: 0}
	return []struct {
		m     V1Meta
		label string
	}{
		{V1Meta{M}, "MERGE"},
		{V1Meta{M}, "MERGE"},
		{V1Meta{M, P0}, "MERGE+SetPrecision(0) [CLI]"},
		{V1Meta{S, M}, "SET+MERGE"},
		{V1Meta{B, M}, "MULTISET+MERGE"},
	}
}

// addC18ChainCase: merge round trips CHAINED on the same Go values inside one process (the document a
// Patch returned is patched again, below an object that came out of the merge-patch reader), followed by
// round trips on fresh documents and the no-op patch: a value shared between calls (a package-level
// empty object, a pooled buffer) shows here and nowhere else.
func addC18ChainCase(run *Run, r *Rng, cfg GenCfg) {
	key := cfg.Keys[r.Intn(len(cfg.Keys))]
	inner := cfg.Keys[r.Intn(len(cfg.Keys))]
	a0 := cfg.Obj(r, 1)
	a0.O[key] = VNum(1)
	b1 := a0.Clone()
	b1.O[key] = VObj()
	b2 := b1.Clone()
	b2.O[key] = VObj(inner, VNum(float64(1+r.Intn(3))))
	a3 := VObj(key, VNum(2))
	b3 := VObj(key, VObj())
	steps := [][2]string{{"", b1.Wire()}, {"", b2.Wire()}, {a3.Wire(), b3.Wire()}, {VObj("q", VArr(VNum(1))).Wire(), VObj("q", VObj()).Wire()}}
	c := Case{Recipe: Recipe{"c18chain", []string{a0.Wire(), b1.Wire(), b2.Wire(), a3.Wire(), b3.Wire()}}, Desc: map[string]string{"api": "v1", "a0": a0.Human(), "b1": b1.Human(), "b2": b2.Human()}}
	c.Nontrivial = true
	c.Sig = "chain|" + a0.Wire() + b2.Wire()
	verdict, _ := safely(func() string {
		cur := mustNodeV1(a0.Wire())
		for i, st := range steps {
			if st[0] != "" {
				cur = mustNodeV1(st[0])
			}
			b := mustNodeV1(st[1])
			d := cur.Diff(b, jd1.MERGE)
			txt, err := d.RenderMerge()
			if err != nil {
				return fmt.Sprintf("fail step %d: RenderMerge: %v", i+1, err)
			}
			d2, err := jd1.ReadMergeString(txt)
			if err != nil {
				return fmt.Sprintf("fail step %d: ReadMergeString(%s): %v", i+1, txt, err)
			}
			res, err := cur.Patch(d2)
			if err != nil {
				return fmt.Sprintf("fail step %d: Patch: %v", i+1, err)
			}
			if !res.Equals(b, jd1.MERGE) {
				return fmt.Sprintf("fail step %d: merge patch %s read back and applied gives %s, not %s", i+1, txt, res.Json(), b.Json())
			}
			cur = res
		}
		// the no-op merge patch
		q := mustNodeV1(VObj("q", VBool(true)).Wire())
		d0, err := jd1.ReadMergeString("{}")
		if err != nil {
			return "fail ReadMergeString({}): " + err.Error()
		}
		res, err := q.Patch(d0)
		if err != nil || !res.Equals(q) {
			return "fail the no-op merge patch {} changed the document to " + res.Json()
		}
		return "ok"
	})
	if verdict == "panic" {
		verdict = "fail panic in a chained merge round trip"
	}
	c.Probes = append(c.Probes, Probe{Kind: "direct", Rel: "C18 v1 merge round trips chained on the same values in one process", Want: verdict})
	run.Count("chain")
	run.Add(c)
}

func propC18(run *Run, n int) {
	run.rule = "v1 (package lib): random (a, b) over key pools with integer-looking keys (0, 1, 10, 01, -1, …) and keys needing pointer escaping (a/b, m~n, empty, ~1, …), objects and arrays nested in each other; (1) list mode: d = a.Diff(b) -> RenderPatch -> RFC 6902 evaluation on a, and ReadPatchString -> Patch on a; (2) merge mode (null-free, a not Equal b) x {MERGE, MERGE+SetPrecision(0), SET+MERGE, MULTISET+MERGE}: RenderMerge -> RFC 7386 MergePatch on a, and ReadMergeString -> Patch on a; non-trivial = the diff has at least one hunk; distinct = distinct (mode, a, b)"
	r := NewRng(run.Seed)
	metas := c18MergeMetas()
	// arrays beyond a million elements (an index of seven digits): one case per run, two more in the thorough tier
	addC18LargeIndexCase(run, 1000003+r.Intn(5), []int{999999, 1000001}, -1, r.Chance(1, 2))
	addC18AfterRefusalCase(run)
	if run.Tier == "thorough" {
		addC18LargeIndexCase(run, 1000010, []int{3}, 1000002, true)
		addC18LargeIndexCase(run, 2097160, []int{1048576, 2097152}, 2097158, false)
	}
	for i := 0; i < n; i++ {
		cfg := c18Cfg(r)
		if r.Chance(3, 5) {
			a, b := c18Pair(r, cfg)
			if a.K == KVoid || b.K == KVoid {
				continue
			}
			addC18PatchCase(run, a, b)
		} else {
			cfg.AllowNull = false
			mm := metas[r.Intn(len(metas))]
			a, b := c18Pair(r, cfg)
			if a.K == KVoid || b.K == KVoid {
				continue
			}
			if r.Chance(1, 4) {
				// RFC 7386 takes an ARRAY value verbatim, nulls included: nulls inside arrays (as elements, or as members
				// of objects that sit inside arrays) are within the property although the documents are not null-free
				if nullsIntoArrays(r, b, false) > 0 {
					run.Count("merge:nulls-inside-arrays")
				}
				if r.Chance(1, 2) {
					nullsIntoArrays(r, a, false)
				}
			}
			addC18MergeCase(run, mm.m, mm.label, a, b)
		}
		if r.Chance(1, 40) {
			addC18ChainCase(run, r, cfg)
		}
		if r.Chance(1, 25) {
			// the first patch adds empty / nested containers, the second diff removes or changes them
			a0 := cfg.Obj(r, 1)
			a1 := a0.Clone()
			a1.O["ports"] = []*Val{VArr(), VArr(VArr()), VObj(), VArr(VObj()), VNull()}[r.Intn(5)]
			if r.Chance(1, 2) {
				a1.O["more"] = cfg.Doc(r, 1)
			}
			b := a0.Clone()
			if r.Chance(1, 2) {
				b = cfg.Mutate(r, a1, 2)
			}
			if a1.O["more"] == nil || a1.O["more"].K != KVoid {
				addC18ChainedPatchCase(run, a0, a1, b)
			}
		}
		if r.Chance(1, 8) {
			// the readers on texts that are not the library's own output (correspondence only)
			a, b := c18Pair(r, cfg)
			if a.K == KVoid || b.K == KVoid {
				continue
			}
			if r.Chance(1, 2) {
				addV1ReadPatchTextCase(run, variedV1PatchText(r, a, b), perturb(r, cfg, a, b))
			} else {
				p := cfg.Doc(r, 0)
				if r.Chance(1, 2) {
					p = mergeShape(r, cfg, a, 0)
				}
				if p.K != KVoid {
					addV1ReadMergeTextCase(run, p, a)
				}
			}
		}
	}
}

// variedV1PatchText: the library's own JSON Patch for (a,b) with one variation, or a hand-written document
func variedV1PatchText(r *Rng, a, b *Val) string {
	fixed := []string{`[]`, `null`, `{}`, `[null]`, `[1]`, `[{"op":"add","path":"/a","value":1}]`, `[{"op":"add","path":"a","value":1}]`, `[{"op":"add","path":"","value":1}]`,
		`[{"op":"add","path":"/-","value":1}]`, `[{"op":"add","path":"/01","value":1}]`, `[{"op":"add","path":"/+1","value":1}]`, `[{"op":"add","path":"/~2/~","value":1}]`, `[{"op":"add","path":"/a~1b/m~0n//","value":1}]`,
		`[{"op":"replace","path":"/a","value":1}]`, `[{"op":"test","path":"/a","value":1}]`, `[{"op":"test","path":"/a","value":1},{"op":"remove","path":"/a"}]`, `[{"op":"test","path":"/a","value":1},{"op":"remove","path":"/b","value":1}]`,
		`[{"op":"test","path":"/a","value":[1,{"k":null}]},{"op":"remove","path":"/a","value":[1,{"k":null}]},{"op":"add","path":"/a"}]`, `[{"op":"remove","path":"/a","value":1}]`, `[{"op":"add","path":5,"value":1}]`, `[{"op":"add"}]`, `[{"path":"/a","value":1}]`,
		`[{"op":"add","path":"/0/1/-","value":{"0":[]}}]`, `[{"op":"test","path":"/9223372036854775807","value":1},{"op":"remove","path":"/9223372036854775807","value":1}]`, `[{"op":"add","path":"/9223372036854775808","value":1}]`, `not json`, ``}
	if r.Chance(1, 3) {
		return fixed[r.Intn(len(fixed))]
	}
	dw := implV1Diff(V1Meta{}, a.Wire(), b.Wire())
	txt := implV1RenderPatch(dw)
	s, ok := outcomeText(txt)
	if !ok {
		return fixed[r.Intn(len(fixed))]
	}
	var ops []jop
	if err := json.Unmarshal([]byte(s), &ops); err != nil || len(ops) == 0 {
		return s
	}
	i := r.Intn(len(ops))
	switch r.Intn(7) {
	case 0:
		ops[i].Op = []string{"replace", "move", "copy", "test", "remove", "add", ""}[r.Intn(7)]
	case 1:
		ops = append(ops[:i], ops[i+1:]...)
	case 2:
		ops[i].Value = json.RawMessage(`"changed"`)
	case 3:
		ops[i].Path += []string{"/0", "/-", "/01", "/-1", "/a", "/", "/~1", "x"}[r.Intn(8)]
	case 4:
		if j := r.Intn(len(ops)); j != i {
			ops[i], ops[j] = ops[j], ops[i]
		}
	case 5:
		ops[i].Path = strings.Replace(ops[i].Path, "/", "/0", 1)
	}
	out, _ := json.Marshal(ops)
	return string(out)
}

func addV1ReadPatchTextCase(run *Run, text string, t *Val) {
	tw := t.Wire()
	rd := implV1ReadPatch(text)
	c := Case{Recipe: Recipe{"c18readpatch", []string{text, tw}}, Desc: map[string]string{"api": "v1 (github.com/josephburnett/jd/lib)", "kind": "JSON Patch text that is not the library's own output", "text": text, "target": t.Human(), "impl_read": rd, "domain": "out"}}
	c.Sig = "rp|" + text + "|" + tw
	c.Nontrivial = true
	nd := numDict([]string{tw, rd}, []string{text})
	c.Probes = append(c.Probes, Probe{Kind: "corr", Rel: "v1 ReadPatchString = V1.readPatchM (varied / hand-written JSON Patch)", Line: fmt.Sprintf("v1readpatch %s %s", nd, textWire(text)), Want: rd})
	po := "unread"
	if strings.HasPrefix(rd, "ok ") {
		po = implV1Patch(tw, rd[3:])
		c.Desc["impl_patch"] = po
		c.Probes = append(c.Probes, Probe{Kind: "corr", Rel: "v1 Patch (jsonStringOrInteger path elements, any target) = V1.patchP", Line: fmt.Sprintf("v1patch %s %s", tw, rd[3:]), Want: po})
	}
	run.Count("mode:x:varied-json-patch")
	run.Count("varied_patch:read-" + strings.Fields(rd + " ?")[0] + ",patch-" + strings.Fields(po + " ?")[0])
	run.Add(c)
}

func addV1ReadMergeTextCase(run *Run, p, t *Val) {
	tw := t.Wire()
	ptext := ""
	safely(func() string { ptext = mustNodeV1(p.Wire()).Json(); return "" })
	rd := implV1ReadMerge(ptext)
	c := Case{Recipe: Recipe{"c18readmerge", []string{p.Wire(), tw}}, Desc: map[string]string{"api": "v1 (github.com/josephburnett/jd/lib)", "kind": "arbitrary JSON Merge Patch document", "text": ptext, "target": t.Human(), "impl_read": rd, "domain": "out"}}
	c.Sig = "rm|" + ptext + "|" + tw
	c.Nontrivial = true
	nd := numDict([]string{tw, p.Wire(), rd}, []string{ptext})
	c.Probes = append(c.Probes,
		Probe{Kind: "corr", Rel: "v1 Json() = V1.jsonM", Line: fmt.Sprintf("v1json %s %s", nd, p.Wire()), Want: "ok " + textWire(ptext)},
		Probe{Kind: "corr", Rel: "v1 ReadMergeString = V1.readMergeM (arbitrary document, as a set of hunks)", Line: fmt.Sprintf("v1readmerge %s %s", nd, textWire(ptext)), Want: sortV1Hunks(rd)})
	po := "unread"
	if strings.HasPrefix(rd, "ok ") {
		po = implV1Patch(tw, rd[3:])
		c.Probes = append(c.Probes, Probe{Kind: "corr", Rel: "v1 Patch (merge hunks, any target) = V1.patchM", Line: fmt.Sprintf("v1patch %s %s", tw, rd[3:]), Want: po})
	}
	run.Count("mode:x:arbitrary-merge-patch")
	run.Count("arbitrary_merge:patch-" + strings.Fields(po + " ?")[0])
	run.Add(c)
}

// c18Pair: mostly objects / arrays at the root so that the paths are not empty
// nullsIntoArrays puts null elements into arrays, and null members into objects that sit inside arrays
func nullsIntoArrays(r *Rng, v *Val, inArray bool) int {
	n := 0
	switch v.K {
	case KArr:
		for _, e := range v.A {
			n += nullsIntoArrays(r, e, true)
		}
		if r.Chance(1, 2) {
			i := r.Intn(len(v.A) + 1)
			v.A = append(v.A[:i], append([]*Val{VNull()}, v.A[i:]...)...)
			n++
		}
	case KObj:
		ks := make([]string, 0, len(v.O))
		for k := range v.O {
			ks = append(ks, k)
		}
		sort.Strings(ks)
		for _, k := range ks {
			n += nullsIntoArrays(r, v.O[k], inArray)
		}
		if inArray && r.Chance(1, 3) {
			v.O["nul"] = VNull()
			n++
		}
	}
	return n
}

func c18Pair(r *Rng, cfg GenCfg) (*Val, *Val) {
	a, b := cfg.Pair(r)
	if r.Chance(1, 2) && a.K != KObj && a.K != KArr {
		a = cfg.Obj(r, 0)
		b = cfg.Mutate(r, a, 4)
	}
	if r.Chance(1, 6) {
		// an object whose integer-looking keys sit next to an array with the same "indices"
		a = VObj("0", cfg.Arr(r, 1), "1", cfg.Obj(r, 1), "a", VArr(cfg.Obj(r, 1), cfg.Doc(r, 1)))
		b = cfg.Mutate(r, a, 4)
	}
	return a, b
}

func sortV1Hunks(out string) string {
	if !strings.HasPrefix(out, "ok <") {
		return out
	}
	hs := splitHunks(out[3:])
	sort.Strings(hs)
	if len(hs) == 0 {
		return "ok < >"
	}
	return "ok < " + strings.Join(hs, " ") + " >"
}

// addC18ChainedPatchCase: a = a0.Patch(a0.Diff(a1)) (a value the v1 LIBRARY built), then a.Diff(b).RenderPatch(): the text must
// be the text of the same diff computed from documents READ from text (rendering depends on the values only), and
// reading it back and patching a must give b
func addC18ChainedPatchCase(run *Run, a0, a1, b *Val) {
	w0, w1, wb := a0.Wire(), a1.Wire(), b.Wire()
	c := Case{Recipe: Recipe{"c18chainp", []string{w0, w1, wb}}, Desc: map[string]string{"api": "v1", "a0": a0.Human(), "a1": a1.Human(), "b": b.Human()}, Nontrivial: true, Sig: "chainp|" + w0 + w1 + wb}
	verdict := "ok"
	res, _ := safely(func() string {
		n0 := mustNodeV1(w0)
		a, err := n0.Patch(n0.Diff(mustNodeV1(w1)))
		if err != nil {
			return "done"
		}
		bn := mustNodeV1(wb)
		text, err := a.Diff(bn).RenderPatch()
		ref, err2 := mustNodeV1(w1).Diff(mustNodeV1(wb)).RenderPatch()
		if (err == nil) != (err2 == nil) || text != ref {
			verdict = "fail the JSON Patch of a document returned by Patch is " + short(text) + " but the same documents read from text give " + short(ref)
			return "done"
		}
		if err != nil {
			return "done"
		}
		rd, err := jd1.ReadPatchString(text)
		if err != nil {
			verdict = "fail v1 ReadPatchString rejects the library's own patch: " + err.Error()
			return "done"
		}
		r, err := a.Patch(rd)
		if err != nil {
			verdict = "fail patching the patched document with its own JSON Patch read back fails: " + err.Error()
		} else if !r.Equals(mustNodeV1(wb)) {
			verdict = "fail patching the patched document with its own JSON Patch read back does not give b"
		}
		return "done"
	})
	if res == "panic" {
		verdict = "fail panic in the chained JSON Patch rendering"
	}
	c.Probes = append(c.Probes, Probe{Kind: "direct", Rel: "C18 v1 JSON Patch of a document returned by Patch = that of the same document read from text; read back it reproduces b", Want: verdict})
	run.Count("mode:list-chained-patch")
	run.Add(c)
}

func addC18PatchCase(run *Run, a, b *Val) {
	aw, bw := a.Wire(), b.Wire()
	none := V1Meta{}
	dw := implV1Diff(none, aw, bw)
	c := Case{Recipe: Recipe{"c18p", []string{aw, bw}}, Desc: map[string]string{"api": "v1 (github.com/josephburnett/jd/lib)", "mode": "list / JSON Patch", "a": a.Human(), "b": b.Human(), "a_wire": aw, "b_wire": bw, "impl_diff": dw}}
	c.Sig = "p|" + aw + "|" + bw
	c.Nontrivial = hunkCount(dw) > 0
	if dw == "panic" {
		c.Probes = append(c.Probes, Probe{Kind: "direct", Rel: "C18 v1 Diff does not panic", Want: "fail Diff panicked"})
		run.Add(c)
		return
	}
	txt := implV1RenderPatch(dw)
	text, okText := outcomeText(txt)
	rd, po := "err", "err"
	if okText {
		c.Desc["impl_patch_text"] = text
		rd = implV1ReadPatch(text)
		if strings.HasPrefix(rd, "ok ") {
			po = implV1Patch(aw, rd[3:])
		} else if rd == "panic" {
			po = "panic"
		}
	} else {
		c.Desc["impl_patch_text"] = txt
	}
	c.Desc["impl_read"] = rd
	c.Desc["impl_readback_patch"] = po
	native := implV1Render(dw, false)
	ntext, _ := outcomeText(native)
	nd := numDict([]string{dw, aw, bw, rd, po}, []string{text, ntext})
	c.Probes = append(c.Probes,
		Probe{Kind: "corr", Rel: "v1 Diff = V1.diffM (list mode)", Line: fmt.Sprintf("v1diff m= %s %s", aw, bw), Want: dw},
		Probe{Kind: "corr", Rel: "v1 RenderPatch = V1.renderPatchM", Line: fmt.Sprintf("v1renderpatch %s %s", nd, dw), Want: txt},
		Probe{Kind: "corr", Rel: "v1 Diff.Render = V1.renderM", Line: fmt.Sprintf("v1render %s %s", nd, dw), Want: native},
	)
	if okText {
		c.Probes = append(c.Probes, Probe{Kind: "corr", Rel: "v1 ReadPatchString = V1.readPatchM", Line: fmt.Sprintf("v1readpatch %s %s", nd, textWire(text)), Want: rd})
		if strings.HasPrefix(rd, "ok ") {
			c.Probes = append(c.Probes, Probe{Kind: "corr", Rel: "v1 Patch (diff read from JSON Patch: jsonStringOrInteger path elements) = V1.patchP", Line: fmt.Sprintf("v1patch %s %s", aw, rd[3:]), Want: po})
			// the diff read from the JSON Patch, rendered again in both formats (jsonStringOrInteger tokens in paths)
			rw := implV1Render(rd[3:], false)
			rt, _ := outcomeText(rw)
			pw := implV1RenderPatch(rd[3:])
			pt, _ := outcomeText(pw)
			nd2 := numDict([]string{rd}, []string{rt, pt})
			c.Probes = append(c.Probes,
				Probe{Kind: "corr", Rel: "v1 Diff.Render = V1.renderM (diff read from JSON Patch)", Line: fmt.Sprintf("v1render %s %s", nd2, rd[3:]), Want: rw},
				Probe{Kind: "corr", Rel: "v1 RenderPatch = V1.renderPatchM (diff read from JSON Patch)", Line: fmt.Sprintf("v1renderpatch %s %s", nd2, rd[3:]), Want: pw})
		}
	}
	c.Probes = append(c.Probes, Probe{Kind: "oracle", Rel: "C18 v1 JSON Patch: RFC 6902 evaluation of RenderPatch(diff(a,b)) on a gives b; ReadPatchString + Patch on a gives b",
		Line: fmt.Sprintf("c18p %s %s %s %s %s", nd, aw, bw, txt, po)})
	run.Count("mode:list")
	run.Count("render_patch:" + strings.Fields(txt + " ?")[0])
	run.Count("readback_patch:" + strings.Fields(po + " ?")[0])
	run.Count("hunks:" + sizeBucket(hunkCount(dw)))
	if strings.Contains(rd, "SORI\"") {
		run.Count("read_path_has_string_or_integer")
	}
	run.Add(c)
}

func addC18MergeCase(run *Run, m V1Meta, label string, a, b *Val) {
	aw, bw, mw := a.Wire(), b.Wire(), m.Wire()
	if implV1Equals(m, aw, bw) == "T" {
		run.Count("skipped:equal")
		return
	}
	dw := implV1Diff(m, aw, bw)
	c := Case{Recipe: Recipe{"c18m", []string{mw, aw, bw}}, Desc: map[string]string{"api": "v1 (github.com/josephburnett/jd/lib)", "mode": "merge / JSON Merge Patch", "metadata": m.Name(), "a": a.Human(), "b": b.Human(), "a_wire": aw, "b_wire": bw, "meta_wire": mw, "impl_diff": dw}}
	c.Sig = "m|" + mw + "|" + aw + "|" + bw
	c.Nontrivial = hunkCount(dw) > 0
	if dw == "panic" {
		c.Probes = append(c.Probes, Probe{Kind: "direct", Rel: "C18 v1 Diff does not panic", Want: "fail Diff panicked"})
		run.Add(c)
		return
	}
	txt := implV1RenderMerge(dw)
	text, okText := outcomeText(txt)
	rd, po := "err", "err"
	if okText {
		c.Desc["impl_merge_text"] = text
		rd = implV1ReadMerge(text)
		if strings.HasPrefix(rd, "ok ") {
			po = implV1Patch(aw, rd[3:])
		} else if rd == "panic" {
			po = "panic"
		}
	} else {
		c.Desc["impl_merge_text"] = txt
	}
	c.Desc["impl_read"] = rd
	c.Desc["impl_readback_patch"] = po
	native := implV1Render(dw, false)
	ntext, _ := outcomeText(native)
	nd := numDict([]string{dw, aw, bw, rd, po}, []string{text, ntext})
	c.Probes = append(c.Probes,
		Probe{Kind: "corr", Rel: "v1 Diff = V1.diffM (merge mode)", Line: fmt.Sprintf("v1diff %s %s %s", mw, aw, bw), Want: dw},
		Probe{Kind: "corr", Rel: "v1 RenderMerge = V1.renderMergeM", Line: fmt.Sprintf("v1rendermerge %s %s", nd, dw), Want: txt},
		Probe{Kind: "corr", Rel: "v1 Diff.Render = V1.renderM", Line: fmt.Sprintf("v1render %s %s", nd, dw), Want: native},
	)
	if okText {
		c.Probes = append(c.Probes, Probe{Kind: "corr", Rel: "v1 ReadMergeString = V1.readMergeM (as a set of hunks: the reader ranges over a Go map)", Line: fmt.Sprintf("v1readmerge %s %s", nd, textWire(text)), Want: sortV1Hunks(rd)})
		if strings.HasPrefix(rd, "ok ") {
			c.Probes = append(c.Probes, Probe{Kind: "corr", Rel: "v1 Patch (diff read from JSON Merge Patch) = V1.patchM", Line: fmt.Sprintf("v1patch %s %s", aw, rd[3:]), Want: po})
		}
	}
	c.Probes = append(c.Probes, Probe{Kind: "oracle", Rel: "C18 v1 JSON Merge Patch: RFC 7386 MergePatch(a, RenderMerge(diff(a,b))) ≈ b; ReadMergeString + Patch on a ≈ b",
		Line: fmt.Sprintf("c18m %s %s %s %s %s %s", nd, mw, aw, bw, txt, po)})
	run.Count("mode:merge " + label)
	run.Count("render_merge:" + strings.Fields(txt + " ?")[0])
	run.Count("readback_merge:" + strings.Fields(po + " ?")[0])
	run.Count("hunks:" + sizeBucket(hunkCount(dw)))
	run.Add(c)
}

func init() {
	props["C18"] = propC18
	quickN["C18"] = 3000
	thoroughN["C18"] = 100000
	recipes["c18"] = func(run *Run, a []string) {
		// c18 p <a> <b>  |  c18 m <meta> <a> <b>
		if a[0] == "p" {
			addC18PatchCase(run, mustVal(a[1]), mustVal(a[2]))
			return
		}
		m, err := ParseV1Meta(a[1])
		if err != nil {
			panic(err)
		}
		addC18MergeCase(run, m, "corpus", mustVal(a[2]), mustVal(a[3]))
	}
	recipes["c18readpatch"] = func(run *Run, a []string) { addV1ReadPatchTextCase(run, a[0], mustVal(a[1])) }
	recipes["c18readmerge"] = func(run *Run, a []string) { addV1ReadMergeTextCase(run, mustVal(a[0]), mustVal(a[1])) }
	recipes["c18chainp"] = func(run *Run, a []string) {
		addC18ChainedPatchCase(run, mustVal(a[0]), mustVal(a[1]), mustVal(a[2]))
	}
	recipes["c18p"] = func(run *Run, a []string) { addC18PatchCase(run, mustVal(a[0]), mustVal(a[1])) }
	recipes["c18chain"] = func(run *Run, a []string) {
		cfg := DefaultCfg()
		cfg.Keys = c18Keys
		addC18ChainCase(run, NewRng(run.Seed), cfg)
	}
	recipes["c18m"] = func(run *Run, a []string) {
		m, err := ParseV1Meta(a[0])
		if err != nil {
			panic(err)
		}
		addC18MergeCase(run, m, "corpus", mustVal(a[1]), mustVal(a[2]))
	}
}

func init() {
	recipes["c17patch"] = func(run *Run, a []string) { addV1PatchCase(run, "corpus", a[0], a[1]) }
	recipes["c17read"] = func(run *Run, a []string) { addV1ReadDiffCase(run, a[0]) }
	recipes["c17render"] = func(run *Run, a []string) { addV1RenderCase(run, "corpus", a[0]) }
	props["C17"] = propC17
	quickN["C17"] = 4000
	thoroughN["C17"] = 150000
	recipes["c17"] = func(run *Run, a []string) {
		m, err := ParseV1Meta(a[0])
		if err != nil {
			panic(err)
		}
		addC17Case(run, m, "corpus", len(a) < 4 || a[3] != "out", mustVal(a[1]), mustVal(a[2]))
	}
}
