package main

import (
	"encoding/hex"
	"encoding/json"
	"fmt"
	"math"
	"sort"
	"strconv"
	"strings"
	"time"
	"unicode"

	jd "github.com/josephburnett/jd/v2"
	"gopkg.in/yaml.v2"
)

// ---------------------------------------------------------------------------------------------
// C16 — JSON and YAML are interchangeable carriers of a document.
//
// yaml.v2 is external code: no YAML text is sent to the model. The model (lean/JdModel/Yaml.lean)
// covers jd's glue — NewJsonNode, raw(), unmarshal — over Go values ("Raw"), and states the
// CONTRACT of yaml.Unmarshal ∘ yaml.Marshal on the values raw() produces (`yamlize`). Probes:
//   glue      corr    NewJsonNode on constructed Go values of every shape            = newJsonNodeM
//   raw       corr    n.raw()                                                        = rawM
//   jsoncodec corr    json.Unmarshal(n.Json()) as Go values                          = rawM (identity contract)
//   contract  corr    yaml.Unmarshal(n.Yaml()) as Go values                          = yamlize (rawM n)
//             (oracle with the class predicate of KF-C16-mergekey when some object key is "<<")
//   unmarshal corr    ReadYamlString / ReadJsonString given what the decoder produced = unmarshalM
//   roundtrip corr    ReadYamlString(n.Yaml())                                       = newJsonNodeM (yamlize (rawM n))
//   C16       direct  the property on the implementation (Equals + identical JSON re-rendering,
//                     both carriers; diffs and patches of YAML-carried documents)

// Raw wire encoding of Go values: see lean/Driver/OpsYaml.lean.

var c16OtherVals = []interface{}{
	time.Date(2001, 1, 1, 0, 0, 0, 0, time.UTC), float32(1.5), int32(1), int8(1), uint(1), uint32(7),
	[]string{"a"}, map[string]string{"a": "b"}, map[string]int{}, []int{1}, struct{}{}, []byte("x"),
	json.Number("1"), complex(1, 0), [2]int{1, 2},
}

func c16OtherByName(name string) (interface{}, bool) {
	for _, v := range c16OtherVals {
		if fmt.Sprintf("%T", v) == name {
			return v, true
		}
	}
	return nil, false
}

// encRawGo writes the Raw wire encoding of a Go value.
func encRawGo(v interface{}) string {
	var b strings.Builder
	encRawGoTo(&b, v)
	return b.String()
}

func encRawGoTo(b *strings.Builder, v interface{}) {
	if n, ok := v.(jd.JsonNode); ok {
		b.WriteString("n ")
		b.WriteString(jd.VerifEncodeNode(n))
		return
	}
	switch t := v.(type) {
	case map[string]interface{}:
		keys := make([]string, 0, len(t))
		for k := range t {
			keys = append(keys, k)
		}
		sort.Strings(keys)
		b.WriteString("ms{")
		for _, k := range keys {
			b.WriteString(" \"" + hexStr(k) + " ")
			encRawGoTo(b, t[k])
		}
		b.WriteString(" }")
	case map[interface{}]interface{}:
		type ent struct{ k, v string }
		es := make([]ent, 0, len(t))
		for k, e := range t {
			es = append(es, ent{encRawGo(k), encRawGo(e)})
		}
		sort.Slice(es, func(i, j int) bool { return es[i].k < es[j].k })
		b.WriteString("mi{")
		for _, e := range es {
			b.WriteString(" " + e.k + " " + e.v)
		}
		b.WriteString(" }")
	case []interface{}:
		b.WriteString("sl[")
		for _, e := range t {
			b.WriteString(" ")
			encRawGoTo(b, e)
		}
		b.WriteString(" ]")
	case float64:
		fmt.Fprintf(b, "#%016x", math.Float64bits(t))
	case int:
		fmt.Fprintf(b, "i%d", t)
	case int64:
		fmt.Fprintf(b, "l%d", t)
	case uint64:
		fmt.Fprintf(b, "u%d", t)
	case string:
		b.WriteString("\"" + hexStr(t))
	case bool:
		if t {
			b.WriteString("T")
		} else {
			b.WriteString("F")
		}
	case nil:
		b.WriteString("N")
	default:
		b.WriteString("o" + hexStr(fmt.Sprintf("%T", v)))
	}
}

// decRawGo rebuilds the Go value from its wire encoding (recipes / replay).
func decRawGo(w string) (interface{}, error) {
	toks := strings.Fields(w)
	pos := 0
	v, err := decRawToks(toks, &pos)
	if err != nil {
		return nil, err
	}
	if pos != len(toks) {
		return nil, fmt.Errorf("trailing tokens")
	}
	return v, nil
}

// nodeTokens returns the number of tokens of the node encoding starting at toks[pos].
func nodeTokens(toks []string, pos int) (int, error) {
	depth := 0
	for i := pos; i < len(toks); i++ {
		t := toks[i]
		if (len(t) == 2 && t[0] == '[') || t == "{" {
			depth++
		} else if t == "]" || t == "}" {
			depth--
		}
		if depth == 0 {
			return i - pos + 1, nil
		}
	}
	return 0, fmt.Errorf("unterminated node")
}

func decRawToks(toks []string, pos *int) (interface{}, error) {
	if *pos >= len(toks) {
		return nil, fmt.Errorf("eof")
	}
	t := toks[*pos]
	*pos++
	switch {
	case t == "ms{":
		m := map[string]interface{}{}
		for {
			if *pos >= len(toks) {
				return nil, fmt.Errorf("eof in ms")
			}
			kt := toks[*pos]
			*pos++
			if kt == "}" {
				return m, nil
			}
			if !strings.HasPrefix(kt, "\"") {
				return nil, fmt.Errorf("bad key %q", kt)
			}
			kb, err := hex.DecodeString(kt[1:])
			if err != nil {
				return nil, err
			}
			v, err := decRawToks(toks, pos)
			if err != nil {
				return nil, err
			}
			m[string(kb)] = v
		}
	case t == "mi{":
		m := map[interface{}]interface{}{}
		for {
			if *pos >= len(toks) {
				return nil, fmt.Errorf("eof in mi")
			}
			if toks[*pos] == "}" {
				*pos++
				return m, nil
			}
			k, err := decRawToks(toks, pos)
			if err != nil {
				return nil, err
			}
			v, err := decRawToks(toks, pos)
			if err != nil {
				return nil, err
			}
			m[k] = v
		}
	case t == "sl[":
		l := []interface{}{}
		for {
			if *pos >= len(toks) {
				return nil, fmt.Errorf("eof in sl")
			}
			if toks[*pos] == "]" {
				*pos++
				return l, nil
			}
			v, err := decRawToks(toks, pos)
			if err != nil {
				return nil, err
			}
			l = append(l, v)
		}
	case t == "T":
		return true, nil
	case t == "F":
		return false, nil
	case t == "N":
		return nil, nil
	case t == "n":
		k, err := nodeTokens(toks, *pos)
		if err != nil {
			return nil, err
		}
		n, err := jd.VerifDecodeNode(strings.Join(toks[*pos:*pos+k], " "))
		*pos += k
		return n, err
	case strings.HasPrefix(t, "#"):
		u, err := strconv.ParseUint(t[1:], 16, 64)
		return math.Float64frombits(u), err
	case strings.HasPrefix(t, "\""):
		bs, err := hex.DecodeString(t[1:])
		return string(bs), err
	case strings.HasPrefix(t, "i"):
		i, err := strconv.ParseInt(t[1:], 10, 64)
		return int(i), err
	case strings.HasPrefix(t, "l"):
		i, err := strconv.ParseInt(t[1:], 10, 64)
		return i, err
	case strings.HasPrefix(t, "u"):
		u, err := strconv.ParseUint(t[1:], 10, 64)
		return u, err
	case strings.HasPrefix(t, "o"):
		bs, err := hex.DecodeString(t[1:])
		if err != nil {
			return nil, err
		}
		v, ok := c16OtherByName(string(bs))
		if !ok {
			return nil, fmt.Errorf("unknown other type %q", string(bs))
		}
		return v, nil
	}
	return nil, fmt.Errorf("bad raw token %q", t)
}

// ---- the quantifier's pools -------------------------------------------------------------------

var c16Strs = []string{
	"a", "b", "x y",
	"true", "false", "yes", "no", "on", "off", "y", "n", "True", "NO",
	"1", "01", "1e3", "0x1F", "1_000", ".5", "+1", "-1", "1.0", "0", "-0", "0o17", "0b11", "1.", ".inf", ".nan", "1e+06",
	"~", "null", "Null", "NULL",
	"- x", "a: b", "#", "# c", "a #c", "{", "}", "[", "]", "{}", "[]", "*a", "&a", "!t", "!!str x", "|", ">", "|-", "%", "@", "`", "'", "\"", "''", "\\", "a\\nb", ",", "a, b",
	"", " ", "  ", " lead", "trail ", " both ",
	"a\nb", "a\n", "\n", "\n\n", "a\n\nb", "\na", "a\n b", " a\nb", "a \nb", "a  \n\nb ", "a\r\nb", "\r", "\t", "a\tb", "\ta",
	"\u00e9", "\U0001F600", "\u65e5\u672c\u8a9e", "\u00a0", "\u00a0\u00a0", "\u00a0 \u00a0", "\u0085", "\u2028", "\u2029", "\ufeff", "\x00", "\x01", "\x7f", "\u200b", "\ufffd", "\u3000", "\u2003", "\u1680",
	"2001-01-01", "2001-01-01T00:00:00Z", "2001-01-01 00:00:00", "12:30", "1:30:00", "190:20:30.15",
	"<<", "=", "?", "? x", ": y", ":", "-", "--", "---", "--- x", "...", "... x", "- ", "-\n",
	"k: v\nl: w", "- a\n- b", "key: |\n  x",
	// text that LOOKS like rendered YAML holding a number in exponent form (a renderer that post-processes its output text
	// would rewrite it): inside a block scalar, at the end of a plain line
	"limits:\n  max: 1e+06\n", "valid range 5 - 1e+06", "a: 1e+06", "- 1e+06", "x: 1.5e+07", "n: 1e+21", "v: 0x10", "max: 1e+06",
	strings.Repeat("word ", 20) + "end",
	strings.Repeat("lorem ipsum dolor sit amet ", 5),
	strings.Repeat("x", 100),
	strings.Repeat("long line with spaces ", 6) + "\n" + strings.Repeat("second long line ", 7),
	strings.Repeat("ab ", 30) + " \n tail",
	"trailing spaces   \nbefore newline  \n",
	strings.Repeat("\u00e9 ", 50),
	strings.Repeat("a", 79) + " b", strings.Repeat("a", 80) + " b", strings.Repeat("a", 81) + " b",
	strings.Repeat("a b", 30) + ": c", "# " + strings.Repeat("c ", 45),
}

var c16Nums = []float64{
	0, math.Copysign(0, -1), 1, -1, 2, 10, 0.5, -0.5, 0.1, 1.5, 1e21, 1e-7, -1e-7, 1e300, -1e300, 5e-324, math.MaxFloat64,
	9007199254740992, 9007199254740994, -9007199254740992, 9007199254740993, 123456789012, 1e3, 1e5, 999999, 1e6, 1000001, -999999, -1e6,
	999999.5, 100000.5, 4294967296, 9223372036854775807, 18446744073709551615, 1e15, 1e16, 123456, 1234567, 3.141592653589793, 2261634.5098039214,
}

var c16Chars = []string{"a", "b", " ", "  ", "\n", "\t", "\r", ":", "-", "#", "'", "\"", "\\", "\u00e9", "\U0001F600", "\u0085", "\u00a0",
	"\u2028", "\u2029", "\ufeff", "\x00", "\x01", "\x7f", "\u0080", "{", "}", "[", "]", ",", "&", "*", "!", "|", ">", "%", "@", "`", "?", "<<", "~",
	"0", "1", ".", "e", "_", "x", "+", "=", "\ufffd", "\ufffe", "\uffff", "\U0010ffff", "\u200b", "\u001b", "\u000b", "\u000c", "\u3000", "\u2003", "\u202f"}

func c16RandStr(r *Rng) string {
	n := r.Intn(6)
	if r.Chance(1, 12) {
		n = 30 + r.Intn(70)
	}
	var b strings.Builder
	for i := 0; i < n; i++ {
		b.WriteString(c16Chars[r.Intn(len(c16Chars))])
	}
	return b.String()
}

func c16Cfg(r *Rng) GenCfg {
	strs := append([]string{}, c16Strs...)
	for i := 0; i < 6; i++ {
		strs = append(strs, c16RandStr(r))
	}
	nums := append([]float64{}, c16Nums...)
	for i := 0; i < 3; i++ {
		f := math.Float64frombits(r.Next())
		if !math.IsNaN(f) && !math.IsInf(f, 0) {
			nums = append(nums, f)
		}
		nums = append(nums, float64(int64(r.Next()%2000001)-1000000))
	}
	return GenCfg{MaxDepth: 3, MaxLen: 4, MaxKeys: 3, Nums: nums, Strs: strs, Keys: strs, AllowNull: true, AllowBool: true, ScalarBias: 5}
}

// ---- class predicates (known findings and candidate classes) ------------------------------------

func c16HasMergeKey(v *Val) bool {
	switch v.K {
	case KArr:
		for _, e := range v.A {
			if c16HasMergeKey(e) {
				return true
			}
		}
	case KObj:
		for k, e := range v.O {
			if k == "<<" || c16HasMergeKey(e) {
				return true
			}
		}
	}
	return false
}

func c16HasNegZero(v *Val) bool {
	switch v.K {
	case KNum:
		return v.N == 0 && math.Signbit(v.N)
	case KArr:
		for _, e := range v.A {
			if c16HasNegZero(e) {
				return true
			}
		}
	case KObj:
		for _, e := range v.O {
			if c16HasNegZero(e) {
				return true
			}
		}
	}
	return false
}

// the root is a non-empty string made of Unicode white space only
func c16BlankRoot(v *Val) bool {
	if v.K != KStr || v.S == "" {
		return false
	}
	for _, c := range v.S {
		if !unicode.IsSpace(c) {
			return false
		}
	}
	return true
}

func c16HasVoid(v *Val) bool {
	if v.K == KVoid {
		return true
	}
	for _, e := range v.A {
		if c16HasVoid(e) {
			return true
		}
	}
	for _, e := range v.O {
		if c16HasVoid(e) {
			return true
		}
	}
	return false
}

// Listed known-finding classes. A failure of the direct probe inside a listed class is reported as
// "kf <ID> …"; a failure inside a class that is NOT listed here is reported as "fail <class>: …".
var c16Listed = map[string]string{
	"mergekey": "KF-C16-mergekey",
	"negzero":  "KF-C16-negzero",
}

func c16Verdict(class, msg string) string {
	if id, ok := c16Listed[class]; ok {
		return "kf " + id + " " + msg
	}
	if class == "" {
		return "fail " + msg
	}
	return "fail " + class + ": " + msg
}

// c16Class names the class a failing document belongs to ("" = none: a new finding).
func c16Class(v *Val, equalsHeld bool) string {
	switch {
	case c16HasMergeKey(v):
		return "mergekey"
	case c16HasNegZero(v) && equalsHeld:
		return "negzero"
	}
	return ""
}

func short(s string) string {
	r := []rune(s)
	if len(r) > 160 {
		return string(r[:160]) + "..."
	}
	return s
}

// ---- glue cases --------------------------------------------------------------------------------

func encGlueOutcome(n jd.JsonNode, err error) string {
	if err != nil {
		return "err"
	}
	w := jd.VerifEncodeNode(n)
	for _, t := range strings.Fields(w) {
		if t == "NIL" {
			return "oknil"
		}
	}
	return "ok " + w
}

func addC16GlueCase(run *Run, v interface{}, label string) {
	w := encRawGo(v)
	c := Case{Recipe: Recipe{"c16g", []string{w}}, Desc: map[string]string{"kind": "glue:" + label, "value": short(fmt.Sprintf("%#v", v)), "raw_wire": w}}
	out, _ := safely(func() string { return encGlueOutcome(jd.NewJsonNode(v)) })
	c.Desc["impl"] = out
	c.Nontrivial = true
	c.Sig = "g|" + w
	c.Probes = append(c.Probes, Probe{Kind: "corr", Rel: "NewJsonNode = newJsonNodeM", Line: "newnode " + w, Want: out})
	run.Count("kind:glue")
	run.Count("glue_outcome:" + strings.Fields(out)[0])
	run.Add(c)
}

var c16Ints = []int{0, 1, -1, 5, 999999, 1000000, -1000000, 1 << 53, 1<<53 + 1, 1<<53 + 2, 1<<53 + 3, -(1<<53 + 1), 1<<62 + 1, math.MaxInt64, math.MinInt64,
	math.MaxInt64 - 511, math.MaxInt64 - 512, math.MaxInt64 - 513, 1<<54 + 2, 1<<54 + 6, 123456789012345678, 36028797018963967, 36028797018963966, 36028797018963970}

func c16GenRawLeaf(r *Rng) interface{} {
	switch r.Intn(16) {
	case 0:
		return c16Nums[r.Intn(len(c16Nums))]
	case 1:
		return []float64{math.NaN(), math.Inf(1), math.Inf(-1), math.Float64frombits(0x7ff0000000000001), math.Float64frombits(0xfff8000000000000)}[r.Intn(5)]
	case 2, 3:
		if r.Chance(1, 2) {
			return int(int64(r.Next()))
		}
		return c16Ints[r.Intn(len(c16Ints))]
	case 4:
		return int64(r.Intn(10))
	case 5:
		return uint64(r.Next())
	case 6, 7:
		return c16Strs[r.Intn(len(c16Strs))]
	case 8:
		return r.Chance(1, 2)
	case 9:
		return nil
	case 10:
		return c16OtherVals[r.Intn(len(c16OtherVals))]
	case 11:
		// a value that already is a JsonNode
		ws := []string{"\"61", "N", "V", "T", "#3ff0000000000000", "[r ]", "[s T T ]", "[l N ]", "[m \"61 ]", "{ }", "{ \"61 [r N ] }"}
		return mustNode(ws[r.Intn(len(ws))])
	case 12:
		return math.Float64frombits(r.Next())
	default:
		return float64(r.Intn(5))
	}
}

func c16GenRawKey(r *Rng) interface{} {
	switch r.Intn(12) {
	case 0:
		return r.Intn(5)
	case 1:
		return r.Chance(1, 2)
	case 2:
		return nil
	case 3:
		return float64(r.Intn(3)) + 0.5
	case 4:
		return int64(r.Intn(3))
	case 5:
		return c16OtherVals[0]
	default:
		return c16Strs[r.Intn(len(c16Strs))]
	}
}

func c16GenRaw(r *Rng, depth int) interface{} {
	if depth >= 3 || (depth > 0 && r.Chance(1, 2)) {
		return c16GenRawLeaf(r)
	}
	switch r.Intn(4) {
	case 0:
		m := map[string]interface{}{}
		n := r.Intn(4)
		for i := 0; i < n; i++ {
			m[c16Strs[r.Intn(len(c16Strs))]] = c16GenRaw(r, depth+1)
		}
		return m
	case 1:
		m := map[interface{}]interface{}{}
		n := r.Intn(4)
		for i := 0; i < n; i++ {
			var k interface{} = c16Strs[r.Intn(len(c16Strs))]
			if r.Chance(1, 6) {
				k = c16GenRawKey(r)
			}
			m[k] = c16GenRaw(r, depth+1)
		}
		return m
	case 2:
		l := []interface{}{}
		n := r.Intn(4)
		for i := 0; i < n; i++ {
			l = append(l, c16GenRaw(r, depth+1))
		}
		return l
	default:
		return c16GenRawLeaf(r)
	}
}

// ---- document cases ------------------------------------------------------------------------------

type c16Impl struct {
	rawW, jsonText, yamlText       string
	jsonDec, yamlDec               string // decoder outputs as Raw ("err" when the decoder failed)
	jsonBlank, yamlBlank           bool
	readJson, readYaml             string // outcomes of ReadJsonString / ReadYamlString
	yEq, yJsonSame, jEq, jJsonSame bool
	yErr, jErr                     string
	panicked                       bool
}

// c16TextIsBlank mirrors the blank-input test of `unmarshal` (v2/node_read.go): the text is empty after
// strings.Trim(s, " \\t\\r\\n") (JSON/YAML white space). It is the `blank` argument of the model's unmarshalM; if
// node_read.go changes its test, this function changes with it (the "unmarshal" probes notice).
func c16TextIsBlank(s string) bool { return strings.Trim(s, " \t\r\n") == "" }

func c16RunImpl(w string) c16Impl {
	var im c16Impl
	res, _ := safely(func() string {
		n := mustNode(w)
		im.rawW = encRawGo(jd.VerifRaw(n))
		im.jsonText = n.Json()
		im.yamlText = n.Yaml()
		im.jsonBlank = c16TextIsBlank(im.jsonText)
		im.yamlBlank = c16TextIsBlank(im.yamlText)
		var jv, yv interface{}
		if err := json.Unmarshal([]byte(im.jsonText), &jv); err != nil {
			im.jsonDec = "err"
		} else {
			im.jsonDec = encRawGo(jv)
		}
		if err := yaml.Unmarshal([]byte(im.yamlText), &yv); err != nil {
			im.yamlDec = "err"
		} else {
			im.yamlDec = encRawGo(yv)
		}
		mj, err := jd.ReadJsonString(im.jsonText)
		im.readJson = encGlueOutcome(mj, err)
		if err != nil {
			im.jErr = err.Error()
		} else {
			im.jEq = mj.Equals(mustNode(w)) && mustNode(w).Equals(mj)
			im.jJsonSame = mj.Json() == im.jsonText
		}
		my, err := jd.ReadYamlString(im.yamlText)
		im.readYaml = encGlueOutcome(my, err)
		if err != nil {
			im.yErr = err.Error()
		} else {
			im.yEq = my.Equals(mustNode(w)) && mustNode(w).Equals(my)
			im.yJsonSame = my.Json() == im.jsonText
		}
		return "done"
	})
	im.panicked = res == "panic"
	return im
}

func addC16DocCase(run *Run, v *Val, label string) {
	w := v.Wire()
	c := Case{Recipe: Recipe{"c16", []string{w}}, Desc: map[string]string{"kind": "doc:" + label, "doc": short(v.Human()), "doc_wire": w}}
	c.Sig = "d|" + w
	c.Nontrivial = v.K != KVoid
	im := c16RunImpl(w)
	if im.panicked {
		c.Probes = append(c.Probes, Probe{Kind: "direct", Rel: "C16 rendering and reading do not panic", Want: "fail panic while rendering or reading " + short(v.Human())})
		run.Add(c)
		return
	}
	c.Desc["json"] = short(im.jsonText)
	c.Desc["yaml"] = short(im.yamlText)
	merge := c16HasMergeKey(v)
	void := c16HasVoid(v)
	c.Probes = append(c.Probes, Probe{Kind: "corr", Rel: "raw() = rawM", Line: "rawof " + w, Want: im.rawW})
	if !void {
		// encoding/json: Unmarshal ∘ Marshal is the identity on raw() values
		c.Probes = append(c.Probes, Probe{Kind: "corr", Rel: "json.Unmarshal(n.Json()) = rawM n (identity contract)", Line: "rawof " + w, Want: im.jsonDec})
		// yaml.v2: the contract
		if merge {
			c.Probes = append(c.Probes, Probe{Kind: "oracle", Rel: "yaml.Unmarshal(n.Yaml()) = yamlize (rawM n) (contract, class KF-C16-mergekey)", Line: "c16contract " + w + " " + im.yamlDec})
		} else {
			c.Probes = append(c.Probes, Probe{Kind: "corr", Rel: "yaml.Unmarshal(n.Yaml()) = yamlize (rawM n) (contract)", Line: "yamlize " + im.rawW, Want: im.yamlDec})
		}
	}
	// unmarshal (node_read.go) given what the decoders really produced
	c.Probes = append(c.Probes,
		Probe{Kind: "corr", Rel: "ReadJsonString = unmarshalM", Line: "unmarshal " + boolWire(im.jsonBlank) + " " + im.jsonDec, Want: im.readJson},
		Probe{Kind: "corr", Rel: "ReadYamlString = unmarshalM", Line: "unmarshal " + boolWire(im.yamlBlank) + " " + im.yamlDec, Want: im.readYaml},
	)
	if !void && !merge && !im.yamlBlank {
		c.Probes = append(c.Probes,
			Probe{Kind: "corr", Rel: "ReadYamlString(n.Yaml()) = newJsonNodeM (yamlize (rawM n))", Line: "yamlrt " + w, Want: im.readYaml},
			Probe{Kind: "corr", Rel: "ReadJsonString(n.Json()) = newJsonNodeM (rawM n)", Line: "jsonrt " + w, Want: im.readJson},
		)
	}
	// the property itself
	verdict := "ok"
	switch {
	case im.jErr != "":
		verdict = c16Verdict("", "the JSON rendering cannot be read back ("+im.jErr+"): "+short(v.Human()))
	case !im.jEq:
		verdict = c16Verdict("", "the document read back from its JSON rendering is not Equal: "+short(v.Human()))
	case !im.jJsonSame:
		verdict = c16Verdict("", "the document read back from its JSON rendering renders differently: "+short(v.Human()))
	case im.yErr != "":
		verdict = c16Verdict(c16Class(v, false), "the YAML rendering cannot be read back ("+im.yErr+"): "+short(v.Human())+" yaml="+strconv.Quote(short(im.yamlText)))
	case !im.yEq:
		verdict = c16Verdict(c16Class(v, false), "the document read back from its YAML rendering is not Equal: "+short(v.Human())+" yaml="+strconv.Quote(short(im.yamlText))+" read="+short(im.readYaml))
	case !im.yJsonSame:
		verdict = c16Verdict(c16Class(v, true), "the document read back from its YAML rendering is Equal but renders as different JSON: "+short(v.Human())+" yaml="+strconv.Quote(short(im.yamlText))+" read="+short(im.readYaml))
	}
	c.Probes = append(c.Probes, Probe{Kind: "direct", Rel: "C16 read(render n) Equals n and re-renders to the same JSON, for the YAML and the JSON carrier", Want: verdict})
	run.Count("kind:doc")
	run.Count("root:" + []string{"void", "null", "bool", "num", "str", "arr", "obj"}[v.K])
	run.Count("size:" + sizeBucket(v.Size()))
	if merge {
		run.Count("class:mergekey")
	}
	if c16HasNegZero(v) {
		run.Count("class:negzero")
	}
	if c16BlankRoot(v) {
		run.Count("class:blankroot")
	}
	run.Add(c)
}

// tagged arrays (jsonList / jsonSet / jsonMultiset typed nodes): only raw() is compared
func addC16RawCase(run *Run, v *Val) {
	w := v.Wire()
	c := Case{Recipe: Recipe{"c16r", []string{w}}, Desc: map[string]string{"kind": "raw-tagged", "doc": short(v.Human()), "doc_wire": w}}
	c.Sig = "r|" + w
	c.Nontrivial = true
	out, _ := safely(func() string { return encRawGo(jd.VerifRaw(mustNode(w))) })
	c.Probes = append(c.Probes, Probe{Kind: "corr", Rel: "raw() = rawM (typed array nodes)", Line: "rawof " + w, Want: out})
	run.Count("kind:raw-tagged")
	run.Add(c)
}

// pairs: diffs and patches of YAML-carried documents
func addC16PairCase(run *Run, a, b *Val) {
	aw, bw := a.Wire(), b.Wire()
	c := Case{Recipe: Recipe{"c16p", []string{aw, bw}}, Desc: map[string]string{"kind": "pair", "a": short(a.Human()), "b": short(b.Human()), "a_wire": aw, "b_wire": bw}}
	c.Sig = "p|" + aw + "|" + bw
	verdict := "ok"
	class := ""
	if c16HasMergeKey(a) || c16HasMergeKey(b) {
		class = "mergekey"
	} else if c16HasNegZero(a) || c16HasNegZero(b) {
		class = "negzero"
	}
	res, _ := safely(func() string {
		na, nb := mustNode(aw), mustNode(bw)
		ya, err := jd.ReadYamlString(na.Yaml())
		if err != nil {
			verdict = c16Verdict(class, "a's YAML rendering cannot be read back: "+err.Error())
			return "done"
		}
		yb, err := jd.ReadYamlString(nb.Yaml())
		if err != nil {
			verdict = c16Verdict(class, "b's YAML rendering cannot be read back: "+err.Error())
			return "done"
		}
		dj := na.Diff(nb).Render()
		dy := ya.Diff(yb).Render()
		c.Nontrivial = dj != ""
		if dj != dy {
			verdict = c16Verdict(class, "the diff of the YAML-carried documents differs from the diff of the JSON-carried ones: "+strconv.Quote(short(dy))+" vs "+strconv.Quote(short(dj)))
			return "done"
		}
		d, err := jd.ReadDiffString(dj)
		if err != nil {
			return "done" // C02's business
		}
		p, err := ya.Patch(d)
		if err != nil {
			verdict = c16Verdict(class, "the diff does not apply to the YAML-carried document: "+err.Error())
			return "done"
		}
		if p.Json() != mustNode(bw).Json() || p.Yaml() != mustNode(bw).Yaml() {
			verdict = c16Verdict(class, "patching the YAML-carried document gives "+short(p.Json())+" instead of "+short(mustNode(bw).Json()))
		}
		return "done"
	})
	if res == "panic" {
		verdict = "fail panic in the YAML diff / patch pipeline"
	}
	c.Probes = append(c.Probes, Probe{Kind: "direct", Rel: "C16 diff and patch of YAML-carried documents = those of the JSON-carried documents", Want: verdict})
	run.Count("kind:pair")
	run.Add(c)
}

func c16Retag(r *Rng, v *Val) {
	if v.K == KArr {
		v.Tag = []string{"r", "l", "s", "m", "s"}[r.Intn(5)]
	}
	for _, e := range v.A {
		c16Retag(r, e)
	}
	for _, e := range v.O {
		c16Retag(r, e)
	}
}

// addC16Batch renders SEVERAL documents first (YAML and JSON), keeps the texts, and only then reads them back: a
// text must still be what it was when it was returned (a renderer must not hand out a buffer it re-uses)
func addC16Batch(run *Run, docs []*Val) {
	ws := []string{}
	for _, d := range docs {
		ws = append(ws, d.Wire())
	}
	c := Case{Recipe: Recipe{"c16batch", ws}, Desc: map[string]string{"documents": fmt.Sprint(len(docs))}, Nontrivial: true, Sig: "batch|" + strings.Join(ws, "|")}
	verdict := "ok"
	res, _ := safely(func() string {
		nodes := []jd.JsonNode{}
		for _, w := range ws {
			nodes = append(nodes, mustNode(w))
		}
		ys, js, ys0, js0 := []string{}, []string{}, []string{}, []string{}
		for _, nd := range nodes {
			y := nd.Yaml()
			ys = append(ys, y)
			ys0 = append(ys0, strings.Clone(y)) // a private copy of the bytes as they were when returned
			j := nd.Json()
			js = append(js, j)
			js0 = append(js0, strings.Clone(j))
		}
		for i := range nodes {
			if ys[i] != ys0[i] || js[i] != js0[i] {
				verdict = fmt.Sprintf("fail the text returned for document %d changed after later documents were rendered", i)
				return "done"
			}
			back, err := jd.ReadYamlString(ys[i])
			if err != nil || !back.Equals(nodes[i]) || !nodes[i].Equals(back) {
				verdict = fmt.Sprintf("fail document %d read back from the YAML text kept from a batch of renderings is not Equal to it", i)
				return "done"
			}
		}
		return "done"
	})
	if res == "panic" {
		verdict = "ok panic-elsewhere"
	}
	if strings.HasPrefix(verdict, "ok") {
		verdict = "ok"
	}
	c.Probes = append(c.Probes, Probe{Kind: "direct", Rel: "C16 texts rendered in a batch stay what they were and read back to their documents", Want: verdict})
	run.Count("batch-render")
	run.Add(c)
}

// documents of the known-finding classes of C16 (key "<<", -0) are kept out of the batch probe
func hasMergeKey(v *Val) bool {
	switch v.K {
	case KObj:
		for k, e := range v.O {
			if k == "<<" || hasMergeKey(e) {
				return true
			}
		}
	case KArr:
		for _, e := range v.A {
			if hasMergeKey(e) {
				return true
			}
		}
	}
	return false
}

func hasNegZeroVal(v *Val) bool {
	switch v.K {
	case KNum:
		return v.N == 0 && math.Signbit(v.N)
	case KObj:
		for _, e := range v.O {
			if hasNegZeroVal(e) {
				return true
			}
		}
	case KArr:
		for _, e := range v.A {
			if hasNegZeroVal(e) {
				return true
			}
		}
	}
	return false
}

func propC16(run *Run, n int) {
	run.rule = "(1) every ambiguous scalar of the pool as root, array element, object value and object key; every pool number as root and element; " +
		"(2) n random documents over the pools (strings double as keys; 6 random strings over a hostile alphabet and 6 random numbers per document), " +
		"n/4 pairs (b = mutation of a) for the diff/patch carrier check, n/10 documents with typed array nodes (raw() only); " +
		"(3) n/3 constructed Go values of every Raw shape for NewJsonNode; non-trivial = not the void document; distinct = distinct wire encoding"
	r := NewRng(run.Seed)
	defer func() {
		if c16Bins != nil {
			c16Bins.cleanup()
			c16Bins = nil
		}
	}()
	// process level: the real binaries translate JSON -> YAML -> JSON (and YAML -> JSON -> YAML), stdout and -o
	{
		rc := NewRng(run.Seed ^ 0x16c11)
		fixed := []*Val{VObj("name", VStr("nginx")), VObj("version", VStr("1.10"), "on", VStr("yes"), "n", VStr("012"), "e", VStr("1e3"), "t", VStr("~"), "c", VStr("a: b"), "d", VStr("- x"), "h", VStr("# no")),
			VArr(VStr("null"), VStr("true"), VStr(""), VStr(" "), VStr("0x1f"), VStr("1_000"), VStr(".5"), VStr("2001-01-01"), VNull(), VBool(true), VNum(1.5), VNum(1e21)), VStr("no"), VNum(3), VArr(), VObj()}
		k := 0
		for _, d := range fixed {
			addC16CliCase(run, d, k%2 == 0, k%3 == 0, false)
			k++
		}
		for i := 0; i < n/120+6; i++ {
			cfg := c16Cfg(rc)
			cfg.AllowNull = true
			d := cfg.Doc(rc, 0)
			if d.K == KVoid || hasMergeKey(d) || hasNegZeroVal(d) || c16HasVoid(d) {
				continue
			}
			addC16CliCase(run, d, rc.Chance(1, 2), rc.Chance(1, 2), rc.Chance(1, 3))
		}
		// YAML diff then YAML patch through the binaries: root sequences (element replaced / appended / removed), a root
		// scalar replaced, an object edited
		pairs := [][2]*Val{
			{VArr(VStr("alpha"), VStr("123"), VStr("beta")), VArr(VStr("alpha"), VStr("yes"), VStr("beta"))},
			{VArr(VStr("a")), VArr(VStr("a"), VStr("no"))},
			{VArr(VNum(1), VNum(2), VNum(3)), VArr(VNum(1), VNum(3))},
			{VStr("null"), VStr("~")},
			{VObj("k", VStr("1.0"), "l", VArr(VStr("x"))), VObj("k", VStr("1.00"), "l", VArr(VStr("x"), VStr("y")))},
		}
		for i := 0; i < 4; i++ {
			cfg := c16Cfg(rc)
			a, b := cfg.Pair(rc)
			if a.K == KVoid || b.K == KVoid || hasMergeKey(a) || hasMergeKey(b) || hasNegZeroVal(a) || hasNegZeroVal(b) || c16HasVoid(a) || c16HasVoid(b) {
				continue
			}
			pairs = append(pairs, [2]*Val{a, b})
		}
		for i, pr := range pairs {
			addC16CliPatchCase(run, pr[0], pr[1], i%2 == 0)
		}
	}
	addC16DocCase(run, VVoid(), "void")
	for _, s := range c16Strs {
		addC16DocCase(run, VStr(s), "pool")
		addC16DocCase(run, VArr(VStr(s), VStr(s)), "pool")
		addC16DocCase(run, VObj(s, VStr(s)), "pool")
		addC16DocCase(run, VObj("k", VArr(VObj(s, VObj(s, VStr(s))))), "pool")
	}
	for _, f := range c16Nums {
		addC16DocCase(run, VNum(f), "pool")
		addC16DocCase(run, VArr(VNum(f)), "pool")
		addC16DocCase(run, VObj("n", VNum(f)), "pool")
	}
	for _, d := range []*Val{VNull(), VBool(true), VBool(false), {K: KArr, Tag: "r", A: []*Val{}}, VObj(), VArr(&Val{K: KArr, Tag: "r", A: []*Val{}}, VObj(), VArr(VObj("a", VObj()))), VObj("a", &Val{K: KArr, Tag: "r", A: []*Val{}}, "b", VObj(), "c", VNull())} {
		addC16DocCase(run, d, "pool")
	}
	for i := 0; i < n/50+2; i++ {
		cfg := c16Cfg(r)
		cfg.AllowNull = true
		docs := []*Val{}
		for k := 0; k < 5; k++ {
			d := cfg.Doc(r, 0)
			if d.K == KVoid || hasMergeKey(d) || hasNegZeroVal(d) {
				d = VObj("name", VStr("alpha"), "version", VStr("1.10"), "n", VNum(float64(k)))
			}
			docs = append(docs, d)
		}
		docs = append(docs, VStr("no"))
		addC16Batch(run, docs)
	}
	// fixed batches of documents that differ only in values whose 64-bit hash codes coincide (an 8-byte string and
	// the number with the same IEEE-754 bytes; the empty containers): a rendering must depend on the document, not
	// on its hash code (a memo keyed by the hash hands the first text to the second document)
	for _, tw := range [][2]*Val{{VStr("AAAAAAAA"), VNum(2261634.5098039214)}, {VNum(2261634.5098039214), VStr("AAAAAAAA")}, {VStr("abcdefgh"), VNum(8.540883223036124e+194)}, {VNum(8.540883223036124e+194), VStr("abcdefgh")}} {
		x, y := tw[0], tw[1]
		addC16Batch(run, []*Val{VObj("id", x.Clone(), "tags", VArr(VStr("x"), VStr("1"))), VObj("id", y.Clone(), "tags", VArr(VStr("x"), VStr("1")))})
		addC16Batch(run, []*Val{VArr(x.Clone(), VStr("t")), VArr(y.Clone(), VStr("t")), x.Clone(), y.Clone()})
		addC16Batch(run, []*Val{VObj("o", VObj("i", VArr(VObj("id", x.Clone())))), VObj("o", VObj("i", VArr(VObj("id", y.Clone()))))})
		run.Count("fixed:hash-twin-batches")
	}
	for i := 0; i < n; i++ {
		cfg := c16Cfg(r)
		addC16DocCase(run, cfg.Doc(r, 0), "random")
		if i%4 == 0 {
			a, b := cfg.Pair(r)
			addC16PairCase(run, a, b)
		}
		if i%10 == 0 {
			v := cfg.Doc(r, 0)
			c16Retag(r, v)
			switch r.Intn(6) {
			case 0:
				v = &Val{K: KArr, Tag: "s", A: []*Val{v, VVoid(), v.Clone()}}
			case 1:
				v = VObj("v", VVoid(), "d", v)
			}
			addC16RawCase(run, v)
		}
	}
	// the glue on constructed Go values
	for _, v := range c16OtherVals {
		addC16GlueCase(run, v, "other")
	}
	for _, i := range c16Ints {
		addC16GlueCase(run, i, "int")
	}
	addC16GlueCase(run, mustNode("\"61"), "node")
	addC16GlueCase(run, []interface{}{mustNode("\"61")}, "node")
	addC16GlueCase(run, map[string]interface{}{"a": mustNode("\"61")}, "node")
	addC16GlueCase(run, map[interface{}]interface{}{"a": mustNode("\"61"), "b": 1}, "node")
	addC16GlueCase(run, map[interface{}]interface{}{1: "a"}, "nonstring-key")
	addC16GlueCase(run, int64(1), "int64")
	addC16GlueCase(run, uint64(1), "uint64")
	addC16GlueCase(run, math.NaN(), "nan")
	for i := 0; i < n/3; i++ {
		addC16GlueCase(run, c16GenRaw(r, 0), "random")
	}
}

func init() {
	props["C16"] = propC16
	quickN["C16"] = 3000
	thoroughN["C16"] = 100000
	recipes["c16"] = func(run *Run, a []string) { addC16DocCase(run, mustVal(a[0]), "corpus") }
	recipes["c16r"] = func(run *Run, a []string) { addC16RawCase(run, mustVal(a[0])) }
	recipes["c16p"] = func(run *Run, a []string) { addC16PairCase(run, mustVal(a[0]), mustVal(a[1])) }
	recipes["c16g"] = func(run *Run, a []string) {
		v, err := decRawGo(a[0])
		if err != nil {
			panic("bad raw wire " + a[0] + ": " + err.Error())
		}
		addC16GlueCase(run, v, "corpus")
	}
}
