package main

// Large array indices (beyond 10^6, where a float-formatted index would switch to exponent notation).
//  * v1 (C18): real documents with more than a million elements, a change behind index 10^6: the rendered JSON Patch
//    is evaluated by a small RFC 6902 evaluator written here (test / remove / add only; RFC 6901 array indices), and
//    read back with ReadPatchString and applied — both must give b. Direct probe (the model is not involved: it
//    would have to carry million-element lists through the line protocol).
//  * v2 and v1 (C09, C18): hand-written hunks at large indices are rendered and compared with the model's text (tie).

import (
	"encoding/json"
	"fmt"
	"reflect"
	"strconv"
	"strings"

	jd1 "github.com/josephburnett/jd/lib"
)

type rfcOp struct {
	Op    string          `json:"op"`
	Path  *string         `json:"path"`
	Value json.RawMessage `json:"value"`
}

func rfcTokens(p string) ([]string, error) {
	if p == "" {
		return nil, nil
	}
	if !strings.HasPrefix(p, "/") {
		return nil, fmt.Errorf("pointer %q does not start with /", p)
	}
	toks := strings.Split(p[1:], "/")
	for i, t := range toks {
		for j := 0; j < len(t); j++ {
			if t[j] == '~' && (j+1 >= len(t) || (t[j+1] != '0' && t[j+1] != '1')) {
				return nil, fmt.Errorf("bad escape in %q", p)
			}
		}
		toks[i] = strings.ReplaceAll(strings.ReplaceAll(t, "~1", "/"), "~0", "~")
	}
	return toks, nil
}

func rfcIndex(tok string, n int, allowEnd bool) (int, error) {
	if tok == "-" && allowEnd {
		return n, nil
	}
	if tok == "" || (len(tok) > 1 && tok[0] == '0') {
		return 0, fmt.Errorf("not an array index: %q", tok)
	}
	for _, c := range tok {
		if c < '0' || c > '9' {
			return 0, fmt.Errorf("not an array index: %q", tok)
		}
	}
	i, err := strconv.Atoi(tok)
	if err != nil {
		return 0, err
	}
	if i > n || (i == n && !allowEnd) {
		return 0, fmt.Errorf("index %d out of range (len %d)", i, n)
	}
	return i, nil
}

// rfcEdit applies one op at toks inside doc and returns the new doc
func rfcEdit(doc interface{}, toks []string, op string, val interface{}) (interface{}, error) {
	if len(toks) == 0 {
		switch op {
		case "test":
			if !reflect.DeepEqual(doc, val) {
				return nil, fmt.Errorf("test failed at the root")
			}
			return doc, nil
		case "add":
			return val, nil
		default:
			return nil, fmt.Errorf("remove of the root")
		}
	}
	t := toks[0]
	switch d := doc.(type) {
	case map[string]interface{}:
		if len(toks) == 1 {
			cur, has := d[t]
			switch op {
			case "test":
				if !has || !reflect.DeepEqual(cur, val) {
					return nil, fmt.Errorf("test failed at member %q", t)
				}
			case "remove":
				if !has {
					return nil, fmt.Errorf("remove of a missing member %q", t)
				}
				delete(d, t)
			case "add":
				d[t] = val
			}
			return d, nil
		}
		cur, has := d[t]
		if !has {
			return nil, fmt.Errorf("missing member %q", t)
		}
		nv, err := rfcEdit(cur, toks[1:], op, val)
		if err != nil {
			return nil, err
		}
		d[t] = nv
		return d, nil
	case []interface{}:
		if len(toks) == 1 {
			i, err := rfcIndex(t, len(d), op == "add")
			if err != nil {
				return nil, err
			}
			switch op {
			case "test":
				if !reflect.DeepEqual(d[i], val) {
					return nil, fmt.Errorf("test failed at index %d", i)
				}
				return d, nil
			case "remove":
				return append(d[:i:i], d[i+1:]...), nil
			default:
				out := make([]interface{}, 0, len(d)+1)
				out = append(out, d[:i]...)
				out = append(out, val)
				return append(out, d[i:]...), nil
			}
		}
		i, err := rfcIndex(t, len(d), false)
		if err != nil {
			return nil, err
		}
		nv, err := rfcEdit(d[i], toks[1:], op, val)
		if err != nil {
			return nil, err
		}
		d[i] = nv
		return d, nil
	}
	return nil, fmt.Errorf("path goes through a scalar at %q", t)
}

func rfcApply(docText, patchText string) (interface{}, error) {
	var doc interface{}
	if err := json.Unmarshal([]byte(docText), &doc); err != nil {
		return nil, err
	}
	var ops []rfcOp
	if err := json.Unmarshal([]byte(patchText), &ops); err != nil {
		return nil, fmt.Errorf("patch text is not an array of operations: %v", err)
	}
	for _, o := range ops {
		if o.Path == nil {
			return nil, fmt.Errorf("operation without path")
		}
		toks, err := rfcTokens(*o.Path)
		if err != nil {
			return nil, err
		}
		var val interface{}
		if o.Op == "add" || o.Op == "test" {
			if o.Value == nil {
				return nil, fmt.Errorf("%s without value", o.Op)
			}
			if err := json.Unmarshal(o.Value, &val); err != nil {
				return nil, err
			}
		} else if o.Op != "remove" {
			return nil, fmt.Errorf("unsupported op %q", o.Op)
		}
		doc, err = rfcEdit(doc, toks, o.Op, val)
		if err != nil {
			return nil, err
		}
	}
	return doc, nil
}

func bigArrayText(n int, chg map[int]string, drop map[int]bool, wrap bool) string {
	var b strings.Builder
	if wrap {
		b.WriteString(`{"items":`)
	}
	b.WriteByte('[')
	first := true
	for i := 0; i < n; i++ {
		if drop[i] {
			continue
		}
		if !first {
			b.WriteByte(',')
		}
		first = false
		if s, ok := chg[i]; ok {
			b.WriteString(s)
		} else {
			b.WriteByte('0' + byte(i%7))
		}
	}
	b.WriteByte(']')
	if wrap {
		b.WriteByte('}')
	}
	return b.String()
}

// addC18LargeIndexCase: v1, real documents of n elements, changes at the given indices (replacement) and one dropped element
func addC18LargeIndexCase(run *Run, n int, chgAt []int, dropAt int, wrap bool) {
	chg := map[int]string{}
	for _, i := range chgAt {
		chg[i] = `"x"`
	}
	drop := map[int]bool{}
	if dropAt >= 0 {
		drop[dropAt] = true
	}
	c := Case{Recipe: Recipe{"c18big", []string{fmt.Sprint(n), fmt.Sprint(chgAt), fmt.Sprint(dropAt), boolWire(wrap)}},
		Desc:       map[string]string{"api": "v1 (github.com/josephburnett/jd/lib)", "a": fmt.Sprintf("array of %d small numbers", n), "b": fmt.Sprintf("the same with \"x\" at %v and element %d dropped", chgAt, dropAt)},
		Nontrivial: true, Sig: fmt.Sprintf("big|%d|%v|%d|%v", n, chgAt, dropAt, wrap)}
	verdict := "ok"
	res, msg := safely(func() string {
		as, bs := bigArrayText(n, nil, nil, wrap), bigArrayText(n, chg, drop, wrap)
		a, err := jd1.ReadJsonString(as)
		if err != nil {
			verdict = "ok cannot-read"
			return "done"
		}
		b, _ := jd1.ReadJsonString(bs)
		d := a.Diff(b)
		text, err := d.RenderPatch()
		if err != nil {
			verdict = "fail v1 RenderPatch refuses the diff of two arrays of numbers: " + err.Error()
			return "done"
		}
		got, err := rfcApply(as, text)
		if err != nil {
			verdict = "fail RFC 6902 evaluation of the rendered patch on a fails: " + err.Error() + "; patch " + short(text)
			return "done"
		}
		var want interface{}
		json.Unmarshal([]byte(bs), &want)
		if !reflect.DeepEqual(got, want) {
			verdict = "fail RFC 6902 evaluation of the rendered patch on a does not give b; patch " + short(text)
			return "done"
		}
		rd, err := jd1.ReadPatchString(text)
		if err != nil {
			verdict = "fail v1 ReadPatchString rejects the library's own patch: " + err.Error()
			return "done"
		}
		a2, _ := jd1.ReadJsonString(as)
		r, err := a2.Patch(rd)
		if err != nil {
			verdict = "fail patching a with the patch read back fails: " + err.Error() + "; patch " + short(text)
			return "done"
		}
		if !r.Equals(b) {
			verdict = "fail patching a with the patch read back does not give b"
		}
		return "done"
	})
	if res == "panic" {
		verdict = "fail panic: " + short(msg)
	}
	if strings.HasPrefix(verdict, "ok") {
		verdict = "ok"
	}
	c.Probes = append(c.Probes, Probe{Kind: "direct", Rel: "C18 v1 JSON Patch of arrays beyond 10^6 elements: RFC 6902 evaluation (evaluator of the harness) on a gives b; ReadPatchString + Patch on a gives b", Want: verdict})
	run.Count("mode:list-large-index")
	run.Add(c)
}

func init() {
	recipes["c18big"] = func(run *Run, a []string) {
		n, _ := strconv.Atoi(a[0])
		idx := []int{}
		for _, f := range strings.Fields(strings.Trim(a[1], "[]")) {
			i, _ := strconv.Atoi(f)
			idx = append(idx, i)
		}
		d, _ := strconv.Atoi(a[2])
		addC18LargeIndexCase(run, n, idx, d, a[3] == "T")
	}
	recipes["c18refusal"] = func(run *Run, a []string) { addC18AfterRefusalCase(run) }
}

// addC18AfterRefusalCase: v1 RenderPatch of a diff it must refuse AFTER its first operations were produced (an object key
// "-" in a later hunk), then — in the same process, several times — RenderPatch of an ordinary diff: that rendering must
// evaluate (RFC 6902, evaluator of the harness) on a to b whatever was rendered, or refused, before it
func addC18AfterRefusalCase(run *Run) {
	xs, ys := `{"name":"x","opts":{"-":true}}`, `{"name":"y","opts":{"-":false}}`
	as, bs := `{"k":[1,2],"m":{"n":0}}`, `{"k":[1,3],"m":{}}`
	c := Case{Recipe: Recipe{"c18refusal", []string{}}, Desc: map[string]string{"api": "v1 (github.com/josephburnett/jd/lib)", "first": xs + " -> " + ys, "then": as + " -> " + bs},
		Nontrivial: true, Sig: "after-refusal"}
	verdict := "ok"
	res, msg := safely(func() string {
		for round := 0; round < 20; round++ {
			x, _ := jd1.ReadJsonString(xs)
			y, _ := jd1.ReadJsonString(ys)
			x.Diff(y).RenderPatch() // refused or not: its outcome is judged by the ordinary cases
			a, _ := jd1.ReadJsonString(as)
			b, _ := jd1.ReadJsonString(bs)
			text, err := a.Diff(b).RenderPatch()
			if err != nil {
				verdict = "fail v1 RenderPatch refuses an ordinary diff after an earlier rendering: " + err.Error()
				return "done"
			}
			got, err := rfcApply(as, text)
			if err != nil {
				verdict = "fail RFC 6902 evaluation of a patch rendered after an earlier (refused) rendering fails: " + err.Error() + "; patch " + short(text)
				return "done"
			}
			var want interface{}
			json.Unmarshal([]byte(bs), &want)
			if !reflect.DeepEqual(got, want) {
				verdict = "fail RFC 6902 evaluation of a patch rendered after an earlier (refused) rendering does not give b; patch " + short(text)
				return "done"
			}
		}
		return "done"
	})
	if res == "panic" {
		verdict = "fail panic: " + short(msg)
	}
	c.Probes = append(c.Probes, Probe{Kind: "direct", Rel: "C18 a v1 JSON Patch rendering does not depend on renderings (or refusals) before it in the same process", Want: verdict})
	run.Count("mode:render-after-refusal")
	run.Add(c)
}
