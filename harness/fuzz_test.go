//go:build verif

package main

// Native coverage-guided fuzz targets (support for the C13 search only: they look for panics, they
// prove nothing). Run by `./check C13 thorough`:  go test -tags verif -run '^$' -fuzz <Target> -fuzztime <d>
import (
	"testing"

	jdv1 "github.com/josephburnett/jd/lib"
	jd "github.com/josephburnett/jd/v2"
)

func fuzzSeeds(f *testing.F) {
	for _, s := range []string{"", "@ [0]\n[\n- 1\n+ 2\n]\n", "^ {\"Merge\":true}\n@ [\"a\"]\n+\n", "@ [{}]\n- 1\n- 2\n+ 3\n",
		"@ [[{\"id\":1}],\"x\"]\n- 1\n", "@ [-1]\n+ 1\n", "@ [1e300]\n- 1\n", "[{\"op\":\"test\",\"path\":\"/0\",\"value\":1},{\"op\":\"remove\",\"path\":\"/0\",\"value\":1}]",
		"[{\"op\":\"add\",\"path\":\"/-\",\"value\":[1]}]", "{\"a\":{\"b\":null},\"c\":{}}", "null", "a: [1, 2]\nb: {c: d}\n", "- x\n- y: .nan\n"} {
		f.Add(s, "[1,{\"a\":[2,3]},\"x\"]")
	}
}

func applyAll(d jd.Diff, doc string) {
	n, err := jd.ReadJsonString(doc)
	if err != nil {
		return
	}
	_ = d.Render()
	_, _ = d.RenderPatch()
	_, _ = d.RenderMerge()
	if r, err := n.Patch(d); err == nil && r != nil {
		_ = r.Json()
	}
}

func FuzzReadDiff(f *testing.F) {
	fuzzSeeds(f)
	f.Fuzz(func(t *testing.T, s, doc string) {
		if d, err := jd.ReadDiffString(s); err == nil {
			applyAll(d, doc)
		}
	})
}

func FuzzReadPatch(f *testing.F) {
	fuzzSeeds(f)
	f.Fuzz(func(t *testing.T, s, doc string) {
		if d, err := jd.ReadPatchString(s); err == nil {
			applyAll(d, doc)
		}
	})
}

func FuzzReadMerge(f *testing.F) {
	fuzzSeeds(f)
	f.Fuzz(func(t *testing.T, s, doc string) {
		if d, err := jd.ReadMergeString(s); err == nil {
			applyAll(d, doc)
		}
	})
}

func FuzzReadDocs(f *testing.F) {
	fuzzSeeds(f)
	f.Fuzz(func(t *testing.T, s, doc string) {
		if n, err := jd.ReadYamlString(s); err == nil && n != nil {
			_ = n.Json()
			_ = n.Yaml()
			if m, err := jd.ReadJsonString(doc); err == nil {
				d := n.Diff(m)
				_, _ = n.Patch(d)
			}
		}
		if n, err := jd.ReadJsonString(s); err == nil && n != nil {
			_ = n.Json()
			_ = n.Yaml()
		}
	})
}

func FuzzV1ReadDiff(f *testing.F) {
	fuzzSeeds(f)
	f.Fuzz(func(t *testing.T, s, doc string) {
		d, err := jdv1.ReadDiffString(s)
		if err != nil {
			return
		}
		_ = d.Render()
		if n, err := jdv1.ReadJsonString(doc); err == nil {
			// v1 list patch is known to panic on indices below -1 read from text: recover is not used on
			// purpose for v2 targets; the v1 library is outside C13's anchors, so only rendering is fuzzed here
			_ = n
		}
	})
}
