package main

import (
	"encoding/json"
	"fmt"
	"os"
	"os/exec"
	"strings"
	"unicode/utf8"

	jd1 "github.com/josephburnett/jd/lib"
	jd "github.com/josephburnett/jd/v2"
)

// ---------------------------------------------------------------------------------------------
// C13 — malformed or mismatched input yields an error, never a crash
func propC13(run *Run, n int) {
	run.rule = "(1) structurally valid hostile diffs (paths with negative / huge / out-of-range indices, wrong container kinds, set paths on non-arrays, several values on non-sets, keyed paths, merge flag) x random targets; (2) texts (valid ones mutated, line soups, JSON fragments) through all five readers, successfully read diffs applied to random targets; non-trivial = a reader accepted the text or the patch was attempted on a container; distinct = distinct (diff or text, target)"
	r := NewRng(run.Seed)
	cfg := DefaultCfg()
	cfg.ScalarBias = 4
	for i := 0; i < n/2; i++ {
		t := cfg.Doc(r, 0)
		dw := hostileDiff(r, cfg)
		if r.Chance(1, 2) {
			// target-aware: hunks that match the target for a while and then run past its ends
			t = cfg.Arr(r, 0)
			if r.Chance(1, 3) {
				t = VObj("k", t)
			}
			if w, ok := nearMissDiff(r, cfg, t); ok {
				dw = w
			}
		}
		addC13Patch(run, t, dw)
		if r.Chance(1, 3) {
			// the SAME document value patched again after a patch that removed something and possibly failed half-way
			// (a diff made for another document): the second call too ends with a result or an error
			var dw2 string
			if w, ok := nearMissDiff(r, cfg, t); ok && r.Chance(1, 2) {
				dw2 = w
			} else {
				dw2 = tailRemovalDiff(r, t)
			}
			addC13TwoStep(run, t, dw, dw2)
		}
	}
	// two hunks of ONE diff on the same array: the first edits it through a set / multiset / index path (leaving a node
	// of another Go type in the document being patched), the second addresses it as a whole value with no / one / two
	// removed and added values
	for i := 0; i < 6; i++ {
		t, dw := keyArrayThenLookup(r)
		run.Count("two-hunks:key-array-edit-then-keyed-lookup")
		addC13Patch(run, t, dw)
	}
	for i := 0; i < n/40+8; i++ {
		t, dw := twoHunkSamePath(r)
		run.Count("two-hunks:array-edit-then-whole-value")
		addC13Patch(run, t, dw)
	}
	for i := 0; i < n/2; i++ {
		addC13Text(run, hostileText(r, cfg), cfg.Doc(r, 0))
	}
	// JSON Patch documents whose pointers hold a stray or trailing '~' (not an RFC 6901 escape)
	for _, ptr := range []string{"/a~", "/~", "/a/0/~", "/a~0~", "/a~2b", "/~~0", "/a~/b", "~", "/0~", "/-~"} {
		for _, op := range []string{`{"op":"add","path":%q,"value":1}`, `{"op":"test","path":%q,"value":1},{"op":"remove","path":%q,"value":1}`, `{"op":"test","path":"/0","value":1},{"op":"add","path":%q,"value":2}`} {
			txt := "[" + strings.ReplaceAll(op, "%q", fmt.Sprintf("%q", ptr)) + "]"
			addC13Text(run, txt, VObj("a", VArr(VNum(1)), "a~", VNum(1), "~", VNum(1)))
		}
	}
}

// keyArrayThenLookup: a keyed member whose KEY VALUE is an array; an earlier hunk edits that array in place (which leaves
// a node of another Go type as the member's key value), a later hunk looks a member of the same array up by key
func keyArrayThenLookup(r *Rng) (*Val, string) {
	t := VArr(VObj("id", VArr(VNum(1), VNum(2)), "x", VNum(1)), VObj("id", VArr(VNum(7)), "x", VNum(5)))
	keyOf := func(v *Val) string { return "SK { \"6964 " + v.Wire() + " }" }
	var h1 string
	switch r.Intn(3) {
	case 0: // append to the key array of the first member
		h1 = fmt.Sprintf("( s %s K\"6964 I2 | #4000000000000000 | | #4008000000000000 | V )", keyOf(VArr(VNum(1), VNum(2))))
	case 1: // as a set
		h1 = fmt.Sprintf("( s %s K\"6964 S | | | #4008000000000000 | )", keyOf(VArr(VNum(1), VNum(2))))
	default: // replace an element
		h1 = fmt.Sprintf("( s %s K\"6964 I0 | V | #3ff0000000000000 | #4022000000000000 | #4000000000000000 )", keyOf(VArr(VNum(1), VNum(2))))
	}
	h2 := fmt.Sprintf("( s %s K\"78 | | #4014000000000000 | #4018000000000000 | )", keyOf(VArr(VNum(7))))
	if r.Chance(1, 3) {
		t = VObj("k", t)
		h1 = strings.Replace(h1, "( s ", "( s K\"6b ", 1)
		h2 = strings.Replace(h2, "( s ", "( s K\"6b ", 1)
	}
	return t, joinHunks([]string{strings.Join(strings.Fields(h1), " "), strings.Join(strings.Fields(h2), " ")})
}

func twoHunkSamePath(r *Rng) (*Val, string) {
	arr := VArr(VNum(1), VNum(2))
	if r.Chance(1, 3) {
		arr = VArr()
	}
	var t *Val = arr
	pre := ""
	switch r.Intn(4) {
	case 0:
		t, pre = VObj("a", arr), "K\"61 "
	case 1:
		t, pre = VArr(VNum(0), arr), "I1 "
	case 2:
		t, pre = VObj("a", VObj("b", arr)), "K\"61 K\"62 "
	}
	var h1 string
	switch r.Intn(4) {
	case 0:
		h1 = fmt.Sprintf("( s %sS | | | #4008000000000000 | )", pre)
	case 1:
		h1 = fmt.Sprintf("( s %sM | | | #4008000000000000 | )", pre)
	case 2:
		h1 = fmt.Sprintf("( s %sI-1 | | | #4008000000000000 | )", pre)
	default:
		h1 = fmt.Sprintf("( s %sI0 | V | | #4008000000000000 | )", pre)
	}
	vals := func(k int) string {
		out := []string{}
		for j := 0; j < k; j++ {
			if r.Chance(1, 2) {
				out = append(out, arr.Wire())
			} else {
				out = append(out, "#4014000000000000")
			}
		}
		return strings.Join(out, " ")
	}
	kind := "s"
	if r.Chance(1, 4) {
		kind = "m"
	}
	h2 := fmt.Sprintf("( %s %s| | %s | %s | )", kind, pre, vals(r.Intn(3)), vals(r.Intn(3)))
	return t, joinHunks([]string{strings.Join(strings.Fields(h1), " "), strings.Join(strings.Fields(h2), " ")})
}

// tailRemovalDiff: a hunk that removes the LAST element of an array of the target (root, or below key "k")
func tailRemovalDiff(r *Rng, t *Val) string {
	arr, path := t, ""
	if t.K == KObj {
		if v, ok := t.O["k"]; ok && v.K == KArr {
			arr, path = v, "K\"6b "
		}
	}
	if arr.K != KArr || len(arr.A) == 0 {
		return "< ( s I0 | | #3ff0000000000000 | | ) >"
	}
	i := len(arr.A) - 1
	return fmt.Sprintf("< ( s %sI%d | | %s | | ) >", path, i, arr.A[i].Wire())
}

// addC13TwoStep applies two diffs one after the other to the same Go document value
func addC13TwoStep(run *Run, t *Val, dw1, dw2 string) {
	tw := t.Wire()
	c := Case{Recipe: Recipe{"c13two", []string{tw, dw1, dw2}}, Desc: map[string]string{"target": t.Human(), "diff1": dw1, "diff2": dw2}}
	c.Nontrivial = t.K == KArr || t.K == KObj
	c.Sig = "two|" + tw + "|" + dw1 + "|" + dw2
	verdict := "ok"
	res, msg := safely(func() string {
		n := mustNode(tw)
		d1, d2 := mustDiff(dw1), mustDiff(dw2)
		r1, err := n.Patch(d1)
		_, _ = n.Patch(d2)
		if err == nil && r1 != nil {
			_, _ = r1.Patch(d2)
		}
		_, _ = n.Patch(d1)
		return "done"
	})
	if res == "panic" {
		verdict = "fail a second Patch on the same document value panicked: " + msg
	}
	c.Probes = append(c.Probes, Probe{Kind: "direct", Rel: "C13 Patch again on the same document value (after a patch that removed elements or failed half-way) does not panic", Want: verdict})
	run.Count("two-step")
	run.Add(c)
}

func hostileDiff(r *Rng, cfg GenCfg) string {
	elems := []string{"K\"61", "K\"62", "K\"", "I0", "I1", "I2", "I-1", "I-2", "I5", "I99999999999", "I-9223372036854775808", "S", "M",
		"SK { \"6964 #3ff0000000000000 }", "SK { }", "MK { \"6964 #3ff0000000000000 }", "SK { \"61 [r #3ff0000000000000 ] }",
		// keyed paths holding null for a key (the second, tolerant pass of the keyed lookup runs when no member matches exactly)
		"SK { \"6964 N }", "SK { \"61 N \"62 #3ff0000000000000 }", "SK { \"61 #3ff0000000000000 \"7a N }"}
	nh := 1 + r.Intn(3)
	hs := []string{}
	for h := 0; h < nh; h++ {
		pl := r.Intn(4)
		path := []string{}
		for k := 0; k < pl; k++ {
			path = append(path, elems[r.Intn(len(elems))])
		}
		vals := func(max int, allowVoid bool) string {
			k := r.Intn(max + 1)
			out := []string{}
			for j := 0; j < k; j++ {
				if allowVoid && r.Chance(1, 5) {
					out = append(out, "V")
				} else {
					out = append(out, cfg.Doc(r, 2).Wire())
				}
			}
			return strings.Join(out, " ")
		}
		m := "s"
		if r.Chance(1, 4) {
			m = "m"
		}
		w := fmt.Sprintf("( %s %s | %s | %s | %s | %s )", m, strings.Join(path, " "), vals(2, true), vals(3, true), vals(3, true), vals(2, true))
		hs = append(hs, strings.Join(strings.Fields(w), " "))
	}
	return joinHunks(hs)
}

// nearMissDiff builds a strict list hunk on an array of the target whose before-context and leading
// removals are the target's own elements, and whose removals / after-context / index then run past the
// end of the array (or start before its beginning).
func nearMissDiff(r *Rng, cfg GenCfg, t *Val) (string, bool) {
	path := ""
	arr := t
	if t.K == KObj {
		path = "K\"6b "
		arr = t.O["k"]
	}
	if arr == nil || arr.K != KArr {
		return "", false
	}
	n := len(arr.A)
	i := r.Intn(n + 2)
	if r.Chance(1, 8) {
		i = n + 1 + r.Intn(3)
	}
	before := "V"
	if i > 0 && i-1 < n {
		before = arr.A[i-1].Wire()
	}
	if r.Chance(1, 5) {
		before = ""
	}
	rem := []string{}
	for j := i; j < n; j++ {
		rem = append(rem, arr.A[j].Wire())
		if r.Chance(1, 4) {
			break
		}
	}
	extra := r.Intn(3)
	if r.Chance(1, 2) {
		extra = 0
	}
	for k := 0; k < extra; k++ {
		rem = append(rem, cfg.scalar(r).Wire())
	}
	after := "V"
	if k := i + len(rem) - extra; k < n && extra == 0 && r.Chance(2, 3) {
		after = arr.A[k].Wire()
	}
	if r.Chance(1, 6) {
		after = after + " " + cfg.scalar(r).Wire()
	}
	add := ""
	if r.Chance(1, 2) {
		add = cfg.scalar(r).Wire()
	}
	w := fmt.Sprintf("( s %sI%d | %s | %s | %s | %s )", path, i, before, strings.Join(rem, " "), add, after)
	return joinHunks([]string{strings.Join(strings.Fields(w), " ")}), true
}

func addC13Patch(run *Run, t *Val, dw string) {
	tw := t.Wire()
	c := Case{Recipe: Recipe{"c13p", []string{tw, dw}}, Desc: map[string]string{"target": t.Human(), "diff": dw}}
	out := implPatch(tw, dw)
	c.Desc["impl_patch"] = out
	c.Nontrivial = t.K == KArr || t.K == KObj
	c.Sig = tw + "|" + dw
	v := "ok"
	if out == "panic" {
		v = "fail Patch panicked"
	}
	c.Probes = append(c.Probes,
		Probe{Kind: "corr", Rel: "Patch panics = patchM panics (hostile diffs)", Line: fmt.Sprintf("patchpanics %s %s", tw, dw), Want: panicClass(out)},
		Probe{Kind: "direct", Rel: "C13 Patch returns a result or an error, never panics", Want: v},
	)
	run.Count("patch_outcome:" + strings.Fields(out)[0])
	run.Add(c)
}

func panicClass(out string) string {
	if out == "panic" {
		return "panic"
	}
	return "nopanic"
}

func hostileText(r *Rng, cfg GenCfg) string {
	switch r.Intn(7) {
	case 0: // line soup for the native reader
		return malformedDiffText(r, nil)
	case 1: // a valid native diff, mutated
		a, b := cfg.Pair(r)
		s, _ := safely(func() string { return mustNode(a.Wire()).Diff(mustNode(b.Wire())).Render() })
		return mutateText(r, s)
	case 2: // a valid JSON Patch, mutated
		a, b := cfg.Pair(r)
		s, _ := safely(func() string {
			t, err := mustNode(a.Wire()).Diff(mustNode(b.Wire())).RenderPatch()
			if err != nil {
				return "[]"
			}
			return t
		})
		return mutateText(r, s)
	case 6: // a valid JSON Patch cut after any of its operations (still valid JSON, truncated hunks)
		a, b := cfg.Pair(r)
		s, _ := safely(func() string {
			t, err := mustNode(a.Wire()).Diff(mustNode(b.Wire())).RenderPatch()
			if err != nil {
				return "[]"
			}
			return t
		})
		var ops []json.RawMessage
		if json.Unmarshal([]byte(s), &ops) == nil && len(ops) > 0 {
			k := r.Intn(len(ops) + 1)
			lo := 0
			if r.Chance(1, 3) {
				lo = r.Intn(k + 1)
			}
			bs, _ := json.Marshal(ops[lo:k])
			return string(bs)
		}
		return s
	case 3: // JSON Patch shaped fragments
		frags := []string{`[]`, `null`, `{}`, `[null]`, `[1]`, `[{}]`, `[{"op":"test"}]`, `[{"op":"test","path":"/a"}]`, `[{"op":"add","path":"a","value":1}]`,
			`[{"op":"add","path":"/0","value":1}]`, `[{"op":"test","path":"/0","value":1},{"op":"remove","path":"/0","value":1}]`,
			`[{"op":"test","path":"/0","value":1},{"op":"remove","path":"/1","value":1}]`, `[{"op":"test","path":"/0","value":1},{"op":"remove","path":"/0","value":2}]`,
			`[{"op":"replace","path":"/0","value":1}]`, `[{"op":"test","path":"/1","value":1},{"op":"test","path":"/0","value":1},{"op":"test","path":"/a","value":1}]`,
			`[{"op":"test","path":"/1","value":1},{"op":"test","path":"/3","value":1},{"op":"add","path":"","value":1}]`,
			`[{"op":"test","path":"/0","value":1},{"op":"test","path":"/1","value":2}]`, `[{"op":"test","path":"/k/2","value":1},{"op":"test","path":"/k/2","value":1}]`,
			`[{"op":5}]`, `[{"op":"add","path":7}]`, `[{"op":"add","path":"/-","value":[1]}]`, `[{"op":"add","path":"/~2","value":1}]`, `[{"op":"test","path":"/01","value":1},{"op":"remove","path":"/01","value":1}]`,
			`[{"op":"add","path":"/99999999999999999999","value":1}]`, `[{"op":"add","path":"/-5","value":1}]`, `[{"op":"test","path":"/0","value":1}]`}
		return frags[r.Intn(len(frags))]
	case 4: // JSON documents (merge patches / documents), some broken
		d := cfg.Doc(r, 0)
		s, _ := safely(func() string { return mustNode(d.Wire()).Json() })
		if r.Chance(1, 2) {
			return mutateText(r, s)
		}
		return s
	default:
		frags := []string{"", " ", "\n", "{", "[", "]", "}", "nul", "tru", "\"", "\"\\u12\"", "\"\\ud800\"", "1e999", "-", "01", "1.", ".5", "[1,]", "{\"a\":}", "{\"a\":1,}", "{\"a\" 1}", "{1:2}", "[1 2]", "\"a\nb\"", "\u00a0", "\u2028", "- x", "a: b", "a: [1, 2", "? x", "*a", "&a b", "!!binary x", "<<: 1", ".nan", ".inf", "-.inf", "0x10", "1_000", "~", "%YAML 1.1", "---\n...", "a:\n  - b\n  - c: d", "\t", "- - - x", "{a: 1}", "[a, b]", "'x'", "\"\\x41\"", "|\n  lit", ">\n  fold", "2001-01-01", "18446744073709551615", "9223372036854775808", "1e400"}
		return frags[r.Intn(len(frags))]
	}
}

func mutateText(r *Rng, s string) string {
	if len(s) == 0 {
		return s
	}
	b := []byte(s)
	for k := 0; k < 1+r.Intn(3); k++ {
		switch r.Intn(5) {
		case 0:
			i := r.Intn(len(b))
			b = append(b[:i], b[i+1:]...)
		case 1:
			i := r.Intn(len(b) + 1)
			ins := []byte("@^-+[] \n\"{}:,01e.~/x")
			b = append(b[:i], append([]byte{ins[r.Intn(len(ins))]}, b[i:]...)...)
		case 2:
			i := r.Intn(len(b))
			alpha := []byte("@^-+[] \n\"{}:,01e.~/x")
			b[i] = alpha[r.Intn(len(alpha))]
		case 3:
			i := r.Intn(len(b))
			b = b[:i]
		default:
			i, j := r.Intn(len(b)), r.Intn(len(b))
			b[i], b[j] = b[j], b[i]
		}
		if len(b) == 0 {
			break
		}
	}
	return string(b)
}

func addC13Text(run *Run, text string, t *Val) {
	tw := t.Wire()
	c := Case{Recipe: Recipe{"c13t", []string{text, tw}}, Desc: map[string]string{"text": text, "target": t.Human()}}
	c.Sig = text + "|" + tw
	type reader struct {
		name string
		op   string
		f    func() string
	}
	readers := []reader{
		{"ReadDiffString", "readdiff", func() string { return encOutcomeDiff(jd.ReadDiffString(text)) }},
		{"ReadPatchString", "readpatch", func() string { return encOutcomeDiff(jd.ReadPatchString(text)) }},
		{"ReadMergeString", "readmerge", func() string { return encOutcomeDiff(jd.ReadMergeString(text)) }},
		{"ReadJsonString", "readjson", func() string { return encOutcomeNode(jd.ReadJsonString(text)) }},
		{"ReadYamlString", "", func() string {
			n, err := jd.ReadYamlString(text)
			if err != nil {
				return "err"
			}
			// rendering what was read must not panic either
			_ = n.Json()
			return "ok"
		}},
	}
	valid := utf8.ValidString(text)
	nd := numDict([]string{tw}, []string{text})
	for _, rd := range readers {
		out, _ := safely(rd.f)
		v := "ok"
		if out == "panic" {
			v = "fail " + rd.name + " panicked"
		}
		c.Probes = append(c.Probes, Probe{Kind: "direct", Rel: "C13 " + rd.name + " returns a result or an error, never panics", Want: v})
		run.Count(rd.name + ":" + strings.Fields(out)[0])
		if rd.op != "" && valid && !strings.ContainsAny(text, "\x00") {
			c.Probes = append(c.Probes, Probe{Kind: "corr", Rel: rd.name + " = model reader (accept / reject / panic class)", Line: fmt.Sprintf("%s %s %s", rd.op+"class", nd, textWire(text)), Want: strings.Fields(out)[0]})
		}
		if strings.HasPrefix(out, "ok <") {
			c.Nontrivial = true
			dw := out[3:]
			po := implPatch(tw, dw)
			pv := "ok"
			if po == "panic" {
				pv = "fail Patch panicked on a diff read by " + rd.name
			}
			c.Probes = append(c.Probes,
				Probe{Kind: "corr", Rel: "Patch panics = patchM panics (diffs read from hostile text)", Line: fmt.Sprintf("patchpanics %s %s", tw, dw), Want: panicClass(po)},
				Probe{Kind: "direct", Rel: "C13 Patch of a read diff never panics", Want: pv})
			// renderers on read diffs must not panic
			rv := "ok"
			rr, _ := safely(func() string {
				d := mustDiff(dw)
				_ = d.Render()
				_, _ = d.RenderPatch()
				_, _ = mustDiff(dw).RenderMerge()
				return "done"
			})
			if rr == "panic" {
				rv = "fail a renderer panicked on a diff read by " + rd.name
			}
			c.Probes = append(c.Probes, Probe{Kind: "direct", Rel: "C13 renderers never panic on read diffs", Want: rv})
		}
	}
	run.Add(c)
}

// ---------------------------------------------------------------------------------------------
// C15 — diffing and rendering are pure and deterministic
func propC15(run *Run, n int) {
	run.rule = "(a, b, options) with >= 3 added/removed keys and multi-element list hunks; a random history of 4-8 read-only calls (Diff, Equals, Render, Render(COLOR), RenderPatch, RenderMerge, Json, Yaml) on the SAME Go values, re-observing a, b and the diff after every call; then Patch; the whole batch is re-executed in 2 fresh processes and the outputs compared; non-trivial = the diff has at least one hunk; distinct = distinct (options, a, b, history)"
	r := NewRng(run.Seed)
	choices := coreOptChoices()
	lines := []string{}
	for i := 0; i < n; i++ {
		ch := choices[r.Intn(len(choices))]
		cfg := ch.cfg()
		cfg.MaxKeys = 5
		cfg.ScalarBias = 4
		a, b := cfg.Pair(r)
		hist := []int{}
		for k := 0; k < 4+r.Intn(5); k++ {
			hist = append(hist, r.Intn(len(c15Calls)))
		}
		out := addC15Case(run, ch.o, ch.label, a, b, hist)
		lines = append(lines, out)
	}
	// keys that differ only by case (ties of any case-insensitive ordering): Diff computed again and again
	for _, o := range []OptSet{OptNone, OptMerge, OptSetO} {
		a := VObj("id", VNum(1), "Id", VNum(2), "ID", VNum(3), "iD", VNum(4), "name", VStr("x"))
		b := VObj("id", VNum(10), "Id", VNum(20), "ID", VNum(30), "iD", VNum(40), "name", VStr("y"))
		lines = append(lines, addC15Case(run, o, "case-variant-keys", VObj("o", a), VObj("o", b), []int{0, 0, 0, 0, 0, 2, 4}))
	}
	// hand-written merge diffs in which one hunk adds a container and a later hunk writes inside it
	for _, t := range []string{
		"^ {\"Merge\":true}\n@ [\"a\"]\n+ {\"x\":1}\n^ {\"Merge\":true}\n@ [\"a\",\"y\"]\n+ 2\n",
		"^ {\"Merge\":true}\n@ [\"a\"]\n+ {\"x\":{\"u\":[1]}}\n^ {\"Merge\":true}\n@ [\"a\",\"x\",\"v\"]\n+ {}\n^ {\"Merge\":true}\n@ [\"a\",\"x\",\"v\",\"w\"]\n+ null\n",
		"@ [\"k\"]\n+ {\"x\":1}\n@ [\"k\",\"y\"]\n+ 2\n",
		"@ [0]\n[\n+ [1]\n]\n@ [0,1]\n  1\n+ 2\n]\n",
	} {
		addC15DiffCase(run, "container-then-inside", t)
	}
	// the same history on the v1 library (package lib): Diff, Equals, Render, RenderPatch, RenderMerge, Json
	v1c := v1Choices()
	for i := 0; i < n/4; i++ {
		ch := v1c[r.Intn(len(v1c))]
		if !ch.inDomain {
			continue
		}
		cfg := ch.cfg()
		cfg.MaxKeys = 5
		cfg.ScalarBias = 4
		a, b := cfg.Pair(r)
		hist := []int{}
		for k := 0; k < 4+r.Intn(4); k++ {
			hist = append(hist, r.Intn(len(c15V1Calls)))
		}
		lines = append(lines, addC15V1Case(run, ch.m, ch.label, a, b, hist))
	}
	// merge reader determinism: hunks read from a merge patch in every process run
	for i := 0; i < n/4; i++ {
		cfg := DefaultCfg()
		cfg.MaxKeys = 5
		p := cfg.Obj(r, 0)
		text, _ := safely(func() string { return mustNode(p.Wire()).Json() })
		rd := implReadMerge(text)
		lines = append(lines, rd)
		c := Case{Recipe: Recipe{"c15m", []string{p.Wire()}}, Desc: map[string]string{"merge_patch": text}, Nontrivial: true, Sig: text}
		rd2 := implReadMerge(text)
		v := "ok"
		if rd != rd2 {
			v = "fail two reads of the same merge patch give different hunk orders"
		}
		nd := numDict([]string{p.Wire()}, []string{text})
		c.Probes = append(c.Probes,
			Probe{Kind: "corr", Rel: "ReadMergeString = readMergeM (hunk order)", Line: fmt.Sprintf("readmerge %s %s", nd, textWire(text)), Want: rd},
			Probe{Kind: "direct", Rel: "C15 reading a merge patch is deterministic", Want: v})
		run.Add(c)
	}
	// cross-process determinism
	digest := fmt.Sprintf("%x", fnvStrings(lines))
	if os.Getenv("VERIF_C15_CHILD") == "1" {
		fmt.Println("C15DIGEST " + digest)
		return
	}
	self, err := os.Executable()
	if err == nil {
		for k := 0; k < 2; k++ {
			cmd := exec.Command(self, "-prop", "C15", "-tier", run.Tier, "-seed", fmt.Sprint(run.Seed), "-n", fmt.Sprint(n), "-driver", "/bin/true", "-out", os.DevNull)
			cmd.Env = append(os.Environ(), "VERIF_C15_CHILD=1")
			o, _ := cmd.Output()
			got := ""
			for _, l := range strings.Split(string(o), "\n") {
				if strings.HasPrefix(l, "C15DIGEST ") {
					got = strings.TrimPrefix(l, "C15DIGEST ")
				}
			}
			v := "ok"
			if got != digest {
				v = fmt.Sprintf("fail outputs differ between process runs (digest %s vs %s)", digest, got)
			}
			run.Add(Case{Recipe: Recipe{"none", nil}, Desc: map[string]string{"kind": "fresh process re-execution of the whole batch", "run": fmt.Sprint(k + 1)}, Nontrivial: true, Sig: fmt.Sprint("proc", k),
				Probes: []Probe{{Kind: "direct", Rel: "C15 outputs identical across fresh processes", Want: v}}})
			run.Count("fresh_process_runs")
		}
	}
}

func fnvStrings(ls []string) uint64 {
	h := uint64(0xcbf29ce484222325)
	for _, l := range ls {
		for i := 0; i < len(l); i++ {
			h ^= uint64(l[i])
			h *= 0x100000001b3
		}
		h ^= 0xff
		h *= 0x100000001b3
	}
	return h
}

var c15Calls = []string{"Diff", "Equals", "Render", "RenderColor", "RenderPatch", "RenderMerge", "Json", "Yaml", "JsonOpts", "YamlOpts"}

func addC15Case(run *Run, o OptSet, label string, a, b *Val, hist []int) string {
	aw, bw := a.Wire(), b.Wire()
	hs := []string{}
	for _, h := range hist {
		hs = append(hs, fmt.Sprint(h))
	}
	c := Case{Recipe: Recipe{"c15", []string{o.Wire(), aw, bw, strings.Join(hs, ",")}}, Desc: map[string]string{"options": o.Name(), "a": a.Human(), "b": b.Human()}}
	c.Sig = o.Wire() + "|" + aw + "|" + bw + "|" + strings.Join(hs, ",")
	var log []string
	verdict := "ok"
	var dw0, patchOut string
	res, _ := safely(func() string {
		an, bn := mustNode(aw), mustNode(bw)
		opts := o.Go()
		d := an.Diff(bn, opts...)
		dw0 = jd.VerifEncodeDiff(d)
		first := map[string]string{}
		names := []string{}
		for _, h := range hist {
			name := c15Calls[h]
			names = append(names, name)
			var out string
			switch name {
			case "Diff":
				out = jd.VerifEncodeDiff(an.Diff(bn, opts...))
			case "Equals":
				out = boolWire(an.Equals(bn, opts...))
			case "Render":
				out = d.Render()
			case "RenderColor":
				out = d.Render(jd.COLOR)
			case "RenderPatch":
				s, err := d.RenderPatch()
				out = encOutcomeText(s, err)
			case "RenderMerge":
				s, err := d.RenderMerge()
				out = encOutcomeText(s, err)
			case "Json":
				out = an.Json() + "|" + bn.Json()
			case "Yaml":
				out = an.Yaml() + "|" + bn.Yaml()
			case "JsonOpts": // rendered under the options (arrays as sets / multisets)
				out = an.Json(opts...) + "|" + bn.Json(opts...)
			case "YamlOpts":
				out = an.Yaml(opts...) + "|" + bn.Yaml(opts...)
			}
			log = append(log, name+"="+out)
			if prev, ok := first[name]; ok && prev != out && verdict == "ok" {
				verdict = "fail " + name + " returned different outputs on two calls with the same arguments"
			}
			first[name] = out
			if (jd.VerifEncodeNode(an) != aw || jd.VerifEncodeNode(bn) != bw) && verdict == "ok" {
				verdict = "fail " + name + " changed a document it was given"
			}
			if jd.VerifEncodeDiff(d) != dw0 && verdict == "ok" {
				verdict = "fail " + name + " changed the diff it was given"
			}
		}
		c.Desc["history"] = strings.Join(names, ",")
		adds0 := addsOf(d)
		r, err := an.Patch(d)
		patchOut = encOutcomeNode(r, err)
		if err == nil && r != nil {
			// the document Patch returned is patched again — inside every object it holds, in particular inside
			// the containers the diff added: neither the diff nor b may change (Patch hands copies of the added
			// values to the document; Diff puts nodes of b into the diff)
			if rv, e2 := ParseWire(jd.VerifEncodeNode(r)); e2 == nil {
				cv := rv.Clone()
				touchObjects(cv)
				cn := mustNode(untagVal(cv).Wire())
				d2 := r.Diff(cn, opts...)
				_, _ = r.Patch(d2)
				// (the context and removed values of d are nodes of a, whose objects Patch updates in place: only
				// what d ADDS is compared)
				if addsOf(d) != adds0 && verdict == "ok" {
					verdict = "fail patching the document that Patch returned changed the values the applied diff adds"
					if !o.Has("K") && strings.Contains(dw0, " SK") {
						// without SetKeys a set member is addressed by the WHOLE member object, and a hunk below such a path
						// element exists only when two members share a hash code without being equal (KF-C04-alias: "" / []);
						// that path object IS the member map of a, which Patch updates in place
						verdict = "kf KF-C04-alias a set member addressed by its whole object (reachable only through a hash alias): the path object is the member map Patch updates in place, so applying the diff rewrites its own path"
					}
				}
				if jd.VerifEncodeNode(bn) != bw && verdict == "ok" {
					verdict = "fail patching the document that Patch returned changed document b"
				}
			}
		}
		return "done"
	})
	if res == "panic" {
		verdict = "fail panic during the history"
	}
	c.Nontrivial = hunkCount(dw0) > 0
	// the patch after the history must equal the patch on fresh values
	fresh := implPatch(aw, dw0)
	if verdict == "ok" && patchOut != fresh {
		verdict = "fail after the read-only calls the diff patches differently (" + patchOut + ") than a fresh copy (" + fresh + ")"
	}
	c.Desc["impl_diff"] = dw0
	c.Probes = append(c.Probes,
		Probe{Kind: "corr", Rel: "Diff = diffM", Line: fmt.Sprintf("diff %s %s %s", o.Wire(), aw, bw), Want: dw0},
		Probe{Kind: "direct", Rel: "C15 read-only calls leave documents and diff unchanged, repeat identically, and the diff still patches as a fresh copy does", Want: verdict},
	)
	run.Count("opts:" + label)
	run.Add(c)
	return strings.Join(log, "\n") + "\n" + patchOut
}

// addsOf encodes, hunk by hunk, the path and the added values of a diff
func addsOf(d jd.Diff) string {
	out := []string{}
	for _, e := range d {
		out = append(out, jd.VerifEncodeDiff(jd.Diff{{Metadata: e.Metadata, Path: e.Path, Add: e.Add}}))
	}
	return strings.Join(out, " ")
}

// touchObjects adds a member to every object of the document (an edit inside every container)
func touchObjects(v *Val) {
	switch v.K {
	case KObj:
		for _, e := range v.O {
			touchObjects(e)
		}
		v.O["zz"] = VNum(1)
	case KArr:
		for _, e := range v.A {
			touchObjects(e)
		}
	}
}

// untagWire forgets the Go dynamic types of array nodes (a document as read from text)
func untagVal(v *Val) *Val {
	c := v.Clone()
	var f func(*Val)
	f = func(x *Val) {
		if x.K == KArr {
			x.Tag = "r"
			for _, e := range x.A {
				f(e)
			}
		}
		if x.K == KObj {
			for _, e := range x.O {
				f(e)
			}
		}
	}
	f(c)
	return c
}

// addC15DiffCase: the read-only history on a HAND-WRITTEN diff (read from native text): rendering must not change it
func addC15DiffCase(run *Run, label, text string) {
	c := Case{Recipe: Recipe{"c15d", []string{label, text}}, Desc: map[string]string{"diff_text": text}, Nontrivial: true, Sig: "c15d|" + text}
	verdict := "ok"
	res, _ := safely(func() string {
		d, err := jd.ReadDiffString(text)
		if err != nil {
			verdict = "ok unreadable"
			return "done"
		}
		dw0 := jd.VerifEncodeDiff(d)
		for k := 0; k < 2; k++ {
			r1 := d.Render()
			_, _ = d.RenderPatch()
			m1, e1 := d.RenderMerge()
			if jd.VerifEncodeDiff(d) != dw0 && verdict == "ok" {
				verdict = "fail rendering changed the diff it was given"
			}
			r2 := d.Render()
			m2, e2 := d.RenderMerge()
			if (r1 != r2 || m1 != m2 || (e1 == nil) != (e2 == nil)) && verdict == "ok" {
				verdict = "fail a rendering returned different outputs on two calls"
			}
		}
		return "done"
	})
	if res == "panic" {
		verdict = "fail panic"
	}
	if strings.HasPrefix(verdict, "ok") {
		verdict = "ok"
	}
	c.Probes = append(c.Probes, Probe{Kind: "direct", Rel: "C15 rendering a hand-written diff (native text) leaves it unchanged and repeats identically", Want: verdict})
	run.Count("hand-written-diff:" + label)
	run.Add(c)
}

var c15V1Calls = []string{"Diff", "Equals", "Render", "RenderPatch", "RenderMerge", "Json"}

// addC15V1Case: the history of read-only calls on the SAME Go values of the v1 library
func addC15V1Case(run *Run, m V1Meta, label string, a, b *Val, hist []int) string {
	aw, bw := a.Wire(), b.Wire()
	hs := []string{}
	for _, h := range hist {
		hs = append(hs, fmt.Sprint(h))
	}
	c := Case{Recipe: Recipe{"c15v1", []string{m.Wire(), aw, bw, strings.Join(hs, ",")}}, Desc: map[string]string{"library": "v1", "metadata": m.Name(), "a": a.Human(), "b": b.Human()}}
	c.Sig = "v1|" + m.Wire() + "|" + aw + "|" + bw + "|" + strings.Join(hs, ",")
	var log []string
	verdict := "ok"
	var dw0, patchOut string
	res, _ := safely(func() string {
		an, bn := mustNodeV1(aw), mustNodeV1(bw)
		md := m.Go()
		d := an.Diff(bn, md...)
		dw0 = jd1.VerifEncodeDiff(d)
		first := map[string]string{}
		names := []string{}
		for _, h := range hist {
			name := c15V1Calls[h]
			names = append(names, name)
			var out string
			switch name {
			case "Diff":
				out = jd1.VerifEncodeDiff(an.Diff(bn, md...))
			case "Equals":
				out = boolWire(an.Equals(bn, md...))
			case "Render":
				out = d.Render()
			case "RenderPatch":
				s, err := d.RenderPatch()
				out = encOutcomeText(s, err)
			case "RenderMerge":
				s, err := d.RenderMerge()
				out = encOutcomeText(s, err)
			case "Json":
				out = an.Json() + "|" + bn.Json()
			}
			log = append(log, name+"="+out)
			if prev, ok := first[name]; ok && prev != out && verdict == "ok" {
				verdict = "fail v1 " + name + " returned different outputs on two calls with the same arguments"
			}
			first[name] = out
			if (jd1.VerifEncodeNode(an) != aw || jd1.VerifEncodeNode(bn) != bw) && verdict == "ok" {
				verdict = "fail v1 " + name + " changed a document it was given"
			}
			if jd1.VerifEncodeDiff(d) != dw0 && verdict == "ok" {
				verdict = "fail v1 " + name + " changed the diff it was given"
			}
		}
		c.Desc["history"] = strings.Join(names, ",")
		r, err := an.Patch(d)
		patchOut = encOutcomeNodeV1(r, err)
		return "done"
	})
	if res == "panic" {
		verdict = "fail panic during the v1 history"
	}
	c.Nontrivial = dw0 != "" && dw0 != "< >"
	fresh := implV1Patch(aw, dw0)
	if verdict == "ok" && patchOut != fresh {
		verdict = "fail v1: after the read-only calls the diff patches differently (" + patchOut + ") than a fresh copy (" + fresh + ")"
	}
	c.Desc["impl_diff"] = dw0
	c.Probes = append(c.Probes,
		Probe{Kind: "direct", Rel: "C15 (v1 library) read-only calls leave documents and diff unchanged, repeat identically, and the diff still patches as a fresh copy does", Want: verdict},
	)
	run.Count("v1-opts:" + label)
	run.Add(c)
	return strings.Join(log, "\n") + "\n" + patchOut
}

func init() {
	recipes["c15d"] = func(run *Run, a []string) { addC15DiffCase(run, a[0], a[1]) }
	recipes["c15v1"] = func(run *Run, a []string) {
		hist := []int{}
		for _, s := range strings.Split(a[3], ",") {
			var v int
			fmt.Sscan(s, &v)
			hist = append(hist, v)
		}
		m, err := ParseV1Meta(a[0])
		if err != nil {
			panic(err)
		}
		addC15V1Case(run, m, "corpus", mustVal(a[1]), mustVal(a[2]), hist)
	}
	props["C13"] = propC13
	props["C15"] = propC15
	quickN["C13"] = 4000
	thoroughN["C13"] = 300000
	quickN["C15"] = 1500
	thoroughN["C15"] = 40000
	recipes["c13two"] = func(run *Run, a []string) { addC13TwoStep(run, mustVal(a[0]), a[1], a[2]) }
	recipes["c13p"] = func(run *Run, a []string) { addC13Patch(run, mustVal(a[0]), a[1]) }
	recipes["c13t"] = func(run *Run, a []string) { addC13Text(run, a[0], mustVal(a[1])) }
	recipes["c15"] = func(run *Run, a []string) {
		hist := []int{}
		for _, s := range strings.Split(a[3], ",") {
			var v int
			fmt.Sscan(s, &v)
			hist = append(hist, v)
		}
		addC15Case(run, mustOpts(a[0]), "corpus", mustVal(a[1]), mustVal(a[2]), hist)
	}
}
