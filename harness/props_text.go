package main

import (
	"fmt"
	"math"
	"regexp"
	"sort"
	"strconv"
	"strings"

	jd "github.com/josephburnett/jd/v2"
)

// ---- number dictionary: the graph of strconv on the tokens at hand (DESIGN.md §3 "Numbers") ----

var numTokRe = regexp.MustCompile(`-?(?:0|[1-9][0-9]*)(?:\.[0-9]+)?(?:[eE][+-]?[0-9]+)?`)

func collectNums(v *Val, out map[uint64]bool) {
	switch v.K {
	case KNum:
		out[math.Float64bits(v.N)] = true
	case KArr:
		for _, e := range v.A {
			collectNums(e, out)
		}
	case KObj:
		for _, e := range v.O {
			collectNums(e, out)
		}
	}
}

func collectNumsWire(w string, out map[uint64]bool) {
	for _, t := range strings.Fields(w) {
		if strings.HasPrefix(t, "#") && len(t) == 17 {
			if u, err := strconv.ParseUint(t[1:], 16, 64); err == nil {
				out[u] = true
			}
		}
	}
}

func fmtFloatJSON(f float64) string {
	// what encoding/json writes for a float64
	n, err := jd.NewJsonNode(f)
	if err != nil {
		return ""
	}
	return n.Json()
}

// numDict builds the d=… token from wire-encoded values and raw texts.
func numDict(wires []string, texts []string) string {
	bits := map[uint64]bool{}
	for _, w := range wires {
		collectNumsWire(w, bits)
	}
	pairs := map[string]uint64{}
	for b := range bits {
		f := math.Float64frombits(b)
		if math.IsNaN(f) || math.IsInf(f, 0) {
			continue
		}
		pairs[fmtFloatJSON(f)] = b
	}
	for _, t := range texts {
		for _, tok := range numTokRe.FindAllString(t, -1) {
			if f, err := strconv.ParseFloat(tok, 64); err == nil && !math.IsInf(f, 0) {
				if _, ok := pairs[tok]; !ok {
					pairs[tok] = math.Float64bits(f)
				}
			}
		}
	}
	keys := make([]string, 0, len(pairs))
	for k := range pairs {
		keys = append(keys, k)
	}
	sort.Strings(keys)
	parts := []string{}
	for _, k := range keys {
		parts = append(parts, fmt.Sprintf("%s:%016x", k, pairs[k]))
	}
	return "d=" + strings.Join(parts, ",")
}

var ansiRe = regexp.MustCompile("\x1b\\[[0-9;]*m")

func stripAnsi(s string) string { return ansiRe.ReplaceAllString(s, "") }

func encOutcomeDiff(d jd.Diff, err error) string {
	if err != nil {
		return "err"
	}
	return "ok " + jd.VerifEncodeDiff(d)
}

// ---------------------------------------------------------------------------------------------
// C02 — native jd diff text is a lossless carrier
func propC02(run *Run, n int) {
	run.rule = "(1) diffs of random (a,b) x 9 option profiles incl. nasty strings; (2) exhaustive well-formed hunk shapes (path kind x before x after x removes x adds x merge) singly and in ordered pairs (strict before merge), thorough: sampled triples; (3) malformed line sequences (accept/reject agreement only); non-trivial = at least one hunk; distinct = distinct diff text"
	r := NewRng(run.Seed)
	choices := coreOptChoices()
	per := n / 2
	for i := 0; i < per; i++ {
		ch := choices[r.Intn(len(choices))]
		cfg := ch.cfg()
		if r.Chance(1, 3) {
			cfg.Strs = nastyStrs
			cfg.Keys = nastyKeys
			cfg.Nums = nastyNums
		}
		a, b := cfg.Pair(r)
		a, b = withVoid(r, a, b)
		dw := implDiff(ch.o, a.Wire(), b.Wire())
		addC02Case(run, "diff:"+ch.label, dw, a.Wire(), b.Wire(), ch.o.Wire())
	}
	// chained use: the diff of a document RETURNED BY Patch (whose nodes were built by the library, not by a reader)
	// against a third document must render like the same diff built from decoded values, and its text must carry it
	for i := 0; i < n/60+10; i++ {
		ch := choices[r.Intn(len(choices))]
		cfg := ch.cfg()
		cfg.AllowNull = true
		cfg.ScalarBias = 3
		a, b := cfg.Pair(r)
		c := cfg.Mutate(r, b, 3)
		if a.K == KVoid || b.K == KVoid || c.K == KVoid {
			continue
		}
		addC02Chained(run, ch.o, ch.label, a, b, c)
	}
	// long lines: a value whose JSON text makes a `-`, `+` or context line of about 4 KiB, just below / at /
	// above 64 KiB (the default token limit of bufio.Scanner) and far beyond, followed by further hunks
	for _, size := range []int{4090, 65531, 65532, 65536, 70000, 300000} {
		long := VStr(strings.Repeat("x", size))
		for k := 0; k < 3; k++ {
			var a, b *Val
			switch k {
			case 0: // replaced value, then a second hunk
				a, b = VObj("a", VStr("short"), "b", VNum(1)), VObj("a", long, "b", VNum(2))
			case 1: // long context line in a list, then a second hunk
				a, b = VObj("l", VArr(VNum(1), long, VNum(3)), "z", VNum(1)), VObj("l", VArr(VNum(1), long, VNum(4)), "z", VNum(2))
			default: // long removed line inside an added/removed array value
				a, b = VObj("a", VArr(long, VNum(1)), "b", VNum(1)), VObj("a", VNum(0), "b", VNum(2))
			}
			dw := implDiff(OptNone, a.Wire(), b.Wire())
			run.Count("long-line")
			addC02Case(run, fmt.Sprintf("diff:long-line-%d", size), dw, a.Wire(), b.Wire(), OptNone.Wire())
		}
	}
	// hand-written hunks the reader accepts and Diff never emits: the start / end marker TOGETHER with context lines
	for _, dw := range []string{
		"< ( s K\"61 I1 | V #3ff0000000000000 | #4000000000000000 | #4008000000000000 | #4010000000000000 V ) >",
		"< ( s I1 | V #3ff0000000000000 | #4000000000000000 | | #4010000000000000 ) >",
		"< ( s I1 | #3ff0000000000000 | #4000000000000000 | #4008000000000000 | #4010000000000000 V ) >",
		"< ( s I2 | V #3ff0000000000000 #3ff0000000000000 | #4000000000000000 | #4008000000000000 | V ) >",
	} {
		run.Count("fixed:marker-with-context")
		addC02Case(run, "hand:marker-with-context", dw, "", "", "")
	}
	shapes := hunkShapes()
	run.Count(fmt.Sprintf("hunk_shapes=%d", len(shapes)))
	for _, h := range shapes {
		addC02Case(run, "shape1", joinHunks([]string{h.wire}), "", "", "")
	}
	// ordered pairs: strict hunks may be followed by merge hunks, not the reverse
	pairs := 0
	for _, h1 := range shapes {
		for _, h2 := range shapes {
			if h1.merge && !h2.merge {
				continue
			}
			pairs++
			if run.Tier != "thorough" && r.Intn(40) != 0 {
				continue
			}
			addC02Case(run, "shape2", joinHunks([]string{h1.wire, h2.wire}), "", "", "")
		}
	}
	run.Count(fmt.Sprintf("hunk_shape_pairs_total=%d", pairs))
	for i := 0; i < n/4; i++ {
		hs := []string{}
		seenMerge := false
		for k := 0; k < 3; k++ {
			h := shapes[r.Intn(len(shapes))]
			if seenMerge && !h.merge {
				continue
			}
			seenMerge = seenMerge || h.merge
			hs = append(hs, h.wire)
		}
		addC02Case(run, "shape3", joinHunks(hs), "", "", "")
	}
	for i := 0; i < n/4; i++ {
		addC02Malformed(run, malformedDiffText(r, shapes))
	}
}

type hunkShape struct {
	wire  string
	merge bool
}

// hunkShapes enumerates the well-formed hunk shapes of the property's quantifier (DESIGN.md C02 "WFHunk").
func hunkShapes() []hunkShape {
	one, two, str := "#3ff0000000000000", "#4000000000000000", "\"613c623e"
	obj := "{ \"6964 #3ff0000000000000 }"
	type pk struct {
		wire      string
		arrayLike bool
		index     bool
	}
	paths := []pk{
		{"", false, false},
		{"K\"6b", false, false},
		{"I0", true, true},
		{"K\"6b I1", true, true},
		{"S", true, false},
		{"K\"6b S", true, false},
		{"M", true, false},
		{"SK " + obj + " K\"78", false, false},
		{"SK " + obj, true, false},
		{"I2 K\"7e31", false, false},
	}
	ctx := func(index bool) [][]string {
		if !index {
			return [][]string{{}}
		}
		return [][]string{{}, {"V"}, {str}}
	}
	vals := [][]string{{}, {one}, {str}, {one, two}, {"[r " + one + " ]"}, {"{ \"61 N }"}}
	out := []hunkShape{}
	for _, p := range paths {
		for _, before := range ctx(p.index) {
			for _, after := range ctx(p.index) {
				for _, rem := range vals {
					for _, add := range vals {
						if len(rem) == 0 && len(add) == 0 {
							continue
						}
						if (len(rem) > 1 || len(add) > 1) && !p.arrayLike {
							continue
						}
						w := "( s " + p.wire + " | " + strings.Join(before, " ") + " | " + strings.Join(rem, " ") + " | " + strings.Join(add, " ") + " | " + strings.Join(after, " ") + " )"
						out = append(out, hunkShape{strings.Join(strings.Fields(w), " "), false})
					}
				}
			}
		}
		// merge hunks: no removes, one add (a value or void), only on key paths / root
		if !p.arrayLike && !strings.Contains(p.wire, "SK") {
			for _, add := range [][]string{{one}, {str}, {"V"}, {"{ }"}, {"[r " + one + " ]"}} {
				w := "( m " + p.wire + " | | | " + strings.Join(add, " ") + " | )"
				out = append(out, hunkShape{strings.Join(strings.Fields(w), " "), true})
			}
		}
	}
	return out
}

func addC02Case(run *Run, kind, dw, aw, bw, ow string) {
	c := Case{Recipe: Recipe{"c02", []string{kind, dw, aw, bw, ow}}, Desc: map[string]string{"kind": kind, "diff": dw}}
	c.Nontrivial = hunkCount(dw) > 0
	var text, ctext, d2w, text2 string
	var effect string = "ok"
	res, _ := safely(func() string {
		d := mustDiff(dw)
		text = d.Render()
		ctext = mustDiff(dw).Render(jd.COLOR)
		if again := d.Render(); again != text {
			effect = "fail a second Render of the same Diff value gives a different text (rendering changed the diff)"
		}
		d2, err := jd.ReadDiffString(text)
		d2w = encOutcomeDiff(d2, err)
		if err == nil {
			text2 = d2.Render()
			if again := d2.Render(); again != text2 {
				effect = "fail a second Render of the same re-read Diff value gives a different text (rendering changed the diff)"
			}
			if aw != "" {
				// effect on the document the diff was made for, and on a few others
				for _, tw := range []string{aw, bw} {
					r1 := implPatch(tw, dw)
					r2 := implPatch(tw, jd.VerifEncodeDiff(mustReadDiff(text)))
					if untagWire(r1) != untagWire(r2) {
						effect = "fail the re-read diff has a different effect on " + tw + ": " + r1 + " vs " + r2
					}
				}
			}
		}
		return "done"
	})
	c.Sig = text
	c.Desc["text"] = text
	if res == "panic" {
		c.Probes = append(c.Probes, Probe{Kind: "direct", Rel: "C02 render/read do not panic", Want: "fail panic while rendering or reading"})
		run.Add(c)
		return
	}
	nd := numDict([]string{dw}, []string{text})
	c.Probes = append(c.Probes,
		Probe{Kind: "corr", Rel: "Diff.Render = renderM", Line: fmt.Sprintf("render %s o= %s", nd, dw), Want: "ok " + textWire(text)},
		Probe{Kind: "corr", Rel: "Diff.Render(COLOR) = renderM", Line: fmt.Sprintf("render %s o=C %s", nd, dw), Want: "ok " + textWire(ctext)},
		Probe{Kind: "corr", Rel: "ReadDiffString = readDiffM", Line: fmt.Sprintf("readdiff %s %s", nd, textWire(text)), Want: d2w},
	)
	v := "ok"
	if !strings.HasPrefix(d2w, "ok ") {
		v = "fail the rendered diff cannot be read back: " + d2w
	} else if text2 != text {
		v = "fail re-rendering the re-read diff gives a different text"
	} else if effect != "ok" {
		v = effect
	} else if stripAnsi(ctext) != text {
		v = "fail colour rendering differs from the plain rendering by more than ANSI escape sequences"
	}
	c.Probes = append(c.Probes, Probe{Kind: "direct", Rel: "C02 read(render d) renders identically and has the same effect; colour adds only ANSI escapes", Want: v})
	run.Count("kind:" + strings.Split(kind, ":")[0])
	run.Add(c)
}

// addC02Chained: r = a.Patch(a.Diff(b)); d = r.Diff(c) — the in-memory diff d holds nodes the LIBRARY made (copies handed
// out by Patch). Its rendering must be the rendering of the same diff rebuilt from its encoding (a text depends on the
// values only), and applying the text read back to r must give what applying d gives.
func addC02Chained(run *Run, o OptSet, label string, a, b, c3 *Val) {
	aw, bw, cw := a.Wire(), b.Wire(), c3.Wire()
	c := Case{Recipe: Recipe{"c02chain", []string{o.Wire(), aw, bw, cw}}, Desc: map[string]string{"options": o.Name(), "a": a.Human(), "b": b.Human(), "c": c3.Human()}}
	c.Sig = "chain|" + o.Wire() + aw + bw + cw
	verdict := "ok"
	res, _ := safely(func() string {
		an := mustNode(aw)
		r1, err := an.Patch(an.Diff(mustNode(bw), o.Go()...))
		if err != nil || r1 == nil {
			return "done"
		}
		rw := jd.VerifEncodeNode(r1)
		d := r1.Diff(mustNode(cw), o.Go()...)
		c.Nontrivial = len(d) > 0
		dw := jd.VerifEncodeDiff(d)
		text := d.Render()
		c.Desc["text"] = text
		if ref := mustDiff(dw).Render(); ref != text {
			verdict = "fail the diff of a document returned by Patch renders as " + short(text) + " but the same diff rebuilt from its values renders as " + short(ref)
			return "done"
		}
		if stripAnsi(d.Render(jd.COLOR)) != text {
			verdict = "fail colour rendering differs from the plain rendering by more than ANSI escape sequences"
			return "done"
		}
		d2, err := jd.ReadDiffString(text)
		if err != nil {
			verdict = "fail the rendered diff cannot be read back: " + err.Error()
			return "done"
		}
		// (the effect clause in the list reading only: under the set readings the patched document holds array nodes of
		// the Go types jsonSet / jsonMultiset, whose strict replacement compares by the NODE's reading, and the text
		// cannot carry those types — API chaining outside the property's quantifier, see DESIGN §11)
		if o.Has("S") || o.Has("B") || o.Has("K") {
			return "done"
		}
		p1 := implPatch(rw, dw)
		p2 := implPatch(rw, jd.VerifEncodeDiff(d2))
		if untagWire(p1) != untagWire(p2) {
			verdict = "fail the re-read diff has a different effect on the patched document: " + short(p1) + " vs " + short(p2)
		}
		return "done"
	})
	if res == "panic" {
		verdict = "ok panic-elsewhere"
	}
	if strings.HasPrefix(verdict, "ok") {
		verdict = "ok"
	}
	c.Probes = append(c.Probes, Probe{Kind: "direct", Rel: "C02 the diff of a document returned by Patch renders by its values and its text carries it", Want: verdict})
	run.Count("kind:chained-" + label)
	run.Add(c)
}

func mustReadDiff(text string) jd.Diff {
	d, err := jd.ReadDiffString(text)
	if err != nil {
		panic(err)
	}
	return d
}

// untagWire forgets the Go dynamic types of arrays in a wire string ([l [s [m → [r).
func untagWire(w string) string {
	w = strings.ReplaceAll(w, "[l", "[r")
	w = strings.ReplaceAll(w, "[s", "[r")
	w = strings.ReplaceAll(w, "[m", "[r")
	return w
}

func malformedDiffText(r *Rng, shapes []hunkShape) string {
	lines := []string{"@ [0]", "@ [\"a\"]", "@ []", "@ [{}]", "@ [[]]", "@ [[{\"id\":1}]]", "@ [[1,2]]", "@ [true]", "@ 5", "@", "@ [1.5]", "@ [-1]", "@ [1e300]",
		"^ {\"Merge\":true}", "^ {\"Merge\":false}", "^ {}", "^ {\"Merge\":1}", "^ {\"x\":1}", "^ []", "^",
		"[", "]", "- 1", "+ 2", "-", "+", "  3", " ", "- {", "+ [1,", "x", "é", "", "- \"a\"", "+ \"b\"", "  \"c\"", "- 1 2", "-1", "+[1]"}
	k := 1 + r.Intn(7)
	out := []string{}
	for i := 0; i < k; i++ {
		out = append(out, lines[r.Intn(len(lines))])
	}
	s := strings.Join(out, "\n")
	if r.Chance(1, 2) {
		s += "\n"
	}
	return s
}

func addC02Malformed(run *Run, text string) {
	c := Case{Recipe: Recipe{"c02m", []string{text}}, Desc: map[string]string{"kind": "malformed", "text": text}}
	var d2w string
	res, _ := safely(func() string {
		d2, err := jd.ReadDiffString(text)
		d2w = encOutcomeDiff(d2, err)
		return "done"
	})
	if res == "panic" {
		d2w = "panic"
	}
	c.Sig = text
	c.Nontrivial = true
	nd := numDict(nil, []string{text})
	c.Probes = append(c.Probes, Probe{Kind: "corr", Rel: "ReadDiffString = readDiffM (hand-written line sequences)", Line: fmt.Sprintf("readdiff %s %s", nd, textWire(text)), Want: d2w})
	run.Count("kind:malformed")
	run.Count("malformed_outcome:" + strings.Fields(d2w)[0])
	run.Add(c)
}

// ---------------------------------------------------------------------------------------------
// JSON text codec tie (used by several properties): n.Json() and ReadJsonString against the model
func addJsonCodecProbes(c *Case, v *Val) {
	w := v.Wire()
	var text, back string
	res, _ := safely(func() string {
		n := mustNode(w)
		text = n.Json()
		m, err := jd.ReadJsonString(text)
		back = encOutcomeNode(m, err)
		return "done"
	})
	if res == "panic" {
		c.Probes = append(c.Probes, Probe{Kind: "direct", Rel: "Json()/ReadJsonString do not panic", Want: "fail panic"})
		return
	}
	nd := numDict([]string{w}, []string{text})
	c.Probes = append(c.Probes,
		Probe{Kind: "corr", Rel: "Json() = jsonM", Line: fmt.Sprintf("json %s %s", nd, w), Want: "ok " + textWire(text)},
		Probe{Kind: "corr", Rel: "ReadJsonString = readJsonM", Line: fmt.Sprintf("readjson %s %s", nd, textWire(text)), Want: back},
	)
}

func init() {
	recipes["c02chain"] = func(run *Run, a []string) {
		addC02Chained(run, mustOpts(a[0]), "corpus", mustVal(a[1]), mustVal(a[2]), mustVal(a[3]))
	}
}

func init() {
	props["C02"] = propC02
	quickN["C02"] = 3000
	thoroughN["C02"] = 60000
	recipes["c02"] = func(run *Run, a []string) { addC02Case(run, a[0], a[1], a[2], a[3], a[4]) }
	recipes["c02d"] = func(run *Run, a []string) {
		dw := implDiff(mustOpts(a[0]), a[1], a[2])
		addC02Case(run, "diff:corpus", dw, a[1], a[2], a[0])
	}
	recipes["c02m"] = func(run *Run, a []string) { addC02Malformed(run, a[0]) }
}
