package main

import (
	"encoding/hex"
	"fmt"

	jd "github.com/josephburnett/jd/v2"
)

// safely runs f, turning a Go panic into ("panic", message).
func safely(f func() string) (res string, pmsg string) {
	defer func() {
		if r := recover(); r != nil {
			res = "panic"
			pmsg = fmt.Sprint(r)
		}
	}()
	return f(), ""
}

func mustNode(w string) jd.JsonNode {
	n, err := jd.VerifDecodeNode(w)
	if err != nil {
		panic("harness: cannot decode node " + w + ": " + err.Error())
	}
	return n
}

func mustDiff(w string) jd.Diff {
	d, err := jd.VerifDecodeDiff(w)
	if err != nil {
		panic("harness: cannot decode diff " + w + ": " + err.Error())
	}
	return d
}

func encOutcomeNode(n jd.JsonNode, err error) string {
	if err != nil {
		return "err"
	}
	return "ok " + jd.VerifEncodeNode(n)
}

func boolWire(b bool) string {
	if b {
		return "T"
	}
	return "F"
}

func textWire(s string) string { return "x" + hex.EncodeToString([]byte(s)) }

func hashWire(h [8]byte) string {
	// the model represents [8]byte as the word whose little-endian bytes it is
	var u uint64
	for i := 7; i >= 0; i-- {
		u = u<<8 | uint64(h[i])
	}
	return fmt.Sprintf("h%016x", u)
}

// ---- implementation side of the core operations (fresh values per call: Patch mutates its receiver) ----

func implHash(o OptSet, nw string) string {
	r, _ := safely(func() string { return hashWire(jd.VerifHashCode(mustNode(nw), o.Go())) })
	return r
}

func implIdent(o OptSet, nw string) string {
	r, _ := safely(func() string { return hashWire(jd.VerifIdent(mustNode(nw), o.Go())) })
	return r
}

func implEquals(o OptSet, aw, bw string) string {
	r, _ := safely(func() string { return boolWire(mustNode(aw).Equals(mustNode(bw), o.Go()...)) })
	return r
}

func implDiff(o OptSet, aw, bw string) string {
	r, _ := safely(func() string { return jd.VerifEncodeDiff(mustNode(aw).Diff(mustNode(bw), o.Go()...)) })
	return r
}

func implPatch(nw, dw string) string {
	r, _ := safely(func() string { return encOutcomeNode(mustNode(nw).Patch(mustDiff(dw))) })
	return r
}

// implDiffPatch: a.Diff(b) then a.Patch(d) on the SAME in-memory values (C01: "without serialising").
// Returns the diff as produced, the patch outcome, and whether the result Equals b under the options.
func implDiffPatch(o OptSet, aw, bw string) (dw, outcome string, equalsB bool) {
	res, _ := safely(func() string {
		a, b := mustNode(aw), mustNode(bw)
		d := a.Diff(b, o.Go()...)
		dw = jd.VerifEncodeDiff(d)
		r, err := a.Patch(d)
		outcome = encOutcomeNode(r, err)
		if err == nil {
			// compare against a fresh copy of b: Patch may have shared structure with it
			equalsB = r.Equals(mustNode(bw), o.Go()...)
		}
		return "done"
	})
	if res == "panic" {
		if dw == "" {
			dw = "panic"
		}
		outcome = "panic"
	}
	return
}
