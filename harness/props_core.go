package main

import (
	"fmt"
	"strings"
)

type optChoice struct {
	o     OptSet
	cfg   func() GenCfg
	label string
}

func coreOptChoices() []optChoice {
	def := func() GenCfg { return DefaultCfg() }
	nasty := func() GenCfg { return NastyCfg() }
	nonull := func() GenCfg { c := DefaultCfg(); c.AllowNull = false; return c }
	keyed := func(keys ...string) func() GenCfg {
		return func() GenCfg { c := DefaultCfg(); c.SetKeys = keys; c.Keys = []string{"a", "b", "id", "k", "x"}; return c }
	}
	keyedNoNull := func(keys ...string) func() GenCfg {
		return func() GenCfg {
			c := DefaultCfg()
			c.SetKeys = keys
			c.Keys = []string{"a", "b", "id", "x"}
			c.AllowNull = false
			return c
		}
	}
	// numbers that differ by less than the precision, inside objects that are list elements
	precNested := func() GenCfg {
		c := DefaultCfg()
		c.Nums = []float64{1, 1.04, 1.05, 2, 2.03, 3, 0.3, 0.31}
		c.ScalarBias = 2
		return c
	}
	numsNoNull := func() GenCfg {
		c := DefaultCfg()
		c.AllowNull = false
		c.Nums = []float64{1, 2.5, 3, 0, 100}
		c.ScalarBias = 3
		return c
	}
	deep := func() GenCfg { return DeepCfg() }
	deepNoNull := func() GenCfg { c := DeepCfg(); c.AllowNull = false; return c }
	return []optChoice{
		{OptNone, deep, "none-deep"},
		{OptSetO, deep, "SET-deep"},
		{OptMerge, deepNoNull, "MERGE-deep"},
		{OptNone, def, "none"},
		{OptNone, nasty, "none-nasty"},
		{OptSetO, def, "SET"},
		{OptMset, def, "MULTISET"},
		{OptKeys("id"), keyed("id"), "SetKeys(id)"},
		{OptKeys("id", "k"), keyed("id", "k"), "SetKeys(id,k)"},
		{OptMerge, nonull, "MERGE"},
		{OptSetMrg, nonull, "SET+MERGE"},
		{OptMsetMrg, nonull, "MULTISET+MERGE"},
		{OptKeysMrg("id"), keyedNoNull("id"), "SetKeys(id)+MERGE"},
		{OptPrec(0.1), precNested, "Precision(0.1)"},
		// what the command line always passes: an explicit Precision(0) behind the other options (numbers are nested
		// inside arrays and objects so that container comparisons go through the number comparison)
		{append(append(OptSet{}, OptMerge...), OptPrec(0)...), numsNoNull, "MERGE+Precision(0)"},
		{OptPrec(0), numsNoNull, "Precision(0)"},
		{append(append(OptSet{}, OptSetO...), OptPrec(0)...), numsNoNull, "SET+Precision(0)"},
	}
}

func withVoid(r *Rng, a, b *Val) (*Val, *Val) {
	switch r.Intn(40) {
	case 0:
		return VVoid(), b
	case 1:
		return a, VVoid()
	case 2:
		return VVoid(), VVoid()
	}
	return a, b
}

func sizeBucket(n int) string {
	switch {
	case n <= 1:
		return "1"
	case n <= 4:
		return "2-4"
	case n <= 10:
		return "5-10"
	case n <= 25:
		return "11-25"
	default:
		return ">25"
	}
}

func hunkCount(dw string) int { return strings.Count(dw, "( ") }

// ---------------------------------------------------------------------------------------------
// C01 — Diff-then-patch reproduces the target (v2), on the in-memory diff.
func propC01(run *Run, n int) {
	run.rule = "random (a, b=mutation of a) x 9 option/generator profiles; non-trivial = the diff has at least one hunk; distinct = distinct (options, a, b)"
	r := NewRng(run.Seed)
	choices := coreOptChoices()
	{
		// long lists (beyond 2048 elements between the common ends), an unchanged container behind a changed element
		a, b := largeEndsPair(r, 2100+r.Intn(50), true)
		addLargeArrayCase(run, a, b, false)
	}
	addDeepPathCases(run, func(o OptSet, label string, a, b *Val) { addC01Case(run, o, label, a, b) })
	for i := 0; i < n; i++ {
		ch := choices[r.Intn(len(choices))]
		cfg := ch.cfg()
		a, b := cfg.Pair(r)
		a, b = withVoid(r, a, b)
		addC01Case(run, ch.o, ch.label, a, b)
		if r.Chance(1, 15) {
			// Precision: runs of aligned numbers that are kept, nudged by less than eps, or really changed — with no
			// unchanged element between a nudged pair and a changed pair
			pa, pb := precRunPair(r, 0.1)
			run.Count("precision:nudged-pair-next-to-a-changed-pair")
			addC01Case(run, OptPrec(0.1), "Precision(0.1)-runs", pa, pb)
		}
		if r.Chance(1, 15) {
			// SetKeys: an array of keyed members BELOW AN OBJECT KEY (or inside a keyed member) in which one member changes
			// AND the membership changes: the array is visited twice by one diff (keyed hunk, then a set hunk)
			ka, kb := keyedUnderKeyPair(r)
			run.Count("keyed:member-change-and-membership-change-below-a-key")
			addC01Case(run, OptKeys("id"), "SetKeys(id)-below-key", ka, kb)
		}
		if r.Chance(1, 20) {
			// SetKeys(a,b): a member holding the SAME value under both set keys next to a member holding that value under
			// one of them only (two different identities: the key-value hashes of an identity must not be de-duplicated)
			sa, sb := sameValueTwoKeysPair(r)
			run.Count("keyed:same-value-under-two-set-keys")
			addC01Case(run, OptKeys("a", "b"), "SetKeys(a,b)-same-value", sa, sb)
		}
		if r.Chance(1, 15) {
			ta, tb := stableTwinPair(r)
			run.Count("keyed:explicit-null-member-changes-next-to-a-member-lacking-the-key")
			addC01Case(run, OptKeys("id", "k"), "SetKeys(id,k)-stable-twin", ta, tb)
		}
		if r.Chance(1, 8) {
			// chained use of the API: the document a Patch returned (its array nodes carry the Go dynamic
			// types jsonList / jsonSet / jsonMultiset) is diffed against a document read from text
			_, outcome, _ := implDiffPatch(ch.o, a.Wire(), b.Wire())
			if strings.HasPrefix(outcome, "ok ") {
				if pv, err := ParseWire(outcome[3:]); err == nil && pv.K != KVoid {
					c := cfg.Mutate(r, b, 3)
					addC01CaseT(run, ch.o, ch.label+"+patched", pv, c, false)
					// … and against ANOTHER document returned by Patch (typed array nodes on both sides)
					if _, out2, _ := implDiffPatch(ch.o, b.Wire(), c.Wire()); strings.HasPrefix(out2, "ok ") && r.Chance(1, 2) {
						if pc, err := ParseWire(out2[3:]); err == nil && pc.K != KVoid {
							addC01CaseT(run, ch.o, ch.label+"+patched-both", pv, pc, false)
						}
					}
				}
			}
		}
	}
}

func sameValueTwoKeysPair(r *Rng) (*Val, *Val) {
	v := VNum(float64(1 + r.Intn(3)))
	both := VObj("a", v.Clone(), "b", v.Clone(), "x", VNum(1))
	one := VObj("a", v.Clone(), "x", VNum(2))
	other := VObj("a", VNum(7), "b", VNum(8), "x", VNum(0))
	ms := []*Val{both, one, other}
	for i := len(ms) - 1; i > 0; i-- {
		j := r.Intn(i + 1)
		ms[i], ms[j] = ms[j], ms[i]
	}
	a := VArr(ms...)
	var b *Val
	switch r.Intn(4) {
	case 0:
		b = VArr(one.Clone(), other.Clone()) // the two-key member is removed
	case 1:
		b = VArr(both.Clone(), other.Clone()) // the one-key member is removed
	case 2:
		b = a.Clone()
		for _, m := range b.A {
			if m.O["b"] != nil && m.O["a"].Wire() == m.O["b"].Wire() {
				m.O["x"] = VNum(9) // the two-key member changes
			}
		}
	default:
		b = VArr()
	}
	if r.Chance(1, 3) {
		return VObj("k", a), VObj("k", b)
	}
	return a, b
}

func keyedUnderKeyPair(r *Rng) (*Val, *Val) {
	n := 2 + r.Intn(3)
	ms := []*Val{}
	for j := 0; j < n; j++ {
		ms = append(ms, VObj("id", VNum(float64(j+1)), "v", VNum(float64(j))))
	}
	a := VArr(ms...)
	b := a.Clone()
	b.A[0].O["v"] = VNum(9) // a member changes
	switch r.Intn(3) {
	case 0:
		b.A = append(b.A, VObj("id", VNum(float64(n+1)), "v", VNum(0))) // one is added
	case 1:
		b.A = b.A[:len(b.A)-1] // one is removed
	default:
		b.A[len(b.A)-1] = VObj("id", VNum(float64(n+2)), "v", VNum(3)) // one is replaced by another identity
	}
	if r.Chance(1, 2) {
		for i := len(b.A) - 1; i > 0; i-- {
			j := r.Intn(i + 1)
			b.A[i], b.A[j] = b.A[j], b.A[i]
		}
	}
	switch r.Intn(3) {
	case 0:
		return VObj("items", a), VObj("items", b)
	case 1:
		return VObj("spec", VObj("items", a)), VObj("spec", VObj("items", b))
	}
	// inside a keyed member of an outer keyed array
	return VArr(VObj("id", VStr("p"), "ports", a)), VArr(VObj("id", VStr("p"), "ports", b))
}

// stableTwinPair: under SetKeys(id,k) an array holds a member that LACKS k and a member with the same id that holds
// null for k (their path objects coincide). Only members carrying every key explicitly change between a and b, so every
// keyed hunk is addressed by explicit key values and the exact pass of the lookup must find its member — wherever
// the key-less twin stands.
func stableTwinPair(r *Rng) (*Val, *Val) {
	id := VNum(float64(1 + r.Intn(3)))
	lacking := VObj("id", id.Clone(), "v", VNum(float64(r.Intn(3))))
	withNull := VObj("id", id.Clone(), "k", VNull(), "v", VNum(float64(3+r.Intn(3))))
	others := []*Val{}
	for j := 0; j < r.Intn(3); j++ {
		others = append(others, VObj("id", VNum(float64(10+j)), "k", VStr("x"), "v", VNum(float64(j))))
	}
	ms := append([]*Val{lacking, withNull}, others...)
	for i := len(ms) - 1; i > 0; i-- {
		j := r.Intn(i + 1)
		ms[i], ms[j] = ms[j], ms[i]
	}
	a := VArr(ms...)
	b := a.Clone()
	for _, m := range b.A {
		if m.O["k"] != nil && (m.O["k"].K == KNull || r.Chance(1, 2)) {
			switch r.Intn(3) {
			case 0:
				m.O["v"] = VNum(float64(7 + r.Intn(3)))
			case 1:
				m.O["w"] = VArr(VNum(1))
			default:
				m.O["v"] = VObj("n", VNum(float64(r.Intn(2))))
			}
		}
	}
	switch r.Intn(3) {
	case 0:
		return VObj("items", a), VObj("items", b)
	case 1:
		return VArr(VNum(0), a), VArr(VNum(0), b)
	}
	return a, b
}

// precRunPair: two arrays of numbers of the same length (sometimes below an object key or inside an outer array);
// position by position b keeps the number, nudges it by less than eps (exactly representable steps are not needed),
// or replaces it by a really different one; sometimes one element is dropped or inserted at an end
func precRunPair(r *Rng, eps float64) (*Val, *Val) {
	n := 2 + r.Intn(5)
	xs, ys := []*Val{}, []*Val{}
	for j := 0; j < n; j++ {
		x := float64(1 + r.Intn(4))
		xs = append(xs, VNum(x))
		switch r.Intn(4) {
		case 0:
			ys = append(ys, VNum(x))
		case 1, 2:
			ys = append(ys, VNum(x+eps*0.4))
		default:
			ys = append(ys, VNum(x+5))
		}
	}
	switch r.Intn(6) {
	case 0:
		ys = ys[1:]
	case 1:
		ys = append(ys, VNum(9))
	}
	a, b := VArr(xs...), VArr(ys...)
	switch r.Intn(4) {
	case 0:
		return VObj("k", a), VObj("k", b)
	case 1:
		return VArr(VStr("h"), a), VArr(VStr("h"), b)
	}
	return a, b
}

func addC01Case(run *Run, o OptSet, label string, a, b *Val) {
	addC01CaseT(run, o, label, a, b, true)
}

// withOracle = false: only the tie between model and implementation is checked (documents outside the
// property's quantifier: array nodes with Go dynamic types, as a previous Patch returns them)
func addC01CaseT(run *Run, o OptSet, label string, a, b *Val, withOracle bool) {
	aw, bw := a.Wire(), b.Wire()
	dw, outcome, eq := implDiffPatch(o, aw, bw)
	rname := "c01"
	if !withOracle {
		rname = "c01t"
	}
	c := Case{Recipe: Recipe{rname, []string{o.Wire(), aw, bw}}, Desc: map[string]string{"options": o.Name(), "a": a.Human(), "b": b.Human(), "a_wire": aw, "b_wire": bw, "opts_wire": o.Wire(), "impl_diff": dw, "impl_patch": outcome}}
	c.Nontrivial = hunkCount(dw) > 0
	c.Sig = o.Wire() + "|" + aw + "|" + bw
	c.Probes = append(c.Probes, Probe{Kind: "corr", Rel: "Diff;Patch = diffM;patchM", Line: fmt.Sprintf("diffpatch %s %s %s", o.Wire(), aw, bw), Want: dw + " " + outcome})
	d := "ok"
	if !strings.HasPrefix(outcome, "ok ") {
		d = "fail a.Patch(a.Diff(b)) returned " + outcome
	} else if !eq {
		d = "fail patched document does not Equal b"
	}
	if withOracle {
		c.Probes = append(c.Probes, Probe{Kind: "oracle", Rel: "C01 patch(a,diff(a,b)) ≈ b (impl outputs, spec Equiv)", Line: fmt.Sprintf("c01 %s %s %s %s %s", o.Wire(), aw, bw, boolWire(d == "ok"), outcome)})
	}
	run.Count("opts:" + label)
	run.Count("hunks:" + sizeBucket(hunkCount(dw)))
	run.Count("size_a:" + sizeBucket(a.Size()))
	run.Count("depth_a:" + fmt.Sprint(a.Depth()))
	run.Add(c)
}

func mustVal(w string) *Val {
	v, err := ParseWire(w)
	if err != nil {
		panic("bad wire value " + w + ": " + err.Error())
	}
	return v
}

func mustOpts(w string) OptSet {
	o, err := ParseOpts(w)
	if err != nil {
		panic(err)
	}
	return o
}

func init() {
	recipes["c01"] = func(run *Run, a []string) { addC01Case(run, mustOpts(a[0]), "corpus", mustVal(a[1]), mustVal(a[2])) }
	recipes["c01t"] = func(run *Run, a []string) {
		addC01CaseT(run, mustOpts(a[0]), "corpus", mustVal(a[1]), mustVal(a[2]), false)
	}
}

// addDeepPathCases: fixed pairs (independent of the random stream) whose arrays sit at paths of 1 … 40 elements, in the
// set readings with a member common to both sides AND members added / removed: paths are slices that the diff extends at
// every level, and what a hunk's path says must not depend on the capacity a copy of a shorter path happened to get
func addDeepPathCases(run *Run, add func(o OptSet, label string, a, b *Val)) {
	wrap := func(v *Val, depth int) *Val {
		for k := 0; k < depth; k++ {
			if k%5 == 4 {
				v = VArr(v)
			} else {
				v = VObj("k", v)
			}
		}
		return v
	}
	for _, depth := range []int{1, 2, 3, 4, 5, 7, 8, 9, 15, 16, 17, 18, 19, 21, 23, 31, 32, 33, 40} {
		ia, ib := VArr(VObj("id", VNum(1), "v", VStr("x")), VNum(2)), VArr(VObj("id", VNum(1), "v", VStr("y")), VNum(3))
		add(OptKeys("id"), fmt.Sprintf("SetKeys(id)-depth-%d", depth), wrap(ia, depth), wrap(ib, depth))
		sa, sb := VArr(VObj("id", VNum(1)), VNum(2)), VArr(VObj("id", VNum(1)), VNum(3))
		add(OptSetO, fmt.Sprintf("SET-depth-%d", depth), wrap(sa, depth), wrap(sb, depth))
		add(OptKeys("id"), fmt.Sprintf("SetKeys(id)-depth-%d", depth), wrap(sa, depth), wrap(sb, depth))
		run.Count("fixed:deep-paths")
	}
}
