module verifharness

go 1.24.0

require (
	github.com/josephburnett/jd v0.0.0
	github.com/josephburnett/jd/v2 v2.0.0
	gopkg.in/yaml.v2 v2.4.0
)

require (
	github.com/go-openapi/jsonpointer v0.21.0 // indirect
	github.com/go-openapi/swag v0.23.0 // indirect
	github.com/josharian/intern v1.0.0 // indirect
	github.com/mailru/easyjson v0.7.7 // indirect
	github.com/yudai/golcs v0.0.0-20170316035057-ecda9a501e82 // indirect
	golang.org/x/exp v0.0.0-20250305212735-054e65f0b394 // indirect
	gopkg.in/yaml.v3 v3.0.1 // indirect
)

replace github.com/josephburnett/jd/v2 => /repo/v2

replace github.com/josephburnett/jd => /repo
