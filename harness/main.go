package main

import (
	"flag"
	"fmt"
	"os"
	"strconv"
)

var props = map[string]func(run *Run, n int){
	"C01": propC01,
}

var quickN = map[string]int{"C01": 4000}
var thoroughN = map[string]int{"C01": 150000}

func main() {
	prop := flag.String("prop", "", "property id")
	tier := flag.String("tier", "quick", "quick|thorough")
	seed := flag.Uint64("seed", 1, "seed")
	driver := flag.String("driver", "", "path to the model driver")
	out := flag.String("out", "", "summary json path")
	n := flag.Int("n", 0, "override number of cases")
	replay := flag.String("replay", "", "replay a recorded finding (json file)")
	flag.Parse()
	if *replay != "" {
		os.Exit(doReplay(*replay, *driver))
	}
	f, ok := props[*prop]
	if !ok {
		fmt.Fprintln(os.Stderr, "unknown property", *prop)
		os.Exit(3)
	}
	cnt := quickN[*prop]
	if *tier == "thorough" {
		cnt = thoroughN[*prop]
	}
	if *n > 0 {
		cnt = *n
	}
	if s := os.Getenv("VERIF_N"); s != "" {
		if v, err := strconv.Atoi(s); err == nil {
			cnt = v
		}
	}
	run := &Run{Prop: *prop, Tier: *tier, Seed: *seed, DriverBin: *driver, dist: map[string]int{}}
	f(run, cnt)
	sum := run.Finish()
	if err := writeJSON(*out, sum); err != nil {
		fmt.Fprintln(os.Stderr, err)
		os.Exit(3)
	}
	fmt.Printf("%s: %d cases, %d probes, %d distinct non-trivial, %d findings\n", *prop, sum.Evaluations, sum.Probes, sum.DistinctNontrivial, len(sum.Findings))
}

func doReplay(path, driver string) int {
	fmt.Println("replay not implemented yet")
	return 3
}
