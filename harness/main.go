package main

import (
	"encoding/json"
	"flag"
	"fmt"
	"os"
	"path/filepath"
	"sort"
	"strconv"
)

var props = map[string]func(run *Run, n int){
	"C01": propC01,
}

// recipes re-create one case from its recorded arguments (corpus files, replay files)
var recipes = map[string]func(run *Run, args []string){}

var quickN = map[string]int{"C01": 4000}
var thoroughN = map[string]int{"C01": 150000}

var repoDir = "/repo"

type corpusFile struct {
	Note   string `json:"note"`
	Recipe Recipe `json:"recipe"`
}

func loadCorpus(run *Run, dir string) {
	files, _ := filepath.Glob(filepath.Join(dir, run.Prop, "*.json"))
	sort.Strings(files)
	for _, f := range files {
		b, err := os.ReadFile(f)
		if err != nil {
			continue
		}
		var cf corpusFile
		if err := json.Unmarshal(b, &cf); err != nil {
			run.Note("corpus file not readable: " + f)
			continue
		}
		rf, ok := recipes[cf.Recipe.Name]
		if !ok {
			run.Note("corpus file with unknown recipe: " + f)
			continue
		}
		before := len(run.cases)
		rf(run, cf.Recipe.Args)
		for i := before; i < len(run.cases); i++ {
			run.cases[i].Desc["corpus"] = filepath.Base(f)
		}
		run.Count("corpus")
	}
}

func main() {
	prop := flag.String("prop", "", "property id")
	tier := flag.String("tier", "quick", "quick|thorough")
	seed := flag.Uint64("seed", 1, "seed")
	driver := flag.String("driver", "", "path to the model driver")
	out := flag.String("out", "", "summary json path")
	n := flag.Int("n", 0, "override number of cases")
	replay := flag.String("replay", "", "replay a recorded finding (json file)")
	corpus := flag.String("corpus", "", "corpus directory")
	repo := flag.String("repo", "/repo", "repository under test")
	flag.Parse()
	repoDir = *repo
	if fileTwinWrap != nil {
		fileTwinWrap() // the file entry points ride along with the properties whose string entry points they mirror
	}
	if *replay != "" {
		os.Exit(doReplay(*replay, *driver))
	}
	f, ok := props[*prop]
	if !ok {
		fmt.Fprintln(os.Stderr, "unknown property", *prop)
		os.Exit(3)
	}
	cnt := quickN[*prop]
	if *tier == "thorough" {
		cnt = thoroughN[*prop]
	}
	if *n > 0 {
		cnt = *n
	}
	if s := os.Getenv("VERIF_N"); s != "" {
		if v, err := strconv.Atoi(s); err == nil {
			cnt = v
		}
	}
	run := &Run{Prop: *prop, Tier: *tier, Seed: *seed, DriverBin: *driver, dist: map[string]int{}}
	if *corpus != "" {
		loadCorpus(run, *corpus)
	}
	f(run, cnt)
	sum := run.Finish()
	if err := writeJSON(*out, sum); err != nil {
		fmt.Fprintln(os.Stderr, err)
		os.Exit(3)
	}
	kinds := map[string]int{}
	for _, fd := range sum.Findings {
		kinds[fd.Class]++
	}
	fmt.Printf("%s %s seed=%d: %d cases, %d probes, %d distinct non-trivial, findings %v\n", *prop, *tier, *seed, sum.Evaluations, sum.Probes, sum.DistinctNontrivial, kinds)
}

// doReplay re-runs the recorded case of a replay file against the current build and prints both sides.
func doReplay(path, driver string) int {
	b, err := os.ReadFile(path)
	if err != nil {
		fmt.Println(err)
		return 3
	}
	var rp struct {
		Property string  `json:"property"`
		Finding  Finding `json:"finding"`
		Mism     []Finding `json:"correspondence_mismatches"`
		Recipe   *Recipe `json:"recipe"`
	}
	if err := json.Unmarshal(b, &rp); err != nil {
		fmt.Println(err)
		return 3
	}
	rec := rp.Finding.Case.Recipe
	if rp.Recipe != nil {
		rec = *rp.Recipe
	}
	if rec.Name == "" && len(rp.Mism) > 0 {
		rec = rp.Mism[0].Case.Recipe
	}
	rf, ok := recipes[rec.Name]
	if !ok {
		fmt.Printf("replay file names no re-runnable case (recipe %q); it records a broken obligation:\n%s\n", rec.Name, string(b))
		return 3
	}
	run := &Run{Prop: rp.Property, Tier: "replay", DriverBin: driver, dist: map[string]int{}}
	rf(run, rec.Args)
	sum := run.Finish()
	for _, c := range run.cases {
		js, _ := json.MarshalIndent(c, "", " ")
		fmt.Println(string(js))
	}
	bad := 0
	for _, fd := range sum.Findings {
		fmt.Printf("FINDING %s %s %s\n", fd.Class, fd.KF, fd.Detail)
		if fd.Class != "known-finding" {
			bad++
		}
	}
	if bad > 0 {
		return 1
	}
	fmt.Println("replay: no violation on the current tree")
	return 0
}
