package main

// C14 — CLI contract: both jd binaries (v2/jd and the top-level one, the latter also with -v2=false)
// are built from the working tree and run as subprocesses; the library is called in-process exactly as
// main.go calls it (the calls are dictated by the model's `cliplan`), and the model's `cli` operation
// (JdModel/Cli.lean: cliM) must reproduce exit status, stdout bytes, -o file bytes and the stderr record.

import (
	"encoding/hex"
	"bytes"
	"context"
	"encoding/json"
	"fmt"
	"math"
	"os"
	"os/exec"
	"path/filepath"
	"regexp"
	"sort"
	"strconv"
	"strings"
	"sync"
	"sync/atomic"
	"time"

	jdv1 "github.com/josephburnett/jd/lib"
	jd "github.com/josephburnett/jd/v2"
	"github.com/josephburnett/jd/v2/web/serve"
)

// ---------------------------------------------------------------------------------------------
// configuration of one invocation

type cliArg struct {
	Content string `json:"content"`
	Missing bool   `json:"missing,omitempty"` // the name is passed but no file is created
}

type cliCfg struct {
	Bin     string   `json:"bin"`          // "v2jd" | "top"
	V2      string   `json:"v2,omitempty"` // "" (not given) | "true" | "false"
	Alias   bool     `json:"alias,omitempty"`
	Color   bool     `json:"color,omitempty"`
	F       string   `json:"f,omitempty"`
	Git     bool     `json:"git,omitempty"`
	Mset    bool     `json:"mset,omitempty"`
	OKind   string   `json:"o,omitempty"` // "" | "file" | "nodir" | "dir"
	P       bool     `json:"p,omitempty"`
	Port    int      `json:"port,omitempty"`
	Prec    string   `json:"precision,omitempty"` // text given to -precision
	Set     bool     `json:"set,omitempty"`
	Setkeys string   `json:"setkeys,omitempty"`
	T       string   `json:"t,omitempty"`
	Version bool     `json:"version,omitempty"`
	Yaml    bool     `json:"yaml,omitempty"`
	Args    []cliArg `json:"args"`
	Stdin   *string  `json:"stdin,omitempty"`
	// the documents the inputs were made from (wire form), when there are such: for the round trip
	// and exit-status probes and their known-finding classes
	DocA string `json:"doc_a,omitempty"`
	DocB string `json:"doc_b,omitempty"`
	Kind string `json:"kind"`
}

func (c *cliCfg) isV1() bool { return c.Bin == "top" && c.V2 == "false" }

func (c *cliCfg) label() string {
	if c.isV1() {
		return "top -v2=false"
	}
	return c.Bin
}

func (c *cliCfg) outPath(dir string) string {
	switch c.OKind {
	case "file":
		return filepath.Join(dir, "out.txt")
	case "nodir":
		return filepath.Join(dir, "no-such-dir", "out.txt")
	case "dir":
		return dir
	case "in0":
		// -o names the first input file itself (in-place use: `jd -p -o a.json patch a.json`, `jd -t yaml2json -o doc doc`)
		return cliArgPath(dir, 0)
	case "in1":
		return cliArgPath(dir, 1)
	}
	return ""
}

func cliArgPath(dir string, i int) string { return filepath.Join(dir, fmt.Sprintf("arg%d", i)) }

func (c *cliCfg) precBits() uint64 {
	if c.Prec == "" {
		return 0
	}
	f, err := strconv.ParseFloat(c.Prec, 64)
	if err != nil {
		return 0
	}
	return math.Float64bits(f)
}

// argv as given to the real binary
func (c *cliCfg) argv(dir string) []string {
	a := []string{}
	if c.V2 != "" {
		a = append(a, "-v2="+c.V2)
	}
	if c.Color {
		a = append(a, "-color")
	}
	if c.F != "" {
		a = append(a, "-f="+c.F)
	}
	if c.Git {
		a = append(a, "-git-diff-driver")
	}
	if c.Mset {
		a = append(a, "-mset")
	}
	if c.OKind != "" {
		a = append(a, "-o", c.outPath(dir))
	}
	if c.P {
		a = append(a, "-p")
	}
	if c.Port != 0 {
		a = append(a, "-port", strconv.Itoa(c.Port))
	}
	if c.Prec != "" {
		a = append(a, "-precision="+c.Prec)
	}
	if c.Set {
		a = append(a, "-set=true")
	}
	if c.Setkeys != "" {
		a = append(a, "-setkeys", c.Setkeys)
	}
	if c.T != "" {
		a = append(a, "-t", c.T)
	}
	if c.Version {
		a = append(a, "-version")
	}
	if c.Yaml {
		a = append(a, "-yaml")
	}
	for i := range c.Args {
		a = append(a, cliArgPath(dir, i))
	}
	return a
}

// command line for reports (relative file names)
func (c *cliCfg) cmdline() string {
	a := c.argv(".")
	name := "jd(v2/jd)"
	if c.Bin == "top" {
		name = "jd(top)"
	}
	s := name + " " + strings.Join(a, " ")
	if c.Stdin != nil {
		s += " < stdin"
	}
	return s
}

func cliB01(b bool) string {
	if b {
		return "1"
	}
	return "0"
}

// flag tokens for the model (absent = declared default)
func (c *cliCfg) modelFlags(dir string) (bin string, toks []string) {
	bin = c.Bin
	if c.isV1() && c.Alias {
		bin = "topV1"
	} else if c.V2 != "" {
		toks = append(toks, "v2="+cliB01(c.V2 == "true"))
	}
	if c.Color {
		toks = append(toks, "color=1")
	}
	if c.F != "" {
		toks = append(toks, "f="+textWire(c.F))
	}
	if c.Git {
		toks = append(toks, "git=1")
	}
	if c.Mset {
		toks = append(toks, "mset=1")
	}
	if c.OKind != "" {
		toks = append(toks, "o="+textWire(c.outPath(dir)))
	}
	if c.P {
		toks = append(toks, "p=1")
	}
	if c.Port != 0 {
		toks = append(toks, "port="+strconv.Itoa(c.Port))
	}
	if c.Prec != "" {
		toks = append(toks, fmt.Sprintf("prec=%016x", c.precBits()))
	}
	if c.Set {
		toks = append(toks, "set=1")
	}
	if c.Setkeys != "" {
		toks = append(toks, "setkeys="+textWire(c.Setkeys))
	}
	if c.T != "" {
		toks = append(toks, "t="+textWire(c.T))
	}
	if c.Version {
		toks = append(toks, "version=1")
	}
	if c.Yaml {
		toks = append(toks, "yaml=1")
	}
	toks = append(toks, "nargs="+strconv.Itoa(len(c.Args)))
	return
}

// ---------------------------------------------------------------------------------------------
// the two binaries, built from the working tree

type cliBins struct {
	dir   string
	v2jd  string
	top   string
	err   error
	runs  int64
	cases int64
}

func cliBuild() *cliBins {
	b := &cliBins{}
	dir, err := os.MkdirTemp("", "verif-c14-")
	if err != nil {
		b.err = err
		return b
	}
	b.dir = dir
	b.v2jd = filepath.Join(dir, "jd-v2")
	b.top = filepath.Join(dir, "jd-top")
	build := func(wd, out, pkg string) error {
		cmd := exec.Command("go", "build", "-o", out, pkg)
		cmd.Dir = wd
		env := []string{}
		for _, e := range os.Environ() {
			if strings.HasPrefix(e, "GOFLAGS=") || strings.HasPrefix(e, "GOPROXY=") {
				continue
			}
			env = append(env, e)
		}
		cmd.Env = append(env, "GOFLAGS=-mod=mod", "GOPROXY=off")
		o, err := cmd.CombinedOutput()
		if err != nil {
			return fmt.Errorf("go build in %s: %v: %s", wd, err, string(o))
		}
		return nil
	}
	if err := build(filepath.Join(repoDir, "v2"), b.v2jd, "./jd"); err != nil {
		b.err = err
		return b
	}
	if err := build(repoDir, b.top, "."); err != nil {
		b.err = err
	}
	return b
}

func (b *cliBins) cleanup() {
	if b.dir != "" {
		os.RemoveAll(b.dir)
	}
}

type cliObs struct {
	Exit    int
	Stdout  string
	Stderr  string
	Outfile *string
	Note    string
}

// run the real binary once in dir (files already written)
func (b *cliBins) exec(c *cliCfg, dir string) cliObs {
	atomic.AddInt64(&b.runs, 1)
	bin := b.v2jd
	if c.Bin == "top" {
		bin = b.top
	}
	if p := c.outPath(dir); c.OKind == "file" {
		// the -o file already exists and holds something longer than any output: "-o writes those
		// same bytes to the file" must hold for an existing file too (it is replaced, not overlaid)
		os.Remove(p)
		if atomic.LoadInt64(&b.runs)%2 == 0 {
			os.WriteFile(p, []byte(cliStale), 0644)
		}
	}
	ctx, cancel := context.WithTimeout(context.Background(), 30*time.Second)
	defer cancel()
	cmd := exec.CommandContext(ctx, bin, c.argv(dir)...)
	cmd.Dir = dir
	cmd.Env = []string{"HOME=" + dir, "PATH=/usr/bin:/bin"}
	if c.Stdin != nil && *c.Stdin != "" {
		cmd.Stdin = strings.NewReader(*c.Stdin)
	} else if atomic.LoadInt64(&b.runs)%3 == 0 {
		cmd.Stdin = strings.NewReader("") // an empty pipe
	} else if dn, err := os.Open(os.DevNull); err == nil {
		// empty input from the null device (a character device, as in `jd a.json </dev/null`, cron, docker run
		// without -i): equivalent to naming an empty file
		defer dn.Close()
		cmd.Stdin = dn
	} else {
		cmd.Stdin = strings.NewReader("")
	}
	var so, se bytes.Buffer
	cmd.Stdout = &so
	cmd.Stderr = &se
	err := cmd.Run()
	o := cliObs{Stdout: so.String(), Stderr: se.String()}
	if err != nil {
		if ee, ok := err.(*exec.ExitError); ok {
			o.Exit = ee.ExitCode()
		} else {
			o.Exit = -1
			o.Note = err.Error()
		}
		if ctx.Err() != nil {
			o.Note = "timeout"
		}
	}
	if c.OKind == "file" || c.OKind == "nodir" || c.OKind == "in0" || c.OKind == "in1" {
		inputUntouched := func(bs []byte) bool {
			// -o names an input file and the run failed: the file still holding the input was not written
			if c.OKind != "in0" && c.OKind != "in1" {
				return false
			}
			i := 0
			if c.OKind == "in1" {
				i = 1
			}
			return o.Exit == 2 && i < len(c.Args) && string(bs) == c.Args[i].Content
		}
		if bs, err := os.ReadFile(c.outPath(dir)); err == nil && string(bs) != cliStale && !inputUntouched(bs) {
			// (a file still holding exactly the stale content was not written)
			s := string(bs)
			o.Outfile = &s
		}
	}
	return o
}

var cliStale = strings.Repeat("stale content of an earlier run\n", 2048)

var cliStampRe = regexp.MustCompile(`^\d{4}/\d{2}/\d{2} \d{2}:\d{2}:\d{2} `)

// stderr class and the record without the log timestamp
func (o cliObs) classify() (class, msg string) {
	if o.Stderr == "" {
		if o.Exit == 2 && strings.HasPrefix(o.Stdout, "\nUsage: jd ") {
			return "usage", ""
		}
		return "none", ""
	}
	loc := cliStampRe.FindStringIndex(o.Stderr)
	if loc == nil {
		return "other", o.Stderr
	}
	msg = o.Stderr[loc[1]:]
	if strings.Count(msg, "\n") == 1 && strings.HasSuffix(msg, "\n") {
		return "oneLine", msg
	}
	return "multiLine", msg
}

func (o cliObs) want() string {
	class, msg := o.classify()
	of := "none"
	if o.Outfile != nil {
		of = textWire(*o.Outfile)
	}
	// the text of an error message is not compared (it is no part of the property and depends on Go's map iteration
	// order, e.g. which of two absent elements a multiset hunk reports): only whether there is one
	ms := "none"
	if msg != "" {
		ms = "some"
	}
	return fmt.Sprintf("exit=%d stdout=%s outfile=%s stderr=%s msg=%s", o.Exit, textWire(o.Stdout), of, class, ms)
}

func (o cliObs) same(p cliObs) string {
	c1, m1 := o.classify()
	c2, m2 := p.classify()
	m1, m2 = c1+fmt.Sprint(m1 != ""), c2+fmt.Sprint(m2 != "")
	switch {
	case o.Exit != p.Exit:
		return fmt.Sprintf("exit status %d vs %d", o.Exit, p.Exit)
	case o.Stdout != p.Stdout:
		return "stdout differs"
	case m1 != m2:
		return "stderr differs"
	case (o.Outfile == nil) != (p.Outfile == nil) || (o.Outfile != nil && *o.Outfile != *p.Outfile):
		return "-o file differs"
	}
	return ""
}

// ---------------------------------------------------------------------------------------------
// the model's plan: which library calls main makes

type cliPlan struct {
	None  bool
	Mode  string
	V1    bool
	Opts  OptSet
	Color bool
	Srcs  []string
}

func parseCliPlan(s string) (cliPlan, error) {
	p := cliPlan{}
	if s == "none" {
		p.None = true
		return p, nil
	}
	for _, t := range strings.Fields(s) {
		switch {
		case strings.HasPrefix(t, "mode="):
			p.Mode = t[5:]
		case strings.HasPrefix(t, "lib="):
			p.V1 = t[4:] == "v1"
		case strings.HasPrefix(t, "o="):
			o, err := ParseOpts(t)
			if err != nil {
				return p, err
			}
			p.Opts = o
		case strings.HasPrefix(t, "color="):
			p.Color = t[6:] == "1"
		case strings.HasPrefix(t, "src="):
			p.Srcs = strings.Split(t[4:], ",")
		default:
			return p, fmt.Errorf("bad plan token %q in %q", t, s)
		}
	}
	if p.Mode == "" {
		return p, fmt.Errorf("bad plan %q", s)
	}
	return p, nil
}

func cliPlanLine(c *cliCfg, dir string) string {
	bin, toks := c.modelFlags(dir)
	return "cliplan " + bin + " " + strings.Join(toks, " ")
}

func cliV1Meta(o OptSet) []jdv1.Metadata {
	out := []jdv1.Metadata{}
	for _, it := range o {
		switch it.Kind {
		case "M":
			out = append(out, jdv1.MERGE)
		case "S":
			out = append(out, jdv1.SET)
		case "B":
			out = append(out, jdv1.MULTISET)
		case "P":
			out = append(out, jdv1.SetPrecision(it.Prec))
		case "K":
			out = append(out, jdv1.Setkeys(it.Keys...))
		}
	}
	return out
}

// ---------------------------------------------------------------------------------------------
// library results, obtained by making the calls main.go makes

type cliRes struct {
	kv     []string
	panics []string
	// distinct results of one and the same library call repeated in-process (a call whose result
	// depends on Go map iteration order): the model is given the one the observed process obtained
	altTr []string
}

func (r *cliRes) unit(key string, err error) bool {
	if err != nil {
		r.kv = append(r.kv, key+"=E:"+textWire(err.Error()))
		return false
	}
	r.kv = append(r.kv, key+"=ok")
	return true
}

func (r *cliRes) text(key string, s string, err error) {
	if err != nil {
		r.kv = append(r.kv, key+"=E:"+textWire(err.Error()))
		return
	}
	r.kv = append(r.kv, key+"=ok:"+textWire(s))
}

// guarded runs f; a panic inside the library is recorded (and reported by a direct probe)
func (r *cliRes) guarded(what string, f func()) {
	defer func() {
		if p := recover(); p != nil {
			r.panics = append(r.panics, what+": "+fmt.Sprint(p))
		}
	}()
	f()
}

var cliWebMissing = "the web UI wasn't include in this build: use `make build` to include it"

func cliValidFormat(f string) bool { return f == "" || f == "jd" || f == "patch" || f == "merge" }

func cliLibResults(c *cliCfg, plan cliPlan, dir string) *cliRes {
	r := &cliRes{}
	if c.Port != 0 && len(c.Args) == 0 && !c.Version {
		if serve.Handle == nil {
			r.kv = append(r.kv, "sv=E:"+textWire(cliWebMissing))
		}
	}
	if c.OKind != "" {
		// what WriteFile(*output, …) returns for this path
		p := c.outPath(dir)
		if c.OKind == "in0" || c.OKind == "in1" {
			r.unit("wr", nil) // an existing, writable input file: left untouched here
		} else {
			err := os.WriteFile(p, []byte{}, 0644)
			if err == nil {
				os.Remove(p)
			}
			r.unit("wr", err)
		}
	}
	if plan.None {
		return r
	}
	in := []string{}
	for i, s := range plan.Srcs {
		key := fmt.Sprintf("f%d", i+1)
		if s == "stdin" {
			if c.Stdin != nil {
				in = append(in, *c.Stdin)
			} else {
				in = append(in, "")
			}
			r.unit(key, nil)
			continue
		}
		n, _ := strconv.Atoi(strings.TrimPrefix(s, "a"))
		bs, err := os.ReadFile(cliArgPath(dir, n))
		if !r.unit(key, err) {
			return r
		}
		in = append(in, string(bs))
	}
	if plan.V1 {
		cliLibV1(r, c, plan, in)
	} else {
		cliLibV2(r, c, plan, in)
	}
	return r
}

func cliLibV2(r *cliRes, c *cliCfg, plan cliPlan, in []string) {
	opts := plan.Opts.Go()
	read := func(s string) (jd.JsonNode, error) {
		if c.Yaml {
			return jd.ReadYamlString(s)
		}
		return jd.ReadJsonString(s)
	}
	switch plan.Mode {
	case "diff", "gitdiff":
		r.guarded("v2 diff", func() {
			a, err1 := read(in[0])
			b, err2 := read(in[1])
			r.unit("p1", err1)
			r.unit("p2", err2)
			if err1 != nil || err2 != nil {
				return
			}
			d := a.Diff(b, opts...)
			r.kv = append(r.kv, fmt.Sprintf("dl=%d", len(d)))
			switch c.F {
			case "", "jd":
				ro := []jd.Option{}
				if plan.Color {
					ro = append(ro, jd.COLOR)
				}
				r.kv = append(r.kv, "rj="+textWire(d.Render(ro...)))
			case "patch":
				s, err := d.RenderPatch()
				r.text("rp", s, err)
			case "merge":
				s, err := d.RenderMerge()
				r.text("rm", s, err)
			}
		})
	case "patch":
		r.guarded("v2 patch", func() {
			var d jd.Diff
			var err error
			switch c.F {
			case "", "jd":
				d, err = jd.ReadDiffString(in[0])
			case "patch":
				d, err = jd.ReadPatchString(in[0])
			case "merge":
				d, err = jd.ReadMergeString(in[0])
			default:
				return
			}
			if !r.unit("rd", err) {
				return
			}
			a, err := read(in[1])
			if !r.unit("p2", err) {
				return
			}
			b, err := a.Patch(d)
			if !r.unit("pt", err) {
				return
			}
			if c.Yaml {
				r.kv = append(r.kv, "pd="+textWire(b.Yaml(opts...)))
			} else {
				r.kv = append(r.kv, "pd="+textWire(b.Json(opts...)))
			}
		})
	case "translate":
		r.guarded("v2 translate", func() {
			var out string
			var err error
			switch c.T {
			case "jd2patch":
				var d jd.Diff
				if d, err = jd.ReadDiffString(in[0]); err == nil {
					out, err = d.RenderPatch()
				}
			case "patch2jd":
				var d jd.Diff
				if d, err = jd.ReadPatchString(in[0]); err == nil {
					out = d.Render()
				}
			case "jd2merge":
				var d jd.Diff
				if d, err = jd.ReadDiffString(in[0]); err == nil {
					out, err = d.RenderMerge()
				}
			case "merge2jd":
				var d jd.Diff
				if d, err = jd.ReadMergeString(in[0]); err == nil {
					out = d.Render()
				}
			case "json2yaml":
				var n jd.JsonNode
				if n, err = jd.ReadJsonString(in[0]); err == nil {
					out = n.Yaml()
				}
			case "yaml2json":
				var n jd.JsonNode
				if n, err = jd.ReadYamlString(in[0]); err == nil {
					out = n.Json()
				}
			default:
				return
			}
			r.text("tr", out, err)
		})
	}
}

func cliLibV1(r *cliRes, c *cliCfg, plan cliPlan, in []string) {
	meta := cliV1Meta(plan.Opts)
	read := func(s string) (jdv1.JsonNode, error) {
		if c.Yaml {
			return jdv1.ReadYamlString(s)
		}
		return jdv1.ReadJsonString(s)
	}
	switch plan.Mode {
	case "diff", "gitdiff":
		r.guarded("v1 diff", func() {
			a, err1 := read(in[0])
			b, err2 := read(in[1])
			r.unit("p1", err1)
			r.unit("p2", err2)
			if err1 != nil || err2 != nil {
				return
			}
			d := a.Diff(b, meta...)
			r.kv = append(r.kv, fmt.Sprintf("dl=%d", len(d)))
			switch c.F {
			case "", "jd":
				ro := []jdv1.RenderOption{}
				if plan.Color {
					ro = append(ro, jdv1.COLOR)
				}
				r.kv = append(r.kv, "rj="+textWire(d.Render(ro...)))
			case "patch":
				s, err := d.RenderPatch()
				r.text("rp", s, err)
			case "merge":
				s, err := d.RenderMerge()
				r.text("rm", s, err)
			}
		})
	case "patch":
		r.guarded("v1 patch", func() {
			var d jdv1.Diff
			var err error
			switch c.F {
			case "", "jd":
				d, err = jdv1.ReadDiffString(in[0])
			case "patch":
				d, err = jdv1.ReadPatchString(in[0])
			case "merge":
				d, err = jdv1.ReadMergeString(in[0])
			default:
				return
			}
			if !r.unit("rd", err) {
				return
			}
			a, err := read(in[1])
			if !r.unit("p2", err) {
				return
			}
			b, err := a.Patch(d)
			if !r.unit("pt", err) {
				return
			}
			if c.Yaml {
				r.kv = append(r.kv, "pd="+textWire(b.Yaml(meta...)))
			} else {
				r.kv = append(r.kv, "pd="+textWire(b.Json(meta...)))
			}
		})
	case "translate":
		r.guarded("v1 translate", func() {
			var out string
			var err error
			switch c.T {
			case "jd2patch":
				var d jdv1.Diff
				if d, err = jdv1.ReadDiffString(in[0]); err == nil {
					out, err = d.RenderPatch()
				}
			case "patch2jd":
				var d jdv1.Diff
				if d, err = jdv1.ReadPatchString(in[0]); err == nil {
					out = d.Render()
				}
			case "jd2merge":
				var d jdv1.Diff
				if d, err = jdv1.ReadDiffString(in[0]); err == nil {
					out, err = d.RenderMerge()
				}
			case "merge2jd":
				var d jdv1.Diff
				if d, err = jdv1.ReadMergeString(in[0]); err == nil {
					out = d.Render()
					seen := map[string]bool{out: true}
					r.altTr = []string{out}
					for i := 0; i < 64; i++ {
						if d2, e2 := jdv1.ReadMergeString(in[0]); e2 == nil {
							if o2 := d2.Render(); !seen[o2] {
								seen[o2] = true
								r.altTr = append(r.altTr, o2)
							}
						}
					}
				}
			case "json2yaml":
				var n jdv1.JsonNode
				if n, err = jdv1.ReadJsonString(in[0]); err == nil {
					out = n.Yaml()
				}
			case "yaml2json":
				var n jdv1.JsonNode
				if n, err = jdv1.ReadYamlString(in[0]); err == nil {
					out = n.Json()
				}
			default:
				return
			}
			r.text("tr", out, err)
		})
	}
}

// ---------------------------------------------------------------------------------------------
// one evaluation: files on disk, plan, library results, real run

type cliEval struct {
	cfg  *cliCfg
	plan cliPlan
	res  *cliRes
	obs  cliObs
	line string
	perr string
}

func cliWriteInputs(c *cliCfg, dir string) {
	for i, a := range c.Args {
		p := cliArgPath(dir, i)
		os.Remove(p)
		if !a.Missing {
			os.WriteFile(p, []byte(a.Content), 0644)
		}
	}
}

func (b *cliBins) eval(c *cliCfg, dir string, planStr string) cliEval {
	ev := cliEval{cfg: c}
	cliWriteInputs(c, dir)
	plan, err := parseCliPlan(planStr)
	if err != nil {
		ev.perr = err.Error()
		plan = cliPlan{None: true}
	}
	ev.plan = plan
	ev.res = cliLibResults(c, plan, dir)
	ev.obs = b.exec(c, dir)
	if len(ev.res.altTr) > 1 {
		got := cliOutput(ev.obs)
		for _, alt := range ev.res.altTr {
			if alt == got {
				for i, kv := range ev.res.kv {
					if strings.HasPrefix(kv, "tr=") {
						ev.res.kv[i] = "tr=ok:" + textWire(alt)
					}
				}
			}
		}
	}
	bin, toks := c.modelFlags(dir)
	ev.line = "cli " + bin + " " + strings.Join(append(toks, ev.res.kv...), " ")
	return ev
}

// ask the model driver for the plans of a batch of configurations
func cliPlans(driver string, lines []string) ([]string, error) {
	in := make([]string, len(lines))
	for i, l := range lines {
		in[i] = fmt.Sprintf("p%d %s", i, l)
	}
	res, err := RunDriver(driver, in)
	if err != nil {
		return nil, err
	}
	out := make([]string, len(lines))
	for i := range lines {
		out[i] = res[fmt.Sprintf("p%d", i)]
	}
	return out, nil
}

// ---------------------------------------------------------------------------------------------
// document helpers

func cliValIface(v *Val) interface{} {
	switch v.K {
	case KNull:
		return nil
	case KBool:
		return v.B
	case KNum:
		return v.N
	case KStr:
		return v.S
	case KArr:
		out := make([]interface{}, len(v.A))
		for i, e := range v.A {
			out[i] = cliValIface(e)
		}
		return out
	case KObj:
		out := map[string]interface{}{}
		for k, e := range v.O {
			out[k] = cliValIface(e)
		}
		return out
	}
	return nil
}

// JSON text of a document; the empty document (void) is the empty file
func cliJSON(v *Val) string {
	if v.K == KVoid {
		return ""
	}
	var buf bytes.Buffer
	enc := json.NewEncoder(&buf)
	enc.SetEscapeHTML(false)
	if err := enc.Encode(cliValIface(v)); err != nil {
		return "null"
	}
	return strings.TrimSuffix(buf.String(), "\n")
}

// YAML text of a document: block style as the library writes it, or the JSON text (flow style)
func cliYAML(v *Val, block bool) string {
	js := cliJSON(v)
	if !block || v.K == KVoid {
		return js
	}
	n, err := jd.ReadJsonString(js)
	if err != nil {
		return js
	}
	out, p := safely(func() string { return n.Yaml() })
	if p != "" {
		return js
	}
	return out
}

func cliHasKey(v *Val, key string) bool {
	for _, e := range v.A {
		if cliHasKey(e, key) {
			return true
		}
	}
	for k, e := range v.O {
		if k == key || cliHasKey(e, key) {
			return true
		}
	}
	return false
}

func cliNums(v *Val, out *[]float64) {
	if v.K == KNum {
		*out = append(*out, v.N)
	}
	for _, e := range v.A {
		cliNums(e, out)
	}
	for _, e := range v.O {
		cliNums(e, out)
	}
}

func cliSubterms(v *Val, out *[]*Val) {
	if v.K == KVoid {
		return
	}
	*out = append(*out, v)
	for _, e := range v.A {
		cliSubterms(e, out)
	}
	for _, k := range v.Keys() {
		cliSubterms(v.O[k], out)
	}
}

// two sub-terms of the inputs with equal hash code that are not Equal under the options
func cliAliasWitness(v1 bool, o OptSet, docs ...*Val) string {
	subs := []*Val{}
	for _, d := range docs {
		cliSubterms(d, &subs)
	}
	type hv struct {
		h [8]byte
		v *Val
	}
	seen := map[string]bool{}
	hs := []hv{}
	for _, s := range subs {
		w := s.Wire()
		if seen[w] {
			continue
		}
		seen[w] = true
		var h [8]byte
		_, p := safely(func() string {
			if v1 {
				n, err := jdv1.VerifDecodeNode(w)
				if err != nil {
					panic(err)
				}
				h = jdv1.VerifHashCode(n, cliV1Meta(o))
			} else {
				h = jd.VerifHashCode(mustNode(w), o.Go())
			}
			return ""
		})
		if p != "" {
			continue
		}
		hs = append(hs, hv{h, s})
	}
	for i := range hs {
		for j := i + 1; j < len(hs); j++ {
			if hs[i].h != hs[j].h {
				continue
			}
			eq := false
			safely(func() string {
				if v1 {
					a, _ := jdv1.VerifDecodeNode(hs[i].v.Wire())
					b, _ := jdv1.VerifDecodeNode(hs[j].v.Wire())
					eq = a.Equals(b, cliV1Meta(o)...)
				} else {
					eq = mustNode(hs[i].v.Wire()).Equals(mustNode(hs[j].v.Wire()), o.Go()...)
				}
				return ""
			})
			if !eq {
				return hs[i].v.Human() + " and " + hs[j].v.Human() + " have the same hash code"
			}
		}
	}
	// SetKeys: two objects whose key tuples differ but whose identities coincide
	keys := o.KeysOf()
	if len(keys) == 0 {
		return ""
	}
	type iv struct {
		id   [8]byte
		proj *Val
	}
	ids := []iv{}
	for _, s := range subs {
		if s.K != KObj {
			continue
		}
		proj := VObj()
		for _, k := range keys {
			if v, ok := s.O[k]; ok {
				proj.O[k] = v
			}
		}
		var id [8]byte
		_, p := safely(func() string {
			if v1 {
				n, err := jdv1.VerifDecodeNode(s.Wire())
				if err != nil {
					panic(err)
				}
				id = jdv1.VerifIdent(n, cliV1Meta(o))
			} else {
				id = jd.VerifIdent(mustNode(s.Wire()), o.Go())
			}
			return ""
		})
		if p == "" {
			ids = append(ids, iv{id, proj})
		}
	}
	for i := range ids {
		for j := i + 1; j < len(ids); j++ {
			if ids[i].id != ids[j].id || ids[i].proj.Wire() == ids[j].proj.Wire() {
				continue
			}
			eq := false
			safely(func() string {
				if v1 {
					a, _ := jdv1.VerifDecodeNode(ids[i].proj.Wire())
					b, _ := jdv1.VerifDecodeNode(ids[j].proj.Wire())
					eq = a.Equals(b)
				} else {
					eq = mustNode(ids[i].proj.Wire()).Equals(mustNode(ids[j].proj.Wire()))
				}
				return ""
			})
			if !eq {
				return "members with keys " + ids[i].proj.Human() + " and " + ids[j].proj.Human() + " have the same identity"
			}
		}
	}
	return ""
}

// parse two document texts with the library the binary uses and compare them under the options
func cliDocsEqual(v1, yaml bool, o OptSet, t1, t2 string) (eq bool, err error) {
	_, p := safely(func() string {
		if v1 {
			rd := jdv1.ReadJsonString
			if yaml {
				rd = jdv1.ReadYamlString
			}
			a, e := rd(t1)
			if e != nil {
				err = fmt.Errorf("printed document unreadable: %v", e)
				return ""
			}
			b, e := rd(t2)
			if e != nil {
				err = fmt.Errorf("expected document unreadable: %v", e)
				return ""
			}
			eq = a.Equals(b, cliV1Meta(o)...)
			return ""
		}
		rd := jd.ReadJsonString
		if yaml {
			rd = jd.ReadYamlString
		}
		a, e := rd(t1)
		if e != nil {
			err = fmt.Errorf("printed document unreadable: %v", e)
			return ""
		}
		b, e := rd(t2)
		if e != nil {
			err = fmt.Errorf("expected document unreadable: %v", e)
			return ""
		}
		eq = a.Equals(b, o.Go()...)
		return ""
	})
	if p != "" {
		err = fmt.Errorf("panic: %s", p)
	}
	return
}

func cliPrecOf(o OptSet) float64 {
	for _, it := range o {
		if it.Kind == "P" {
			return it.Prec
		}
	}
	return 0
}

// cliHasKeylessMember: some array of v holds an object member that carries none of the set keys
func cliHasKeylessMember(v *Val, keys []string) bool {
	switch v.K {
	case KArr:
		for _, e := range v.A {
			if e.K == KObj {
				has := false
				for _, k := range keys {
					if _, ok := e.O[k]; ok {
						has = true
					}
				}
				if !has {
					return true
				}
			}
			if cliHasKeylessMember(e, keys) {
				return true
			}
		}
	case KObj:
		for _, e := range v.O {
			if cliHasKeylessMember(e, keys) {
				return true
			}
		}
	}
	return false
}

// known-finding class of a deviation in the round trip / exit status probes ("" = none applies)
func cliKnownClass(c *cliCfg, plan cliPlan, a, b *Val, forExit bool) string {
	if a == nil || b == nil {
		return ""
	}
	if c.Yaml && (cliHasKey(a, "<<") || cliHasKey(b, "<<")) {
		return "kf KF-C16-mergekey a document contains the key \"<<\", which the YAML writer leaves unquoted"
	}
	if !forExit && c.F == "merge" {
		if b.K == KObj && len(b.O) == 0 && a.K != KObj {
			return "kf KF-C12-emptyobj merge patch {} over a non-object document is a no-op"
		}
		if b.K == KNull || b.HasNull() {
			return "kf KF-C12-rootnull a merge patch cannot carry null (null means delete)"
		}
	}
	if eps := cliPrecOf(plan.Opts); eps > 0 {
		na, nb := []float64{}, []float64{}
		cliNums(a, &na)
		cliNums(b, &nb)
		for _, x := range na {
			for _, y := range nb {
				if x != y && math.Abs(x-y) <= eps {
					return fmt.Sprintf("kf KF-C05-precision %v and %v differ by at most %v: Equal, but Diff ignores the precision", x, y, eps)
				}
			}
		}
	}
	if plan.Opts.Has("S") || plan.Opts.Has("B") || plan.Opts.Has("K") {
		if w := cliAliasWitness(plan.V1, plan.Opts, a, b); w != "" {
			return "kf KF-C04-alias " + w
		}
	}
	if !forExit && plan.V1 && plan.Opts.Has("S") && plan.Opts.Has("K") && cliHasKeylessMember(a, plan.Opts.KeysOf()) {
		return "kf KF-C17-keyless v1: a set member carries none of the set keys"
	}
	if forExit {
		ns := []float64{}
		cliNums(a, &ns)
		cliNums(b, &ns)
		for _, x := range ns {
			if x == 0 && math.Signbit(x) {
				return "kf KF-C05-negzero the inputs contain -0"
			}
		}
	}
	return ""
}

// ---------------------------------------------------------------------------------------------
// one case: primary run, stdin/file twin, round trip, exit status

func cliTwin(c *cliCfg) *cliCfg {
	if c.Git || c.Version || c.Port != 0 {
		return nil
	}
	t := *c
	t.Args = append([]cliArg{}, c.Args...)
	translate := c.T != "" && !c.P
	switch {
	case c.Stdin != nil && !translate && len(c.Args) == 1:
		t.Args = append(t.Args, cliArg{Content: *c.Stdin})
		t.Stdin = nil
	case c.Stdin == nil && !translate && len(c.Args) == 2 && !c.Args[1].Missing:
		s := c.Args[1].Content
		t.Stdin = &s
		t.Args = t.Args[:1]
	case c.Stdin != nil && translate && len(c.Args) == 0:
		t.Args = []cliArg{{Content: *c.Stdin}}
		t.Stdin = nil
	case c.Stdin == nil && translate && len(c.Args) == 1 && !c.Args[0].Missing:
		s := c.Args[0].Content
		t.Stdin = &s
		t.Args = []cliArg{}
	default:
		return nil
	}
	if t.OKind == "in0" || t.OKind == "in1" {
		// the twin has other file arguments: its output goes to a file of its own
		t.OKind = "file"
	}
	return &t
}

func cliOutput(o cliObs) string {
	if o.Outfile != nil {
		return *o.Outfile
	}
	return o.Stdout
}

func cliProbeStderr(label string, o cliObs) []Probe {
	ps := []Probe{}
	w := "ok"
	if strings.Contains(o.Stderr, "goroutine ") || strings.Contains(o.Stderr, "panic:") {
		w = "fail stack trace on stderr: " + cliFirstLine(o.Stderr)
	} else if o.Exit < 0 || o.Exit > 2 {
		w = fmt.Sprintf("fail exit status %d %s", o.Exit, o.Note)
	}
	ps = append(ps, Probe{Kind: "direct", Rel: "C14 no stack trace, exit status in {0,1,2} (" + label + ")", Want: w})
	if o.Exit == 2 {
		class, _ := o.classify()
		w = "ok"
		// one log record; its message may span lines only because it quotes a document value that
		// contains a line break (observation, DESIGN.md §11), never because of a Go stack trace
		if class != "oneLine" && class != "usage" && class != "multiLine" {
			w = "fail exit 2 with stderr class " + class + ": " + strconv.Quote(o.Stderr)
		}
		ps = append(ps, Probe{Kind: "direct", Rel: "C14 exit 2 comes with exactly one log record on stderr (or the usage text on stdout) (" + label + ")", Want: w})
	}
	return ps
}

func cliFirstLine(s string) string {
	if i := strings.IndexByte(s, '\n'); i >= 0 {
		return s[:i]
	}
	return s
}

func (b *cliBins) runCase(c *cliCfg, dir string, driver string) Case {
	atomic.AddInt64(&b.cases, 1)
	os.MkdirAll(dir, 0755)
	js, _ := json.Marshal(c)
	cs := Case{Recipe: Recipe{"c14", []string{string(js)}}, Desc: map[string]string{"kind": c.Kind, "binary": c.label(), "cmd": c.cmdline()}}
	cs.Sig = string(js)
	var docA, docB *Val
	if c.DocA != "" && c.DocB != "" {
		docA, _ = ParseWire(c.DocA)
		docB, _ = ParseWire(c.DocB)
	}
	// the configurations of this case: primary, its stdin/file twin
	cfgs := []*cliCfg{c}
	twin := cliTwin(c)
	if twin != nil {
		cfgs = append(cfgs, twin)
	}
	lines := []string{}
	for _, x := range cfgs {
		lines = append(lines, cliPlanLine(x, dir))
	}
	plans, err := cliPlans(driver, lines)
	if err != nil {
		cs.Probes = append(cs.Probes, Probe{Kind: "direct", Rel: "C14 model driver answers cliplan", Want: "fail " + err.Error()})
		return cs
	}
	evs := []cliEval{}
	for i, x := range cfgs {
		ev := b.eval(x, dir, plans[i])
		evs = append(evs, ev)
		label := "primary"
		if i == 1 {
			label = "stdin/file twin"
		}
		if ev.perr != "" {
			cs.Probes = append(cs.Probes, Probe{Kind: "direct", Rel: "C14 model driver answers cliplan", Want: "fail " + ev.perr})
		}
		cs.Probes = append(cs.Probes, Probe{Kind: "corr", Rel: "real binary = cliM on the library's results (exit, stdout, -o file, stderr) [" + label + "]", Line: ev.line, Want: ev.obs.want()})
		cs.Probes = append(cs.Probes, cliProbeStderr(label, ev.obs)...)
		if len(ev.res.altTr) > 1 {
			cs.Probes = append(cs.Probes, Probe{Kind: "direct", Rel: "C14 the library call behind the command is deterministic (same input, same output)", Want: fmt.Sprintf("fail v1 ReadMergeString + Render gives %d different texts for the same input (Go map iteration order in lib/diff_read.go readMergeInto): %s prints its hunks in a run-dependent order", len(ev.res.altTr), x.cmdline())})
		}
		for _, p := range ev.res.panics {
			cs.Probes = append(cs.Probes, Probe{Kind: "direct", Rel: "C14 library calls made by the CLI do not panic", Want: "fail panic in " + p})
		}
	}
	pe := evs[0]
	cs.Desc["exit"] = strconv.Itoa(pe.obs.Exit)
	cs.Desc["plan"] = plans[0]
	cs.Nontrivial = !pe.plan.None
	if twin != nil {
		w := "ok"
		if d := evs[0].obs.same(evs[1].obs); d != "" && len(evs[0].res.altTr) <= 1 {
			w = "fail second input from stdin vs from a file: " + d
		}
		cs.Probes = append(cs.Probes, Probe{Kind: "direct", Rel: "C14 reading the second input from stdin is equivalent to naming a file", Want: w})
	}
	// patch and translate mode, without the model in between: what the binary emitted is the text the library call
	// returns for the options the flags denote (up to one trailing newline)
	cs.Probes = append(cs.Probes, cliEmittedIsLibraryText(c, pe)...)
	// -git-diff-driver under -v2=false: the flags must be honoured (same output as without -v2=false)
	if c.Git && c.isV1() && len(c.Args) == 7 {
		o := *c
		o.V2 = ""
		ref := b.exec(&o, dir)
		w := "ok"
		if d := ref.same(pe.obs); d != "" {
			w = "fail -git-diff-driver with -v2=false drops the options (-set/-mset/-setkeys/-f merge/-precision): " + d + " compared with the same command without -v2=false"
		}
		cs.Probes = append(cs.Probes, Probe{Kind: "direct", Rel: "C14 -git-diff-driver prints the library rendering for the given options also under -v2=false", Want: w})
	}
	// exit status 0/1 against Equals, and the -p round trip (diff mode, no error)
	if pe.plan.Mode == "diff" && (pe.obs.Exit == 0 || pe.obs.Exit == 1) && docA != nil && docB != nil && cliValidFormat(c.F) {
		in1, in2 := c.Args[0].Content, ""
		if len(c.Args) > 1 {
			in2 = c.Args[1].Content
		} else if c.Stdin != nil {
			in2 = *c.Stdin
		}
		eq, err := cliDocsEqual(pe.plan.V1, c.Yaml, pe.plan.Opts, in1, in2)
		w := "ok"
		if err != nil {
			w = "fail " + err.Error()
		} else if eq != (pe.obs.Exit == 0) {
			w = fmt.Sprintf("fail exit status %d but Equals under the options is %v", pe.obs.Exit, eq)
			if k := cliKnownClass(c, pe.plan, docA, docB, true); k != "" {
				w = k + fmt.Sprintf(" (exit %d, Equals %v)", pe.obs.Exit, eq)
			} else if pe.plan.V1 && c.F == "merge" && (c.Set || c.Mset) && eq {
				w += " (v1 lib/set.go, lib/multiset.go: in merge mode diff() calls Equals(n) without the metadata, nested arrays are compared as lists; repaired in v2 only)"
			}
		}
		cs.Probes = append(cs.Probes, Probe{Kind: "direct", Rel: "C14 exit 0 iff the documents are Equal under the options, 1 otherwise", Want: w})
		// model-free: "exit 0 when there is no difference, 1 when there is" — the difference the program itself PRINTED
		// (native format: the empty text; -f patch: the empty operation list; -f merge is decided from the diff and is
		// left to the probe above)
		if !c.Git && (c.F == "" || c.F == "jd" || c.F == "patch") {
			got := pe.obs.Stdout
			if pe.obs.Outfile != nil {
				got = *pe.obs.Outfile
			}
			shown := strings.TrimSpace(got) != ""
			if c.F == "patch" {
				shown = strings.TrimSpace(got) != "[]"
			}
			w3 := "ok"
			if shown != (pe.obs.Exit == 1) {
				w3 = fmt.Sprintf("fail %s exits %d but %s", c.cmdline(), pe.obs.Exit, map[bool]string{true: "printed a difference: " + short(got), false: "printed no difference"}[shown])
			}
			cs.Probes = append(cs.Probes, Probe{Kind: "direct", Rel: "C14 diff mode: exit 1 exactly when the output shows a difference", Want: w3})
		}
		if !c.Color && !c.Git && !c.Yaml {
			// the first clause, without the model in between: what the binary emitted is what the library
			// renders for the options these flags denote (keys trimmed, Precision last)
			o := cliOpts(c)
			if c.Prec != "" {
				if pv, err := strconv.ParseFloat(c.Prec, 64); err == nil {
					o = append(o, OptItem{Kind: "P", Prec: pv})
				}
			}
			want := cliDiffText(pe.plan.V1, o, c.F, docA, docB)
			got := pe.obs.Stdout
			if pe.obs.Outfile != nil {
				got = *pe.obs.Outfile
			}
			w2 := "ok"
			if got != want {
				w2 = fmt.Sprintf("fail %s emitted %q but the library renders %q for these options", c.cmdline(), got, want)
				if k := cliKnownClass(c, pe.plan, docA, docB, true); k != "" {
					w2 = "ok"
				}
			}
			cs.Probes = append(cs.Probes, Probe{Kind: "direct", Rel: "C14 diff mode: the bytes emitted are the library's rendering for the options the flags denote", Want: w2})
		}
		if !c.Color {
			cs.Probes = append(cs.Probes, b.roundTrip(c, pe, dir, driver, docA, docB, in1, in2)...)
		}
	}
	return cs
}

// cliEmittedIsLibraryText: in patch / translate mode a successful run must emit exactly the text the library call
// returned in-process for the options of the plan (model-free form of the first clause of C14)
func cliEmittedIsLibraryText(c *cliCfg, ev cliEval) []Probe {
	if !(ev.plan.Mode == "patch" || ev.plan.Mode == "translate") || ev.obs.Exit != 0 || len(ev.res.altTr) > 1 {
		return nil
	}
	key := "pd="
	if ev.plan.Mode == "translate" {
		key = "tr="
	}
	for _, kv := range ev.res.kv {
		if strings.HasPrefix(kv, key+"x") {
			bs, err := hex.DecodeString(kv[len(key)+1:])
			if err != nil {
				continue
			}
			got := ev.obs.Stdout
			if ev.obs.Outfile != nil {
				got = *ev.obs.Outfile
			}
			w := "ok"
			if strings.TrimSuffix(got, "\n") != strings.TrimSuffix(string(bs), "\n") {
				w = fmt.Sprintf("fail %s emitted %q but the library returns %q for these options", c.cmdline(), short(got), short(string(bs)))
			}
			return []Probe{{Kind: "direct", Rel: "C14 patch / translate mode: the bytes emitted are the text the library returns for the options the flags denote", Want: w}}
		}
	}
	return nil
}

// jd [flags] a b  →  jd -p [flags] <that output> a  must print a document Equal to b
func (b *cliBins) roundTrip(c *cliCfg, pe cliEval, dir, driver string, docA, docB *Val, in1, in2 string) []Probe {
	rel := "C14 round trip: jd -p [flags] (jd [flags] a b) a reproduces b"
	p := *c
	p.P = true
	p.OKind = ""
	p.Kind = "roundtrip"
	p.Args = []cliArg{{Content: cliOutput(pe.obs)}, {Content: in1}}
	p.Stdin = nil
	if c.Stdin != nil {
		// keep the shape of the primary: document on stdin
		s := in1
		p.Stdin = &s
		p.Args = p.Args[:1]
	}
	plans, err := cliPlans(driver, []string{cliPlanLine(&p, dir)})
	if err != nil {
		return []Probe{{Kind: "direct", Rel: rel, Want: "fail " + err.Error()}}
	}
	ev := b.eval(&p, dir, plans[0])
	ps := []Probe{{Kind: "corr", Rel: "real binary = cliM on the library's results (exit, stdout, -o file, stderr) [-p leg of the round trip]", Line: ev.line, Want: ev.obs.want()}}
	ps = append(ps, cliProbeStderr("-p leg", ev.obs)...)
	ps = append(ps, cliEmittedIsLibraryText(&p, ev)...)
	w := "ok"
	if ev.obs.Exit != 0 {
		_, msg := ev.obs.classify()
		w = fmt.Sprintf("fail jd -p exits %d: %s", ev.obs.Exit, strings.TrimSpace(msg))
	} else {
		eq, err := cliDocsEqual(pe.plan.V1, c.Yaml, pe.plan.Opts, ev.obs.Stdout, in2)
		if err != nil {
			w = "fail " + err.Error()
		} else if !eq {
			w = "fail the patched document is not Equal to b: printed " + strconv.Quote(ev.obs.Stdout)
		}
	}
	if w != "ok" {
		if k := cliKnownClass(c, pe.plan, docA, docB, false); k != "" {
			w = k + " [" + strings.TrimPrefix(w, "fail ") + "]"
		}
	}
	ps = append(ps, Probe{Kind: "direct", Rel: rel, Want: w})
	return ps
}

// ---------------------------------------------------------------------------------------------
// flag declarations of both main.go files against the model's flag table

var cliFlagDeclRe = regexp.MustCompile(`flag\.(Bool|String|Int|Float64)\(\s*"([^"]+)"\s*,\s*([^,]+?)\s*,`)

func cliDeclaredFlags(path string) (string, error) {
	src, err := os.ReadFile(path)
	if err != nil {
		return "", err
	}
	out := []string{}
	for _, m := range cliFlagDeclRe.FindAllStringSubmatch(string(src), -1) {
		out = append(out, m[2]+":"+m[1]+":"+m[3])
	}
	sort.Strings(out)
	return strings.Join(out, ","), nil
}

var cliParseMetaRe = regexp.MustCompile(`(?s)func (parseMetadata\w*)\(\)[^{]*\{(.*?)\n}\n`)
var cliAppendRe = regexp.MustCompile(`append\(\w+,\s*\w+\.(\w+)`)

// order in which parseMetadata* appends the options, e.g. "S,B,K,M,P"
func cliAppendOrder(path, fn string) (string, error) {
	src, err := os.ReadFile(path)
	if err != nil {
		return "", err
	}
	letter := map[string]string{"SET": "S", "MULTISET": "B", "SetKeys": "K", "Setkeys": "K", "MERGE": "M", "Precision": "P", "SetPrecision": "P"}
	for _, m := range cliParseMetaRe.FindAllStringSubmatch(string(src), -1) {
		if m[1] != fn {
			continue
		}
		out := []string{}
		for _, a := range cliAppendRe.FindAllStringSubmatch(m[2], -1) {
			l, ok := letter[a[1]]
			if !ok {
				l = "?" + a[1]
			}
			out = append(out, l)
		}
		return strings.Join(out, ","), nil
	}
	return "", fmt.Errorf("function %s not found in %s", fn, path)
}

func cliFlagTableCase(run *Run) Case {
	cs := Case{Recipe: Recipe{"c14flags", []string{}}, Desc: map[string]string{"kind": "flag declarations"}, Sig: "flags", Nontrivial: true}
	res, err := RunDriver(run.DriverBin, []string{"a cliflags v2jd", "b cliflags top"})
	for _, x := range []struct{ id, bin, path string }{{"a", "v2jd", filepath.Join(repoDir, "v2", "jd", "main.go")}, {"b", "top", filepath.Join(repoDir, "main.go")}} {
		w := "ok"
		if err != nil {
			w = "fail " + err.Error()
		} else {
			model := strings.Split(res[x.id], ",")
			sort.Strings(model)
			decl, derr := cliDeclaredFlags(x.path)
			if derr != nil {
				w = "fail " + derr.Error()
			} else if decl != strings.Join(model, ",") {
				w = "fail flags declared in " + x.path + " = " + decl + " but the model has " + strings.Join(model, ",")
			}
			cs.Desc["declared_"+x.bin] = decl
		}
		cs.Probes = append(cs.Probes, Probe{Kind: "direct", Rel: "C14 flag names, types and defaults of the model = flag.X(...) declarations in " + x.path, Want: w})
	}
	// order of the option list (SET, MULTISET, SetKeys, MERGE, Precision last): the position of Precision
	// cannot be observed through the binaries, so it is read off the source
	all := "set=1 mset=1 setkeys=x61 f=x6d65726765 nargs=2"
	plans, perr := cliPlans(run.DriverBin, []string{"cliplan v2jd " + all, "cliplan top " + all, "cliplan topV1 " + all})
	for i, x := range []struct{ bin, path, fn string }{{"v2jd", filepath.Join(repoDir, "v2", "jd", "main.go"), "parseMetadata"}, {"top", filepath.Join(repoDir, "main.go"), "parseMetadataV2"}, {"topV1", filepath.Join(repoDir, "main.go"), "parseMetadata"}} {
		w := "ok"
		if perr != nil {
			w = "fail " + perr.Error()
		} else if pl, err := parseCliPlan(plans[i]); err != nil {
			w = "fail " + err.Error()
		} else if order, err := cliAppendOrder(x.path, x.fn); err != nil {
			w = "fail " + err.Error()
		} else {
			ks := []string{}
			for _, it := range pl.Opts {
				ks = append(ks, it.Kind)
			}
			if strings.Join(ks, ",") != order {
				w = "fail " + x.fn + " in " + x.path + " appends " + order + " but the model's list is " + strings.Join(ks, ",")
			}
			cs.Desc["append_order_"+x.bin] = order
		}
		cs.Probes = append(cs.Probes, Probe{Kind: "direct", Rel: "C14 order of the option list of the model = order of the append calls in " + x.fn + " (" + x.path + ")", Want: w})
	}
	return cs
}

// ---------------------------------------------------------------------------------------------
// generator

var cliPrecNums = []float64{1, 1.00001, 1.0005, 2, 0.1, 0.5, 0, 3}

func cliPick(r *Rng, xs ...string) string { return xs[r.Intn(len(xs))] }

func cliBinary(r *Rng, c *cliCfg) {
	switch r.Intn(3) {
	case 0:
		c.Bin = "v2jd"
		if r.Chance(1, 4) {
			c.V2 = cliPick(r, "false", "false", "true") // declared, ignored
		}
	case 1:
		c.Bin = "top"
		if r.Chance(1, 6) {
			c.V2 = "true"
		}
	default:
		c.Bin = "top"
		c.V2 = "false"
		c.Alias = r.Chance(1, 2)
	}
}

// option flags + a generator configuration that suits them
func cliOptionFlags(r *Rng, c *cliCfg) GenCfg {
	g := DefaultCfg()
	if r.Chance(1, 4) {
		g.Strs = nastyStrs
		g.Keys = nastyKeys
	}
	switch r.Intn(8) {
	case 0:
		c.Set = true
	case 1:
		c.Mset = true
	case 2:
		c.Setkeys = cliPick(r, "id", "id,k", " id , k", "id ")
		keys := []string{}
		for _, k := range strings.Split(c.Setkeys, ",") {
			keys = append(keys, strings.TrimSpace(k))
		}
		g = DefaultCfg()
		g.SetKeys = keys
		g.Keys = []string{"a", "b", "id", "k", "x"}
	case 3:
		c.Prec = cliPick(r, "0.001", "0.1", "0.5", "1e-9", "0", "-0")
		g.Nums = cliPrecNums
	case 4:
		if r.Chance(1, 2) {
			g.Nums = nastyNums
		}
	case 5:
		// several array interpretations at once: the first option in the list handed to the library wins
		switch r.Intn(3) {
		case 0:
			c.Set, c.Mset = true, true
		case 1:
			c.Mset, c.Setkeys = true, "id"
		default:
			c.Set, c.Setkeys = true, "id"
		}
		if c.Setkeys != "" {
			g = DefaultCfg()
			g.SetKeys = []string{"id"}
			g.Keys = []string{"a", "b", "id", "k", "x"}
		}
	}
	switch r.Intn(6) {
	case 0:
		c.F = "jd"
	case 1:
		c.F = "patch"
	case 2, 3:
		c.F = "merge"
		g.AllowNull = false
	}
	c.Yaml = r.Chance(1, 3)
	return g
}

func (c *cliCfg) docText(r *Rng, v *Val) string {
	if c.Yaml {
		t := cliYAML(v, r.Chance(2, 3))
		if r.Chance(1, 4) {
			// the whole document indented: leading white space is significant in YAML (an input that is
			// trimmed on one path — stdin, say — and not on the other reads differently)
			ls := strings.Split(strings.TrimRight(t, "\n"), "\n")
			for i := range ls {
				ls[i] = "  " + ls[i]
			}
			t = strings.Join(ls, "\n") + "\n"
		}
		return t
	}
	if r.Chance(1, 6) {
		return " \n\t" + cliJSON(v) + "\n \n"
	}
	return cliJSON(v)
}

func cliSetDocs(c *cliCfg, a, b *Val) {
	c.DocA, c.DocB = a.Wire(), b.Wire()
}

// place the second input in a file or on stdin
func cliSecond(r *Rng, c *cliCfg, first, second string) {
	if r.Chance(1, 3) {
		c.Args = []cliArg{{Content: first}}
		c.Stdin = &second
	} else {
		c.Args = []cliArg{{Content: first}, {Content: second}}
	}
}

var cliMalformed = []string{"{", "[1,", "{\"a\":}", "nul", "[1 2]", "{\"a\":1,}", "\"abc", "\xff\xfe", "{\"a\":1} x", "- [", "a: [1,\nb", "a: b: c", "{a: 1, a", "\t- x\n  y: [", "key: \"unterminated"}

func cliOpts(c *cliCfg) OptSet {
	// the option list of these flags (for rendering inputs of patch / translate cases only)
	o := OptSet{}
	if c.Set {
		o = append(o, OptItem{Kind: "S"})
	}
	if c.Mset {
		o = append(o, OptItem{Kind: "B"})
	}
	if c.Setkeys != "" {
		ks := []string{}
		for _, k := range strings.Split(c.Setkeys, ",") {
			ks = append(ks, strings.TrimSpace(k))
		}
		o = append(o, OptItem{Kind: "K", Keys: ks})
	}
	if c.F == "merge" {
		o = append(o, OptItem{Kind: "M"})
	}
	return o
}

// a diff text in format f made by the library the binary will use
func cliDiffText(v1 bool, o OptSet, f string, a, b *Val) string {
	out, _ := safely(func() string {
		if v1 {
			x, err := jdv1.VerifDecodeNode(a.Wire())
			if err != nil {
				return ""
			}
			y, err := jdv1.VerifDecodeNode(b.Wire())
			if err != nil {
				return ""
			}
			d := x.Diff(y, cliV1Meta(o)...)
			switch f {
			case "patch":
				s, _ := d.RenderPatch()
				return s
			case "merge":
				s, _ := d.RenderMerge()
				return s
			}
			return d.Render()
		}
		d := mustNode(a.Wire()).Diff(mustNode(b.Wire()), o.Go()...)
		switch f {
		case "patch":
			s, _ := d.RenderPatch()
			return s
		case "merge":
			s, _ := d.RenderMerge()
			return s
		}
		return d.Render()
	})
	if out == "panic" {
		return ""
	}
	return out
}

var cliShapes []hunkShape
var cliShapesOnce sync.Once

func cliHostileDiff(r *Rng) string {
	cliShapesOnce.Do(func() { cliShapes = hunkShapes() })
	return malformedDiffText(r, cliShapes)
}

func genCliCfg(r *Rng) *cliCfg {
	c := &cliCfg{}
	cliBinary(r, c)
	k := r.Intn(100)
	switch {
	case k < 44: // diff mode, valid
		c.Kind = "diff"
		g := cliOptionFlags(r, c)
		a, b := g.Pair(r)
		if c.Prec != "" && r.Chance(1, 2) {
			// numbers moved by less than every positive eps in use: Equal under -precision
			b = a.Clone()
			jitter(r, b)
		}
		if (c.Set || c.Mset) && c.Setkeys == "" && r.Chance(1, 4) {
			// equal as sets / multisets, not as lists
			b = a.Clone()
			permuteDeep(r, b, c.Set && !c.Mset && r.Chance(1, 2))
		}
		a, b = withVoid(r, a, b)
		cliSetDocs(c, a, b)
		c.Color = r.Chance(1, 6)
		if r.Chance(1, 4) {
			c.OKind = "file"
		}
		cliSecond(r, c, c.docText(r, a), c.docText(r, b))
		if c.OKind == "file" && r.Chance(1, 3) {
			c.OKind = fmt.Sprintf("in%d", r.Intn(len(c.Args))) // the output replaces one of the inputs
		}
	case k < 56: // patch mode
		c.Kind = "patch"
		g := cliOptionFlags(r, c)
		a, b := g.Pair(r)
		c.P = true
		c.Color = r.Chance(1, 8) // no effect in patch mode
		f := c.F
		dt := cliDiffText(c.isV1(), cliOpts(c), f, a, b)
		if r.Chance(1, 5) {
			dt = cliHostileDiff(r)
		}
		doc := a
		if r.Chance(1, 4) {
			doc = g.Mutate(r, a, 3) // the diff may not apply
		}
		if r.Chance(1, 5) {
			c.OKind = "file"
		}
		cliSecond(r, c, dt, c.docText(r, doc))
		if c.OKind == "file" && r.Chance(1, 2) {
			c.OKind = fmt.Sprintf("in%d", len(c.Args)-1) // patch in place: the last file argument is overwritten
		}
	case k < 68: // translate
		c.Kind = "translate"
		c.T = cliPick(r, "jd2patch", "patch2jd", "jd2merge", "merge2jd", "json2yaml", "yaml2json")
		g := DefaultCfg()
		if r.Chance(1, 3) {
			g.Strs, g.Keys = nastyStrs, nastyKeys
		}
		if strings.Contains(c.T, "merge") {
			g.AllowNull = false
		}
		a, b := g.Pair(r)
		var in string
		switch strings.Split(c.T, "2")[0] {
		case "jd":
			o := OptSet{}
			if c.T == "jd2merge" {
				o = OptMerge
			}
			in = cliDiffText(c.isV1(), o, "jd", a, b)
		case "patch":
			in = cliDiffText(c.isV1(), OptNone, "patch", a, b)
		case "merge":
			in = cliDiffText(c.isV1(), OptMerge, "merge", a, b)
		case "json":
			in = cliJSON(a)
		case "yaml":
			in = cliYAML(a, r.Chance(2, 3))
		}
		if r.Chance(1, 6) {
			in = cliPick(r, cliMalformed...)
		}
		if r.Chance(1, 5) {
			c.OKind = "file"
		}
		// flags without effect in translate mode
		if r.Chance(1, 6) {
			c.Set = true
		}
		if r.Chance(1, 6) {
			c.Yaml = true
		}
		if r.Chance(1, 3) {
			c.Stdin = &in
			c.Args = []cliArg{}
		} else {
			c.Args = []cliArg{{Content: in}}
			if c.OKind == "file" && r.Chance(1, 2) {
				c.OKind = "in0" // translate in place
			}
		}
	case k < 76: // git diff driver
		c.Kind = "git-diff-driver"
		g := cliOptionFlags(r, c)
		a, b := g.Pair(r)
		c.Git = true
		c.Color = r.Chance(1, 4)
		if r.Chance(1, 6) {
			c.OKind = "file"
		}
		if r.Chance(1, 8) {
			c.P = true
		}
		n := 7
		if r.Chance(1, 5) {
			n = []int{0, 2, 6, 8}[r.Intn(4)]
		}
		for i := 0; i < n; i++ {
			switch i {
			case 1:
				c.Args = append(c.Args, cliArg{Content: c.docText(r, a)})
			case 4:
				c.Args = append(c.Args, cliArg{Content: c.docText(r, b)})
			default:
				c.Args = append(c.Args, cliArg{Missing: true})
			}
		}
		if n == 7 && r.Chance(1, 8) {
			c.Args[4].Missing = true
		}
	default: // invalid invocations and order of checks
		genCliInvalid(r, c)
	}
	return c
}

func genCliInvalid(r *Rng, c *cliCfg) {
	g := cliOptionFlags(r, c)
	a, b := g.Pair(r)
	ta, tb := c.docText(r, a), c.docText(r, b)
	c.Args = []cliArg{{Content: ta}, {Content: tb}}
	kinds := []string{"malformed-a", "malformed-b", "missing-a", "missing-b", "o-nodir", "o-dir", "bad-f", "bad-f-patchmode", "bad-t", "p-and-t",
		"nargs-0", "nargs-3", "nargs-translate-2", "precision-set", "precision-mset", "setkeys-empty", "version", "port-args", "port-noargs",
		"missing+bad-f", "malformed+bad-f", "precision-set+nargs", "bad-f+o-nodir", "p-and-t+nargs", "setkeys-empty+missing", "bad-t+missing", "o-nodir-nodiff", "stdin-malformed"}
	k := kinds[r.Intn(len(kinds))]
	c.Kind = "invalid:" + k
	badF := func() string { return cliPick(r, "xml", "JD", "Merge", "pätch", "a\"b", "jd ", "x y") }
	switch k {
	case "malformed-a":
		c.Args[0].Content = cliPick(r, cliMalformed...)
	case "malformed-b":
		c.Args[1].Content = cliPick(r, cliMalformed...)
	case "stdin-malformed":
		s := cliPick(r, cliMalformed...)
		c.Stdin = &s
		c.Args = c.Args[:1]
	case "missing-a":
		c.Args[0].Missing = true
	case "missing-b":
		c.Args[1].Missing = true
	case "o-nodir":
		c.OKind = "nodir"
		cliSetDocs(c, a, b)
	case "o-nodir-nodiff":
		c.OKind = "nodir"
		c.Args[1].Content = ta
	case "o-dir":
		c.OKind = "dir"
		c.P = r.Chance(1, 3)
		if c.P {
			c.Prec = ""
			c.Args[0].Content = cliDiffText(c.isV1(), cliOpts(c), c.F, a, b)
			c.Args[1].Content = ta
		}
	case "bad-f":
		c.F = badF()
	case "bad-f-patchmode":
		c.F = badF()
		c.P = true
	case "bad-t":
		c.T = cliPick(r, "json2xml", "jd2jd", "x", "yaml2yaml", "JD2PATCH", "2")
		c.Args = c.Args[:1]
	case "p-and-t":
		c.P = true
		c.T = cliPick(r, "jd2patch", "nonsense")
	case "nargs-0":
		c.Args = []cliArg{}
		c.P = r.Chance(1, 3)
	case "nargs-3":
		c.Args = append(c.Args, cliArg{Content: ta})
		if r.Chance(1, 3) {
			c.Args = append(c.Args, cliArg{Missing: true})
		}
		c.P = r.Chance(1, 3)
		if r.Chance(1, 3) {
			c.OKind = "file"
		}
	case "nargs-translate-2":
		c.T = "json2yaml"
	case "precision-set":
		c.Prec = cliPick(r, "0.1", "1e-9", "NaN", "-1")
		c.Set = true
	case "precision-mset":
		c.Prec = "0.001"
		c.Mset = true
	case "setkeys-empty":
		c.Setkeys = cliPick(r, "id,,k", "id, ", ",", " ", "id,\t,k")
	case "version":
		c.Version = true
		if r.Chance(1, 2) {
			c.OKind = "file"
		}
		if r.Chance(1, 2) {
			c.Args = []cliArg{}
		}
	case "port-args":
		c.Port = 18080 + r.Intn(100)
	case "port-noargs":
		c.Port = 18080 + r.Intn(100)
		c.Args = []cliArg{}
	case "missing+bad-f":
		c.Args[r.Intn(2)].Missing = true
		c.F = badF()
	case "malformed+bad-f":
		c.Args[r.Intn(2)].Content = cliPick(r, cliMalformed...)
		c.F = badF()
	case "precision-set+nargs":
		c.Prec = "0.5"
		c.Set = true
		c.Args = []cliArg{}
	case "bad-f+o-nodir":
		c.F = badF()
		c.OKind = "nodir"
	case "p-and-t+nargs":
		c.P = true
		c.T = "jd2patch"
		c.Args = []cliArg{}
	case "setkeys-empty+missing":
		c.Setkeys = "a,,b"
		c.Args[0].Missing = true
	case "bad-t+missing":
		c.T = "json2xml"
		c.Args = []cliArg{{Missing: true}}
	}
}

// ---------------------------------------------------------------------------------------------

func propC14(run *Run, n int) {
	run.rule = "configurations = (binary in {v2/jd, top, top -v2=false}) x flags {-set,-mset,-setkeys,-yaml,-color,-precision,-f,-o,-p,-t,-git-diff-driver,-version,-port} x inputs (JSON/YAML, equal/different, malformed, missing) x {file, stdin}; each case runs the primary command, its stdin/file twin and, in diff mode, the -p leg of the round trip, every run compared with cliM; non-trivial = main reaches the library; distinct = distinct configuration"
	bins := cliBuild()
	defer bins.cleanup()
	if bins.err != nil {
		c := Case{Recipe: Recipe{"c14build", []string{}}, Desc: map[string]string{"kind": "build"}}
		c.Probes = append(c.Probes, Probe{Kind: "direct", Rel: "C14 both binaries build from the working tree", Want: "fail " + bins.err.Error()})
		run.Add(c)
		return
	}
	run.Add(cliFlagTableCase(run))
	r := NewRng(run.Seed).Fork() // Fork: the streams of neighbouring seeds must not be shifted copies of each other
	cfgs := make([]*cliCfg, n)
	for i := range cfgs {
		cfgs[i] = genCliCfg(r)
	}
	// a fixed matrix that does not depend on the seed: every binary x every spelling of -setkeys / -precision
	// on documents where the option decides the output (the options must reach the library the same way in
	// the three binaries)
	cfgs = append(cliFixedMatrix(), cfgs...)
	n = len(cfgs)
	out := make([]Case, n)
	var wg sync.WaitGroup
	jobs := make(chan int)
	for w := 0; w < 16; w++ {
		wg.Add(1)
		go func() {
			defer wg.Done()
			for i := range jobs {
				out[i] = bins.runCase(cfgs[i], filepath.Join(bins.dir, fmt.Sprintf("c%d", i)), run.DriverBin)
				os.RemoveAll(filepath.Join(bins.dir, fmt.Sprintf("c%d", i)))
			}
		}()
	}
	for i := range cfgs {
		jobs <- i
	}
	close(jobs)
	wg.Wait()
	for i, c := range out {
		cfg := cfgs[i]
		run.Count("kind:" + cfg.Kind)
		run.Count("binary:" + cfg.label())
		run.Count("exit:" + c.Desc["exit"])
		if cfg.Yaml {
			run.Count("input:yaml")
		} else {
			run.Count("input:json")
		}
		if cfg.Stdin != nil {
			run.Count("second_input:stdin")
		}
		if cfg.OKind != "" {
			run.Count("o:" + cfg.OKind)
		}
		if cfg.F != "" {
			run.Count("f:" + cfg.F)
		}
		for _, fl := range []struct {
			on   bool
			name string
		}{{cfg.Set, "-set"}, {cfg.Mset, "-mset"}, {cfg.Setkeys != "", "-setkeys"}, {cfg.Color, "-color"}, {cfg.Prec != "", "-precision"}, {cfg.P, "-p"}, {cfg.T != "", "-t"}, {cfg.Git, "-git-diff-driver"}} {
			if fl.on {
				run.Count("flag:" + fl.name)
			}
		}
		run.Add(c)
	}
	run.dist["process_runs"] = int(bins.runs)
	run.Note(fmt.Sprintf("%d configurations, %d process runs of the real binaries", bins.cases, bins.runs))
}

func cliFixedMatrix() []*cliCfg {
	a := VArr(VObj("id", VNum(1), "k", VNum(2), "v", VNum(1)), VObj("id", VNum(3), "k", VNum(4), "v", VNum(2)), VNum(5), VNum(5.00001))
	b := VArr(VObj("id", VNum(3), "k", VNum(4), "v", VNum(2)), VNum(5.00001), VObj("id", VNum(1), "k", VNum(2), "v", VNum(9)), VNum(5))
	out := []*cliCfg{}
	for _, bin := range [][2]string{{"v2jd", ""}, {"top", ""}, {"top", "false"}} {
		for _, opt := range []func(c *cliCfg){
			func(c *cliCfg) { c.Setkeys = "id,k" },
			func(c *cliCfg) { c.Setkeys = " id , k" },
			func(c *cliCfg) { c.Setkeys = "id ,\tk " },
			func(c *cliCfg) { c.Set = true },
			func(c *cliCfg) { c.Mset = true },
			func(c *cliCfg) { c.Prec = "0.001" },
		} {
			for _, f := range []string{"", "patch", "merge"} {
				c := &cliCfg{Bin: bin[0], V2: bin[1], Kind: "diff", F: f}
				opt(c)
				if f == "patch" && (c.Set || c.Mset || c.Setkeys != "") {
					continue // set paths are not expressible as JSON Pointers: exercised by the random part
				}
				cliSetDocs(c, a, b)
				c.Args = []cliArg{{Content: cliJSON(a)}, {Content: cliJSON(b)}}
				out = append(out, c)
			}
		}
	}
	// strings that are format directives for a printf-style function, in changed values and in member names
	qa, qb := VObj("discount", VStr("none"), "k%d", VNum(1)), VObj("discount", VStr("100% sure %s %v"), "k%d", VStr("a%%b 5%"))
	for _, bin := range [][2]string{{"v2jd", ""}, {"top", ""}, {"top", "false"}} {
		for _, f := range []string{"", "patch", "merge"} {
			c := &cliCfg{Bin: bin[0], V2: bin[1], Kind: "diff", F: f}
			cliSetDocs(c, qa, qb)
			c.Args = []cliArg{{Content: cliJSON(qa)}, {Content: cliJSON(qb)}}
			out = append(out, c)
		}
	}
	// numbers that differ by less than the precision and nothing else (v2 Diff ignores the precision, v1 honours it): the
	// exit status must follow what the program PRINTS
	pa, pb := VObj("name", VStr("probe"), "temp", VNum(20)), VObj("name", VStr("probe"), "temp", VNum(20.04))
	for _, bin := range [][2]string{{"v2jd", ""}, {"top", ""}, {"top", "false"}} {
		for _, f := range []string{"", "patch", "merge"} {
			c := &cliCfg{Bin: bin[0], V2: bin[1], Kind: "diff", F: f, Prec: "0.1"}
			cliSetDocs(c, pa, pb)
			c.Args = []cliArg{{Content: cliJSON(pa)}, {Content: cliJSON(pb)}}
			out = append(out, c)
		}
	}
	// a valid document FOLLOWED BY more content (a second document, JSON lines, garbage): an error for every way the
	// text reaches the program — first or second named file, or standard input
	ta := VObj("a", VNum(1))
	for _, bin := range [][2]string{{"v2jd", ""}, {"top", ""}, {"top", "false"}} {
		for _, trailing := range []string{"{\"a\":1}\n{\"a\":2}\n", "{\"a\":1} x", "[1,3] oops", "{\"a\":1}{\"a\":1}", "1 2"} {
			for pos := 0; pos < 3; pos++ {
				c := &cliCfg{Bin: bin[0], V2: bin[1], Kind: "invalid:trailing-content"}
				cliSetDocs(c, ta, ta)
				switch pos {
				case 0:
					c.Args = []cliArg{{Content: trailing}, {Content: cliJSON(ta)}}
				case 1:
					c.Args = []cliArg{{Content: cliJSON(ta)}, {Content: trailing}}
				default:
					t := trailing
					c.Args = []cliArg{{Content: cliJSON(ta)}}
					c.Stdin = &t
				}
				out = append(out, c)
			}
		}
	}
	return out
}

func init() {
	props["C14"] = propC14
	quickN["C14"] = 900
	thoroughN["C14"] = 6000
	recipes["c14"] = func(run *Run, a []string) {
		var c cliCfg
		if err := json.Unmarshal([]byte(a[0]), &c); err != nil {
			panic("bad c14 recipe: " + err.Error())
		}
		bins := cliBuild()
		defer bins.cleanup()
		if bins.err != nil {
			cs := Case{Recipe: Recipe{"c14", a}, Desc: map[string]string{"kind": "build"}}
			cs.Probes = append(cs.Probes, Probe{Kind: "direct", Rel: "C14 both binaries build from the working tree", Want: "fail " + bins.err.Error()})
			run.Add(cs)
			return
		}
		run.Add(bins.runCase(&c, filepath.Join(bins.dir, "c0"), run.DriverBin))
	}
	recipes["c14flags"] = func(run *Run, a []string) { run.Add(cliFlagTableCase(run)) }
}
