import JdProps.C03
import JdProps.C04
import JdProps.C06
import JdProps.C13
