import JdSpec.CanonEq
