import JdSpec.CanonEq
import JdSpec.HunkSem
