import JdSpec.CanonEq
import JdSpec.HunkSem
import JdSpec.FloatLaws
