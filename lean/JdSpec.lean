import JdSpec.CanonEq
import JdSpec.HunkSem
import JdSpec.FloatLaws
import JdSpec.Rfc7386
import JdSpec.Rfc6902
