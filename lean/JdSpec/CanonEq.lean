/-
  JdSpec.CanonEq — the advertised equivalence of documents (property C04), written without hashes.

  `equivB o a b`: deep structural equality; arrays are compared according to the reading selected by
  the options (`dispatchTag o`): ordered lists, mathematical sets (recursively) under SET / SetKeys,
  bags under MULTISET; numbers within `eps` under Precision(eps). The Go dynamic type of an array
  node (the tag) is ignored: the spec is about JSON values.
-/
import JdModel.Equals

namespace Jd.Spec
open Jd

/-- remove the first element satisfying `p`; `none` when there is none -/
def removeFirst {α} (p : α → Bool) : List α → Option (List α)
  | [] => none
  | x :: r => if p x then some r else (removeFirst p r).map (x :: ·)

mutual
def equivB (o : Opts) (a b : Json) : Bool :=
  match a, b with
  | .void, .void => true
  | .null, .null => true
  | .bool x, .bool y => x == y
  | .num x, .num y => numWithin (precOf o) x y
  | .str x, .str y => x == y
  | .arr _ xs, .arr _ ys =>
    match dispatchTag o with
    | .set => allIn o xs ys && allCovered o xs ys
    | .mset => xs.length == ys.length && bagSub o xs ys
    | _ => equivList o xs ys
  | .obj kvs, .obj kvs' =>
    kvs.length == kvs'.length && equivKvs o kvs kvs'
  | _, _ => false
termination_by (sizeOf a, 0)
/-- some element of `xs` is equivalent to `y` -/
def anyEquiv (o : Opts) (xs : List Json) (y : Json) : Bool :=
  match xs with
  | [] => false
  | x :: r => equivB o x y || anyEquiv o r y
termination_by (sizeOf xs, 0)
/-- every element of `xs` has an equivalent in `ys` -/
def allIn (o : Opts) (xs ys : List Json) : Bool :=
  match xs with
  | [] => true
  | x :: r => ys.any (fun y => equivB o x y) && allIn o r ys
termination_by (sizeOf xs, 0)
/-- every element of `ys` has an equivalent in `xs` -/
def allCovered (o : Opts) (xs ys : List Json) : Bool :=
  match ys with
  | [] => true
  | y :: r => anyEquiv o xs y && allCovered o xs r
termination_by (sizeOf xs, ys.length + 1)
def equivList (o : Opts) (xs ys : List Json) : Bool :=
  match xs, ys with
  | [], [] => true
  | x :: xs, y :: ys => equivB o x y && equivList o xs ys
  | _, _ => false
termination_by (sizeOf xs, 0)
/-- every element of `xs` can be matched with a distinct equivalent element of `ys` -/
def bagSub (o : Opts) (xs ys : List Json) : Bool :=
  match xs with
  | [] => true
  | x :: r =>
    match removeFirst (fun y => equivB o x y) ys with
    | some ys' => bagSub o r ys'
    | none => false
termination_by (sizeOf xs, 0)
def equivKvs (o : Opts) (kvs kvs' : List (String × Json)) : Bool :=
  match kvs with
  | [] => true
  | (k, v) :: r =>
    (match alookup k kvs' with
     | some v' => equivB o v v'
     | none => false) && equivKvs o r kvs'
termination_by (sizeOf kvs, 0)
end

end Jd.Spec
