/-
  JdSpec.FloatLaws — the laws of IEEE-754 binary64 comparison used by theorems. `numWithin` is
  evaluated by the Lean runtime's `Float`, which the kernel treats as opaque; theorems that need
  these facts take `FloatLaws` as an explicit hypothesis (trusted base: IEEE-754 semantics).
-/
import JdModel.Equals

namespace Jd.Spec
open Jd

/-- the bit pattern is a finite number (exponent field not all ones) -/
def finiteBits (b : UInt64) : Bool := (b >>> 52) &&& 0x7FF != 0x7FF

/-- the bit pattern is a non-negative finite number or +0 (sign bit clear) -/
def nonnegBits (b : UInt64) : Bool := finiteBits b && b >>> 63 == 0

structure FloatLaws : Prop where
  /-- |a - a| = 0 ≤ eps for finite a and eps ≥ 0 -/
  refl : ∀ eps a, finiteBits a = true → nonnegBits eps = true → numWithin eps a a = true
  /-- |a - b| = |b - a| -/
  symm : ∀ eps a b, numWithin eps a b = numWithin eps b a

end Jd.Spec
