/-
  JdSpec.Rfc7386 — the MergePatch pseudocode of RFC 7386 §2, verbatim:

    define MergePatch(Target, Patch):
      if Patch is an Object:
        if Target is not an Object: Target = {}
        for each Name/Value pair in Patch:
          if Value is null: if Name exists in Target: remove the Name/Value pair from Target
          else: Target[Name] = MergePatch(Target[Name], Value)
        return Target
      else: return Patch

  `Target[Name]` of an absent member is "undefined": represented by `void`.
-/
import JdModel.Basic

namespace Jd.Spec
open Jd

mutual
def mergePatch (target : Json) : Json → Json
  | .obj pkvs =>
    let t : List (String × Json) := match target with | .obj kvs => kvs | _ => []
    .obj (mergeMembers t pkvs)
  | p => p
def mergeMembers (t : List (String × Json)) : List (String × Json) → List (String × Json)
  | [] => t
  | (k, v) :: r =>
    match v with
    | .null => mergeMembers (aerase k t) r
    | v => mergeMembers (ainsert k (mergePatch ((alookup k t).getD .void) v) t) r
end

end Jd.Spec
