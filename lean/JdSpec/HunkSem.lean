/-
  JdSpec.HunkSem — reference semantics of hunks, written from the documentation (README, doc/v2.md)
  and from the statements of properties C03 and C08, independently of the library's patch code:
  no hashes, no Go slice surgery, `Option` (applies / rejected) instead of error values.

  * strict hunks whose path consists of object keys and list indices (C03):
      navigate; at the end either replace a value (root or object member: the removed value must be
      what is there, absent = nothing there) or splice a list at an index with the before / after
      context lines checked against the neighbouring elements (or the array boundary);
  * hunks addressed to a set `{}`, a multiset `[]` or a keyed member `{"k":v}` (C08).
-/
import JdSpec.CanonEq
import JdModel.WF

namespace Jd.Spec
open Jd

/-- structural equality of documents (ordered arrays, no options) -/
def specEq (x y : Json) : Bool := equivB [] x y

def single (l : List Json) : Json := Json.singleValue l

/-- pointwise `specEq` of a list against a prefix of another -/
def prefixEq : List Json → List Json → Bool
  | [], _ => true
  | _ :: _, [] => false
  | r :: rs, x :: xs => specEq x r && prefixEq rs xs

/-- before-context: line `j` of `n` lines stands at index `i - (n - j)`; index -1 is the array start,
    which only the boundary marker (void) matches -/
def beforeOk (l : List Json) (i : Int) (n : Nat) : Nat → List Json → Bool
  | _, [] => true
  | j, b :: r =>
    let k : Int := i - ((n : Int) - (j : Int))
    (if k < 0 then k == -1 && b.isVoid
     else match l[k.toNat]? with
       | some x => specEq b x
       | none => false) && beforeOk l i n (j + 1) r

/-- after-context against the elements following the removed run; the position just past the end is
    the array end, which only the boundary marker matches -/
def afterOk (post : List Json) : Nat → List Json → Bool
  | _, [] => true
  | j, a :: r =>
    (match post[j]? with
     | some x => specEq a x
     | none => j == post.length && a.isVoid) && afterOk post (j + 1) r

/-- list splice of a strict hunk at index `i` -/
def splice (l : List Json) (i : Int) (h : Hunk) : Option (List Json) :=
  if i == -1 then
    (if h.remove.isEmpty then some (l ++ h.add) else none)
  else if i < 0 || i > (l.length : Int) then none
  else
    let pre := l.take i.toNat
    let rest := l.drop i.toNat
    let post := rest.drop h.remove.length
    if prefixEq h.remove rest && beforeOk l i h.before.length 0 h.before && afterOk post 0 h.after
    then some (pre ++ h.add ++ post) else none

/-- a strict hunk whose path consists of keys and indices -/
def applyStrict (n : Json) : Path → Hunk → Option Json
  | [], h =>
    if h.remove.length > 1 || h.add.length > 1 then none
    else if specEq n (single h.remove) then some (single h.add) else none
  | [.idx i], h =>
    match n with
    | .arr _ xs => (splice xs i h).map (Json.arr .raw ·)
    | _ => none
  | .idx i :: rest, h =>
    match n with
    | .arr _ xs =>
      if i < 0 then none
      else match xs[i.toNat]? with
        | some x => (applyStrict x rest h).map (fun v => Json.arr .raw (xs.set i.toNat v))
        | none => none
    | _ => none
  | .key k :: rest, h =>
    match n with
    | .obj kvs =>
      (applyStrict ((alookup k kvs).getD .void) rest h).map (fun v =>
        if v.isVoid then Json.obj (aerase k kvs) else Json.obj (ainsert k v kvs))
    | _ => none
  | _, _ => none

/-- strict hunks in sequence -/
def applyStrictAll (n : Json) : Diff → Option Json
  | [] => some n
  | h :: d => (applyStrict n h.path h).bind (applyStrictAll · d)

/-! ### set / bag / keyed-member hunks (C08) -/

def memEq (o : Opts) (x : Json) (l : List Json) : Bool := l.any (fun y => equivB o x y)

/-- remove one occurrence of each listed element (bag difference); `none` when one is missing -/
def bagRemove (o : Opts) : List Json → List Json → Option (List Json)
  | l, [] => some l
  | l, r :: rs =>
    match removeFirst (fun y => equivB o y r) l with
    | some l' => bagRemove o l' rs
    | none => none

/-- the target array after a set hunk, as a set: every removed element must be present -/
def applySetLeaf (xs : List Json) (h : Hunk) : Option (List Json) :=
  let o : Opts := [.set]
  if h.remove.all (fun r => memEq o r xs) then
    some (xs.filter (fun x => !(memEq o x h.remove)) ++ h.add)
  else none

/-- the target array after a multiset hunk, as a bag: removed elements must be present often enough -/
def applyBagLeaf (xs : List Json) (h : Hunk) : Option (List Json) :=
  (bagRemove [.mset] xs h.remove).map (· ++ h.add)

/-- does object `kvs` carry exactly the key/value pairs of the path object `po`? -/
def matchesKeys (kvs po : List (String × Json)) : Bool :=
  po.all (fun kv => match alookup kv.1 kvs with
    | some v => equivB [.set] v kv.2
    | none => false)

/-- as `matchesKeys`, and a key the object does not have matches a null in the path object (the diff
    writes null for a set key the member lacks) -/
def matchesKeysTol (kvs po : List (String × Json)) : Bool :=
  po.all (fun kv => match alookup kv.1 kvs with
    | some v => equivB [.set] v kv.2
    | none => kv.2.isNull)

/-- the members a keyed path element `{"k":v}` denotes: the objects carrying exactly these key values;
    when there is none, the objects that carry them where they have the key and lack the keys that are
    null in the path -/
def keyedMembers (xs : List Json) (po : List (String × Json)) : Json → Bool :=
  let exact : Json → Bool := fun x => match x with | .obj kvs => matchesKeys kvs po | _ => false
  if xs.any exact then exact
  else fun x => match x with | .obj kvs => matchesKeysTol kvs po | _ => false

/-- reference semantics of one hunk with any path: keys and indices as in `applyStrict`, a final
    set `{}` or multiset `[]` element, and keyed members `{"k":v}` (exactly one member must match;
    the rest of the path is applied inside it and its failure is the hunk's failure) -/
def applyHunkRef (n : Json) : Path → Hunk → Option Json
  | [], h =>
    if h.remove.length > 1 || h.add.length > 1 then none
    else if specEq n (single h.remove) then some (single h.add) else none
  | .set :: _, h =>
    match n with
    | .arr _ xs => (applySetLeaf xs h).map (Json.arr .raw ·)
    | _ => none
  | .mset :: _, h =>
    match n with
    | .arr _ xs => (applyBagLeaf xs h).map (Json.arr .raw ·)
    | _ => none
  | .setKeys po :: rest, h =>
    if rest.isEmpty then none
    else match n with
      | .arr _ xs =>
        match xs.filter (keyedMembers xs po) with
        | [m] =>
          (applyHunkRef m rest h).map (fun v =>
            Json.arr .raw (xs.map (fun x => if keyedMembers xs po x then v else x)))
        | _ => none
      | _ => none
  | [.idx i], h =>
    match n with
    | .arr _ xs => (splice xs i h).map (Json.arr .raw ·)
    | _ => none
  | .idx i :: rest, h =>
    match n with
    | .arr _ xs =>
      if i < 0 then none
      else match xs[i.toNat]? with
        | some x => (applyHunkRef x rest h).map (fun v => Json.arr .raw (xs.set i.toNat v))
        | none => none
    | _ => none
  | .key k :: rest, h =>
    match n with
    | .obj kvs =>
      (applyHunkRef ((alookup k kvs).getD .void) rest h).map (fun v =>
        if v.isVoid then Json.obj (aerase k kvs) else Json.obj (ainsert k v kvs))
    | _ => none
  | _, _ => none

def applyRefAll (n : Json) : Diff → Option Json
  | [] => some n
  | h :: d => (applyHunkRef n h.path h).bind (applyRefAll · d)

end Jd.Spec

namespace Jd.Spec
open Jd

mutual
/-- forget the Go dynamic type of array nodes -/
def untag : Json → Json
  | .arr _ xs => .arr .raw (untagList xs)
  | .obj kvs => .obj (untagKvs kvs)
  | n => n
def untagList : List Json → List Json
  | [] => []
  | x :: r => untag x :: untagList r
def untagKvs : List (String × Json) → List (String × Json)
  | [] => []
  | (k, v) :: r => (k, untag v) :: untagKvs r
end

/-- a path made of object keys and list indices only -/
def strictPath : Path → Bool
  | [] => true
  | .key _ :: r => strictPath r
  | .idx _ :: r => strictPath r
  | _ => false

def hunkListDoc (h : Hunk) : Bool :=
  listDocList h.before && listDocList h.remove && listDocList h.add && listDocList h.after

def optToOutcome {α} : Option α → Outcome α
  | some a => .ok a
  | none => .err

def Outcome.mapO {α β} (f : α → β) : Outcome α → Outcome β
  | .ok a => .ok (f a)
  | .err => .err
  | .panic => .panic

end Jd.Spec
