/-
  JdSpec.Rfc6902 — evaluator of JSON Patch (RFC 6902) written from the RFC text, sharing no code
  with jd's reader: JSON Pointer resolution (RFC 6901) with the array index grammar
  `0 | [1-9][0-9]* | -`, operations add / remove / replace / test / move / copy, over `Option`-less
  documents where `void` stands for "no document" (so that adding at "" and removing the root are
  expressible). An error anywhere aborts the whole patch (`none`).
-/
import JdSpec.CanonEq

namespace Jd.Spec
open Jd

structure Op where
  op : String
  path : String
  from_ : String := ""
  value : Json := .null
deriving Repr, Inhabited

/-- RFC 6901 token decoding: `~1` → `/`, `~0` → `~`; a `~` followed by anything else is an error -/
def decodeToken : List Char → Option (List Char)
  | [] => some []
  | '~' :: '0' :: r => (decodeToken r).map ('~' :: ·)
  | '~' :: '1' :: r => (decodeToken r).map ('/' :: ·)
  | '~' :: _ => none
  | c :: r => (decodeToken r).map (c :: ·)

/-- a JSON Pointer as a list of reference tokens -/
def parsePointer (s : String) : Option (List String) :=
  if s == "" then some []
  else if !(s.startsWith "/") then none
  else ((s.splitOn "/").drop 1).mapM (fun t => (decodeToken t.toList).map String.ofList)

/-- array index grammar of RFC 6901 §4 (no leading zeros, no sign) -/
def arrayIndex? (t : String) : Option Nat :=
  let cs := t.toList
  if cs.isEmpty || !(cs.all (fun c => '0' ≤ c && c ≤ '9')) then none
  else if cs.length > 1 && cs.head? == some '0' then none
  else some (cs.foldl (fun (acc : Nat) c => acc * 10 + (c.toNat - 48)) 0)

/-- the value a pointer refers to -/
def getP (n : Json) : List String → Option Json
  | [] => if n.isVoid then none else some n
  | t :: r =>
    match n with
    | .obj kvs => (alookup t kvs).bind (getP · r)
    | .arr _ xs => (arrayIndex? t).bind (fun i => (xs[i]?).bind (getP · r))
    | _ => none

/-- add (or replace the root): the parent must exist; in arrays the index may equal the length, `-` appends -/
def addP (n : Json) : List String → Json → Option Json
  | [], v => some v
  | [t], v =>
    match n with
    | .obj kvs => some (.obj (ainsert t v kvs))
    | .arr _ xs =>
      if t == "-" then some (.arr .raw (xs ++ [v]))
      else (arrayIndex? t).bind (fun i => if i ≤ xs.length then some (.arr .raw (xs.take i ++ v :: xs.drop i)) else none)
    | _ => none
  | t :: r, v =>
    match n with
    | .obj kvs => (alookup t kvs).bind (fun c => (addP c r v).map (fun c' => .obj (ainsert t c' kvs)))
    | .arr _ xs => (arrayIndex? t).bind (fun i => (xs[i]?).bind (fun c => (addP c r v).map (fun c' => .arr .raw (xs.set i c'))))
    | _ => none

/-- remove: the target location must exist -/
def removeP (n : Json) : List String → Option Json
  | [] => if n.isVoid then none else some .void
  | [t] =>
    match n with
    | .obj kvs => if (alookup t kvs).isSome then some (.obj (aerase t kvs)) else none
    | .arr _ xs => (arrayIndex? t).bind (fun i => if i < xs.length then some (.arr .raw (xs.eraseIdx i)) else none)
    | _ => none
  | t :: r =>
    match n with
    | .obj kvs => (alookup t kvs).bind (fun c => (removeP c r).map (fun c' => .obj (ainsert t c' kvs)))
    | .arr _ xs => (arrayIndex? t).bind (fun i => (xs[i]?).bind (fun c => (removeP c r).map (fun c' => .arr .raw (xs.set i c'))))
    | _ => none

/-- one operation -/
def evalOp (n : Json) (o : Op) : Option Json := do
  let p ← parsePointer o.path
  if o.op == "test" then
    let v ← getP n p
    if equivB [] v o.value then some n else none
  else if o.op == "add" then addP n p o.value
  else if o.op == "remove" then removeP n p
  else if o.op == "replace" then
    let _ ← getP n p
    let n' ← removeP n p
    addP n' p o.value
  else if o.op == "move" then
    let f ← parsePointer o.from_
    let v ← getP n f
    let n' ← removeP n f
    addP n' p v
  else if o.op == "copy" then
    let f ← parsePointer o.from_
    let v ← getP n f
    addP n p v
  else none

def eval (n : Json) : List Op → Option Json
  | [] => some n
  | o :: r => (evalOp n o).bind (eval · r)

/-- the ops of a parsed JSON Patch document; `none` if it is not an array of objects with string
    `op` and `path` members (and `value` where the operation needs one) -/
def opsOfJson : Json → Option (List Op)
  | .arr _ xs => xs.mapM (fun e =>
      match e with
      | .obj kvs =>
        match alookup "op" kvs, alookup "path" kvs with
        | some (.str op), some (.str path) =>
          let from_ := match alookup "from" kvs with | some (.str f) => f | _ => ""
          let needsValue := op == "add" || op == "replace" || op == "test"
          match alookup "value" kvs with
          | some v => some { op, path, from_, value := v }
          | none => if needsValue then none else some { op, path, from_ }
        | _, _ => none
      | _ => none)
  | _ => none

end Jd.Spec
