/-
  JdModel.Basic — value universe of the jd model.

  Mirrors the Go types of josephburnett/jd (v2 and lib):
    voidNode, jsonNull, jsonBool, jsonNumber (float64 bits), jsonString,
    jsonArray / jsonList / jsonSet / jsonMultiset (one constructor with a tag that
    mirrors the Go dynamic type), jsonObject (association list, keys strictly
    increasing in byte order = code point order: invariant `Json.WF`).
  Core Lean only (the driver is a native executable).
-/
namespace Jd

/-- dynamic Go type of an array node -/
inductive Tag where
  | raw   -- jsonArray: interpreted according to the options in force
  | list  -- jsonList
  | set   -- jsonSet
  | mset  -- jsonMultiset
deriving DecidableEq, Repr, Inhabited

inductive Json where
  | void
  | null
  | bool (b : Bool)
  | num (bits : UInt64)
  | str (s : String)
  | arr (t : Tag) (xs : List Json)
  | obj (kvs : List (String × Json))
deriving Repr, Inhabited

/-- options of the v2 API (`Option` values); the list order is the order given by the caller -/
inductive Opt where
  | merge
  | set
  | mset
  | color
  | prec (eps : UInt64)
  | setKeys (ks : List String)
deriving DecidableEq, Repr, Inhabited

abbrev Opts := List Opt

inductive PathElem where
  | key (k : String)
  | idx (i : Int)
  | set
  | mset
  | setKeys (o : List (String × Json))
  | msetKeys (o : List (String × Json))
deriving Repr, Inhabited

abbrev Path := List PathElem

/-- a DiffElement (hunk). `merge` is `Metadata.Merge`. nil and empty slices are identified. -/
structure Hunk where
  merge  : Bool := false
  path   : Path
  before : List Json := []
  remove : List Json := []
  add    : List Json := []
  after  : List Json := []
deriving Repr, Inhabited

abbrev Diff := List Hunk

/-- result of an operation that can fail or (in Go) panic -/
inductive Outcome (α : Type) where
  | ok (a : α)
  | err
  | panic
deriving Repr, Inhabited

namespace Outcome
def bind {α β} (x : Outcome α) (f : α → Outcome β) : Outcome β :=
  match x with
  | .ok a => f a
  | .err => .err
  | .panic => .panic
instance : Monad Outcome where
  pure := .ok
  bind := Outcome.bind
def isOk {α} : Outcome α → Bool
  | .ok _ => true
  | _ => false
@[simp] theorem bind_ok {α β} (a : α) (f : α → Outcome β) : (Outcome.ok a >>= f) = f a := rfl
@[simp] theorem bind_err {α β} (f : α → Outcome β) : ((Outcome.err : Outcome α) >>= f) = .err := rfl
@[simp] theorem bind_panic {α β} (f : α → Outcome β) : ((Outcome.panic : Outcome α) >>= f) = .panic := rfl
end Outcome

namespace Json

def isVoid : Json → Bool
  | .void => true
  | _ => false

def isNull : Json → Bool
  | .null => true
  | _ => false

def isObj : Json → Bool
  | .obj _ => true
  | _ => false

/-- `nodeList(n...)` of node.go for one argument: the empty list when the node is void -/
def nodeList (n : Json) : List Json :=
  if n.isVoid then [] else [n]

/-- `singleValue` of patch_common.go -/
def singleValue : List Json → Json
  | [] => .void
  | x :: _ => x

end Json

/-! ### options -/

/-- `dispatch` (options.go): the first of SET/SetKeys → set, MULTISET → multiset, otherwise list -/
def dispatchTag : Opts → Tag
  | [] => .list
  | .set :: _ => .set
  | .setKeys _ :: _ => .set
  | .mset :: _ => .mset
  | _ :: r => dispatchTag r

/-- effective tag of an array node under options: only `jsonArray` is re-interpreted -/
def effTag (o : Opts) (t : Tag) : Tag :=
  match t with
  | .raw => dispatchTag o
  | t => t

def Json.dispatch (o : Opts) : Json → Json
  | .arr .raw xs => .arr (dispatchTag o) xs
  | n => n

def isMerge : Opts → Bool
  | [] => false
  | .merge :: _ => true
  | _ :: r => isMerge r

def isColor : Opts → Bool
  | [] => false
  | .color :: _ => true
  | _ :: r => isColor r

/-- `getOption[precisionOption]`: first precision option, default +0.0 -/
def precOf : Opts → UInt64
  | [] => 0
  | .prec e :: _ => e
  | _ :: r => precOf r

/-- `getOption[setKeysOption]`: first SetKeys option -/
def keysOf : Opts → Option (List String)
  | [] => none
  | .setKeys ks :: _ => some ks
  | _ :: r => keysOf r

/-! ### association lists standing in for Go maps -/

def alookup {β} (k : String) : List (String × β) → Option β
  | [] => none
  | (k', v) :: r => if k = k' then some v else alookup k r

/-- insert or overwrite keeping keys sorted (strictly increasing) -/
def ainsert {β} (k : String) (v : β) : List (String × β) → List (String × β)
  | [] => [(k, v)]
  | (k', v') :: r =>
    if k < k' then (k, v) :: (k', v') :: r
    else if k = k' then (k, v) :: r
    else (k', v') :: ainsert k v r

def aerase {β} (k : String) : List (String × β) → List (String × β)
  | [] => []
  | (k', v') :: r => if k = k' then r else (k', v') :: aerase k r

/-- keys strictly increasing -/
def keysSorted {β} : List (String × β) → Bool
  | [] => true
  | [_] => true
  | (k, _) :: (k', v') :: r => decide (k < k') && keysSorted ((k', v') :: r)

end Jd
