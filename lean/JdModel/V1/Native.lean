/-
  JdModel.V1.Native — the native jd diff format of the v1 library (/repo/lib):
  `Diff.Render` / `DiffElement.Render` (diff_write.go) and `ReadDiffString` (diff_read.go: the
  four-state line reader INIT / AT / OLD / NEW, checkDiffElement), and the JSON text of v1 nodes
  (`Json()`, `json.Marshal(node)`).

  What v1 shares with v2 is reused from the v2 model: encoding/json (JdModel.Text: `jsonText`,
  `readJsonM`, `NumCodec`). What differs:
    * a set-typed array is written in the order of the V1 hash codes of its members (`jsonSet.raw()`);
    * a path is written as the JSON array of its elements (`jsonArray(d.Path).Json()`): metadata
      arrays, whole member objects, jsonStringOrInteger tokens as strings; a nil interface value in a
      metadata array (left behind by prependMetadataMerge, written `.void` inside a metadata array)
      makes `raw()` dereference nil: panic;
    * no context lines, no `^` metadata lines; a hunk is a merge hunk when the metadata in front of
      its first path element holds "MERGE" (`path.isMerge()`); colour wraps whole value lines and is
      emitted even around a void value that prints nothing;
    * the reader has four states, accepts `-` and `+` lines with a blank payload (a void value), and
      keeps every path element as the node `ReadJsonString` made (no typed path elements).
-/
import JdModel.Native
import JdModel.V1.Patch

namespace Jd.V1
open Jd

/-! ### JSON text of v1 nodes -/

mutual
/-- `raw()` as a document: set-typed arrays are replaced by their distinct members in the order of
    their V1 hash codes under `[SET]` (last member wins among equal hash codes) -/
def rawNorm : Json → Json
  | .arr .set xs => .arr .raw (setRawOrder (hashList [.set] xs) (rawNormList xs))
  | .arr _ xs => .arr .raw (rawNormList xs)
  | .obj kvs => .obj (rawNormKvs kvs)
  | n => n
def rawNormList : List Json → List Json
  | [] => []
  | x :: r => rawNorm x :: rawNormList r
def rawNormKvs : List (String × Json) → List (String × Json)
  | [] => []
  | (k, v) :: r => (k, rawNorm v) :: rawNormKvs r
end

/-- `n.Json()` (v1) -/
def jsonM (nc : NumCodec) (n : Json) : Option String :=
  match n with
  | .void => some ""
  | n => jsonText nc (rawNorm n)

mutual
/-- `json.Marshal(node)` as the renderers call it on hunk values: slices (jsonArray, jsonList, jsonSet,
    jsonMultiset) element-wise in stored order whatever their Go type, objects through `MarshalJSON`
    = `Json()`, void (`struct{}`) as `{}`. (`jsonNull` is a `[]byte`: the nil value made by
    NewJsonNode prints `null`; the empty non-nil `jsonNull{}` that RenderMerge stores into the
    caller's diff would print `""` — a value the model does not distinguish.) -/
def marshalNode (nc : NumCodec) : Json → Option String
  | .void => some "{}"
  | .arr _ xs => (marshalList nc xs).map (fun l => "[" ++ String.intercalate "," l ++ "]")
  | .obj kvs => jsonText nc (rawNorm (.obj kvs))
  | n => jsonText nc n
def marshalList (nc : NumCodec) : List Json → Option (List String)
  | [] => some []
  | x :: r => do
    let a ← marshalNode nc x
    let b ← marshalList nc r
    pure (a :: b)
end

/-! ### paths as JSON -/

/-- `e.raw()` of one path element as a document; `none` = nil dereference (panic) -/
def pathElemRaw : PElem → Option Json
  | .sori s => some (.str s)
  | .node (.arr .raw items) =>
    if items.any Json.isVoid then none else some (.arr .raw (rawNormList items))
  | .node n => some (rawNorm n)

def pathRaw : PPath → Option (List Json)
  | [] => some []
  | e :: r => do
    let a ← pathElemRaw e
    let b ← pathRaw r
    pure (a :: b)

/-- `jsonArray(d.Path).Json()`: `.panic` for a nil metadata entry, `.ok none` for a number the codec
    cannot print -/
def pathText (nc : NumCodec) (p : PPath) : Outcome (Option String) :=
  match pathRaw p with
  | none => .panic
  | some xs => .ok (jsonText nc (.arr .raw xs))

/-- `path.isMerge()`: the metadata in front of the first path element holds MERGE -/
def pathRendersMerge (p : PPath) : Bool := hasMerge (pathNext p).2.1

/-! ### rendering -/

/-- `DiffElement.Render(opts...)`; `color` = the COLOR render option was given -/
def renderHunk (nc : NumCodec) (color : Bool) (h : PHunk) : Outcome (Option String) :=
  match pathText nc h.path with
  | .panic => .panic
  | .err => .err
  | .ok none => .ok none
  | .ok (some pt) =>
    let isMerge := pathRendersMerge h.path
    let olds := optAll (h.old.map (fun v =>
      (if v.isVoid then some "" else (marshalNode nc v).map (fun t => "- " ++ t ++ "\n")).map (fun body =>
        (if color then colorRed else "") ++ body ++ (if color then colorDefault else ""))))
    let news := optAll (h.new.map (fun v =>
      (if v.isVoid then some (if isMerge then "+\n" else "")
       else (marshalNode nc v).map (fun t => "+ " ++ t ++ "\n")).map (fun body =>
        (if color then colorGreen else "") ++ body ++ (if color then colorDefault else ""))))
    match olds, news with
    | some o, some n => .ok (some ("@ " ++ pt ++ "\n" ++ String.join o ++ String.join n))
    | _, _ => .ok none

/-- `Diff.Render(opts...)` -/
def renderM (nc : NumCodec) (color : Bool) : PDiff → Outcome (Option String)
  | [] => .ok (some "")
  | h :: d =>
    match renderHunk nc color h with
    | .ok (some a) =>
      (match renderM nc color d with
       | .ok (some b) => .ok (some (a ++ b))
       | r => r)
    | .ok none =>
      -- the text is not printable by the codec; a later hunk may still panic
      (match renderM nc color d with
       | .ok _ => .ok none
       | r => r)
    | r => r

/-! ### reading -/

inductive RState where
  | init | at | old | new
deriving DecidableEq, Repr, Inhabited

/-- the headers a state accepts (the validation switch of `readDiff`) -/
def stateAllows : RState → Char → Bool
  | .init, c => c == '@'
  | .at, c => c == '-' || c == '+'
  | .old, c => c == '@' || c == '-' || c == '+'
  | .new, c => c == '+' || c == '@'

/-- `checkDiffElement`: several old or new values need a path ending in `{}` -/
def checkHunk (h : Hunk) : Bool :=
  if h.new.length > 1 || h.old.length > 1 then
    match h.path.getLast? with
    | some (.obj []) => true
    | _ => false
  else true

structure RAcc where
  st : RState := .init
  cur : Hunk := { path := [] }
  out : VDiff := []

/-- one non-empty line. `dl[:1]` is the first BYTE: the first byte of a non-ASCII rune equals none
    of the one-byte headers, and every state rejects what it does not list. -/
def readLine (nc : NumCodec) (acc : RAcc) (line : String) : Outcome RAcc :=
  match line.toList with
  | [] => .ok acc
  | c :: rest =>
    if !(stateAllows acc.st c) then .err
    else
      let payload := String.ofList rest
      if c == '@' then
        if acc.st != .init && !(checkHunk acc.cur) then .err
        else
          let out := if acc.st != .init then acc.out ++ [acc.cur] else acc.out
          match readJsonM nc payload with
          | .ok (.arr .raw xs) => .ok { st := .at, cur := { path := xs }, out := out }
          | .ok _ => .err
          | .err => .err
          | .panic => .panic
      else if c == '-' then
        match readJsonM nc payload with
        | .ok v => .ok { acc with st := .old, cur := { acc.cur with old := acc.cur.old ++ [v] } }
        | .err => .err
        | .panic => .panic
      else
        match readJsonM nc payload with
        | .ok v => .ok { acc with st := .new, cur := { acc.cur with new := acc.cur.new ++ [v] } }
        | .err => .err
        | .panic => .panic

def readLines (nc : NumCodec) : RAcc → List String → Outcome RAcc
  | acc, [] => .ok acc
  | acc, l :: r =>
    match readLine nc acc l with
    | .ok acc' => readLines nc acc' r
    | e => e

/-- `ReadDiffString(s)` (v1): the paths hold plain nodes only -/
def readDiffM (nc : NumCodec) (s : String) : Outcome VDiff :=
  match readLines nc {} (s.splitOn "\n") with
  | .ok acc =>
    if acc.st == .at then .err
    else if acc.st != .init then
      (if checkHunk acc.cur then .ok (acc.out ++ [acc.cur]) else .err)
    else .ok acc.out
  | .err => .err
  | .panic => .panic

end Jd.V1
