/-
  JdModel.V1.Equals — `Equals(n, metadata...)` of every node kind (v1).
-/
import JdModel.Equals
import JdModel.V1.Hash

namespace Jd.V1
open Jd

mutual
/-- `a.Equals(b, metadata...)` -/
def equals (m : Metas) : Json → Json → Bool
  | .void, b => b.isVoid
  | .null, b => b.isNull
  | .bool x, .bool y => x == y
  | .bool _, _ => false
  | .num x, .num y => numWithin (precOf m) x y
  | .num _, _ => false
  | .str x, .str y => x == y
  | .str _, _ => false
  | .arr t xs, b =>
    match effTag m t, dispatch m b with
    | .set, .arr .set ys => hashCode m (.arr .set xs) == hashCode m (.arr .set ys)
    | .mset, .arr .mset ys =>
      xs.length == ys.length && hashCode m (.arr .mset xs) == hashCode m (.arr .mset ys)
    | .list, .arr .list ys => equalsList m xs ys
    | .raw, .arr .list ys => equalsList m xs ys  -- unreachable: effTag never returns raw
    | _, _ => false
  | .obj kvs, .obj kvs' => kvs.length == kvs'.length && equalsKvs m kvs kvs'
  | .obj _, _ => false
/-- pointwise comparison of jsonList.Equals (lengths compared first in Go; same result) -/
def equalsList (m : Metas) : List Json → List Json → Bool
  | [], [] => true
  | x :: xs, y :: ys => equals m x y && equalsList m xs ys
  | _, _ => false
/-- every key of the first object is in the second with an equal value -/
def equalsKvs (m : Metas) : List (String × Json) → List (String × Json) → Bool
  | [], _ => true
  | (k, v) :: r, kvs' =>
    (match alookup k kvs' with
     | some v' => equals m v v'
     | none => false) && equalsKvs m r kvs'
end

end Jd.V1
