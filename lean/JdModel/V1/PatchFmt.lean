/-
  JdModel.V1.PatchFmt — JSON Pointer and JSON Patch (RFC 6901 / 6902) glue of the v1 library:
  pointer.go (`readPointer`, `writePointer`), `Diff.RenderPatch` (diff_write.go) and
  `ReadPatchString` / `readPatchDiffElement` (diff_read.go).

  Differences from v2: no context tests, no coalescing — every `test`+`remove` pair and every `add`
  is a diff element of its own; `readPointer` makes a jsonStringOrInteger for every token that
  `strconv.Atoi` accepts (the decision string-or-index is taken by Patch); `writePointer` writes a
  string key as it is even when it looks like an integer (only the key "-" is refused), a
  jsonStringOrInteger unescaped, the index -1 as "-".
  The string functions of github.com/go-openapi/jsonpointer are the ones of the v2 model
  (JdModel.Pointer: `ptrEscape`, `ptrUnescape`, `atoi?`).
-/
import JdModel.PatchFmt
import JdModel.V1.Native

namespace Jd.V1
open Jd

/-- `writePointer(path)` (v1) -/
def writePointer : PPath → Outcome String
  | [] => .ok ""
  | e :: r =>
    let tok : Outcome String :=
      match e with
      | .node (.num b) =>
        let i := floatToInt b
        if i == -1 then .ok "-" else .ok (ptrEscape (toString i))
      | .node (.str s) => if s == "-" then .err else .ok (ptrEscape s)
      | .sori s => .ok s
      | _ => .err
    match tok with
    | .ok t => (match writePointer r with | .ok rest => .ok ("/" ++ t ++ rest) | e' => e')
    | .err => .err
    | .panic => .panic

/-- `readPointer(s)` (v1): tokens that Atoi accepts are jsonStringOrInteger, "-" is the index -1 -/
def readPointer (s : String) : Outcome PPath :=
  if s == "" then .ok []
  else if !(s.startsWith "/") then .err
  else
    let toks := ((s.splitOn "/").drop 1).map ptrUnescape
    .ok (toks.map (fun t =>
      if (atoi? t).isSome then PElem.sori t
      else if t == "-" then .node numNeg1
      else .node (.str t)))

/-- ops of one diff element -/
def renderPatchHunk (h : PHunk) : Outcome (List PatchOp) := do
  let path ← writePointer h.path
  if h.old.length > 1 then .err else
  if h.new.length > 1 then .err else
  if h.old.isEmpty && h.new.isEmpty then .err else
  let remOps : List PatchOp :=
    match h.old with
    | [v] => if v.isVoid then [] else [{ op := "test", path := path, value := v }, { op := "remove", path := path, value := v }]
    | _ => []
  let addOps : List PatchOp :=
    match h.new with
    | [v] => if v.isVoid then [] else [{ op := "add", path := path, value := v }]
    | _ => []
  pure (remOps ++ addOps)

def renderPatchOps : PDiff → Outcome (List PatchOp)
  | [] => .ok []
  | h :: d => do
    let a ← renderPatchHunk h
    let b ← renderPatchOps d
    pure (a ++ b)

/-- `json.Marshal(patchElement)`: the value through `json.Marshal(node)` of v1 -/
def patchOpText (nc : NumCodec) (p : PatchOp) : Option String :=
  (marshalNode nc p.value).map (fun v =>
    "{\"op\":" ++ quoteString p.op ++ ",\"path\":" ++ quoteString p.path ++ ",\"value\":" ++ v ++ "}")

/-- `Diff.RenderPatch()` (v1): `.ok none` = a number the codec cannot print -/
def renderPatchM (nc : NumCodec) (d : PDiff) : Outcome (Option String) :=
  if d.isEmpty then .ok (some "[]")
  else match renderPatchOps d with
    | .ok ops => .ok ((optAll (ops.map (patchOpText nc))).map (fun l => "[" ++ String.intercalate "," l ++ "]"))
    | .err => .err
    | .panic => .panic

/-! ### reading -/

/-- `readPatchDiffElement(patch)`: one diff element and the remaining ops -/
def readPatchHunk (patch : List PatchOp) : Outcome (PHunk × List PatchOp) :=
  match patch with
  | [] => .err
  | p :: rest =>
    if p.op == "test" then
      match readPointer p.path with
      | .ok path =>
        (match rest with
         | [] => .err
         | r1 :: rest2 =>
           if r1.op != "remove" then .err
           else if r1.path != p.path then .err
           else if !(equals [] p.value r1.value) then .err
           else .ok ({ path := path, old := [p.value] }, rest2))
      | .err => .err
      | .panic => .panic
    else if p.op == "add" then
      match readPointer p.path with
      | .ok path => .ok ({ path := path, new := [p.value] }, rest)
      | .err => .err
      | .panic => .panic
    else .err

def readPatchLoop : (fuel : Nat) → List PatchOp → PDiff → Outcome PDiff
  | 0, _, _ => .err
  | fuel + 1, patch, acc =>
    match patch with
    | [] => .ok acc
    | _ =>
      match readPatchHunk patch with
      | .err => .err
      | .panic => .panic
      | .ok (e, rest) => readPatchLoop fuel rest (acc ++ [e])

/-- `json.Unmarshal(text, &[]patchElement)` of the v1 library (lib/diff_read.go, NOT touched by the fix
    of D31 in v2) on the parsed document: the text `null` is the empty patch, a `null` element is the
    zero patchElement, a missing or null `op` / `path` is "", a missing `value` is null. Field names
    are matched exactly here (encoding/json also accepts other letter cases; the harness does not
    generate them for v1). -/
def patchOpsOfJson : Json → Outcome (List PatchOp)
  | .null => .ok []
  | .arr _ xs => go xs
  | _ => .err
where
  strField (kvs : List (String × Json)) (k : String) : Outcome String :=
    match alookup k kvs with
    | none => .ok ""
    | some .null => .ok ""
    | some (.str s) => .ok s
    | some _ => .err
  go : List Json → Outcome (List PatchOp)
    | [] => .ok []
    | .obj kvs :: r => do
      let op ← strField kvs "op"
      let path ← strField kvs "path"
      let value := (alookup "value" kvs).getD .null
      let rest ← go r
      pure ({ op, path, value } :: rest)
    | .null :: r => do
      let rest ← go r
      pure ({ op := "", path := "", value := .null } :: rest)
    | _ :: _ => .err

/-- `ReadPatchString` on the parsed JSON document of the patch text -/
def readPatchDoc (doc : Json) : Outcome PDiff :=
  match patchOpsOfJson doc with
  | .ok ops => readPatchLoop (ops.length + 1) ops []
  | .err => .err
  | .panic => .panic

/-- `ReadPatchString(s)` (v1) -/
def readPatchM (nc : NumCodec) (s : String) : Outcome PDiff :=
  match parseJson nc s with
  | some doc => readPatchDoc doc
  | none => .err

end Jd.V1
