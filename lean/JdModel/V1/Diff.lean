/-
  JdModel.V1.Diff — `a.Diff(b, metadata...)` of the v1 library (/repo/lib):
  diff_common.go, list.go (positional diff with -1 append indices), object.go, set.go,
  multiset.go, array.go (dispatch), path.go (appendIndex, prependMetadataMerge).

  A v1 path is a list of nodes: strings (object keys), numbers (list indices), objects (set /
  multiset members) and arrays of metadata strings applying to the next element.
-/
import JdModel.Diff
import JdModel.V1.Equals

namespace Jd.V1
open Jd

/-- a v1 `DiffElement`. nil and empty slices are identified. -/
structure Hunk where
  path : List Json
  old  : List Json := []
  new  : List Json := []
deriving Repr, Inhabited

abbrev VDiff := List Hunk

/-- `jsonNumber(i)` for a list index -/
def numOfNat (i : Nat) : Json := .num (Float.ofNat i).toBits

/-- `jsonNumber(-1)`: the append index -/
def numNeg1 : Json := .num (Float.ofInt (-1)).toBits

/-- insertion sort of strings (`sort.Strings`) -/
def sinsert (s : String) : List String → List String
  | [] => [s]
  | x :: r => if s < x then s :: x :: r else x :: sinsert s r

def ssort (l : List String) : List String := l.foldr sinsert []

/-- `setkeysMetadata.string()`: the keys are a Go map, hence distinct; sorted, joined by commas -/
def setkeysString (ks : List String) : String :=
  "setkeys=" ++ ",".intercalate (ssort ks.eraseDups)

/-- `path.appendIndex(o, metadata)`: a metadata array (possibly empty) followed by the member object -/
def appendIndex (p : List Json) (o : List (String × Json)) (m : Metas) : List Json :=
  let items : List Json :=
    (if hasSet m then [Json.str "set"] else []) ++
    (if hasMset m then [Json.str "multiset"] else []) ++
    (match keysOf m with | some ks => [Json.str (setkeysString ks)] | none => [])
  p ++ [.arr .raw items, .obj o]

/-- `o.pathObject(metadata)`: the object that addresses a member of a set in a diff path: with set keys
    only the set keys present in the member (the whole member when there are none) -/
def pathObject (m : Metas) (kvs : List (String × Json)) : List (String × Json) :=
  match keysOf m with
  | none => kvs
  | some ks =>
    if ks.isEmpty then kvs
    else
      let id := kvs.filter (fun kv => ks.contains kv.1)
      if id.isEmpty then kvs else id

/-- `path.prependMetadataMerge()`. When the path already starts with a non-empty metadata array whose
    first entry is not "MERGE", the Go code builds `make(jsonArray, len+1)`, stores "MERGE" at index 0
    and then `copy`s the old metadata over it from index 0: MERGE is lost and the last slot stays a
    nil interface value. Inside a metadata array the model writes `.void` for that nil (the code
    only ever type-asserts metadata entries to jsonString, which fails for both). -/
def prependMerge : List Json → List Json
  | [] => [.arr .raw [.str "MERGE"]]
  | .arr .raw items :: r =>
    match items with
    | [] => .arr .raw [.str "MERGE"] :: r
    | .str s :: _ =>
      if s == "MERGE" then .arr .raw items :: r else .arr .raw (items ++ [.void]) :: r
    | _ => .arr .raw (items ++ [.void]) :: r
  | p => .arr .raw [.str "MERGE"] :: p

/-- `diff(a, b, p, metadata, strategy)` of diff_common.go (scalars, void, null).
    `a.Equals(b, metadata...)` is called WITH the metadata (v2 calls it without). -/
def diffCommon (m : Metas) (merge : Bool) (a b : Json) (p : List Json) : VDiff :=
  if equals m a b then []
  else if merge then [{ path := prependMerge p, new := [b] }]
  else [{ path := p, old := a.nodeList, new := b.nodeList }]

/-- one part of a set diff, produced per distinct identity of the first set -/
inductive SetPart where
  | removed (x : Json)
  | sub (d : VDiff)

/-- `map[[8]byte]JsonNode` built by ranging over a slice keyed by identity: last element wins -/
def identLookup (m : Metas) (h : UInt64) : List Json → Option Json
  | [] => none
  | x :: r =>
    match identLookup m h r with
    | some y => some y
    | none => if identOf m x == h then some x else none

/-- last element of the list whose `hashCode` is `h` -/
def hashLookup (m : Metas) (h : UInt64) : List Json → Option Json
  | [] => none
  | x :: r =>
    match hashLookup m h r with
    | some y => some y
    | none => if hashCode m x == h then some x else none

mutual
/-- `a.diff(b, path, metadata, strategy)`; `merge` is `strategy == mergePatchStrategy`.
    `jsonArray.diff` dispatches both sides; typed nodes take the other side as it is. -/
def diffNode (m : Metas) (merge : Bool) (a b : Json) (p : List Json) : VDiff :=
  match a with
  | .arr t xs =>
    let b' := if t == .raw then dispatch m b else b
    match effTag m t with
    | .set =>
      match b' with
      | .arr .set ys =>
        if merge && !(equals m (.arr .set xs) (.arr .set ys)) then
          [{ path := prependMerge p, new := (Json.arr .set ys).nodeList }]
        else
          let parts := ksort (diffSetElems m merge p ys xs)
          let subs := parts.flatMap (fun kp => match kp.2 with | .sub d => d | .removed _ => [])
          let rem := parts.filterMap (fun kp => match kp.2 with | .removed x => some x | .sub _ => none)
          let xIds := xs.map (identOf m)
          let addIds := hsort (hdedup ((ys.map (identOf m)).filter (fun h => !xIds.contains h)))
          let add := addIds.filterMap (fun h => identLookup m h ys)
          subs ++ (if rem.isEmpty && add.isEmpty then []
                   else [{ path := appendIndex p [] m, old := rem, new := add }])
      | _ =>
        if merge then [{ path := prependMerge p, new := [b'] }]
        else [{ path := p, old := (Json.arr .raw xs).nodeList, new := b'.nodeList }]
    | .mset =>
      match b' with
      | .arr .mset ys =>
        if merge && !(equals m (.arr .mset xs) (.arr .mset ys)) then
          [{ path := prependMerge p, new := (Json.arr .mset ys).nodeList }]
        else
          let xh := hashList m xs
          let yh := hashList m ys
          let rem := (hsort (hdedup xh)).flatMap (fun h =>
            match hashLookup m h xs with
            | some v => List.replicate (countOcc h xh - countOcc h yh) v
            | none => [])
          let add := (hsort (hdedup yh)).flatMap (fun h =>
            match hashLookup m h ys with
            | some v => List.replicate (countOcc h yh - countOcc h xh) v
            | none => [])
          if rem.isEmpty && add.isEmpty then []
          else [{ path := appendIndex p [] m, old := rem, new := add }]
      | _ =>
        if merge then [{ path := prependMerge p, new := [b'] }]
        else [{ path := p, old := (Json.arr .raw xs).nodeList, new := b'.nodeList }]
    | _ =>
      match b' with
      | .arr .list ys =>
        if merge && !(equals m (.arr .list xs) (.arr .list ys)) then
          -- merge patches do not recurse into lists
          [{ path := prependMerge p, new := (Json.arr .list ys).nodeList }]
        else
          -- positional loop; ascending when the list grows, descending otherwise
          let subs := diffElems m merge p 0 ys xs
          if xs.length < ys.length then
            subs.flatten ++ (ys.drop xs.length).map (fun y =>
              { path := p ++ [numNeg1], old := [], new := y.nodeList })
          else
            ((xs.drop ys.length).zipIdx ys.length).reverse.map (fun xi =>
              { path := p ++ [numOfNat xi.2], old := xi.1.nodeList, new := [] }) ++
            subs.reverse.flatten
      | _ =>
        if merge then [{ path := prependMerge p, new := [b'] }]
        else [{ path := p, old := (Json.arr .list xs).nodeList, new := b'.nodeList }]
  | .obj kvs =>
    match b with
    | .obj kvs' =>
      diffKvs m merge p kvs' kvs ++
        (kvs'.filter (fun kv => (alookup kv.1 kvs).isNone)).map (fun kv =>
          { path := if merge then prependMerge (p ++ [.str kv.1]) else p ++ [.str kv.1],
            old := [], new := kv.2.nodeList })
    | _ =>
      if merge then [{ path := prependMerge p, new := [b] }]
      else [{ path := p, old := [Json.obj kvs], new := [b] }]
  | a => diffCommon m merge a b p
termination_by (sizeOf a, 0)

/-- first loop of jsonObject.diff: keys of the first object in sorted order -/
def diffKvs (m : Metas) (merge : Bool) (p : List Json) (kvs' : List (String × Json)) :
    (kvs : List (String × Json)) → VDiff
  | [] => []
  | (k, v) :: r =>
    (match alookup k kvs' with
     | some v' => diffNode m merge v v' (p ++ [.str k])
     | none =>
       if merge then [{ path := prependMerge (p ++ [.str k]), new := [.void] }]
       else [{ path := p ++ [.str k], old := v.nodeList, new := [] }]) ++ diffKvs m merge p kvs' r
termination_by kvs => (sizeOf kvs, 0)

/-- the sub-diffs of jsonList.diff at the indices present on both sides, by increasing index;
    both elements are dispatched before recursing -/
def diffElems (m : Metas) (merge : Bool) (p : List Json) (i : Nat) (ys : List Json) :
    (xs : List Json) → List VDiff
  | [] => []
  | x :: xs' =>
    match ys with
    | [] => []
    | y :: ys' =>
      diffNode m merge x (dispatch m y) (p ++ [numOfNat i]) :: diffElems m merge p (i + 1) ys' xs'
termination_by xs => (sizeOf xs, 0)

/-- per element of the first set that is the LAST one with its identity: removed, or sub-diffed
    against the member of the second set with the same identity (objects only), or unchanged.
    The path element of a keyed member is the WHOLE first object (v2 restricts it to the keys). -/
def diffSetElems (m : Metas) (merge : Bool) (p : List Json) (ys : List Json) :
    (xs : List Json) → List (UInt64 × SetPart)
  | [] => []
  | x :: r =>
    let rest := diffSetElems m merge p ys r
    let h := identOf m x
    if (r.map (identOf m)).contains h then rest
    else
      match identLookup m h ys with
      | none => (h, .removed x) :: rest
      | some y =>
        match x, y with
        | .obj kvs, .obj _ =>
          (h, .sub (diffNode m merge (.obj kvs) y (appendIndex p (pathObject m kvs) m))) :: rest
        | _, _ => rest
termination_by xs => (sizeOf xs, 0)
end

/-- `a.Diff(b, metadata...)` -/
def diffM (m : Metas) (a b : Json) : VDiff :=
  diffNode m (hasMerge m) a b []

end Jd.V1
