/-
  JdModel.V1.Hash — metadata and hash codes of the v1 library (/repo/lib):
  metadata.go (Metadata, dispatch, checkMetadata, getPrecision, getSetkeysMetadata),
  hash_common.go, and the hashCode / ident / pathIdent methods of every node kind.

  Differences from v2 that matter here: lists and objects have NO prefix bytes (more aliases:
  `[]`, `{}` and `""` all hash to the FNV offset basis), `dispatch` gives SET priority over MULTISET
  whatever the order of the metadata, and Setkeys does NOT imply set semantics.
-/
import JdModel.Hash

namespace Jd.V1
open Jd

/-- v1 `Metadata` values; a call takes a list of them in the order given by the caller -/
inductive Meta where
  | set
  | mset
  | merge
  | setkeys (ks : List String)
  | prec (eps : UInt64)
deriving DecidableEq, Repr, Inhabited

abbrev Metas := List Meta

/-- `checkMetadata(SET, metadata)` -/
def hasSet : Metas → Bool
  | [] => false
  | .set :: _ => true
  | _ :: r => hasSet r

/-- `checkMetadata(MULTISET, metadata)` -/
def hasMset : Metas → Bool
  | [] => false
  | .mset :: _ => true
  | _ :: r => hasMset r

/-- `checkMetadata(MERGE, metadata)` -/
def hasMerge : Metas → Bool
  | [] => false
  | .merge :: _ => true
  | _ :: r => hasMerge r

/-- `getPrecision`: first precision metadata, default +0.0 -/
def precOf : Metas → UInt64
  | [] => 0
  | .prec e :: _ => e
  | _ :: r => precOf r

/-- `getSetkeysMetadata`: first setkeys metadata (the Go value holds a map: a set of keys) -/
def keysOf : Metas → Option (List String)
  | [] => none
  | .setkeys ks :: _ => some ks
  | _ :: r => keysOf r

/-- `dispatch` (metadata.go): SET first, then MULTISET, otherwise list -/
def dispatchTag (m : Metas) : Tag :=
  if hasSet m then .set else if hasMset m then .mset else .list

/-- effective tag of an array node under metadata: only `jsonArray` is re-interpreted -/
def effTag (m : Metas) (t : Tag) : Tag :=
  match t with
  | .raw => dispatchTag m
  | t => t

/-- `dispatch(n, metadata)` -/
def dispatch (m : Metas) : Json → Json
  | .arr .raw xs => .arr (dispatchTag m) xs
  | n => n

mutual
/-- `hashCode(metadata)` of every node kind (v1) -/
def hashCode (m : Metas) : Json → UInt64
  | .void => fnv1a Gen.v1SeedVoid
  | .null => fnv1a Gen.v1SeedNull
  | .bool true => ofLe8 Gen.v1HashTrue
  | .bool false => ofLe8 Gen.v1HashFalse
  | .num bits => fnv1a (le8 (if bits == 0x8000000000000000 then 0 else bits))   -- 0 and -0 hash alike
  | .str s => fnv1a (strBytes s)
  | .arr t xs =>
    match effTag m t with
    | .set => hcombine (hdedup (hashList m xs))
    | .mset => fnv1a ((hsort (hashList m xs)).flatMap le8)
    | _ => fnv1a (Gen.v1SeedList ++ (hashList m xs).flatMap le8)
  | .obj kvs => fnv1a (Gen.v1SeedObject ++ hashKvs m kvs)
def hashList (m : Metas) : List Json → List UInt64
  | [] => []
  | x :: r => hashCode m x :: hashList m r
def hashKvs (m : Metas) : List (String × Json) → List UInt8
  | [] => []
  | (k, v) :: r => le8 (fnv1a (strBytes k)) ++ le8 (hashCode m v) ++ hashKvs m r
end

/-- values of the given keys that are present, hashed (object.go `ident`) -/
def identKeyHashes (m : Metas) (kvs : List (String × Json)) : List String → List UInt64
  | [] => []
  | k :: r =>
    match alookup k kvs with
    | some v => hashCode m v :: identKeyHashes m kvs r
    | none => identKeyHashes m kvs r

/-- `jsonObject.ident(metadata)`: full hash when there are no set keys -/
def identObj (m : Metas) (kvs : List (String × Json)) : UInt64 :=
  match keysOf m with
  | none => hashCode m (.obj kvs)
  | some ks =>
    if ks.isEmpty then hashCode m (.obj kvs)
    else hcombine (ofLe8 Gen.v1SeedIdent :: identKeyHashes m kvs ks.eraseDups)

/-- identity used by set diff / set patch: objects by `ident`, everything else by `hashCode` -/
def identOf (m : Metas) : Json → UInt64
  | .obj kvs => identObj m kvs
  | n => hashCode m n

/-- `o.pathIdent(pathObject, metadata)`: the object restricted to the keys of the path object
    together with the set keys of the metadata -/
def pathIdent (m : Metas) (kvs pathObj : List (String × Json)) : UInt64 :=
  let extra := (keysOf m).getD []
  hashCode m (.obj (kvs.filter (fun kv => (alookup kv.1 pathObj).isSome || extra.contains kv.1)))

end Jd.V1
