/-
  JdModel.V1.Patch — `n.Patch(d)` of the v1 library (/repo/lib):
  patch_common.go (patchAll, patch), path.go (next, isLeaf, getPatchStrategy),
  list.go / object.go / set.go / multiset.go / array.go (patch).

  The Go code mutates objects (maps) and list backing arrays in place; the model is functional and
  returns the value the receiver denotes afterwards. Every Go operation that can panic (slice
  indexing without a guard) is an explicit `.panic`, guarded exactly where the Go code guards it.

  Path elements are `PElem`: a node, or a `jsonStringOrInteger` token (string_or_integer.go; made only
  by the JSON Pointer reader `readPointer`), whose string-or-index reading is decided when the
  element is used: `jsonObject.patch` reads it as a key, `jsonList.patch` as an index (when
  `strconv.Atoi` succeeds); everywhere else it is an unexpected path element. A `VDiff` (what
  `Diff` produces) has node-only paths and is lifted with `liftDiff`.
-/
import JdModel.Patch
import JdModel.Pointer
import JdModel.V1.Diff

namespace Jd.V1
open Jd

/-- a v1 path element: a node, or a `jsonStringOrInteger` token (the decoded pointer token) -/
inductive PElem where
  | node (n : Json)
  | sori (s : String)
deriving Repr, Inhabited

abbrev PPath := List PElem

/-- a v1 `DiffElement` whose path may hold `jsonStringOrInteger` tokens -/
structure PHunk where
  path : PPath
  old  : List Json := []
  new  : List Json := []
deriving Repr, Inhabited

abbrev PDiff := List PHunk

def liftPath (p : List Json) : PPath := p.map .node

def Hunk.toP (h : Hunk) : PHunk := { path := liftPath h.path, old := h.old, new := h.new }

def liftDiff (d : VDiff) : PDiff := d.map Hunk.toP

/-- the path element as an object key: `jsonObject.patch` turns a jsonStringOrInteger into a jsonString -/
def asKey : PElem → Option String
  | .node (.str k) => some k
  | .sori s => some s
  | _ => none

/-- the path element as a list index (float64 bits): `jsonList.patch` turns a jsonStringOrInteger
    whose `strconv.Atoi` succeeds into `jsonNumber(float64(i))` -/
def asIndexBits : PElem → Option UInt64
  | .node (.num b) => some b
  | .sori s => (atoi? s).map (fun i => (Float.ofInt i).toBits)
  | _ => none

/-- metadata recognised in a path metadata array: "set", "multiset", "MERGE"; everything else
    (setkeys=…, non-strings, nil) is ignored -/
def metaOfItems : List Json → Metas
  | [] => []
  | .str s :: r =>
    (if s == "set" then [Meta.set] else []) ++ (if s == "multiset" then [Meta.mset] else []) ++
    (if s == "MERGE" then [Meta.merge] else []) ++ metaOfItems r
  | _ :: r => metaOfItems r

/-- `path.next()` with the metadata collected so far: (next element, metadata, rest) -/
def pathNextAux (acc : Metas) : PPath → PElem × Metas × PPath
  | [] => (.node .void, acc, [])
  | .node (.arr .raw items) :: r => pathNextAux (acc ++ metaOfItems items) r
  | .node (.obj kvs) :: r =>
    -- a JSON object implies a set
    (.node (.obj kvs), if !hasSet acc && !hasMset acc then acc ++ [.set] else acc, r)
  | n :: r => (n, acc, r)

def pathNext (p : PPath) : PElem × Metas × PPath := pathNextAux [] p

theorem pathNextAux_le (acc : Metas) (p : PPath) :
    (pathNextAux acc p).2.2.length ≤ p.length := by
  induction p generalizing acc with
  | nil => simp [pathNextAux]
  | cons x r ih =>
    cases x with
    | sori s => simp [pathNextAux]
    | node n =>
      cases n with
      | arr t items =>
        cases t <;> simp [pathNextAux]
        exact Nat.le_succ_of_le (ih _)
      | _ => simp [pathNextAux]

theorem pathNext_lt (p : PPath) (h : p ≠ []) : (pathNext p).2.2.length < p.length := by
  cases p with
  | nil => exact absurd rfl h
  | cons x r =>
    unfold pathNext
    cases x with
    | sori s => simp [pathNextAux]
    | node n =>
      cases n with
      | arr t items =>
        cases t <;> simp [pathNextAux]
        exact Nat.lt_succ_of_le (pathNextAux_le _ _)
      | _ => simp [pathNextAux]

/-- `path.isLeaf()`: empty, or nothing but one metadata array -/
def pathIsLeaf : PPath → Bool
  | [] => true
  | [.node (.arr .raw _)] => true
  | _ => false

/-- `path.getPatchStrategy() == mergePatchStrategy`: the FIRST element is a metadata array holding "MERGE" -/
def pathIsMerge : PPath → Bool
  | .node (.arr .raw items) :: _ => items.any (fun x => match x with | .str s => s == "MERGE" | _ => false)
  | _ => false

/-- `int(jn)` for a path index (amd64: NaN and out-of-range values give the minimum integer) -/
def floatToInt (bits : UInt64) : Int :=
  let f := Float.ofBits bits
  if f.isNaN || decide (f ≥ 9223372036854775808.0) || decide (f < -9223372036854775808.0) then
    -9223372036854775808
  else f.toInt64.toInt

set_option linter.unusedVariables false in
/-- `patch(node, …)` of patch_common.go for a node that is not an object: scalars, void, and in merge
    mode lists / sets / multisets. In merge mode a non-leaf path creates nested objects; the recursion
    `node.patch(rest)` comes back here with the same node, so it is a recursion on the path. -/
def patchCommon (merge : Bool) (n : Json) (pa : PPath) (old new : List Json) : Outcome Json :=
  if hl : pathIsLeaf pa then
    if old.length > 1 || new.length > 1 then .err
    else if merge then
      (if (Json.singleValue old).isVoid then .ok (Json.singleValue new) else .err)
    else if equals [] n (Json.singleValue old) then .ok (Json.singleValue new)
    else .err
  else if !merge then .err
  else
    -- `next.(jsonString)`: a jsonStringOrInteger is NOT accepted here
    match hn : pathNext pa with
    | (.node (.str k), _, rest) =>
      match patchCommon merge n rest old new with
      | .ok v => if !v.isVoid || !pathIsLeaf rest then .ok (.obj [(k, v)]) else .ok (.obj [])
      | e => e
    | _ => .err
termination_by pa.length
decreasing_by
  have hne : pa ≠ [] := by
    intro h; subst h; simp [pathIsLeaf] at hl
  have := pathNext_lt pa hne
  rw [hn] at this
  exact this

set_option linter.unusedVariables false in
/-- `jsonObject.patch` on a freshly created EMPTY object (merge mode, missing key, more path ahead):
    every key is missing again, so this is a recursion on the path -/
def patchEmptyObj (merge : Bool) (pa : PPath) (old new : List Json) : Outcome Json :=
  if pa.isEmpty && (old.length > 1 || new.length > 1) then .err
  else if hl : pathIsLeaf pa then
    if merge then .ok (Json.singleValue new)
    else if equals [] (.obj []) (Json.singleValue old) then .ok (Json.singleValue new)
    else .err
  else
    match hn : pathNext pa with
    | (e, _, rest) =>
      match asKey e with
      | some k =>
        let child :=
          if merge && !pathIsLeaf rest then patchEmptyObj merge rest old new
          else patchCommon merge .void rest old new
        match child with
        | .ok v => if v.isVoid then .ok (.obj []) else .ok (.obj [(k, v)])
        | e => e
      | none => .err
termination_by pa.length
decreasing_by
  have hne : pa ≠ [] := by
    intro h; subst h; simp [pathIsLeaf] at hl
  have := pathNext_lt pa hne
  rw [hn] at this
  exact this

/-- the node standing in for a missing object key, patched along `pa`: void, or in merge mode with
    more path ahead a new empty object -/
def patchMissing (merge : Bool) (pa : PPath) (old new : List Json) : Outcome Json :=
  if merge && !pathIsLeaf pa then patchEmptyObj merge pa old new
  else patchCommon merge .void pa old new

/-- removal loop of jsonSet.patch -/
def setRemoveLoop (m : Metas) : List (UInt64 × Json) → List Json → Outcome (List (UInt64 × Json))
  | amap, [] => .ok amap
  | amap, v :: r =>
    let hc := identOf m v
    match hmapGet hc amap with
    | none => .err
    | some toDelete =>
      if equals m toDelete v then setRemoveLoop m (hmapErase hc amap) r else .err

/-- leaf case of jsonSet.patch (path element `{}`): remove, add, sort by identity -/
def patchSetLeaf (m : Metas) (s old new : List Json) : Outcome Json := do
  let amap := s.foldl (fun acc v => hmapSet (identOf m v) v acc) []
  let amap ← setRemoveLoop m amap old
  let amap := new.foldl (fun acc v => hmapSet (identOf m v) v acc) amap
  pure (.arr .set ((ksort amap).map (·.2)))

/-- leaf case of jsonMultiset.patch (path element `{}`) -/
def patchMsetLeaf (m : Metas) (a old new : List Json) : Outcome Json :=
  let ah := hashList m a
  let rh := hashList m old
  let nh := hashList m new
  if (hdedup (ah ++ rh)).any (fun h => countOcc h ah < countOcc h rh) then .err
  else
    let all := a ++ old ++ new
    let hs := hsort ((hdedup (ah ++ rh ++ nh)).flatMap (fun h =>
      List.replicate (countOcc h ah - countOcc h rh + countOcc h nh) h))
    .ok (.arr .mset (hs.filterMap (fun h => hashLookup m h all)))

mutual
/-- `n.patch(pathBehind, pathAhead, oldValues, newValues, strategy)` -/
def patchNode (merge : Bool) (n : Json) (pa : PPath) (old new : List Json) : Outcome Json :=
  match n with
  | .obj kvs =>
    if pa.isEmpty && (old.length > 1 || new.length > 1) then .err
    else if pathIsLeaf pa then
      if merge then .ok (Json.singleValue new)
      else if equals [] (.obj kvs) (Json.singleValue old) then .ok (Json.singleValue new)
      else .err
    else
      let nx := pathNext pa
      let rest := nx.2.2
      -- a jsonStringOrInteger is read as a key
      match asKey nx.1 with
      | some k =>
        match alookup k kvs with
        | some _ => do
          let v ← patchObjChild merge kvs k rest old new
          if v.isVoid then pure (.obj (aerase k kvs)) else pure (.obj (ainsert k v kvs))
        | none => do
          let v ← patchMissing merge rest old new
          if v.isVoid then pure (.obj (aerase k kvs)) else pure (.obj (ainsert k v kvs))
      | none => .err
  | .arr t xs =>
    -- jsonArray.patch dispatches on the metadata of the next path element
    let nx := pathNext pa
    match effTag nx.2.1 t with
    | .set =>
      if merge then patchCommon merge (.arr .set xs) pa old new
      else if pathIsLeaf pa then
        if old.length > 1 || new.length > 1 then .err
        else if equals [] (.arr .set xs) (Json.singleValue old) then .ok (Json.singleValue new)
        else .err
      else
        match nx.1 with
        | .node (.obj po) =>
          if nx.2.2.length > 0 then
            patchKeyed nx.2.1 (identObj nx.2.1 po) po nx.2.2 old new [] xs
          else patchSetLeaf nx.2.1 xs old new
        | _ => .err
    | .mset =>
      if merge then patchCommon merge (.arr .mset xs) pa old new
      else if pathIsLeaf pa then
        if old.length > 1 || new.length > 1 then .err
        else if equals [] (.arr .mset xs) (Json.singleValue old) then .ok (Json.singleValue new)
        else .err
      else
        match nx.1 with
        | .node (.obj po) => if po.isEmpty then patchMsetLeaf nx.2.1 xs old new else .err
        | _ => .err
    | _ =>
      if old.length > 1 || new.length > 1 then .err
      else if merge then patchCommon merge (.arr .list xs) pa old new
      else
        let oldV := Json.singleValue old
        let newV := Json.singleValue new
        if pa.isEmpty then
          if equals [] (.arr .list xs) oldV then .ok newV else .err
        else
          -- a jsonStringOrInteger whose Atoi succeeds is read as an index
          match asIndexBits nx.1 with
          | some bits =>
            let rest := nx.2.2
            let i0 := floatToInt bits
            let len : Int := xs.length
            let i : Int := if i0 == -1 then len else i0
            if newV.isVoid then
              -- delete, or recurse with a void new value
              if i < 0 then .panic   -- `len(l) > i` holds, `l[i]` panics
              else do
                let r ← (if len > i then patchListChild i.toNat rest old new xs
                         else patchCommon false .void rest old new)
                if i ≥ len then .err
                else if rest.isEmpty then pure (.arr .list (xs.eraseIdx i.toNat))
                else pure (.arr .list (xs.set i.toNat r))
            else if oldV.isVoid then
              -- insert / append, or recurse with a void old value
              if len > i && !rest.isEmpty && i < 0 then .panic
              else do
                let r ← (if len > i && !rest.isEmpty then patchListChild i.toNat rest old new xs
                         else patchCommon false .void rest old new)
                if i < 0 || i > len then .err
                else if i == len then pure (.arr .list (xs ++ [r]))
                else if rest.isEmpty then pure (.arr .list (xs.take i.toNat ++ r :: xs.drop i.toNat))
                else pure (.arr .list (xs.set i.toNat r))
            else
              -- replace
              if i < 0 then .panic
              else do
                let r ← (if len > i then patchListChild i.toNat rest old new xs
                         else patchCommon false .void rest old new)
                let l ← setAtP xs i r
                pure (.arr .list l)
          | none => .err
  | n => patchCommon merge n pa old new
termination_by (sizeOf n, 0)

/-- `o[k].patch(rest, …)` for an existing key: structural descent into the object -/
def patchObjChild (merge : Bool) (kvs : List (String × Json)) (k : String) (rest : PPath)
    (old new : List Json) : Outcome Json :=
  match kvs with
  | [] => .panic
  | (k', v) :: r =>
    if k = k' then patchNode merge v rest old new
    else patchObjChild merge r k rest old new
termination_by (sizeOf kvs, 0)

/-- `l[i].patch(rest, …)`: structural descent into the list (strict strategy) -/
def patchListChild (i : Nat) (rest : PPath) (old new : List Json) (xs : List Json) : Outcome Json :=
  match xs, i with
  | [], _ => .panic
  | x :: _, 0 => patchNode false x rest old new
  | _ :: r, i + 1 => patchListChild i rest old new r
termination_by (sizeOf xs, 0)

/-- the keyed-member branch of jsonSet.patch: the first object member whose `pathIdent` matches is
    patched; the result and the error of that nested call are DISCARDED (`v.patch(…); return s, nil`),
    the effect is only what the nested call did to the member object in place: nothing when it
    failed or when `rest` is a leaf (it returns the new value without touching the map), the
    updated object otherwise -/
def patchKeyed (m : Metas) (lookingFor : UInt64) (po : List (String × Json)) (rest : PPath)
    (old new : List Json) (pre : List Json) (xs : List Json) : Outcome Json :=
  match xs with
  | [] => .err
  | x :: r =>
    match x with
    | .obj kvs =>
      if pathIdent m kvs po == lookingFor then
        match patchNode false (.obj kvs) rest old new with
        | .ok v' => if pathIsLeaf rest then .ok (.arr .set (pre ++ x :: r))
                    else .ok (.arr .set (pre ++ v' :: r))
        | .err => .ok (.arr .set (pre ++ x :: r))
        | .panic => .panic
      else patchKeyed m lookingFor po rest old new (pre ++ [x]) r
    | _ => patchKeyed m lookingFor po rest old new (pre ++ [x]) r
termination_by (sizeOf xs, 0)
end

/-- `patchAll(n, d)`: the hunks in order, each with the strategy its own path says -/
def patchAllP (n : Json) : PDiff → Outcome Json
  | [] => .ok n
  | h :: d =>
    match patchNode (pathIsMerge h.path) n h.path h.old h.new with
    | .ok n' => patchAllP n' d
    | .err => .err
    | .panic => .panic

/-- `n.Patch(d)` for a diff whose paths may hold jsonStringOrInteger tokens -/
def patchP (n : Json) (d : PDiff) : Outcome Json := patchAllP n d

/-- `patchAll(n, d)` for a diff with node-only paths -/
def patchAll (n : Json) (d : VDiff) : Outcome Json := patchAllP n (liftDiff d)

/-- `n.Patch(d)` -/
def patchM (n : Json) (d : VDiff) : Outcome Json := patchAll n d

/-! ### Diff followed by Patch on the same in-memory values

  `path.appendIndex(o1, metadata)` puts the member object `o1` of the first document ITSELF (a Go
  map, i.e. a reference) into the path of every hunk of the sub-diff of that member. `Patch`
  mutates member objects in place, so when several hunks address the same keyed member, the path
  object of the later hunks has already been changed by the earlier ones: at the time a hunk is
  applied, such a path object is the CURRENT state of the member it aliases. (With a diff that
  does not share memory with the document — e.g. one read back from text — the path object is the
  ORIGINAL member and after the first hunk changed a non-key field the member is no longer found:
  `patchAll` on a decoded copy of the same diff returns an error.)

  The model stays functional: the alias is represented by the position of the member in its array
  (the last element with that identity, as in `s1Map`), positions are stable until the hunk of the
  array itself, which comes after all sub-diffs; before a hunk is applied its aliased path objects
  are refreshed from the current document. -/

/-- index of the last element whose identity is `h` (`s1Map[hc] = v` while ranging: last wins) -/
def lastIdxWithIdent (m : Metas) (h : UInt64) (xs : List Json) : Option Nat :=
  xs.zipIdx.foldl (fun acc xi => if identOf m xi.1 == h then some xi.2 else acc) none

/-- for every path element: the position of the array member a path object aliases (objects followed
    by more path only; the `{}` of a set / multiset hunk is a fresh object) -/
def aliasIdx (m : Metas) : Json → List Json → List (Option Nat)
  | _, [] => []
  | n, .arr .raw _ :: r => none :: aliasIdx m n r
  | .obj kvs, .str k :: r =>
    none :: (match alookup k kvs with
             | some v => aliasIdx m v r
             | none => r.map (fun _ => none))
  | .arr _ xs, .obj po :: r =>
    if r.isEmpty then [none]
    else match lastIdxWithIdent m (identObj m po) xs with
      | some i =>
        some i :: (match xs[i]? with
                   | some v => aliasIdx m v r
                   | none => r.map (fun _ => none))
      | none => none :: r.map (fun _ => none)
  | _, _ :: r => none :: r.map (fun _ => none)

/-- replace the aliased path objects by the current state of the members they alias -/
def refreshPath : Json → List Json → List (Option Nat) → List Json
  | _, [], _ => []
  | n, .arr .raw items :: r, _ :: al => .arr .raw items :: refreshPath n r al
  | .obj kvs, .str k :: r, _ :: al =>
    .str k :: (match alookup k kvs with
               | some v => refreshPath v r al
               | none => r)
  | .arr _ xs, .obj po :: r, some i :: al =>
    match xs[i]? with
    | some (.obj kvs) => .obj kvs :: refreshPath (.obj kvs) r al
    | _ => .obj po :: r
  | _, p, _ => p

/-- `patchAll` with the path objects of the hunks aliasing members of the document -/
def patchAllShared (n : Json) : List (Hunk × List (Option Nat)) → Outcome Json
  | [] => .ok n
  | (h, al) :: d =>
    match patchNode (pathIsMerge (liftPath h.path)) n (liftPath (refreshPath n h.path al)) h.old h.new with
    | .ok n' => patchAllShared n' d
    | .err => .err
    | .panic => .panic

/-- `o.pathObject(metadata)` returns the member map ITSELF (an alias) when there are no set keys or the member
    carries none of them; otherwise a fresh object holding only the key fields -/
def pathObjectIsMember (m : Metas) (kvs : List (String × Json)) : Bool :=
  match keysOf m with
  | none => true
  | some ks => ks.all (fun k => (alookup k kvs).isNone)

/-- `aliasIdx` restricted to the path objects that really are the member (see `pathObjectIsMember`) -/
def aliasIdxReal (m : Metas) : Json → List Json → List (Option Nat)
  | _, [] => []
  | n, .arr .raw _ :: r => none :: aliasIdxReal m n r
  | .obj kvs, .str k :: r =>
    none :: (match alookup k kvs with
             | some v => aliasIdxReal m v r
             | none => r.map (fun _ => none))
  | .arr _ xs, .obj po :: r =>
    if r.isEmpty then [none]
    else match lastIdxWithIdent m (identObj m po) xs with
      | some i =>
        (match xs[i]? with
         | some (.obj kvs) =>
           (if pathObjectIsMember m kvs then some i else none) :: aliasIdxReal m (.obj kvs) r
         | some v => none :: aliasIdxReal m v r
         | none => none :: r.map (fun _ => none))
      | none => none :: r.map (fun _ => none)
  | _, _ :: r => none :: r.map (fun _ => none)

/-- `d := a.Diff(b, metadata...); a.Patch(d)` on the same in-memory values -/
def diffPatchShared (m : Metas) (a b : Json) : VDiff × Outcome Json :=
  let d := diffM m a b
  -- a keyed path element is a fresh object holding only the key fields (o.pathObject) and does not alias
  -- the member — except for a member that carries NONE of the set keys: there the path object is the
  -- member map itself, and Patch, which mutates members in place, keeps finding it
  (d, patchAllShared a (d.map (fun h => (h, aliasIdxReal m a h.path))))

end Jd.V1
