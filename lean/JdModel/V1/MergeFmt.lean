/-
  JdModel.V1.MergeFmt — JSON Merge Patch (RFC 7386) rendering and reading of the v1 library:
  `Diff.RenderMerge` (diff_write.go) and `ReadMergeString` / `readMergeInto` (diff_read.go).

  `readMergeInto` ranges over a Go map: the ORDER of the hunks it returns is not defined. The model
  returns them in sorted key order; the hunks address pairwise distinct leaves, so every order has
  the same effect, and the driver compares them as a set.
-/
import JdModel.V1.PatchFmt

namespace Jd.V1
open Jd

/-- `(jsonArray{jsonString("MERGE")}).Equals(e)`: an array or list holding exactly the string "MERGE" -/
def isMergeMetaElem : PElem → Bool
  | .node (.arr .raw [.str s]) => s == "MERGE"
  | .node (.arr .list [.str s]) => s == "MERGE"
  | _ => false

/-- `Diff.RenderMerge()` as a document (the text is its `Json()`) -/
def renderMergeDoc (d : PDiff) : Outcome Json :=
  if d.isEmpty then .ok (.obj [])
  else if d.any (fun h => match h.path with | [] => true | e :: _ => !(isMergeMetaElem e)) then .err
  else
    patchAllP .void (d.map (fun h => { h with new := h.new.map (fun v => if v.isVoid then .null else v) }))

/-- `.ok none` = a number the codec cannot print -/
def renderMergeM (nc : NumCodec) (d : PDiff) : Outcome (Option String) :=
  if d.isEmpty then .ok (some "{}")
  else match renderMergeDoc d with
    | .ok n => .ok (jsonM nc n)
    | .err => .err
    | .panic => .panic

def mergeMetaElem : Json := .arr .raw [.str "MERGE"]

mutual
/-- `readMergeInto(d, p, n)` with the keys in sorted order -/
def readMergeInto (p : List Json) : Json → VDiff
  | .obj kvs =>
    if kvs.isEmpty then [{ path := p, new := [.obj []] }]
    else readMergeKvs p kvs
  | .void => []
  | .null => [{ path := p, new := [.void] }]
  | n => [{ path := p, new := [n] }]
def readMergeKvs (p : List Json) : List (String × Json) → VDiff
  | [] => []
  | (k, v) :: r => readMergeInto (p ++ [.str k]) v ++ readMergeKvs p r
end

/-- `ReadMergeString` on the document read -/
def readMergeDoc (n : Json) : VDiff :=
  match n with
  | .obj [] => []
  | n => readMergeInto [mergeMetaElem] n

def readMergeM (nc : NumCodec) (s : String) : Outcome VDiff :=
  match readJsonM nc s with
  | .ok n => .ok (readMergeDoc n)
  | .err => .err
  | .panic => .panic

end Jd.V1
