/-
  JdModel.Native — the native jd diff format: `Diff.Render` (diff_write.go, metadata.go),
  `ReadDiffString` (diff_read.go: the line automaton, checkDiffElement), `NewPath` / `Path.JsonNode`
  (path.go). The transition, flush and multi-value tables are the ones GENERATED from the source
  (JdModel/Gen/Reader.lean).
-/
import JdModel.Text
import JdModel.Lcs
import JdModel.Gen.Reader

namespace Jd

/-! ### paths as JSON -/

/-- `Path.JsonNode()` -/
def pathToJson (p : Path) : Json :=
  .arr .raw (p.map (fun e => match e with
    | .key k => .str k
    | .idx i => .num (intToFloatBits i)
    | .set => .obj []
    | .mset => .arr .raw []
    | .setKeys o => .obj o
    | .msetKeys o => .arr .raw [.obj o]))

/-- `NewPath(n)` -/
def newPathM (n : Json) : Outcome Path :=
  match n with
  | .arr .raw xs => go xs
  | _ => .err
where
  go : List Json → Outcome Path
    | [] => .ok []
    | e :: r =>
      let pe : Outcome PathElem :=
        match e with
        | .str s => .ok (.key s)
        | .num b => .ok (.idx (floatTrunc b))
        | .obj kvs => if kvs.isEmpty then .ok .set else .ok (.setKeys kvs)
        | .arr .raw [] => .ok .mset
        | .arr .raw [.obj o] => .ok (.msetKeys o)
        | _ => .err
      match pe with
      | .ok x => (match go r with | .ok p => .ok (x :: p) | e' => e')
      | .err => .err
      | .panic => .panic

/-! ### rendering -/

def colorDefault : String := "\x1b[0m"
def colorRed : String := "\x1b[31m"
def colorGreen : String := "\x1b[32m"

/-- `colorStringMarshal`: the escaped text of the string, colouring every rune that is not matched
    (greedily, in order) against the common sequence -/
def colorStringMarshal (s : String) (common : List Char) (code : String) : String :=
  "\"" ++ go (escapeBody s).toList common ++ "\""
where
  go : List Char → List Char → String
    | [], _ => ""
    | r :: rs, c :: cs =>
      if r == c then String.singleton r ++ go rs cs
      else code ++ String.singleton r ++ colorDefault ++ go rs (c :: cs)
    | r :: rs, [] => code ++ String.singleton r ++ colorDefault ++ go rs []

def optAll {α} : List (Option α) → Option (List α)
  | [] => some []
  | none :: _ => none
  | some x :: r => (optAll r).map (x :: ·)

/-- `DiffElement.Render(opts...)` -/
def renderHunk (nc : NumCodec) (o : Opts) (h : Hunk) : Option String := do
  let color := isColor o
  let merge := isMerge o || h.merge
  let mline := if h.merge then "^ {\"Merge\":true}\n" else ""
  let pathText ← jsonM nc (pathToJson h.path)
  let single : Option (String × String) :=
    match h.remove, h.add with
    | [.str x], [.str y] => some (x, y)
    | _, _ => none
  let common : List Char := match single with
    | some (x, y) => lcsValues x.toList y.toList
    | none => []
  let before ← optAll (h.before.map (fun b =>
    if b.isVoid then some "[\n" else (marshalNode nc b).map (fun t => "  " ++ t ++ "\n")))
  let remove ← optAll (h.remove.map (fun v =>
    if v.isVoid then some ""
    else match single, color, v with
      | some _, true, .str x => some ("- " ++ colorStringMarshal x common colorRed ++ "\n")
      | _, _, _ => (marshalNode nc v).map (fun t =>
          (if color then colorRed else "") ++ "- " ++ t ++ "\n" ++ (if color then colorDefault else ""))))
  let add ← optAll (h.add.map (fun v =>
    if v.isVoid then
      (if merge then some ((if color then colorGreen else "") ++ "+\n" ++ (if color then colorDefault else ""))
       else some "")
    else match single, color, v with
      | some _, true, .str x => some ("+ " ++ colorStringMarshal x common colorGreen ++ "\n")
      | _, _, _ => (marshalNode nc v).map (fun t =>
          (if color then colorGreen else "") ++ "+ " ++ t ++ "\n" ++ (if color then colorDefault else ""))))
  let after ← optAll (h.after.map (fun a =>
    if a.isVoid then some "]\n" else (marshalNode nc a).map (fun t => "  " ++ t ++ "\n")))
  pure (mline ++ "@ " ++ pathText ++ "\n" ++ String.join before ++ String.join remove ++ String.join add ++ String.join after)

/-- `Diff.Render(opts...)` -/
def renderM (nc : NumCodec) (o : Opts) (d : Diff) : Option String :=
  (optAll (d.map (renderHunk nc o))).map String.join

/-! ### reading -/

inductive RState where
  | init | mt | before | at | remove | add | after
deriving DecidableEq, Repr, Inhabited

def RState.name : RState → String
  | .init => "INIT" | .mt => "META" | .before => "BEFORE" | .at => "AT"
  | .remove => "REMOVE" | .add => "ADD" | .after => "AFTER"

def tableLookup (k : String) (t : List (String × List String)) : List String :=
  match t.find? (fun p => p.1 == k) with
  | some p => p.2
  | none => []

/-- `allow(...)` for the current state, from the generated table -/
def readerAllows (st : RState) (header : String) : Bool :=
  (tableLookup st.name Gen.readerAllow).contains header

/-- is the pending hunk saved when this header arrives in this state (generated table) -/
def readerFlushes (st : RState) (header : String) : Bool :=
  (tableLookup header Gen.readerFlush).contains st.name

def pathElemKind : PathElem → String
  | .key _ => "PathKey" | .idx _ => "PathIndex" | .set => "PathSet" | .mset => "PathMultiset"
  | .setKeys _ => "PathSetKeys" | .msetKeys _ => "PathMultisetKeys"

/-- `checkDiffElement` -/
def checkHunk (h : Hunk) : Bool :=
  if h.add.length > 1 || h.remove.length > 1 then
    match h.path.getLast? with
    | none => false
    | some e => Gen.multiValueKinds.contains (pathElemKind e)
  else true

/-- `readMetadata(n)`: the Merge flag, or an error -/
def readMetadataM (n : Json) : Outcome Bool :=
  match n with
  | .obj kvs =>
    if kvs.all (fun kv => kv.1 == "Merge" && (match kv.2 with | .bool _ => true | _ => false)) then
      .ok (kvs.any (fun kv => match kv.2 with | .bool true => true | _ => false))
    else .err
  | _ => .err

structure RAcc where
  st : RState := .init
  cur : Hunk := { path := [] }
  out : Diff := []      -- saved hunks, in order

/-- one non-empty line of the diff text -/
def readLine (nc : NumCodec) (acc : RAcc) (line : String) : Outcome RAcc :=
  match line.toList with
  | [] => .ok acc
  | c :: rest =>
    let header := String.singleton c
    let payload := String.ofList rest
    if !(readerAllows acc.st header) then .err
    else
      -- saving the pending hunk (for ^ and @)
      let saved : Outcome RAcc :=
        if readerFlushes acc.st header then
          (if checkHunk acc.cur then .ok { acc with out := acc.out ++ [acc.cur] } else .err)
        else .ok acc
      if header == "^" then
        match saved with
        | .ok acc =>
          (match readJsonM nc payload with
           | .ok n =>
             (match readMetadataM n with
              | .ok m => .ok { acc with st := .mt, cur := { acc.cur with merge := acc.cur.merge || m } }
              | _ => .err)
           | _ => .err)
        | e => e
      else if header == "@" then
        match saved with
        | .ok acc =>
          (match readJsonM nc payload with
           | .ok n =>
             (match newPathM n with
              | .ok p => .ok { acc with st := .at, cur := { merge := acc.cur.merge, path := p } }
              | _ => .err)
           | _ => .err)
        | e => e
      else if header == "[" then
        if Gen.readerOpenFrom.contains acc.st.name then
          .ok { acc with st := .before, cur := { acc.cur with before := acc.cur.before ++ [.void] } }
        else .err
      else if header == "]" then
        if Gen.readerCloseFrom.contains acc.st.name then
          .ok { acc with st := .after, cur := { acc.cur with after := acc.cur.after ++ [.void] } }
        else .err
      else if header == " " then
        if acc.st == .at || acc.st == .before then
          match readJsonM nc payload with
          | .ok v => .ok { acc with st := .before, cur := { acc.cur with before := acc.cur.before ++ [v] } }
          | _ => .err
        else if acc.st == .add || acc.st == .remove || acc.st == .after then
          match readJsonM nc payload with
          | .ok v => .ok { acc with st := .after, cur := { acc.cur with after := acc.cur.after ++ [v] } }
          | _ => .err
        else .err
      else if header == "-" then
        match readJsonM nc payload with
        | .ok v => .ok { acc with st := .remove, cur := { acc.cur with remove := acc.cur.remove ++ [v] } }
        | _ => .err
      else if header == "+" then
        match readJsonM nc payload with
        | .ok v => .ok { acc with st := .add, cur := { acc.cur with add := acc.cur.add ++ [v] } }
        | _ => .err
      else .ok acc

def readLines (nc : NumCodec) : RAcc → List String → Outcome RAcc
  | acc, [] => .ok acc
  | acc, l :: r =>
    match readLine nc acc l with
    | .ok acc' => readLines nc acc' r
    | e => e

/-- `ReadDiffString(s)` -/
def readDiffM (nc : NumCodec) (s : String) : Outcome Diff :=
  match readLines nc {} (s.splitOn "\n") with
  | .ok acc =>
    if Gen.readerNonTerminal.contains acc.st.name then .err
    else if acc.st != .init then
      (if checkHunk acc.cur then .ok (acc.out ++ [acc.cur]) else .err)
    else .ok acc.out
  | .err => .err
  | .panic => .panic

end Jd
