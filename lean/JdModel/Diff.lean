/-
  JdModel.Diff — `a.Diff(b, options...)` of the v2 library:
  diff_common.go, list.go (diff, diffRest, diffDifferentTypes, diffMergePatchStrategy,
  sameContainerType), object.go (diff), set.go (diff), multiset.go (diff), array.go (dispatch).
-/
import JdModel.Equals
import JdModel.Lcs

namespace Jd

/-- `sameContainerType(n1, n2, options)` -/
def sameContainerType (o : Opts) (x y : Json) : Bool :=
  match x.dispatch o, y.dispatch o with
  | .obj _, .obj _ => true
  | .arr t _, .arr t' _ => t == t'
  | _, _ => false

/-- `diff(a, b, p, options, strategy)` of diff_common.go (scalars, void, null).
    Note: `a.Equals(b)` is called WITHOUT options. -/
def diffCommon (merge : Bool) (a b : Json) (p : Path) : Diff :=
  if equals [] a b then []
  else if merge then [{ merge := true, path := p, add := [b] }]
  else [{ path := p, remove := a.nodeList, add := b.nodeList }]

/-- `newPathSetKeys(o, options)` -/
def newPathSetKeys (o : Opts) (kvs : List (String × Json)) : PathElem :=
  match keysOf o with
  | none => .setKeys kvs
  | some ks =>
    .setKeys (ks.foldl (fun acc k =>
      ainsert k (match alookup k kvs with | some v => v | none => .null) acc) [])

/-- the accumulated hunk of one pass of `diffRest`, or nothing when nothing was accumulated -/
def accHunk (parent : Path) (start : Nat) (prev : Json) (R A : List Json) (after : Json) : Diff :=
  if R.isEmpty && A.isEmpty then []
  else [{ path := parent ++ [.idx start], before := [prev], remove := R, add := A, after := [after] }]

/-- the end block of `diffRest` when nothing was accumulated and the sub-diff took the place of the
    temporary hunk (`d = subDiff`): "if len(d[0].Path) > len(path) { this is a subdiff, don't touch it } else
    if len(d) < 2 { d[0].After = after() }" — a sub-diff that is ONE hunk at the element's own path (a
    wholesale replacement, which only happens between a typed `jsonList` and a plain `jsonArray`) is
    taken for the accumulated hunk and receives the after-context -/
def subAfter (parent : Path) (noAcc : Bool) (next : Json) (sub : Diff) : Diff :=
  match sub with
  | [h] =>
    if noAcc && (!h.remove.isEmpty || !h.add.isEmpty) && h.path.length ≤ parent.length + 1 then
      [{ h with after := [next] }]
    else sub
  | _ => sub

/-- one part of a set diff, produced per distinct identity of the first set -/
inductive SetPart where
  | removed (x : Json)
  | sub (d : Diff)

/-- `map[[8]byte]JsonNode` built by ranging over a slice: last element wins -/
def identLookup (o : Opts) (h : UInt64) : List Json → Option Json
  | [] => none
  | x :: r =>
    match identLookup o h r with
    | some y => some y
    | none => if identOf o x == h then some x else none

/-- insertion sort of keyed parts by `hashLt` -/
def kinsert {β} (h : UInt64) (v : β) : List (UInt64 × β) → List (UInt64 × β)
  | [] => [(h, v)]
  | (h', v') :: r => if hashLt h h' then (h, v) :: (h', v') :: r else (h', v') :: kinsert h v r

def ksort {β} (l : List (UInt64 × β)) : List (UInt64 × β) :=
  l.foldr (fun p acc => kinsert p.1 p.2 acc) []

def countOcc (h : UInt64) (hs : List UInt64) : Nat := (hs.filter (· == h)).length

/-- last element of the list whose `hashCode` is `h` (`aMap[hc] = v` while ranging) -/
def hashLookup (o : Opts) (h : UInt64) : List Json → Option Json
  | [] => none
  | x :: r =>
    match hashLookup o h r with
    | some y => some y
    | none => if hashCode o x == h then some x else none

mutual
/-- `a.diff(b, path, options, strategy)`; `merge` is `strategy == mergePatchStrategy` -/
def diffNode (o : Opts) (merge : Bool) (a b : Json) (p : Path) : Diff :=
  match a with
  | .arr t xs =>
    -- jsonArray.diff dispatches both sides; typed nodes take the other side as it is
    let b' := if t == .raw then b.dispatch o else b
    match effTag o t with
    | .set =>
      match b' with
      | .arr .set ys =>
        if merge && !(equals o (.arr .set xs) (.arr .set ys)) then
          [{ merge := true, path := p, add := (Json.arr .set ys).nodeList }]
        else
          let parts := ksort (diffSetElems o merge p ys xs)
          let subs := parts.flatMap (fun kp => match kp.2 with | .sub d => d | .removed _ => [])
          let rem := parts.filterMap (fun kp => match kp.2 with | .removed x => some x | .sub _ => none)
          let xIds := xs.map (identOf o)
          let addIds := hsort (hdedup ((ys.map (identOf o)).filter (fun h => !xIds.contains h)))
          let add := addIds.filterMap (fun h => identLookup o h ys)
          subs ++ (if rem.isEmpty && add.isEmpty then []
                   else [{ path := p ++ [.set], remove := rem, add := add }])
      | _ =>
        if merge then [{ merge := true, path := p, add := [b'] }]
        else [{ path := p, remove := (Json.arr .raw xs).nodeList, add := b'.nodeList }]
    | .mset =>
      match b' with
      | .arr .mset ys =>
        if merge && !(equals o (.arr .mset xs) (.arr .mset ys)) then
          [{ merge := true, path := p, add := (Json.arr .mset ys).nodeList }]
        else
          let xh := hashList o xs
          let yh := hashList o ys
          let rem := (hsort (hdedup xh)).flatMap (fun h =>
            match hashLookup o h xs with
            | some v => List.replicate (countOcc h xh - countOcc h yh) v
            | none => [])
          let add := (hsort (hdedup yh)).flatMap (fun h =>
            match hashLookup o h ys with
            | some v => List.replicate (countOcc h yh - countOcc h xh) v
            | none => [])
          if rem.isEmpty && add.isEmpty then []
          else [{ path := p ++ [.mset], remove := rem, add := add }]
      | _ =>
        if merge then [{ merge := true, path := p, add := [b'] }]
        else [{ path := p, remove := (Json.arr .raw xs).nodeList, add := b'.nodeList }]
    | _ =>
      match b' with
      | .arr .list ys =>
        if merge then
          if !(equals o (.arr .list xs) (.arr .list ys)) then
            [{ merge := true, path := p, add := (Json.arr .list ys).nodeList }]
          else []
        else
          let c := lcsValues (hashList o xs) (hashList o ys)
          diffRest o p 0 0 .void xs ys c [] []
      | _ =>
        if merge then [{ merge := true, path := p, add := [b'] }]
        else [{ path := p, remove := (Json.arr .list xs).nodeList, add := b'.nodeList }]
  | .obj kvs =>
    match b with
    | .obj kvs' =>
      diffKvs o merge p kvs' kvs ++
        (kvs'.filter (fun kv => (alookup kv.1 kvs).isNone)).map (fun kv =>
          { merge := merge, path := p ++ [.key kv.1], add := kv.2.nodeList })
    | _ =>
      if merge then [{ merge := true, path := p, add := [b] }]
      else [{ path := p, remove := [Json.obj kvs], add := [b] }]
  | a => diffCommon merge a b p
termination_by (sizeOf a, 0)

/-- first loop of jsonObject.diff: keys of the first object in sorted order -/
def diffKvs (o : Opts) (merge : Bool) (p : Path) (kvs' : List (String × Json)) :
    (kvs : List (String × Json)) → Diff
  | [] => []
  | (k, v) :: r =>
    (match alookup k kvs' with
     | some v' => diffNode o merge v v' (p ++ [.key k])
     | none =>
       if merge then [{ merge := true, path := p ++ [.key k], add := [.void] }]
       else [{ path := p ++ [.key k], remove := v.nodeList }]) ++ diffKvs o merge p kvs' r
termination_by kvs => (sizeOf kvs, 0)

/-- per element of the first set that is the LAST one with its identity: removed, or sub-diffed
    against the member of the second set with the same identity (objects only), or unchanged -/
def diffSetElems (o : Opts) (merge : Bool) (p : Path) (ys : List Json) :
    (xs : List Json) → List (UInt64 × SetPart)
  | [] => []
  | x :: r =>
    let rest := diffSetElems o merge p ys r
    let h := identOf o x
    if (r.map (identOf o)).contains h then rest
    else
      match identLookup o h ys with
      | none => (h, .removed x) :: rest
      | some y =>
        match x, y with
        | .obj kvs, .obj _ =>
          (h, .sub (diffNode o merge (.obj kvs) y (p ++ [newPathSetKeys o kvs]))) :: rest
        | _, _ => rest
termination_by xs => (sizeOf xs, 0)

/-- `jsonList.diffRest`, the loop and the recursion fused: `a b` are the remaining elements, `c` the
    remaining common sequence (hashes), `k` = pathCursor, `start` = index of the hunk being
    accumulated, `prev` its before-context, `R A` what it has accumulated so far. -/
def diffRest (o : Opts) (parent : Path) (k start : Nat) (prev : Json)
    (a b : List Json) (c : List UInt64) (R A : List Json) : Diff :=
  match a, b with
  | [], b => accHunk parent start prev R (A ++ b) .void
  | a, [] => accHunk parent start prev (R ++ a) A .void
  | x :: a', y :: b' =>
    let atA := match c with | [] => false | z :: _ => hashCode o x == z
    let atB := match c with | [] => false | z :: _ => hashCode o y == z
    if atA && atB then
      accHunk parent start prev R A x ++
        (if a'.isEmpty && b'.isEmpty then []
         else diffRest o parent (k + 1) (k + 1) y a' b' c.tail [] [])
    else if atA then diffRest o parent (k + 1) start prev (x :: a') b' c R (A ++ [y])
    else if atB then diffRest o parent k start prev a' (y :: b') c (R ++ [x]) A
    else if sameContainerType o x y then
      let sub := diffNode o false x y (parent ++ [.idx k])
      let after := if sub.isEmpty then a'.headD .void else x
      accHunk parent start prev R A after ++ subAfter parent (R.isEmpty && A.isEmpty) (a'.headD .void) sub ++
        (if a'.isEmpty && b'.isEmpty then []
         else diffRest o parent (k + 1) (k + 1) y a' b' c [] [])
    else diffRest o parent (k + 1) start prev a' b' c (R ++ [x]) (A ++ [y])
termination_by (sizeOf a, b.length)
end

/-- `a.Diff(b, options...)` -/
def diffM (o : Opts) (a b : Json) : Diff :=
  diffNode o (isMerge o) a b []

end Jd
