/-
  JdModel.Hash — FNV-1a 64 and the per-kind hash codes of v2 (hash_common.go and the
  hashCode methods). A hash code `[8]byte` is represented by the `UInt64` whose
  little-endian bytes it is (`binary.LittleEndian.PutUint64(a, h.Sum64())`).
-/
import JdModel.Basic
import JdModel.Gen.Seeds

namespace Jd

def fnvOffset : UInt64 := 0xcbf29ce484222325
def fnvPrime : UInt64 := 0x100000001b3

def fnv1a (bs : List UInt8) : UInt64 :=
  bs.foldl (fun h b => (h ^^^ b.toUInt64) * fnvPrime) fnvOffset

/-- little-endian bytes of a 64-bit word -/
def le8 (h : UInt64) : List UInt8 :=
  [h.toUInt8, (h >>> 8).toUInt8, (h >>> 16).toUInt8, (h >>> 24).toUInt8,
   (h >>> 32).toUInt8, (h >>> 40).toUInt8, (h >>> 48).toUInt8, (h >>> 56).toUInt8]

/-- the word whose little-endian bytes are the given 8 bytes (for the literal `[8]byte` constants) -/
def ofLe8 (bs : List UInt8) : UInt64 :=
  bs.foldr (fun b acc => (acc <<< 8) ||| b.toUInt64) 0

/-- sort key realising `bytes.Compare` on the little-endian byte arrays: the byte-swapped word -/
def bswap (h : UInt64) : UInt64 := ofLe8 (le8 h).reverse

/-- `hashCodes.Less` -/
def hashLt (a b : UInt64) : Bool := bswap a < bswap b

/-- insertion into a list sorted by `hashLt` (duplicates kept, inserted after equal keys) -/
def hinsert (h : UInt64) : List UInt64 → List UInt64
  | [] => [h]
  | x :: r => if hashLt h x then h :: x :: r else x :: hinsert h r

/-- `sort.Sort(hashCodes)`; elements that compare equal are identical, so stability is irrelevant -/
def hsort (hs : List UInt64) : List UInt64 := hs.foldr hinsert []

/-- distinct values, keeping first occurrences (models building `map[[8]byte]bool`) -/
def hdedup : List UInt64 → List UInt64
  | [] => []
  | x :: r => x :: (hdedup r).filter (· != x)

/-- `hashCodes.combine`: sort, concatenate, hash -/
def hcombine (hs : List UInt64) : UInt64 :=
  fnv1a ((hsort hs).flatMap le8)

def strBytes (s : String) : List UInt8 := s.toUTF8.toList

mutual
/-- `hashCode(options)` of every node kind (v2) -/
def hashCode (o : Opts) : Json → UInt64
  | .void => fnv1a Gen.seedVoid
  | .null => fnv1a Gen.seedNull
  | .bool true => ofLe8 Gen.hashTrue
  | .bool false => ofLe8 Gen.hashFalse
  | .num bits => fnv1a (le8 (if bits == 0x8000000000000000 then 0 else bits))   -- 0 and -0 hash alike
  | .str s => fnv1a (strBytes s)
  | .arr t xs =>
    match effTag o t with
    | .set => hcombine (hdedup (hashList o xs))
    | .mset => fnv1a ((hsort (hashList o xs)).flatMap le8)
    | _ => fnv1a (Gen.seedList ++ (hashList o xs).flatMap le8)
  | .obj kvs => fnv1a (Gen.seedObject ++ hashKvs o kvs)
def hashList (o : Opts) : List Json → List UInt64
  | [] => []
  | x :: r => hashCode o x :: hashList o r
def hashKvs (o : Opts) : List (String × Json) → List UInt8
  | [] => []
  | (k, v) :: r => le8 (fnv1a (strBytes k)) ++ le8 (hashCode o v) ++ hashKvs o r
end

/-- values of the given keys that are present, hashed (object.go `ident`, SetKeys branch) -/
def identKeyHashes (o : Opts) (kvs : List (String × Json)) : List String → List UInt64
  | [] => []
  | k :: r =>
    match alookup k kvs with
    | some v => hashCode o v :: identKeyHashes o kvs r
    | none => identKeyHashes o kvs r

/-- `jsonObject.ident(options)` -/
def identObj (o : Opts) (kvs : List (String × Json)) : UInt64 :=
  match keysOf o with
  | none => hashCode o (.obj kvs)
  | some ks => hcombine (ofLe8 Gen.seedIdent :: identKeyHashes o kvs ks)

/-- identity used by set diff / set patch: objects by `ident`, everything else by `hashCode` -/
def identOf (o : Opts) : Json → UInt64
  | .obj kvs => identObj o kvs
  | n => hashCode o n

/-- restriction of an object to the keys of the path object (object.go `pathIdent`) -/
def restrictKeys (kvs pathObj : List (String × Json)) : List (String × Json) :=
  kvs.filter (fun kv => (alookup kv.1 pathObj).isSome)

/-- `o.pathIdent(pathObject, options)` -/
def pathIdent (o : Opts) (kvs pathObj : List (String × Json)) : UInt64 :=
  hashCode o (.obj (restrictKeys kvs pathObj))

/-- `o.pathIdent(pathObject, absentIsNull = true, options)`: as `pathIdent`, and a key the object does not
    have counts as null when the path object holds null for it (`newPathSetKeys` writes null for a set
    key the member lacks) -/
def pathIdentTol (o : Opts) (kvs pathObj : List (String × Json)) : UInt64 :=
  hashCode o (.obj ((pathObj.filter (fun kv => (match kv.2 with | .null => true | _ => false) && (alookup kv.1 kvs).isNone)).foldl
    (fun acc kv => ainsert kv.1 .null acc) (restrictKeys kvs pathObj)))

end Jd
