/-
  JdModel.Text — JSON text of documents: `n.Json()`, `json.Marshal(node)` as used by the diff
  renderer, `ReadJsonString`. encoding/json is external code; this file is the executable instance
  of its contract that the driver runs (DESIGN.md §3), compared with Go on every generated payload.

  Decimal text ↔ binary64 (`strconv`) is a parameter (`NumCodec`): the function graph restricted to
  the number tokens at hand is supplied by the implementation side of the harness. Integral values
  below 2^53 are formatted / parsed by the model itself (needed for path indices).
-/
import JdModel.Hash

namespace Jd

structure NumCodec where
  fmt : UInt64 → Option String
  parse : String → Option UInt64

/-! ### float64 bit patterns of integers -/

/-- exact integer value of a finite binary64 with integral value, `none` otherwise -/
def floatToInt? (b : UInt64) : Option Int :=
  let neg := b >>> 63 == 1
  let e := ((b >>> 52) &&& 0x7FF).toNat
  let frac := (b &&& 0xFFFFFFFFFFFFF).toNat
  if e == 0x7FF then none
  else if e == 0 then (if frac == 0 then some 0 else none)
  else
    let m := frac + 2 ^ 52
    -- value = m * 2^(e - 1075)
    if e ≥ 1075 then
      let v : Int := ((m * 2 ^ (e - 1075) : Nat) : Int)
      some (if neg then -v else v)
    else
      let sh := 1075 - e
      if sh > 52 then none
      else if m % 2 ^ sh == 0 then
        let v : Int := ((m / 2 ^ sh : Nat) : Int)
        some (if neg then -v else v)
      else none

/-- truncation toward zero of a finite binary64 (`int(f)` in Go for |f| < 2^63) -/
def floatTrunc (b : UInt64) : Int :=
  let neg := b >>> 63 == 1
  let e := ((b >>> 52) &&& 0x7FF).toNat
  let frac := (b &&& 0xFFFFFFFFFFFFF).toNat
  if e == 0x7FF then -(2 ^ 63 : Int)          -- NaN / Inf: amd64 gives the "integer indefinite" value
  else if e == 0 then 0
  else
    let m := frac + 2 ^ 52
    let v : Int := ((if e ≥ 1075 then m * 2 ^ (e - 1075) else m / 2 ^ (1075 - e) : Nat) : Int)
    if v ≥ 2 ^ 63 then -(2 ^ 63 : Int) else if neg then -v else v

def natLog2 (n : Nat) : Nat := if n == 0 then 0 else n.log2

/-- bit pattern of an integer of magnitude below 2^53 -/
def intToFloatBits (i : Int) : UInt64 :=
  if i == 0 then 0
  else
    let n := i.natAbs
    let k := natLog2 n            -- 2^k ≤ n < 2^(k+1)
    let frac := n * 2 ^ (52 - k) - 2 ^ 52
    let e := 1023 + k
    let s : Nat := if i < 0 then 1 else 0
    UInt64.ofNat (s * 2 ^ 63 + e * 2 ^ 52 + frac)

def natToDigits (n : Nat) : String := toString n

/-- number text as encoding/json writes it: integral values of magnitude < 2^53 by the model,
    everything else through the codec -/
def fmtNum (nc : NumCodec) (b : UInt64) : Option String :=
  if b == 0x8000000000000000 then some "-0"
  else match floatToInt? b with
    | some i => if i.natAbs < 2 ^ 53 then some (if i < 0 then "-" ++ natToDigits i.natAbs else natToDigits i.natAbs) else nc.fmt b
    | none => nc.fmt b

/-! ### strings -/

def hexNibble (n : Nat) : Char :=
  if n < 10 then Char.ofNat (48 + n) else Char.ofNat (87 + n)

/-- one rune as encoding/json's appendString writes it (escapeHTML = true) -/
def escapeChar (c : Char) : List Char :=
  if c == '"' then ['\\', '"']
  else if c == '\\' then ['\\', '\\']
  else if c == '\x08' then ['\\', 'b']
  else if c == '\x0c' then ['\\', 'f']
  else if c == '\n' then ['\\', 'n']
  else if c == '\r' then ['\\', 'r']
  else if c == '\t' then ['\\', 't']
  else if c.toNat < 0x20 || c == '<' || c == '>' || c == '&' then
    ['\\', 'u', '0', '0', hexNibble (c.toNat / 16), hexNibble (c.toNat % 16)]
  else if c.toNat == 0x2028 then "\\u2028".toList
  else if c.toNat == 0x2029 then "\\u2029".toList
  else [c]

def escapeBody (s : String) : String := String.ofList (s.toList.flatMap escapeChar)

def quoteString (s : String) : String := "\"" ++ escapeBody s ++ "\""

/-! ### raw() and rendering -/

/-- last value whose key is `h` (`sMap[hc] = n` while ranging) -/
def lastByHash (h : UInt64) : List UInt64 → List Json → Option Json
  | k :: ks, v :: vs =>
    match lastByHash h ks vs with
    | some y => some y
    | none => if k == h then some v else none
  | _, _ => none

/-- members of a set in the order `jsonSet.raw()` emits them: distinct hash codes (of the original
    members, under SET) sorted; for equal hash codes the last member wins; `vals` are the members
    after `raw()` -/
def setRawOrder (hs : List UInt64) (vals : List Json) : List Json :=
  (hsort (hdedup hs)).filterMap (fun h => lastByHash h hs vals)

mutual
/-- text of `renderJson(n.raw())` -/
def jsonText (nc : NumCodec) : Json → Option String
  | .void => some "\"\""
  | .null => some "null"
  | .bool true => some "true"
  | .bool false => some "false"
  | .num b => fmtNum nc b
  | .str s => some (quoteString s)
  | .arr _ xs => (jsonTextList nc xs).map (fun l => "[" ++ String.intercalate "," l ++ "]")
  | .obj kvs => (jsonTextKvs nc kvs).map (fun l => "{" ++ String.intercalate "," l ++ "}")
def jsonTextList (nc : NumCodec) : List Json → Option (List String)
  | [] => some []
  | x :: r => do
    let a ← jsonText nc x
    let b ← jsonTextList nc r
    pure (a :: b)
def jsonTextKvs (nc : NumCodec) : List (String × Json) → Option (List String)
  | [] => some []
  | (k, v) :: r => do
    let a ← jsonText nc v
    let b ← jsonTextKvs nc r
    pure ((quoteString k ++ ":" ++ a) :: b)
end

mutual
/-- `raw()` as a document: set-typed arrays are replaced by their distinct members in hash order -/
def rawNorm : Json → Json
  | .arr .set xs => .arr .raw (setRawOrder (hashList [.set] xs) (rawNormList xs))
  | .arr _ xs => .arr .raw (rawNormList xs)
  | .obj kvs => .obj (rawNormKvs kvs)
  | n => n
def rawNormList : List Json → List Json
  | [] => []
  | x :: r => rawNorm x :: rawNormList r
def rawNormKvs : List (String × Json) → List (String × Json)
  | [] => []
  | (k, v) :: r => (k, rawNorm v) :: rawNormKvs r
end

/-- `n.Json()`; a set-typed array is ordered by the hash codes of its original members -/
def jsonM (nc : NumCodec) (n : Json) : Option String :=
  match n with
  | .void => some ""
  | n => jsonText nc (rawNorm n)

mutual
/-- `json.Marshal(node)` as the diff renderer calls it on hunk values: arrays element-wise in stored
    order whatever their Go type, objects through `MarshalJSON` = `Json()`, void as `{}` -/
def marshalNode (nc : NumCodec) : Json → Option String
  | .void => some "{}"
  | .arr _ xs => (marshalList nc xs).map (fun l => "[" ++ String.intercalate "," l ++ "]")
  | .obj kvs => jsonText nc (rawNorm (.obj kvs))
  | n => jsonText nc n
def marshalList (nc : NumCodec) : List Json → Option (List String)
  | [] => some []
  | x :: r => do
    let a ← marshalNode nc x
    let b ← marshalList nc r
    pure (a :: b)
end

/-! ### reading -/

/-- `unicode.IsSpace` (what `strings.TrimSpace` trims) -/
def isGoSpace (c : Char) : Bool :=
  let n := c.toNat
  n == 0x20 || (0x09 ≤ n && n ≤ 0x0D) || n == 0x85 || n == 0xA0 || n == 0x1680 ||
  (0x2000 ≤ n && n ≤ 0x200A) || n == 0x2028 || n == 0x2029 || n == 0x202F || n == 0x205F || n == 0x3000

def isJsonWs (c : Char) : Bool := c == ' ' || c == '\t' || c == '\n' || c == '\r'

def skipWs : List Char → List Char
  | c :: r => if isJsonWs c then skipWs r else c :: r
  | [] => []

def isDigit (c : Char) : Bool := '0' ≤ c && c ≤ '9'

def takeDigits : List Char → List Char × List Char
  | c :: r => if isDigit c then let (d, t) := takeDigits r; (c :: d, t) else ([], c :: r)
  | [] => ([], [])

/-- JSON number grammar: returns the token and the rest -/
def lexNumber (cs : List Char) : Option (List Char × List Char) :=
  let (sign, r0) := match cs with | '-' :: r => (['-'], r) | r => ([], r)
  match r0 with
  | '0' :: r1 =>
    lexFrac (sign ++ ['0']) r1
  | c :: _ =>
    if isDigit c then
      let (ds, r1) := takeDigits r0
      lexFrac (sign ++ ds) r1
    else none
  | [] => none
where
  lexFrac (acc : List Char) (r : List Char) : Option (List Char × List Char) :=
    match r with
    | '.' :: r1 =>
      let (ds, r2) := takeDigits r1
      if ds.isEmpty then none else lexExp (acc ++ '.' :: ds) r2
    | _ => lexExp acc r
  lexExp (acc : List Char) (r : List Char) : Option (List Char × List Char) :=
    match r with
    | e :: r1 =>
      if e == 'e' || e == 'E' then
        let (sg, r2) := match r1 with
          | '+' :: t => (['+'], t)
          | '-' :: t => (['-'], t)
          | t => ([], t)
        let (ds, r3) := takeDigits r2
        if ds.isEmpty then none else some (acc ++ e :: sg ++ ds, r3)
      else some (acc, r)
    | [] => some (acc, [])

def parseNumToken (nc : NumCodec) (tok : List Char) : Option UInt64 :=
  let s := String.ofList tok
  match nc.parse s with
  | some b => some b
  | none =>
    -- plain integer literals of magnitude < 2^53
    let (neg, ds) := match tok with | '-' :: r => (true, r) | r => (false, r)
    if ds.all isDigit && !ds.isEmpty && ds.length ≤ 15 then
      let n : Nat := ds.foldl (fun (acc : Nat) c => acc * 10 + (c.toNat - 48)) 0
      if n == 0 && neg then some 0x8000000000000000
      else some (intToFloatBits (if neg then -(n : Int) else (n : Int)))
    else none

def hexDigitVal (c : Char) : Option Nat :=
  if '0' ≤ c && c ≤ '9' then some (c.toNat - 48)
  else if 'a' ≤ c && c ≤ 'f' then some (c.toNat - 87)
  else if 'A' ≤ c && c ≤ 'F' then some (c.toNat - 55)
  else none

def hex4 : List Char → Option (Nat × List Char)
  | a :: b :: c :: d :: r => do
    let w ← hexDigitVal a; let x ← hexDigitVal b; let y ← hexDigitVal c; let z ← hexDigitVal d
    pure (((w * 16 + x) * 16 + y) * 16 + z, r)
  | _ => none

/-- body of a JSON string after the opening quote: decoded runes and the rest after the closing quote -/
def lexString : (fuel : Nat) → List Char → List Char → Option (String × List Char)
  | 0, _, _ => none
  | fuel + 1, acc, cs =>
    match cs with
    | [] => none
    | '"' :: r => some (String.ofList acc.reverse, r)
    | '\\' :: e :: r =>
      if e == '"' then lexString fuel ('"' :: acc) r
      else if e == '\\' then lexString fuel ('\\' :: acc) r
      else if e == '/' then lexString fuel ('/' :: acc) r
      else if e == 'b' then lexString fuel ('\x08' :: acc) r
      else if e == 'f' then lexString fuel ('\x0c' :: acc) r
      else if e == 'n' then lexString fuel ('\n' :: acc) r
      else if e == 'r' then lexString fuel ('\r' :: acc) r
      else if e == 't' then lexString fuel ('\t' :: acc) r
      else if e == 'u' then
        match hex4 r with
        | none => none
        | some (u, r1) =>
          if 0xD800 ≤ u && u < 0xDC00 then
            -- high surrogate: needs \uDC00..DFFF next, otherwise U+FFFD
            match r1 with
            | '\\' :: 'u' :: r2 =>
              match hex4 r2 with
              | some (v, r3) =>
                if 0xDC00 ≤ v && v < 0xE000 then
                  lexString fuel (Char.ofNat (0x10000 + (u - 0xD800) * 0x400 + (v - 0xDC00)) :: acc) r3
                else lexString fuel (Char.ofNat 0xFFFD :: acc) r1
              | none => lexString fuel (Char.ofNat 0xFFFD :: acc) r1
            | _ => lexString fuel (Char.ofNat 0xFFFD :: acc) r1
          else if 0xDC00 ≤ u && u < 0xE000 then lexString fuel (Char.ofNat 0xFFFD :: acc) r1
          else lexString fuel (Char.ofNat u :: acc) r1
      else none
    | c :: r => if c.toNat < 0x20 then none else lexString fuel (c :: acc) r

def sortInsertLast {β} (k : String) (v : β) (kvs : List (String × β)) : List (String × β) := ainsert k v kvs

mutual
/-- JSON value at the head of the input (after whitespace); fuel bounds the recursion -/
def parseValue (nc : NumCodec) : (fuel : Nat) → List Char → Option (Json × List Char)
  | 0, _ => none
  | fuel + 1, cs =>
    match skipWs cs with
    | 'n' :: 'u' :: 'l' :: 'l' :: r => some (.null, r)
    | 't' :: 'r' :: 'u' :: 'e' :: r => some (.bool true, r)
    | 'f' :: 'a' :: 'l' :: 's' :: 'e' :: r => some (.bool false, r)
    | '"' :: r => (lexString (r.length + 1) [] r).map (fun (s, t) => (.str s, t))
    | '[' :: r =>
      match skipWs r with
      | ']' :: t => some (.arr .raw [], t)
      | _ => (parseElems nc fuel r).map (fun (xs, t) => (.arr .raw xs, t))
    | '{' :: r =>
      match skipWs r with
      | '}' :: t => some (.obj [], t)
      | _ => (parseMembers nc fuel r []).map (fun (kvs, t) => (.obj kvs, t))
    | c :: r =>
      if c == '-' || isDigit c then
        match lexNumber (c :: r) with
        | some (tok, t) => (parseNumToken nc tok).map (fun b => (.num b, t))
        | none => none
      else none
    | [] => none
def parseElems (nc : NumCodec) : (fuel : Nat) → List Char → Option (List Json × List Char)
  | 0, _ => none
  | fuel + 1, cs =>
    match parseValue nc fuel cs with
    | none => none
    | some (v, r) =>
      match skipWs r with
      | ',' :: t => (parseElems nc fuel t).map (fun (xs, u) => (v :: xs, u))
      | ']' :: t => some ([v], t)
      | _ => none
def parseMembers (nc : NumCodec) : (fuel : Nat) → List Char → List (String × Json) → Option (List (String × Json) × List Char)
  | 0, _, _ => none
  | fuel + 1, cs, acc =>
    match skipWs cs with
    | '"' :: r =>
      match lexString (r.length + 1) [] r with
      | none => none
      | some (k, r1) =>
        match skipWs r1 with
        | ':' :: r2 =>
          match parseValue nc fuel r2 with
          | none => none
          | some (v, r3) =>
            let acc' := ainsert k v acc      -- duplicate keys: the last one wins
            match skipWs r3 with
            | ',' :: t => parseMembers nc fuel t acc'
            | '}' :: t => some (acc', t)
            | _ => none
        | _ => none
    | _ => none
end

/-- `json.Unmarshal` into `interface{}` followed by `NewJsonNode`: a complete JSON text -/
def parseJson (nc : NumCodec) (s : String) : Option Json :=
  let cs := s.toList
  match parseValue nc (cs.length + 2) cs with
  | some (v, r) => if (skipWs r).isEmpty then some v else none
  | none => none

/-- `strings.Trim(s, " \t\r\n")` -/
def trimGoSpace (s : String) : String :=
  String.ofList ((s.toList.dropWhile isJsonWs).reverse.dropWhile isJsonWs).reverse

/-- `ReadJsonString`: blank text is the void document -/
def readJsonM (nc : NumCodec) (s : String) : Outcome Json :=
  if (trimGoSpace s).isEmpty then .ok .void
  else match parseJson nc s with
    | some v => .ok v
    | none => .err

end Jd
