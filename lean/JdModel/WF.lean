/-
  JdModel.WF — well-formedness predicates on documents (decidable, as Bool-valued functions).
  `Json.wf`      : every object's keys are strictly increasing (what the Go map guarantees: unique keys;
                   the model keeps them sorted);
  `Json.listDoc` : every array node is a plain `jsonArray` or a `jsonList` (no set / multiset typed
                   nodes): what the JSON / YAML readers produce, and what list-mode operations keep;
  `Json.rawDoc`  : every array node is a plain `jsonArray` (documents as read from text).
-/
import JdModel.Basic

namespace Jd

mutual
def Json.wf : Json → Bool
  | .arr _ xs => wfList xs
  | .obj kvs => keysSorted kvs && wfKvs kvs
  | _ => true
def wfList : List Json → Bool
  | [] => true
  | x :: r => x.wf && wfList r
def wfKvs : List (String × Json) → Bool
  | [] => true
  | (_, v) :: r => v.wf && wfKvs r
end

mutual
def Json.listDoc : Json → Bool
  | .arr t xs => (t == .raw || t == .list) && listDocList xs
  | .obj kvs => listDocKvs kvs
  | _ => true
def listDocList : List Json → Bool
  | [] => true
  | x :: r => x.listDoc && listDocList r
def listDocKvs : List (String × Json) → Bool
  | [] => true
  | (_, v) :: r => v.listDoc && listDocKvs r
end

mutual
def Json.rawDoc : Json → Bool
  | .arr t xs => t == .raw && rawDocList xs
  | .obj kvs => rawDocKvs kvs
  | _ => true
def rawDocList : List Json → Bool
  | [] => true
  | x :: r => x.rawDoc && rawDocList r
def rawDocKvs : List (String × Json) → Bool
  | [] => true
  | (_, v) :: r => v.rawDoc && rawDocKvs r
end

mutual
/-- no `null` anywhere (the domain of merge patches) -/
def Json.nullFree : Json → Bool
  | .null => false
  | .arr _ xs => nullFreeList xs
  | .obj kvs => nullFreeKvs kvs
  | _ => true
def nullFreeList : List Json → Bool
  | [] => true
  | x :: r => x.nullFree && nullFreeList r
def nullFreeKvs : List (String × Json) → Bool
  | [] => true
  | (_, v) :: r => v.nullFree && nullFreeKvs r
end

end Jd
