/-
  JdModel.Equals — `Equals(n, options...)` of every node kind (v2).
-/
import JdModel.Hash

namespace Jd

/-- `math.Abs(float64(n1)-float64(n2)) <= precision` on IEEE-754 binary64 bit patterns.
    Evaluated by the Lean runtime's `Float`; the kernel sees it as opaque, so theorems that need
    laws of it take them as explicit hypotheses (`FloatLaws`, JdSpec). -/
def numWithin (eps a b : UInt64) : Bool :=
  decide ((Float.ofBits a - Float.ofBits b).abs ≤ Float.ofBits eps)

mutual
/-- `a.Equals(b, options...)` -/
def equals (o : Opts) : Json → Json → Bool
  | .void, b => b.isVoid
  | .null, b => b.isNull
  | .bool x, .bool y => x == y
  | .bool _, _ => false
  | .num x, .num y => numWithin (precOf o) x y
  | .num _, _ => false
  | .str x, .str y => x == y
  | .str _, _ => false
  | .arr t xs, b =>
    match effTag o t, b.dispatch o with
    | .set, .arr .set ys => hashCode o (.arr .set xs) == hashCode o (.arr .set ys)
    | .mset, .arr .mset ys =>
      xs.length == ys.length && hashCode o (.arr .mset xs) == hashCode o (.arr .mset ys)
    | .list, .arr .list ys => equalsList o xs ys
    | .raw, .arr .list ys => equalsList o xs ys  -- unreachable: effTag never returns raw
    | _, _ => false
  | .obj kvs, .obj kvs' => kvs.length == kvs'.length && equalsKvs o kvs kvs'
  | .obj _, _ => false
/-- pointwise comparison of jsonList.Equals (lengths compared first in Go; same result) -/
def equalsList (o : Opts) : List Json → List Json → Bool
  | [], [] => true
  | x :: xs, y :: ys => equals o x y && equalsList o xs ys
  | _, _ => false
/-- every key of the first object is in the second with an equal value -/
def equalsKvs (o : Opts) : List (String × Json) → List (String × Json) → Bool
  | [], _ => true
  | (k, v) :: r, kvs' =>
    (match alookup k kvs' with
     | some v' => equals o v v'
     | none => false) && equalsKvs o r kvs'
end

end Jd
