/-
  JdModel.Yaml — jd's own glue between the decoders (encoding/json, gopkg.in/yaml.v2) and the
  node types: `NewJsonNode` (node.go) and `raw()` (all node types).

  YAML emission / parsing is EXTERNAL code and is not modelled: no YAML text enters Lean. What is
  modelled is
    * `Raw`            Go's `interface{}` universe as the two decoders (and API callers) produce it;
    * `newJsonNodeM`   `NewJsonNode` exactly as node.go has it now;
    * `rawM`           `raw()`;
    * `yamlize`        the CONTRACT for `yaml.Unmarshal ∘ yaml.Marshal` on values produced by `rawM`
                       (checked against the real yaml.v2 on every generated document by the harness,
                       property C16 probe "contract").

  Observed behaviour of yaml.v2 v2.4.0 encoded in `yamlize` (probed 2026-09-29):
    * `map[string]interface{}` comes back as `map[interface{}]interface{}` with string keys;
    * a float64 is written with `strconv.FormatFloat(f, 'g', -1, 64)`: integral values of magnitude
      below 10^6 are written as plain digits and are re-read as Go `int`
      (1.0 ↦ 1, 1e3 ↦ 1000, 999999 ↦ 999999, -0.0 ↦ "-0" ↦ int 0); everything else is written with a
      fraction or an exponent (1e6 ↦ "1e+06", 2^53 ↦ "9.007199254740992e+15", 0.1, 1e21, 1e-7) and is
      re-read as the same float64;
    * strings, booleans, nil, slices come back unchanged (strings that look like other scalars
      are quoted by the emitter) — EXCEPT the object key "<<", which is written unquoted and re-read
      as a merge key (known finding KF-C16-mergekey; outside the contract).
-/
import JdModel.Text

namespace Jd.Yaml
open Jd

/-- Go values (`interface{}`) as `NewJsonNode` may receive them. Go maps are association lists;
    a real Go map has pairwise distinct keys (the wire decoder of the driver keeps what it is given). -/
inductive Raw where
  | mapS (kvs : List (String × Raw))   -- map[string]interface{}       (encoding/json)
  | mapI (kvs : List (Raw × Raw))      -- map[interface{}]interface{}  (yaml.v2); keys may be non-strings
  | slice (xs : List Raw)              -- []interface{}
  | f64 (bits : UInt64)                -- float64
  | int (i : Int)                      -- int (64-bit)
  | int64 (i : Int)                    -- int64  (yaml.v2 on 32-bit platforms; API callers)
  | uint64 (n : Nat)                   -- uint64 (yaml.v2 for values above MaxInt64)
  | str (s : String)
  | bool (b : Bool)
  | nil
  | other (type : String)              -- any other dynamic type (time.Time, float32, []string, …)
  | node (j : Json)                    -- a value that already is a JsonNode
deriving Repr, Inhabited

/-- failure modes of `NewJsonNode` -/
inductive GlueErr where
  /-- the call returns an error ("unsupported type …", "unsupported key type …", "unsupported number …") -/
  | unsupported
  /-- the call returns NO error, but the result holds a nil `JsonNode` interface as an array element
      (the `[]interface{}` branch skips elements that already are JsonNodes and leaves the slot nil);
      any later use of the result panics -/
  | nilElem
deriving DecidableEq, Repr, Inhabited

abbrev Glue := Except GlueErr

/-- the exponent field is not all ones -/
def isFinite64 (b : UInt64) : Bool := (b >>> 52) &&& 0x7FF != 0x7FF

/-- `float64(n)` for a natural number below 2^64: round to nearest, ties to even -/
def natToF64Bits (n : Nat) : UInt64 :=
  if n == 0 then 0
  else
    let k := natLog2 n
    if k ≤ 52 then UInt64.ofNat ((1023 + k) * 2 ^ 52 + (n * 2 ^ (52 - k) - 2 ^ 52))
    else
      let sh := k - 52
      let q := n / 2 ^ sh
      let rem := n % 2 ^ sh
      let half := 2 ^ (sh - 1)
      let q' := if rem > half || (rem == half && q % 2 == 1) then q + 1 else q
      -- q' = 2^53 carries into the exponent field by plain addition
      UInt64.ofNat ((1023 + k) * 2 ^ 52 + (q' - 2 ^ 52))

/-- `jsonNumber(t)` for `t int`: Go's int → float64 conversion. Below 2^53 this is
    `intToFloatBits` of JdModel.Text (exact); above, round to nearest even. -/
def intToF64 (i : Int) : UInt64 :=
  if i.natAbs < 2 ^ 53 then intToFloatBits i
  else natToF64Bits i.natAbs ||| (if i < 0 then 0x8000000000000000 else 0)

/-- how two sub-results combine: Go visits every element / member unless an error returns early,
    and every error is "an error", so `unsupported` anywhere wins over a nil slot anywhere -/
def both {α β γ} (f : α → β → γ) : Glue α → Glue β → Glue γ
  | .ok a, .ok b => .ok (f a b)
  | .error .unsupported, _ => .error .unsupported
  | _, .error .unsupported => .error .unsupported
  | _, _ => .error .nilElem

/-- the type assertion `v.(JsonNode)` -/
def asNode? : Raw → Option Json
  | .node j => some j
  | _ => none

mutual
/-- `NewJsonNode` (v2/node.go) -/
def newJsonNodeM : Raw → Glue Json
  | .mapS kvs => (newMapS kvs).map .obj
  | .mapI kvs => (newMapI kvs).map .obj
  | .slice xs => (newSlice xs).map (.arr .raw)
  | .f64 b => if isFinite64 b then .ok (.num b) else .error .unsupported
  | .int i => .ok (.num (intToF64 i))
  | .str s => .ok (.str s)
  | .bool b => .ok (.bool b)
  | .nil => .ok .null
  | .int64 _ => .error .unsupported
  | .uint64 _ => .error .unsupported
  | .other _ => .error .unsupported
  | .node _ => .error .unsupported        -- no case for the node types themselves: `default`
/-- `map[string]interface{}`: a value that already is a JsonNode is stored as it is -/
def newMapS : List (String × Raw) → Glue (List (String × Json))
  | [] => .ok []
  | (k, v) :: r =>
    both (fun x m => ainsert k x m)
      (match asNode? v with
        | some j => .ok j
        | none => newJsonNodeM v)
      (newMapS r)
/-- `map[interface{}]interface{}`: non-string keys are rejected; a value that already is a
    JsonNode is NOT stored (the member is dropped) -/
def newMapI : List (Raw × Raw) → Glue (List (String × Json))
  | [] => .ok []
  | (key, v) :: r =>
    match key with
    | .str k =>
      match asNode? v with
      | some _ => newMapI r
      | none => both (fun x m => ainsert k x m) (newJsonNodeM v) (newMapI r)
    | _ => both (fun (_ : Unit) m => m) (.error .unsupported) (newMapI r)
/-- `[]interface{}`: an element that already is a JsonNode leaves a nil slot -/
def newSlice : List Raw → Glue (List Json)
  | [] => .ok []
  | x :: r =>
    match asNode? x with
    | some _ => both (fun (_ : Unit) l => l) (.error .nilElem) (newSlice r)
    | none => both (fun v l => v :: l) (newJsonNodeM x) (newSlice r)
end

mutual
/-- the structural translation of a normalised document to Go values (numbers float64, void ↦ "") -/
def rawOf : Json → Raw
  | .void => .str ""
  | .null => .nil
  | .bool b => .bool b
  | .num b => .f64 b
  | .str s => .str s
  | .arr _ xs => .slice (rawOfList xs)
  | .obj kvs => .mapS (rawOfKvs kvs)
def rawOfList : List Json → List Raw
  | [] => []
  | x :: r => rawOf x :: rawOfList r
def rawOfKvs : List (String × Json) → List (String × Raw)
  | [] => []
  | (k, v) :: r => (k, rawOf v) :: rawOfKvs r
end

/-- `raw()`: sets sorted / deduplicated as in `rawNorm` (JdModel.Text), then translated -/
def rawM (j : Json) : Raw := rawOf (rawNorm j)

/-- what yaml.v2 makes of a float64 (see the header) -/
def yamlizeNum (b : UInt64) : Raw :=
  match floatToInt? b with
  | some i => if i.natAbs < 10 ^ 6 then .int i else .f64 b
  | none => .f64 b

mutual
/-- CONTRACT for `yaml.Unmarshal ∘ yaml.Marshal` on the values `rawM` produces -/
def yamlize : Raw → Raw
  | .mapS kvs => .mapI (yamlizeKvs kvs)
  | .slice xs => .slice (yamlizeList xs)
  | .f64 b => yamlizeNum b
  | r => r
def yamlizeList : List Raw → List Raw
  | [] => []
  | x :: r => yamlize x :: yamlizeList r
def yamlizeKvs : List (String × Raw) → List (Raw × Raw)
  | [] => []
  | (k, v) :: r => (.str k, yamlize v) :: yamlizeKvs r
end

/-- `ReadYamlString(n.Yaml())` through the contract -/
def yamlRoundTripM (j : Json) : Glue Json := newJsonNodeM (yamlize (rawM j))

/-- `ReadJsonString(n.Json())` on the level of Go values (encoding/json returns `raw()` unchanged) -/
def jsonRoundTripM (j : Json) : Glue Json := newJsonNodeM (rawM j)

/-- `unmarshal` (node_read.go) given what the decoder did: text that is blank after
    `strings.TrimSpace` is the void document (the decoder is not called); a decoder error is an error;
    otherwise `NewJsonNode` of the decoded value -/
def unmarshalM (blank : Bool) (decoded : Option Raw) : Glue Json :=
  if blank then .ok .void
  else match decoded with
    | none => .error .unsupported
    | some r => newJsonNodeM r

/-! ### class predicates of the known findings of C16 -/

mutual
/-- some object key equals "<<" (KF-C16-mergekey) -/
def hasMergeKey : Json → Bool
  | .arr _ xs => hasMergeKeyList xs
  | .obj kvs => hasMergeKeyKvs kvs
  | _ => false
def hasMergeKeyList : List Json → Bool
  | [] => false
  | x :: r => hasMergeKey x || hasMergeKeyList r
def hasMergeKeyKvs : List (String × Json) → Bool
  | [] => false
  | (k, v) :: r => k == "<<" || hasMergeKey v || hasMergeKeyKvs r
end

mutual
/-- no void node anywhere (void is not a JSON value: `raw()` turns it into the string "") -/
def voidFree : Json → Bool
  | .void => false
  | .arr _ xs => voidFreeList xs
  | .obj kvs => voidFreeKvs kvs
  | _ => true
def voidFreeList : List Json → Bool
  | [] => true
  | x :: r => voidFree x && voidFreeList r
def voidFreeKvs : List (String × Json) → Bool
  | [] => true
  | (_, v) :: r => voidFree v && voidFreeKvs r
end

mutual
/-- every number is finite -/
def finite : Json → Bool
  | .num b => isFinite64 b
  | .arr _ xs => finiteList xs
  | .obj kvs => finiteKvs kvs
  | _ => true
def finiteList : List Json → Bool
  | [] => true
  | x :: r => finite x && finiteList r
def finiteKvs : List (String × Json) → Bool
  | [] => true
  | (_, v) :: r => finite v && finiteKvs r
end

mutual
/-- no number is -0 (yaml.v2 writes "-0" and re-reads it as the int 0) -/
def noNegZero : Json → Bool
  | .num b => b != 0x8000000000000000
  | .arr _ xs => noNegZeroList xs
  | .obj kvs => noNegZeroKvs kvs
  | _ => true
def noNegZeroList : List Json → Bool
  | [] => true
  | x :: r => noNegZero x && noNegZeroList r
def noNegZeroKvs : List (String × Json) → Bool
  | [] => true
  | (_, v) :: r => noNegZero v && noNegZeroKvs r
end

end Jd.Yaml
