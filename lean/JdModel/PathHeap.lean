/-
  JdModel.PathHeap — an IMPERATIVE model of how the Go code builds and stores diff paths.

  Everywhere else the model is purely functional: a `Path` is a value.  The Go code passes `Path`
  SLICES down the diff recursion (`append(path, PathKey(k))`), stores them in the `DiffElement`s it
  returns (`Path: append(path, PathKey(k)).clone()`) and, in the renderers, edits copies of the paths of
  the caller's diff in place (`nextPath := element.Path.clone(); nextPath[len-1] = …`).  `append`
  writes into the shared backing array whenever there is spare capacity, so a stored path that is not
  a copy is overwritten by the next sibling (the defect class of six seeded changes and of D11/D12).

  This file models exactly that: Go slices over a heap of backing arrays, `append` with in-place
  growth, `clone`, `drop`, index assignment; path EXPRESSIONS as they occur in the source; and
  PROGRAMS = arbitrary sequences / nestings of the three things the code does with a path expression
  (store it in a result, pass it to a callee, assign to one of its slots).  `JdProofs/PathHeapProofs.lean`
  proves that a program all of whose expressions obey the discipline `fresh`/`safe` behaves as the
  functional model says, for every growth policy; `JdModel/Gen/PathSites.lean` (regenerated from the
  Go source by tools/pathfacts on every run) lists the expression at every such site of the source, and
  `JdProofs/PathSites.lean` checks the discipline on that table.
-/
import JdModel.Basic

namespace Jd.PathHeap
open Jd

/-- a Go slice of path elements: backing array, length, capacity (the offset is always 0: the code
    never reslices a path from the left while building it) -/
structure Slice where
  arr : Nat
  len : Nat
  cap : Nat
deriving Repr, DecidableEq, Inhabited

/-- the heap: backing arrays by id (position in the list). An array is the list of its `cap` slots. -/
abbrev Heap := List (List PathElem)

/-- `p` as the program sees it: the first `len` slots of its backing array -/
def read (h : Heap) (s : Slice) : Path := (h.getD s.arr []).take s.len

/-- allocate a backing array (`make`) -/
def alloc (h : Heap) (slots : List PathElem) : Heap × Nat := (h ++ [slots], h.length)

/-- `a[i] = x` on backing array `arr` (no effect out of range: the callers guard the index) -/
def writeAt (h : Heap) (arr i : Nat) (x : PathElem) : Heap :=
  h.modify arr (fun a => a.set i x)

/-- padding value of unused capacity (never observable through `read`) -/
def pad : PathElem := .idx 0

/-- `append(s, x)` under a growth policy `grow` (new capacity when the slice is full; Go's policy is
    a parameter: the theorems hold for every policy that makes room) -/
def goAppend (grow : Nat → Nat) (h : Heap) (s : Slice) (x : PathElem) : Heap × Slice :=
  if s.len < s.cap then
    (writeAt h s.arr s.len x, { s with len := s.len + 1 })
  else
    let cap' := max (grow s.cap) (s.len + 1)
    let slots := read h s ++ [x] ++ List.replicate (cap' - (s.len + 1)) pad
    let (h', id) := alloc h slots
    (h', { arr := id, len := s.len + 1, cap := cap' })

/-- `p.clone()`: `make(Path, len(p))` and copy -/
def goClone (h : Heap) (s : Slice) : Heap × Slice :=
  let (h', id) := alloc h (read h s)
  (h', { arr := id, len := s.len, cap := s.len })

/-- `p.drop()`: `p[:len(p)-1]` (the same backing array) -/
def goDrop (s : Slice) : Slice :=
  if s.len > 0 then { s with len := s.len - 1 } else s

/-- path expressions of the source, over the function's own path parameter -/
inductive PExpr where
  | param                                  -- the `path` / `p` parameter (or a path owned by the caller)
  | append (e : PExpr) (x : PathElem)      -- append(e, x)
  | clone (e : PExpr)                      -- e.clone()  (or any helper all of whose returns are fresh)
  | drop (e : PExpr)                       -- e.drop()
deriving Repr, Inhabited

/-- the functional meaning of an expression (what the functional model computes) -/
def PExpr.val (p : Path) : PExpr → Path
  | .param => p
  | .append e x => e.val p ++ [x]
  | .clone e => e.val p
  | .drop e => (e.val p).dropLast

/-- heap evaluation of an expression in a frame whose parameter is the slice `s` -/
def PExpr.eval (grow : Nat → Nat) (s : Slice) : PExpr → Heap → Heap × Slice
  | .param, h => (h, s)
  | .append e x, h =>
    let (h1, s1) := e.eval grow s h
    goAppend grow h1 s1 x
  | .clone e, h =>
    let (h1, s1) := e.eval grow s h
    goClone h1 s1
  | .drop e, h =>
    let (h1, s1) := e.eval grow s h
    (h1, goDrop s1)

/-- the result of the expression never shares its backing array with the parameter (or with anything
    that existed before): it is, or is built on, a copy -/
def PExpr.fresh : PExpr → Bool
  | .param => false
  | .append e _ => e.fresh
  | .clone _ => true
  | .drop e => e.fresh

/-- evaluating the expression never writes a slot the frame (or a caller) can still read: appends to the
    parameter only write at or behind its length; `drop` followed by `append` is allowed on copies only -/
def PExpr.safe : PExpr → Bool
  | .param => true
  | .append e _ => e.safe
  | .clone e => e.safe
  | .drop e => e.fresh && e.safe

/-- what a function body does with path expressions, in any order and nesting -/
inductive Act where
  | store (e : PExpr)                       -- `DiffElement{Path: e, …}` appended to the result
  | call (e : PExpr) (body : List Act)      -- `callee(e, …)`: the callee's parameter is the value of `e`
  | write (e : PExpr) (i : Nat) (x : PathElem)   -- `q := e; q[i] = x` (a renderer editing a path)

mutual
/-- the functional meaning of a program: the paths stored in the result, in order -/
def Act.vals (p : Path) : Act → List Path
  | .store e => [e.val p]
  | .call e body => Act.valsL (e.val p) body
  | .write _ _ _ => []
def Act.valsL (p : Path) : List Act → List Path
  | [] => []
  | a :: r => a.vals p ++ Act.valsL p r
end

mutual
/-- heap execution: the heap afterwards and the slices stored in the result, in order -/
def Act.run (grow : Nat → Nat) (s : Slice) : Act → Heap → Heap × List Slice
  | .store e, h =>
    let (h1, s1) := e.eval grow s h
    (h1, [s1])
  | .call e body, h =>
    let (h1, s1) := e.eval grow s h
    Act.runL grow s1 body h1
  | .write e i x, h =>
    let (h1, s1) := e.eval grow s h
    (if i < s1.len then writeAt h1 s1.arr i x else h1, [])
def Act.runL (grow : Nat → Nat) (s : Slice) : List Act → Heap → Heap × List Slice
  | [], h => (h, [])
  | a :: r, h =>
    let (h1, out1) := a.run grow s h
    let (h2, out2) := Act.runL grow s r h1
    (h2, out1 ++ out2)
end

mutual
/-- the discipline: what is stored or edited in place is a copy; nothing evaluates an unsafe expression -/
def Act.ok : Act → Bool
  | .store e => e.fresh && e.safe
  | .call e body => e.safe && Act.okL body
  | .write e _ _ => e.fresh && e.safe
def Act.okL : List Act → Bool
  | [] => true
  | a :: r => a.ok && Act.okL r
end

/-- the slice is backed by the heap: its array exists and has at least `cap ≥ len` slots -/
def Slice.valid (h : Heap) (s : Slice) : Prop :=
  s.arr < h.length ∧ s.len ≤ s.cap ∧ s.cap ≤ (h.getD s.arr []).length

/-- Go's growth for small slices (doubling from 1), used by the counter-witnesses -/
def growDouble (c : Nat) : Nat := if c = 0 then 1 else 2 * c

/-! ### symbolic expressions: the shape of a source expression, elements abstracted away
    (what tools/pathfacts extracts from the Go source) -/

inductive SExpr where
  | param
  | append (e : SExpr)
  | clone (e : SExpr)
  | drop (e : SExpr)
deriving Repr, DecidableEq, Inhabited

def PExpr.shape : PExpr → SExpr
  | .param => .param
  | .append e _ => .append e.shape
  | .clone e => .clone e.shape
  | .drop e => .drop e.shape

def SExpr.fresh : SExpr → Bool
  | .param => false
  | .append e => e.fresh
  | .clone _ => true
  | .drop e => e.fresh

def SExpr.safe : SExpr → Bool
  | .param => true
  | .append e => e.safe
  | .clone e => e.safe
  | .drop e => e.fresh && e.safe

/-- kind of a site in the source -/
inductive SiteKind where
  | store   -- the expression is stored in a returned DiffElement
  | call    -- the expression is passed to a callee as its path parameter
  | write   -- a slot of the expression's value is assigned
deriving Repr, DecidableEq, Inhabited

def siteOk (k : SiteKind) (e : SExpr) : Bool :=
  match k with
  | .store => e.fresh && e.safe
  | .call => e.safe
  | .write => e.fresh && e.safe

end Jd.PathHeap
