/-
  JdModel.PatchFmt — JSON Patch (RFC 6902) rendering and reading: `Diff.RenderPatch`
  (diff_write.go) and `ReadPatchString` (diff_read.go: readPatchDiffElement,
  setPatchDiffElementContext, coalescing).
-/
import JdModel.Pointer
import JdModel.Equals

namespace Jd

/-- `patchElement` -/
structure PatchOp where
  op : String
  path : String
  value : Json
deriving Repr, Inhabited

def lastIdx? (p : Path) : Option Int :=
  match p.getLast? with
  | some (.idx i) => some i
  | _ => none

def setLastIdx (p : Path) (i : Int) : Path := p.dropLast ++ [.idx i]

/-- ops of one diff element -/
def renderPatchHunk (h : Hunk) : Outcome (List PatchOp) := do
  let path ← writePointerPath h.path
  if h.remove.isEmpty && h.add.isEmpty then .err else
  if h.before.length > 1 then .err else
  let beforeOps : List PatchOp ←
    (match h.before with
     | [b] =>
       if b.isVoid then (pure [] : Outcome (List PatchOp))
       else if h.path.isEmpty then .err
       else match lastIdx? h.path with
         | none => .err
         | some i => do
           let pp ← writePointerPath (setLastIdx h.path (i - 1))
           pure [{ op := "test", path := pp, value := b }]
     | _ => pure [])
  if h.after.length > 1 then .err else
  let afterOps : List PatchOp ←
    (match h.after with
     | [a] =>
       if a.isVoid then (pure [] : Outcome (List PatchOp))
       else if h.path.isEmpty then .err
       else match lastIdx? h.path with
         | none => .err
         | some i => do
           let np ← writePointerPath (setLastIdx h.path (i + (h.remove.length : Int)))
           pure [{ op := "test", path := np, value := a }]
     | _ => pure [])
  let remOps : List PatchOp :=
    match h.remove with
    | [] => []
    | r0 :: _ =>
      if r0.isVoid then []
      else h.remove.flatMap (fun e => [{ op := "test", path := path, value := e }, { op := "remove", path := path, value := e }])
  let addOps : List PatchOp :=
    match h.add with
    | [] => []
    | a0 :: _ =>
      if a0.isVoid then []
      else h.add.reverse.map (fun e => { op := "add", path := path, value := e })
  pure (beforeOps ++ afterOps ++ remOps ++ addOps)

def renderPatchOps : Diff → Outcome (List PatchOp)
  | [] => .ok []
  | h :: d => do
    let a ← renderPatchHunk h
    let b ← renderPatchOps d
    pure (a ++ b)

def patchOpText (nc : NumCodec) (p : PatchOp) : Option String :=
  (marshalNode nc p.value).map (fun v =>
    "{\"op\":" ++ quoteString p.op ++ ",\"path\":" ++ quoteString p.path ++ ",\"value\":" ++ v ++ "}")

/-- `Diff.RenderPatch()`: `none` = a number the codec cannot print -/
def renderPatchM (nc : NumCodec) (d : Diff) : Outcome (Option String) :=
  if d.isEmpty then .ok (some "[]")
  else match renderPatchOps d with
    | .ok ops => .ok ((optAll (ops.map (patchOpText nc))).map (fun l => "[" ++ String.intercalate "," l ++ "]"))
    | .err => .err
    | .panic => .panic

/-! ### reading -/

/-- `readPatchElements(s)` (diff_read.go, after the fix of D31) on the parsed document:
    `json.Unmarshal` into `[]map[string]json.RawMessage`, then `op`, `path`, `value` taken from every map
    by their EXACT names. Rejected: a document that is not an array (`null` included), an element
    that is not an object (`null` included), a missing or non-string `op` / `path`, a missing `value`
    on `add` and `test` (a `value` member holding null is a value; an op other than add/test without
    `value` gets null, as jd's own `remove` needs none). Other members are ignored. A member name
    occurring twice: the parsed object keeps one entry per name, the last one (`parseJson`, as
    encoding/json does for maps). -/
def patchOpsOfJson : Json → Outcome (List PatchOp)
  | .arr _ xs => go xs
  | _ => .err
where
  strField (kvs : List (String × Json)) (k : String) : Outcome String :=
    match alookup k kvs with
    | some (.str s) => .ok s
    | _ => .err
  valueField (kvs : List (String × Json)) (op : String) : Outcome Json :=
    match alookup "value" kvs with
    | some v => .ok v
    | none => if op == "add" || op == "test" then .err else .ok .null
  go : List Json → Outcome (List PatchOp)
    | [] => .ok []
    | .obj kvs :: r => do
      let op ← strField kvs "op"
      let path ← strField kvs "path"
      let value ← valueField kvs op
      let rest ← go r
      pure ({ op, path, value } :: rest)
    | _ :: _ => .err

def lastIdxOfPointer (s : String) : Outcome (Option Int) :=
  match readPointer s with
  | .ok p => .ok (lastIdx? p)
  | .err => .err
  | .panic => .panic

/-- result of `setPatchDiffElementContext`: (before, after, remaining patch) where `none` context
    means the field was left untouched (nil) -/
structure CtxRes where
  before : Option (List Json)
  after : Option (List Json)
  rest : List PatchOp

/-- `setPatchDiffElementContext(patch, &d)` for a patch whose first op is a test -/
def setPatchCtx (patch : List PatchOp) : Outcome CtxRes :=
  let boundary : CtxRes := { before := some [.void], after := some [.void], rest := patch }
  let untouched : CtxRes := { before := none, after := none, rest := patch }
  match patch with
  | [] => .err
  | [_] => .ok boundary
  | p0 :: p1 :: tail =>
    if p0.op != "test" then .ok boundary else
    match lastIdxOfPointer p0.path with
    | .err => .err
    | .panic => .panic
    | .ok none => .ok untouched
    | .ok (some first) =>
      match lastIdxOfPointer p1.path with
      | .err => .err
      | .panic => .panic
      | .ok none => .ok untouched
      | .ok (some second) =>
        if first == second && (p1.op == "replace" || p1.op == "remove") then .ok boundary
        else if first == second && p1.op == "add" then
          .ok { before := some [.void], after := some [p0.value], rest := p1 :: tail }
        else if first == second - 1 && p1.op == "add" then
          .ok { before := some [p0.value], after := some [.void], rest := p1 :: tail }
        else
          match tail with
          | [] => .ok untouched
          | p2 :: _ =>
            match readPointer p2.path with
            | .err => .err
            | .panic => .panic
            | .ok path2 =>
              if path2.isEmpty then .err
              else match lastIdx? path2 with
                | none => .err
                | some third =>
                  if (p2.op == "test" || p2.op == "add") && third ≤ second then
                    .ok { before := some [p0.value], after := some [p1.value], rest := p1 :: tail |>.drop 1 }
                  else if p1.op == "test" && (p2.op == "replace" || p2.op == "remove") && first > second then
                    .ok { before := some [.void], after := some [p0.value], rest := p1 :: tail }
                  else if p1.op == "test" && (p2.op == "replace" || p2.op == "remove") && first < second then
                    .ok { before := some [p0.value], after := some [.void], rest := p1 :: tail }
                  else .ok untouched

/-- `readPatchDiffElement(patch)`: one diff element and the remaining ops -/
def readPatchHunk (patch : List PatchOp) : Outcome (Hunk × List PatchOp) :=
  match patch with
  | [] => .err
  | p :: _ =>
    let ctx : Outcome CtxRes :=
      if p.op == "test" then setPatchCtx patch
      else .ok { before := none, after := none, rest := patch }
    match ctx with
    | .err => .err
    | .panic => .panic
    | .ok c =>
      match c.rest with
      | [] => .err
      | q :: rest =>
        let before := c.before.getD []
        let after := c.after.getD []
        if q.op == "test" then
          match readPointer q.path with
          | .ok path =>
            (match rest with
             | [] => .err
             | r1 :: rest2 =>
               if r1.op != "remove" then .err
               else if r1.path != q.path then .err
               else if !(equals [] q.value r1.value) then .err
               else .ok ({ path := path, before := before, after := after, remove := [q.value] }, rest2))
          | .err => .err
          | .panic => .panic
        else if q.op == "add" then
          match readPointer q.path with
          | .ok path =>
            -- an append ("-") cannot carry context tests
            if lastIdx? path == some (-1) && (before.any (fun n => !n.isVoid) || after.any (fun n => !n.isVoid)) then .err
            else .ok ({ path := path, before := before, after := after, add := [q.value] }, rest)
          | .err => .err
          | .panic => .panic
        else .err

/-- `hasContext(e)` (non-boundary before or after context) -/
def hasContext (h : Hunk) : Bool :=
  h.before.any (fun n => !n.isVoid) || h.after.any (fun n => !n.isVoid)

/-- the element loop of `ReadPatchString` with coalescing of consecutive elements on equal paths -/
def readPatchLoop : (fuel : Nat) → List PatchOp → Diff → Outcome Diff
  | 0, _, _ => .err
  | fuel + 1, patch, acc =>
    match patch with
    | [] => .ok acc
    | _ =>
      match readPatchHunk patch with
      | .err => .err
      | .panic => .panic
      | .ok (e, rest) =>
        let acc' :=
          match acc.getLast? with
          | none => [e]
          | some last =>
            if equals [] (pathToJson last.path) (pathToJson e.path) && !(hasContext e) &&
               !(!e.remove.isEmpty && !last.add.isEmpty) then
              acc.dropLast ++ [{ last with remove := last.remove ++ e.remove,
                                           add := if lastIdx? e.path == some (-1) then last.add ++ e.add else e.add ++ last.add }]
            else acc ++ [e]
        readPatchLoop fuel rest acc'

/-! ### the tests read as context are absolute: they must address the neighbours of the edit -/

/-- `patchContext`: the ops which were taken as the before / after context of a diff element -/
structure PatchCtx where
  before : Option PatchOp := none
  after : Option PatchOp := none

/-- the ops `setPatchDiffElementContext` consumed in front of the element read from `patch`, as
    `readPatchDiffElement` remembers them: `all[:len(all)-len(patch)]`, two = before and after, one =
    before when the element's Before is a value, else after -/
def ctxOf (patch : List PatchOp) : PatchCtx :=
  match patch with
  | [] => {}
  | p :: _ =>
    if p.op == "test" then
      match setPatchCtx patch with
      | .ok c =>
        let used := patch.take (patch.length - c.rest.length)
        (match used with
         | [u0, u1] => { before := some u0, after := some u1 }
         | [u0] =>
           (match c.before with
            | some [b] => if !b.isVoid then { before := some u0 } else { after := some u0 }
            | _ => { after := some u0 })
         | _ => {})
      | _ => {}
    else {}

/-- `check(test, offset)` of `checkPatchContext`: a `test` op whose pointer is the element's path with
    its last index moved by `offset`, the element's index not being negative -/
def ctxTestOK (h : Hunk) (t : PatchOp) (offset : Int) : Outcome Bool :=
  match readPointer t.path with
  | .err => .err
  | .panic => .panic
  | .ok p =>
    .ok (t.op == "test" && !p.isEmpty && p.length == h.path.length &&
      (match lastIdx? p, lastIdx? h.path with
       | some i, some j => decide (j ≥ 0) && i == j + offset &&
           equals [] (pathToJson p.dropLast) (pathToJson h.path.dropLast)
       | _, _ => false))

/-- `checkPatchContext(e, c)` -/
def checkPatchCtx (h : Hunk) (c : PatchCtx) : Outcome Unit :=
  let one (t : Option PatchOp) (offset : Int) : Outcome Unit :=
    match t with
    | none => .ok ()
    | some t =>
      match ctxTestOK h t offset with
      | .ok true => .ok ()
      | .ok false => .err
      | .err => .err
      | .panic => .panic
  match one c.before (-1) with
  | .ok () => one c.after h.remove.length
  | e => e

/-- the element loop of `ReadPatchString` once more, keeping for every diff element the context ops of
    the FIRST element coalesced into it (a coalesced element never has context) -/
def readPatchCtxLoop : (fuel : Nat) → List PatchOp → Diff → List PatchCtx → Outcome (List PatchCtx)
  | 0, _, _, _ => .err
  | fuel + 1, patch, acc, cs =>
    match patch with
    | [] => .ok cs
    | _ =>
      match readPatchHunk patch with
      | .err => .err
      | .panic => .panic
      | .ok (e, rest) =>
        match acc.getLast? with
        | none => readPatchCtxLoop fuel rest [e] (cs ++ [ctxOf patch])
        | some last =>
          if equals [] (pathToJson last.path) (pathToJson e.path) && !(hasContext e) &&
             !(!e.remove.isEmpty && !last.add.isEmpty) then
            readPatchCtxLoop fuel rest
              (acc.dropLast ++ [{ last with remove := last.remove ++ e.remove,
                                            add := if lastIdx? e.path == some (-1) then last.add ++ e.add else e.add ++ last.add }]) cs
          else readPatchCtxLoop fuel rest (acc ++ [e]) (cs ++ [ctxOf patch])

/-- all elements pass `checkPatchContext`, in order -/
def checkPatchCtxs : Diff → List PatchCtx → Outcome Unit
  | h :: d, c :: cs =>
    (match checkPatchCtx h c with
     | .ok () => checkPatchCtxs d cs
     | e => e)
  | _, _ => .ok ()

/-- `ReadPatchString` on the op list: the element loop, then the context check -/
def readPatchOps (ops : List PatchOp) : Outcome Diff :=
  match readPatchLoop (ops.length + 1) ops [] with
  | .ok d =>
    (match readPatchCtxLoop (ops.length + 1) ops [] [] with
     | .ok cs =>
       (match checkPatchCtxs d cs with
        | .ok () => .ok d
        | .err => .err
        | .panic => .panic)
     | .err => .err
     | .panic => .panic)
  | .err => .err
  | .panic => .panic

/-- `ReadPatchString` on the parsed JSON document of the patch text -/
def readPatchDoc (doc : Json) : Outcome Diff :=
  match patchOpsOfJson doc with
  | .ok ops => readPatchOps ops
  | .err => .err
  | .panic => .panic

/-- `ReadPatchString(s)` -/
def readPatchM (nc : NumCodec) (s : String) : Outcome Diff :=
  match parseJson nc s with
  | some doc => readPatchDoc doc
  | none => .err

end Jd
