/-
  JdModel.Pointer — JSON Pointer (RFC 6901) glue of pointer.go: `writePointer`, `readPointer`,
  and the three string functions of github.com/go-openapi/jsonpointer it uses.
-/
import JdModel.Native

namespace Jd

/-- `strings.ReplaceAll` for a one-character pattern -/
def replaceChar (c : Char) (by_ : String) (s : String) : String :=
  String.join (s.toList.map (fun x => if x == c then by_ else String.singleton x))

/-- `jsonpointer.Escape`: `~` → `~0`, then `/` → `~1` -/
def ptrEscape (s : String) : String := replaceChar '/' "~1" (replaceChar '~' "~0" s)

/-- `jsonpointer.Unescape`: `~1` → `/`, then `~0` → `~` (two passes, in that order) -/
def ptrUnescape (s : String) : String :=
  String.ofList (pass '0' '~' (pass '1' '/' s.toList))
where
  pass (d : Char) (r : Char) : List Char → List Char
    | '~' :: x :: t => if x == d then r :: pass d r t else '~' :: pass d r (x :: t)
    | c :: t => c :: pass d r t
    | [] => []

/-- `strconv.Atoi` succeeds: optional sign, at least one digit, only digits, fits in int64 -/
def atoi? (s : String) : Option Int :=
  let cs := s.toList
  let (neg, ds) := match cs with
    | '-' :: r => (true, r)
    | '+' :: r => (false, r)
    | r => (false, r)
  if ds.isEmpty || !(ds.all isDigit) then none
  else
    let n : Nat := ds.foldl (fun (acc : Nat) c => acc * 10 + (c.toNat - 48)) 0
    if neg then (if n ≤ 2 ^ 63 then some (-(n : Int)) else none)
    else (if n < 2 ^ 63 then some (n : Int) else none)

/-- `writePointer(path []JsonNode)` on the JSON form of a path -/
def writePointer : List Json → Outcome String
  | [] => .ok ""
  | e :: r =>
    let tok : Outcome String :=
      match e with
      | .num b =>
        let i := floatTrunc b
        if i == -1 then .ok "-" else .ok (ptrEscape (toString i))
      | .str s =>
        if (atoi? s).isSome then .err
        else if s == "-" then .err
        else .ok (ptrEscape s)
      | _ => .err
    match tok with
    | .ok t => (match writePointer r with | .ok rest => .ok ("/" ++ t ++ rest) | e' => e')
    | .err => .err
    | .panic => .panic

def writePointerPath (p : Path) : Outcome String :=
  match pathToJson p with
  | .arr _ xs => writePointer xs
  | _ => .err

/-- `checkPointerEscapes(s)` succeeds: every `~` is followed by `0` or `1` (RFC 6901 section 3).
    The Go loop runs over bytes; `~`, `0`, `1` are ASCII and never occur inside a multi-byte UTF-8
    sequence, so running over characters is the same -/
def escapesOK : List Char → Bool
  | [] => true
  | '~' :: r =>
    (match r with
     | x :: _ => (x == '0' || x == '1') && escapesOK r
     | [] => false)
  | _ :: r => escapesOK r

/-- the token is an array index in the sense of RFC 6901 section 4 (`0`, or digits without a
    leading zero) that fits in an `int`: `strconv.Atoi(t)` succeeds with `number ≥ 0` and
    `strconv.Itoa(number) == t` -/
def indexToken? (t : String) : Option Int :=
  match atoi? t with
  | some i => if 0 ≤ i && toString i == t then some i else none
  | none => none

/-- `readPointer(s)` (after the repair D30: only a canonical index token is an index, every other
    token — `01`, `+1`, `-1`, `-0` — names a member; `-` alone is the append index; a `~` that is
    not followed by `0` or `1` is an error) -/
def readPointer (s : String) : Outcome Path :=
  if s == "" then newPathM (.arr .raw [])
  else if !(s.startsWith "/") then .err
  else if !(escapesOK s.toList) then .err
  else
    let toks := ((s.splitOn "/").drop 1).map ptrUnescape
    newPathM (.arr .raw (toks.map (fun t =>
      match indexToken? t with
      | some i => .num (intToFloatBits i)
      | none => if t == "-" then .num (intToFloatBits (-1)) else .str t)))

end Jd
