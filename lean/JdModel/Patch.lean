/-
  JdModel.Patch — `n.Patch(d)` of the v2 library:
  patch_common.go (patchAll, patch), list.go / object.go / set.go / multiset.go / array.go (patch).

  Every Go operation that can panic (slice indexing) is an explicit partial operation returning
  `.panic` out of range, guarded in the model exactly where the Go code guards it, so that
  "Patch never panics" is a theorem with content (C13).

  `sw` (swallow) selects the behaviour of set.go for a keyed member whose nested patch fails:
  `true` is what the code does (the nested result and error are discarded: known finding
  KF-C08-swallow), `false` propagates the error (the reference behaviour of property C08).
-/
import JdModel.Equals
import JdModel.Diff

namespace Jd

/-- `Path.isLeaf` -/
def Path.isLeaf : Path → Bool
  | [] => true
  | [.set] | [.mset] | [.setKeys _] | [.msetKeys _] => true
  | _ => false

/-- options returned by `Path.next()` for the first element (nil when the path is empty) -/
def pathMeta : Path → Opts
  | .set :: _ => [.set]
  | .setKeys _ :: _ => [.set]
  | .mset :: _ => [.mset]
  | .msetKeys _ :: _ => [.mset]
  | _ => []

/-- `l[i]` -/
def idxP (l : List Json) (i : Int) : Outcome Json :=
  if i < 0 then .panic
  else match l[i.toNat]? with
    | some x => .ok x
    | none => .panic

/-- `append(l[:i], l[i+1:]...)` -/
def removeAtP (l : List Json) (i : Int) : Outcome (List Json) :=
  if i < 0 || i.toNat ≥ l.length then .panic else .ok (l.eraseIdx i.toNat)

/-- `l[i] = v` -/
def setAtP (l : List Json) (i : Int) (v : Json) : Outcome (List Json) :=
  if i < 0 || i.toNat ≥ l.length then .panic else .ok (l.set i.toNat v)

/-- `make(jsonList, i); copy(l2, l[:i]); append(l2, add...); append(l2, l[i:]...)` -/
def spliceP (l : List Json) (i : Int) (add : List Json) : Outcome (List Json) :=
  if i < 0 || i.toNat > l.length then .panic
  else .ok (l.take i.toNat ++ add ++ l.drop i.toNat)

/-- before-context loop of jsonList.patch; `j` counts from 0, `n = len(before)` -/
def checkBefore (l : List Json) (i : Int) (n : Nat) : (j : Nat) → List Json → Outcome Unit
  | _, [] => .ok ()
  | j, b :: r =>
    let bIndex : Int := i - ((n : Int) - (j : Int))
    if bIndex < 0 then
      if bIndex == -1 && b.isVoid then checkBefore l i n (j + 1) r else .err
    else do
      let x ← idxP l bIndex
      if equals [] b x then checkBefore l i n (j + 1) r else .err

/-- remove loop of jsonList.patch -/
def removeLoop (l : List Json) (i : Int) : List Json → Outcome (List Json)
  | [] => .ok l
  | r :: rs =>
    if i > (l.length : Int) - 1 then .err
    else do
      let x ← idxP l i
      if equals [] x r then do
        let l' ← removeAtP l i
        removeLoop l' i rs
      else .err

/-- after-context loop of jsonList.patch (on the list after the removals) -/
def checkAfter (l : List Json) (i : Int) : (j : Nat) → List Json → Outcome Unit
  | _, [] => .ok ()
  | j, a :: r =>
    let aIndex : Int := i + (j : Int)
    if aIndex > (l.length : Int) - 1 then
      if aIndex == (l.length : Int) && a.isVoid then checkAfter l i (j + 1) r else .err
    else do
      let x ← idxP l aIndex
      if equals [] a x then checkAfter l i (j + 1) r else .err

/-- leaf case of jsonList.patch: edit the list at index `i` -/
def patchListLeaf (l : List Json) (i : Int) (before remove add after : List Json) : Outcome Json :=
  if i == -1 then
    if remove.length > 0 then .err else .ok (.arr .list (l ++ add))
  else if i < 0 || i > (l.length : Int) then .err
  else do
    checkBefore l i before.length 0 before
    let l' ← removeLoop l i remove
    let l2 ← spliceP l' i add
    checkAfter l' i 0 after
    pure (.arr .list l2)

/-- map keyed by hash code, insertion order irrelevant (sorted at the end) -/
def hmapSet (h : UInt64) (v : Json) : List (UInt64 × Json) → List (UInt64 × Json)
  | [] => [(h, v)]
  | (h', v') :: r => if h == h' then (h, v) :: r else (h', v') :: hmapSet h v r

def hmapGet (h : UInt64) : List (UInt64 × Json) → Option Json
  | [] => none
  | (h', v') :: r => if h == h' then some v' else hmapGet h r

def hmapErase (h : UInt64) : List (UInt64 × Json) → List (UInt64 × Json)
  | [] => []
  | (h', v') :: r => if h == h' then r else (h', v') :: hmapErase h r

/-- removal loop of jsonSet.patch -/
def setRemoveLoop (m : Opts) : List (UInt64 × Json) → List Json → Outcome (List (UInt64 × Json))
  | amap, [] => .ok amap
  | amap, v :: r =>
    let hc := identOf m v
    match hmapGet hc amap with
    | none => .err
    | some toDelete =>
      if equals m toDelete v then setRemoveLoop m (hmapErase hc amap) r else .err

/-- leaf case of jsonSet.patch (path element `{}`) -/
def patchSetLeaf (m : Opts) (s remove add : List Json) : Outcome Json := do
  let amap := s.foldl (fun acc v => hmapSet (identOf m v) v acc) []
  let amap ← setRemoveLoop m amap remove
  let amap := add.foldl (fun acc v => hmapSet (identOf m v) v acc) amap
  pure (.arr .set ((ksort amap).map (·.2)))

/-- leaf case of jsonMultiset.patch (path element `[]`) -/
def patchMsetLeaf (m : Opts) (a remove add : List Json) : Outcome Json :=
  let ah := hashList m a
  let rh := hashList m remove
  let nh := hashList m add
  if (hdedup (ah ++ rh)).any (fun h => countOcc h ah < countOcc h rh) then .err
  else
    let all := a ++ remove ++ add
    let hs := hsort ((hdedup (ah ++ rh ++ nh)).flatMap (fun h =>
      List.replicate (countOcc h ah - countOcc h rh + countOcc h nh) h))
    .ok (.arr .mset (hs.filterMap (fun h => hashLookup m h all)))

/-- `patch(node, …)` of patch_common.go: in merge mode a non-leaf path creates nested objects;
    recursion is on the path only (the node is passed along unchanged) -/
def patchFresh (merge : Bool) (n : Json) : (pa : Path) → (before remove add after : List Json) → Outcome Json
  | pa, before, remove, add, after =>
    if pa.isLeaf then
      if !pa.isEmpty && !merge then .err   -- a set / multiset element addressed to a non-array
      else if remove.length > 1 || add.length > 1 then .err
      else if merge then
        (if (Json.singleValue remove).isVoid then .ok (Json.singleValue add) else .err)
      else if equals [] n (Json.singleValue remove) then .ok (Json.singleValue add)
      else .err
    else if !merge then .err
    else match pa with
      | .key k :: rest =>
        match patchFresh merge n rest before remove add after with
        | .ok v => if !v.isVoid || !rest.isEmpty then .ok (.obj [(k, v)]) else .ok (.obj [])
        | e => e
      | _ => .err

/-- patching a node that was just created for a missing object key: `void` (`isObj = false`) or,
    in merge mode with more path ahead, a new empty object (`isObj = true`), which again has no keys -/
def patchNew (merge : Bool) : (isObj : Bool) → (pa : Path) → (before remove add after : List Json) → Outcome Json
  | false, pa, before, remove, add, after => patchFresh merge .void pa before remove add after
  | true, [], _, remove, add, _ =>
    if remove.length > 1 || add.length > 1 then .err
    else if merge then .ok (Json.singleValue add)
    else if equals [] (.obj []) (Json.singleValue remove) then .ok (Json.singleValue add)
    else .err
  | true, .key k :: rest, before, remove, add, after =>
    match patchNew merge (merge && !rest.isEmpty) rest before remove add after with
    | .ok v => if v.isVoid then .ok (.obj []) else .ok (.obj [(k, v)])
    | e => e
  | true, _, _, _, _, _ => .err

/-- jsonSet.patch looks for the keyed member in two passes: first an object with the key values of the
    path; failing that (`keyedTol = true`), one which lacks the keys that are null in the path -/
def keyedTol (po : List (String × Json)) (xs : List Json) : Bool :=
  !(xs.any (fun x => match x with
    | .obj kvs => pathIdent [.set] kvs po == identObj [.set] po
    | _ => false))

mutual
/-- `n.patch(pathBehind, pathAhead, before, oldValues, newValues, after, strategy)` -/
def patchNode (sw : Bool) (merge : Bool) (n : Json) (pa : Path)
    (before remove add after : List Json) : Outcome Json :=
  match n with
  | .obj kvs =>
    match pa with
    | [] =>
      if remove.length > 1 || add.length > 1 then .err
      else if merge then .ok (Json.singleValue add)
      else if equals [] (.obj kvs) (Json.singleValue remove) then .ok (Json.singleValue add)
      else .err
    | .key k :: rest =>
      match alookup k kvs with
      | some _ => do
        let v ← patchObjChild sw merge kvs k rest before remove add after
        if v.isVoid then pure (.obj (aerase k kvs)) else pure (.obj (ainsert k v kvs))
      | none => do
        let v ← patchNew merge (merge && !rest.isEmpty) rest before remove add after
        if v.isVoid then pure (.obj (aerase k kvs)) else pure (.obj (ainsert k v kvs))
    | _ => .err
  | .arr t xs =>
    match effTag (pathMeta pa) t with
    | .set =>
      if merge then patchFresh merge (.arr .set xs) pa before remove add after
      else match pa with
        | [] =>
          if remove.length > 1 || add.length > 1 then .err
          else if equals [] (.arr .set xs) (Json.singleValue remove) then .ok (Json.singleValue add)
          else .err
        | .setKeys po :: rest =>
          if rest.isEmpty then .err
          else patchKeyed sw (keyedTol po xs) (identObj [.set] po) po rest before remove add after [] xs
        | .set :: _ => patchSetLeaf [.set] xs remove add
        | _ => .err
    | .mset =>
      if merge then patchFresh merge (.arr .mset xs) pa before remove add after
      else match pa with
        | [] =>
          if remove.length > 1 || add.length > 1 then .err
          else if equals [] (.arr .mset xs) (Json.singleValue remove) then .ok (Json.singleValue add)
          else .err
        | .mset :: _ => patchMsetLeaf [.mset] xs remove add
        | _ => .err
    | _ =>
      if merge then patchFresh merge (.arr .list xs) pa before remove add after
      else match pa with
        | [] =>
          if remove.length > 1 || add.length > 1 then .err
          else match remove with
            | [] => .err
            | r :: _ =>
              if equals [] (.arr .list xs) r then
                (match add with | [] => .ok .void | v :: _ => .ok v)
              else .err
        | .idx i :: rest =>
          if rest.isEmpty then patchListLeaf xs i before remove add after
          else if i < 0 || i > (xs.length : Int) - 1 then .err
          else do
            let v ← patchListChild sw i.toNat rest before remove add after xs
            let l ← setAtP xs i v
            pure (.arr .list l)
        | _ => .err
  | n => patchFresh merge n pa before remove add after
termination_by (sizeOf n, 0)

/-- `o[k].patch(rest, …)` for an existing key: structural descent into the object -/
def patchObjChild (sw : Bool) (merge : Bool) (kvs : List (String × Json)) (k : String) (rest : Path)
    (before remove add after : List Json) : Outcome Json :=
  match kvs with
  | [] => .panic
  | (k', v) :: r =>
    if k = k' then patchNode sw merge v rest before remove add after
    else patchObjChild sw merge r k rest before remove add after
termination_by (sizeOf kvs, 0)

/-- `l[i].patch(rest, …)`: structural descent into the list -/
def patchListChild (sw : Bool) (i : Nat) (rest : Path)
    (before remove add after : List Json) (xs : List Json) : Outcome Json :=
  match xs, i with
  | [], _ => .panic
  | x :: _, 0 => patchNode sw false x rest before remove add after
  | _ :: r, i + 1 => patchListChild sw i rest before remove add after r
termination_by (sizeOf xs, 0)

/-- the `PathSetKeys` branch of jsonSet.patch: the first object member whose `pathIdent` matches is
    patched in place (`tol`: the second pass, in which absent keys count as null); `pre` are the members already passed over, `xs` those still to be searched -/
def patchKeyed (sw : Bool) (tol : Bool) (lookingFor : UInt64) (po : List (String × Json)) (rest : Path)
    (before remove add after : List Json) (pre : List Json) (xs : List Json) : Outcome Json :=
  match xs with
  | [] => .err
  | x :: r =>
    match x with
    | .obj kvs =>
      if (if tol then pathIdentTol [.set] kvs po else pathIdent [.set] kvs po) == lookingFor then
        match patchNode sw false (.obj kvs) rest before remove add after with
        | .ok v' => .ok (.arr .set (pre ++ v' :: r))
        | .err => if sw then .ok (.arr .set (pre ++ x :: r)) else .err
        | .panic => .panic
      else patchKeyed sw tol lookingFor po rest before remove add after (pre ++ [x]) r
    | _ => patchKeyed sw tol lookingFor po rest before remove add after (pre ++ [x]) r
termination_by (sizeOf xs, 0)

end


/-- `patchAll(n, d)`: the hunks in order, each with its own strategy -/
def patchAll (sw : Bool) (n : Json) : Diff → Outcome Json
  | [] => .ok n
  | h :: d =>
    match patchNode sw h.merge n h.path h.before h.remove h.add h.after with
    | .ok n' => patchAll sw n' d
    | .err => .err
    | .panic => .panic

/-- `n.Patch(d)` as the code behaves -/
def patchM (n : Json) (d : Diff) : Outcome Json := patchAll true n d

end Jd
