/-
  JdModel.MergeFmt — JSON Merge Patch (RFC 7386) rendering and reading: `Diff.RenderMerge`
  (diff_write.go) and `ReadMergeString` / `readMergeInto` (diff_read.go).
-/
import JdModel.Patch
import JdModel.Text

namespace Jd

/-- `Diff.RenderMerge()` as a document (the text is its `Json()`); `none` = the no-op patch `{}` of an
    empty diff is returned as text directly -/
def renderMergeDoc (d : Diff) : Outcome Json :=
  if d.isEmpty then .ok (.obj [])
  else if d.any (fun h => !h.merge) then .err
  else
    let nulled := d.map (fun h => { h with add := h.add.map (fun v => if v.isVoid then .null else v) })
    patchAll true .void nulled

def renderMergeM (nc : NumCodec) (d : Diff) : Outcome (Option String) :=
  match renderMergeDoc d with
  | .ok n => .ok (jsonM nc n)
  | .err => .err
  | .panic => .panic

mutual
/-- `readMergeInto(d, p, n)` with keys in sorted order -/
def readMergeInto (p : Path) : Json → Diff
  | .obj kvs =>
    if kvs.isEmpty then [{ merge := true, path := p, add := [.obj []] }]
    else readMergeKvs p kvs
  | .void => []
  | .null => [{ merge := true, path := p, add := [.void] }]
  | n => [{ merge := true, path := p, add := [n] }]
def readMergeKvs (p : Path) : List (String × Json) → Diff
  | [] => []
  | (k, v) :: r => readMergeInto (p ++ [.key k]) v ++ readMergeKvs p r
end

/-- `ReadMergeString` on the parsed document -/
def readMergeDoc (n : Json) : Diff :=
  if equals [] n (.obj []) then [] else readMergeInto [] n

def readMergeM (nc : NumCodec) (s : String) : Outcome Diff :=
  match readJsonM nc s with
  | .ok n => .ok (readMergeDoc n)
  | .err => .err
  | .panic => .panic

end Jd
