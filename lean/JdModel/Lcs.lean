/-
  JdModel.Lcs — the longest-common-subsequence computation of github.com/yudai/golcs as used by
  jsonList.diff: dynamic-programming table, back-tracking from the end, `Values()`.

  Rows are kept newest first: `rows.head` is row x (for the first x elements of the left list),
  each row is the list `[T[x][0], …, T[x][n]]`.
-/
namespace Jd

/-- next row of the golcs table from the previous one.
    `go ys prev left` with `prev = [T[x-1][y-1], T[x-1][y], …]` and `left = T[x][y-1]`. -/
def lcsRowGo {α} [BEq α] (x : α) : List α → List Nat → Nat → List Nat
  | y :: ys, d :: u :: rest, left =>
    let v := max (max (d + (if x == y then 1 else 0)) u) left
    v :: lcsRowGo x ys (u :: rest) v
  | _, _, _ => []

def lcsRow {α} [BEq α] (x : α) (b : List α) (prev : List Nat) : List Nat :=
  0 :: lcsRowGo x b prev 0

/-- all rows, newest first, for the reversed-left list `ra` (so `ra.head` is the last element) -/
def lcsRows {α} [BEq α] (b : List α) : List α → List (List Nat)
  | [] => [List.replicate (b.length + 1) 0]
  | x :: ra =>
    let rows := lcsRows b ra
    lcsRow x b (rows.headD []) :: rows

/-- golcs back-tracking. `ra`, `rb`: the prefixes still under consideration, reversed (heads are the
    elements at x-1 and y-1); `rows`: table rows for `ra` newest first; values are collected last-first. -/
def lcsBack {α} [BEq α] : (ra rb : List α) → (rows : List (List Nat)) → List α
  | [], _, _ => []
  | _, [], _ => []
  | x :: ra, y :: rb, rows =>
    if x == y then x :: lcsBack ra rb rows.tail
    else
      let n := rb.length + 1
      let up := (rows.tail.headD []).getD n 0     -- T[x-1][y]
      let left := (rows.headD []).getD (n - 1) 0  -- T[x][y-1]
      if up ≥ left then lcsBack ra (y :: rb) rows.tail
      else lcsBack (x :: ra) rb rows
termination_by ra rb _ => ra.length + rb.length

/-- `lcs.New(a, b).Values()` -/
def lcsValues {α} [BEq α] (a b : List α) : List α :=
  (lcsBack a.reverse b.reverse (lcsRows b a.reverse)).reverse

/-- length of a longest common subsequence (table corner) -/
def lcsLength {α} [BEq α] (a b : List α) : Nat :=
  ((lcsRows b a.reverse).headD []).getD b.length 0

end Jd
