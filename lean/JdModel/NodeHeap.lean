/-
  JdModel.NodeHeap — an IMPERATIVE model of Go VALUES (JSON nodes): who shares what with whom.

  Everywhere else the model is purely functional: a `Json` is a value.  In Go a `jsonObject` is a MAP (a
  reference: assigning `o[k] = v` is seen through every copy of the interface value) and `jsonArray` /
  `jsonList` / `jsonSet` / `jsonMultiset` are SLICES (pointer into a backing array, length, capacity:
  `s[i] = v` and an `append` into spare capacity are seen through every slice over the same cells).
  `Patch` edits the document it builds in place, so a value it shares with the caller's diff or source
  document is changed under the caller's feet: defects D29 / D29-lib / D33 and, for the slices inside
  hunks, D11 / D12 (DESIGN §8).  The library's answer is `cloneNode` / `cloneNodes`
  (v2/patch_common.go, lib/patch_common.go): a deep copy handed over wherever a value of the diff
  becomes part of the document (`patchAll`: `cloneNodes(de.Add)`; `jsonSet.patch`:
  `cloneNode(v).patch(…)`).

  This file models exactly that, the same way `JdModel/PathHeap.lean` does for path slices:
    * a HEAP of the two mutable kinds of Go object — maps and slice backing arrays — addressed by their
      position in the heap (allocation = append at the end);
    * NODES: the immutable kinds carry their value, the two mutable kinds carry an address
      (`objRef a`; `arrRef tag a off len cap` = a Go slice header with its dynamic type);
    * `deref` reads the functional value (`Json`) of a node, `reach` lists the addresses it can touch
      (both with fuel: a heap may be cyclic or dangling; `none` = "does not denote a value");
    * the writes Go can do through a reference: `mapSet`, `mapDel`, `cellSet` (under `arrSet` and
      `goAppend` into spare capacity), allocation;
    * `cloneNode` / `cloneNodes` as heap operations, and the two seeded variants that are NOT deep copies
      (`cloneShallow`: the shape of D29 and of seeded change C03-clonenode-shallow-slices-clone;
      `cloneNodeEmptyShared`: seeded change C15-clonenode-empty-object-shared).

  `JdProofs/NodeHeapProofs.lean` proves: the clone denotes the same value, everything reachable from it is
  NEW, old addresses keep their content, hence no sequence of in-place writes below the clone can change
  the value of anything that existed before; and that each of the two seeded variants breaks this.

  Go facts used (read off the source, see the report for what a regenerated table would have to carry):
    * `cloneNode` is a type switch: jsonObject → `make` + `c[k] = cloneNode(v)` for every key;
      jsonArray / jsonList / jsonSet / jsonMultiset → `jsonXxx(cloneNodes(t))`; default → `return n`.
    * `cloneNodes(nodes)`: `nil` for `nil`, otherwise `make([]JsonNode, len)` + `c[i] = cloneNode(n)`.
      A nil (or any capacity-0) slice has no cell, so no write can go through it (`arrSet` is out of range,
      `append` reallocates: `goAppend_cap0_allocates`); the model therefore does not distinguish "nil"
      from "a fresh empty array" and always allocates.
    * the default case returns voidNode (empty struct), jsonBool, jsonNumber, jsonString — immutable Go
      values — and jsonNull, which IS a slice type (`type jsonNull []byte`, v2/null.go) and is returned
      SHARED.  Every jsonNull the library makes is `jsonNull(nil)` or `jsonNull{}` (length 0, capacity 0)
      and no code indexes or appends to one (it is only ever type-tested), so there is no cell to write
      through: modelling `null` as an immutable scalar is sound for ALIASING.  (What the model cannot see
      is nil-ness: `json.Marshal` prints a non-nil empty jsonNull as `""` — seeded change
      C02-clonenode-null-nonnil-render — which is a question of the value's representation, not of sharing.)
    * Allocation order: Go allocates the new map before the children are cloned and fills it by
      assignments nobody else can observe; the model clones the children first and allocates the filled
      map.  The two differ by a renaming of fresh addresses only.

  Core Lean only, executable (`#eval` runs the witnesses).
-/
import JdModel.Basic

namespace Jd.NodeHeap
open Jd

/-- a Go `JsonNode` interface value: immutable kinds by value, mutable kinds by reference -/
inductive HNode where
  | void
  | null
  | bool (b : Bool)
  | num (bits : UInt64)
  | str (s : String)
  | objRef (a : Nat)                            -- jsonObject: the address of the map
  | arrRef (t : Tag) (a off len cap : Nat)      -- jsonArray/List/Set/Multiset: slice header over array `a`
deriving Repr, DecidableEq, Inhabited

/-- a mutable Go object -/
inductive Obj where
  | map (kvs : List (String × HNode))   -- a Go map; association list with keys kept strictly increasing
  | arr (cells : List HNode)            -- the backing array of slices
deriving Repr, DecidableEq, Inhabited

/-- the heap: objects by address (position). Allocation appends; nothing is ever freed. -/
abbrev Heap := List Obj

/-- the address a node refers to (`none`: an immutable kind) -/
def HNode.addr? : HNode → Option Nat
  | .objRef a => some a
  | .arrRef _ a _ _ _ => some a
  | _ => none

/-- the node carries no reference: nothing can be written through it -/
def HNode.immutable (n : HNode) : Bool := n.addr?.isNone

/-- the node refers to nothing allocated before the heap had `w` objects -/
def HNode.freshFrom (w : Nat) (n : HNode) : Bool :=
  match n.addr? with
  | none => true
  | some a => decide (w ≤ a)

/-- all or nothing -/
def optAll {α} : List (Option α) → Option (List α)
  | [] => some []
  | none :: _ => none
  | some a :: r =>
    match optAll r with
    | none => none
    | some l => some (a :: l)

/-- the cells a slice header shows (`none`: the header points outside its backing array — never the
    case for a slice Go made) -/
def visible (cells : List HNode) (off len : Nat) : Option (List HNode) :=
  if off + len ≤ cells.length then some ((cells.drop off).take len) else none

/-- the nodes directly below a node (`none`: dangling or ill-typed reference) -/
def kids (h : Heap) : HNode → Option (List HNode)
  | .objRef a =>
    match h[a]? with
    | some (.map kvs) => some (kvs.map (·.2))
    | _ => none
  | .arrRef _ a off len _ =>
    match h[a]? with
    | some (.arr cells) => visible cells off len
    | _ => none
  | _ => some []

/-- the functional value a node denotes. Fuel bounds the depth: `none` when the fuel runs out (cyclic or
    too deep), when a reference dangles or has the wrong kind, or when a slice header is malformed. -/
def deref (h : Heap) : Nat → HNode → Option Json
  | 0 => fun _ => none
  | f+1 => fun n =>
    match n with
    | .void => some .void
    | .null => some .null
    | .bool b => some (.bool b)
    | .num x => some (.num x)
    | .str s => some (.str s)
    | .objRef a =>
      match h[a]? with
      | some (.map kvs) =>
        (optAll ((kvs.map (·.2)).map (deref h f))).map (fun js => Json.obj ((kvs.map (·.1)).zip js))
      | _ => none
    | .arrRef t a off len _ =>
      match h[a]? with
      | some (.arr cells) =>
        match visible cells off len with
        | some xs => (optAll (xs.map (deref h f))).map (Json.arr t)
        | none => none
      | _ => none

/-- the addresses that reading the node with the same fuel looks at (the node's own and those below it) -/
def reach (h : Heap) : Nat → HNode → List Nat
  | 0 => fun _ => []
  | f+1 => fun n =>
    match n with
    | .objRef a =>
      a :: (match h[a]? with
        | some (.map kvs) => (kvs.map (·.2)).flatMap (reach h f)
        | _ => [])
    | .arrRef _ a off len _ =>
      a :: (match h[a]? with
        | some (.arr cells) =>
          match visible cells off len with
          | some xs => xs.flatMap (reach h f)
          | none => []
        | _ => [])
    | _ => []

/-! ### what Go can do through a reference -/

/-- `make(...)`: a new object at the end of the heap -/
def alloc (h : Heap) (o : Obj) : Heap × Nat := (h ++ [o], h.length)

/-- `m[k] = v` on the map at `a` (no effect when `a` is not a map: the callers hold a jsonObject) -/
def mapSet (h : Heap) (a : Nat) (k : String) (v : HNode) : Heap :=
  match h[a]? with
  | some (.map kvs) => h.set a (.map (ainsert k v kvs))
  | _ => h

/-- `delete(m, k)` -/
def mapDel (h : Heap) (a : Nat) (k : String) : Heap :=
  match h[a]? with
  | some (.map kvs) => h.set a (.map (aerase k kvs))
  | _ => h

/-- assignment to cell `i` of the backing array at `a` (what `s[j] = v` and an in-place `append` do) -/
def cellSet (h : Heap) (a i : Nat) (v : HNode) : Heap :=
  match h[a]? with
  | some (.arr cells) => h.set a (.arr (cells.set i v))
  | _ => h

/-- `s[i] = v` through a slice header; `none` = Go panics (index out of range, or not a slice) -/
def arrSet (h : Heap) (s : HNode) (i : Nat) (v : HNode) : Option Heap :=
  match s with
  | .arrRef _ a off len _ => if i < len then some (cellSet h a (off + i) v) else none
  | _ => none

/-- padding of unused capacity (never visible through a header) -/
def pad : HNode := .void

/-- `append(s, v)` under a growth policy: IN PLACE when there is spare capacity (every slice over the
    same cells sees the write once it is long enough), on a new array otherwise. `none`: not a slice,
    or a malformed header. -/
def goAppend (grow : Nat → Nat) (h : Heap) (s : HNode) (v : HNode) : Option (Heap × HNode) :=
  match s with
  | .arrRef t a off len cap =>
    if len < cap then some (cellSet h a (off + len) v, .arrRef t a off (len + 1) cap)
    else
      match kids h s with
      | some xs =>
        let cap' := max (grow cap) (len + 1)
        some (h ++ [.arr (xs ++ [v] ++ List.replicate (cap' - (len + 1)) pad)], .arrRef t h.length 0 (len + 1) cap')
      | none => none
  | _ => none

/-- one primitive effect on the heap -/
inductive Write where
  | mapSet (a : Nat) (k : String) (v : HNode)
  | mapDel (a : Nat) (k : String)
  | cellSet (a i : Nat) (v : HNode)
  | alloc (o : Obj)
deriving Repr, Inhabited

/-- the existing object the effect writes into (`none`: an allocation) -/
def Write.target : Write → Option Nat
  | .mapSet a _ _ => some a
  | .mapDel a _ => some a
  | .cellSet a _ _ => some a
  | .alloc _ => none

def Write.run (h : Heap) : Write → Heap
  | .mapSet a k v => NodeHeap.mapSet h a k v
  | .mapDel a k => NodeHeap.mapDel h a k
  | .cellSet a i v => NodeHeap.cellSet h a i v
  | .alloc o => (NodeHeap.alloc h o).1

/-- a sequence of effects, left to right -/
def runWrites (h : Heap) (ws : List Write) : Heap := ws.foldl Write.run h

/-- the nodes an object holds (all cells of an array, also those beyond a header's length) -/
def Obj.nodes : Obj → List HNode
  | .map kvs => kvs.map (·.2)
  | .arr cells => cells

/-- the nodes an effect stores -/
def Write.stored : Write → List HNode
  | .mapSet _ _ v => [v]
  | .mapDel _ _ => []
  | .cellSet _ _ v => [v]
  | .alloc o => o.nodes

/-- the discipline of an editor that OWNS `root` (a value all of whose objects were allocated when the
    heap already had `w` objects — a clone): every write goes into an object that is, at that moment,
    reachable from `root` (fuel `g`), and every node it stores is immutable or refers to an object
    allocated at or after `w` (a scalar, another clone, a part of the owned value). Executable. -/
def okWrites (w g : Nat) (root : HNode) : Heap → List Write → Bool
  | _, [] => true
  | h, wr :: r =>
    (match wr.target with
      | none => true
      | some a => (reach h g root).contains a) &&
    wr.stored.all (fun m => m.freshFrom w) &&
    okWrites w g root (wr.run h) r

/-! ### the library's copy function -/

/-- thread a cloning function through a list, left to right (the loop of `cloneNodes` and of the
    `for k, v := range t` in `cloneNode`) -/
def cloneList (cl : Heap → HNode → Option (Heap × HNode)) : Heap → List HNode → Option (Heap × List HNode)
  | h, [] => some (h, [])
  | h, x :: r =>
    match cl h x with
    | none => none
    | some (h1, x') =>
      match cloneList cl h1 r with
      | none => none
      | some (h2, r') => some (h2, x' :: r')

/-- `cloneNode` (v2/patch_common.go, lib/patch_common.go). `none`: fuel exhausted or the node does not
    denote a value (dangling / malformed). -/
def cloneNode : Nat → Heap → HNode → Option (Heap × HNode)
  | 0 => fun _ _ => none
  | f+1 => fun h n =>
    match n with
    | .objRef a =>                                   -- case jsonObject: make + c[k] = cloneNode(v)
      match h[a]? with
      | some (.map kvs) =>
        match cloneList (cloneNode f) h (kvs.map (·.2)) with
        | some (h1, vs) => some (h1 ++ [.map ((kvs.map (·.1)).zip vs)], .objRef h1.length)
        | none => none
      | _ => none
    | .arrRef t a off len cap =>                     -- case jsonArray/List/Set/Multiset: jsonXxx(cloneNodes(t))
      match kids h (.arrRef t a off len cap) with
      | some xs =>
        match cloneList (cloneNode f) h xs with
        | some (h1, vs) => some (h1 ++ [.arr vs], .arrRef t h1.length 0 len len)
        | none => none
      | none => none
    | s => some (h, s)                               -- default: return n

/-- `cloneNodes` on a Go slice of nodes held outside the heap (a hunk's `Add`) -/
def cloneNodes (f : Nat) (h : Heap) (ns : List HNode) : Option (Heap × List HNode) :=
  cloneList (cloneNode f) h ns

/-! ### the case analysis of `cloneNode`, as a table over Go's dynamic types -/

/-- what a case of the type switch does -/
inductive CloneCase where
  | copyMap     -- make(jsonObject) and cloneNode of every member
  | copySlice   -- cloneNodes: make([]JsonNode) and cloneNode of every element, same dynamic type
  | asIs        -- return n
deriving Repr, DecidableEq, Inhabited

/-- Go's dynamic type of a node -/
def HNode.goType : HNode → String
  | .void => "voidNode"
  | .null => "jsonNull"
  | .bool _ => "jsonBool"
  | .num _ => "jsonNumber"
  | .str _ => "jsonString"
  | .objRef _ => "jsonObject"
  | .arrRef .raw _ _ _ _ => "jsonArray"
  | .arrRef .list _ _ _ _ => "jsonList"
  | .arrRef .set _ _ _ _ => "jsonSet"
  | .arrRef .mset _ _ _ _ => "jsonMultiset"

/-- the case the model's `cloneNode` takes -/
def HNode.cloneCase : HNode → CloneCase
  | .objRef _ => .copyMap
  | .arrRef _ _ _ _ _ => .copySlice
  | _ => .asIs

/-- one representative node of every Go node type -/
def representatives : List HNode :=
  [.void, .null, .bool false, .num 0, .str "", .objRef 0,
   .arrRef .raw 0 0 0 0, .arrRef .list 0 0 0 0, .arrRef .set 0 0 0 0, .arrRef .mset 0 0 0 0]

/-- the model's case list by Go type name -/
def modelCloneCases : List (String × CloneCase) := representatives.map (fun n => (n.goType, n.cloneCase))

/-! ### the two seeded variants that are not deep copies -/

/-- copies the top-level map / array only and shares what is inside (`slices.Clone(t)`; the shape of
    D29 before its repair: the added value itself became part of the document) -/
def cloneShallow (h : Heap) (n : HNode) : Option (Heap × HNode) :=
  match n with
  | .objRef a =>
    match h[a]? with
    | some (.map kvs) => some (h ++ [.map kvs], .objRef h.length)
    | _ => none
  | .arrRef t a off len cap =>
    match kids h (.arrRef t a off len cap) with
    | some xs => some (h ++ [.arr xs], .arrRef t h.length 0 len len)
    | none => none
  | s => some (h, s)

/-- `cloneNode` with the fast path of seeded change C15-clonenode-empty-object-shared: an empty map is
    returned as it is ("nothing in it that could be shared") -/
def cloneNodeEmptyShared : Nat → Heap → HNode → Option (Heap × HNode)
  | 0 => fun _ _ => none
  | f+1 => fun h n =>
    match n with
    | .objRef a =>
      match h[a]? with
      | some (.map []) => some (h, .objRef a)
      | some (.map kvs) =>
        match cloneList (cloneNodeEmptyShared f) h (kvs.map (·.2)) with
        | some (h1, vs) => some (h1 ++ [.map ((kvs.map (·.1)).zip vs)], .objRef h1.length)
        | none => none
      | _ => none
    | .arrRef t a off len cap =>
      match kids h (.arrRef t a off len cap) with
      | some xs =>
        match cloneList (cloneNodeEmptyShared f) h xs with
        | some (h1, vs) => some (h1 ++ [.arr vs], .arrRef t h1.length 0 len len)
        | none => none
      | none => none
    | s => some (h, s)

/-! ### building heap values from functional ones (for examples and tests) -/

mutual
/-- allocate a functional value on the heap, children first; arrays get `spare` unused cells -/
def build (spare : Nat) : Heap → Json → Heap × HNode
  | h, .void => (h, .void)
  | h, .null => (h, .null)
  | h, .bool b => (h, .bool b)
  | h, .num x => (h, .num x)
  | h, .str s => (h, .str s)
  | h, .arr t xs =>
    let (h1, vs) := buildList spare h xs
    (h1 ++ [.arr (vs ++ List.replicate spare pad)], .arrRef t h1.length 0 vs.length (vs.length + spare))
  | h, .obj kvs =>
    let (h1, vs) := buildKvs spare h kvs
    (h1 ++ [.map vs], .objRef h1.length)
def buildList (spare : Nat) : Heap → List Json → Heap × List HNode
  | h, [] => (h, [])
  | h, x :: r =>
    let (h1, v) := build spare h x
    let (h2, vs) := buildList spare h1 r
    (h2, v :: vs)
def buildKvs (spare : Nat) : Heap → List (String × Json) → Heap × List (String × HNode)
  | h, [] => (h, [])
  | h, (k, x) :: r =>
    let (h1, v) := build spare h x
    let (h2, vs) := buildKvs spare h1 r
    (h2, (k, v) :: vs)
end

end Jd.NodeHeap
