/-
  JdModel.Cli — the decision logic of the two command-line programs, as a pure function.

    binary A  = /repo/v2/jd/main.go   (v2 library only; `-v2` is declared and ignored)
    binary B  = /repo/main.go         (v2 library unless `-v2=false`, then the v1 library /repo/lib)

  The library is NOT modelled here: `cliM` receives, in `LibResults`, what the library (and the
  operating system: reading the inputs, writing the `-o` file) returned for the inputs at hand,
  and decides exit status, stdout bytes, `-o` file bytes and the log record on stderr exactly as
  `main` does: order of checks, flag → option translation, argument counts, format switch,
  `haveDiff`, `-o`, translate table.  `planOf` says which library calls `main` makes (which library,
  which option list, which inputs from where), so that the harness can obtain `LibResults` by making
  exactly those calls.
  Core Lean only.
-/
import JdModel.Basic

namespace Jd.Cli
open Jd

/-! ### binaries and flags -/

/-- `topV1` is binary B started with `-v2=false` (the flag field `v2` is then irrelevant). -/
inductive Binary where
  | v2jd | top | topV1
deriving DecidableEq, Repr, Inhabited

/-- the `flag.X(name, default, …)` declarations of both main.go files; the field defaults ARE the
    declared defaults (checked against the source text by the harness through `flagTable`).
    `precision` is the bit pattern of the float64; `nargs = len(flag.Args())`. -/
structure Flags where
  color         : Bool   := false
  f             : String := ""
  gitDiffDriver : Bool   := false
  mset          : Bool   := false
  o             : String := ""
  p             : Bool   := false
  port          : Int    := 0
  precision     : UInt64 := 0
  set           : Bool   := false
  setkeys       : String := ""
  t             : String := ""
  version       : Bool   := false
  yaml          : Bool   := false
  v2            : Bool   := true
  nargs         : Nat    := 0
deriving Repr, Inhabited

def goBool (b : Bool) : String := if b then "true" else "false"

/-- (flag name, Go type, default as written in the source) — same table for both binaries -/
def flagTable (_b : Binary) : List (String × String × String) :=
  let d : Flags := {}
  [ ("color", "Bool", goBool d.color),
    ("f", "String", "\"" ++ d.f ++ "\""),
    ("git-diff-driver", "Bool", goBool d.gitDiffDriver),
    ("mset", "Bool", goBool d.mset),
    ("o", "String", "\"" ++ d.o ++ "\""),
    ("p", "Bool", goBool d.p),
    ("port", "Int", toString d.port),
    ("precision", "Float64", toString d.precision.toNat),
    ("set", "Bool", goBool d.set),
    ("setkeys", "String", "\"" ++ d.setkeys ++ "\""),
    ("t", "String", "\"" ++ d.t ++ "\""),
    ("version", "Bool", goBool d.version),
    ("yaml", "Bool", goBool d.yaml),
    ("v2", "Bool", goBool d.v2) ]

/-- does this invocation use the v1 library for diff / patch / translate? (`*libv2` false) -/
def libIsV1 : Binary → Flags → Bool
  | .v2jd, _ => false
  | .top, fl => !fl.v2
  | .topV1, _ => true

def versionOf : Binary → String
  | .v2jd => "HEAD"
  | _ => "deprecated"

/-! ### small pieces of the Go runtime the messages depend on -/

/-- `unicode.IsSpace` -/
def isGoSpace (c : Char) : Bool :=
  let n := c.toNat
  n == 0x20 || (0x09 ≤ n && n ≤ 0x0d) || n == 0x85 || n == 0xA0 || n == 0x1680 ||
  (0x2000 ≤ n && n ≤ 0x200a) || n == 0x2028 || n == 0x2029 || n == 0x202f || n == 0x205f || n == 0x3000

/-- `strings.TrimSpace` -/
def goTrimSpace (s : String) : String :=
  String.ofList ((s.toList.dropWhile isGoSpace).reverse.dropWhile isGoSpace).reverse

def hexNibble (n : Nat) : Char := if n < 10 then Char.ofNat (48 + n) else Char.ofNat (87 + n)

/-- `%q` (strconv.Quote) — exact for ASCII and for printable non-ASCII text (kept as is);
    non-printable non-ASCII runes, which Go writes as \u…, are outside what the harness generates -/
def goQuoteChar (c : Char) : String :=
  let n := c.toNat
  if c == '"' then "\\\"" else if c == '\\' then "\\\\"
  else if n == 7 then "\\a" else if n == 8 then "\\b" else if n == 12 then "\\f"
  else if n == 10 then "\\n" else if n == 13 then "\\r" else if n == 9 then "\\t" else if n == 11 then "\\v"
  else if n < 0x20 || n == 0x7f then "\\x" ++ String.ofList [hexNibble (n / 16), hexNibble (n % 16)]
  else String.singleton c

def goQuote (s : String) : String := "\"" ++ String.join (s.toList.map goQuoteChar) ++ "\""

/-- `*precision != 0.0` on the bit pattern: everything except +0 and -0 (NaN included) -/
def precNonZero (bits : UInt64) : Bool := (bits <<< 1) != 0

/-! ### flags → options (`parseMetadata`) -/

/-- the loop over `strings.Split(*setkeys, ",")`: trim, refuse an empty key (message shows the
    untrimmed piece), stop at the first refusal -/
def splitKeys (s : String) : Except String (List String) :=
  (s.splitOn ",").mapM (fun k =>
    let t := goTrimSpace k
    if t == "" then .error ("invalid set key: " ++ k) else .ok t)

def precisionRefusal : String :=
  "-precision cannot be used with -set or -mset because they use hashcodes"

/-- `parseMetadata` of v2/jd/main.go: SET, MULTISET, SetKeys, MERGE (only for `-f merge`),
    Precision always last. -/
def optionsOf (fl : Flags) : Except String (List Opt) :=
  if precNonZero fl.precision && (fl.set || fl.mset) then .error precisionRefusal
  else
    match (if fl.setkeys != "" then (splitKeys fl.setkeys).map some else .ok none) with
    | .error e => .error e
    | .ok ks =>
      .ok ((if fl.set then [Opt.set] else []) ++
           (if fl.mset then [Opt.mset] else []) ++
           (match ks with | some l => [Opt.setKeys l] | none => []) ++
           (if fl.f == "merge" then [Opt.merge] else []) ++
           [Opt.prec fl.precision])

/-- `parseMetadataV2` of main.go (binary B, v2 path) — a separate function in the source -/
def optionsOfTopV2 (fl : Flags) : Except String (List Opt) :=
  if precNonZero fl.precision && (fl.set || fl.mset) then .error precisionRefusal
  else
    match (if fl.setkeys != "" then (splitKeys fl.setkeys).map some else .ok none) with
    | .error e => .error e
    | .ok ks =>
      .ok ((if fl.set then [Opt.set] else []) ++
           (if fl.mset then [Opt.mset] else []) ++
           (match ks with | some l => [Opt.setKeys l] | none => []) ++
           (if fl.f == "merge" then [Opt.merge] else []) ++
           [Opt.prec fl.precision])

/-- v1 `Metadata` values (lib/metadata.go; COLOR is a RenderOption that is also Metadata) -/
inductive Meta where
  | MERGE | SET | MULTISET | COLOR
  | SetPrecision (eps : UInt64)
  | Setkeys (ks : List String)
deriving DecidableEq, Repr, Inhabited

/-- `parseMetadata` of main.go (binary B, `-v2=false`) -/
def metadataOfTopV1 (fl : Flags) : Except String (List Meta) :=
  if precNonZero fl.precision && (fl.set || fl.mset) then .error precisionRefusal
  else
    match (if fl.setkeys != "" then (splitKeys fl.setkeys).map some else .ok none) with
    | .error e => .error e
    | .ok ks =>
      .ok ((if fl.set then [Meta.SET] else []) ++
           (if fl.mset then [Meta.MULTISET] else []) ++
           (match ks with | some l => [Meta.Setkeys l] | none => []) ++
           (if fl.f == "merge" then [Meta.MERGE] else []) ++
           [Meta.SetPrecision fl.precision])

/-- the naming map v2 option → v1 metadata -/
def toV1 : Opt → Meta
  | .merge => .MERGE
  | .set => .SET
  | .mset => .MULTISET
  | .color => .COLOR
  | .prec e => .SetPrecision e
  | .setKeys ks => .Setkeys ks

def ofV1 : Meta → Opt
  | .MERGE => .merge
  | .SET => .set
  | .MULTISET => .mset
  | .COLOR => .color
  | .SetPrecision e => .prec e
  | .Setkeys ks => .setKeys ks

/-- what `main` computes before anything else: the option / metadata list of the library it will
    use, in v2 naming (for `topV1` the image of the v1 list under `ofV1`) -/
def parsedOptions (b : Binary) (fl : Flags) : Except String (List Opt) :=
  match b with
  | .v2jd => optionsOf fl
  | _ => if libIsV1 b fl then (metadataOfTopV1 fl).map (List.map ofV1) else optionsOfTopV2 fl

/-! ### modes, inputs, formats -/

inductive Mode where
  | diff | patch | translate
deriving DecidableEq, Repr, Inhabited

/-- `mode := diffMode; if *patch {…}; if *translate != "" {…}` -/
def modeOf (fl : Flags) : Mode :=
  if fl.t != "" then .translate else if fl.p then .patch else .diff

inductive Src where
  | arg (i : Nat)   -- readFile(flag.Arg(i))
  | stdin           -- readStdin()
deriving DecidableEq, Repr, Inhabited

inductive Err where
  | msg (s : String)   -- errorAndExit / errorfAndExit / log.Print + os.Exit(2): one log record, exit 2
  | usage              -- printUsageAndExit: usage text on STDOUT, exit 2
deriving DecidableEq, Repr, Inhabited

/-- the argument-count switch of `main`: which inputs are read, in this order -/
def inputsOf (fl : Flags) : Except Err (List Src) :=
  match modeOf fl, fl.nargs with
  | .translate, 0 => .ok [.stdin]
  | .translate, 1 => .ok [.arg 0]
  | .translate, _ => .error .usage
  | _, 1 => .ok [.arg 0, .stdin]
  | _, 2 => .ok [.arg 0, .arg 1]
  | _, _ => .error .usage

inductive Format where
  | jd | patch | merge
deriving DecidableEq, Repr, Inhabited

/-- `switch *format { case "", "jd": … case "patch": … case "merge": … default: error }` -/
def formatOf (s : String) : Option Format :=
  if s == "" || s == "jd" then some .jd
  else if s == "patch" then some .patch
  else if s == "merge" then some .merge
  else none

def translations : List String :=
  ["jd2patch", "patch2jd", "jd2merge", "merge2jd", "json2yaml", "yaml2json"]

/-! ### what the library (and the OS) returned -/

def uncomputed {α} : Except String α := .error "<not computed by the harness>"

structure LibResults where
  /-- `serveWeb` (returns only with an error; without the `include_web` build tag at once) -/
  serve       : Except String Unit := uncomputed
  /-- reading the first / second input (`ioutil.ReadFile`, stdin) -/
  file1       : Except String Unit := uncomputed
  file2       : Except String Unit := uncomputed
  /-- diff mode: `Read{Json,Yaml}String` of the first input; diff and patch mode: of the second -/
  parse1      : Except String Unit := uncomputed
  parse2      : Except String Unit := uncomputed
  /-- `len(a.Diff(b, options…))` and its renderings (`Render(COLOR?)`, `RenderPatch`, `RenderMerge`) -/
  diffLen     : Nat := 0
  renderJd    : String := ""
  renderPatch : Except String String := uncomputed
  renderMerge : Except String String := uncomputed
  /-- patch mode: `Read{Diff,Patch,Merge}String` of the first input for `-f`; `Patch`; `Json/Yaml(options…)` -/
  readDiff    : Except String Unit := uncomputed
  patch       : Except String Unit := uncomputed
  patched     : String := ""
  /-- translate mode: read + render for `-t` (first error or the text) -/
  translate   : Except String String := uncomputed
  /-- `WriteFile(*output, …)` -/
  write       : Except String Unit := uncomputed

/-! ### the program -/

/-- a run that ends through `os.Exit(0|1)` / `return` -/
structure Emit where
  code   : Nat
  text   : String
  toFile : Bool      -- the text went to the `-o` file instead of stdout
deriving DecidableEq, Repr, Inhabited

def step {α} (x : Except String α) : Except Err α :=
  match x with
  | .ok a => .ok a
  | .error e => .error (.msg e)

/-- `diff(a, b, options)` of main.go: rendered text and `haveDiff` -/
def diffCore (fl : Flags) (r : LibResults) : Except Err (String × Bool) :=
  match step r.parse1 with
  | .error e => .error e
  | .ok _ =>
  match step r.parse2 with
  | .error e => .error e
  | .ok _ =>
  match formatOf fl.f with
  | some .jd => .ok (r.renderJd, r.renderJd != "")
  | some .patch =>
    match step r.renderPatch with
    | .error e => .error e
    | .ok s => .ok (s, s != "[]")
  | some .merge =>
    match step r.renderMerge with
    | .error e => .error e
    | .ok s => .ok (s, decide (r.diffLen > 0))
  | none => .error (.msg ("Invalid format: " ++ goQuote fl.f))

/-- `printPatch` up to the rendering of the patched document -/
def patchCore (fl : Flags) (r : LibResults) : Except Err String :=
  match formatOf fl.f with
  | none => .error (.msg ("Invalid format: " ++ goQuote fl.f))
  | some _ =>
  match step r.readDiff with
  | .error e => .error e
  | .ok _ =>
  match step r.parse2 with
  | .error e => .error e
  | .ok _ =>
  match step r.patch with
  | .error e => .error e
  | .ok _ => .ok r.patched

/-- `printTranslation` up to the text -/
def translateCore (fl : Flags) (r : LibResults) : Except Err String :=
  if translations.contains fl.t then step r.translate
  else .error (.msg ("unsupported translation: " ++ goQuote fl.t))

/-- `if *output == "" { fmt.Print(str) } else { WriteFile … errorAndExit }` then exit `code` -/
def deliver (fl : Flags) (r : LibResults) (code : Nat) (text : String) : Except Err Emit :=
  if fl.o == "" then .ok ⟨code, text, false⟩
  else
    match step r.write with
    | .error e => .error e
    | .ok _ => .ok ⟨code, text, true⟩

/-- read the inputs named by `inputsOf` (a failing read ends the run before any parsing) -/
def readInputs (srcs : List Src) (r : LibResults) : Except Err Unit :=
  match step r.file1 with
  | .error e => .error e
  | .ok _ => if srcs.length ≥ 2 then step r.file2 else .ok ()

def gitDriverArgs : String := "Git diff driver expects exactly 7 arguments."
def patchAndTranslate : String := "Patch and translate modes cannot be used together."
def portArgs : String := "The web UI (-port) does not support arguments"

/-- `main` after `flag.Parse()` -/
def run (b : Binary) (fl : Flags) (r : LibResults) : Except Err Emit :=
  if fl.version then .ok ⟨0, "jd version " ++ versionOf b ++ "\n", false⟩
  else if fl.port != 0 then
    if fl.nargs > 0 then .error (.msg portArgs)
    else
      match step r.serve with
      | .error e => .error e
      | .ok _ => .ok ⟨0, "", false⟩
  else
    match step (parsedOptions b fl) with
    | .error e => .error e
    | .ok _ =>
    if fl.gitDiffDriver then
      -- printGitDiffDriver: arguments 1 and 4 are the files; prints to stdout (‑o ignored); exit 0
      if fl.nargs != 7 then .error (.msg gitDriverArgs)
      else
        match readInputs [.arg 1, .arg 4] r with
        | .error e => .error e
        | .ok _ =>
        match diffCore fl r with
        | .error e => .error e
        | .ok (s, _) => .ok ⟨0, s, false⟩
    else if fl.p && fl.t != "" then .error (.msg patchAndTranslate)
    else
      match inputsOf fl with
      | .error e => .error e
      | .ok srcs =>
      match readInputs srcs r with
      | .error e => .error e
      | .ok _ =>
      match modeOf fl with
      | .diff =>
        match diffCore fl r with
        | .error e => .error e
        | .ok (s, haveDiff) => deliver fl r (if haveDiff then 1 else 0) s
      | .patch =>
        match patchCore fl r with
        | .error e => .error e
        | .ok s => deliver fl r 0 s
      | .translate =>
        match translateCore fl r with
        | .error e => .error e
        | .ok s => deliver fl r 0 s

/-! ### observable outcome -/

inductive StderrClass where
  | none        -- nothing on stderr
  | oneLine     -- one log record of one line
  | multiLine   -- a log record whose message spans several lines
  | usage       -- nothing on stderr; the usage text is on STDOUT
deriving DecidableEq, Repr, Inhabited

structure Outcome where
  exit        : Nat
  stdout      : String
  outfile     : Option String     -- bytes written to the `-o` file (none: not written)
  stderr      : String            -- stderr without the timestamp prefix of the log package
  stderrClass : StderrClass
deriving DecidableEq, Repr, Inhabited

/-- the log package appends a newline unless the message ends with one -/
def logRecord (m : String) : String :=
  if m.toList.getLast? == some '\n' then m else m ++ "\n"

def classOfRecord (rec : String) : StderrClass :=
  if (rec.toList.filter (· == '\n')).length == 1 then .oneLine else .multiLine

def usageLines (b : Binary) : List String :=
  [ "",
    "Usage: jd [OPTION]... FILE1 [FILE2]",
    "Diff and patch JSON files.",
    "",
    "Prints the diff of FILE1 and FILE2 to STDOUT.",
    "When FILE2 is omitted the second input is read from STDIN.",
    "When patching (-p) FILE1 is a diff.",
    "",
    "Options:",
    "  -color       Print color diff.",
    "  -p           Apply patch FILE1 to FILE2 or STDIN.",
    "  -o=FILE3     Write to FILE3 instead of STDOUT.",
    "  -set         Treat arrays as sets.",
    "  -mset        Treat arrays as multisets (bags).",
    "  -setkeys     Keys to identify set objects",
    "  -yaml        Read and write YAML instead of JSON.",
    "  -port=N      Serve web UI on port N",
    "  -precision=N Maximum absolute difference for numbers to be equal.",
    "               Example: -precision=0.00001",
    "  -f=FORMAT    Read and write diff in FORMAT \"jd\" (default), \"patch\" (RFC 6902) or",
    "               \"merge\" (RFC 7386)",
    "  -t=FORMATS   Translate FILE1 between FORMATS. Supported formats are \"jd\",",
    "               \"patch\" (RFC 6902), \"merge\" (RFC 7386), \"json\" and \"yaml\".",
    "               FORMATS are provided as a pair separated by \"2\". E.g.",
    "               \"yaml2json\" or \"jd2patch\"." ] ++
  (match b with
   | .v2jd => []
   | _ => ["  -v2          Use the JD v2 library and format (defaults true)."]) ++
  [ "",
    "Examples:",
    "  jd a.json b.json",
    "  cat b.json | jd a.json",
    "  jd -o patch a.json b.json; jd patch a.json",
    "  jd -set a.json b.json",
    "  jd -f patch a.json b.json",
    "  jd -f merge a.json b.json",
    "",
    "Version: " ++ versionOf b,
    "" ]

def usageText (b : Binary) : String := String.join ((usageLines b).map (· ++ "\n"))

def outcomeOf (b : Binary) : Except Err Emit → Outcome
  | .ok e =>
    if e.toFile then ⟨e.code, "", some e.text, "", .none⟩ else ⟨e.code, e.text, none, "", .none⟩
  | .error (.msg m) => ⟨2, "", none, logRecord m, classOfRecord (logRecord m)⟩
  | .error .usage => ⟨2, usageText b, none, "", .usage⟩

/-- the CLI: exit status, stdout, `-o` file, stderr -/
def cliM (b : Binary) (fl : Flags) (r : LibResults) : Outcome := outcomeOf b (run b fl r)

/-! ### the library calls `main` makes (for the harness) -/

structure Plan where
  mode  : String          -- "diff" | "gitdiff" | "patch" | "translate"
  v1    : Bool            -- the v1 library is called
  opts  : List Opt        -- the option / metadata list handed to Diff (and to Json/Yaml in patch mode)
  color : Bool            -- COLOR is handed to Render (jd format only)
  srcs  : List Src
deriving Repr, Inhabited

/-- none: the run ends before any input is read (its outcome depends on the flags alone, apart from `serve`). -/
def planOf (b : Binary) (fl : Flags) : Option Plan :=
  if fl.version || fl.port != 0 then none
  else
    match parsedOptions b fl with
    | .error _ => none
    | .ok opts =>
      if fl.gitDiffDriver then
        if fl.nargs != 7 then none
        -- printGitDiffDriver always calls diffV2 with the v2 option list, which main fills whenever
        -- the driver is used (also with -v2=false)
        else some ⟨"gitdiff", false, opts, fl.color, [.arg 1, .arg 4]⟩
      else if fl.p && fl.t != "" then none
      else
        match inputsOf fl with
        | .error _ => none
        | .ok srcs =>
          let m := match modeOf fl with | .diff => "diff" | .patch => "patch" | .translate => "translate"
          some ⟨m, libIsV1 b fl, opts, fl.color, srcs⟩

end Jd.Cli
