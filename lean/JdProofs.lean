import JdProofs.LcsProofs
import JdProofs.EqualsList
import JdProofs.NoPanic
import JdProofs.StrictPatch
import JdProofs.SetPatch
import JdProofs.YamlProofs
import JdProofs.MergeProofs
