import JdModel
