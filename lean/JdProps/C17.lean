/-
  Property C17 — v1 library: diff-then-patch reproduces the target; equality is coherent.
  Statement file (proofs in JdProofs/V1ListDiffPatch.lean, namespace Jd.V1P).

  Model: `Jd.V1` (JdModel/V1/*): the v1 library `lib/` — in-path metadata, POSITIONAL list diffs
  (ascending index, then `-1` appends when the list grows; deletions from the back in descending
  index order when it shrinks), v1 hashes. The model agrees with the real code on > 10^5 generated
  cases on every run of ./check C17 / C18.

  PROVED (LIST MODE: no SET / MULTISET / MERGE metadata, precision 0; `Setkeys` alone leaves arrays
  lists in v1): full nesting — lists in lists, objects, scalars.
  Hypotheses: documents as read from text (`listDoc`, `wf`, `finiteNums`, no void inside: `vfree`),
  `FloatLaws` (a removed value equals itself), and `IdxLaws N` with every array of `a` no longer than N
  (v1 list indices travel as float64: `jsonNumber(i)` in the diff, `int(jn)` in the patch; the laws say
  this conversion is exact below N and for -1; true for N = 2^53).
  NOT PROVED: SET / MULTISET / Setkeys+SET / MERGE modes and the text round trip (Render and
  ReadDiffString): correspondence and oracle only.
-/
import JdProofs.V1ListDiffPatch

namespace Jd.Props.C17
open Jd Jd.Spec Jd.V1P

/-- in list mode the v1 `Equals` is the v2 `Equals` without options — hence exactly the advertised
    equivalence (C04), reflexive and symmetric -/
theorem v1_equals_is_v2_equals {m : V1.Metas} (hm : ListMode m) (a b : Json) (ha : a.listDoc = true) :
    V1.equals m a b = equals [] a b :=
  v1_equals_eq hm a b ha

/-- patching a with the diff of a and b succeeds and yields a document Equal to b -/
theorem v1_diff_then_patch (L : FloatLaws) {N : Nat} (I : IdxLaws N) (m : V1.Metas) (hm : ListMode m)
    (a b : Json)
    (ha1 : a.listDoc = true) (ha2 : a.wf = true) (ha3 : a.finiteNums = true) (ha4 : vfree a = true)
    (ha5 : lenLe N a = true)
    (hb1 : b.listDoc = true) (hb2 : b.wf = true) (hb3 : b.finiteNums = true) (hb4 : vfree b = true) :
    ∃ r, V1.patchM a (V1.diffM m a b) = .ok r ∧ V1.equals m r b = true ∧ specEq r b = true ∧
      specEq b r = true ∧ r.listDoc = true :=
  v1_diff_patch_list L I m hm a b ha1 ha2 ha3 ha4 ha5 hb1 hb2 hb3 hb4

/-- the diff is empty exactly when Equals holds -/
theorem v1_diff_empty_iff_equal (m : V1.Metas) (hm : ListMode m) (a b : Json)
    (ha1 : a.rawDoc = true) (ha2 : a.wf = true) (hb1 : b.listDoc = true) (hb2 : b.wf = true) :
    V1.diffM m a b = [] ↔ V1.equals m a b = true :=
  v1_diff_empty_iff_equals m hm a b ha1 ha2 hb1 hb2

/-- `Setkeys` alone is list mode in v1 -/
example : ListMode [V1.Meta.setkeys ["id"]] := ListMode.setkeys ["id"]

end Jd.Props.C17
