/-
  Property C17 — v1 library: diff-then-patch reproduces the target; equality is coherent.
  Statement file. Proofs: LIST reading in memory: JdProofs/V1ListDiffPatch.lean (namespace `Jd.V1P`);
  MERGE, SET and MULTISET readings in memory, and the text round trip (`Render`, then
  `ReadDiffString`) for LIST / SET / MULTISET / MERGE diffs: JdProofs/V1SetDiffPatch.lean (namespace
  `Jd.V1S`; the metadata predicate `MergeMode` is from JdProofs/V1MergeRender.lean, `Jd.V1M`).

  Model: `Jd.V1` (JdModel/V1/*): the v1 library `lib/` — in-path metadata, POSITIONAL list diffs
  (ascending index, then `-1` appends when the list grows; deletions from the back in descending
  index order when it shrinks), v1 hashes. `V1.diffM m a b` is `a.Diff(b, m...)`, `V1.patchM a d` is
  `a.Patch(d)`, `V1.equals m` is `Equals` with the metadata `m`, `V1.renderM nc false (liftDiff d)`
  is `d.Render()` without colour, `V1.readDiffM nc` is `ReadDiffString`. Everything is about these
  library functions; no reference interpreter in between. The model agrees with the real code on
  > 10^5 generated cases on every run of ./check C17 / C18.

  WHAT IS STATED, AND FOR WHICH PART OF THE PROPERTY
  * LIST MODE in memory (`ListMode m`: no SET / MULTISET / MERGE metadata, precision 0; `Setkeys`
    alone leaves arrays lists in v1), full nesting — lists in lists, objects, scalars:
    `v1_diff_then_patch`, `v1_diff_empty_iff_equal`, `v1_equals_is_v2_equals`.
  * MERGE in memory (`V1M.MergeMode m`: MERGE present, no SET, no MULTISET, precision 0; a setkeys
    metadata is allowed): `v1_merge_diff_then_patch`
        ∃ r, V1.patchM a (V1.diffM m a b) = .ok r ∧ V1.equals m r b = true ∧ specEq r b = true ∧ …
    and `v1_merge_diff_empty_iff_equal`. MORE than the property asks: `b` MAY contain nulls (in
    memory a merge hunk holding null stores null, only void deletes; null-freeness is needed only
    for the RFC 7386 rendering, C18).
  * SET / MULTISET in memory, no setkeys, strict strategy, precision 0 (`V1S.SetMode m`: SET present —
    v1 gives SET priority over MULTISET whatever the order, `set_wins_over_multiset` —;
    `V1S.MsetMode m`; both instances of `V1S.Mode m o`, the v1 metadata `m` tied to the v2 options
    `o` under which the specification `equivB` is read): `v1_set_diff_then_patch`,
    `v1_mset_diff_then_patch`, `v1_setmodes_diff_then_patch`
        ∃ r, V1.patchM a (V1.diffM m a b) = .ok r ∧ V1.equals m r b = true ∧ equivB o r b = true
    and `v1_set_diff_empty_iff_equal`, `v1_mset_diff_empty_iff_equal`,
    `v1_setmodes_diff_empty_iff_equal`.
    THE HASH HYPOTHESIS `V1S.HashFaithful m o (subterms a ++ subterms b)`: among the sub-terms of `a`
    and `b`, equal V1 hash codes only for `equivB`-equivalent nodes. It cannot be dropped from the
    `equivB` part: the v1 hash pre-images have NO kind prefix for lists and objects, so `[]` (every
    reading), `{}` and `""` all hash to the FNV offset basis (`v1_hash_alias_classes`), and
    `[[]]` / `[{}]` under SET have an EMPTY diff and `Equals` TRUE although they are not equivalent
    (`v1_alias_needs_hashFaithful`): this is known finding KF-C04-alias for the v1 hashes (larger
    alias classes than v2). Not a failure of C17 as worded (which speaks of `Equals`); a failure of
    `Equals` against the advertised equivalence. Confirmed on the Go code (/repo/lib).
  * THE TEXT ROUND TRIP (`Render`, then `ReadDiffString`), relative to a codec contract:
    `v1_render_then_read` — for EVERY v1 diff value `d` (list, set, multiset, merge hunks) with
    well-formed hunks, the rendered text is read back as `V1S.normDiff d` (path elements as raw
    documents, values with their Go array type forgotten, void values that render as nothing
    dropped); `v1_render_then_read_raw` — a diff of raw documents without void values is read back
    UNCHANGED; then, for the diff the library computes:
    `v1_text_roundtrip_setmodes` / `_set` / `_mset` (the text is read back as THE diff itself, and
    patching with it yields a document that `Equals` `b`), `v1_text_roundtrip_merge`,
    `v1_text_roundtrip_list` (the diff read back differs from the diff at most in the Go type of
    replaced arrays; patching `a` with the diff READ BACK succeeds and the result `Equals` `b`).
    `v1_text_roundtrip_concrete`: a run without any codec hypothesis (the text is the one the Go code
    prints).
  * NOT PROVED: SET / MULTISET together with setkeys (known findings KF-C01-identperm and
    KF-C01-keytwin live there: v1 forgets the set keys when patching) or together with MERGE;
    precision ≠ 0 (`SetPrecision(eps)`) in every mode; coloured rendering (`Render(COLOR)`; the
    theorems are for `color = false`). Those are covered by correspondence and oracle only.
    No statement of C17 was found false inside the domains above.

  HYPOTHESES and why
    LIST: documents as read from text (`listDoc`, `wf`, `finiteNums`, no void inside: `vfree`),
      `FloatLaws` (a removed value equals itself), and `IdxLaws N` with every array of `a` no longer
      than N (v1 list indices travel as float64: `jsonNumber(i)` in the diff, `int(jn)` in the patch;
      the laws say this conversion is exact below N and for -1; true for N = 2^53).
    MERGE: `a`: `wf`, `rawDoc`; `b`: `wf`, `rawDoc`, `objVoidFree` (void is not a JSON value),
      `finiteNums`; `FloatLaws`.
    SET / MULTISET: `a b`: `setDoc` (plain arrays, sorted unique keys, finite numbers, no `-0`),
      `DPL.memOK` (no void object member); `V1S.HashFaithful` (above); `FloatEq0` (equivalent numbers
      have equal hash codes) and `FloatLaws`.
    TEXT: in addition `vfree a`, `vfree b`, `b` not void (a reader never produces void; in the text a
      void value prints nothing), and TWO HYPOTHESES ABOUT THE RUN, not about the documents:
      `V1S.CodecOK nc d` — encoding/json is external to the model (`NumCodec` = number formatting and
      parsing): the text of each path / non-void value of the diff has no newline and is read back
      as that path / that value up to the Go array type; satisfiable (`V1S.Example.exD_codecOK`,
      `exL_codecOK`, `exM_codecOK`) —, and RENDER SUCCESS `V1.renderM nc false (liftDiff d) = .ok (some
      text)` (the model yields `.ok none` when the codec cannot print a number, an error or
      panic outcome when a path cannot be written).
      `v1_render_then_read`: `V1S.wfHunk` on every hunk (decidable: no nil metadata entry, at least
      one `-` / `+` line, `checkDiffElement`).
-/
import JdProofs.V1ListDiffPatch
import JdProofs.PathSitesV1
import JdProofs.V1MergeRender
import JdProofs.V1SetDiffPatch
import JdProofs.V1KeysDiffPatchF
import JdProofs.V1KeysDiffPatchE
import JdProofs.V1KeysDiffPatchD
import JdProofs.V1KeysDiffPatchC
import JdProofs.V1KeysDiffPatchB
import JdProofs.V1KeysDiffPatchA
import JdProofs.V1Precision
import JdProps.C17Precision
import JdProps.C17PrecisionKeys

set_option autoImplicit false

namespace Jd.Props.C17
open Jd Jd.Spec Jd.V1P

/-- in list mode the v1 `Equals` is the v2 `Equals` without options — hence exactly the advertised
    equivalence (C04), reflexive and symmetric -/
theorem v1_equals_is_v2_equals {m : V1.Metas} (hm : ListMode m) (a b : Json) (ha : a.listDoc = true) :
    V1.equals m a b = equals [] a b :=
  v1_equals_eq hm a b ha

/-- patching a with the diff of a and b succeeds and yields a document Equal to b -/
theorem v1_diff_then_patch (L : FloatLaws) {N : Nat} (I : IdxLaws N) (m : V1.Metas) (hm : ListMode m)
    (a b : Json)
    (ha1 : a.listDoc = true) (ha2 : a.wf = true) (ha3 : a.finiteNums = true) (ha4 : vfree a = true)
    (ha5 : lenLe N a = true)
    (hb1 : b.listDoc = true) (hb2 : b.wf = true) (hb3 : b.finiteNums = true) (hb4 : vfree b = true) :
    ∃ r, V1.patchM a (V1.diffM m a b) = .ok r ∧ V1.equals m r b = true ∧ specEq r b = true ∧
      specEq b r = true ∧ r.listDoc = true :=
  v1_diff_patch_list L I m hm a b ha1 ha2 ha3 ha4 ha5 hb1 hb2 hb3 hb4

/-- the diff is empty exactly when Equals holds -/
theorem v1_diff_empty_iff_equal (m : V1.Metas) (hm : ListMode m) (a b : Json)
    (ha1 : a.rawDoc = true) (ha2 : a.wf = true) (hb1 : b.listDoc = true) (hb2 : b.wf = true) :
    V1.diffM m a b = [] ↔ V1.equals m a b = true :=
  v1_diff_empty_iff_equals m hm a b ha1 ha2 hb1 hb2

/-- `Setkeys` alone is list mode in v1 -/
example : ListMode [V1.Meta.setkeys ["id"]] := ListMode.setkeys ["id"]

/-! ## MERGE reading, in memory -/

/-- **C17, MERGE reading, in memory.** For documents as read from JSON text (`rawDoc`, `wf`), the
    second one with finite numbers and no void member, and metadata `MergeMode m` (MERGE, no SET, no
    MULTISET, precision 0; setkeys allowed): `a.Patch(a.Diff(b, m...))` succeeds and the result
    `Equals` `b`, is structurally equal to it (`specEq`) and is a list document. `b` MAY contain
    nulls. -/
theorem v1_merge_diff_then_patch (L : FloatLaws) {m : V1.Metas} (hm : V1M.MergeMode m) (a b : Json)
    (haw : a.wf = true) (har : a.rawDoc = true)
    (hbw : b.wf = true) (hbr : b.rawDoc = true) (hbv : Merge.objVoidFree b = true)
    (hbf : b.finiteNums = true) :
    ∃ r, V1.patchM a (V1.diffM m a b) = .ok r ∧ V1.equals m r b = true ∧ specEq r b = true ∧
      r.listDoc = true :=
  V1S.v1_merge_diff_patch L hm a b haw har hbw hbr hbv hbf

/-- MERGE reading: the diff is empty exactly when `Equals` holds -/
theorem v1_merge_diff_empty_iff_equal (L : FloatLaws) {m : V1.Metas} (hm : V1M.MergeMode m)
    (a b : Json) (haw : a.wf = true) (har : a.rawDoc = true)
    (hbw : b.wf = true) (hbr : b.rawDoc = true) (hbv : Merge.objVoidFree b = true)
    (hbf : b.finiteNums = true) :
    V1.diffM m a b = [] ↔ V1.equals m a b = true :=
  V1S.v1_merge_diff_empty_iff_equals L hm a b haw har hbw hbr hbv hbf

/-! ## SET and MULTISET readings, in memory (no setkeys, strict strategy, precision 0) -/

/-- **C17, SET or MULTISET reading, in memory** (`Mode m o`: v1 metadata `m` selecting the reading
    of the options `o`, no setkeys, no MERGE, precision 0): the library call
    `a.Patch(a.Diff(b, m...))` succeeds and the result `Equals` `b` (v1 `Equals` with the same
    metadata) and is equivalent to `b` for the advertised equivalence (arrays as sets / bags) -/
theorem v1_setmodes_diff_then_patch (F : FloatEq0) (L : FloatLaws) {m : V1.Metas} {o : Opts}
    (M : V1S.Mode m o) (a b : Json)
    (ha : a.setDoc = true) (hb : b.setDoc = true)
    (ha' : DPL.memOK a = true) (hb' : DPL.memOK b = true)
    (HF : V1S.HashFaithful m o (subterms a ++ subterms b)) :
    ∃ r, V1.patchM a (V1.diffM m a b) = .ok r ∧ V1.equals m r b = true ∧ equivB o r b = true :=
  V1S.v1_diff_patch_setmodes F L M a b ha hb ha' hb' HF

/-- **C17, SET reading, in memory** (`SetMode m`: SET present — it wins over MULTISET whatever the
    order —, no setkeys, no MERGE, precision 0 or absent) -/
theorem v1_set_diff_then_patch (F : FloatEq0) (L : FloatLaws) {m : V1.Metas} (hm : V1S.SetMode m)
    (a b : Json) (ha : a.setDoc = true) (hb : b.setDoc = true)
    (ha' : DPL.memOK a = true) (hb' : DPL.memOK b = true)
    (HF : V1S.HashFaithful m [.set] (subterms a ++ subterms b)) :
    ∃ r, V1.patchM a (V1.diffM m a b) = .ok r ∧ V1.equals m r b = true ∧
      equivB [.set] r b = true :=
  V1S.v1_diff_patch_set F L hm a b ha hb ha' hb' HF

/-- **C17, MULTISET reading, in memory** (`MsetMode m`: MULTISET present, SET absent, no setkeys, no
    MERGE, precision 0 or absent) -/
theorem v1_mset_diff_then_patch (F : FloatEq0) (L : FloatLaws) {m : V1.Metas}
    (hm : V1S.MsetMode m) (a b : Json) (ha : a.setDoc = true) (hb : b.setDoc = true)
    (ha' : DPL.memOK a = true) (hb' : DPL.memOK b = true)
    (HF : V1S.HashFaithful m [.mset] (subterms a ++ subterms b)) :
    ∃ r, V1.patchM a (V1.diffM m a b) = .ok r ∧ V1.equals m r b = true ∧
      equivB [.mset] r b = true :=
  V1S.v1_diff_patch_mset F L hm a b ha hb ha' hb' HF

/-- SET / MULTISET readings: the diff is empty exactly when `Equals` holds -/
theorem v1_setmodes_diff_empty_iff_equal (F : FloatEq0) (L : FloatLaws) {m : V1.Metas} {o : Opts}
    (M : V1S.Mode m o) (a b : Json) (ha : a.setDoc = true) (hb : b.setDoc = true)
    (ha' : DPL.memOK a = true) (hb' : DPL.memOK b = true)
    (HF : V1S.HashFaithful m o (subterms a ++ subterms b)) :
    V1.diffM m a b = [] ↔ V1.equals m a b = true :=
  V1S.v1_diff_empty_iff_equals_setmodes F L M a b ha hb ha' hb' HF

theorem v1_set_diff_empty_iff_equal (F : FloatEq0) (L : FloatLaws) {m : V1.Metas}
    (hm : V1S.SetMode m) (a b : Json) (ha : a.setDoc = true) (hb : b.setDoc = true)
    (ha' : DPL.memOK a = true) (hb' : DPL.memOK b = true)
    (HF : V1S.HashFaithful m [.set] (subterms a ++ subterms b)) :
    V1.diffM m a b = [] ↔ V1.equals m a b = true :=
  V1S.v1_diff_empty_iff_equals_set F L hm a b ha hb ha' hb' HF

theorem v1_mset_diff_empty_iff_equal (F : FloatEq0) (L : FloatLaws) {m : V1.Metas}
    (hm : V1S.MsetMode m) (a b : Json) (ha : a.setDoc = true) (hb : b.setDoc = true)
    (ha' : DPL.memOK a = true) (hb' : DPL.memOK b = true)
    (HF : V1S.HashFaithful m [.mset] (subterms a ++ subterms b)) :
    V1.diffM m a b = [] ↔ V1.equals m a b = true :=
  V1S.v1_diff_empty_iff_equals_mset F L hm a b ha hb ha' hb' HF

/-- the metadata predicates are inhabited as the caller writes them; v1 `dispatch` gives SET
    priority over MULTISET whatever the order -/
theorem set_wins_over_multiset :
    V1S.SetMode [.set] ∧ V1S.MsetMode [.mset] ∧ V1S.SetMode [.mset, .set] ∧
    V1M.MergeMode [.merge] :=
  ⟨V1S.SetMode.single, V1S.MsetMode.single, V1S.SetMode.both, V1M.MergeMode.single⟩

/-! ### Counter-witness: `HashFaithful` is needed (KF-C04-alias for the v1 hashes) -/

/-- the alias classes of the v1 hash: lists and objects have NO kind prefix in the pre-image, so the
    empty array (under every reading), the empty object and the empty string all hash to the FNV
    offset basis (v2 has only `[]` under SET / MULTISET against `""`) -/
theorem v1_hash_alias_classes (m : V1.Metas) :
    V1.hashCode m (.arr .raw []) = fnvOffset ∧ V1.hashCode m (.obj []) = fnvOffset ∧
    V1.hashCode m (.str "") = fnvOffset :=
  V1S.Example.alias_classes m

/-- `[[]]` against `[{}]` under SET: both are documents of the domain, the diff is EMPTY (so the
    patched document is `a` itself) and `Equals` is TRUE, but they are not equivalent as sets:
    `HashFaithful` cannot be dropped from the `equivB` part -/
theorem v1_alias_needs_hashFaithful :
    V1S.Example.alA.setDoc = true ∧ V1S.Example.alB.setDoc = true ∧
    V1.diffM [.set] V1S.Example.alA V1S.Example.alB = [] ∧
    V1.equals [.set] V1S.Example.alA V1S.Example.alB = true ∧
    equivB [.set] V1S.Example.alA V1S.Example.alB = false :=
  V1S.Example.alias_needs_hashFaithful

example : V1S.Example.alA = .arr .raw [.arr .raw []] ∧ V1S.Example.alB = .arr .raw [.obj []] :=
  ⟨rfl, rfl⟩

/-! ## The text round trip: `Diff.Render`, then `ReadDiffString`

  Relative to the codec contract `V1S.CodecOK nc d` and to render success (see the header). -/

/-- **every v1 diff value** (list, set, multiset and merge hunks alike) whose hunks are well formed
    (`wfHunk`, decidable) is read back from its rendered text as its normal form `normDiff d`: path
    elements as raw documents, values with the Go array type forgotten (`untag`), void values that
    render as nothing dropped (the void new value of a MERGE hunk is the bare `+` line and is kept).
    On the TEXT: through `strings.Split` and the four-state line reader. -/
theorem v1_render_then_read (nc : NumCodec) (d : V1.VDiff) (text : String)
    (hw : ∀ h ∈ d, V1S.wfHunk h = true) (hc : V1S.CodecOK nc d)
    (hr : V1.renderM nc false (V1.liftDiff d) = .ok (some text)) :
    V1.readDiffM nc text = .ok (V1S.normDiff d) :=
  V1S.v1_read_render nc d text hw hc hr

/-- a diff made of raw documents, no void value, not a merge diff (`V1S.GH` on every hunk) is read
    back from its rendered text UNCHANGED -/
theorem v1_render_then_read_raw (nc : NumCodec) (d : V1.VDiff) (text : String)
    (hg : ∀ h ∈ d, V1S.GH h) (hc : V1S.CodecOK nc d)
    (hr : V1.renderM nc false (V1.liftDiff d) = .ok (some text)) :
    V1.readDiffM nc text = .ok d :=
  V1S.v1_read_render_raw nc d text hg hc hr

/-- **C17, SET / MULTISET readings, through the text**: the diff read back from its rendered text IS
    the diff, hence patching `a` with it yields a document that `Equals` `b` -/
theorem v1_text_roundtrip_setmodes (F : FloatEq0) (L : FloatLaws) (nc : NumCodec)
    {m : V1.Metas} {o : Opts} (M : V1S.Mode m o) (a b : Json)
    (ha : a.setDoc = true) (hb : b.setDoc = true)
    (ha' : DPL.memOK a = true) (hb' : DPL.memOK b = true)
    (va : vfree a = true) (vb : vfree b = true) (hbv : b.isVoid = false)
    (HF : V1S.HashFaithful m o (subterms a ++ subterms b))
    (hc : V1S.CodecOK nc (V1.diffM m a b)) (text : String)
    (hr : V1.renderM nc false (V1.liftDiff (V1.diffM m a b)) = .ok (some text)) :
    V1.readDiffM nc text = .ok (V1.diffM m a b) ∧
    ∃ r, V1.patchM a (V1.diffM m a b) = .ok r ∧ V1.equals m r b = true ∧ equivB o r b = true :=
  V1S.v1_text_roundtrip_setmodes F L nc M a b ha hb ha' hb' va vb hbv HF hc text hr

/-- SET reading, through the text, the metadata as the caller gives them: the document obtained by
    patching `a` with the diff READ BACK `Equals` `b` -/
theorem v1_text_roundtrip_set (F : FloatEq0) (L : FloatLaws) (nc : NumCodec)
    {m : V1.Metas} (hm : V1S.SetMode m) (a b : Json)
    (ha : a.setDoc = true) (hb : b.setDoc = true)
    (ha' : DPL.memOK a = true) (hb' : DPL.memOK b = true)
    (va : vfree a = true) (vb : vfree b = true) (hbv : b.isVoid = false)
    (HF : V1S.HashFaithful m [.set] (subterms a ++ subterms b))
    (hc : V1S.CodecOK nc (V1.diffM m a b)) (text : String)
    (hr : V1.renderM nc false (V1.liftDiff (V1.diffM m a b)) = .ok (some text)) :
    ∃ d' r, V1.readDiffM nc text = .ok d' ∧ V1.patchM a d' = .ok r ∧ V1.equals m r b = true ∧
      equivB [.set] r b = true := by
  obtain ⟨h1, r, h2, h3, h4⟩ :=
    V1S.v1_text_roundtrip_setmodes F L nc hm.mode a b ha hb ha' hb' va vb hbv HF hc text hr
  exact ⟨_, r, h1, h2, h3, h4⟩

/-- MULTISET reading, through the text -/
theorem v1_text_roundtrip_mset (F : FloatEq0) (L : FloatLaws) (nc : NumCodec)
    {m : V1.Metas} (hm : V1S.MsetMode m) (a b : Json)
    (ha : a.setDoc = true) (hb : b.setDoc = true)
    (ha' : DPL.memOK a = true) (hb' : DPL.memOK b = true)
    (va : vfree a = true) (vb : vfree b = true) (hbv : b.isVoid = false)
    (HF : V1S.HashFaithful m [.mset] (subterms a ++ subterms b))
    (hc : V1S.CodecOK nc (V1.diffM m a b)) (text : String)
    (hr : V1.renderM nc false (V1.liftDiff (V1.diffM m a b)) = .ok (some text)) :
    ∃ d' r, V1.readDiffM nc text = .ok d' ∧ V1.patchM a d' = .ok r ∧ V1.equals m r b = true ∧
      equivB [.mset] r b = true := by
  obtain ⟨h1, r, h2, h3, h4⟩ :=
    V1S.v1_text_roundtrip_setmodes F L nc hm.mode a b ha hb ha' hb' va vb hbv HF hc text hr
  exact ⟨_, r, h1, h2, h3, h4⟩

/-- **C17, MERGE reading, through the text**: the rendered v1 merge diff is read back (as the diff
    with its values untagged: a replaced array comes back as a plain `jsonArray`), and patching `a`
    with the diff READ BACK yields a document that `Equals` `b` -/
theorem v1_text_roundtrip_merge (L : FloatLaws) (nc : NumCodec) {m : V1.Metas}
    (hm : V1M.MergeMode m) (a b : Json) (haw : a.wf = true) (har : a.rawDoc = true)
    (hbw : b.wf = true) (hbr : b.rawDoc = true) (hbv : Merge.objVoidFree b = true)
    (hbf : b.finiteNums = true)
    (hc : V1S.CodecOK nc (V1.diffM m a b)) (text : String)
    (hr : V1.renderM nc false (V1.liftDiff (V1.diffM m a b)) = .ok (some text)) :
    ∃ d' r, V1.readDiffM nc text = .ok d' ∧ V1.patchM a d' = .ok r ∧ V1.equals m r b = true ∧
      specEq r b = true ∧ r.listDoc = true :=
  V1S.v1_text_roundtrip_merge L nc hm a b haw har hbw hbr hbv hbf hc text hr

/-- **C17, LIST reading, through the text**: the rendered v1 list diff is read back (the v1 list
    diff emits `jsonList`-typed values when an array is replaced by / replaces a non-array; they come
    back as plain arrays), and patching `a` with the diff READ BACK yields a document that `Equals`
    `b`; `b` not void (a reader never produces void) -/
theorem v1_text_roundtrip_list (L : FloatLaws) {N : Nat} (I : IdxLaws N) (nc : NumCodec)
    (m : V1.Metas) (hm : ListMode m) (a b : Json)
    (ha1 : a.listDoc = true) (ha2 : a.wf = true) (ha3 : a.finiteNums = true) (ha4 : vfree a = true)
    (ha5 : lenLe N a = true)
    (hb1 : b.listDoc = true) (hb2 : b.wf = true) (hb3 : b.finiteNums = true) (hb4 : vfree b = true)
    (hbv : b.isVoid = false)
    (hc : V1S.CodecOK nc (V1.diffM m a b)) (text : String)
    (hr : V1.renderM nc false (V1.liftDiff (V1.diffM m a b)) = .ok (some text)) :
    ∃ d' r, V1.readDiffM nc text = .ok d' ∧ V1.patchM a d' = .ok r ∧ V1.equals m r b = true ∧
      specEq r b = true :=
  V1S.v1_text_roundtrip_list L I nc m hm a b ha1 ha2 ha3 ha4 ha5 hb1 hb2 hb3 hb4 hbv hc text hr

/-- **the whole of C17 on a concrete pair, SET reading, through the text, no codec hypothesis**:
    `{"s":[true,null,{"k":null}]}` → `{"s":[{"k":null},null,false],"t":null}`: the library's diff is
    rendered (the text shown, evaluated by the kernel; the same text as the Go code prints), read
    back (giving the diff itself), and patching with it yields a document that `Equals` the target;
    only the IEEE-754 laws are left as assumptions -/
theorem v1_text_roundtrip_concrete (F : FloatEq0) (L : FloatLaws) :
    V1.renderM NativeRT.exCodec false
        (V1.liftDiff (V1.diffM [.set] V1S.Example.exA V1S.Example.exB)) =
      .ok (some "@ [\"s\",[\"set\"],{}]\n- true\n+ false\n@ [\"t\"]\n+ null\n") ∧
    V1.readDiffM NativeRT.exCodec "@ [\"s\",[\"set\"],{}]\n- true\n+ false\n@ [\"t\"]\n+ null\n" =
      .ok (V1.diffM [.set] V1S.Example.exA V1S.Example.exB) ∧
    ∃ r, V1.patchM V1S.Example.exA (V1.diffM [.set] V1S.Example.exA V1S.Example.exB) = .ok r ∧
      V1.equals [.set] r V1S.Example.exB = true ∧ equivB [.set] r V1S.Example.exB = true :=
  V1S.Example.ex_text_roundtrip F L

/-! ## Non-vacuity

  The hypotheses of the in-memory theorems hold on concrete pairs (only the IEEE-754 laws stay
  assumptions); the codec contract is satisfiable for a list-mode hunk carrying a `jsonList`-typed
  value, for the set diff above and for a merge diff with a deletion. -/

example : V1S.Example.exA = .obj [("s", .arr .raw [.bool true, .null, .obj [("k", .null)]])] ∧
    V1S.Example.exB =
      .obj [("s", .arr .raw [.obj [("k", .null)], .null, .bool false]), ("t", .null)] := ⟨rfl, rfl⟩

example (F : FloatEq0) (L : FloatLaws) :
    ∃ r, V1.patchM V1S.Example.exA (V1.diffM [.set] V1S.Example.exA V1S.Example.exB) = .ok r ∧
      V1.equals [.set] r V1S.Example.exB = true ∧ equivB [.set] r V1S.Example.exB = true :=
  V1S.Example.ex_set F L

example (F : FloatEq0) (L : FloatLaws) :
    ∃ r, V1.patchM V1S.Example.exA (V1.diffM [.mset] V1S.Example.exA V1S.Example.exB) = .ok r ∧
      V1.equals [.mset] r V1S.Example.exB = true ∧ equivB [.mset] r V1S.Example.exB = true :=
  V1S.Example.ex_mset F L

example : V1S.HashFaithful [.set] [.set]
      (subterms V1S.Example.exA ++ subterms V1S.Example.exB) ∧
    V1S.HashFaithful [.mset] [.mset] (subterms V1S.Example.exA ++ subterms V1S.Example.exB) :=
  ⟨V1S.Example.ex_hashFaithful_set, V1S.Example.ex_hashFaithful_mset⟩

/-- MERGE in memory, a target holding `null` is reproduced -/
example (L : FloatLaws) :
    ∃ r, V1.patchM (.obj [("a", .str "x")])
        (V1.diffM [.merge] (.obj [("a", .str "x")]) (.obj [("a", .null)])) = .ok r ∧
      V1.equals [.merge] r (.obj [("a", .null)]) = true ∧ specEq r (.obj [("a", .null)]) = true ∧
      r.listDoc = true :=
  v1_merge_diff_then_patch L V1M.MergeMode.single _ _ (by decide) (by decide) (by decide)
    (by decide) (by decide) (by decide)

/-- the codec contract is satisfiable: the set diff of the concrete run, a list-mode hunk with a
    `jsonList`-typed removed value, a merge diff with a deletion (bare `+` line) -/
example : V1S.CodecOK NativeRT.exCodec V1S.Example.exD ∧
    V1S.CodecOK NativeRT.exCodec V1S.Example.exL ∧ V1S.CodecOK NativeRT.exCodec V1S.Example.exM :=
  ⟨V1S.Example.exD_codecOK, V1S.Example.exL_codecOK, V1S.Example.exM_codecOK⟩

/-- `v1_render_then_read` instantiated: `@ ["a"]  - [null]  + true`, the removed `jsonList` array
    comes back as a plain array -/
example : V1.readDiffM NativeRT.exCodec "@ [\"a\"]\n- [null]\n+ true\n" =
    .ok [{ path := [.str "a"], old := [.arr .raw [.null]], new := [.bool true] }] :=
  v1_render_then_read NativeRT.exCodec V1S.Example.exL _ (by decide) V1S.Example.exL_codecOK
    V1S.Example.exL_render

/-! ### v1: stored paths are copies (see JdProps/C01.lean for the v2 statement and what it is for) -/

/-- lib/: every path stored in a hunk by the diff-building code is a copy; every path expression is safe -/
theorem v1_stored_paths_are_copies :
    (Gen.pathSites.filter (fun s => Jd.PathSites.isV1 s && !Jd.PathSites.isWrite s)).all Jd.PathSites.ok = true :=
  Jd.PathSites.v1_diff_paths_ok

/-! ## v1: SET / MULTISET with MERGE, SET + Setkeys, MULTISET + Setkeys, MERGE + Setkeys
   — proofs in JdProofs/V1KeysDiffPatchA … F.lean (ns `Jd.V1K`)

   `V1K.MMode m o`: MERGE present, the array reading of `m` is that of `o` ∈ {set, mset}, no setkeys, precision 0.
   `V1K.KMode m ks`: SET present, `Setkeys(ks)`, `ks ≠ []`, no MERGE, precision 0. `V1K.KeysHyp m ks a b`: seven decidable
   hypotheses; six are shown necessary by witnesses that replay on the Go library (`V1K.Witness.*`), `ksep` is a pure
   64-bit collision class. `hk` ("every object member of an array of `a` carries at least one set key") is needed:
   a member with none of the keys is addressed by the whole member, the diff applies in memory only through
   aliasing and fails through the text — known finding KF-C17-keyless (`keyless_member_fails_through_text`). -/

/-- **C17, v1 SET+MERGE / MULTISET+MERGE in memory** (b may hold nulls) -/
theorem v1_merge_diff_patch_setmodes (F : FloatEq0) (L : FloatLaws) {m : V1.Metas} {o : Opts}
    (M : Jd.V1K.MMode m o) (a b : Json) (ha : a.setDoc = true) (hb : b.setDoc = true)
    (hb' : Jd.DPL.memOK b = true) (HF : Jd.V1S.HashFaithful m o (subterms a ++ subterms b)) :
    ∃ r, V1.patchM a (V1.diffM m a b) = .ok r ∧ V1.equals m r b = true ∧ equivB o r b = true :=
  Jd.V1K.v1_merge_diff_patch_setmodes F L M a b ha hb hb' HF

/-- … and the diff is empty exactly when Equals holds -/
theorem v1_merge_diff_empty_iff_equals_setmodes (F : FloatEq0) (L : FloatLaws) {m : V1.Metas} {o : Opts}
    (M : Jd.V1K.MMode m o) (a b : Json) (ha : a.setDoc = true) (hb : b.setDoc = true)
    (hb' : Jd.DPL.memOK b = true) (HF : Jd.V1S.HashFaithful m o (subterms a ++ subterms b)) :
    V1.diffM m a b = [] ↔ V1.equals m a b = true :=
  Jd.V1K.v1_merge_diff_empty_iff_equals_setmodes F L M a b ha hb hb' HF

/-- **C17, v1 SET + Setkeys in memory** -/
theorem v1_diff_patch_setkeys (F : FloatEq0) (L : FloatLaws) {m : V1.Metas} {ks : List String}
    (K : Jd.V1K.KMode m ks) (a b : Json)
    (ha : a.setDoc = true) (hb : b.setDoc = true)
    (ha' : Jd.DPL.memOK a = true) (hb' : Jd.DPL.memOK b = true) (H : Jd.V1K.KeysHyp m ks a b) :
    ∃ r, V1.patchM a (V1.diffM m a b) = .ok r ∧ V1.equals m r b = true ∧
      equivB [.set] r b = true ∧ V1.hashCode m r = V1.hashCode m b :=
  Jd.V1K.v1_diff_patch_setkeys F L K a b ha hb ha' hb' H

/-- … the diff is empty exactly when Equals holds -/
theorem v1_diff_empty_iff_equals_setkeys (F : FloatEq0) (L : FloatLaws) {m : V1.Metas} {ks : List String}
    (K : Jd.V1K.KMode m ks) (a b : Json)
    (ha : a.setDoc = true) (hb : b.setDoc = true)
    (ha' : Jd.DPL.memOK a = true) (hb' : Jd.DPL.memOK b = true) (H : Jd.V1K.KeysHyp m ks a b) :
    V1.diffM m a b = [] ↔ V1.equals m a b = true :=
  Jd.V1K.v1_diff_empty_iff_equals_setkeys F L K a b ha hb ha' hb' H

/-- KF-C17-keyless on the model (replayed on Go): `[{"v":"1","w":"1"}]` → `[{"v":"2","w":"2"}]` under SET,
    Setkeys(id): the printed diff is read back, and applying it to `a` fails -/
theorem keyless_member_fails_through_text (nc : NumCodec)
    (hc : Jd.V1S.CodecOK nc (V1.diffM Jd.V1K.Witness.m1 Jd.V1K.Witness.ha Jd.V1K.Witness.hb)) (text : String)
    (hr : V1.renderM nc false (V1.liftDiff (V1.diffM Jd.V1K.Witness.m1 Jd.V1K.Witness.ha Jd.V1K.Witness.hb))
      = .ok (some text)) :
    ∃ d', V1.readDiffM nc text = .ok d' ∧ V1.patchM Jd.V1K.Witness.ha d' = .err :=
  Jd.V1K.keyless_member_breaks_text nc hc text hr

/-! ## v1 with SetPrecision(eps ≠ 0), list reading — proofs in JdProofs/V1Precision.lean (ns `Jd.V1Pr`) -/

section
open Jd Jd.Spec Jd.DPL Jd.V1P Jd.V1Pr Jd.V1S

/-- **C17 with SetPrecision(eps), eps finite and non-negative, list reading**: v1 Diff honours the precision (unlike v2), Patch checks old values exactly — they are values of `a` itself — so the patch applies and the result Equals `b` under the metadata (it keeps the numbers of `a` that were within eps); `precNN` is needed (`V1Pr.precNN_needed`) -/
theorem v1_diff_patch_list_precision (L : FloatLaws) {N : Nat} (I : IdxLaws N) (m : V1.Metas)
    (hm : PrecMode m) (a b : Json)
    (ha1 : a.listDoc = true) (ha2 : a.wf = true) (ha3 : a.finiteNums = true) (ha4 : vfree a = true)
    (ha5 : lenLe N a = true)
    (hb1 : b.listDoc = true) (hb2 : b.wf = true) (hb3 : b.finiteNums = true) (hb4 : vfree b = true) :
    ∃ r, V1.patchM a (V1.diffM m a b) = .ok r ∧ V1.equals m r b = true ∧
      V1.equals m b r = true ∧ equivB (optsOf m) r b = true ∧ r.listDoc = true ∧ r.wf = true :=
  Jd.V1Pr.v1_diff_patch_list_precision (L := L) (N := N) (I := I) (m := m) (hm := hm) (a := a) (b := b) (ha1 := ha1) (ha2 := ha2) (ha3 := ha3) (ha4 := ha4) (ha5 := ha5) (hb1 := hb1) (hb2 := hb2) (hb3 := hb3) (hb4 := hb4)

/-- in v1 the diff is empty exactly when Equals holds, for ANY precision (no float law): KF-C05-precision is a v2 finding only -/
theorem v1_diff_empty_iff_equals_precision (m : V1.Metas) (hm : ListReading m) (a b : Json)
    (ha1 : a.rawDoc = true) (ha2 : a.wf = true) (hb1 : b.listDoc = true) (hb2 : b.wf = true) :
    V1.diffM m a b = [] ↔ V1.equals m a b = true :=
  Jd.V1Pr.v1_diff_empty_iff_equals_precision (m := m) (hm := hm) (a := a) (b := b) (ha1 := ha1) (ha2 := ha2) (hb1 := hb1) (hb2 := hb2)

/-- … and after Render and ReadDiffString -/
theorem v1_text_roundtrip_list_precision (L : FloatLaws) {N : Nat} (I : IdxLaws N) (nc : NumCodec)
    (m : V1.Metas) (hm : PrecMode m) (a b : Json)
    (ha1 : a.listDoc = true) (ha2 : a.wf = true) (ha3 : a.finiteNums = true) (ha4 : vfree a = true)
    (ha5 : lenLe N a = true)
    (hb1 : b.listDoc = true) (hb2 : b.wf = true) (hb3 : b.finiteNums = true) (hb4 : vfree b = true)
    (hbv : b.isVoid = false)
    (hc : CodecOK nc (V1.diffM m a b)) (text : String)
    (hr : V1.renderM nc false (V1.liftDiff (V1.diffM m a b)) = .ok (some text)) :
    ∃ d' r, V1.readDiffM nc text = .ok d' ∧ V1.patchM a d' = .ok r ∧ V1.equals m r b = true ∧
      equivB (optsOf m) r b = true :=
  Jd.V1Pr.v1_text_roundtrip_list_precision (L := L) (N := N) (I := I) (nc := nc) (m := m) (hm := hm) (a := a) (b := b) (ha1 := ha1) (ha2 := ha2) (ha3 := ha3) (ha4 := ha4) (ha5 := ha5) (hb1 := hb1) (hb2 := hb2) (hb3 := hb3) (hb4 := hb4) (hbv := hbv) (hc := hc) (text := text) (hr := hr)

end

/-! ### Option plumbing: the regenerated table of the calls inside the functions behind this property is proved equal to the
    model's in JdProofs/CondSites/P_C17.lean (`option_plumbing_as_modelled_C17`), built and audited by this property's check. -/

end Jd.Props.C17
