/-
  Property C07 — a diff reports only real differences: no no-op, no redundant hunk.
  Statement file (proofs in JdProofs/RealDiff.lean, namespace `Jd.Real`).

  Model side: `diffM o a b` (JdModel/Diff.lean) is `a.Diff(b, options...)`; `diffNode o m a b p` is
  the recursive `diff` of one node under the path prefix `p` (`m`: merge strategy); `equals o x y` is
  `x.Equals(y, options...)`; `hashCode o x` is the 64-bit FNV-1a hash code by which list elements are
  matched. `applyStrictAll a d` (JdSpec/HunkSem.lean) is the documented meaning of a sequence of
  strict hunks (every removed value and context line checked), `specEq` (JdSpec/CanonEq.lean) is
  structural equality of documents (ordered arrays, exact numbers).
  Vocabulary of this file (definitions of `Jd.Real`, written out in the statements where short):
    `keysOnly q`   the path `q` is made of object keys only (`[]`, the root, included);
    `getAt a q`    what the document `a` holds at the key / index path `q` (`none`: nothing there);
    `asList v`     `v` with the Go dynamic type of its TOP array node forgotten (`jsonArray.diff`
                   reports a removed array as a `jsonList`);
    `l₁.Sublist l₂` / `l₁ <+: l₂`   sublist (order kept, gaps allowed) / prefix, of core Lean.

  WHAT IS STATED (LIST reading of arrays `dispatchTag o = .list`, STRICT strategy
  `isMerge o = false`, except clause 0)
   0. `paths_extend_prefix`: EVERY option set, BOTH strategies, all documents: a sub-diff only emits
      hunks at or below the path it was given (so a hunk speaks about the sub-document it is
      addressed to).
   1. "equal sub-documents are never mentioned": `equal_subdocument_not_mentioned` (object members
      at any depth below keys), `equal_member_not_mentioned` (the one-level form).
   2. "the values it removes are present in a and the values it adds are present in b at the
      addressed location":
      * two ARRAYS OF SCALARS (the elements of the first array are scalars; this is the case in
        which a list diff does not recurse into an element): `removed_added_are_sublists` (all removed
        values, in hunk order, a sublist of `a`; all added values a sublist of `b`),
        `removed_in_a_added_in_b` (element form), `list_hunk_located` (hunk by hunk: `remove` is a
        contiguous run of `a`, `add` the contiguous run of `b` that stands at the addressed index,
        `before` / `after` are the neighbouring elements or the array boundary marker `void`);
      * OBJECT MEMBERS at any depth below keys and THE ROOT, arrays allowed anywhere as (opaque)
        values: `keyed_hunk_real` (all seven clauses) and its plain reading `keyed_hunk_values`;
      * an array of scalars held by an object member at any depth below keys:
        `array_below_keys_hunk_real`.
   3. "what it removes differs from what it adds" (arrays of scalars): `removed_added_hash_apart`
      (position by position different hash codes, and `remove ≠ add`), its loop-level form
      `remove_ne_add`, and `removed_not_equals_added` (no hash left in the statement: the j-th removed
      and the j-th added value are not `Equals`). For object members / the root it is the last clause
      of `keyed_hunk_real`.
   4. "no hunk is redundant" (two arrays of scalars, against the reference meaning of hunks):
      `no_redundant_hunk_scalar_arrays` (ANY single hunk left out: if the remaining hunks apply at
      all, the result is not structurally equal to `b`) and `no_redundant_hunk_length` (no hash and
      no float hypothesis, but only for a left-out hunk with `|remove| ≠ |add|`: the result has the
      wrong length).

  HYPOTHESES and why
    `dispatchTag o = .list`, `isMerge o = false`, `precOf o = 0`  the reading of the property that is
       proved; with a Precision option C07 inherits the known finding KF-C05-precision.
    `a.rawDoc`  the left document is as read from JSON / YAML (every array a plain `jsonArray`); a
       `jsonList`-typed array against a plain array with the same elements gives a non-empty diff
       (`DE.diff_list_vs_array_nonempty`; not reachable through the public Go API).
    `Dom x` = `listDoc` ∧ `wf` (unique sorted keys, what a Go map guarantees) ∧ `finiteNums` ∧
       `noNegZero`; `FloatEq0` (`|x - y| ≤ +0` only for `x = y`), `FloatLaws`: `Float` is opaque to
       the kernel. NaN is outside: `diffM [] NaN NaN` is one hunk with `remove = add = [NaN]`
       (`Equals` is not reflexive on NaN; the library rejects non-finite numbers when a node is built).
    `ht`, `ht'`, `htt` (array type tags)  both arrays are read as lists and the pair is not
       "typed list against plain array" (see `rawDoc`); for documents read from text `t = t' = .raw`.
    `scalars`  the elements of the FIRST array are scalars.
    `HashOK` (clause 4 only)  no FNV collision between an element of `a` and an element of `b`
       (elements are matched by hash code; with a collision the diff is not even correct, C01).
    `Good x` (clause 4) = `listDoc` ∧ `wf` ∧ `finiteNums` ∧ `memOK`, the domain of C01.

  WHAT IS NOT PROVED (covered by correspondence and by the leave-one-out oracle of ./check C07 only)
    * SET / MULTISET / SetKeys readings and the MERGE strategy (except clause 0);
    * list hunks whose elements are CONTAINERS of the same kind (a sub-diff inside a list: the index
      in the path is an index of the partially patched array) — clauses 2, 3 and 4 ask `scalars`;
    * "no redundant hunk" for OBJECT diffs and nested containers; clause 4 is about the reference
      interpreter `applyStrictAll` (the library's `Patch` equals it on these hunks by C03).
-/
import JdProofs.RealDiff

namespace Jd.Props.C07
open Jd Jd.Spec Jd.DPL Jd.Real

/-! ## 0. a sub-diff speaks about the sub-document it is addressed to -/

/-- every option set (list, SET, MULTISET, SetKeys, Precision), both strategies, all documents: every
    hunk of the diff of `a` and `b` under the path prefix `p` has `p` as a prefix of its path -/
theorem paths_extend_prefix (o : Opts) (m : Bool) (a b : Json) (p : Path) :
    ∀ h ∈ diffNode o m a b p, p <+: h.path :=
  diff_paths_extend_general o m a b p

/-! ## 1. equal sub-documents are never mentioned -/

/-- if `a` and `b` hold `Equal` values at the key path `q` (any depth below object keys; `q = []` is
    the whole document), no hunk of `a.Diff(b)` has a path at or below `q` -/
theorem equal_subdocument_not_mentioned (F : FloatEq0) {o : Opts} (ho : dispatchTag o = .list)
    (hp : precOf o = 0) (hm : isMerge o = false) {a b : Json} (hr : a.rawDoc = true) (ha : Dom a)
    (hb : Dom b) {q : Path} (hq : keysOnly q = true) {v v' : Json} (hv : getAt a q = some v)
    (hv' : getAt b q = some v') (he : equals o v v' = true) :
    ∀ h ∈ diffM o a b, ¬ q <+: h.path :=
  diffM_equal_subdoc_not_mentioned F ho hp hm hr ha hb hq hv hv' he

/-- the advertised one-level form: an object member with `Equal` values on both sides is not
    mentioned (under any path prefix `p`) -/
theorem equal_member_not_mentioned (F : FloatEq0) {o : Opts} (ho : dispatchTag o = .list)
    (hp : precOf o = 0) {kvs kvs' : List (String × Json)} (hr : (Json.obj kvs).rawDoc = true)
    (ha : Dom (.obj kvs)) (hb : Dom (.obj kvs')) {k : String} {v v' : Json}
    (hl : alookup k kvs = some v) (hl' : alookup k kvs' = some v') (he : equals o v v' = true)
    (p : Path) :
    ∀ h ∈ diffNode o false (.obj kvs) (.obj kvs') p, ¬ (p ++ [PathElem.key k]) <+: h.path :=
  Real.equal_member_not_mentioned F ho hp hr ha hb hl hl' he p

/-! ## 2a. arrays of scalars: removed values are a's, added values are b's, where the hunk says -/

/-- all removed values of `a.Diff(b)`, in hunk order, form a sublist of the array `a`; all added
    values form a sublist of the array `b` (nothing is invented, nothing is reported twice, the
    order of the documents is kept) -/
theorem removed_added_are_sublists {o : Opts} (ho : dispatchTag o = .list) (hm : isMerge o = false)
    {t t' : Tag} (xs ys : List Json)
    (ht : (t == .raw || t == .list) = true) (ht' : (t' == .raw || t' == .list) = true)
    (htt : t = .raw ∨ t' = .list) (scalars : ∀ x ∈ xs, isScalar x = true) :
    ((diffM o (.arr t xs) (.arr t' ys)).flatMap (·.remove)).Sublist xs ∧
    ((diffM o (.arr t xs) (.arr t' ys)).flatMap (·.add)).Sublist ys :=
  diffM_removed_added_sublist ho hm xs ys ht ht' htt scalars

/-- element form: every value a hunk removes is an element of `a`, every value it adds is an
    element of `b` -/
theorem removed_in_a_added_in_b {o : Opts} (ho : dispatchTag o = .list) (hm : isMerge o = false)
    {t t' : Tag} (xs ys : List Json)
    (ht : (t == .raw || t == .list) = true) (ht' : (t' == .raw || t' == .list) = true)
    (htt : t = .raw ∨ t' = .list) (scalars : ∀ x ∈ xs, isScalar x = true) :
    ∀ h ∈ diffM o (.arr t xs) (.arr t' ys), (∀ v ∈ h.remove, v ∈ xs) ∧ (∀ w ∈ h.add, w ∈ ys) :=
  diffM_removed_added_mem ho hm xs ys ht ht' htt scalars

/-- hunk by hunk, at the addressed location (`Jd.Real.Located []`, written out): the hunk is
    addressed to one index `i`; `remove` is a contiguous run of `a`; `add` is the contiguous run of `b`
    that starts at index `i`; the before-context is the element of `b` that precedes the added run
    and the after-context the element of `a` that follows the removed run (`void`, the array
    boundary marker, when there is none) -/
theorem list_hunk_located {o : Opts} (ho : dispatchTag o = .list) (hm : isMerge o = false)
    {t t' : Tag} (xs ys : List Json)
    (ht : (t == .raw || t == .list) = true) (ht' : (t' == .raw || t' == .list) = true)
    (htt : t = .raw ∨ t' = .list) (scalars : ∀ x ∈ xs, isScalar x = true) :
    ∀ h ∈ diffM o (.arr t xs) (.arr t' ys),
      ∃ (i : Nat) (preA postA preB postB : List Json),
        h.path = [PathElem.idx i] ∧ xs = preA ++ h.remove ++ postA ∧ ys = preB ++ h.add ++ postB ∧
        preB.length = i ∧ h.before = [preB.getLast?.getD .void] ∧ h.after = [postA.headD .void] :=
  diffM_located ho hm xs ys ht ht' htt scalars

/-! ## 2b. object members at any depth below keys, and the root -/

/-- every hunk of `a.Diff(b)` addressed to a key path (the root included), arrays allowed anywhere as
    values (`Jd.Real.RealAt`, written out): it replaces at most one value by at most one value;
    what it removes is what `a` holds there (up to the dynamic type of a top array node), what it
    adds is what `b` holds there; it removes nothing only if `a` holds nothing (or void) there, adds
    nothing only if `b` holds nothing (or void) there; and the removed value is not `Equals` to the
    added one -/
theorem keyed_hunk_real {o : Opts} (ho : dispatchTag o = .list) (hp : precOf o = 0)
    (hm : isMerge o = false) {a b : Json} (hr : a.rawDoc = true) (hlb : b.listDoc = true)
    (hwa : a.wf = true) (hwb : b.wf = true) :
    ∀ h ∈ diffM o a b, keysOnly h.path = true →
      h.remove.length ≤ 1 ∧ h.add.length ≤ 1 ∧
      (∀ v, h.remove = [v] → ∃ u, getAt a h.path = some u ∧ asList v = asList u) ∧
      (∀ w, h.add = [w] → getAt b h.path = some w) ∧
      (h.remove = [] → ∀ u, getAt a h.path = some u → u = .void) ∧
      (h.add = [] → ∀ u, getAt b h.path = some u → u = .void) ∧
      (∀ v w, h.remove = [v] → h.add = [w] → equals o v w = false) :=
  diffM_keyed_hunk_real ho hp hm hr hlb hwa hwb

/-- the plain reading: `remove = [v]` only if `a` holds `v` there, `add = [w]` only if `b` holds `w`
    there, and `v` is not `Equals` to `w` -/
theorem keyed_hunk_values {o : Opts} (ho : dispatchTag o = .list) (hp : precOf o = 0)
    (hm : isMerge o = false) {a b : Json} (hr : a.rawDoc = true) (hlb : b.listDoc = true)
    (hwa : a.wf = true) (hwb : b.wf = true) :
    ∀ h ∈ diffM o a b, keysOnly h.path = true →
      (∀ v, h.remove = [v] → ∃ u, getAt a h.path = some u ∧ asList v = asList u) ∧
      (∀ w, h.add = [w] → getAt b h.path = some w) ∧
      (∀ v w, h.remove = [v] → h.add = [w] → equals o v w = false) :=
  diffM_keyed_hunk_values ho hp hm hr hlb hwa hwb

/-! ## 3. what a hunk removes differs from what it adds (arrays of scalars) -/

/-- in every hunk the j-th removed value and the j-th added value have different hash codes (the
    library identifies list elements by hash code), and the hunk does not remove exactly what it adds -/
theorem removed_added_hash_apart {o : Opts} (ho : dispatchTag o = .list) (hm : isMerge o = false)
    {t t' : Tag} (xs ys : List Json)
    (ht : (t == .raw || t == .list) = true) (ht' : (t' == .raw || t' == .list) = true)
    (htt : t = .raw ∨ t' = .list) (scalars : ∀ x ∈ xs, isScalar x = true) :
    ∀ h ∈ diffM o (.arr t xs) (.arr t' ys),
      (∀ (j : Nat) (r a : Json), h.remove[j]? = some r → h.add[j]? = some a →
        hashCode o r ≠ hashCode o a) ∧ h.remove ≠ h.add :=
  diffM_hashApart ho hm xs ys ht ht' htt scalars

/-- the same at the level of the list loop, for every option set and path prefix: no hunk of the walk
    over the longest common subsequence removes exactly what it adds -/
theorem remove_ne_add (o : Opts) (p : Path) (xs ys : List Json)
    (scalars : ∀ x ∈ xs, isScalar x = true) :
    ∀ h ∈ diffRest o p 0 0 .void xs ys (lcsValues (hashList o xs) (hashList o ys)) [] [],
      h.remove ≠ h.add :=
  diff_remove_ne_add o p xs ys scalars

/-- no hash in the statement: for elements of the domain, the j-th removed value and the j-th added
    value of a hunk are not `Equals` -/
theorem removed_not_equals_added (F : FloatEq0) {o : Opts} (ho : dispatchTag o = .list)
    (hp : precOf o = 0) (hm : isMerge o = false) {t t' : Tag} (xs ys : List Json)
    (ht : (t == .raw || t == .list) = true) (ht' : (t' == .raw || t' == .list) = true)
    (htt : t = .raw ∨ t' = .list) (scalars : ∀ x ∈ xs, isScalar x = true)
    (hxs : ∀ x ∈ xs, Dom x) (hys : ∀ y ∈ ys, Dom y) :
    ∀ h ∈ diffM o (.arr t xs) (.arr t' ys),
      ∀ (j : Nat) (r a : Json), h.remove[j]? = some r → h.add[j]? = some a →
        equals o r a = false :=
  diffM_removed_not_equals_added F ho hp hm xs ys ht ht' htt scalars hxs hys

/-! ## 4. no hunk is redundant (two arrays of scalars) -/

/-- leave out ANY one hunk of `a.Diff(b)`: if the remaining hunks apply at all (documented meaning
    of hunks), the result is not structurally equal to `b` -/
theorem no_redundant_hunk_scalar_arrays (L : FloatLaws) (F : FloatEq0) {o : Opts}
    (ho : dispatchTag o = .list) (hp : precOf o = 0) (hm : isMerge o = false) {t t' : Tag}
    (xs ys : List Json) (hga : Good (.arr t xs)) (hgb : Good (.arr t' ys))
    (hxs : ∀ x ∈ xs, Dom x) (hys : ∀ y ∈ ys, Dom y) (htt : t = .raw ∨ t' = .list)
    (scalars : ∀ x ∈ xs, isScalar x = true)
    (HashOK : ∀ x ∈ xs, ∀ y ∈ ys, hashCode o x = hashCode o y →
      specEq x y = true ∧ specEq y x = true)
    (d1 d2 : Diff) (h : Hunk) (hd : diffM o (.arr t xs) (.arr t' ys) = d1 ++ h :: d2)
    (r : Json) (hr : applyStrictAll (.arr t xs) (d1 ++ d2) = some r) :
    ∀ t'', specEq r (.arr t'' ys) = false :=
  Real.no_redundant_hunk_scalar_arrays L F ho hp hm xs ys hga hgb hxs hys htt scalars HashOK
    d1 d2 h hd r hr

/-- PARTIAL form without any hypothesis on hashes or floats: leave out one hunk whose `remove` and
    `add` have different lengths; if the remaining hunks apply at all, the result is an array of the
    wrong length, hence not `b`, not even up to structural equality. Hunks with `|remove| = |add|`
    are not covered by this form -/
theorem no_redundant_hunk_length {o : Opts} (ho : dispatchTag o = .list)
    (hm : isMerge o = false) {t t' : Tag} (xs ys : List Json)
    (ht : (t == .raw || t == .list) = true) (ht' : (t' == .raw || t' == .list) = true)
    (htt : t = .raw ∨ t' = .list) (scalars : ∀ x ∈ xs, isScalar x = true)
    (d1 d2 : Diff) (h : Hunk) (hd : diffM o (.arr t xs) (.arr t' ys) = d1 ++ h :: d2)
    (hne : h.remove.length ≠ h.add.length)
    (r : Json) (hr : applyStrictAll (.arr t xs) (d1 ++ d2) = some r) :
    (∃ t'' zs, r = .arr t'' zs ∧ zs.length ≠ ys.length) ∧
    (∀ t'', r ≠ .arr t'' ys) ∧ (∀ t'', specEq r (.arr t'' ys) = false) :=
  no_redundant_hunk_length_partial ho hm xs ys ht ht' htt scalars d1 d2 h hd hne r hr

/-! ## 5. an array of scalars held by an object member (any depth below keys) -/

/-- every hunk of `a.Diff(b)` at or below the key path `q`, where `a` holds the array of scalars `xs`
    and `b` the array `ys`: it is addressed to `q ++ [i]`, removes a contiguous run of `xs`, adds the
    contiguous run of `ys` standing at `i` with the neighbours as context (clause 2a), pairs only
    elements with different hash codes and `remove ≠ add` (clause 3), removes elements of `xs` and
    adds elements of `ys` -/
theorem array_below_keys_hunk_real {o : Opts} (ho : dispatchTag o = .list) (hm : isMerge o = false)
    {a b : Json} (hr : a.rawDoc = true) (hlb : b.listDoc = true) (hwa : a.wf = true)
    {q : Path} (hq : keysOnly q = true) {t t' : Tag} {xs ys : List Json}
    (hu : getAt a q = some (.arr t xs)) (hu' : getAt b q = some (.arr t' ys))
    (scalars : ∀ x ∈ xs, isScalar x = true) :
    ∀ h ∈ diffM o a b, q <+: h.path →
      (∃ (i : Nat) (preA postA preB postB : List Json),
        h.path = q ++ [PathElem.idx i] ∧ xs = preA ++ h.remove ++ postA ∧
        ys = preB ++ h.add ++ postB ∧ preB.length = i ∧
        h.before = [preB.getLast?.getD .void] ∧ h.after = [postA.headD .void]) ∧
      (∀ (j : Nat) (r w : Json), h.remove[j]? = some r → h.add[j]? = some w →
        hashCode o r ≠ hashCode o w) ∧
      h.remove ≠ h.add ∧ (∀ v ∈ h.remove, v ∈ xs) ∧ (∀ w ∈ h.add, w ∈ ys) :=
  diffM_array_below_keys ho hm hr hlb hwa hq hu hu' scalars

/-! ## Non-vacuity

  The statements of clauses 2a, 3, 4 are of the form "for every hunk of the diff". They speak about
  something: two arrays of different lengths (first one of scalars) always have a NON-EMPTY diff
  (`diff_nonempty_of_length_ne`, from the exact counts of JdProofs/DiffMinimal.lean), and
  `[true, null, "x"]` → `[false, null]` (no options) satisfies every structural hypothesis.
  `{"e":null,"k":[true]}` → `{"e":null,"k":[false]}`: the key path `["k"]` holds arrays of scalars
  on both sides (clause 5), the key path `["e"]` holds values of both documents (clause 1); the
  structural hypotheses of clauses 1, 2b and 5 hold. -/

/-- two arrays of different lengths have a non-empty diff -/
theorem diff_nonempty_of_length_ne {o : Opts} (ho : dispatchTag o = .list) (hm : isMerge o = false)
    {t t' : Tag} (xs ys : List Json)
    (ht : (t == .raw || t == .list) = true) (ht' : (t' == .raw || t' == .list) = true)
    (htt : t = .raw ∨ t' = .list) (scalars : ∀ x ∈ xs, isScalar x = true)
    (hne : xs.length ≠ ys.length) : diffM o (.arr t xs) (.arr t' ys) ≠ [] := by
  intro e
  obtain ⟨h1, h2⟩ := Min.diffM_removes_adds_count ho hm xs ys ht ht' htt scalars
  rw [e] at h1 h2
  have l1 := (lcsValues_sublist_left (hashList o xs) (hashList o ys)).length_le
  have l2 := (lcsValues_sublist_right (hashList o xs) (hashList o ys)).length_le
  rw [Min.length_hashList] at l1 l2
  simp only [List.map_nil, List.sum_nil] at h1 h2
  omega

/-- `[true, null, "x"]` -/
def exXs : List Json := [.bool true, .null, .str "x"]
/-- `[false, null]` -/
def exYs : List Json := [.bool false, .null]

example : diffM [] (.arr .raw exXs) (.arr .raw exYs) ≠ [] :=
  diff_nonempty_of_length_ne (o := []) rfl rfl exXs exYs rfl rfl (.inl rfl) (by decide) (by decide)

example : ∀ h ∈ diffM [] (.arr .raw exXs) (.arr .raw exYs),
    (∀ v ∈ h.remove, v ∈ exXs) ∧ (∀ w ∈ h.add, w ∈ exYs) :=
  removed_in_a_added_in_b (o := []) rfl rfl exXs exYs rfl rfl (.inl rfl) (by decide)

example : ∀ h ∈ diffM [] (.arr .raw exXs) (.arr .raw exYs), h.remove ≠ h.add :=
  fun h hm => (removed_added_hash_apart (o := []) rfl rfl exXs exYs rfl rfl (.inl rfl)
    (by decide) h hm).2

/-- `{"e":null,"k":[true]}` -/
def exA : Json := .obj [("e", .null), ("k", .arr .raw [.bool true])]
/-- `{"e":null,"k":[false]}` -/
def exB : Json := .obj [("e", .null), ("k", .arr .raw [.bool false])]

example : exA.rawDoc = true ∧ exB.listDoc = true ∧ exA.wf = true ∧ exB.wf = true ∧
    keysOnly [.key "k"] = true ∧ keysOnly [.key "e"] = true ∧
    getAt exA [.key "k"] = some (.arr .raw [.bool true]) ∧
    getAt exB [.key "k"] = some (.arr .raw [.bool false]) ∧
    getAt exA [.key "e"] = some .null ∧ getAt exB [.key "e"] = some .null :=
  ⟨by decide, by decide, by decide, by decide, by decide, by decide, by simp [getAt, exA, alookup],
    by simp [getAt, exB, alookup], by simp [getAt, exA, alookup], by simp [getAt, exB, alookup]⟩

example : ∀ h ∈ diffM [] exA exB, [PathElem.key "k"] <+: h.path →
    h.remove ≠ h.add ∧ (∀ v ∈ h.remove, v ∈ [Json.bool true]) ∧ (∀ w ∈ h.add, w ∈ [Json.bool false]) :=
  fun h hm hq =>
    (array_below_keys_hunk_real (o := []) rfl rfl (a := exA) (b := exB) (by decide) (by decide)
      (by decide) (q := [.key "k"]) (by decide) (t := .raw) (t' := .raw) (xs := [.bool true])
      (ys := [.bool false]) (by simp [getAt, exA, alookup]) (by simp [getAt, exB, alookup])
      (by decide) h hm hq).2.2

end Jd.Props.C07
