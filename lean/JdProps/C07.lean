/-
  Property C07 — a diff reports only real differences: no no-op, no redundant hunk.
  Statement file (proofs in JdProofs/RealDiff.lean, namespace `Jd.Real`: the LIST reading, sections
  0–5; JdProofs/RealDiffSet.lean, namespace `Jd.RealS`: the SET and MULTISET readings, section 6;
  JdProofs/RealDiffMerge.lean, namespace `Jd.RealM`: the MERGE strategy, section 7, and "no hunk is
  redundant" for the LIST reading in general — objects, nested containers —, section 8).

  Model side: `diffM o a b` (JdModel/Diff.lean) is `a.Diff(b, options...)`; `diffNode o m a b p` is
  the recursive `diff` of one node under the path prefix `p` (`m`: merge strategy); `equals o x y` is
  `x.Equals(y, options...)`; `hashCode o x` is the 64-bit FNV-1a hash code by which list elements are
  matched. `applyStrictAll a d` (JdSpec/HunkSem.lean) is the documented meaning of a sequence of
  strict hunks (every removed value and context line checked), `specEq` (JdSpec/CanonEq.lean) is
  structural equality of documents (ordered arrays, exact numbers).
  Vocabulary of this file (definitions of `Jd.Real`, written out in the statements where short):
    `keysOnly q`   the path `q` is made of object keys only (`[]`, the root, included);
    `getAt a q`    what the document `a` holds at the key / index path `q` (`none`: nothing there);
    `asList v`     `v` with the Go dynamic type of its TOP array node forgotten (`jsonArray.diff`
                   reports a removed array as a `jsonList`);
    `l₁.Sublist l₂` / `l₁ <+: l₂`   sublist (order kept, gaps allowed) / prefix, of core Lean.

  WHAT IS STATED (LIST reading of arrays `dispatchTag o = .list`, STRICT strategy
  `isMerge o = false`, except clause 0)
   0. `paths_extend_prefix`: EVERY option set, BOTH strategies, all documents: a sub-diff only emits
      hunks at or below the path it was given (so a hunk speaks about the sub-document it is
      addressed to).
   1. "equal sub-documents are never mentioned": `equal_subdocument_not_mentioned` (object members
      at any depth below keys), `equal_member_not_mentioned` (the one-level form).
   2. "the values it removes are present in a and the values it adds are present in b at the
      addressed location":
      * two ARRAYS OF SCALARS (the elements of the first array are scalars; this is the case in
        which a list diff does not recurse into an element): `removed_added_are_sublists` (all removed
        values, in hunk order, a sublist of `a`; all added values a sublist of `b`),
        `removed_in_a_added_in_b` (element form), `list_hunk_located` (hunk by hunk: `remove` is a
        contiguous run of `a`, `add` the contiguous run of `b` that stands at the addressed index,
        `before` / `after` are the neighbouring elements or the array boundary marker `void`);
      * OBJECT MEMBERS at any depth below keys and THE ROOT, arrays allowed anywhere as (opaque)
        values: `keyed_hunk_real` (all seven clauses) and its plain reading `keyed_hunk_values`;
      * an array of scalars held by an object member at any depth below keys:
        `array_below_keys_hunk_real`.
   3. "what it removes differs from what it adds" (arrays of scalars): `removed_added_hash_apart`
      (position by position different hash codes, and `remove ≠ add`), its loop-level form
      `remove_ne_add`, and `removed_not_equals_added` (no hash left in the statement: the j-th removed
      and the j-th added value are not `Equals`). For object members / the root it is the last clause
      of `keyed_hunk_real`.
   4. "no hunk is redundant" (two arrays of scalars, against the reference meaning of hunks):
      `no_redundant_hunk_scalar_arrays` (ANY single hunk left out: if the remaining hunks apply at
      all, the result is not structurally equal to `b`) and `no_redundant_hunk_length` (no hash and
      no float hypothesis, but only for a left-out hunk with `|remove| ≠ |add|`: the result has the
      wrong length).

  HYPOTHESES and why
    `dispatchTag o = .list`, `isMerge o = false`, `precOf o = 0`  the reading of the property that is
       proved; with a Precision option C07 inherits the known finding KF-C05-precision.
    `a.rawDoc`  the left document is as read from JSON / YAML (every array a plain `jsonArray`); a
       `jsonList`-typed array against a plain array with the same elements gives a non-empty diff
       (`DE.diff_list_vs_array_nonempty`; not reachable through the public Go API).
    `Dom x` = `listDoc` ∧ `wf` (unique sorted keys, what a Go map guarantees) ∧ `finiteNums` ∧
       `noNegZero`; `FloatEq0` (`|x - y| ≤ +0` only for `x = y`), `FloatLaws`: `Float` is opaque to
       the kernel. NaN is outside: `diffM [] NaN NaN` is one hunk with `remove = add = [NaN]`
       (`Equals` is not reflexive on NaN; the library rejects non-finite numbers when a node is built).
    `ht`, `ht'`, `htt` (array type tags)  both arrays are read as lists and the pair is not
       "typed list against plain array" (see `rawDoc`); for documents read from text `t = t' = .raw`.
    `scalars`  the elements of the FIRST array are scalars.
    `HashOK` (clause 4 only)  no FNV collision between an element of `a` and an element of `b`
       (elements are matched by hash code; with a collision the diff is not even correct, C01).
    `Good x` (clause 4) = `listDoc` ∧ `wf` ∧ `finiteNums` ∧ `memOK`, the domain of C01.

  SET AND MULTISET READINGS (section 6; strict strategy, no SetKeys option, no Precision)
    Domain: every option list `o` with `DES.SetReading o` (`dispatchTag o = .set ∧ keysOf o = none`, or
    `dispatchTag o = .mset`), `precOf o = 0`, `isMerge o = false` — in particular `[.set]` and `[.mset]`
    (`setmodes_all_items`); documents as read from text (`rawDoc`: every array a plain `jsonArray`; a
    typed `jsonSet` / `jsonList` node is replaced wholesale, `DES.Witness.typed_set_left_is_excluded`)
    with sorted unique keys (`wf`, what a Go map guarantees). FULL DEPTH: arrays nested in objects
    and in arrays, hunks below keys and below keyed set members.
    Vocabulary: `RealS.navPath q` — `q` consists of object keys and `{"k":v}` elements;
    `RealS.navS o a q` — what `a` holds at `q`: a key enters an object member, a `{"k":v}` element
    enters the LAST member of an array that has the identity of the object `{"k":v}` (the member
    `jsonSet.diff` matched: its Go map keeps the last bearer of a hash code); on key paths it is
    `getAt` (`setmodes_nav_on_key_paths`). `identOf o x` is the 8-byte identity of a set member
    (= `hashCode o x` without SetKeys).
    `RealS.HunkReal o a b p h` (every hunk, `setmodes_hunk_real`) is one of
      `value q`  `h.path = p ++ q`, no context; `h` replaces what `a` holds at `q` by what `b` holds
                 there (`Real.RealOpt`, the seven clauses of `keyed_hunk_real`; the removed value is
                 LITERALLY what `a` holds);
      `set q xs ys` / `mset q xs ys`  `h.path = p ++ q ++ [{}]` / `[[]]`, `a` holds the array `xs` at `q`,
                 `b` holds `ys`, and the hunk is a real set / multiset hunk of the two arrays —
                 written out in `set_hunk_located`, `multiset_hunk_located`.
    WHICH ITEMS NEED WHICH HASH HYPOTHESIS
    * NO hash and NO float hypothesis — "removed values are present in a, added values in b, at the
      addressed location", "what it removes differs from what it adds" by identity / hash code, "no
      hunk is empty": `setmodes_hunk_real`, `set_hunk_located`, `multiset_hunk_located`,
      `set_hunk_removed_added_apart`, `multiset_hunk_removed_added_apart`, `setmodes_no_empty_hunk`
      (`DPL.memOK`: no void object member; model-only exception `empty_hunk_void_member_witness`).
      The diff picks the values it reports out of the two arrays and compares identities; whatever
      aliasing there is, the reported values are members and their identities are apart.
    * `FloatEq0` only (numbers that are `Equals` hash alike; `DocOk`: plain arrays, sorted keys,
      finite numbers, no `-0`) — the `Equals` forms: `setmodes_removed_not_equals_added`,
      `set_hunk_no_counterpart` (a removed member is `Equals` to NO member of the other array). They
      use "`Equals` ⇒ same hash code" only, which holds without any no-collision hypothesis.
    * `DES.DiffFaithful o SA SB` (decidable: `DES.diffFaithful_of_check`) — for a node of `SA` and a node
      of `SB` with the same hash code: two arrays were hashed from the same member hash codes (no
      FNV collision) and, SET reading only, two objects are `Equals` (no collision and no alias
      between object members of sets). Needed by
        "equal sub-documents are never mentioned": `setmodes_equal_subdocument_not_mentioned`,
           `setmodes_equal_member_not_mentioned` — on the two equal values only;
        "no hunk is redundant": `setmodes_no_redundant_hunk` — on the two documents; about the
           LIBRARY's `Patch` (`patchAll sw`, either variant of the keyed-member branch), ALL
           documents as read from text; `…_hashFaithful`: the same under the hypothesis family of
           C04 / C01 set modes (`setDoc`, `HashFaithful`, `FloatEq0`).
      WITHOUT it both items are FALSE ON THE CODE (witnesses replayed on the Go library) — the class
      of the known finding KF-C04-alias (`Equals` and the set diff compare 64-bit hash codes):
        `equal_member_mentioned_alias_witness`  `{"m":[{"a":""}]}` / `{"m":[{"a":[]}]}`, SET: the members
            at `m` are `Equals` (the empty string and the empty array hash alike) and the diff has a
            hunk below `m`;
        `redundant_hunk_alias_witness`  `[{"a":""}]` → `[{"a":[]}]`, SET: the single hunk is redundant,
            the empty patch already gives a document `Equals` to the target;
        `redundant_hunk_fnv_collision_witness`  NO alias, a GENUINE FNV-1a 64 collision:
            `["aedb68afb","b7cdeb749"]` / `["a568b3ad2","b76a57d20"]`, SET and MULTISET: one hunk (two
            members removed, two added), redundant because the two arrays have the same hash code.
      These are consequences of the known finding, not new defects.

  MERGE STRATEGY (section 7; `isMerge o = true`, no Precision, no SetKeys) — ALL clauses
    Vocabulary: a merge hunk is `^ {"Merge":true}` / `@ [keys]` / `+ v`; `Merge.objVoidFree x`: `x` is not
    void and has no void object member. The merge strategy recurses into objects only and replaces
    everything else as a whole, so every hunk sits at a KEY path and `getAt` locates it.
    LIST reading of arrays (`dispatchTag o = .list`; in particular `[MERGE]`, `jd -f merge`):
      `merge_hunk_real`   every hunk of `a.Diff(b, MERGE)` is a merge hunk at a key path, removes nothing,
                          has no context lines, adds exactly ONE value `v`: what `b` holds there (up to
                          the Go type of a top array node: a replaced array is reported as the typed
                          node it was dispatched to), or void — a DELETION — when `b` holds nothing
                          there and `a` does; what `a` holds there (if anything) is NOT `Equals` to `v`
                          ("what it removes differs from what it adds", read for a strategy that
                          removes by overwriting); `a` and `b` do not both hold an object there; the
                          parent location holds an object on both sides;
      `merge_equal_subdocument_not_mentioned`   `Equals` values at a key path (any depth, the root
                          included): no hunk at or below it. No hash and no float hypothesis — the
                          merge strategy decides by `Equals` itself;
      `merge_no_redundant_hunk`   leave ANY single hunk out: the LIBRARY's `Patch` (`patchAll sw`) applies
                          the rest — a merge hunk cannot fail — and the result is not `Equals` to `b`.
    SET+MERGE / MULTISET+MERGE (`dispatchTag o = .set ∨ .mset`, `keysOf o = none`): the same three,
      `merge_setmodes_hunk_real`, `merge_setmodes_equal_subdocument_not_mentioned`,
      `merge_setmodes_no_redundant_hunk`.
    Hypotheses: `a.wf`, `b.wf`, `a.rawDoc`, `b.rawDoc` (documents as read from text, sorted unique
      keys); `Merge.objVoidFree b` (under which the merge diff IS a list of merge hunks) and
      `Merge.objVoidFree a` — needed (model only) for the clause "a deletion deletes something":
      `merge_void_member_witness`. NOT a hypothesis: `b.nullFree` (in memory a merge hunk `+ null` stores
      null; only the RENDERED merge patch reads null as "delete", C11), no `FloatLaws`, no `finiteNums`,
      no hash hypothesis in the list reading. Set readings only: `a.setDoc`, `b.setDoc`,
      `HashFaithful o (subterms a ++ subterms b)`, `FloatEq0` — exactly the hypotheses under which the
      merge diff in the set readings is a list of merge hunks at all (arrays that `Equals` identifies
      are handed to the strict set diff, which must then be empty; without `HashFaithful` it is not:
      the FNV collision of `Jd.Props.C02.setMerge_collision_witness`, class KF-C04-alias).

  "NO HUNK IS REDUNDANT", LIST READING, STRICT STRATEGY, THE GENERAL CASE (section 8)
    `no_redundant_hunk_list`: for `a` as read from text and `b` a list document, both in the domain of
      the C01 list theorem — OBJECTS, ARRAYS IN ARRAYS, CONTAINERS AS LIST ELEMENTS at any depth —:
      leave ANY single hunk out (an array-level hunk, a hunk inside a container standing in a list,
      a member hunk of an object): if the rest applies at all under the documented meaning of hunks
      (`applyStrictAll`), the result is not structurally equal to `b`. Any Precision option (the
      statement is structural).
    `no_redundant_hunk_list_patch` (`precOf o = 0`): the same about the LIBRARY's `Patch` (either
      variant): the result is not structurally equal and not `Equals` to `b`.
    Hypotheses: those of C01 in list mode (`wf`, `finiteNums`, `DPL.memOK`, `DPL.HashOK o a b`: no FNV
      collision between a sub-term of `a` and one of `b` — list elements are matched by hash code —,
      `DPL.ZeroOK a b`: no `0` / `-0` pair, `FloatLaws`) with `a.rawDoc` INSTEAD OF `a.listDoc`; needed:
      `typed_list_redundant_witness` (a typed `jsonList` against a plain `jsonArray` with the same
      elements gives ONE hunk replacing the whole value, and it is redundant; no reader produces
      such a node: the known boundary of C05, read for C07).

  WHAT IS NOT PROVED (covered by correspondence and by the leave-one-out oracle of ./check C07 only)
    * the SetKeys option (`keysOf o ≠ none`) in the SET reading, strict or MERGE;
    * a Precision option: only the STRUCTURAL forms hold with it (clause 0; `no_redundant_hunk_list`:
      the rest never gives a document structurally equal to `b`); every `Equals` form asks
      `precOf o = 0` — with a Precision option C07 inherits the known finding KF-C05-precision;
    * LIST reading, clauses 2 and 3 ("located", "removed differs from added") for list hunks whose
      elements are CONTAINERS of the same kind (a sub-diff inside a list: the index in the path is
      an index of the partially patched array): sections 2a, 3, 5 ask `scalars`. Clause 4 no longer
      does (section 8).
-/
import JdProofs.RealDiff
import JdProofs.RealDiffSet
import JdProofs.RealDiffMerge
import JdProofs.RealDiffKeys
import JdProps.C07List

set_option autoImplicit false

namespace Jd.Props.C07
open Jd Jd.Spec Jd.DPL Jd.Real

/-! ## 0. a sub-diff speaks about the sub-document it is addressed to -/

/-- every option set (list, SET, MULTISET, SetKeys, Precision), both strategies, all documents: every
    hunk of the diff of `a` and `b` under the path prefix `p` has `p` as a prefix of its path -/
theorem paths_extend_prefix (o : Opts) (m : Bool) (a b : Json) (p : Path) :
    ∀ h ∈ diffNode o m a b p, p <+: h.path :=
  diff_paths_extend_general o m a b p

/-! ## 1. equal sub-documents are never mentioned -/

/-- if `a` and `b` hold `Equal` values at the key path `q` (any depth below object keys; `q = []` is
    the whole document), no hunk of `a.Diff(b)` has a path at or below `q` -/
theorem equal_subdocument_not_mentioned (F : FloatEq0) {o : Opts} (ho : dispatchTag o = .list)
    (hp : precOf o = 0) (hm : isMerge o = false) {a b : Json} (hr : a.rawDoc = true) (ha : Dom a)
    (hb : Dom b) {q : Path} (hq : keysOnly q = true) {v v' : Json} (hv : getAt a q = some v)
    (hv' : getAt b q = some v') (he : equals o v v' = true) :
    ∀ h ∈ diffM o a b, ¬ q <+: h.path :=
  diffM_equal_subdoc_not_mentioned F ho hp hm hr ha hb hq hv hv' he

/-- the advertised one-level form: an object member with `Equal` values on both sides is not
    mentioned (under any path prefix `p`) -/
theorem equal_member_not_mentioned (F : FloatEq0) {o : Opts} (ho : dispatchTag o = .list)
    (hp : precOf o = 0) {kvs kvs' : List (String × Json)} (hr : (Json.obj kvs).rawDoc = true)
    (ha : Dom (.obj kvs)) (hb : Dom (.obj kvs')) {k : String} {v v' : Json}
    (hl : alookup k kvs = some v) (hl' : alookup k kvs' = some v') (he : equals o v v' = true)
    (p : Path) :
    ∀ h ∈ diffNode o false (.obj kvs) (.obj kvs') p, ¬ (p ++ [PathElem.key k]) <+: h.path :=
  Real.equal_member_not_mentioned F ho hp hr ha hb hl hl' he p

/-! ## 2a. arrays of scalars: removed values are a's, added values are b's, where the hunk says -/

/-- all removed values of `a.Diff(b)`, in hunk order, form a sublist of the array `a`; all added
    values form a sublist of the array `b` (nothing is invented, nothing is reported twice, the
    order of the documents is kept) -/
theorem removed_added_are_sublists {o : Opts} (ho : dispatchTag o = .list) (hm : isMerge o = false)
    {t t' : Tag} (xs ys : List Json)
    (ht : (t == .raw || t == .list) = true) (ht' : (t' == .raw || t' == .list) = true)
    (htt : t = .raw ∨ t' = .list) (scalars : ∀ x ∈ xs, isScalar x = true) :
    ((diffM o (.arr t xs) (.arr t' ys)).flatMap (·.remove)).Sublist xs ∧
    ((diffM o (.arr t xs) (.arr t' ys)).flatMap (·.add)).Sublist ys :=
  diffM_removed_added_sublist ho hm xs ys ht ht' htt scalars

/-- element form: every value a hunk removes is an element of `a`, every value it adds is an
    element of `b` -/
theorem removed_in_a_added_in_b {o : Opts} (ho : dispatchTag o = .list) (hm : isMerge o = false)
    {t t' : Tag} (xs ys : List Json)
    (ht : (t == .raw || t == .list) = true) (ht' : (t' == .raw || t' == .list) = true)
    (htt : t = .raw ∨ t' = .list) (scalars : ∀ x ∈ xs, isScalar x = true) :
    ∀ h ∈ diffM o (.arr t xs) (.arr t' ys), (∀ v ∈ h.remove, v ∈ xs) ∧ (∀ w ∈ h.add, w ∈ ys) :=
  diffM_removed_added_mem ho hm xs ys ht ht' htt scalars

/-- hunk by hunk, at the addressed location (`Jd.Real.Located []`, written out): the hunk is
    addressed to one index `i`; `remove` is a contiguous run of `a`; `add` is the contiguous run of `b`
    that starts at index `i`; the before-context is the element of `b` that precedes the added run
    and the after-context the element of `a` that follows the removed run (`void`, the array
    boundary marker, when there is none) -/
theorem list_hunk_located {o : Opts} (ho : dispatchTag o = .list) (hm : isMerge o = false)
    {t t' : Tag} (xs ys : List Json)
    (ht : (t == .raw || t == .list) = true) (ht' : (t' == .raw || t' == .list) = true)
    (htt : t = .raw ∨ t' = .list) (scalars : ∀ x ∈ xs, isScalar x = true) :
    ∀ h ∈ diffM o (.arr t xs) (.arr t' ys),
      ∃ (i : Nat) (preA postA preB postB : List Json),
        h.path = [PathElem.idx i] ∧ xs = preA ++ h.remove ++ postA ∧ ys = preB ++ h.add ++ postB ∧
        preB.length = i ∧ h.before = [preB.getLast?.getD .void] ∧ h.after = [postA.headD .void] :=
  diffM_located ho hm xs ys ht ht' htt scalars

/-! ## 2b. object members at any depth below keys, and the root -/

/-- every hunk of `a.Diff(b)` addressed to a key path (the root included), arrays allowed anywhere as
    values (`Jd.Real.RealAt`, written out): it replaces at most one value by at most one value;
    what it removes is what `a` holds there (up to the dynamic type of a top array node), what it
    adds is what `b` holds there; it removes nothing only if `a` holds nothing (or void) there, adds
    nothing only if `b` holds nothing (or void) there; and the removed value is not `Equals` to the
    added one -/
theorem keyed_hunk_real {o : Opts} (ho : dispatchTag o = .list) (hp : precOf o = 0)
    (hm : isMerge o = false) {a b : Json} (hr : a.rawDoc = true) (hlb : b.listDoc = true)
    (hwa : a.wf = true) (hwb : b.wf = true) :
    ∀ h ∈ diffM o a b, keysOnly h.path = true →
      h.remove.length ≤ 1 ∧ h.add.length ≤ 1 ∧
      (∀ v, h.remove = [v] → ∃ u, getAt a h.path = some u ∧ asList v = asList u) ∧
      (∀ w, h.add = [w] → getAt b h.path = some w) ∧
      (h.remove = [] → ∀ u, getAt a h.path = some u → u = .void) ∧
      (h.add = [] → ∀ u, getAt b h.path = some u → u = .void) ∧
      (∀ v w, h.remove = [v] → h.add = [w] → equals o v w = false) :=
  diffM_keyed_hunk_real ho hp hm hr hlb hwa hwb

/-- the plain reading: `remove = [v]` only if `a` holds `v` there, `add = [w]` only if `b` holds `w`
    there, and `v` is not `Equals` to `w` -/
theorem keyed_hunk_values {o : Opts} (ho : dispatchTag o = .list) (hp : precOf o = 0)
    (hm : isMerge o = false) {a b : Json} (hr : a.rawDoc = true) (hlb : b.listDoc = true)
    (hwa : a.wf = true) (hwb : b.wf = true) :
    ∀ h ∈ diffM o a b, keysOnly h.path = true →
      (∀ v, h.remove = [v] → ∃ u, getAt a h.path = some u ∧ asList v = asList u) ∧
      (∀ w, h.add = [w] → getAt b h.path = some w) ∧
      (∀ v w, h.remove = [v] → h.add = [w] → equals o v w = false) :=
  diffM_keyed_hunk_values ho hp hm hr hlb hwa hwb

/-! ## 3. what a hunk removes differs from what it adds (arrays of scalars) -/

/-- in every hunk the j-th removed value and the j-th added value have different hash codes (the
    library identifies list elements by hash code), and the hunk does not remove exactly what it adds -/
theorem removed_added_hash_apart {o : Opts} (ho : dispatchTag o = .list) (hm : isMerge o = false)
    {t t' : Tag} (xs ys : List Json)
    (ht : (t == .raw || t == .list) = true) (ht' : (t' == .raw || t' == .list) = true)
    (htt : t = .raw ∨ t' = .list) (scalars : ∀ x ∈ xs, isScalar x = true) :
    ∀ h ∈ diffM o (.arr t xs) (.arr t' ys),
      (∀ (j : Nat) (r a : Json), h.remove[j]? = some r → h.add[j]? = some a →
        hashCode o r ≠ hashCode o a) ∧ h.remove ≠ h.add :=
  diffM_hashApart ho hm xs ys ht ht' htt scalars

/-- the same at the level of the list loop, for every option set and path prefix: no hunk of the walk
    over the longest common subsequence removes exactly what it adds -/
theorem remove_ne_add (o : Opts) (p : Path) (xs ys : List Json)
    (scalars : ∀ x ∈ xs, isScalar x = true) :
    ∀ h ∈ diffRest o p 0 0 .void xs ys (lcsValues (hashList o xs) (hashList o ys)) [] [],
      h.remove ≠ h.add :=
  diff_remove_ne_add o p xs ys scalars

/-- no hash in the statement: for elements of the domain, the j-th removed value and the j-th added
    value of a hunk are not `Equals` -/
theorem removed_not_equals_added (F : FloatEq0) {o : Opts} (ho : dispatchTag o = .list)
    (hp : precOf o = 0) (hm : isMerge o = false) {t t' : Tag} (xs ys : List Json)
    (ht : (t == .raw || t == .list) = true) (ht' : (t' == .raw || t' == .list) = true)
    (htt : t = .raw ∨ t' = .list) (scalars : ∀ x ∈ xs, isScalar x = true)
    (hxs : ∀ x ∈ xs, Dom x) (hys : ∀ y ∈ ys, Dom y) :
    ∀ h ∈ diffM o (.arr t xs) (.arr t' ys),
      ∀ (j : Nat) (r a : Json), h.remove[j]? = some r → h.add[j]? = some a →
        equals o r a = false :=
  diffM_removed_not_equals_added F ho hp hm xs ys ht ht' htt scalars hxs hys

/-! ## 4. no hunk is redundant (two arrays of scalars) -/

/-- leave out ANY one hunk of `a.Diff(b)`: if the remaining hunks apply at all (documented meaning
    of hunks), the result is not structurally equal to `b` -/
theorem no_redundant_hunk_scalar_arrays (L : FloatLaws) (F : FloatEq0) {o : Opts}
    (ho : dispatchTag o = .list) (hp : precOf o = 0) (hm : isMerge o = false) {t t' : Tag}
    (xs ys : List Json) (hga : Good (.arr t xs)) (hgb : Good (.arr t' ys))
    (hxs : ∀ x ∈ xs, Dom x) (hys : ∀ y ∈ ys, Dom y) (htt : t = .raw ∨ t' = .list)
    (scalars : ∀ x ∈ xs, isScalar x = true)
    (HashOK : ∀ x ∈ xs, ∀ y ∈ ys, hashCode o x = hashCode o y →
      specEq x y = true ∧ specEq y x = true)
    (d1 d2 : Diff) (h : Hunk) (hd : diffM o (.arr t xs) (.arr t' ys) = d1 ++ h :: d2)
    (r : Json) (hr : applyStrictAll (.arr t xs) (d1 ++ d2) = some r) :
    ∀ t'', specEq r (.arr t'' ys) = false :=
  Real.no_redundant_hunk_scalar_arrays L F ho hp hm xs ys hga hgb hxs hys htt scalars HashOK
    d1 d2 h hd r hr

/-- PARTIAL form without any hypothesis on hashes or floats: leave out one hunk whose `remove` and
    `add` have different lengths; if the remaining hunks apply at all, the result is an array of the
    wrong length, hence not `b`, not even up to structural equality. Hunks with `|remove| = |add|`
    are not covered by this form -/
theorem no_redundant_hunk_length {o : Opts} (ho : dispatchTag o = .list)
    (hm : isMerge o = false) {t t' : Tag} (xs ys : List Json)
    (ht : (t == .raw || t == .list) = true) (ht' : (t' == .raw || t' == .list) = true)
    (htt : t = .raw ∨ t' = .list) (scalars : ∀ x ∈ xs, isScalar x = true)
    (d1 d2 : Diff) (h : Hunk) (hd : diffM o (.arr t xs) (.arr t' ys) = d1 ++ h :: d2)
    (hne : h.remove.length ≠ h.add.length)
    (r : Json) (hr : applyStrictAll (.arr t xs) (d1 ++ d2) = some r) :
    (∃ t'' zs, r = .arr t'' zs ∧ zs.length ≠ ys.length) ∧
    (∀ t'', r ≠ .arr t'' ys) ∧ (∀ t'', specEq r (.arr t'' ys) = false) :=
  no_redundant_hunk_length_partial ho hm xs ys ht ht' htt scalars d1 d2 h hd hne r hr

/-! ## 5. an array of scalars held by an object member (any depth below keys) -/

/-- every hunk of `a.Diff(b)` at or below the key path `q`, where `a` holds the array of scalars `xs`
    and `b` the array `ys`: it is addressed to `q ++ [i]`, removes a contiguous run of `xs`, adds the
    contiguous run of `ys` standing at `i` with the neighbours as context (clause 2a), pairs only
    elements with different hash codes and `remove ≠ add` (clause 3), removes elements of `xs` and
    adds elements of `ys` -/
theorem array_below_keys_hunk_real {o : Opts} (ho : dispatchTag o = .list) (hm : isMerge o = false)
    {a b : Json} (hr : a.rawDoc = true) (hlb : b.listDoc = true) (hwa : a.wf = true)
    {q : Path} (hq : keysOnly q = true) {t t' : Tag} {xs ys : List Json}
    (hu : getAt a q = some (.arr t xs)) (hu' : getAt b q = some (.arr t' ys))
    (scalars : ∀ x ∈ xs, isScalar x = true) :
    ∀ h ∈ diffM o a b, q <+: h.path →
      (∃ (i : Nat) (preA postA preB postB : List Json),
        h.path = q ++ [PathElem.idx i] ∧ xs = preA ++ h.remove ++ postA ∧
        ys = preB ++ h.add ++ postB ∧ preB.length = i ∧
        h.before = [preB.getLast?.getD .void] ∧ h.after = [postA.headD .void]) ∧
      (∀ (j : Nat) (r w : Json), h.remove[j]? = some r → h.add[j]? = some w →
        hashCode o r ≠ hashCode o w) ∧
      h.remove ≠ h.add ∧ (∀ v ∈ h.remove, v ∈ xs) ∧ (∀ w ∈ h.add, w ∈ ys) :=
  diffM_array_below_keys ho hm hr hlb hwa hq hu hu' scalars

/-! ## Non-vacuity

  The statements of clauses 2a, 3, 4 are of the form "for every hunk of the diff". They speak about
  something: two arrays of different lengths (first one of scalars) always have a NON-EMPTY diff
  (`diff_nonempty_of_length_ne`, from the exact counts of JdProofs/DiffMinimal.lean), and
  `[true, null, "x"]` → `[false, null]` (no options) satisfies every structural hypothesis.
  `{"e":null,"k":[true]}` → `{"e":null,"k":[false]}`: the key path `["k"]` holds arrays of scalars
  on both sides (clause 5), the key path `["e"]` holds values of both documents (clause 1); the
  structural hypotheses of clauses 1, 2b and 5 hold. -/

/-- two arrays of different lengths have a non-empty diff -/
theorem diff_nonempty_of_length_ne {o : Opts} (ho : dispatchTag o = .list) (hm : isMerge o = false)
    {t t' : Tag} (xs ys : List Json)
    (ht : (t == .raw || t == .list) = true) (ht' : (t' == .raw || t' == .list) = true)
    (htt : t = .raw ∨ t' = .list) (scalars : ∀ x ∈ xs, isScalar x = true)
    (hne : xs.length ≠ ys.length) : diffM o (.arr t xs) (.arr t' ys) ≠ [] := by
  intro e
  obtain ⟨h1, h2⟩ := Min.diffM_removes_adds_count ho hm xs ys ht ht' htt scalars
  rw [e] at h1 h2
  have l1 := (lcsValues_sublist_left (hashList o xs) (hashList o ys)).length_le
  have l2 := (lcsValues_sublist_right (hashList o xs) (hashList o ys)).length_le
  rw [Min.length_hashList] at l1 l2
  simp only [List.map_nil, List.sum_nil] at h1 h2
  omega

/-- `[true, null, "x"]` -/
def exXs : List Json := [.bool true, .null, .str "x"]
/-- `[false, null]` -/
def exYs : List Json := [.bool false, .null]

example : diffM [] (.arr .raw exXs) (.arr .raw exYs) ≠ [] :=
  diff_nonempty_of_length_ne (o := []) rfl rfl exXs exYs rfl rfl (.inl rfl) (by decide) (by decide)

example : ∀ h ∈ diffM [] (.arr .raw exXs) (.arr .raw exYs),
    (∀ v ∈ h.remove, v ∈ exXs) ∧ (∀ w ∈ h.add, w ∈ exYs) :=
  removed_in_a_added_in_b (o := []) rfl rfl exXs exYs rfl rfl (.inl rfl) (by decide)

example : ∀ h ∈ diffM [] (.arr .raw exXs) (.arr .raw exYs), h.remove ≠ h.add :=
  fun h hm => (removed_added_hash_apart (o := []) rfl rfl exXs exYs rfl rfl (.inl rfl)
    (by decide) h hm).2

/-- `{"e":null,"k":[true]}` -/
def exA : Json := .obj [("e", .null), ("k", .arr .raw [.bool true])]
/-- `{"e":null,"k":[false]}` -/
def exB : Json := .obj [("e", .null), ("k", .arr .raw [.bool false])]

example : exA.rawDoc = true ∧ exB.listDoc = true ∧ exA.wf = true ∧ exB.wf = true ∧
    keysOnly [.key "k"] = true ∧ keysOnly [.key "e"] = true ∧
    getAt exA [.key "k"] = some (.arr .raw [.bool true]) ∧
    getAt exB [.key "k"] = some (.arr .raw [.bool false]) ∧
    getAt exA [.key "e"] = some .null ∧ getAt exB [.key "e"] = some .null :=
  ⟨by decide, by decide, by decide, by decide, by decide, by decide, by simp [getAt, exA, alookup],
    by simp [getAt, exB, alookup], by simp [getAt, exA, alookup], by simp [getAt, exB, alookup]⟩

example : ∀ h ∈ diffM [] exA exB, [PathElem.key "k"] <+: h.path →
    h.remove ≠ h.add ∧ (∀ v ∈ h.remove, v ∈ [Json.bool true]) ∧ (∀ w ∈ h.add, w ∈ [Json.bool false]) :=
  fun h hm hq =>
    (array_below_keys_hunk_real (o := []) rfl rfl (a := exA) (b := exB) (by decide) (by decide)
      (by decide) (q := [.key "k"]) (by decide) (t := .raw) (t' := .raw) (xs := [.bool true])
      (ys := [.bool false]) (by simp [getAt, exA, alookup]) (by simp [getAt, exB, alookup])
      (by decide) h hm hq).2.2

/-! ## 6. SET and MULTISET readings (strict strategy, no SetKeys option, no Precision)

  Names of `Jd.RealS` and `Jd.DES` are written qualified (`Jd.Real` has theorems of the same names for
  the list reading); `Jd.subterms x` is the list of all nodes of `x`. -/

/-- on key paths the navigation of the set readings is `getAt` of sections 1–5 -/
theorem setmodes_nav_on_key_paths (o : Opts) (q : Path) (hq : keysOnly q = true) (n : Json) :
    RealS.navS o n q = getAt n q :=
  RealS.navS_keys o q hq n

/-- **clauses 1 + 2, every hunk, any depth, NO hash hypothesis**: every hunk of `a.Diff(b)` is
    `RealS.HunkReal`: a value replacement at a location reached through keys and keyed set members,
    or a real set / multiset hunk of the two arrays held at such a location (header) -/
theorem setmodes_hunk_real {o : Opts} (hm : DES.SetReading o) (hp : precOf o = 0)
    (hmg : isMerge o = false) {a b : Json} (hr : a.rawDoc = true) (hw : a.wf = true)
    (hrb : b.rawDoc = true) (hwb : b.wf = true) :
    ∀ h ∈ diffM o a b, RealS.HunkReal o a b [] h :=
  RealS.diffM_hunk_real hm hp hmg hr hw hrb hwb

/-- **a SET hunk, located by its own path** (`RealS.SetHunkReal`, written out). A hunk of `a.Diff(b)`
    with path `q ++ [{}]`: `a` holds an array `xs` at `q`, `b` an array `ys`; every removed value is a
    MEMBER of `xs`, every added value a member of `ys`; the identities of the removed values are
    exactly the identities present in `xs` and absent from `ys`, each once; symmetrically for the
    added values; the hunk has no context lines and is not empty -/
theorem set_hunk_located {o : Opts} (hm : DES.SetReading o) (hp : precOf o = 0)
    (hmg : isMerge o = false) {a b : Json} (hr : a.rawDoc = true) (hw : a.wf = true)
    (hrb : b.rawDoc = true) (hwb : b.wf = true) {h : Hunk} (hh : h ∈ diffM o a b) {q : Path}
    (hpath : h.path = q ++ [.set]) :
    ∃ xs ys, RealS.navS o a q = some (.arr .raw xs) ∧ RealS.navS o b q = some (.arr .raw ys) ∧
      (∀ z ∈ h.remove, z ∈ xs) ∧ (∀ z ∈ h.add, z ∈ ys) ∧
      (∀ c, c ∈ h.remove.map (identOf o) ↔ c ∈ xs.map (identOf o) ∧ c ∉ ys.map (identOf o)) ∧
      (∀ c, c ∈ h.add.map (identOf o) ↔ c ∈ ys.map (identOf o) ∧ c ∉ xs.map (identOf o)) ∧
      (h.remove.map (identOf o)).Nodup ∧ (h.add.map (identOf o)).Nodup ∧
      (h.remove ≠ [] ∨ h.add ≠ []) ∧ h.before = [] ∧ h.after = [] ∧ h.merge = false := by
  obtain ⟨xs, ys, na, nb, H⟩ := RealS.diffM_set_hunk_members hm hp hmg hr hw hrb hwb hh hpath
  exact ⟨xs, ys, na, nb, H.rem_mem, H.add_mem, H.rem_ids, H.add_ids, H.rem_nodup, H.add_nodup,
    H.nonempty, H.before, H.after, H.merge⟩

/-- **a MULTISET hunk, located by its own path** (`RealS.MsetHunkReal`, written out). A hunk with
    path `q ++ [[]]`: removed values are members of the array `a` holds at `q`, added values members
    of the array `b` holds there, and for every hash code `c` the hunk removes exactly
    `count c xs - count c ys` values with that hash code and adds `count c ys - count c xs` -/
theorem multiset_hunk_located {o : Opts} (hm : DES.SetReading o) (hp : precOf o = 0)
    (hmg : isMerge o = false) {a b : Json} (hr : a.rawDoc = true) (hw : a.wf = true)
    (hrb : b.rawDoc = true) (hwb : b.wf = true) {h : Hunk} (hh : h ∈ diffM o a b) {q : Path}
    (hpath : h.path = q ++ [.mset]) :
    ∃ xs ys, RealS.navS o a q = some (.arr .raw xs) ∧ RealS.navS o b q = some (.arr .raw ys) ∧
      (∀ z ∈ h.remove, z ∈ xs) ∧ (∀ z ∈ h.add, z ∈ ys) ∧
      (∀ c, (h.remove.map (hashCode o)).count c =
        (xs.map (hashCode o)).count c - (ys.map (hashCode o)).count c) ∧
      (∀ c, (h.add.map (hashCode o)).count c =
        (ys.map (hashCode o)).count c - (xs.map (hashCode o)).count c) ∧
      (h.remove ≠ [] ∨ h.add ≠ []) ∧ h.before = [] ∧ h.after = [] ∧ h.merge = false := by
  obtain ⟨xs, ys, na, nb, H⟩ := RealS.diffM_mset_hunk_members hm hp hmg hr hw hrb hwb hh hpath
  exact ⟨xs, ys, na, nb, H.rem_mem, H.add_mem, H.rem_count, H.add_count, H.nonempty, H.before,
    H.after, H.merge⟩

/-- **clause 3, SET hunk, no hypothesis on hashes**: no removed value has the identity of an added
    value of the same hunk -/
theorem set_hunk_removed_added_apart {o : Opts} (hm : DES.SetReading o) (hp : precOf o = 0)
    (hmg : isMerge o = false) {a b : Json} (hr : a.rawDoc = true) (hw : a.wf = true)
    (hrb : b.rawDoc = true) (hwb : b.wf = true) {h : Hunk} (hh : h ∈ diffM o a b) {q : Path}
    (hpath : h.path = q ++ [.set]) :
    ∀ r ∈ h.remove, ∀ w ∈ h.add, identOf o r ≠ identOf o w := by
  obtain ⟨_, _, _, _, H⟩ := RealS.diffM_set_hunk_members hm hp hmg hr hw hrb hwb hh hpath
  exact H.apart

/-- **clause 3, MULTISET hunk, no hypothesis on hashes**: no removed value has the hash code of an
    added value of the same hunk -/
theorem multiset_hunk_removed_added_apart {o : Opts} (hm : DES.SetReading o) (hp : precOf o = 0)
    (hmg : isMerge o = false) {a b : Json} (hr : a.rawDoc = true) (hw : a.wf = true)
    (hrb : b.rawDoc = true) (hwb : b.wf = true) {h : Hunk} (hh : h ∈ diffM o a b) {q : Path}
    (hpath : h.path = q ++ [.mset]) :
    ∀ r ∈ h.remove, ∀ w ∈ h.add, hashCode o r ≠ hashCode o w := by
  obtain ⟨_, _, _, _, H⟩ := RealS.diffM_mset_hunk_members hm hp hmg hr hw hrb hwb hh hpath
  exact H.apart

/-- a removed member of a multiset hunk is in SURPLUS in the first array, an added member in the
    second (occurrences counted by hash code, as the code does) -/
theorem multiset_hunk_surplus {o : Opts} (hm : DES.SetReading o) (hp : precOf o = 0)
    (hmg : isMerge o = false) {a b : Json} (hr : a.rawDoc = true) (hw : a.wf = true)
    (hrb : b.rawDoc = true) (hwb : b.wf = true) {h : Hunk} (hh : h ∈ diffM o a b) {q : Path}
    (hpath : h.path = q ++ [.mset]) :
    ∃ xs ys, RealS.navS o a q = some (.arr .raw xs) ∧ RealS.navS o b q = some (.arr .raw ys) ∧
      (∀ z ∈ h.remove, (ys.map (hashCode o)).count (hashCode o z) <
        (xs.map (hashCode o)).count (hashCode o z)) ∧
      (∀ z ∈ h.add, (xs.map (hashCode o)).count (hashCode o z) <
        (ys.map (hashCode o)).count (hashCode o z)) := by
  obtain ⟨xs, ys, na, nb, H⟩ := RealS.diffM_mset_hunk_members hm hp hmg hr hw hrb hwb hh hpath
  exact ⟨xs, ys, na, nb, H.surplus⟩

/-- **clause 3 up to `Equals`, every kind of hunk** (`FloatEq0`; `DocOk` documents): no removed value
    is `Equals` to an added value of the same hunk -/
theorem setmodes_removed_not_equals_added (F : FloatEq0) {o : Opts}
    (hd : dispatchTag o = .set ∨ dispatchTag o = .mset) (hk : keysOf o = none) (hp : precOf o = 0)
    (hmg : isMerge o = false) {a b : Json} (hr : a.rawDoc = true) (hw : a.wf = true)
    (hrb : b.rawDoc = true) (hwb : b.wf = true) (da : DocOk a) (db : DocOk b) :
    ∀ h ∈ diffM o a b, ∀ r ∈ h.remove, ∀ w ∈ h.add, equals o r w = false :=
  fun h hh =>
    (RealS.diffM_hunk_real (hd.elim (fun e => .inl ⟨e, hk⟩) .inr) hp hmg hr hw hrb hwb h hh).not_equals
      F hd hk hp da db

/-- **clause 2 up to `Equals`, SET hunk** (`FloatEq0`): a removed member has NO counterpart in the
    array `b` holds (no member there is `Equals` to it), an added member none in the array `a` holds -/
theorem set_hunk_no_counterpart (F : FloatEq0) {o : Opts} (hd : dispatchTag o = .set)
    (hk : keysOf o = none) (hp : precOf o = 0) (hmg : isMerge o = false) {a b : Json}
    (hr : a.rawDoc = true) (hw : a.wf = true) (hrb : b.rawDoc = true) (hwb : b.wf = true)
    (da : DocOk a) (db : DocOk b) {h : Hunk} (hh : h ∈ diffM o a b) {q : Path}
    (hpath : h.path = q ++ [.set]) :
    ∃ xs ys, RealS.navS o a q = some (.arr .raw xs) ∧ RealS.navS o b q = some (.arr .raw ys) ∧
      (∀ z ∈ h.remove, ∀ y ∈ ys, equals o z y = false) ∧
      (∀ z ∈ h.add, ∀ x ∈ xs, equals o x z = false) := by
  obtain ⟨xs, ys, na, nb, H⟩ :=
    RealS.diffM_set_hunk_members (.inl ⟨hd, hk⟩) hp hmg hr hw hrb hwb hh hpath
  have dxs := RealS.docOk_subterm da (RealS.navS_subterm o q a _ na)
  have dys := RealS.docOk_subterm db (RealS.navS_subterm o q b _ nb)
  exact ⟨xs, ys, na, nb,
    H.no_counterpart F hd hk hp (fun _ hx => dxs.elem hx) (fun _ hy => dys.elem hy)⟩

/-- **no hunk is empty** (documents without void object members: void stands for "absent", the
    readers never produce it) -/
theorem setmodes_no_empty_hunk {o : Opts} (hm : DES.SetReading o) (hp : precOf o = 0)
    (hmg : isMerge o = false) {a b : Json} (hr : a.rawDoc = true) (hw : a.wf = true)
    (hrb : b.rawDoc = true) (hwb : b.wf = true) (ma : memOK a = true) (mb : memOK b = true) :
    ∀ h ∈ diffM o a b, h.remove ≠ [] ∨ h.add ≠ [] :=
  fun h hh => (RealS.diffM_hunk_real hm hp hmg hr hw hrb hwb h hh).nonempty ma mb

/-- **clause 1, "equal sub-documents are never mentioned"**: if `a` and `b` hold `Equals` values `v`,
    `v'` at a location `q` reached through keys AND keyed set members (any depth), no hunk of
    `a.Diff(b)` has a path at or below `q`. `DiffFaithful` on the nodes of the two equal values only;
    FALSE without it (`equal_member_mentioned_alias_witness`) -/
theorem setmodes_equal_subdocument_not_mentioned {o : Opts} (hm : DES.SetReading o)
    (hp : precOf o = 0) (hmg : isMerge o = false) {a b : Json} (hr : a.rawDoc = true)
    (hw : a.wf = true) (hrb : b.rawDoc = true) (hwb : b.wf = true) {q : Path}
    (hq : RealS.navPath q = true) {v v' : Json} (hv : RealS.navS o a q = some v)
    (hv' : RealS.navS o b q = some v') (he : equals o v v' = true)
    (FH : DES.DiffFaithful o (Jd.subterms v) (Jd.subterms v')) :
    ∀ h ∈ diffM o a b, ¬ q <+: h.path :=
  RealS.diffM_equal_subdoc_not_mentioned hm hp hmg hr hw hrb hwb hq hv hv' he FH

/-- the advertised one-level form: an object member with `Equals` values on both sides is not
    mentioned (under any path prefix `p`) -/
theorem setmodes_equal_member_not_mentioned {o : Opts} (hm : DES.SetReading o) (hp : precOf o = 0)
    {kvs kvs' : List (String × Json)} (hr : (Json.obj kvs).rawDoc = true)
    (hw : (Json.obj kvs).wf = true) (hrb : (Json.obj kvs').rawDoc = true)
    (hwb : (Json.obj kvs').wf = true) {k : String} {v v' : Json}
    (hl : alookup k kvs = some v) (hl' : alookup k kvs' = some v') (he : equals o v v' = true)
    (FH : DES.DiffFaithful o (Jd.subterms v) (Jd.subterms v')) (p : Path) :
    ∀ h ∈ diffNode o false (.obj kvs) (.obj kvs') p, ¬ (p ++ [PathElem.key k]) <+: h.path :=
  RealS.equal_member_not_mentioned hm hp hr hw hrb hwb hl hl' he FH p

/-- **clause 4, "no hunk is redundant", SET and MULTISET readings, ALL documents as read from text**
    (arrays of anything, nested anywhere). Leave ANY single hunk `h` out of `a.Diff(b)`: whatever the
    LIBRARY's `Patch` (`patchAll sw`, either variant of the keyed-member branch) makes of `a` with
    the remaining hunks, if they apply at all, is not `Equals` to `b`. `DiffFaithful` between the
    nodes of the two documents; FALSE without it (`redundant_hunk_alias_witness`,
    `redundant_hunk_fnv_collision_witness`). No float hypothesis -/
theorem setmodes_no_redundant_hunk {o : Opts} (hm : DES.SetReading o) (hp : precOf o = 0)
    (hmg : isMerge o = false) {a b : Json} (hr : a.rawDoc = true) (hw : a.wf = true)
    (hrb : b.rawDoc = true) (hwb : b.wf = true)
    (FH : DES.DiffFaithful o (Jd.subterms a) (Jd.subterms b))
    (d1 d2 : Diff) (h : Hunk) (hd : diffM o a b = d1 ++ h :: d2) (sw : Bool) (r : Json)
    (hres : patchAll sw a (d1 ++ d2) = .ok r) : equals o r b = false :=
  RealS.no_redundant_hunk hm hp hmg hr hw hrb hwb FH d1 d2 h hd sw r hres

/-- clause 4 under the hypothesis family of C04 / C01 in the set modes: `setDoc` documents (plain
    arrays, sorted keys, finite numbers, no `-0`), `HashFaithful` (equal hash codes only for
    equivalent nodes), `FloatEq0` -/
theorem setmodes_no_redundant_hunk_hashFaithful (F : FloatEq0) {o : Opts} (hm : DES.SetReading o)
    (hp : precOf o = 0) (hmg : isMerge o = false) {a b : Json} (ha : a.setDoc = true)
    (hb : b.setDoc = true) (HF : HashFaithful o (Jd.subterms a ++ Jd.subterms b))
    (d1 d2 : Diff) (h : Hunk) (hd : diffM o a b = d1 ++ h :: d2) (sw : Bool) (r : Json)
    (hres : patchAll sw a (d1 ++ d2) = .ok r) : equals o r b = false :=
  RealS.no_redundant_hunk_hashFaithful F hm hp hmg ha hb HF d1 d2 h hd sw r hres

/-- **the four items together for `jd -set` / `jd -mset`** (`o = [.set]` or `o = [.mset]`, documents as
    read from text): every hunk is real; no hunk is empty; `Equals` sub-documents are never
    mentioned; no hunk is redundant -/
theorem setmodes_all_items {o : Opts} (ho : o = [.set] ∨ o = [.mset]) {a b : Json}
    (hr : a.rawDoc = true) (hw : a.wf = true) (hrb : b.rawDoc = true) (hwb : b.wf = true) :
    (∀ h ∈ diffM o a b, RealS.HunkReal o a b [] h) ∧
    (memOK a = true → memOK b = true → ∀ h ∈ diffM o a b, h.remove ≠ [] ∨ h.add ≠ []) ∧
    (∀ q v v', RealS.navPath q = true → RealS.navS o a q = some v → RealS.navS o b q = some v' →
      equals o v v' = true → DES.DiffFaithful o (Jd.subterms v) (Jd.subterms v') →
      ∀ h ∈ diffM o a b, ¬ q <+: h.path) ∧
    (DES.DiffFaithful o (Jd.subterms a) (Jd.subterms b) →
      ∀ d1 h d2, diffM o a b = d1 ++ h :: d2 →
      ∀ sw r, patchAll sw a (d1 ++ d2) = .ok r → equals o r b = false) :=
  RealS.c07_setmodes ho hr hw hrb hwb

/-! ### Without `DiffFaithful` clauses 1 and 4 are FALSE on the code (class of KF-C04-alias)

  `DES.Witness.wa` = `[{"a":""}]`, `DES.Witness.wb` = `[{"a":[]}]`; `RealS.Witness.ma` = `{"m":[{"a":""}]}`,
  `RealS.Witness.mb` = `{"m":[{"a":[]}]}`; `DES.Witness.ca` = `["aedb68afb","b7cdeb749"]`,
  `DES.Witness.cb` = `["a568b3ad2","b76a57d20"]`. All are documents as read from text. -/

/-- clause 1 fails by ALIAS: the members at key `m` are `Equals` under SET (the empty string and the
    empty array hash alike, so do the objects holding them), and yet the diff has a hunk below `m` -/
theorem equal_member_mentioned_alias_witness :
    RealS.Witness.ma.rawDoc = true ∧ RealS.Witness.ma.wf = true ∧
    RealS.Witness.mb.rawDoc = true ∧ RealS.Witness.mb.wf = true ∧
    RealS.navS [.set] RealS.Witness.ma [.key "m"] = some DES.Witness.wa ∧
    RealS.navS [.set] RealS.Witness.mb [.key "m"] = some DES.Witness.wb ∧
    equals [.set] DES.Witness.wa DES.Witness.wb = true ∧
    ∃ h ∈ diffM [.set] RealS.Witness.ma RealS.Witness.mb, [PathElem.key "m"] <+: h.path :=
  RealS.Witness.equal_member_mentioned_alias

/-- clause 4 fails by ALIAS: the diff of `[{"a":""}]` and `[{"a":[]}]` under SET is ONE hunk, and
    leaving it out — applying nothing — already gives a document `Equals` to the target -/
theorem redundant_hunk_alias_witness (sw : Bool) :
    ∃ h, diffM [.set] DES.Witness.wa DES.Witness.wb = [] ++ h :: [] ∧
      patchAll sw DES.Witness.wa ([] ++ []) = .ok DES.Witness.wa ∧
      equals [.set] DES.Witness.wa DES.Witness.wb = true :=
  RealS.Witness.redundant_hunk_alias sw

/-- clause 4 fails OUTRIGHT, no alias involved: a genuine FNV-1a 64 collision. Under SET and under
    MULTISET the diff of the two arrays of strings is one hunk, and it is redundant: the two arrays
    have the same hash code, so `Equals` already holds of the unpatched document -/
theorem redundant_hunk_fnv_collision_witness (sw : Bool) : ∀ o ∈ [[Opt.set], [Opt.mset]],
    ∃ h, diffM o DES.Witness.ca DES.Witness.cb = [] ++ h :: [] ∧
      patchAll sw DES.Witness.ca ([] ++ []) = .ok DES.Witness.ca ∧
      equals o DES.Witness.ca DES.Witness.cb = true :=
  RealS.Witness.redundant_hunk_fnv_collision sw

/-- why `memOK` in `setmodes_no_empty_hunk` (model only): a void object member that the other side
    lacks gives a hunk that removes nothing and adds nothing -/
theorem empty_hunk_void_member_witness (o : Opts) :
    diffNode o false (.obj [("k", .void)]) (.obj []) [] = [{ path := [.key "k"] }] :=
  RealS.Witness.empty_hunk_void_member o

/-! ### Non-vacuity of section 6

  `RealS.Example.exA` = `{"e":["p","q"],"n":{"s":["a","b",{"k":["x"]}]},"t":"u","v":"old","x":["k"]}`,
  `RealS.Example.exB` = `{"e":["q","p"],"n":{"s":[{"k":["x"]},"b","d"]},"t":"u","v":"new","y":"added"}`:
  four hunks in each reading (a set / multiset hunk two keys deep next to an equal object member
  of the set, a replaced string, a removed array, an added member). Every structural hypothesis
  holds (`ex_docs`), `DiffFaithful` holds in both readings (`ex_faithful_set`, `ex_faithful_mset`,
  decided in the kernel), the diffs are not empty (`ex_diff_ne`), and leave-one-out sub-diffs do
  apply (`#eval`s in JdProofs/RealDiffSet.lean). -/

example : RealS.Example.exA.rawDoc = true ∧ RealS.Example.exA.wf = true ∧
    RealS.Example.exB.rawDoc = true ∧ RealS.Example.exB.wf = true ∧
    DES.DiffFaithful [.set] (Jd.subterms RealS.Example.exA) (Jd.subterms RealS.Example.exB) ∧
    DES.DiffFaithful [.mset] (Jd.subterms RealS.Example.exA) (Jd.subterms RealS.Example.exB) ∧
    diffM [.set] RealS.Example.exA RealS.Example.exB ≠ [] ∧
    diffM [.mset] RealS.Example.exA RealS.Example.exB ≠ [] :=
  ⟨RealS.Example.ex_docs.1, RealS.Example.ex_docs.2.1, RealS.Example.ex_docs.2.2.1,
    RealS.Example.ex_docs.2.2.2.1, RealS.Example.ex_faithful_set, RealS.Example.ex_faithful_mset,
    RealS.Example.ex_diff_ne.1, RealS.Example.ex_diff_ne.2⟩

/-- whatever hunk is left out of the example diff, the rest does not give the target (SET) -/
example (d1 d2 : Diff) (h : Hunk)
    (hd : diffM [.set] RealS.Example.exA RealS.Example.exB = d1 ++ h :: d2) (sw : Bool) (r : Json)
    (hres : patchAll sw RealS.Example.exA (d1 ++ d2) = .ok r) :
    equals [.set] r RealS.Example.exB = false :=
  setmodes_no_redundant_hunk (.inl ⟨rfl, rfl⟩) rfl rfl RealS.Example.ex_docs.1
    RealS.Example.ex_docs.2.1 RealS.Example.ex_docs.2.2.1 RealS.Example.ex_docs.2.2.2.1
    RealS.Example.ex_faithful_set d1 d2 h hd sw r hres

/-- … and MULTISET -/
example (d1 d2 : Diff) (h : Hunk)
    (hd : diffM [.mset] RealS.Example.exA RealS.Example.exB = d1 ++ h :: d2) (sw : Bool) (r : Json)
    (hres : patchAll sw RealS.Example.exA (d1 ++ d2) = .ok r) :
    equals [.mset] r RealS.Example.exB = false :=
  setmodes_no_redundant_hunk (.inr rfl) rfl rfl RealS.Example.ex_docs.1
    RealS.Example.ex_docs.2.1 RealS.Example.ex_docs.2.2.1 RealS.Example.ex_docs.2.2.2.1
    RealS.Example.ex_faithful_mset d1 d2 h hd sw r hres

/-- the set hunk at `n.s` of the example removes members of `["a","b",{"k":["x"]}]`, adds members of
    `[{"k":["x"]},"b","d"]`, and the two are apart -/
example {h : Hunk} (hh : h ∈ diffM [.set] RealS.Example.exA RealS.Example.exB)
    (hpath : h.path = [.key "n", .key "s"] ++ [.set]) :
    ∀ r ∈ h.remove, ∀ w ∈ h.add, identOf [.set] r ≠ identOf [.set] w :=
  set_hunk_removed_added_apart (.inl ⟨rfl, rfl⟩) rfl rfl RealS.Example.ex_docs.1
    RealS.Example.ex_docs.2.1 RealS.Example.ex_docs.2.2.1 RealS.Example.ex_docs.2.2.2.1 hh hpath

/-- the `Equals` members at `e` (`["p","q"]` / `["q","p"]`) are not mentioned, in the SET reading -/
example : ∀ h ∈ diffM [.set] RealS.Example.exA RealS.Example.exB,
    ¬ [PathElem.key "e"] <+: h.path :=
  setmodes_equal_subdocument_not_mentioned (.inl ⟨rfl, rfl⟩) rfl rfl RealS.Example.ex_docs.1
    RealS.Example.ex_docs.2.1 RealS.Example.ex_docs.2.2.1 RealS.Example.ex_docs.2.2.2.1
    (q := [.key "e"]) rfl (v := .arr .raw [.str "p", .str "q"])
    (v' := .arr .raw [.str "q", .str "p"]) rfl rfl (by decide +kernel)
    (DES.diffFaithful_of_check (by decide +kernel))

/-! ## 7. The MERGE strategy (list reading of arrays, and SET+MERGE / MULTISET+MERGE)

  Names of `Jd.RealM` and `Jd.Merge` are written qualified. `Merge.objVoidFree x`: `x` is not void and
  no object member inside `x` is void. The clauses of `RealM.MergeHunkReal o a b h` are written out. -/

/-- **clauses 1–3 for the MERGE strategy, list reading: every hunk describes a real difference.**
    Every hunk `h` of `a.Diff(b, MERGE)` is a merge hunk at a key path, removes nothing and has no
    context lines; it adds exactly one value `v`; if `b` holds `w` at the path, `v` is `w` (up to the
    Go type of a top array node); if `b` holds nothing there, `v` is void (a deletion) and `a` does
    hold something there; what `a` holds there (if anything) is not `Equals` to `v`; `a` and `b` do
    not both hold an object there (objects are recursed into, everything else is replaced as a
    whole); and the parent location holds an object on both sides -/
theorem merge_hunk_real (o : Opts) (hm : isMerge o = true) (ho : dispatchTag o = .list)
    (hprec : precOf o = 0) (a b : Json)
    (haw : a.wf = true) (har : a.rawDoc = true) (hav : Merge.objVoidFree a = true)
    (hbw : b.wf = true) (hbr : b.rawDoc = true) (hbv : Merge.objVoidFree b = true) :
    ∀ h ∈ diffM o a b,
      h.merge = true ∧ keysOnly h.path = true ∧ h.remove = [] ∧ h.before = [] ∧ h.after = [] ∧
      (∃ v, h.add = [v] ∧
        (∀ w, getAt b h.path = some w → asList v = asList w) ∧
        (getAt b h.path = none → v = .void ∧ ∃ u, getAt a h.path = some u) ∧
        (∀ u, getAt a h.path = some u → equals o u v = false)) ∧
      (¬ ∃ kvs kvs', getAt a h.path = some (.obj kvs) ∧ getAt b h.path = some (.obj kvs')) ∧
      (∀ q e, h.path = q ++ [e] →
        ∃ kvs kvs', getAt a q = some (.obj kvs) ∧ getAt b q = some (.obj kvs')) :=
  fun h hh =>
    have R := RealM.merge_hunk_real_list o hm ho hprec a b haw har hav hbw hbr hbv h hh
    ⟨R.merge, R.keys, R.noRemove, R.noContext.1, R.noContext.2, R.one, R.wholesale, R.parents⟩

/-- **clause 1, MERGE strategy, list reading: equal sub-documents are never mentioned.** If `a` and
    `b` hold `Equals` values at a key path `q` (any depth; `q = []` is the whole document), no hunk of
    `a.Diff(b, MERGE)` has a path at or below `q`. No hash and no float hypothesis -/
theorem merge_equal_subdocument_not_mentioned (o : Opts) (hm : isMerge o = true)
    (ho : dispatchTag o = .list) (hprec : precOf o = 0) (a b : Json)
    (haw : a.wf = true) (har : a.rawDoc = true)
    (hbw : b.wf = true) (hbr : b.rawDoc = true) (hbv : Merge.objVoidFree b = true)
    {q : Path} (hq : keysOnly q = true) {v v' : Json} (hv : getAt a q = some v)
    (hv' : getAt b q = some v') (he : equals o v v' = true) :
    ∀ h ∈ diffM o a b, ¬ q <+: h.path :=
  RealM.merge_equal_subdoc_not_mentioned_list o hm ho hprec a b haw har hbw hbr hbv hq hv hv' he

/-- **clause 4, MERGE strategy, list reading: no hunk is redundant.** Leave any single hunk out of
    `a.Diff(b, MERGE)`: the LIBRARY's `Patch` (`patchAll sw`, either variant) applies the remaining hunks
    — a merge hunk cannot fail — and the result is not `Equals` to `b` -/
theorem merge_no_redundant_hunk (sw : Bool) (o : Opts) (hm : isMerge o = true)
    (ho : dispatchTag o = .list) (hprec : precOf o = 0) (a b : Json)
    (haw : a.wf = true) (har : a.rawDoc = true) (hav : Merge.objVoidFree a = true)
    (hbw : b.wf = true) (hbr : b.rawDoc = true) (hbv : Merge.objVoidFree b = true)
    (d1 d2 : Diff) (h : Hunk) (hd : diffM o a b = d1 ++ h :: d2) :
    ∃ r, patchAll sw a (d1 ++ d2) = .ok r ∧ equals o r b = false :=
  RealM.merge_no_redundant_hunk_list sw o hm ho hprec a b haw har hav hbw hbr hbv d1 d2 h hd

/-- **clauses 1–3, SET+MERGE and MULTISET+MERGE** (the statement of `merge_hunk_real`; a replaced
    array is reported as a `jsonSet` / `jsonMultiset` node, `asList` forgets that type) -/
theorem merge_setmodes_hunk_real (F : FloatEq0) (o : Opts) (hmg : isMerge o = true)
    (hm : dispatchTag o = .set ∨ dispatchTag o = .mset) (hk : keysOf o = none) (hp : precOf o = 0)
    (a b : Json) (ha : a.setDoc = true) (hav : Merge.objVoidFree a = true)
    (hb : b.setDoc = true) (hbv : Merge.objVoidFree b = true)
    (HF : HashFaithful o (Jd.subterms a ++ Jd.subterms b)) :
    ∀ h ∈ diffM o a b,
      h.merge = true ∧ keysOnly h.path = true ∧ h.remove = [] ∧ h.before = [] ∧ h.after = [] ∧
      (∃ v, h.add = [v] ∧
        (∀ w, getAt b h.path = some w → asList v = asList w) ∧
        (getAt b h.path = none → v = .void ∧ ∃ u, getAt a h.path = some u) ∧
        (∀ u, getAt a h.path = some u → equals o u v = false)) ∧
      (¬ ∃ kvs kvs', getAt a h.path = some (.obj kvs) ∧ getAt b h.path = some (.obj kvs')) ∧
      (∀ q e, h.path = q ++ [e] →
        ∃ kvs kvs', getAt a q = some (.obj kvs) ∧ getAt b q = some (.obj kvs')) :=
  fun h hh =>
    have R := RealM.merge_hunk_real_setmodes F o hmg hm hk hp a b ha hav hb hbv HF h hh
    ⟨R.merge, R.keys, R.noRemove, R.noContext.1, R.noContext.2, R.one, R.wholesale, R.parents⟩

/-- **clause 1, SET+MERGE and MULTISET+MERGE**: values that are `Equals` under the set (bag) reading
    at a key path are not mentioned at or below it -/
theorem merge_setmodes_equal_subdocument_not_mentioned (F : FloatEq0) (o : Opts)
    (hmg : isMerge o = true) (hm : dispatchTag o = .set ∨ dispatchTag o = .mset)
    (hk : keysOf o = none) (hp : precOf o = 0) (a b : Json) (ha : a.setDoc = true)
    (hb : b.setDoc = true) (hbv : Merge.objVoidFree b = true)
    (HF : HashFaithful o (Jd.subterms a ++ Jd.subterms b))
    {q : Path} (hq : keysOnly q = true) {v v' : Json} (hv : getAt a q = some v)
    (hv' : getAt b q = some v') (he : equals o v v' = true) :
    ∀ h ∈ diffM o a b, ¬ q <+: h.path :=
  RealM.merge_equal_subdoc_not_mentioned_setmodes F o hmg hm hk hp a b ha hb hbv HF hq hv hv' he

/-- **clause 4, SET+MERGE and MULTISET+MERGE**: no hunk is redundant (library's `Patch`) -/
theorem merge_setmodes_no_redundant_hunk (F : FloatEq0) (sw : Bool) (o : Opts)
    (hmg : isMerge o = true) (hm : dispatchTag o = .set ∨ dispatchTag o = .mset)
    (hk : keysOf o = none) (hp : precOf o = 0) (a b : Json)
    (ha : a.setDoc = true) (hav : Merge.objVoidFree a = true)
    (hb : b.setDoc = true) (hbv : Merge.objVoidFree b = true)
    (HF : HashFaithful o (Jd.subterms a ++ Jd.subterms b))
    (d1 d2 : Diff) (h : Hunk) (hd : diffM o a b = d1 ++ h :: d2) :
    ∃ r, patchAll sw a (d1 ++ d2) = .ok r ∧ equals o r b = false :=
  RealM.merge_no_redundant_hunk_setmodes F sw o hmg hm hk hp a b ha hav hb hbv HF d1 d2 h hd

/-- why `Merge.objVoidFree a` in `merge_hunk_real` (model only; no reader produces a void member): a
    void member of the first object that the second lacks is "deleted" by a hunk `+ void`, although
    `a` holds nothing real there — and void `Equals` void -/
theorem merge_void_member_witness (o : Opts) (ho : dispatchTag o = .list) (hm : isMerge o = true) :
    diffM o (.obj [("k", .void)]) (.obj []) = [Merge.mh ["k"] .void] ∧
    equals o .void .void = true :=
  RealM.Witness.merge_void_member o ho hm

/-! ### Non-vacuity of section 7

  `RealM.Example.mA` = `{"a":{"x":"1","y":"2"},"k":["p"],"r":"gone","t":"u"}`, `RealM.Example.mB` =
  `{"a":{"x":"1","y":"3"},"k":["q"],"n":"new","t":"u"}` under `[MERGE]`: four hunks (`RealM.Example.m_diff`:
  a member two keys deep replaced, an array replaced as a whole, a member deleted, a member added;
  the equal member `t` is not mentioned); every hypothesis holds (`RealM.Example.m_docs`). The set
  readings: the pair of JdProofs/MergeSetModes.lean (`MSet.Example.ex_docs`, `ex_hashFaithful_set`). -/

example : RealM.Example.mA.wf = true ∧ RealM.Example.mA.rawDoc = true ∧
    Merge.objVoidFree RealM.Example.mA = true ∧ RealM.Example.mB.wf = true ∧
    RealM.Example.mB.rawDoc = true ∧ Merge.objVoidFree RealM.Example.mB = true ∧
    (diffM [.merge] RealM.Example.mA RealM.Example.mB).length = 4 :=
  ⟨RealM.Example.m_docs.1, RealM.Example.m_docs.2.1, RealM.Example.m_docs.2.2.1,
    RealM.Example.m_docs.2.2.2.1, RealM.Example.m_docs.2.2.2.2.1, RealM.Example.m_docs.2.2.2.2.2,
    by rw [RealM.Example.m_diff]; rfl⟩

/-- whatever hunk of the example diff is left out, the library's `Patch` with the rest succeeds and
    does not give the target -/
example (d1 d2 : Diff) (h : Hunk)
    (hd : diffM [.merge] RealM.Example.mA RealM.Example.mB = d1 ++ h :: d2) :
    ∃ r, patchM RealM.Example.mA (d1 ++ d2) = .ok r ∧ equals [.merge] r RealM.Example.mB = false :=
  merge_no_redundant_hunk true [.merge] rfl rfl rfl _ _ RealM.Example.m_docs.1
    RealM.Example.m_docs.2.1 RealM.Example.m_docs.2.2.1 RealM.Example.m_docs.2.2.2.1
    RealM.Example.m_docs.2.2.2.2.1 RealM.Example.m_docs.2.2.2.2.2 d1 d2 h hd

/-- SET+MERGE on `{"s":["x","y"],"u":"x","v":["x"]}` → `{"s":["y","x"],"t":[true],"v":["x","z"]}` -/
example (F : FloatEq0) (d1 d2 : Diff) (h : Hunk)
    (hd : diffM [.set, .merge] MSet.Example.exA MSet.Example.exB = d1 ++ h :: d2) :
    ∃ r, patchM MSet.Example.exA (d1 ++ d2) = .ok r ∧
      equals [.set, .merge] r MSet.Example.exB = false :=
  merge_setmodes_no_redundant_hunk F true [.set, .merge] rfl (.inl rfl) rfl rfl _ _
    MSet.Example.ex_docs.1 (by decide) MSet.Example.ex_docs.2.1 MSet.Example.ex_docs.2.2.2
    MSet.Example.ex_hashFaithful_set d1 d2 h hd

/-! ## 8. No hunk is redundant: LIST reading, strict strategy, the general case

  Objects, arrays in arrays, containers as list elements at any depth. `memOK`, `HashOK`, `ZeroOK` are
  `DPL.memOK` (no void object member), `DPL.HashOK o a b` (a sub-term of `a` and a sub-term of `b` with
  the same hash code are structurally equal), `DPL.ZeroOK a b` (no `0` / `-0` pair between the numbers of
  `a` and of `b`): the domain of the C01 list theorem. -/

/-- **clause 4 in general.** Leave ANY single hunk `h` out of `a.Diff(b)` (list reading, strict
    strategy; any Precision option): if the remaining hunks apply at all under the documented
    meaning of hunks (`applyStrictAll`), the result is not structurally equal to `b` -/
theorem no_redundant_hunk_list (L : FloatLaws) (o : Opts) (ho : dispatchTag o = .list)
    (hm : isMerge o = false) (a b : Json)
    (ha1 : a.rawDoc = true) (ha2 : a.wf = true) (ha3 : a.finiteNums = true) (ha4 : memOK a = true)
    (hb1 : b.listDoc = true) (hb2 : b.wf = true) (hb3 : b.finiteNums = true) (hb4 : memOK b = true)
    (H : HashOK o a b) (Z : ZeroOK a b)
    (d1 d2 : Diff) (h : Hunk) (hd : diffM o a b = d1 ++ h :: d2) (r : Json)
    (hr : applyStrictAll a (d1 ++ d2) = some r) : specEq r b = false :=
  RealM.no_redundant_hunk_list L o ho hm a b ha1 ha2 ha3 ha4 hb1 hb2 hb3 hb4 H Z d1 d2 h hd r hr

/-- the same about the LIBRARY's `Patch` (`patchAll sw`, either variant; no Precision option):
    whatever it makes of `a` with the remaining hunks is not structurally equal to `b`, and not
    `Equals` to it -/
theorem no_redundant_hunk_list_patch (L : FloatLaws) (o : Opts) (ho : dispatchTag o = .list)
    (hm : isMerge o = false) (hp : precOf o = 0) (a b : Json)
    (ha1 : a.rawDoc = true) (ha2 : a.wf = true) (ha3 : a.finiteNums = true) (ha4 : memOK a = true)
    (hb1 : b.listDoc = true) (hb2 : b.wf = true) (hb3 : b.finiteNums = true) (hb4 : memOK b = true)
    (H : HashOK o a b) (Z : ZeroOK a b)
    (d1 d2 : Diff) (h : Hunk) (hd : diffM o a b = d1 ++ h :: d2) (sw : Bool) (r : Json)
    (hr : patchAll sw a (d1 ++ d2) = .ok r) : specEq r b = false ∧ equals o r b = false :=
  RealM.no_redundant_hunk_list_patch L o ho hm hp a b ha1 ha2 ha3 ha4 hb1 hb2 hb3 hb4 H Z d1 d2 h hd
    sw r hr

/-- why `a.rawDoc` and not only `a.listDoc` (model only: no reader produces a typed `jsonList` node):
    the diff of the EMPTY typed list and the EMPTY plain array is one hunk replacing the whole
    value, and it IS redundant — leaving it out, nothing is applied and the document is already
    structurally equal to the target -/
theorem typed_list_redundant_witness :
    diffM [] (.arr .list []) (.arr .raw []) =
      [] ++ ({ path := [], remove := [.arr .list []], add := [.arr .raw []] } : Hunk) :: [] ∧
    applyStrictAll (.arr .list []) ([] ++ []) = some (.arr .list []) ∧
    specEq (.arr .list []) (.arr .raw []) = true :=
  RealM.Witness.typed_list_redundant

/-! ### Non-vacuity of section 8

  `RealM.Example.pA` = `{"l":["a",{"k":"u"},"c"],"m":"x"}`, `RealM.Example.pB` =
  `{"l":["b",{"k":"v"},"c"],"n":"y"}`: four hunks — a list hunk at `l[0]`, a hunk INSIDE the object
  standing at `l[1]`, a removed member and an added member. Every structural hypothesis holds
  (`RealM.Example.p_docs`), there is no hash collision and no signed-zero pair (`p_hash`, 7 × 7 pairs),
  the diff is not empty (`p_diff_ne`), and every leave-one-out sub-diff does apply (`#eval`s in
  JdProofs/RealDiffMerge.lean), so the hypothesis `hr` is satisfiable. -/

example (L : FloatLaws) : RealM.Example.pA.rawDoc = true ∧ RealM.Example.pB.listDoc = true ∧
    HashOK [] RealM.Example.pA RealM.Example.pB ∧ ZeroOK RealM.Example.pA RealM.Example.pB ∧
    diffM [] RealM.Example.pA RealM.Example.pB ≠ [] :=
  ⟨RealM.Example.p_docs.1, RealM.Example.p_docs.2.2.2.2.1, (RealM.Example.p_hash L).1,
    (RealM.Example.p_hash L).2, RealM.Example.p_diff_ne L⟩

/-- whatever hunk of the example diff is left out: neither the reference interpreter nor the
    library's `Patch` reaches the target with the rest -/
example (L : FloatLaws) (d1 d2 : Diff) (h : Hunk)
    (hd : diffM [] RealM.Example.pA RealM.Example.pB = d1 ++ h :: d2) :
    (∀ r, applyStrictAll RealM.Example.pA (d1 ++ d2) = some r → specEq r RealM.Example.pB = false) ∧
    (∀ r, patchM RealM.Example.pA (d1 ++ d2) = .ok r →
      specEq r RealM.Example.pB = false ∧ equals [] r RealM.Example.pB = false) := by
  obtain ⟨a1, a2, a3, a4, b1, b2, b3, b4⟩ := RealM.Example.p_docs
  obtain ⟨H, Z⟩ := RealM.Example.p_hash L
  exact ⟨fun r hr => no_redundant_hunk_list L [] rfl rfl _ _ a1 a2 a3 a4 b1 b2 b3 b4 H Z d1 d2 h
      hd r hr,
    fun r hr => no_redundant_hunk_list_patch L [] rfl rfl rfl _ _ a1 a2 a3 a4 b1 b2 b3 b4 H Z d1
      d2 h hd true r hr⟩

/-! ## SetKeys reading (strict strategy) — proofs in JdProofs/RealDiffKeys.lean (ns `Jd.RealK`)

   `RealK.Loc o a b q u v` navigates `a` and `b` jointly along a path (a keyed element enters THE member
   of `a` that is the last bearer of its identity, and its partner of equal identity in `b`). Every hunk
   is real with no hash hypothesis; equal sub-documents are not mentioned under `PathInj` (needed:
   `RealK.Witness.equal_member_mentioned_nullkey`, the KF-C01-keytwin shape); no PROPER SUB-LIST of the diff
   reaches `b` (stronger than leave-one-out; it is what carries the induction through the swallowed
   nested failures of `sw = true`). -/

/-- every hunk of a SetKeys diff is real (literal members / values at a location present in `a`, what it
    removes is not Equal to what it adds, set hunks list one-sided identities only) -/
theorem diffM_hunk_real_setkeys {o : Opts} (hd : dispatchTag o = .set) (hp : precOf o = 0)
    (hmg : isMerge o = false) {a b : Json} (hr : a.rawDoc = true) (hw : a.wf = true)
    (hrb : b.rawDoc = true) (hwb : b.wf = true) : ∀ h ∈ diffM o a b, Jd.RealK.HunkReal o a b [] h :=
  Jd.RealK.diffM_hunk_real hd hp hmg hr hw hrb hwb

/-- **no redundant hunk, SetKeys**: leaving any single hunk out, what the library's `Patch` returns (if it
    applies at all) is not equivalent to `b` -/
theorem no_redundant_hunk_setkeys (F : FloatEq0) (L : FloatLaws) (sw : Bool) (o : Opts) (ks : List String)
    (hd : dispatchTag o = .set) (hk : keysOf o = some ks) (hmg : isMerge o = false)
    (hp : precOf o = 0) (a b : Json) (ha : a.setDoc = true) (hb : b.setDoc = true)
    (ha' : DPL.memOK a = true) (hb' : DPL.memOK b = true) (K : Jd.DPK.KeysHyp o ks a b)
    (i : Nat) (hi : i < (diffM o a b).length) (r : Json)
    (hres : patchAll sw a ((diffM o a b).eraseIdx i) = .ok r) : equivB o r b = false :=
  Jd.RealK.no_redundant_hunk_eraseIdx F L sw o ks hd hk hmg hp a b ha hb ha' hb' K i hi r hres

/-- the stronger form: no proper sub-list of the diff turns `a` into `b` -/
theorem no_proper_sublist_setkeys (F : FloatEq0) (L : FloatLaws) (sw : Bool) (o : Opts) (ks : List String)
    (hd : dispatchTag o = .set) (hk : keysOf o = some ks) (hmg : isMerge o = false)
    (hp : precOf o = 0) (a b : Json) (ha : a.setDoc = true) (hb : b.setDoc = true)
    (ha' : DPL.memOK a = true) (hb' : DPL.memOK b = true) (K : Jd.DPK.KeysHyp o ks a b)
    (D' : Diff) (hS : D'.Sublist (diffM o a b)) (hne : D' ≠ diffM o a b) (r : Json)
    (hr : patchAll sw a D' = .ok r) : equivB o r b = false :=
  Jd.RealK.no_proper_sublist F L sw o ks hd hk hmg hp a b ha hb ha' hb' K D' hS hne r hr

end Jd.Props.C07
