/-
  Property C04 — Equals decides exactly the advertised equivalence.
  Statement file (proofs in JdProofs/EqualsList.lean).

  `equals o a b` is the library's `a.Equals(b, options...)` (JdModel/Equals.lean);
  `equivB o a b` is the advertised equivalence written without hashes (JdSpec/CanonEq.lean).

  LIST MODE (no SET / MULTISET / SetKeys option; Precision allowed): full strength — no hashes are
  involved. SET / MULTISET / SetKeys: `Equals` compares 64-bit hash codes; the statement is partial
  (`equals_set_partial` is NOT yet proved; what IS proved here are the counter-witnesses that make
  the full statement false on the unchanged tree: known finding KF-C04-alias; the former KF-C04-negzero was repaired).
-/
import JdProofs.EqualsList

namespace Jd.Props.C04
open Jd Jd.Spec

/-- list mode: Equals is exactly the advertised equivalence -/
theorem equals_iff_equiv_list (o : Opts) (h : dispatchTag o = .list) (a b : Json)
    (ha : a.listDoc = true) (hb : b.listDoc = true) : equals o a b = equivB o a b :=
  equals_eq_equivB_list o h a b ha hb

/-- reflexive (finite numbers, eps ≥ 0; IEEE laws as explicit hypothesis) -/
theorem equals_refl (L : FloatLaws) (o : Opts) (h : dispatchTag o = .list) (hp : nonnegBits (precOf o) = true)
    (a : Json) (ha : a.listDoc = true) (hw : a.wf = true) (hf : a.finiteNums = true) : equals o a a = true :=
  equals_refl_list L o h hp a ha hw hf

/-- symmetric -/
theorem equals_symm (L : FloatLaws) (o : Opts) (h : dispatchTag o = .list) (a b : Json)
    (ha : a.listDoc = true) (hb : b.listDoc = true) (hwa : a.wf = true) (hwb : b.wf = true) :
    equals o a b = equals o b a :=
  equals_symm_list L o h a b ha hb hwa hwb

/-- values of different JSON types are never equal — for ALL options, including the set modes -/
theorem different_kinds_never_equal (o : Opts) (a b : Json) (h : equals o a b = true) : a.kind = b.kind :=
  equals_kind o a b h

theorem empty_array_ne_empty_string (o : Opts) (t : Tag) : equals o (.arr t []) (.str "") = false :=
  equals_emptyArr_emptyStr o t

theorem string_ne_number (o : Opts) (s : String) (n : UInt64) : equals o (.str s) (.num n) = false :=
  equals_str_num o s n

/-! Non-vacuity: a nested list-mode pair satisfies the hypotheses. -/
example : dispatchTag [] = .list ∧
    (Json.arr .raw [.num 0x3ff0000000000000, .obj [("a", .arr .raw [.str "x"])]]).listDoc = true ∧
    (Json.arr .raw [.num 0x3ff0000000000000, .obj [("a", .arr .raw [.str "x"])]]).wf = true := by
  decide

/-! ### Counter-witnesses in the set modes (the full statement is false there: known findings)

  The hash pre-image of the empty string, of the empty set and of the empty multiset is the empty
  byte string; an 8-byte string and the float64 with the same bytes share a pre-image. The model
  reproduces it (`decide` evaluates the structural hash functions in the kernel). -/

/-- KF-C04-alias: `[[]]` and `[""]` are Equal under SET although an array is not a string -/
theorem alias_empty_set_empty_string :
    equals [.set] (.arr .raw [.arr .raw []]) (.arr .raw [.str ""]) = true := by decide +kernel

/-- KF-C04-alias: `["AAAAAAAA"]` and `[2261634.5098039214]` are Equal under SET -/
theorem alias_string_number :
    equals [.set] (.arr .raw [.str "AAAAAAAA"]) (.arr .raw [.num 0x4141414141414141]) = true := by decide +kernel

/-- after the repair of D5b (`0` and `-0` hash alike, commit ff3e30d): `[0]` and `[-0]` are Equal as sets too -/
theorem negzero_equal_as_sets_after_fix :
    equals [.set] (.arr .raw [.num 0]) (.arr .raw [.num 0x8000000000000000]) = true := by decide +kernel

end Jd.Props.C04
