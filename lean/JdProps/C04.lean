/-
  Property C04 — Equals decides exactly the advertised equivalence.
  Statement file (proofs in JdProofs/EqualsList.lean and JdProofs/EqualsSet.lean).

  `equals o a b` is the library's `a.Equals(b, options...)` (JdModel/Equals.lean);
  `equivB o a b` is the advertised equivalence written without hashes (JdSpec/CanonEq.lean): deep
  structural equality, arrays as ordered lists / as sets (recursively) / as bags according to
  `dispatchTag o`, numbers within `precOf o`.

  LIST MODE (no SET / MULTISET / SetKeys option; Precision allowed): FULL strength — no hashes are
  involved: `equals_iff_equiv_list`, reflexive, symmetric.

  SET / MULTISET / SetKeys (`dispatchTag o = .set` / `.mset`; SetKeys dispatches to `.set`): `Equals`
  compares 64-bit FNV-1a hash codes of array nodes, and the full statement is FALSE on the code as
  it is (counter-witness theorems at the end: known finding KF-C04-alias). What is proved is the
  PARTIAL statement `equals_iff_equiv_set` / `equals_iff_equiv_multiset`: Equals IS the advertised
  equivalence whenever, among the finitely many sub-terms of the two documents at hand, equal hash
  codes occur only for equivalent nodes (`HashFaithful`: no collision, no pre-image alias). The
  converse of that hypothesis is a theorem, not an assumption: equivalent nodes always have equal
  hash codes (`equivalent_implies_equal_hash`). Reflexivity and symmetry in the set modes need no
  hash hypothesis at all (comparison of hash codes is an equivalence relation whatever the hash).
  Other hypotheses of the set-mode theorems, and why:
    `a.setDoc` = `rawDoc` (every array a plain `jsonArray`: `Equals` looks at the Go dynamic type
       of the receiver, the advertised equivalence does not, see `rawDoc_is_needed`) ∧ `wf` (unique
       sorted keys, the model's stand-in for Go maps) ∧ `finiteNums` ∧ `noNegZero` (kept from before
       the repair of D5b; now stronger than necessary);
    `precOf o = 0`: hash codes ignore Precision (known finding KF-C05-precision);
    `FloatEq0`: the one IEEE-754 law used (`|x - y| ≤ +0` only for `x = y`); `Float` is opaque to
       the kernel. `FloatLaws`: reflexivity / symmetry of `|x - y| ≤ eps`.

  For ALL options, unconditionally: two values of different JSON types are never Equal
  (`different_kinds_never_equal`, about the two values compared). The set-mode aliases at the end of
  the file are clashes one level DOWN: the differing members sit inside arrays that are compared by
  hash code.
-/
import JdProofs.EqualsList
import JdProofs.EqualsSet
import JdProps.C01Precision

namespace Jd.Props.C04
open Jd Jd.Spec

/-- list mode: Equals is exactly the advertised equivalence -/
theorem equals_iff_equiv_list (o : Opts) (h : dispatchTag o = .list) (a b : Json)
    (ha : a.listDoc = true) (hb : b.listDoc = true) : equals o a b = equivB o a b :=
  equals_eq_equivB_list o h a b ha hb

/-- reflexive (finite numbers, eps ≥ 0; IEEE laws as explicit hypothesis) -/
theorem equals_refl (L : FloatLaws) (o : Opts) (h : dispatchTag o = .list) (hp : nonnegBits (precOf o) = true)
    (a : Json) (ha : a.listDoc = true) (hw : a.wf = true) (hf : a.finiteNums = true) : equals o a a = true :=
  equals_refl_list L o h hp a ha hw hf

/-- symmetric -/
theorem equals_symm (L : FloatLaws) (o : Opts) (h : dispatchTag o = .list) (a b : Json)
    (ha : a.listDoc = true) (hb : b.listDoc = true) (hwa : a.wf = true) (hwb : b.wf = true) :
    equals o a b = equals o b a :=
  equals_symm_list L o h a b ha hb hwa hwb

/-- values of different JSON types are never equal — for ALL options, including the set modes -/
theorem different_kinds_never_equal (o : Opts) (a b : Json) (h : equals o a b = true) : a.kind = b.kind :=
  equals_kind o a b h

theorem empty_array_ne_empty_string (o : Opts) (t : Tag) : equals o (.arr t []) (.str "") = false :=
  equals_emptyArr_emptyStr o t

theorem string_ne_number (o : Opts) (s : String) (n : UInt64) : equals o (.str s) (.num n) = false :=
  equals_str_num o s n

/-! Non-vacuity: a nested list-mode pair satisfies the hypotheses. -/
example : dispatchTag [] = .list ∧
    (Json.arr .raw [.num 0x3ff0000000000000, .obj [("a", .arr .raw [.str "x"])]]).listDoc = true ∧
    (Json.arr .raw [.num 0x3ff0000000000000, .obj [("a", .arr .raw [.str "x"])]]).wf = true := by
  decide

/-! ## SET / SetKeys / MULTISET readings -/

/-- SET / SetKeys reading (partial): outside hash aliases and collisions among the sub-terms at
    hand, `Equals` is exactly the advertised equivalence (arrays as mathematical sets, recursively) -/
theorem equals_iff_equiv_set (F : FloatEq0) (o : Opts) (hd : dispatchTag o = .set)
    (hp : precOf o = 0) (a b : Json) (ha : a.setDoc = true) (hb : b.setDoc = true)
    (hf : HashFaithful o (subterms a ++ subterms b)) : equals o a b = equivB o a b :=
  equals_eq_equivB_set F o hd hp a b ha hb hf

/-- MULTISET reading (partial): the same with arrays as bags -/
theorem equals_iff_equiv_multiset (F : FloatEq0) (o : Opts) (hd : dispatchTag o = .mset)
    (hp : precOf o = 0) (a b : Json) (ha : a.setDoc = true) (hb : b.setDoc = true)
    (hf : HashFaithful o (subterms a ++ subterms b)) : equals o a b = equivB o a b :=
  equals_eq_equivB_mset F o hd hp a b ha hb hf

/-- the converse of `HashFaithful` needs no assumption: equivalent documents have equal hash codes
    (the hash of a set / bag does not depend on order, nor — for sets — on multiplicity) -/
theorem equivalent_implies_equal_hash (F : FloatEq0) (o : Opts)
    (hm : dispatchTag o = .set ∨ dispatchTag o = .mset) (hp : precOf o = 0)
    (a b : Json) (ha : a.setDoc = true) (hb : b.setDoc = true)
    (h : equivB o a b = true) : hashCode o a = hashCode o b :=
  equivB_hash F o hm hp a b ha hb h

/-- reflexive in the set modes, without any hash hypothesis (finite numbers, eps ≥ 0) -/
theorem equals_refl_set_modes (L : FloatLaws) (o : Opts)
    (hm : dispatchTag o = .set ∨ dispatchTag o = .mset) (hp : nonnegBits (precOf o) = true)
    (a : Json) (hr : a.rawDoc = true) (hw : a.wf = true) (hf : a.finiteNums = true) :
    equals o a a = true :=
  equals_refl_setmode L o hm hp a hr hw hf

/-- symmetric in the set modes, without any hash hypothesis -/
theorem equals_symm_set_modes (L : FloatLaws) (o : Opts)
    (hm : dispatchTag o = .set ∨ dispatchTag o = .mset) (a b : Json)
    (hra : a.rawDoc = true) (hrb : b.rawDoc = true) (hwa : a.wf = true) (hwb : b.wf = true) :
    equals o a b = equals o b a :=
  equals_symm_setmode L o hm a b hra hrb hwa hwb

/-- the hypothesis `rawDoc` is needed: a `jsonList`-typed receiver is never Equal to a plain array
    under SET although the two denote the same set -/
theorem rawDoc_is_needed :
    equals [.set] (.arr .list [.null]) (.arr .raw [.null]) = false ∧
    equivB [.set] (.arr .list [.null]) (.arr .raw [.null]) = true :=
  mixed_tags_differ

/-- the hypothesis `wf` (sorted keys) is needed: the object hash follows the stored key order -/
theorem wf_is_needed :
    equivB [.set] (.obj [("a", .null), ("b", .void)]) (.obj [("b", .void), ("a", .null)]) = true ∧
    hashCode [.set] (.obj [("a", .null), ("b", .void)])
      ≠ hashCode [.set] (.obj [("b", .void), ("a", .null)]) :=
  unsorted_object_hash_differs

/-! Non-vacuity of the set-mode theorem: `["a", {"k":["b","a"]}]` and
    `[{"k":["a","b","a"]}, "a", "a"]` (reordered, duplicated, nested) satisfy `setDoc` and
    `HashFaithful` (all 14 × 14 pairs of sub-terms checked in the kernel), and are Equal under SET. -/

example : setExA.setDoc = true ∧ setExB.setDoc = true ∧
    HashFaithful [.set] (subterms setExA ++ subterms setExB) :=
  ⟨ex_setDoc.1, ex_setDoc.2, ex_hashFaithful⟩

example (F : FloatEq0) :
    equals [.set] setExA setExB = equivB [.set] setExA setExB ∧ equals [.set] setExA setExB = true :=
  ex_equals_eq_equivB F

/-! ### Counter-witnesses in the set modes (the full statement is false there: known findings)

  The hash pre-image of the empty string, of the empty set and of the empty multiset is the empty
  byte string; an 8-byte string and the float64 with the same bytes share a pre-image. The model
  reproduces it (`decide` evaluates the structural hash functions in the kernel). -/

/-- KF-C04-alias: `[[]]` and `[""]` are Equal under SET although an array is not a string -/
theorem alias_empty_set_empty_string :
    equals [.set] (.arr .raw [.arr .raw []]) (.arr .raw [.str ""]) = true := by decide +kernel

/-- KF-C04-alias: `["AAAAAAAA"]` and `[2261634.5098039214]` are Equal under SET -/
theorem alias_string_number :
    equals [.set] (.arr .raw [.str "AAAAAAAA"]) (.arr .raw [.num 0x4141414141414141]) = true := by decide +kernel

/-- after the repair of D5b (`0` and `-0` hash alike, commit ff3e30d): `[0]` and `[-0]` are Equal as sets too -/
theorem negzero_equal_as_sets_after_fix :
    equals [.set] (.arr .raw [.num 0]) (.arr .raw [.num 0x8000000000000000]) = true := by decide +kernel

/-! ### Option plumbing: the regenerated table of the calls inside the functions behind this property is proved equal to the
    model's in JdProofs/CondSites/P_C04.lean (`option_plumbing_as_modelled_C04`), built and audited by this property's check. -/

end Jd.Props.C04
