/-
  Property C02 — "the native jd diff text is a lossless carrier of a diff … so a diff printed by
  `jd a b` and applied with `jd -p` turns a into b" — for the option combinations JdProps/C02.lean
  lists as NOT PROVED: a `Precision(eps)` option together with the SET / MULTISET / SetKeys reading
  (strict strategy and MERGE), MERGE + Precision in the LIST reading THROUGH THE TEXT, and the colour
  output.  Statements only; proofs in JdProofs/NativeEndToEndPrecision.lean (namespace `Jd.E2EP`).

  Model side: `diffM o a b` = `a.Diff(b, o...)`, `renderM nc opts d` = `d.Render(opts...)`,
  `readDiffM nc text` = `ReadDiffString(text)`, `patchM a d` = `a.Patch(d)`, `equals o` = `Equals`;
  `equivB o` is the hash-free spec of the advertised equivalence; `nc : NumCodec` stands for strconv
  on number tokens.

  WHY IT HOLDS.  (P1–P3) In the set readings `Diff` does not look at the precision at all
  (`SP.diffM_strip`: `diffM o a b = diffM (stripPrec o) a b` on documents as read from text), so the
  diff, its text, and what is read back are LITERALLY those of the run without the precision, and
  the existing end-to-end theorems apply; the result `Equals` `b` without the precision, hence with
  it (`SP.equals_mono`, under `PrecMono o`).  (P4) In the LIST reading with MERGE the diff DOES
  depend on the precision (arrays within eps are not reported): the induction of `MP.memSound_list`
  is re-run for the diff as read back.  (P5) Colour: `Render(COLOR)` is `Render()` with ANSI
  sequences inserted, the character-level string diff included; the colour text is not reader input.

  HYPOTHESES common to the end-to-end theorems, and why:
    `dispatchTag o`, `keysOf o`, `isMerge o`    which reading / strategy the option list selects;
    `DPL.PrecMono o`   the IEEE fact `|u-v| ≤ 0 → |u-v| ≤ eps` for the precision of `o` (true for every
                       `eps ≥ +0`; `numWithin` is opaque to the kernel). NEEDED: `precMono_needed_text`;
    `nonnegBits (precOf o)` (P4 only)  the precision is a finite number `≥ +0`, so that a number
                       `Equals` itself (`FloatLaws.refl`). NEEDED: `negative_precision_breaks_text`
                       (`jd -precision=-1` is accepted by the CLI);
    `FloatEq0`, `FloatLaws`   the IEEE laws of the in-memory theorems (C01);
    `a.setDoc`, `b.setDoc`   documents as read from JSON text: plain arrays, unique sorted keys, finite
                       numbers, no `-0` (domain of the C01 set theorems); `a.wf`, `a.rawDoc`, … in P4;
    `E2E.voidFree a`, `E2E.voidFree b`   no void array element / object member (no reader produces one;
                       needed: `C02.void_element_read_witness_set`);
    `HashFaithful (stripPrec o) (subterms a ++ subterms b)` resp. `DPK.KeysHyp (stripPrec o) ks a b`
                       no harmful FNV collision among the sub-terms, READ WITHOUT THE PRECISION (hash
                       codes ignore it; for the full `o` the hypothesis would be weaker). Needed already
                       without a precision (KF-C04-alias, `C02.setMerge_collision_witness`);
    `b.nullFree`, `Merge.objVoidFree b`  (MERGE with set readings) the domain of merge patches;
    `ValOK nc z` for the sub-terms, `PathOK nc h.path` for the paths of the diff: the contract on
                       encoding/json (value text has no newline and is read back as the value);
    `NoEscVal nc z`, `NoEscPath nc p` (colour only): the JSON text has no ESC character (encoding/json
                       escapes control characters; proved outright for strings: `noEscVal_str`).
  CONCLUSIONS.  `equals o r b` always; `equivB o r b` in the SET / SetKeys reading and in P4;
  for MULTISET only `equivB (stripPrec o) r b` (exact bag equivalence — STRONGER as a statement about
  `r`, but not the advertised one): the spec's bag matching is greedy and not monotone in the
  precision (`C01Precision.spec_bag_matching_is_greedy`, a weakness of the spec, not of jd).
  NOT PROVED: SetKeys + MERGE through the text (with or without a Precision; in memory it holds iff
  no clash: `C01Precision.c01_setkeys_merge_precision_iff`).
-/
import JdProofs.NativeEndToEndPrecision

set_option autoImplicit false

namespace Jd.Props.C02Precision
open Jd Jd.Spec Jd.NativeRT Jd.Robust
open Jd.SP (stripPrec)

/-! ## (P1) SET / MULTISET + Precision, strict strategy (`jd -set a b | jd -p -set a` with a
    `Precision` option in the library call; the CLI refuses `-precision` with `-set` / `-mset`) -/

/-- **the premises of the text theorems are theorems about `Diff`.** For documents as read from
    text (`rawDoc`, `wf`) with nothing void inside (`voidFree`) and no harmful hash collision for the
    options WITHOUT the precision (`FH`, decidable), under a set reading `hm` (`dispatchTag o = .set ∧
    keysOf o = none`, or `.mset`) and the strict strategy `hmg`, whatever Precision options `o` holds:
    `a.Diff(b, o)` is in the reader's domain (`wfDiff`), tag-free, without `{}`-keyed element, with
    harmless void entries, re-renders identically, and every hunk is strict, without context, on a
    key path possibly followed by `{}` / `[]` -/
theorem produced_diff_in_domain_set_precision {o : Opts} (hm : DES.SetReading o)
    (hmg : isMerge o = false) (a b : Json) (ha : a.rawDoc = true) (hwa : a.wf = true)
    (hb : b.rawDoc = true) (hwb : b.wf = true) (hva : E2E.voidFree a = true)
    (hvb : E2E.voidFree b = true)
    (FH : DES.DiffFaithful (stripPrec o) (subterms a) (subterms b)) :
    wfDiff (diffM o a b) = true ∧ (diffM o a b).all rawHunk = true ∧
    noEmptySetKeys (diffM o a b) = true ∧ (diffM o a b).all voidOK = true ∧
    (diffM o a b).all listDocHunk = true ∧
    (∀ h ∈ diffM o a b, h.merge = false ∧ h.before = [] ∧ h.after = [] ∧
      E2ES.SPath (E2E.docKeys a ++ E2E.docKeys b) h.path) :=
  E2EP.diffM_premises_set_precision hm hmg a b ha hwa hb hwb hva hvb FH

/-- **C02 proper, SET / MULTISET + Precision**: the printed text of `a.Diff(b, o)` is read back as a
    diff that renders to the IDENTICAL text and has EXACTLY the same outcome (result or error) as
    `a.Diff(b, o)` on EVERY document `c`. `hv`, `hpth`: the codec contract on the sub-terms and on
    the paths of the diff. No float hypothesis at all. -/
theorem produced_diff_text_lossless_set_precision (nc : NumCodec) {o : Opts}
    (hm : DES.SetReading o) (hmg : isMerge o = false) (a b : Json) (ha : a.rawDoc = true)
    (hwa : a.wf = true) (hb : b.rawDoc = true) (hwb : b.wf = true)
    (hva : E2E.voidFree a = true) (hvb : E2E.voidFree b = true)
    (FH : DES.DiffFaithful (stripPrec o) (subterms a) (subterms b))
    (hv : ∀ z ∈ subterms a ++ subterms b, ValOK nc z)
    (hpth : ∀ h ∈ diffM o a b, PathOK nc h.path)
    (text : String) (hr : renderM nc [] (diffM o a b) = some text) :
    ∃ d', readDiffM nc text = .ok d' ∧ renderM nc [] d' = some text ∧
      ∀ c : Json, patchM c d' = patchM c (diffM o a b) :=
  E2EP.diff_text_lossless_set_precision nc hm hmg a b ha hwa hb hwb hva hvb FH hv hpth text hr

/-- **end to end, SET / MULTISET + Precision, strict strategy.** If `a.Diff(b, o).Render()` gives
    `text`, then `ReadDiffString(text)` succeeds with `d' = normDiff (a.Diff(b, o))`, and `a.Patch(d')`
    succeeds with THE SAME document `r` as the in-memory patch; `r` `Equals` `b` under `o` (`M`), and
    even without the precision (`Equals` and `equivB`); in the SET reading `r` is equivalent to `b` for
    the advertised equivalence under `o` (sets recursively, numbers within eps). -/
theorem print_read_patch_set_precision (F : FloatEq0) (L : FloatLaws) (nc : NumCodec)
    (o : Opts) (hm : dispatchTag o = .set ∨ dispatchTag o = .mset) (hk : keysOf o = none)
    (hmg : isMerge o = false) (M : DPL.PrecMono o) (a b : Json)
    (ha : a.setDoc = true) (hb : b.setDoc = true)
    (hva : E2E.voidFree a = true) (hvb : E2E.voidFree b = true)
    (HF : HashFaithful (stripPrec o) (subterms a ++ subterms b))
    (hv : ∀ z ∈ subterms a ++ subterms b, ValOK nc z)
    (hpth : ∀ h ∈ diffM o a b, PathOK nc h.path)
    (text : String) (hr : renderM nc [] (diffM o a b) = some text) :
    ∃ d', readDiffM nc text = .ok d' ∧ d' = normDiff (diffM o a b) ∧
      ∃ r, patchM a d' = .ok r ∧ patchM a (diffM o a b) = .ok r ∧
        equals o r b = true ∧ equals (stripPrec o) r b = true ∧
        equivB (stripPrec o) r b = true ∧ (dispatchTag o = .set → equivB o r b = true) :=
  E2EP.diff_render_read_patch_set_precision F L nc o hm hk hmg M a b ha hb hva hvb HF hv hpth text hr

/-- **the same, total form**: when `json.Marshal` succeeds on the sub-terms and the paths, the text
    EXISTS, is read back, and the diff read back patches `a` to a document that `Equals` `b` -/
theorem print_read_patch_total_set_precision (F : FloatEq0) (L : FloatLaws) (nc : NumCodec)
    (o : Opts) (hm : dispatchTag o = .set ∨ dispatchTag o = .mset) (hk : keysOf o = none)
    (hmg : isMerge o = false) (M : DPL.PrecMono o) (a b : Json)
    (ha : a.setDoc = true) (hb : b.setDoc = true)
    (hva : E2E.voidFree a = true) (hvb : E2E.voidFree b = true)
    (HF : HashFaithful (stripPrec o) (subterms a ++ subterms b))
    (hv : ∀ z ∈ subterms a ++ subterms b, (marshalNode nc z).isSome = true ∧ ValOK nc z)
    (hpth : ∀ h ∈ diffM o a b, (jsonM nc (pathToJson h.path)).isSome = true ∧ PathOK nc h.path) :
    ∃ text d' r, renderM nc [] (diffM o a b) = some text ∧ readDiffM nc text = .ok d' ∧
      patchM a d' = .ok r ∧ equals o r b = true ∧ equivB (stripPrec o) r b = true ∧
      (dispatchTag o = .set → equivB o r b = true) :=
  E2EP.diff_print_read_patch_set_precision F L nc o hm hk hmg M a b ha hb hva hvb HF hv hpth

/-! ## (P2) SetKeys + Precision, strict strategy.  The lossless-text theorem
    `C02.diff_text_lossless_setkeys` never had a hypothesis on the precision: it covers this case. -/

/-- **end to end, SetKeys + Precision**: `ks ≠ []` (under `SetKeys()` the text cannot carry the path
    element: `C02`, `E2EK.EmptyKeys.emptyKeys_witness`); `KH`: the decidable bundle of the SetKeys
    theorem (identities pairwise distinct within an array, path objects and key tuples faithful, no
    collision), read without the precision. The result is the in-memory result, `Equals` `b` and is
    equivalent to it under `o` (and without the precision), and has the hash code of `b`. -/
theorem print_read_patch_setkeys_precision (F : FloatEq0) (L : FloatLaws) (nc : NumCodec)
    (o : Opts) (ks : List String) (hd : dispatchTag o = .set) (hk : keysOf o = some ks)
    (hmg : isMerge o = false) (M : DPL.PrecMono o) (hks : ks ≠ []) (a b : Json)
    (ha : a.setDoc = true) (hb : b.setDoc = true)
    (hva : E2E.voidFree a = true) (hvb : E2E.voidFree b = true)
    (KH : DPK.KeysHyp (stripPrec o) ks a b)
    (hv : ∀ z ∈ subterms a ++ subterms b, ValOK nc z)
    (hpth : ∀ h ∈ diffM o a b, PathOK nc h.path)
    (text : String) (hr : renderM nc [] (diffM o a b) = some text) :
    ∃ d', readDiffM nc text = .ok d' ∧ d' = normDiff (diffM o a b) ∧
      ∃ r, patchM a d' = .ok r ∧ patchM a (diffM o a b) = .ok r ∧
        equals o r b = true ∧ equivB o r b = true ∧ equals (stripPrec o) r b = true ∧
        equivB (stripPrec o) r b = true ∧ hashCode o r = hashCode o b :=
  E2EP.diff_render_read_patch_setkeys_precision F L nc o ks hd hk hmg M hks a b ha hb hva hvb KH hv
    hpth text hr

/-- **the same, total form** -/
theorem print_read_patch_total_setkeys_precision (F : FloatEq0) (L : FloatLaws) (nc : NumCodec)
    (o : Opts) (ks : List String) (hd : dispatchTag o = .set) (hk : keysOf o = some ks)
    (hmg : isMerge o = false) (M : DPL.PrecMono o) (hks : ks ≠ []) (a b : Json)
    (ha : a.setDoc = true) (hb : b.setDoc = true)
    (hva : E2E.voidFree a = true) (hvb : E2E.voidFree b = true)
    (KH : DPK.KeysHyp (stripPrec o) ks a b)
    (hv : ∀ z ∈ subterms a ++ subterms b, (marshalNode nc z).isSome = true ∧ ValOK nc z)
    (hpth : ∀ h ∈ diffM o a b, (jsonM nc (pathToJson h.path)).isSome = true ∧ PathOK nc h.path) :
    ∃ text d' r, renderM nc [] (diffM o a b) = some text ∧ readDiffM nc text = .ok d' ∧
      patchM a d' = .ok r ∧ equals o r b = true ∧ equivB o r b = true :=
  E2EP.diff_print_read_patch_setkeys_precision F L nc o ks hd hk hmg M hks a b ha hb hva hvb KH hv hpth

/-! ## (P3) MERGE + SET / MULTISET + Precision -/

/-- **C02 proper**: identical text when rendered again; same effect on EVERY document up to the Go
    type of array nodes of the result (a replaced array is the typed node `jsonSet` / `jsonMultiset`,
    read back as a plain array) -/
theorem produced_diff_text_lossless_setMerge_precision (F : FloatEq0) (nc : NumCodec) {o : Opts}
    {a b : Json} (hmg : isMerge o = true) (hm : dispatchTag o = .set ∨ dispatchTag o = .mset)
    (hk : keysOf o = none) (ha : a.setDoc = true) (hb : b.setDoc = true)
    (hn : b.nullFree = true) (hvf : Merge.objVoidFree b = true)
    (HF : HashFaithful (stripPrec o) (subterms a ++ subterms b))
    (hv : ∀ z ∈ subterms b, ValOK nc z) (hpth : ∀ h ∈ diffM o a b, PathOK nc h.path)
    (text : String) (hr : renderM nc [] (diffM o a b) = some text) :
    ∃ d', readDiffM nc text = .ok d' ∧ renderM nc [] d' = some text ∧
      ∀ c : Json,
        Outcome.mapO untag (patchM c d') = Outcome.mapO untag (patchM c (diffM o a b)) :=
  E2EP.diff_text_lossless_mergeSet_precision F nc hmg hm hk ha hb hn hvf HF hv hpth text hr

/-- **end to end, MERGE + SET / MULTISET + Precision**: `b` null-free and without void (the domain
    of merge patches); the codec contract on the sub-terms of `b` only (every value of a merge diff
    comes from `b`) -/
theorem print_read_patch_setMerge_precision (F : FloatEq0) (L : FloatLaws) (nc : NumCodec)
    {o : Opts} {a b : Json} (hmg : isMerge o = true)
    (hm : dispatchTag o = .set ∨ dispatchTag o = .mset) (hk : keysOf o = none)
    (M : DPL.PrecMono o) (ha : a.setDoc = true) (hb : b.setDoc = true)
    (hn : b.nullFree = true) (hvf : Merge.objVoidFree b = true)
    (HF : HashFaithful (stripPrec o) (subterms a ++ subterms b))
    (hv : ∀ z ∈ subterms b, ValOK nc z) (hpth : ∀ h ∈ diffM o a b, PathOK nc h.path)
    (text : String) (hr : renderM nc [] (diffM o a b) = some text) :
    ∃ d', readDiffM nc text = .ok d' ∧ d' = normDiff (diffM o a b) ∧
      ∃ r, patchM a d' = .ok r ∧ equals o r b = true ∧ equals (stripPrec o) r b = true ∧
        equivB (stripPrec o) r b = true ∧ (dispatchTag o = .set → equivB o r b = true) :=
  E2EP.diff_render_read_patch_mergeSet_precision F L nc hmg hm hk M ha hb hn hvf HF hv hpth text hr

/-- **the same, total form** -/
theorem print_read_patch_total_setMerge_precision (F : FloatEq0) (L : FloatLaws) (nc : NumCodec)
    {o : Opts} {a b : Json} (hmg : isMerge o = true)
    (hm : dispatchTag o = .set ∨ dispatchTag o = .mset) (hk : keysOf o = none)
    (M : DPL.PrecMono o) (ha : a.setDoc = true) (hb : b.setDoc = true)
    (hn : b.nullFree = true) (hvf : Merge.objVoidFree b = true)
    (HF : HashFaithful (stripPrec o) (subterms a ++ subterms b))
    (hv : ∀ z ∈ subterms b, (marshalNode nc z).isSome = true ∧ ValOK nc z)
    (hpth : ∀ h ∈ diffM o a b, (jsonM nc (pathToJson h.path)).isSome = true ∧ PathOK nc h.path) :
    ∃ text d' r, renderM nc [] (diffM o a b) = some text ∧ readDiffM nc text = .ok d' ∧
      patchM a d' = .ok r ∧ equals o r b = true ∧ equivB (stripPrec o) r b = true ∧
      (dispatchTag o = .set → equivB o r b = true) :=
  E2EP.diff_print_read_patch_mergeSet_precision F L nc hmg hm hk M ha hb hn hvf HF hv hpth

/-! ## (P4) MERGE + Precision in the LIST reading, through the text (`jd -f merge -precision eps a b`
    printed in the native format, read by `jd -p`).  The lossless-text theorem
    `C02.produced_diff_text_lossless_merge` never had a hypothesis on the precision. -/

/-- **end to end, MERGE + Precision, list reading.** `a` as read from text (`wf`, `rawDoc`; it may
    hold nulls and void members); `b` as read from text, without void, finite numbers — `b` MAY hold
    nulls (a merge hunk read from the native text stores `null`; only the bare `+` line deletes).
    `hp`: the precision is a finite number `≥ +0`; `M`: within 0 implies within eps. The text is read
    back as `normDiff` of the diff, and `a.Patch` of it `Equals` `b` under the options and is
    equivalent to it. (`specEq r b` is NOT claimed: arrays within eps are kept,
    `MP.Witness.specEq_fails_array`.) -/
theorem print_read_patch_merge_precision (L : FloatLaws) (nc : NumCodec) (o : Opts)
    (hm : isMerge o = true) (ho : dispatchTag o = .list)
    (hp : nonnegBits (precOf o) = true) (M : DPL.PrecMono o) (a b : Json)
    (haw : a.wf = true) (har : a.rawDoc = true)
    (hbw : b.wf = true) (hbr : b.rawDoc = true)
    (hbv : Merge.objVoidFree b = true) (hbf : b.finiteNums = true)
    (hv : ∀ z ∈ subterms b, ValOK nc z)
    (hpth : ∀ h ∈ diffM o a b, PathOK nc h.path)
    (text : String) (hr : renderM nc [] (diffM o a b) = some text) :
    ∃ d', readDiffM nc text = .ok d' ∧ d' = normDiff (diffM o a b) ∧
      ∃ r, patchM a d' = .ok r ∧ equals o r b = true ∧ equivB o r b = true :=
  E2EP.diff_render_read_patch_mergeList_precision L nc o hm ho hp M a b haw har hbw hbr hbv hbf hv hpth
    text hr

/-- **the same, total form** -/
theorem print_read_patch_total_merge_precision (L : FloatLaws) (nc : NumCodec) (o : Opts)
    (hm : isMerge o = true) (ho : dispatchTag o = .list)
    (hp : nonnegBits (precOf o) = true) (M : DPL.PrecMono o) (a b : Json)
    (haw : a.wf = true) (har : a.rawDoc = true)
    (hbw : b.wf = true) (hbr : b.rawDoc = true)
    (hbv : Merge.objVoidFree b = true) (hbf : b.finiteNums = true)
    (hv : ∀ z ∈ subterms b, (marshalNode nc z).isSome = true ∧ ValOK nc z)
    (hpth : ∀ h ∈ diffM o a b, (jsonM nc (pathToJson h.path)).isSome = true ∧ PathOK nc h.path) :
    ∃ text d' r, renderM nc [] (diffM o a b) = some text ∧ readDiffM nc text = .ok d' ∧
      patchM a d' = .ok r ∧ equals o r b = true ∧ equivB o r b = true :=
  E2EP.diff_print_read_patch_mergeList_precision L nc o hm ho hp M a b haw har hbw hbr hbv hbf hv hpth

/-- the library calls for the option list the CLI builds for `jd -f merge -precision eps` -/
theorem print_read_patch_MERGE_Precision (L : FloatLaws) (nc : NumCodec) (eps : UInt64)
    (hp : nonnegBits eps = true) (M : DPL.PrecMono [.merge, .prec eps]) (a b : Json)
    (haw : a.wf = true) (har : a.rawDoc = true)
    (hbw : b.wf = true) (hbr : b.rawDoc = true)
    (hbv : Merge.objVoidFree b = true) (hbf : b.finiteNums = true)
    (hv : ∀ z ∈ subterms b, ValOK nc z)
    (hpth : ∀ h ∈ diffM [.merge, .prec eps] a b, PathOK nc h.path)
    (text : String) (hr : renderM nc [] (diffM [.merge, .prec eps] a b) = some text) :
    ∃ d', readDiffM nc text = .ok d' ∧
      ∃ r, patchM a d' = .ok r ∧ equals [.merge, .prec eps] r b = true ∧
        equivB [.merge, .prec eps] r b = true :=
  E2EP.readDiffM_patchM_MERGE_precision L nc eps hp M a b haw har hbw hbr hbv hbf hv hpth text hr

/-! ## the float hypotheses are needed through the text -/

/-- **`PrecMono o` cannot be dropped, in any reading** (any option list `o`): were `x` within `+0` of
    `y` (`h0`) but not within the precision of `o` (`h1`) — excluded by IEEE for `eps ≥ +0`, but the
    case of `x = y` under a negative or NaN precision, which `Precision(-1)` allows — the diff is
    empty, its text is the empty text, the empty text is read back as the empty diff, `jd -p` returns
    `x`, and `x` does not `Equals` `y` under `o` -/
theorem precMono_needed_text (nc : NumCodec) (o : Opts) (x y : UInt64)
    (h0 : numWithin 0 x y = true) (h1 : numWithin (precOf o) x y = false) :
    renderM nc [] (diffM o (.num x) (.num y)) = some "" ∧ readDiffM nc "" = .ok [] ∧
    patchM (.num x) [] = .ok (.num x) ∧ equals o (.num x) (.num y) = false :=
  E2EP.Witness.precMono_needed_text nc o x y h0 h1

/-- **`nonnegBits (precOf o)` cannot be dropped in (P4)**, relative to the IEEE fact `h` that
    `|1 - 1| ≤ eps` is false for a negative or NaN `eps`: `null → 1` under `[MERGE, Precision(eps)]` is
    printed (`^ {"Merge":true}` / `@ []` / `+ 1`), read back, applied: the result is `1`, which does not
    `Equals` the target `1` under the options -/
theorem negative_precision_breaks_text (eps : UInt64)
    (h : numWithin eps E2EP.Example.one E2EP.Example.one = false) :
    ∃ text d', renderM exCodec [] (diffM [.merge, .prec eps] .null (.num E2EP.Example.one)) = some text ∧
      readDiffM exCodec text = .ok d' ∧ patchM .null d' = .ok (.num E2EP.Example.one) ∧
      equals [.merge, .prec eps] (.num E2EP.Example.one) (.num E2EP.Example.one) = false :=
  E2EP.Witness.negative_precision_breaks_text eps h

/-! ## (P5) colour output

  `renderM nc [.color] d` is `d.Render(COLOR)`.  `stripAnsi` removes the sequences `ESC [ … m`.
  The model renders colour as the Go code does: the red / green code BEFORE the `-` / `+` header and
  the reset AFTER the newline — except for a hunk that removes exactly one string and adds exactly
  one string, where `colorStringMarshal` colours, inside the JSON string, every rune of the ESCAPED
  text that is not matched (greedily) against the longest common subsequence of the two raw strings.
  `C02.color_is_plain_plus_ansi` (`NativeRT.renderM_color_strip`) covers BOTH branches under the
  contract `NoEsc nc d`.  New here: the contract at the level of the INPUTS, the character-level
  branch without any contract on the strings, and what the reader does with the colour text. -/

/-- **the character-level colouring strips to the plain text, for ALL strings** `x`, `y` (quotes,
    backslashes, control characters, `<>&`, U+2028, non-BMP runes: encoding/json escapes ESC itself),
    any Merge flag, path and context; `hp`, `hctx`: the path text and the context values have no ESC -/
theorem color_strip_char_level (nc : NumCodec) (m : Bool) (p : Path) (bf af : List Json)
    (x y : String) (hp : E2EP.NoEscPath nc p) (hctx : ∀ v ∈ bf ++ af, E2EP.NoEscVal nc v) :
    (renderHunk nc [.color]
        { merge := m, path := p, before := bf, remove := [.str x], add := [.str y], after := af }).map
      (fun s => String.ofList (stripAnsi s.toList))
      = renderHunk nc []
        { merge := m, path := p, before := bf, remove := [.str x], add := [.str y], after := af } :=
  E2EP.color_strip_char_level nc m p bf af x y hp hctx

/-- the JSON text of a string has no ESC, whatever the string -/
theorem noEscVal_str (nc : NumCodec) (x : String) : E2EP.NoEscVal nc (.str x) :=
  E2EP.noEscVal_str nc x

/-- **`NoEsc` is a theorem about `Diff`, LIST reading / strict** (any Precision): from "the JSON text
    of every sub-term of `a`, `b` has no ESC" and the same for the paths of the diff -/
theorem noEsc_produced_list (nc : NumCodec) (o : Opts) (ho : dispatchTag o = .list)
    (hm : isMerge o = false) (a b : Json) (ha : a.listDoc = true) (hb : b.listDoc = true)
    (hva : E2E.voidFree a = true) (hvb : E2E.voidFree b = true) (hlen : E2E.shortArrays b = true)
    (hv : ∀ z ∈ DPL.subterms a ++ DPL.subterms b, E2EP.NoEscVal nc z)
    (hp : ∀ h ∈ diffM o a b, E2EP.NoEscPath nc h.path) : NoEsc nc (diffM o a b) :=
  E2EP.noEsc_list nc o ho hm a b ha hb hva hvb hlen hv hp

/-- … SET / MULTISET reading, strict, with or without a Precision -/
theorem noEsc_produced_set (nc : NumCodec) {o : Opts} (hm : DES.SetReading o)
    (hmg : isMerge o = false) (a b : Json) (ha : a.rawDoc = true) (hwa : a.wf = true)
    (hb : b.rawDoc = true) (hwb : b.wf = true) (hva : E2E.voidFree a = true)
    (hvb : E2E.voidFree b = true)
    (FH : DES.DiffFaithful (stripPrec o) (subterms a) (subterms b))
    (hv : ∀ z ∈ subterms a ++ subterms b, E2EP.NoEscVal nc z)
    (hp : ∀ h ∈ diffM o a b, E2EP.NoEscPath nc h.path) : NoEsc nc (diffM o a b) :=
  E2EP.noEsc_set nc hm hmg a b ha hwa hb hwb hva hvb FH hv hp

/-- … SetKeys reading, strict, with or without a Precision -/
theorem noEsc_produced_setkeys (nc : NumCodec) {o : Opts} {ks : List String}
    (hd : dispatchTag o = .set) (hk : keysOf o = some ks) (hmg : isMerge o = false) (a b : Json)
    (ha : a.rawDoc = true) (hb : b.rawDoc = true) (hva : E2E.voidFree a = true)
    (hvb : E2E.voidFree b = true)
    (hv : ∀ z ∈ subterms a ++ subterms b, E2EP.NoEscVal nc z)
    (hp : ∀ h ∈ diffM o a b, E2EP.NoEscPath nc h.path) : NoEsc nc (diffM o a b) :=
  E2EP.noEsc_setkeys nc hd hk hmg a b ha hb hva hvb hv hp

/-- … MERGE strategy, list reading (any Precision): the values come from `b` only -/
theorem noEsc_produced_merge (nc : NumCodec) (o : Opts) (ho : dispatchTag o = .list)
    (hm : isMerge o = true) (a b : Json) (ha : a.rawDoc = true) (hb : b.rawDoc = true)
    (hvf : Merge.objVoidFree b = true) (hv : ∀ z ∈ subterms b, E2EP.NoEscVal nc z)
    (hp : ∀ h ∈ diffM o a b, E2EP.NoEscPath nc h.path) : NoEsc nc (diffM o a b) :=
  E2EP.noEsc_mergeList nc o ho hm a b ha hb hvf hv hp

/-- … MERGE with SET / MULTISET, with or without a Precision -/
theorem noEsc_produced_setMerge (F : FloatEq0) (nc : NumCodec) {o : Opts} {a b : Json}
    (hmg : isMerge o = true) (hm : dispatchTag o = .set ∨ dispatchTag o = .mset)
    (hk : keysOf o = none) (ha : a.setDoc = true) (hb : b.setDoc = true)
    (hn : b.nullFree = true) (hvf : Merge.objVoidFree b = true)
    (HF : HashFaithful (stripPrec o) (subterms a ++ subterms b))
    (hv : ∀ z ∈ subterms b, E2EP.NoEscVal nc z)
    (hp : ∀ h ∈ diffM o a b, E2EP.NoEscPath nc h.path) : NoEsc nc (diffM o a b) :=
  E2EP.noEsc_mergeSet F nc hmg hm hk ha hb hn hvf HF hv hp

/-- **what holds for the colour text**: if `Render(COLOR)` gives `ctext`, then `Render()` gives `ctext`
    with its ANSI sequences stripped — so every theorem about the plain text (`C02.print_read_patch*`,
    the theorems above) applies to `stripAnsi ctext` -/
theorem color_text_then_strip (nc : NumCodec) (d : Diff) (hn : NoEsc nc d) (ctext : String)
    (hc : renderM nc [.color] d = some ctext) :
    renderM nc [] d = some (String.ofList (stripAnsi ctext.toList)) :=
  E2EP.color_text_then_strip nc d hn ctext hc

/-- … and the colour text exists whenever the plain text does -/
theorem color_text_exists (nc : NumCodec) (d : Diff) (hn : NoEsc nc d) (text : String)
    (hr : renderM nc [] d = some text) :
    ∃ ctext, renderM nc [.color] d = some ctext ∧ String.ofList (stripAnsi ctext.toList) = text :=
  E2EP.color_text_exists nc d hn text hr

/-- **`jd -color a b`, ANSI stripped, `| jd -p`, SET / MULTISET + Precision** (the composition, as an
    instance): the stripped colour text is read back as a diff that patches `a` to a document that
    `Equals` `b` -/
theorem color_strip_end_to_end_set_precision (F : FloatEq0) (L : FloatLaws) (nc : NumCodec)
    (o : Opts) (hm : dispatchTag o = .set ∨ dispatchTag o = .mset) (hk : keysOf o = none)
    (hmg : isMerge o = false) (M : DPL.PrecMono o) (a b : Json)
    (ha : a.setDoc = true) (hb : b.setDoc = true)
    (hva : E2E.voidFree a = true) (hvb : E2E.voidFree b = true)
    (HF : HashFaithful (stripPrec o) (subterms a ++ subterms b))
    (hv : ∀ z ∈ subterms a ++ subterms b, ValOK nc z ∧ E2EP.NoEscVal nc z)
    (hpth : ∀ h ∈ diffM o a b, PathOK nc h.path ∧ E2EP.NoEscPath nc h.path)
    (ctext : String) (hc : renderM nc [.color] (diffM o a b) = some ctext) :
    ∃ d', readDiffM nc (String.ofList (stripAnsi ctext.toList)) = .ok d' ∧
      ∃ r, patchM a d' = .ok r ∧ equals o r b = true ∧ equivB (stripPrec o) r b = true :=
  E2EP.color_strip_end_to_end_set_precision F L nc o hm hk hmg M a b ha hb hva hvb HF hv hpth ctext hc

/-- **a text with a line (not the first) that starts with ESC is never read as a diff**
    (`E2EP.HasEscLine s`: `s = pre ++ "\n" ++ ESC ++ rest`): the reader allows the header ESC in no
    state. No hypothesis on the codec. -/
theorem esc_line_not_read (nc : NumCodec) (s : String) (h : E2EP.HasEscLine s) (d : Diff) :
    readDiffM nc s ≠ .ok d :=
  E2EP.esc_line_not_read nc s h d

/-- **the colour text of a diff is NOT input for the reader** as soon as one hunk `h` prints a `-` /
    `+` line (`E2EP.printsChange h`; every hunk of the reader's domain does:
    `wfHunk_prints_change`) and is not of the shape "one string removed, one string added"
    (`hsingle`): the colour code precedes the `-` / `+` header, so the line starts with ESC. No
    hypothesis on the codec. -/
theorem color_diff_not_read (nc : NumCodec) (d : Diff) (s : String)
    (hs : renderM nc [.color] d = some s) (h : Hunk) (hh : h ∈ d)
    (hsingle : ∀ x y, ¬ (h.remove = [.str x] ∧ h.add = [.str y]))
    (hp : E2EP.printsChange h = true) (d' : Diff) : readDiffM nc s ≠ .ok d' :=
  E2EP.color_diff_not_read nc d s hs h hh hsingle hp d'

theorem wfHunk_prints_change {h : Hunk} (hw : wfHunk h = true) : E2EP.printsChange h = true :=
  E2EP.wfHunk_printsChange hw

/-- **the character-level shape is not reader input either** (witness): `@ ["a"]` / `- "ab"` /
    `+ "ac"` in colour is `- "a<red>b<reset>"` / `+ "a<green>c<reset>"`; no line starts with ESC, but the
    raw ESC inside the JSON string makes the JSON reader fail: `ReadDiffString` returns an error
    (the library-level content of `C14.color_breaks_round_trip`) -/
theorem char_level_not_read :
    wfDiff E2EP.CharWitness.cDiff = true ∧
    (∃ x y, E2EP.CharWitness.cDiff = [{ path := [.key "a"], remove := [.str x], add := [.str y] }]) ∧
    ∃ text, renderM exCodec [.color] E2EP.CharWitness.cDiff = some text ∧
      readDiffM exCodec text = .err :=
  E2EP.CharWitness.char_level_not_read

/-- **"the colour text is never read back" is FALSE for a degenerate hunk** (witness): `@ ["s"]` /
    `- "x"` / `+ "x"` (the same string removed and added; `Diff` never produces it) is coloured
    nowhere — every rune is in the common sequence — so its colour text IS its plain text and the
    reader returns the diff -/
theorem same_string_is_read :
    wfDiff E2EP.CharWitness.sDiff = true ∧
    renderM exCodec [.color] E2EP.CharWitness.sDiff = renderM exCodec [] E2EP.CharWitness.sDiff ∧
    ∃ text, renderM exCodec [.color] E2EP.CharWitness.sDiff = some text ∧
      readDiffM exCodec text = .ok E2EP.CharWitness.sDiff :=
  E2EP.CharWitness.same_string_is_read

/-! ## Non-vacuity.  `E2EP.Example.nA` = `{"n":1,"s":[1,{"k":2}]}`, `nB` = `{"n":3,"s":[{"k":2},3]}`,
    `oS` = `[SET, Precision(0.001)]`, `oM` = `[MULTISET, Precision(0.001)]`, codec `exCodec`: every
    decidable hypothesis holds by evaluation, the codec contract (success, no newline, read back, no
    ESC) is proved on all twelve sub-terms (`E2EP.Example.vals`) and on the paths of the diffs
    (`paths`, `merge_paths`), `HashFaithful` relative to reflexivity of `|x - x| ≤ 0` (`hf_set`,
    `hf_mset`); only the IEEE laws remain as assumptions. -/

example : E2EP.Example.nA.setDoc = true ∧ E2EP.Example.nB.setDoc = true ∧
    E2E.voidFree E2EP.Example.nA = true ∧ E2E.voidFree E2EP.Example.nB = true ∧
    E2EP.Example.nB.nullFree = true ∧ Merge.objVoidFree E2EP.Example.nB = true ∧
    nonnegBits E2EP.Example.eps = true ∧
    dispatchTag E2EP.Example.oS = .set ∧ keysOf E2EP.Example.oS = none ∧
    isMerge E2EP.Example.oS = false ∧ precOf E2EP.Example.oS = E2EP.Example.eps ∧
    stripPrec E2EP.Example.oS = [.set] :=
  ⟨E2EP.Example.docs.1, E2EP.Example.docs.2.1, E2EP.Example.docs.2.2.1, E2EP.Example.docs.2.2.2.1,
    E2EP.Example.docs.2.2.2.2.1, E2EP.Example.docs.2.2.2.2.2.1,
    E2EP.Example.docs.2.2.2.2.2.2.2.2.2.2.2, rfl, rfl, rfl, rfl, rfl⟩

/-- (P1) on the pair, SET and MULTISET with `Precision(0.001)` -/
theorem example_set_precision (F : FloatEq0) (L : FloatLaws) (o : Opts)
    (ho : o = E2EP.Example.oS ∨ o = E2EP.Example.oM) (M : DPL.PrecMono o) :
    ∃ text d' r, renderM exCodec [] (diffM o E2EP.Example.nA E2EP.Example.nB) = some text ∧
      readDiffM exCodec text = .ok d' ∧ patchM E2EP.Example.nA d' = .ok r ∧
      equals o r E2EP.Example.nB = true ∧ equivB (stripPrec o) r E2EP.Example.nB = true ∧
      (dispatchTag o = .set → equivB o r E2EP.Example.nB = true) :=
  E2EP.Example.ex_set_precision F L o ho M

/-- (P3) on the pair, `[MERGE, SET, Precision(0.001)]` and `[MERGE, MULTISET, Precision(0.001)]` -/
theorem example_setMerge_precision (F : FloatEq0) (L : FloatLaws) (o : Opts)
    (ho : o = .merge :: E2EP.Example.oS ∨ o = .merge :: E2EP.Example.oM) (M : DPL.PrecMono o) :
    ∃ text d' r, renderM exCodec [] (diffM o E2EP.Example.nA E2EP.Example.nB) = some text ∧
      readDiffM exCodec text = .ok d' ∧ patchM E2EP.Example.nA d' = .ok r ∧
      equals o r E2EP.Example.nB = true ∧ equivB (stripPrec o) r E2EP.Example.nB = true ∧
      (dispatchTag o = .set → equivB o r E2EP.Example.nB = true) :=
  E2EP.Example.ex_mergeSet_precision F L o ho M

/-- (P4) on the pair, `[MERGE, Precision(0.001)]` -/
theorem example_merge_precision (L : FloatLaws)
    (M : DPL.PrecMono [.merge, .prec E2EP.Example.eps]) :
    ∃ text d' r,
      renderM exCodec [] (diffM [.merge, .prec E2EP.Example.eps] E2EP.Example.nA E2EP.Example.nB)
        = some text ∧
      readDiffM exCodec text = .ok d' ∧ patchM E2EP.Example.nA d' = .ok r ∧
      equals [.merge, .prec E2EP.Example.eps] r E2EP.Example.nB = true ∧
      equivB [.merge, .prec E2EP.Example.eps] r E2EP.Example.nB = true :=
  E2EP.Example.ex_mergeList_precision L M

/-- (P2) SetKeys + Precision: the pair of the SetKeys end-to-end example (`E2EK.Example`, keys `id`,
    `k`; its documents hold no numbers) satisfies every hypothesis for
    `[SetKeys("id","k"), Precision(0.001)]`, for which `stripPrec` gives `[SetKeys("id","k")]` -/
example : stripPrec [.setKeys ["id", "k"], .prec E2EP.Example.eps] = [.setKeys ["id", "k"]] ∧
    DPK.KeysHyp (stripPrec [.setKeys ["id", "k"], .prec E2EP.Example.eps]) ["id", "k"]
      DPK.ExampleB.exA DPK.ExampleB.exB :=
  ⟨rfl, DPK.ExampleB.ex_keysHyp⟩

/-- (P5) on the pair under `[SET, Precision(0.001)]`: the colour text EXISTS, `ReadDiffString` returns
    NO diff for it, and with the ANSI sequences stripped it is read back and patches `nA` to a
    document that `Equals` `nB` -/
theorem example_color (F : FloatEq0) (L : FloatLaws) (M : DPL.PrecMono E2EP.Example.oS) :
    ∃ ctext, renderM exCodec [.color] (diffM E2EP.Example.oS E2EP.Example.nA E2EP.Example.nB)
        = some ctext ∧
      (∀ d', readDiffM exCodec ctext ≠ .ok d') ∧
      ∃ d' r, readDiffM exCodec (String.ofList (stripAnsi ctext.toList)) = .ok d' ∧
        patchM E2EP.Example.nA d' = .ok r ∧ equals E2EP.Example.oS r E2EP.Example.nB = true :=
  E2EP.Example.ex_color F L M

end Jd.Props.C02Precision

-- the runs on the model (runtime evaluation; the codec formats small integers itself)
#eval Jd.renderM Jd.NativeRT.exCodec []
  (Jd.diffM Jd.E2EP.Example.oS Jd.E2EP.Example.nA Jd.E2EP.Example.nB)
#eval Jd.renderM Jd.NativeRT.exCodec [.color]
  (Jd.diffM Jd.E2EP.Example.oS Jd.E2EP.Example.nA Jd.E2EP.Example.nB)
#eval Jd.renderM Jd.NativeRT.exCodec []
  (Jd.diffM [.merge, .prec Jd.E2EP.Example.eps] Jd.E2EP.Example.nA Jd.E2EP.Example.nB)
#eval (Jd.renderM Jd.NativeRT.exCodec [.color] Jd.E2EP.CharWitness.cDiff,
       Jd.renderM Jd.NativeRT.exCodec [.color] Jd.E2EP.CharWitness.sDiff)
