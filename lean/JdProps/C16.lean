/-
  Property C16 — JSON and YAML are interchangeable carriers of a document.
  Statement file (proofs in JdProofs/YamlProofs.lean, namespace `Jd.Yaml`).

  WHAT THE MODEL IS (JdModel/Yaml.lean). YAML and JSON text emission / parsing is external code
  (encoding/json, gopkg.in/yaml.v2) and no text enters Lean. Modelled is jd's OWN glue:
    `rawM j`         `n.raw()`: the Go value (`interface{}`) handed to the encoder;
    `newJsonNodeM`   `NewJsonNode(interface{})` exactly as node.go has it: the Go value handed back by
                     the decoder is turned into a document, or refused;
    `Raw`            Go's `interface{}` universe as the decoders produce it;
    `yamlize`        the CONTRACT for `yaml.Unmarshal ∘ yaml.Marshal` on values `rawM` produces
                     (string-keyed maps come back as `map[interface{}]interface{}`; integral floats
                     below 10^6 come back as Go `int`; `-0` comes back as the int 0), checked against
                     the real yaml.v2 on every generated document by the harness;
    `jsonRoundTripM j = newJsonNodeM (rawM j)`             `ReadJsonString(n.Json())`
    `yamlRoundTripM j = newJsonNodeM (yamlize (rawM j))`   `ReadYamlString(n.Yaml())`.
  The spec is the identity: the document comes back.

  That strings which look like numbers, booleans, null or YAML syntax survive is part of the CONTRACT
  (`yamlize` returns strings unchanged: the emitter quotes them), checked on the real library; on the
  level of the glue a string is a string whatever it looks like, which is what the theorems say.

  WHAT IS STATED
    JSON carrier: the document comes back exactly (`json_round_trip`);
    YAML carrier: the document comes back exactly away from `-0` (`yaml_round_trip`), and with every
       `-0` replaced by `0` otherwise (`yaml_round_trip_up_to_sign_of_zero`; the counter-witness
       `yaml_loses_negative_zero` is known finding KF-C16-negzero);
    the two carriers give the same document (`yaml_equals_json`);
    for nodes with typed arrays (results of Patch in set modes): the `raw()` normal form comes back;
    one number through yaml.v2 (`number_through_yaml`); what the glue refuses (examples).
  KNOWN FINDING outside the contract: the object key `<<` (KF-C16-mergekey, yaml.v2 emits it unquoted).

  HYPOTHESES and why
    `j.rawDoc` (arrays are plain `jsonArray`: what a reader produces; otherwise use the `_norm` forms),
    `j.wf` (unique sorted keys = a Go map), `voidFree j` (void is not a JSON value: `raw()` would write
    the string ""), `finite j` (NaN / ±Inf are refused by `NewJsonNode`, see the examples),
    `noNegZero j` for the exact YAML statement.
-/
import JdProofs.YamlProofs
import JdProofs.JsonTextRoundTrip

namespace Jd.Props.C16
open Jd Jd.Yaml

/-- JSON carrier: `ReadJsonString(n.Json())` is `n` -/
theorem json_round_trip (j : Json) (hr : j.rawDoc = true) (hw : j.wf = true)
    (hv : voidFree j = true) (hf : finite j = true) : jsonRoundTripM j = .ok j :=
  json_carrier j hr hw hv hf

/-- JSON carrier, any node (typed arrays included): `raw()` comes back as its normal form -/
theorem json_round_trip_norm (j : Json) (hw : (rawNorm j).wf = true)
    (hv : voidFree (rawNorm j) = true) (hf : finite (rawNorm j) = true) :
    newJsonNodeM (rawM j) = .ok (rawNorm j) :=
  json_carrier_norm j hw hv hf

/-- YAML carrier: `ReadYamlString(n.Yaml())` is `n` (no `-0` in the document) -/
theorem yaml_round_trip (j : Json) (hr : j.rawDoc = true) (hw : j.wf = true)
    (hv : voidFree j = true) (hf : finite j = true) (hz : noNegZero j = true) :
    yamlRoundTripM j = .ok j :=
  yaml_carrier j hr hw hv hf hz

/-- YAML carrier without the hypothesis on zero: `n` with every `-0` replaced by `0` -/
theorem yaml_round_trip_up_to_sign_of_zero (j : Json) (hr : j.rawDoc = true) (hw : j.wf = true)
    (hv : voidFree j = true) (hf : finite j = true) : yamlRoundTripM j = .ok (posZero j) :=
  yaml_carrier_posZero j hr hw hv hf

/-- YAML carrier, any node: the glue handles every shape `yamlize` produces -/
theorem yaml_round_trip_norm (j : Json) (hw : (rawNorm j).wf = true)
    (hv : voidFree (rawNorm j) = true) (hf : finite (rawNorm j) = true) :
    newJsonNodeM (yamlize (rawM j)) = .ok (posZero (rawNorm j)) :=
  yaml_carrier_norm j hw hv hf

/-- a document read from YAML equals the same document read from JSON -/
theorem yaml_equals_json (j : Json) (hr : j.rawDoc = true) (hw : j.wf = true)
    (hv : voidFree j = true) (hf : finite j = true) (hz : noNegZero j = true) :
    yamlRoundTripM j = jsonRoundTripM j :=
  carriers_agree j hr hw hv hf hz

/-- `unmarshal` (node_read.go) with a decoder satisfying the contract, on a non-blank rendering -/
theorem unmarshal_of_yaml_rendering (j : Json) (hr : j.rawDoc = true) (hw : j.wf = true)
    (hv : voidFree j = true) (hf : finite j = true) (hz : noNegZero j = true) :
    unmarshalM false (some (yamlize (rawM j))) = .ok j :=
  unmarshal_yaml j hr hw hv hf hz

/-- blank text is the void document, whatever the decoder would say -/
theorem unmarshal_of_blank_text (d : Option Raw) : unmarshalM true d = .ok .void :=
  unmarshal_blank d

/-- one finite number through yaml.v2 (int detour below 10^6 included): the same number, except that
    `-0` becomes `0` -/
theorem number_through_yaml (b : UInt64) (hf : isFinite64 b = true) :
    newJsonNodeM (yamlizeNum b) = .ok (.num (posZeroBits b)) :=
  new_yamlizeNum b hf

/-- KF-C16-negzero: the sign of zero is what the YAML carrier loses -/
theorem yaml_loses_negative_zero : yamlRoundTripM (.num negZero) = .ok (.num 0) :=
  yaml_carrier_negZero

/-! ### What the glue refuses (error values, never a wrong document) -/

/-- int64 / uint64 (only Go `int` is accepted), non-string keys, foreign types -/
example : newJsonNodeM (.int64 5) = .error .unsupported := rfl
example : newJsonNodeM (.uint64 5) = .error .unsupported := rfl
example : newJsonNodeM (.mapI [(.int 1, .str "a")]) = .error .unsupported := rfl
example : newJsonNodeM (.other "time.Time") = .error .unsupported := rfl
/-- NaN and +Inf (YAML `.nan`, `.inf`) are refused (repair D9) -/
example : newJsonNodeM (.f64 0x7ff8000000000000) = .error .unsupported := by
  have h : isFinite64 0x7ff8000000000000 = false := by decide
  simp [newJsonNodeM, h]
example : newJsonNodeM (.f64 0x7ff0000000000000) = .error .unsupported := by
  have h : isFinite64 0x7ff0000000000000 = false := by decide
  simp [newJsonNodeM, h]

/-! ### Non-vacuity

  `{"1e3":"true","k":["~","- x",1000,0.5],"n":null}`: keys and strings that look like a number, a
  boolean, null and YAML syntax, an integral number (int detour) and a fractional one. Every
  hypothesis holds (checked by evaluation), so both round trips return the document. -/

private def exDoc : Json :=
  .obj [("1e3", .str "true"),
        ("k", .arr .raw [.str "~", .str "- x", .num 0x408f400000000000, .num 0x3fe0000000000000]),
        ("n", .null)]

example : exDoc.rawDoc = true ∧ exDoc.wf = true ∧ voidFree exDoc = true ∧ finite exDoc = true ∧
    noNegZero exDoc = true := by decide

example : yamlRoundTripM exDoc = .ok exDoc ∧ jsonRoundTripM exDoc = .ok exDoc :=
  ⟨yaml_round_trip exDoc (by decide) (by decide) (by decide) (by decide) (by decide),
   json_round_trip exDoc (by decide) (by decide) (by decide) (by decide)⟩

/-! ## The JSON TEXT half: rendering a document as JSON and reading it back — JdProofs/JsonTextRoundTrip.lean (ns `Jd.JText`)

   The theorems above are about the glue (`NewJsonNode` / `raw()`); this one is about the TEXT: `Json()` of any
   well-formed, void-free document whose number tokens the codec round-trips (`JText.preOK nc n` = `wf ∧ voidFree ∧ NumOK nc`,
   the strconv graph supplied by the harness) parses back to the same document up to the Go dynamic type of its arrays
   (`rawNorm`: a typed set node is printed de-duplicated in hash order). All escapes, white space, duplicate-key and
   fuel questions of the codec are PROVED in that file; only the number tokens are a hypothesis. -/

theorem json_text_round_trip (nc : NumCodec) (n : Json)
    (hp : n.isVoid = true ∨ Jd.JText.preOK nc n = true) :
    ∃ s, jsonM nc n = some s ∧ readJsonM nc s = .ok (rawNorm n) :=
  Jd.JText.readJsonM_jsonM nc n hp

end Jd.Props.C16
