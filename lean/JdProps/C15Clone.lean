/-
  C15 (applying a diff never changes the diff): the deep copy `cloneNode` / `cloneNodes` of the SOURCE is
  the deep copy of the MODEL — with the source side regenerated from /repo on every run by tools/clonefacts
  (JdModel/Gen/CloneCases.lean). Proofs: JdProofs/CloneCases.lean. These statements replace the
  hand-transcribed link `C15Heap.model_cases_are_the_source_cases`: what `C15Heap` proves about the model's
  `cloneNode` (same value, fresh, deep, edits of the clone invisible) is about a function with the same case
  analysis as the Go function as it stands today.

  Any edit of `cloneNode` / `cloneNodes` that is not a renaming of local variables changes the regenerated
  table (an unrecognised body is carried as `other "<text>"`) and one of the theorems below stops checking:
  a shallow `slices.Clone(t)`, a dropped or added clause, `if len(t) == 0 { return t }`, a copy of
  `jsonNull` by `append`, a `cloneNodes` that keeps spare capacity.
-/
import JdProofs.CloneCases

namespace Jd.Props.C15Clone
open Jd Jd.NodeHeap Jd.CloneCases

/-- REGENERATED: the type switch of v2's `cloneNode`, clause by clause in source order (type names and
    the shape of each body), is the model's case table `modelCloneCases` written as a type switch
    (`modelSwitch`): `case jsonObject` allocates a new map and assigns `cloneNode` of every member,
    `case jsonArray / jsonList / jsonSet / jsonMultiset` return `T(cloneNodes(t))` with their own `T`,
    `default` returns the argument. No hypothesis: both sides are closed tables. -/
theorem v2_cloneNode_is_the_model_case_table : Gen.cloneNodeCases_v2 = modelSwitch :=
  cloneNode_v2_eq_model

/-- REGENERATED: the same for the v1 library (lib/patch_common.go) -/
theorem lib_cloneNode_is_the_model_case_table : Gen.cloneNodeCases_lib = modelSwitch :=
  cloneNode_lib_eq_model

/-- REGENERATED: `cloneNodes` is, in both libraries, exactly: `nil` for `nil`, else a NEW slice of the same
    length and no spare capacity whose `i`-th element is `cloneNode` of the `i`-th — what the model's
    `cloneNodes` (`cloneList (cloneNode f)`) and the `arrRef t _ 0 len len` header of its slice case do -/
theorem cloneNodes_is_standard_in_both_libraries :
    Gen.cloneNodesShape_v2 = .standard ∧ Gen.cloneNodesShape_lib = .standard :=
  cloneNodes_standard

/-- REGENERATED: for a node of every Go type the model knows (one representative each: void, null, bool,
    number, string, object, array, list, set, multiset) the clause the source's switch takes — first clause
    listing the type, else `default` — is the case the model's `cloneNode` takes. `caseTaken` is `none` for
    an unrecognised body or a conversion to another type, so those fail. -/
theorem every_go_type_takes_the_model_case :
    representatives.all (fun n => caseTaken Gen.cloneNodeCases_v2 n.goType == some n.cloneCase) = true ∧
    representatives.all (fun n => caseTaken Gen.cloneNodeCases_lib n.goType == some n.cloneCase) = true :=
  ⟨case_taken_is_model_case_v2, case_taken_is_model_case_lib⟩

/-- REGENERATED: the types of the package that implement `JsonNode` (all methods of the interface and of
    the embedded `jsonNodeInternals` declared) are exactly the Go types of the model's representatives —
    a new node type would need a case in `cloneNode` and in the model. lib has one more,
    `jsonStringOrInteger`, a `string`, returned as it is. -/
theorem node_types_are_the_model_types :
    sameMembers (Gen.nodeKinds_v2.map (·.1)) (representatives.map HNode.goType) = true ∧
    sameMembers (Gen.nodeKinds_lib.map (·.1)) ("jsonStringOrInteger" :: representatives.map HNode.goType) = true ∧
    Gen.nodeKinds_lib.lookup "jsonStringOrInteger" = some .other ∧
    caseTaken Gen.cloneNodeCases_lib "jsonStringOrInteger" = some .asIs :=
  ⟨node_types_v2, node_types_lib⟩

/-- REGENERATED: every node type whose underlying type is a map is copied as a map, every one whose
    underlying type is a slice is copied as a slice of its own type, and every other type (struct{}, bool,
    float64, string: no interior pointer to write through) is returned as it is — in both libraries, with
    the single exception of `jsonNull`, a `[]byte` returned SHARED (see
    `every_jsonNull_has_capacity_0`). `kindAgrees_spec` unfolds what the Boolean says for one type. -/
theorem every_map_or_slice_type_but_jsonNull_is_copied :
    Gen.nodeKinds_v2.all (kindAgrees Gen.cloneNodeCases_v2) = true ∧
    Gen.nodeKinds_lib.all (kindAgrees Gen.cloneNodeCases_lib) = true :=
  ⟨kinds_have_copying_case_v2, kinds_have_copying_case_lib⟩

/-- what the previous statement says for one type `ty` other than jsonNull (hypothesis `hn`; `h` is one
    conjunct of the `all`): by the kind `k` of its underlying type -/
theorem copied_according_to_kind (tbl : List (List String × Gen.CloneBody)) (ty : String) (k : Gen.GoKind)
    (h : kindAgrees tbl (ty, k) = true) (hn : ty ≠ "jsonNull") :
    (k = .map → caseTaken tbl ty = some .copyMap) ∧
    (k = .slice → caseTaken tbl ty = some .copySlice) ∧
    (k = .other → caseTaken tbl ty = some .asIs) :=
  kindAgrees_spec tbl ty k h hn

/-- the hypotheses of `copied_according_to_kind` hold of a real entry: jsonSet (declared `jsonArray`, itself
    `[]JsonNode`) in v2 -/
example : caseTaken Gen.cloneNodeCases_v2 "jsonSet" = some .copySlice :=
  (copied_according_to_kind Gen.cloneNodeCases_v2 "jsonSet" .slice (by decide) (by decide)).2.1 rfl

/-- REGENERATED: every place the source of either library mentions the type `jsonNull` is its
    declaration, a method receiver, the type of a type-switch clause or type assertion, or one of the two
    value forms `jsonNull{}` / `jsonNull(nil)` (not under `append`, slicing or indexing); its methods only
    call methods on the receiver, pass it on as a `JsonNode`, or return it. So every `jsonNull` value has
    length 0 and capacity 0, and by `C15Heap.no_write_through_capacity_0` sharing one cannot be observed by
    a write: the model's immutable `null` is sound for aliasing. (The table is syntactic: a value built
    by reflection is outside it.) -/
theorem every_jsonNull_has_capacity_0 :
    nullDiscipline Gen.jsonNullSites_v2 Gen.jsonNullReceiverUses_v2 = true ∧
    nullDiscipline Gen.jsonNullSites_lib Gen.jsonNullReceiverUses_lib = true :=
  ⟨jsonNull_has_capacity_0_v2, jsonNull_has_capacity_0_lib⟩

/-- the tables NodeHeapProofs transcribed by hand (`sourceCloneCases_asRead`: the switch with `default`
    spelled out; `sourceNodeRepr_asRead`: the underlying types) say, entry by entry, what the regenerated
    tables of both libraries say — `C15Heap.model_cases_are_the_source_cases` is therefore a statement about
    the source as it is now -/
theorem hand_transcribed_tables_agree_with_the_source :
    sourceCloneCases_asRead.all (fun p =>
      caseTaken Gen.cloneNodeCases_v2 p.1 == some p.2 && caseTaken Gen.cloneNodeCases_lib p.1 == some p.2) = true ∧
    sourceNodeRepr_asRead.all (fun p =>
      (Gen.nodeKinds_v2.lookup p.1).map reprOfKind == some p.2 &&
      (Gen.nodeKinds_lib.lookup p.1).map reprOfKind == some p.2) = true ∧
    sameMembers (sourceNodeRepr_asRead.map (·.1)) (Gen.nodeKinds_v2.map (·.1)) = true :=
  asRead_tables_regenerated

/-! ### the seeded shapes, as tables: each is refused -/

/-- a shallow copy in the jsonArray clause (`return slices.Clone(t)`) is carried as `other` and is no case
    of the model -/
example : caseTaken [(["jsonArray"], .other "return slices.Clone(t)"), (["default"], .asIs)] "jsonArray" = none := by
  decide

/-- without a jsonSet clause a set falls to `default` and is returned shared, against its slice kind -/
example : kindAgrees [(["jsonArray"], .copySlice "jsonArray"), (["default"], .asIs)] ("jsonSet", .slice) = false := by
  decide

/-- a conversion to ANOTHER slice type is no copy of the clause's own type -/
example : caseTaken [(["jsonSet"], .copySlice "jsonArray"), (["default"], .asIs)] "jsonSet" = none := by decide

end Jd.Props.C15Clone
