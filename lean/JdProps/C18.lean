/-
  Property C18 — v1 library: the RFC 6902 / RFC 7386 renderings are faithful.
  Statement file, two sections.
  SECTION 1: the JSON MERGE PATCH half (`Diff.RenderMerge`, `ReadMergeString`, `Patch` of the v1
  library `lib/` against RFC 7386); proofs in JdProofs/V1MergeRender.lean (namespace `Jd.V1M`).
  SECTION 2: the JSON PATCH half (RFC 6902: `Diff.RenderPatch` / `ReadPatchString` of v1, pointer
  writing and reading, the deferred string-or-integer decision), LIST mode, full nesting; proofs in
  JdProofs/V1PatchRender.lean (namespace `Jd.V1R`), on top of the C17 list theorem
  (JdProofs/V1ListDiffPatch.lean, namespace `Jd.V1P`). Both clauses of the property are theorems for
  both halves at the level of the patch DOCUMENT (list of operations / merge patch document).

  Model side (`Jd.V1`, JdModel/V1/*): `V1.diffM m a b` is `a.Diff(b, metadata...)` of the v1 library;
  `V1.liftDiff` lifts its hunks to the path representation the renderers work on (as in the model);
  `V1.renderMergeDoc d` is `Diff.RenderMerge()` before JSON encoding: the merge patch DOCUMENT;
  `V1.readMergeDoc p` is `ReadMergeString` after JSON decoding: the hunks v1 reads from the patch
  document `p`; `V1.patchM t d` is `t.Patch(d)`; `V1.equals m` is `Equals` with metadata.
  Spec side: `mergePatch target patch` (JdSpec/Rfc7386.lean), the pseudocode of RFC 7386 section 2
  transcribed; `specEq` = `equivB []` (JdSpec/CanonEq.lean): structural equality, ignoring only the
  Go dynamic type of array nodes.

  SECTION 1 — MERGE HALF
  WHAT IS STATED (merge half; full nesting)
   (1) evaluation by the RFC: `v1_rendered_merge_patch_yields_target` (and `…_object`): for documents
       as read from JSON text, `b` null-free, that the v1 `Equals` tells apart, the v1 merge diff
       renders to a merge patch document `p`, never void and never `null`, and `MergePatch(a, p)` is
       `b` (`specEq`). `v1_rendered_merge_text_is_encoding`: the text `RenderMerge` returns is the JSON
       encoding of that document (nothing is said about the encoder itself).
   (2) read-back: `v1_rendered_merge_patch_reads_back` (and `…_object`): the same `p`, read with the
       v1 reader and applied to `a` with the v1 `Patch`, succeeds and yields EXACTLY
       `MergePatch(a, p)`, which `V1.equals m` and `specEq` identify with `b` — EXCEPT when `a` is not
       an object and `b = {}`. On every such pair read-back is FALSE on the code as it is
       (`v1_readback_of_empty_object_over_non_object_fails`: the rendered patch is `{}`, RFC 7386
       gives `{}` = `b`, but `ReadMergeString("{}")` is the empty diff and `Patch` returns `a`
       unchanged). This is the known finding KF-C12-emptyobj, class (a), in the v1 library; the
       exclusion `a.isObj ∨ b ≠ {}` is exactly what is needed. Confirmed on the Go code (/repo/lib)
       for `a = 1` and `a = []`.
   (3) arbitrary patch documents (C12 for the v1 library): the v1 reader followed by the v1 `Patch`
       IS the v2 reader followed by the v2 `Patch` (`v1_read_apply_is_v2_read_apply`, no
       hypothesis), hence the sharp form: the result is exactly `MergePatch(t, p)` IFF `Merge.Clean t p`
       (`v1_read_apply_is_mergePatch_iff_clean`; `Merge.Clean`, decidable, JdProofs/MergeProofs.lean,
       excludes: `{}` at the root over a non-object; `{}` where the target holds a non-empty object;
       `null` at the root), with the three classes inhabited (`v1_witness_…`: KF-C12-emptyobj,
       KF-C12-rootnull).

  DOMAIN / HYPOTHESES (merge half) and why
    `V1M.MergeMode m`: MERGE metadata present, no SET, no MULTISET, precision 0 or absent (`setkeys`
       alone is allowed: it leaves arrays lists in v1); `V1M.MergeMode.single : MergeMode [.merge]`;
    `a.wf`, `a.rawDoc`: unique sorted keys, plain arrays (as read from text); `a` MAY contain nulls
       (they are overwritten or deleted). `a.wf` is needed already for the shape of the diff: on
       equal lists the v1 merge diff still runs the positional loop;
    `b.wf`, `b.rawDoc`, `b.finiteNums`, `objVoidFree b`, `b.nullFree`: RFC 7386 cannot express "set
       to null" — the domain of the property;
    `V1.equals m a b = false` ("that differ"): for equal non-object documents the empty diff renders
       to `{}` and `MergePatch(a, {})` is `{}`; not needed when `a` is an object;
    `FloatLaws`: reflexivity of `|x − y| ≤ 0` on the numbers that are copied.
    No hash hypothesis (the list reading never hashes), no index laws (merge hunks carry no indices).

  SECTION 2 — JSON PATCH HALF
  Model side: `V1.renderPatchOps (V1.liftDiff d)` is `Diff.RenderPatch()` before JSON encoding: the
  list of operations `{op, path, value}` (`renderPatchHunk`, `writePointer`); `V1.renderPatchM nc` is
  the text-level function; `V1.readPatchLoop fuel ops []` is the element loop of `ReadPatchString`
  after JSON decoding (`readPatchHunk`, `readPointer`), `V1.readPatchDoc doc` the reader on a decoded
  patch document; `V1.patchP a d'` is `a.Patch(d')` for a diff whose paths may hold
  `jsonStringOrInteger` tokens (`PElem.sori`: the DEFERRED decision — the token is read as a key by
  `jsonObject.patch` and as an index by `jsonList.patch`); `V1.patchM a d` is `a.Patch(d)` for a diff
  produced by `V1.diffM`. Spec side: `eval c ops` (JdSpec/Rfc6902.lean), the RFC 6902 evaluator
  written from the RFC, independent of jd.

  WHAT IS STATED (patch half)
   (4) evaluation by the RFC: `v1_rendered_patch_yields_target` (and `…_noDash`): `RenderPatch` of
       `a.Diff(b)` SUCCEEDS, its operations are `test` / `remove` / `add` only, and RFC 6902 applied to
       `a` yields a document structurally equal to `b` (`specEq` both ways, and up to `untag`). v1
       emits the hunks of a list so that indices stay valid; the evaluator is run on the operations
       in the emitted order. `v1_rendered_patch_text_does_not_fail`: the text-level `RenderPatch`
       returns no error (nothing is said about the encoder).
   (5) read-back: `v1_rendered_patch_reads_back` (and `…_noDash`): the element loop of
       `ReadPatchString` accepts the rendered operations (with the fuel `readPatchDoc` gives it:
       `v1_read_patch_document_runs_the_loop`), and `a.Patch` of the diff read back — in which every
       hunk with an old and a new value has become two elements and every integer-looking pointer
       token a `jsonStringOrInteger` — succeeds with EXACTLY the result of patching with the original
       diff, which `V1.equals m` and `specEq` identify with `b`.
   (6) what v1 can render: `v1_render_succeeds_iff_no_dash_key`: on the domain `RenderPatch` succeeds
       IF AND ONLY IF no path of the diff holds the object key "-" — the only key v1 cannot express
       (`v1_render_refuses_dash_key`: any diff with such a hunk is not rendered; concrete:
       `v1_witness_dash_key_refused`, `{"-":1}` → `{}`, an error, not a mistranslation).
   (7) the deferred decision: `v1_read_pointer_tokens` (what `readPointer` makes of a pointer text:
       token by token `V1R.rtok`), `v1_integer_looking_token_is_deferred` (a token `strconv.Atoi`
       accepts becomes a `jsonStringOrInteger`), `v1_key_token_is_read_back_as_the_key` (an object
       reads it as the key, integer-looking or not). INTEGER-LOOKING KEYS ("0", "+5", "-1", "007" …)
       are NOT excluded from (4) and (5): the path of a diff hunk follows the structure of the
       document it was computed from, so an index token only ever meets a list and a key token an
       object. No counterexample exists in the domain; both clauses are instantiated on documents
       with such keys (non-vacuity examples).

  DOMAIN / HYPOTHESES (patch half) and why — the domain of the C17 list theorem
    `V1P.ListMode m`: no SET / MULTISET / MERGE metadata, precision 0 or absent (`setkeys` alone is
       allowed); `V1P.ListMode.nil : ListMode []`;
    `a`, `b`: `listDoc`, `wf`, `finiteNums`, `V1P.vfree` (no void marker inside the document);
       `finiteNums` is also what makes the `test` of the rendered patch, and the reader's comparison
       of a removed value with itself, succeed;
    `FloatLaws`; `V1P.IdxLaws N` with `V1P.lenLe N a` (every array of `a` has at most `N` elements):
       list indices travel through float64 and `Float` is opaque to the kernel (IEEE-754 makes
       `IdxLaws N` true for `N ≤ 2^53`); for the read-back additionally `N ≤ 2^63` (the index is
       printed in decimal and re-read by `strconv.Atoi`);
    KEYS: `∀ h ∈ a.Diff(b), V1R.noDashP h.path` (no diff path holds the key "-"), NECESSARY AND
       SUFFICIENT by (6); it follows from the decidable input condition `V1R.noDash a ∧ V1R.noDash b`
       (the `…_noDash` versions). Keys inside removed / added VALUES are unrestricted.
    No hash hypothesis (as in the C17 list theorem: the v1 list reading never hashes).

  NOT PROVED / OUTSIDE
    * the TEXT level, both halves: JSON encoding of the patch document by `RenderMerge` /
      `RenderPatch` and its parsing by `ReadMergeString` / `ReadPatchString` (`V1.renderMergeM` /
      `V1.readMergeM` beyond `v1_rendered_merge_text_is_encoding`; `V1.renderPatchM` beyond
      `v1_rendered_patch_text_does_not_fail`; `V1.patchOpsOfJson`, the decoding of the operations, is a
      hypothesis of `v1_read_patch_document_runs_the_loop`): (2) and (5) start from the patch
      document / the list of operations, not from its text;
    * SET / MULTISET metadata together with MERGE in v1 (merge half);
    * SET / MULTISET / MERGE metadata for `RenderPatch` (patch half: list mode only), and documents
      outside the domain above.
-/
import JdProofs.V1MergeRender
import JdProofs.V1PatchRender
import JdProofs.V1JsonText

namespace Jd.Props.C18
open Jd Jd.Spec
open Jd.Merge (objVoidFree)
set_option autoImplicit false

/-! ## Section 1 — JSON Merge Patch (RFC 7386) -/

/-! ### (1) the rendered merge patch, evaluated by RFC 7386 on `a`, yields `b` -/

/-- **C18, merge half, evaluation by the RFC**: the v1 merge diff renders to a merge patch document
    `p` (never void, never `null`), and RFC 7386 `MergePatch(a, p)` is `b` -/
theorem v1_rendered_merge_patch_yields_target (L : FloatLaws) {m : V1.Metas}
    (hm : V1M.MergeMode m) (a b : Json)
    (haw : a.wf = true) (har : a.rawDoc = true)
    (hbw : b.wf = true) (hbr : b.rawDoc = true) (hbn : b.nullFree = true)
    (hbv : objVoidFree b = true) (hbf : b.finiteNums = true)
    (hne : V1.equals m a b = false) :
    ∃ p, V1.renderMergeDoc (V1.liftDiff (V1.diffM m a b)) = .ok p ∧
      p.isVoid = false ∧ p.isNull = false ∧ specEq (mergePatch a p) b = true :=
  V1M.v1_merge_render_correct L hm a b haw har hbw hbr hbn hbv hbf hne

/-- without the hypothesis `a ≠ b` when the first document is an object (the empty diff renders to
    `{}`, which RFC 7386 applies as the identity on objects) -/
theorem v1_rendered_merge_patch_yields_target_object (L : FloatLaws) {m : V1.Metas}
    (hm : V1M.MergeMode m) (a b : Json)
    (haw : a.wf = true) (har : a.rawDoc = true)
    (hbw : b.wf = true) (hbr : b.rawDoc = true) (hbn : b.nullFree = true)
    (hbv : objVoidFree b = true) (hbf : b.finiteNums = true)
    (hobj : a.isObj = true) :
    ∃ p, V1.renderMergeDoc (V1.liftDiff (V1.diffM m a b)) = .ok p ∧
      p.isVoid = false ∧ p.isNull = false ∧ specEq (mergePatch a p) b = true :=
  V1M.v1_merge_render_correct_obj L hm a b haw har hbw hbr hbn hbv hbf hobj

/-- the text: for a non-empty diff, `Diff.RenderMerge()` is the JSON encoding (`V1.jsonM nc`, with the
    number codec `nc` as a parameter) of the document of (1) -/
theorem v1_rendered_merge_text_is_encoding (nc : NumCodec) (d : V1.PDiff) (p : Json)
    (h : V1.renderMergeDoc d = .ok p) (hne : d.isEmpty = false) :
    V1.renderMergeM nc d = .ok (V1.jsonM nc p) :=
  V1M.v1_renderMergeM_eq nc d p h hne

/-! ### (2) reading the rendered patch back with the v1 reader and patching `a` yields `b` -/

/-- **C18, merge half, read-back**: outside the pairs (`a` not an object, `b = {}`), the document
    `p` that `RenderMerge` produces, read back with `ReadMergeString` and applied to `a` with the v1
    `Patch`, succeeds and yields exactly RFC 7386 `MergePatch(a, p)`, which the v1 `Equals` (and
    `specEq`) identifies with `b` -/
theorem v1_rendered_merge_patch_reads_back (L : FloatLaws) {m : V1.Metas}
    (hm : V1M.MergeMode m) (a b : Json)
    (haw : a.wf = true) (har : a.rawDoc = true)
    (hbw : b.wf = true) (hbr : b.rawDoc = true) (hbn : b.nullFree = true)
    (hbv : objVoidFree b = true) (hbf : b.finiteNums = true)
    (hne : V1.equals m a b = false) (hab : a.isObj = true ∨ b ≠ .obj []) :
    ∃ p r, V1.renderMergeDoc (V1.liftDiff (V1.diffM m a b)) = .ok p ∧
      V1.patchM a (V1.readMergeDoc p) = .ok r ∧ r = mergePatch a p ∧
      V1.equals m r b = true ∧ specEq r b = true ∧ r.listDoc = true :=
  V1M.v1_merge_render_readback L hm a b haw har hbw hbr hbn hbv hbf hne hab

/-- without the hypothesis `a ≠ b` when the first document is an object (an empty diff renders to
    `{}`, which reads back as the empty diff) -/
theorem v1_rendered_merge_patch_reads_back_object (L : FloatLaws) {m : V1.Metas}
    (hm : V1M.MergeMode m) (a b : Json)
    (haw : a.wf = true) (har : a.rawDoc = true)
    (hbw : b.wf = true) (hbr : b.rawDoc = true) (hbn : b.nullFree = true)
    (hbv : objVoidFree b = true) (hbf : b.finiteNums = true)
    (hobj : a.isObj = true) :
    ∃ p r, V1.renderMergeDoc (V1.liftDiff (V1.diffM m a b)) = .ok p ∧
      V1.patchM a (V1.readMergeDoc p) = .ok r ∧ r = mergePatch a p ∧
      V1.equals m r b = true ∧ specEq r b = true ∧ r.listDoc = true :=
  V1M.v1_merge_render_readback_obj L hm a b haw har hbw hbr hbn hbv hbf hobj

/-- **Read-back is FALSE on the excluded pairs (known finding KF-C12-emptyobj, v1 library).** For
    EVERY first document `a` that is not an object (as read from text) and `b = {}`: the documents
    differ, the merge diff renders to the patch document `{}`, RFC 7386 applied to `a` gives `{}` =
    `b` (so (1) holds), but `ReadMergeString("{}")` is the empty diff and patching `a` with it
    returns `a` — which is not Equal to `b` (first conjunct). -/
theorem v1_readback_of_empty_object_over_non_object_fails {m : V1.Metas} (hm : V1M.MergeMode m)
    (a : Json) (haw : a.wf = true) (har : a.rawDoc = true) (hobj : a.isObj = false) :
    V1.equals m a (.obj []) = false ∧
    V1.renderMergeDoc (V1.liftDiff (V1.diffM m a (.obj []))) = .ok (.obj []) ∧
    mergePatch a (.obj []) = .obj [] ∧
    V1.patchM a (V1.readMergeDoc (.obj [])) = .ok a :=
  V1M.v1_witness_readback_nonobj_to_empty_object hm a haw har hobj

/-! ### (3) any merge patch document: v1 reader + v1 `Patch` against RFC 7386 -/

/-- the v1 reader followed by the v1 `Patch` is the v2 reader followed by the v2 `Patch`: for ALL
    targets and patch documents, no hypothesis -/
theorem v1_read_apply_is_v2_read_apply (t p : Json) :
    V1.patchM t (V1.readMergeDoc p) = patchAll true t (readMergeDoc p) :=
  V1M.v1_read_apply_eq_v2 t p

/-- **sharp form**: the v1 library's result is exactly `MergePatch(t, p)` if and only if the pair is
    outside the three known classes -/
theorem v1_read_apply_is_mergePatch_iff_clean (t p : Json) (ht : t.wf = true) (hp : p.wf = true)
    (hv : objVoidFree p = true) :
    V1.patchM t (V1.readMergeDoc p) = .ok (mergePatch t p) ↔ Merge.Clean t p = true :=
  V1M.v1_merge_read_apply_iff t p ht hp hv

/-- on the domain `Clean` -/
theorem v1_read_apply_is_mergePatch (t p : Json) (ht : t.wf = true) (hp : p.wf = true)
    (hv : objVoidFree p = true) (hc : Merge.Clean t p = true) :
    V1.patchM t (V1.readMergeDoc p) = .ok (mergePatch t p) :=
  V1M.v1_merge_read_apply t p ht hp hv hc

/-- outside `Clean` the v1 library's result is NOT the RFC 7386 result -/
theorem v1_read_apply_differs_outside_clean (t p : Json) (ht : t.wf = true) (hp : p.wf = true)
    (hv : objVoidFree p = true) (hc : Merge.Clean t p = false) :
    V1.patchM t (V1.readMergeDoc p) ≠ .ok (mergePatch t p) :=
  V1M.v1_merge_read_apply_unclean t p ht hp hv hc

/-- (a) KF-C12-emptyobj: patch `{}` at the root, target a number: v1 does nothing, RFC 7386 gives `{}` -/
theorem v1_witness_root_empty_object (one : UInt64) :
    V1.patchM (.num one) (V1.readMergeDoc (.obj [])) = .ok (.num one) ∧
    mergePatch (.num one) (.obj []) = .obj [] ∧ Merge.Clean (.num one) (.obj []) = false :=
  V1M.v1_witness_root_empty_object one

/-- (b) KF-C12-emptyobj: patch `{"a":{}}`, target `{"a":{"b":1}}`: v1 replaces the member by `{}`,
    RFC 7386 leaves the target unchanged -/
theorem v1_witness_nested_empty_object (one : UInt64) :
    V1.patchM (.obj [("a", .obj [("b", .num one)])]) (V1.readMergeDoc (.obj [("a", .obj [])]))
      = .ok (.obj [("a", .obj [])]) ∧
    mergePatch (.obj [("a", .obj [("b", .num one)])]) (.obj [("a", .obj [])])
      = .obj [("a", .obj [("b", .num one)])] ∧
    Merge.Clean (.obj [("a", .obj [("b", .num one)])]) (.obj [("a", .obj [])]) = false :=
  V1M.v1_witness_nested_empty_object one

/-- (c) KF-C12-rootnull: patch `null` at the root: v1 returns void (no document), RFC 7386 gives
    `null` -/
theorem v1_witness_root_null (t : Json) :
    V1.patchM t (V1.readMergeDoc .null) = .ok .void ∧ mergePatch t .null = .null ∧
    Merge.Clean t .null = false :=
  V1M.v1_witness_root_null t

/-! Non-vacuity (documents of JdProofs/V1MergeRender.lean, `V1M.Example`):
    `exA = {"a":{"b":"x","c":null},"d":["p"],"f":[{"g":1}]}` →
    `exB = {"a":{"b":"y"},"e":{"h":{}},"f":[{"g":1}]}` (a changed member at depth, a removed key at
    depth holding a null, an array replaced by nothing, an added object holding `{}`, an equal array
    of objects over which the v1 positional loop runs) satisfies every hypothesis of (1) and (2) under
    the metadata `[MERGE]`; the patch document `exP = {"a":{"b":"y","c":null},"d":null,"e":{"h":{}}}`
    is clean for `exA`. -/

example : V1M.MergeMode [.merge] ∧ V1M.Example.exA.wf = true ∧ V1M.Example.exA.rawDoc = true ∧
    V1M.Example.exB.wf = true ∧ V1M.Example.exB.rawDoc = true ∧ V1M.Example.exB.nullFree = true ∧
    objVoidFree V1M.Example.exB = true ∧ V1M.Example.exB.finiteNums = true ∧
    V1.equals [.merge] V1M.Example.exA V1M.Example.exB = false ∧
    (V1M.Example.exA.isObj = true ∨ V1M.Example.exB ≠ .obj []) := V1M.Example.hyps

example (L : FloatLaws) :
    ∃ p r, V1.renderMergeDoc (V1.liftDiff (V1.diffM [.merge] V1M.Example.exA V1M.Example.exB))
        = .ok p ∧
      V1.patchM V1M.Example.exA (V1.readMergeDoc p) = .ok r ∧ r = mergePatch V1M.Example.exA p ∧
      V1.equals [.merge] r V1M.Example.exB = true ∧ specEq r V1M.Example.exB = true ∧
      r.listDoc = true := by
  obtain ⟨h0, h1, h2, h3, h4, h5, h6, h7, h8, h9⟩ := V1M.Example.hyps
  exact v1_rendered_merge_patch_reads_back L h0 _ _ h1 h2 h3 h4 h5 h6 h7 h8 h9

example : V1M.Example.exA.wf = true ∧ V1M.Example.exP.wf = true ∧
    objVoidFree V1M.Example.exP = true ∧ Merge.Clean V1M.Example.exA V1M.Example.exP = true :=
  V1M.Example.hypsP

example : V1.patchM V1M.Example.exA (V1.readMergeDoc V1M.Example.exP)
    = .ok (mergePatch V1M.Example.exA V1M.Example.exP) :=
  v1_read_apply_is_mergePatch _ _ V1M.Example.hypsP.1 V1M.Example.hypsP.2.1
    V1M.Example.hypsP.2.2.1 V1M.Example.hypsP.2.2.2

/-- the read-back failure at `a = []`, `b = {}` -/
example : V1.equals [.merge] (.arr .raw []) (.obj []) = false ∧
    V1.renderMergeDoc (V1.liftDiff (V1.diffM [.merge] (.arr .raw []) (.obj []))) = .ok (.obj []) ∧
    mergePatch (.arr .raw []) (.obj []) = .obj [] ∧
    V1.patchM (.arr .raw []) (V1.readMergeDoc (.obj [])) = .ok (.arr .raw []) :=
  v1_readback_of_empty_object_over_non_object_fails V1M.MergeMode.single _ (by decide) (by decide)
    (by decide)

/-! ## Section 2 — JSON Patch (RFC 6902), list mode -/

/-! ### (4) the rendered JSON Patch, evaluated by RFC 6902 on `a`, yields `b` -/

/-- **C18, patch half, evaluation by the RFC**: for list-mode metadata and documents in the domain of
    the C17 list theorem such that no path of the diff holds the object key "-": `Diff.RenderPatch` of
    `a.Diff(b)` succeeds, its operations are `test`, `remove`, `add` only, and the independent
    RFC 6902 evaluator applied to `a` yields a document structurally equal to `b` (array tags
    ignored). Integer-looking keys and keys needing `~0` / `~1` escaping are covered. -/
theorem v1_rendered_patch_yields_target (L : FloatLaws) {N : Nat} (I : V1P.IdxLaws N)
    (m : V1.Metas) (hm : V1P.ListMode m) (a b : Json)
    (ha1 : a.listDoc = true) (ha2 : a.wf = true) (ha3 : a.finiteNums = true)
    (ha4 : V1P.vfree a = true) (ha5 : V1P.lenLe N a = true)
    (hb1 : b.listDoc = true) (hb2 : b.wf = true) (hb3 : b.finiteNums = true)
    (hb4 : V1P.vfree b = true)
    (hdash : ∀ h ∈ V1.diffM m a b, V1R.noDashP h.path = true) :
    ∃ ops r, V1.renderPatchOps (V1.liftDiff (V1.diffM m a b)) = .ok ops ∧
      (∀ o ∈ ops, o.wfOp) ∧
      eval a (ops.map PatchOp.toSpec) = some r ∧
      specEq r b = true ∧ specEq b r = true ∧ specEq (untag r) (untag b) = true :=
  V1R.v1_render_patch_rfc L I m hm a b ha1 ha2 ha3 ha4 ha5 hb1 hb2 hb3 hb4 hdash

/-- the same with the decidable hypothesis on the inputs: neither document has the object key "-" -/
theorem v1_rendered_patch_yields_target_noDash (L : FloatLaws) {N : Nat} (I : V1P.IdxLaws N)
    (m : V1.Metas) (hm : V1P.ListMode m) (a b : Json)
    (ha1 : a.listDoc = true) (ha2 : a.wf = true) (ha3 : a.finiteNums = true)
    (ha4 : V1P.vfree a = true) (ha5 : V1P.lenLe N a = true)
    (hb1 : b.listDoc = true) (hb2 : b.wf = true) (hb3 : b.finiteNums = true)
    (hb4 : V1P.vfree b = true)
    (hda : V1R.noDash a = true) (hdb : V1R.noDash b = true) :
    ∃ ops r, V1.renderPatchOps (V1.liftDiff (V1.diffM m a b)) = .ok ops ∧
      (∀ o ∈ ops, o.wfOp) ∧
      eval a (ops.map PatchOp.toSpec) = some r ∧
      specEq r b = true ∧ specEq b r = true ∧ specEq (untag r) (untag b) = true :=
  V1R.v1_render_patch_rfc_noDash L I m hm a b ha1 ha2 ha3 ha4 ha5 hb1 hb2 hb3 hb4 hda hdb

/-- the text level: `Diff.RenderPatch()` does not fail on the domain (its result is `none` only when
    the number codec cannot print a number); nothing is said about the encoder itself -/
theorem v1_rendered_patch_text_does_not_fail (L : FloatLaws) {N : Nat} (I : V1P.IdxLaws N)
    (nc : NumCodec) (m : V1.Metas) (hm : V1P.ListMode m) (a b : Json)
    (ha1 : a.listDoc = true) (ha2 : a.wf = true) (ha3 : a.finiteNums = true)
    (ha4 : V1P.vfree a = true) (ha5 : V1P.lenLe N a = true)
    (hb1 : b.listDoc = true) (hb2 : b.wf = true) (hb3 : b.finiteNums = true)
    (hb4 : V1P.vfree b = true)
    (hdash : ∀ h ∈ V1.diffM m a b, V1R.noDashP h.path = true) :
    ∃ t, V1.renderPatchM nc (V1.liftDiff (V1.diffM m a b)) = .ok t :=
  V1R.v1_renderPatchM_ok L I nc m hm a b ha1 ha2 ha3 ha4 ha5 hb1 hb2 hb3 hb4 hdash

/-! ### (5) reading the rendered patch back with the v1 reader and patching `a` yields `b` -/

/-- **C18, patch half, read-back**: under the same hypotheses (and `N ≤ 2^63`: indices are re-read
    with `strconv.Atoi`), the element loop of `ReadPatchString` accepts the rendered operations, and
    `a.Patch` of the diff read back — whose paths hold `jsonStringOrInteger` tokens for every
    integer-looking pointer token — succeeds with EXACTLY the result `r` of patching with the
    original diff, which the v1 `Equals` (and `specEq`) identifies with `b` -/
theorem v1_rendered_patch_reads_back (L : FloatLaws) {N : Nat} (I : V1P.IdxLaws N)
    (hN : N ≤ 2 ^ 63) (m : V1.Metas) (hm : V1P.ListMode m) (a b : Json)
    (ha1 : a.listDoc = true) (ha2 : a.wf = true) (ha3 : a.finiteNums = true)
    (ha4 : V1P.vfree a = true) (ha5 : V1P.lenLe N a = true)
    (hb1 : b.listDoc = true) (hb2 : b.wf = true) (hb3 : b.finiteNums = true)
    (hb4 : V1P.vfree b = true)
    (hdash : ∀ h ∈ V1.diffM m a b, V1R.noDashP h.path = true) :
    ∃ ops d' r, V1.renderPatchOps (V1.liftDiff (V1.diffM m a b)) = .ok ops ∧
      V1.readPatchLoop (ops.length + 1) ops [] = .ok d' ∧
      V1.patchP a d' = .ok r ∧ V1.patchM a (V1.diffM m a b) = .ok r ∧
      V1.equals m r b = true ∧ specEq r b = true ∧ specEq b r = true :=
  V1R.v1_render_read_patch L I hN m hm a b ha1 ha2 ha3 ha4 ha5 hb1 hb2 hb3 hb4 hdash

/-- the same with the decidable hypothesis on the inputs -/
theorem v1_rendered_patch_reads_back_noDash (L : FloatLaws) {N : Nat} (I : V1P.IdxLaws N)
    (hN : N ≤ 2 ^ 63) (m : V1.Metas) (hm : V1P.ListMode m) (a b : Json)
    (ha1 : a.listDoc = true) (ha2 : a.wf = true) (ha3 : a.finiteNums = true)
    (ha4 : V1P.vfree a = true) (ha5 : V1P.lenLe N a = true)
    (hb1 : b.listDoc = true) (hb2 : b.wf = true) (hb3 : b.finiteNums = true)
    (hb4 : V1P.vfree b = true)
    (hda : V1R.noDash a = true) (hdb : V1R.noDash b = true) :
    ∃ ops d' r, V1.renderPatchOps (V1.liftDiff (V1.diffM m a b)) = .ok ops ∧
      V1.readPatchLoop (ops.length + 1) ops [] = .ok d' ∧
      V1.patchP a d' = .ok r ∧ V1.patchM a (V1.diffM m a b) = .ok r ∧
      V1.equals m r b = true ∧ specEq r b = true ∧ specEq b r = true :=
  V1R.v1_render_read_patch_noDash L I hN m hm a b ha1 ha2 ha3 ha4 ha5 hb1 hb2 hb3 hb4 hda hdb

/-- `ReadPatchString` on a decoded patch document whose operations are `ops` IS the element loop with
    the fuel `ops.length + 1` used in (5) (the decoding `V1.patchOpsOfJson` of the operations from the
    JSON document is a hypothesis: text layer) -/
theorem v1_read_patch_document_runs_the_loop {doc : Json} {ops : List PatchOp} {d' : V1.PDiff}
    (h1 : V1.patchOpsOfJson doc = .ok ops)
    (h2 : V1.readPatchLoop (ops.length + 1) ops [] = .ok d') : V1.readPatchDoc doc = .ok d' :=
  V1R.readPatchDoc_of_loop h1 h2

/-! ### (6) which diffs v1 can render: the key "-" -/

/-- **sharp form of the key hypothesis**: on the domain, `Diff.RenderPatch` succeeds exactly when no
    path of the diff holds the object key "-" (every other key — integer-looking, empty, with `/` or
    `~` — is expressible) -/
theorem v1_render_succeeds_iff_no_dash_key (L : FloatLaws) {N : Nat} (I : V1P.IdxLaws N)
    (m : V1.Metas) (hm : V1P.ListMode m) (a b : Json)
    (ha1 : a.listDoc = true) (ha2 : a.wf = true) (ha3 : a.finiteNums = true)
    (ha4 : V1P.vfree a = true) (ha5 : V1P.lenLe N a = true)
    (hb1 : b.listDoc = true) (hb2 : b.wf = true) (hb3 : b.finiteNums = true)
    (hb4 : V1P.vfree b = true) :
    (∃ ops, V1.renderPatchOps (V1.liftDiff (V1.diffM m a b)) = .ok ops) ↔
      ∀ h ∈ V1.diffM m a b, V1R.noDashP h.path = true :=
  V1R.v1_render_ok_iff L I m hm a b ha1 ha2 ha3 ha4 ha5 hb1 hb2 hb3 hb4

/-- the input condition implies the condition on the paths of the diff -/
theorem v1_no_dash_key_in_inputs_implies_none_in_diff (m : V1.Metas) (hm : V1P.ListMode m)
    (a b : Json) (ha1 : a.listDoc = true) (hb1 : b.listDoc = true)
    (hda : V1R.noDash a = true) (hdb : V1R.noDash b = true) :
    ∀ h ∈ V1.diffM m a b, V1R.noDashP h.path = true :=
  V1R.noDash_diffM m hm a b ha1 hb1 hda hdb

/-- REFUSAL, any diff: a hunk whose path holds the key "-" makes `RenderPatch` not produce a patch -/
theorem v1_render_refuses_dash_key (d1 d2 : V1.VDiff) (h : V1.Hunk) (pre post : List Json)
    (hp : h.path = pre ++ .str "-" :: post) :
    ∀ ops, V1.renderPatchOps (V1.liftDiff (d1 ++ h :: d2)) ≠ .ok ops :=
  V1R.render_refuses_dash d1 d2 h pre post hp

/-- concrete (`pointer.go`: "JSON Pointer does not support object key '-'"): `{"-":1}` → `{}` has a
    perfectly good native diff, which `RenderPatch` refuses with an error -/
theorem v1_witness_dash_key_refused :
    V1.renderPatchOps
      (V1.liftDiff (V1.diffM [] (.obj [("-", V1R.Example.one)]) (.obj []))) = .err :=
  V1R.Example.dash_key_refused

/-! ### (7) the deferred string-or-integer decision -/

/-- what `readPointer` makes of the text `/esc(t₁)/esc(t₂)…` (`V1R.ptrText`): token by token
    `V1R.rtok` — a `jsonStringOrInteger` for a token `strconv.Atoi` accepts, the index −1 for `-`, a
    string otherwise -/
theorem v1_read_pointer_tokens {s : String} {tk : List String}
    (h : s.toList = V1R.ptrText tk) : V1.readPointer s = .ok (tk.map V1R.rtok) :=
  V1R.readPointer_of_toList h

/-- an integer-looking token is NOT decided at read time: it becomes a `jsonStringOrInteger` -/
theorem v1_integer_looking_token_is_deferred {t : String} (h : (atoi? t).isSome = true) :
    V1R.rtok t = .sori t := by
  unfold V1R.rtok; rw [if_pos h]

/-- … and an object reads it (like every key token other than "-") as the KEY: nothing is lost -/
theorem v1_key_token_is_read_back_as_the_key {k : String} (hk : k ≠ "-") :
    V1.asKey (V1R.rtok k) = some k :=
  (V1R.rtok_key hk).2

/-! Non-vacuity (documents of JdProofs/V1PatchRender.lean, `V1R.Example`):
    `exA = {"0":[1,2],"1":1,"a/b~c":{"7":1},"k":2}` and
    `exB = {"0":[2],"2":1,"a/b~c":{"+5":1,"7":2},"k":[]}`: integer-looking keys "0", "1", "2", "7", "+5",
    a key needing both escapes, a list below an integer-looking key. Every hypothesis of (4) and (5)
    holds in both directions with `N = 8`; the rendered pointers are `/0/1`, `/0/0`, `/1`,
    `/a~1b~0c/7`, `/a~1b~0c/+5`, `/k`, `/2`. -/

example : V1R.Example.exA.listDoc = true ∧ V1R.Example.exA.wf = true ∧
    V1R.Example.exA.finiteNums = true ∧ V1P.vfree V1R.Example.exA = true ∧
    V1P.lenLe 8 V1R.Example.exA = true ∧ V1R.noDash V1R.Example.exA = true ∧
    V1R.Example.exB.listDoc = true ∧ V1R.Example.exB.wf = true ∧
    V1R.Example.exB.finiteNums = true ∧ V1P.vfree V1R.Example.exB = true ∧
    V1P.lenLe 8 V1R.Example.exB = true ∧ V1R.noDash V1R.Example.exB = true := V1R.Example.hyps

example (L : FloatLaws) (I : V1P.IdxLaws 8) :
    ∃ ops r, V1.renderPatchOps (V1.liftDiff (V1.diffM [] V1R.Example.exA V1R.Example.exB)) = .ok ops ∧
      eval V1R.Example.exA (ops.map PatchOp.toSpec) = some r ∧
      specEq r V1R.Example.exB = true := by
  obtain ⟨h1, h2, h3, h4, h5, h6, h7, h8, h9, h10, _, h12⟩ := V1R.Example.hyps
  obtain ⟨ops, r, hr, _, he, hs, _⟩ :=
    v1_rendered_patch_yields_target_noDash L I [] V1P.ListMode.nil _ _ h1 h2 h3 h4 h5 h7 h8 h9 h10
      h6 h12
  exact ⟨ops, r, hr, he, hs⟩

/-- the other direction, with `setkeys` metadata (allowed in list mode) -/
example (L : FloatLaws) (I : V1P.IdxLaws 8) :
    ∃ ops d' r,
      V1.renderPatchOps (V1.liftDiff (V1.diffM [.setkeys ["a"]] V1R.Example.exB V1R.Example.exA))
        = .ok ops ∧
      V1.readPatchLoop (ops.length + 1) ops [] = .ok d' ∧ V1.patchP V1R.Example.exB d' = .ok r ∧
      V1.equals [.setkeys ["a"]] r V1R.Example.exA = true := by
  obtain ⟨h1, h2, h3, h4, _, h6, h7, h8, h9, h10, h11, h12⟩ := V1R.Example.hyps
  obtain ⟨ops, d', r, hr, hl, hp, _, he, _⟩ :=
    v1_rendered_patch_reads_back_noDash L I (by decide) _ (V1P.ListMode.setkeys ["a"]) _ _ h7 h8 h9
      h10 h11 h1 h2 h3 h4 h12 h6
  exact ⟨ops, d', r, hr, hl, hp, he⟩

example : (atoi? "+5").isSome = true ∧ V1R.rtok "0" = .sori "0" ∧
    V1.asKey (V1R.rtok "0") = some "0" :=
  ⟨by decide, v1_integer_looking_token_is_deferred (by decide),
    v1_key_token_is_read_back_as_the_key (by decide)⟩

/-! ## The JSON TEXT layer of the v1 renderings — proofs in JdProofs/V1JsonText.lean (ns `Jd.V1T`)

   The theorems above are about the op list / merge document VALUES; these are about the TEXT that v1
   `RenderMerge()` / `RenderPatch()` return and `ReadMergeString` / `ReadPatchString` parse, through the JSON
   codec of JdModel/Text.lean. Codec hypothesis: `JText.NumOK nc` (the strconv graph supplied by the harness)
   on the number tokens of the INPUT documents only — the printed values are parts of `a` and `b`. -/

/-- v1 merge text, RFC clause: the printed text parses to a patch document whose RFC 7386 application to `a` is `b` -/
theorem v1_merge_text_rfc (L : FloatLaws) (nc : NumCodec) {m : V1.Metas} (hm : Jd.V1M.MergeMode m)
    (a b : Json) (haw : a.wf = true) (har : a.rawDoc = true)
    (hbw : b.wf = true) (hbr : b.rawDoc = true) (hbn : b.nullFree = true)
    (hbf : b.finiteNums = true) (hbv : Yaml.voidFree b = true) (hbN : JText.NumOK nc b = true)
    (hne : V1.equals m a b = false) :
    ∃ text p, V1.renderMergeM nc (V1.liftDiff (V1.diffM m a b)) = .ok (some text) ∧
      parseJson nc text = some p ∧ p.isVoid = false ∧ p.isNull = false ∧
      specEq (mergePatch a p) b = true :=
  Jd.V1T.v1_merge_text_rfc L nc hm a b haw har hbw hbr hbn hbf hbv hbN hne

/-- v1 JSON Patch text, RFC clause (list mode): the printed text parses to an op list (decoded by the
    INDEPENDENT `Spec.opsOfJson`) of test/remove/add ops whose RFC 6902 evaluation on `a` yields `b` -/
theorem v1_patch_text_rfc (L : FloatLaws) {N : Nat} (I : Jd.V1P.IdxLaws N) (nc : NumCodec)
    (m : V1.Metas) (hm : Jd.V1P.ListMode m) (a b : Json)
    (ha1 : a.listDoc = true) (ha2 : a.wf = true) (ha3 : a.finiteNums = true)
    (ha4 : Yaml.voidFree a = true) (ha5 : Jd.V1P.lenLe N a = true) (ha6 : JText.NumOK nc a = true)
    (hb1 : b.listDoc = true) (hb2 : b.wf = true) (hb3 : b.finiteNums = true)
    (hb4 : Yaml.voidFree b = true) (hb6 : JText.NumOK nc b = true)
    (hdash : ∀ h ∈ V1.diffM m a b, Jd.V1R.noDashP h.path = true) :
    ∃ text doc sops r,
      V1.renderPatchM nc (V1.liftDiff (V1.diffM m a b)) = .ok (some text) ∧
      parseJson nc text = some doc ∧ Spec.opsOfJson doc = some sops ∧
      (∀ o ∈ sops, o.op = "test" ∨ o.op = "remove" ∨ o.op = "add") ∧
      eval a sops = some r ∧ specEq r b = true ∧ specEq b r = true :=
  Jd.V1T.v1_patch_text_rfc L I nc m hm a b ha1 ha2 ha3 ha4 ha5 ha6 hb1 hb2 hb3 hb4 hb6 hdash

/-- v1 JSON Patch text, read-back clause: `ReadPatchString` of the printed text, applied to `a`, yields `b` -/
theorem v1_patch_text_readback (L : FloatLaws) {N : Nat} (I : Jd.V1P.IdxLaws N) (hN : N ≤ 2 ^ 63) (nc : NumCodec)
    (m : V1.Metas) (hm : Jd.V1P.ListMode m) (a b : Json)
    (ha1 : a.listDoc = true) (ha2 : a.wf = true) (ha3 : a.finiteNums = true)
    (ha4 : Yaml.voidFree a = true) (ha5 : Jd.V1P.lenLe N a = true) (ha6 : JText.NumOK nc a = true)
    (hb1 : b.listDoc = true) (hb2 : b.wf = true) (hb3 : b.finiteNums = true)
    (hb4 : Yaml.voidFree b = true) (hb6 : JText.NumOK nc b = true)
    (hdash : ∀ h ∈ V1.diffM m a b, Jd.V1R.noDashP h.path = true) :
    ∃ text d' r,
      V1.renderPatchM nc (V1.liftDiff (V1.diffM m a b)) = .ok (some text) ∧
      V1.readPatchM nc text = .ok d' ∧ V1.patchP a d' = .ok r ∧
      V1.equals m r b = true ∧ specEq r b = true ∧ specEq b r = true :=
  Jd.V1T.v1_patch_text_readback L I hN nc m hm a b ha1 ha2 ha3 ha4 ha5 ha6 hb1 hb2 hb3 hb4 hb6 hdash

end Jd.Props.C18
