/-
  Property C18 — v1 library: the RFC 6902 / RFC 7386 renderings are faithful.
  Statement file. SECTION 1 (this file, so far): the JSON MERGE PATCH half (`Diff.RenderMerge`,
  `ReadMergeString`, `Patch` of the v1 library `lib/` against RFC 7386); proofs in
  JdProofs/V1MergeRender.lean (namespace `Jd.V1M`).
  THE JSON PATCH HALF (RFC 6902: `RenderPatch` / `ReadPatchString` of v1, pointer writing and reading,
  the deferred string-or-integer decision) HAS NO THEOREM YET IN THIS FILE: a proof is in progress and
  will be added as a second section. Until then that half rests on correspondence and oracle only.

  Model side (`Jd.V1`, JdModel/V1/*): `V1.diffM m a b` is `a.Diff(b, metadata...)` of the v1 library;
  `V1.liftDiff` lifts its hunks to the path representation the renderers work on (as in the model);
  `V1.renderMergeDoc d` is `Diff.RenderMerge()` before JSON encoding: the merge patch DOCUMENT;
  `V1.readMergeDoc p` is `ReadMergeString` after JSON decoding: the hunks v1 reads from the patch
  document `p`; `V1.patchM t d` is `t.Patch(d)`; `V1.equals m` is `Equals` with metadata.
  Spec side: `mergePatch target patch` (JdSpec/Rfc7386.lean), the pseudocode of RFC 7386 section 2
  transcribed; `specEq` = `equivB []` (JdSpec/CanonEq.lean): structural equality, ignoring only the
  Go dynamic type of array nodes.

  WHAT IS STATED (merge half; full nesting)
   (1) evaluation by the RFC: `v1_rendered_merge_patch_yields_target` (and `…_object`): for documents
       as read from JSON text, `b` null-free, that the v1 `Equals` tells apart, the v1 merge diff
       renders to a merge patch document `p`, never void and never `null`, and `MergePatch(a, p)` is
       `b` (`specEq`). `v1_rendered_merge_text_is_encoding`: the text `RenderMerge` returns is the JSON
       encoding of that document (nothing is said about the encoder itself).
   (2) read-back: `v1_rendered_merge_patch_reads_back` (and `…_object`): the same `p`, read with the
       v1 reader and applied to `a` with the v1 `Patch`, succeeds and yields EXACTLY
       `MergePatch(a, p)`, which `V1.equals m` and `specEq` identify with `b` — EXCEPT when `a` is not
       an object and `b = {}`. On every such pair read-back is FALSE on the code as it is
       (`v1_readback_of_empty_object_over_non_object_fails`: the rendered patch is `{}`, RFC 7386
       gives `{}` = `b`, but `ReadMergeString("{}")` is the empty diff and `Patch` returns `a`
       unchanged). This is the known finding KF-C12-emptyobj, class (a), in the v1 library; the
       exclusion `a.isObj ∨ b ≠ {}` is exactly what is needed. Confirmed on the Go code (/repo/lib)
       for `a = 1` and `a = []`.
   (3) arbitrary patch documents (C12 for the v1 library): the v1 reader followed by the v1 `Patch`
       IS the v2 reader followed by the v2 `Patch` (`v1_read_apply_is_v2_read_apply`, no
       hypothesis), hence the sharp form: the result is exactly `MergePatch(t, p)` IFF `Merge.Clean t p`
       (`v1_read_apply_is_mergePatch_iff_clean`; `Merge.Clean`, decidable, JdProofs/MergeProofs.lean,
       excludes: `{}` at the root over a non-object; `{}` where the target holds a non-empty object;
       `null` at the root), with the three classes inhabited (`v1_witness_…`: KF-C12-emptyobj,
       KF-C12-rootnull).

  DOMAIN / HYPOTHESES and why
    `V1M.MergeMode m`: MERGE metadata present, no SET, no MULTISET, precision 0 or absent (`setkeys`
       alone is allowed: it leaves arrays lists in v1); `V1M.MergeMode.single : MergeMode [.merge]`;
    `a.wf`, `a.rawDoc`: unique sorted keys, plain arrays (as read from text); `a` MAY contain nulls
       (they are overwritten or deleted). `a.wf` is needed already for the shape of the diff: on
       equal lists the v1 merge diff still runs the positional loop;
    `b.wf`, `b.rawDoc`, `b.finiteNums`, `objVoidFree b`, `b.nullFree`: RFC 7386 cannot express "set
       to null" — the domain of the property;
    `V1.equals m a b = false` ("that differ"): for equal non-object documents the empty diff renders
       to `{}` and `MergePatch(a, {})` is `{}`; not needed when `a` is an object;
    `FloatLaws`: reflexivity of `|x − y| ≤ 0` on the numbers that are copied.
    No hash hypothesis (the list reading never hashes), no index laws (merge hunks carry no indices).

  NOT PROVED / OUTSIDE
    * the JSON Patch half (see the top);
    * the TEXT level: JSON encoding of the patch document by `RenderMerge` and its parsing by
      `ReadMergeString` (`V1.renderMergeM` / `V1.readMergeM` beyond `v1_rendered_merge_text_is_encoding`):
      (2) starts from the document `p`, not from its text;
    * SET / MULTISET metadata together with MERGE in v1.
-/
import JdProofs.V1MergeRender

namespace Jd.Props.C18
open Jd Jd.Spec
open Jd.Merge (objVoidFree)
set_option autoImplicit false

/-! ## Section 1 — JSON Merge Patch (RFC 7386) -/

/-! ### (1) the rendered merge patch, evaluated by RFC 7386 on `a`, yields `b` -/

/-- **C18, merge half, evaluation by the RFC**: the v1 merge diff renders to a merge patch document
    `p` (never void, never `null`), and RFC 7386 `MergePatch(a, p)` is `b` -/
theorem v1_rendered_merge_patch_yields_target (L : FloatLaws) {m : V1.Metas}
    (hm : V1M.MergeMode m) (a b : Json)
    (haw : a.wf = true) (har : a.rawDoc = true)
    (hbw : b.wf = true) (hbr : b.rawDoc = true) (hbn : b.nullFree = true)
    (hbv : objVoidFree b = true) (hbf : b.finiteNums = true)
    (hne : V1.equals m a b = false) :
    ∃ p, V1.renderMergeDoc (V1.liftDiff (V1.diffM m a b)) = .ok p ∧
      p.isVoid = false ∧ p.isNull = false ∧ specEq (mergePatch a p) b = true :=
  V1M.v1_merge_render_correct L hm a b haw har hbw hbr hbn hbv hbf hne

/-- without the hypothesis `a ≠ b` when the first document is an object (the empty diff renders to
    `{}`, which RFC 7386 applies as the identity on objects) -/
theorem v1_rendered_merge_patch_yields_target_object (L : FloatLaws) {m : V1.Metas}
    (hm : V1M.MergeMode m) (a b : Json)
    (haw : a.wf = true) (har : a.rawDoc = true)
    (hbw : b.wf = true) (hbr : b.rawDoc = true) (hbn : b.nullFree = true)
    (hbv : objVoidFree b = true) (hbf : b.finiteNums = true)
    (hobj : a.isObj = true) :
    ∃ p, V1.renderMergeDoc (V1.liftDiff (V1.diffM m a b)) = .ok p ∧
      p.isVoid = false ∧ p.isNull = false ∧ specEq (mergePatch a p) b = true :=
  V1M.v1_merge_render_correct_obj L hm a b haw har hbw hbr hbn hbv hbf hobj

/-- the text: for a non-empty diff, `Diff.RenderMerge()` is the JSON encoding (`V1.jsonM nc`, with the
    number codec `nc` as a parameter) of the document of (1) -/
theorem v1_rendered_merge_text_is_encoding (nc : NumCodec) (d : V1.PDiff) (p : Json)
    (h : V1.renderMergeDoc d = .ok p) (hne : d.isEmpty = false) :
    V1.renderMergeM nc d = .ok (V1.jsonM nc p) :=
  V1M.v1_renderMergeM_eq nc d p h hne

/-! ### (2) reading the rendered patch back with the v1 reader and patching `a` yields `b` -/

/-- **C18, merge half, read-back**: outside the pairs (`a` not an object, `b = {}`), the document
    `p` that `RenderMerge` produces, read back with `ReadMergeString` and applied to `a` with the v1
    `Patch`, succeeds and yields exactly RFC 7386 `MergePatch(a, p)`, which the v1 `Equals` (and
    `specEq`) identifies with `b` -/
theorem v1_rendered_merge_patch_reads_back (L : FloatLaws) {m : V1.Metas}
    (hm : V1M.MergeMode m) (a b : Json)
    (haw : a.wf = true) (har : a.rawDoc = true)
    (hbw : b.wf = true) (hbr : b.rawDoc = true) (hbn : b.nullFree = true)
    (hbv : objVoidFree b = true) (hbf : b.finiteNums = true)
    (hne : V1.equals m a b = false) (hab : a.isObj = true ∨ b ≠ .obj []) :
    ∃ p r, V1.renderMergeDoc (V1.liftDiff (V1.diffM m a b)) = .ok p ∧
      V1.patchM a (V1.readMergeDoc p) = .ok r ∧ r = mergePatch a p ∧
      V1.equals m r b = true ∧ specEq r b = true ∧ r.listDoc = true :=
  V1M.v1_merge_render_readback L hm a b haw har hbw hbr hbn hbv hbf hne hab

/-- without the hypothesis `a ≠ b` when the first document is an object (an empty diff renders to
    `{}`, which reads back as the empty diff) -/
theorem v1_rendered_merge_patch_reads_back_object (L : FloatLaws) {m : V1.Metas}
    (hm : V1M.MergeMode m) (a b : Json)
    (haw : a.wf = true) (har : a.rawDoc = true)
    (hbw : b.wf = true) (hbr : b.rawDoc = true) (hbn : b.nullFree = true)
    (hbv : objVoidFree b = true) (hbf : b.finiteNums = true)
    (hobj : a.isObj = true) :
    ∃ p r, V1.renderMergeDoc (V1.liftDiff (V1.diffM m a b)) = .ok p ∧
      V1.patchM a (V1.readMergeDoc p) = .ok r ∧ r = mergePatch a p ∧
      V1.equals m r b = true ∧ specEq r b = true ∧ r.listDoc = true :=
  V1M.v1_merge_render_readback_obj L hm a b haw har hbw hbr hbn hbv hbf hobj

/-- **Read-back is FALSE on the excluded pairs (known finding KF-C12-emptyobj, v1 library).** For
    EVERY first document `a` that is not an object (as read from text) and `b = {}`: the documents
    differ, the merge diff renders to the patch document `{}`, RFC 7386 applied to `a` gives `{}` =
    `b` (so (1) holds), but `ReadMergeString("{}")` is the empty diff and patching `a` with it
    returns `a` — which is not Equal to `b` (first conjunct). -/
theorem v1_readback_of_empty_object_over_non_object_fails {m : V1.Metas} (hm : V1M.MergeMode m)
    (a : Json) (haw : a.wf = true) (har : a.rawDoc = true) (hobj : a.isObj = false) :
    V1.equals m a (.obj []) = false ∧
    V1.renderMergeDoc (V1.liftDiff (V1.diffM m a (.obj []))) = .ok (.obj []) ∧
    mergePatch a (.obj []) = .obj [] ∧
    V1.patchM a (V1.readMergeDoc (.obj [])) = .ok a :=
  V1M.v1_witness_readback_nonobj_to_empty_object hm a haw har hobj

/-! ### (3) any merge patch document: v1 reader + v1 `Patch` against RFC 7386 -/

/-- the v1 reader followed by the v1 `Patch` is the v2 reader followed by the v2 `Patch`: for ALL
    targets and patch documents, no hypothesis -/
theorem v1_read_apply_is_v2_read_apply (t p : Json) :
    V1.patchM t (V1.readMergeDoc p) = patchAll true t (readMergeDoc p) :=
  V1M.v1_read_apply_eq_v2 t p

/-- **sharp form**: the v1 library's result is exactly `MergePatch(t, p)` if and only if the pair is
    outside the three known classes -/
theorem v1_read_apply_is_mergePatch_iff_clean (t p : Json) (ht : t.wf = true) (hp : p.wf = true)
    (hv : objVoidFree p = true) :
    V1.patchM t (V1.readMergeDoc p) = .ok (mergePatch t p) ↔ Merge.Clean t p = true :=
  V1M.v1_merge_read_apply_iff t p ht hp hv

/-- on the domain `Clean` -/
theorem v1_read_apply_is_mergePatch (t p : Json) (ht : t.wf = true) (hp : p.wf = true)
    (hv : objVoidFree p = true) (hc : Merge.Clean t p = true) :
    V1.patchM t (V1.readMergeDoc p) = .ok (mergePatch t p) :=
  V1M.v1_merge_read_apply t p ht hp hv hc

/-- outside `Clean` the v1 library's result is NOT the RFC 7386 result -/
theorem v1_read_apply_differs_outside_clean (t p : Json) (ht : t.wf = true) (hp : p.wf = true)
    (hv : objVoidFree p = true) (hc : Merge.Clean t p = false) :
    V1.patchM t (V1.readMergeDoc p) ≠ .ok (mergePatch t p) :=
  V1M.v1_merge_read_apply_unclean t p ht hp hv hc

/-- (a) KF-C12-emptyobj: patch `{}` at the root, target a number: v1 does nothing, RFC 7386 gives `{}` -/
theorem v1_witness_root_empty_object (one : UInt64) :
    V1.patchM (.num one) (V1.readMergeDoc (.obj [])) = .ok (.num one) ∧
    mergePatch (.num one) (.obj []) = .obj [] ∧ Merge.Clean (.num one) (.obj []) = false :=
  V1M.v1_witness_root_empty_object one

/-- (b) KF-C12-emptyobj: patch `{"a":{}}`, target `{"a":{"b":1}}`: v1 replaces the member by `{}`,
    RFC 7386 leaves the target unchanged -/
theorem v1_witness_nested_empty_object (one : UInt64) :
    V1.patchM (.obj [("a", .obj [("b", .num one)])]) (V1.readMergeDoc (.obj [("a", .obj [])]))
      = .ok (.obj [("a", .obj [])]) ∧
    mergePatch (.obj [("a", .obj [("b", .num one)])]) (.obj [("a", .obj [])])
      = .obj [("a", .obj [("b", .num one)])] ∧
    Merge.Clean (.obj [("a", .obj [("b", .num one)])]) (.obj [("a", .obj [])]) = false :=
  V1M.v1_witness_nested_empty_object one

/-- (c) KF-C12-rootnull: patch `null` at the root: v1 returns void (no document), RFC 7386 gives
    `null` -/
theorem v1_witness_root_null (t : Json) :
    V1.patchM t (V1.readMergeDoc .null) = .ok .void ∧ mergePatch t .null = .null ∧
    Merge.Clean t .null = false :=
  V1M.v1_witness_root_null t

/-! Non-vacuity (documents of JdProofs/V1MergeRender.lean, `V1M.Example`):
    `exA = {"a":{"b":"x","c":null},"d":["p"],"f":[{"g":1}]}` →
    `exB = {"a":{"b":"y"},"e":{"h":{}},"f":[{"g":1}]}` (a changed member at depth, a removed key at
    depth holding a null, an array replaced by nothing, an added object holding `{}`, an equal array
    of objects over which the v1 positional loop runs) satisfies every hypothesis of (1) and (2) under
    the metadata `[MERGE]`; the patch document `exP = {"a":{"b":"y","c":null},"d":null,"e":{"h":{}}}`
    is clean for `exA`. -/

example : V1M.MergeMode [.merge] ∧ V1M.Example.exA.wf = true ∧ V1M.Example.exA.rawDoc = true ∧
    V1M.Example.exB.wf = true ∧ V1M.Example.exB.rawDoc = true ∧ V1M.Example.exB.nullFree = true ∧
    objVoidFree V1M.Example.exB = true ∧ V1M.Example.exB.finiteNums = true ∧
    V1.equals [.merge] V1M.Example.exA V1M.Example.exB = false ∧
    (V1M.Example.exA.isObj = true ∨ V1M.Example.exB ≠ .obj []) := V1M.Example.hyps

example (L : FloatLaws) :
    ∃ p r, V1.renderMergeDoc (V1.liftDiff (V1.diffM [.merge] V1M.Example.exA V1M.Example.exB))
        = .ok p ∧
      V1.patchM V1M.Example.exA (V1.readMergeDoc p) = .ok r ∧ r = mergePatch V1M.Example.exA p ∧
      V1.equals [.merge] r V1M.Example.exB = true ∧ specEq r V1M.Example.exB = true ∧
      r.listDoc = true := by
  obtain ⟨h0, h1, h2, h3, h4, h5, h6, h7, h8, h9⟩ := V1M.Example.hyps
  exact v1_rendered_merge_patch_reads_back L h0 _ _ h1 h2 h3 h4 h5 h6 h7 h8 h9

example : V1M.Example.exA.wf = true ∧ V1M.Example.exP.wf = true ∧
    objVoidFree V1M.Example.exP = true ∧ Merge.Clean V1M.Example.exA V1M.Example.exP = true :=
  V1M.Example.hypsP

example : V1.patchM V1M.Example.exA (V1.readMergeDoc V1M.Example.exP)
    = .ok (mergePatch V1M.Example.exA V1M.Example.exP) :=
  v1_read_apply_is_mergePatch _ _ V1M.Example.hypsP.1 V1M.Example.hypsP.2.1
    V1M.Example.hypsP.2.2.1 V1M.Example.hypsP.2.2.2

/-- the read-back failure at `a = []`, `b = {}` -/
example : V1.equals [.merge] (.arr .raw []) (.obj []) = false ∧
    V1.renderMergeDoc (V1.liftDiff (V1.diffM [.merge] (.arr .raw []) (.obj []))) = .ok (.obj []) ∧
    mergePatch (.arr .raw []) (.obj []) = .obj [] ∧
    V1.patchM (.arr .raw []) (V1.readMergeDoc (.obj [])) = .ok (.arr .raw []) :=
  v1_readback_of_empty_object_over_non_object_fails V1M.MergeMode.single _ (by decide) (by decide)
    (by decide)

end Jd.Props.C18
