/-
  Property C13 — malformed or mismatched input yields an error, never a crash.
  Statement file (proofs in JdProofs/NoPanic.lean).

  In the model every Go operation that can panic (slice indexing / slicing in list.go) is a partial
  operation returning `.panic` out of range, guarded exactly where the Go code guards it. The
  theorem says the guards suffice for EVERY document and EVERY diff (any path: negative, huge or
  out-of-range indices, wrong container kinds, set paths on non-arrays, any number of values).
  The readers of the model have no partial operation at all (their result type has no reachable
  `.panic`); that the Go readers do not panic either is checked by the correspondence stream and
  the native fuzz targets, it cannot be exhibited by a pure model (stack exhaustion, faults inside
  encoding/json or yaml.v2).
-/
import JdProofs.NoPanic
import JdModel.Native
import JdModel.PatchFmt
import JdModel.MergeFmt

namespace Jd.Props.C13
open Jd

/-- applying any diff to any document terminates with a result or an error -/
theorem patch_never_panics (n : Json) (d : Diff) : patchM n d ≠ .panic :=
  patchM_ne_panic n d

theorem patchAll_never_panics (sw : Bool) (n : Json) (d : Diff) : patchAll sw n d ≠ .panic :=
  patchAll_ne_panic sw n d

/-- a hostile single hunk (negative index below -1 into a list): an error, not a panic -/
example : patchM (.arr .raw [.num 0]) [{ path := [.idx (-2)], remove := [.num 0] }] = .err := by
  simp [patchM, patchAll, patchNode.eq_def, effTag, pathMeta, dispatchTag, patchListLeaf]

end Jd.Props.C13
