/-
  Property C13 — malformed or mismatched input yields an error, never a crash.
  Statement file (proofs in JdProofs/NoPanic.lean: applying a diff; JdProofs/Robust.lean, namespace
  `Jd.Robust`, group 1: the readers, the renderers, read-then-apply).

  In the model every Go operation that can panic (slice indexing / slicing in list.go) is a partial
  operation returning `.panic` out of range, guarded exactly where the Go code guards it; the
  result type `Outcome` has the three values `.ok r`, `.err`, `.panic`.
  * APPLYING: `patch_never_panics` says the guards suffice for EVERY document and EVERY diff (any
    path: negative, huge or out-of-range indices, wrong container kinds, set paths on non-arrays, any
    number of values).
  * READING: for EVERY text (any string, no well-formedness hypothesis at all) the model readers
    `readJsonM` (ReadJsonString), `readDiffM` (ReadDiffString, native format), `readPatchM`
    (ReadPatchString, RFC 6902), `readMergeM` (ReadMergeString, RFC 7386) return a result or an error:
    `read_json_never_panics`, `read_diff_never_panics`, `read_patch_never_panics`,
    `read_merge_never_panics`. The model readers (path conversion, metadata lines, the 7-state line
    automaton with the tables generated from the Go source, JSON Pointer decoding, context
    reconstruction for JSON Patch) contain no partial operation of their own; they compose their
    sub-steps with `Outcome.bind`, which propagates `.panic`, and the theorems establish by going
    through every step that `.panic` is unreachable. What this gives for the Go readers is: no
    panic from jd's own reader logic AS MODELLED; index expressions in the Go readers that the
    model renders as total list operations are checked by the correspondence stream, not here.
    `nc : NumCodec` (strconv / encoding/json on number tokens, external code) is arbitrary.
  * RENDERING in the two translated formats, for EVERY diff: `render_patch_never_panics`,
    `render_merge_never_panics` (an untranslatable diff is an error value).
  * THE CLAUSE "applying any successfully read diff to any document": `apply_read_diff_never_panics`,
    `apply_read_patch_never_panics`, `apply_read_merge_never_panics`, and the whole pipeline text →
    document, text → diff, apply, as one composition: `read_then_apply_never_panics`.

  NOT PROVED, and not provable on a pure model: stack exhaustion and memory exhaustion on deep or
  huge input, and faults INSIDE encoding/json or yaml.v2 (the model's JSON parser is total by
  construction and stands for encoding/json); the YAML reader; the CLI half (exit status 2 and a
  one-line message: JdProps/C14.lean). These are covered by the hostile-input correspondence stream
  and the native fuzz targets of ./check C13 only.
-/
import JdProofs.NoPanic
import JdProofs.RobustReaders
import JdModel.Native
import JdModel.PatchFmt
import JdModel.MergeFmt

namespace Jd.Props.C13
open Jd

/-! ## applying -/

/-- applying any diff to any document terminates with a result or an error -/
theorem patch_never_panics (n : Json) (d : Diff) : patchM n d ≠ .panic :=
  patchM_ne_panic n d

theorem patchAll_never_panics (sw : Bool) (n : Json) (d : Diff) : patchAll sw n d ≠ .panic :=
  patchAll_ne_panic sw n d

/-! ## reading arbitrary text -/

/-- reading ANY string as a JSON document: a document or an error -/
theorem read_json_never_panics (nc : NumCodec) (s : String) : readJsonM nc s ≠ .panic :=
  Robust.readJsonM_ne_panic nc s

/-- reading ANY string as a native jd diff: a diff or an error -/
theorem read_diff_never_panics (nc : NumCodec) (s : String) : readDiffM nc s ≠ .panic :=
  Robust.readDiffM_ne_panic nc s

/-- reading ANY string as a JSON Patch (RFC 6902): a diff or an error -/
theorem read_patch_never_panics (nc : NumCodec) (s : String) : readPatchM nc s ≠ .panic :=
  Robust.readPatchM_ne_panic nc s

/-- reading ANY string as a JSON Merge Patch (RFC 7386): a diff or an error -/
theorem read_merge_never_panics (nc : NumCodec) (s : String) : readMergeM nc s ≠ .panic :=
  Robust.readMergeM_ne_panic nc s

/-! ## rendering any diff in the translated formats -/

/-- rendering ANY diff as a JSON Patch: a text or an error -/
theorem render_patch_never_panics (nc : NumCodec) (d : Diff) : renderPatchM nc d ≠ .panic :=
  Robust.renderPatchM_ne_panic nc d

/-- rendering ANY diff as a JSON Merge Patch: a text or an error -/
theorem render_merge_never_panics (nc : NumCodec) (d : Diff) : renderMergeM nc d ≠ .panic :=
  Robust.renderMergeM_ne_panic nc d

/-! ## applying any successfully read diff to any document -/

theorem apply_read_diff_never_panics (nc : NumCodec) (s : String) (c : Json) (d : Diff)
    (h : readDiffM nc s = .ok d) : patchM c d ≠ .panic :=
  Robust.patch_readDiff_ne_panic nc s c d h

theorem apply_read_patch_never_panics (nc : NumCodec) (s : String) (c : Json) (d : Diff)
    (h : readPatchM nc s = .ok d) : patchM c d ≠ .panic :=
  Robust.patch_readPatch_ne_panic nc s c d h

theorem apply_read_merge_never_panics (nc : NumCodec) (s : String) (c : Json) (d : Diff)
    (h : readMergeM nc s = .ok d) : patchM c d ≠ .panic :=
  Robust.patch_readMerge_ne_panic nc s c d h

/-- the whole pipeline as one composition (`>>=` is `Outcome.bind`, which propagates `.panic`): read
    `doc` as a document, read `text` as a diff in each of the three formats, apply — for ANY two
    strings the outcome is a result or an error -/
theorem read_then_apply_never_panics (nc : NumCodec) (doc text : String) :
    (readJsonM nc doc >>= fun c => readDiffM nc text >>= fun d => patchM c d) ≠ .panic ∧
    (readJsonM nc doc >>= fun c => readPatchM nc text >>= fun d => patchM c d) ≠ .panic ∧
    (readJsonM nc doc >>= fun c => readMergeM nc text >>= fun d => patchM c d) ≠ .panic :=
  Robust.read_then_patch_ne_panic nc doc text

/-! ## Non-vacuity -/

/-- a hostile single hunk (negative index below -1 into a list): an error, not a panic -/
example : patchM (.arr .raw [.num 0]) [{ path := [.idx (-2)], remove := [.num 0] }] = .err := by
  simp [patchM, patchAll, patchNode.eq_def, effTag, pathMeta, dispatchTag, patchListLeaf]

/-- `.panic` is a genuine third outcome that the composition propagates, so "≠ .panic" is not true
    by construction of the type -/
example : ((Outcome.panic : Outcome Json) >>= fun c => patchM c []) = .panic := rfl

end Jd.Props.C13
