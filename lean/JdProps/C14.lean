/-
  Property C14 — CLI contract: library output, exit status 0/1/2, -o, stdin, -p round trip.
  Statement file (proofs in JdProofs/CliProofs.lean, namespace `Jd.Cli`: the contract of ONE run;
  JdProofs/CliRoundTrip.lean, namespace `Jd.CliRT`: the `-p` round trip, TWO runs, last section).

  Model side: `cliM b fl r` (JdModel/Cli.lean) is the decision logic of the two `main.go` files as a
  pure function: `b : Binary` is `v2jd` (v2/jd/main.go), `top` (main.go) or `topV1` (main.go started
  with -v2=false); `fl : Flags` the parsed command line (`nargs` = number of positional arguments);
  `r : LibResults` what the library and the operating system returned for the inputs at hand (parse
  results, renderings, patch result, file read / write results). The library itself is NOT part of
  this model: the statements say that `main` adds nothing to and removes nothing from what the
  library renders, and decides the exit status as documented. The outcome has the fields `exit`,
  `stdout`, `outfile` (bytes written to the `-o` file, or none) and `stderr`.
  The tie to the real binaries is the process-level correspondence (exit status, stdout, `-o` file,
  stderr class compared for the three binaries on every case).

  WHAT IS STATED
    exit status is 0, 1 or 2; it is 2 exactly when one of the checks `main` performs for these flags
    (`checks b fl r`: in program order; WHICH checks are made depends on the flags only) reported an
    error; on exit 2 no file is written and stdout is empty or the usage text;
    diff mode without error: the bytes that leave the program are exactly the library rendering for
    `-f`, exit 0 iff there is no difference (`haveDiff` false), 1 iff there is;
    `-o F`: nothing on stdout, the file holds exactly the bytes stdout carries without `-o`, same exit;
    the option list handed to the library is the same in the three binaries (v1 metadata being the
    image of the v2 options under the renaming `toV1`);
    reading the second input (or the only input, in translate mode) from stdin is equivalent to
    naming a file.
  THE `-p` ROUND TRIP ON THE CLI MODEL (last section; "feeding the output of `jd [flags] a b` to
  `jd -p [flags]` on a reproduces b, in jd, patch and merge formats, for JSON and YAML").
    To speak about TWO runs whose library results are related (the second run reads the text the
    first one printed) the library calls `main` makes are made explicit: `CliRT.Lib N D` (the
    functions `readDoc yaml`, `diff opts`, `renderJd color`, `renderPatch`, `renderMerge`, `readDiff fmt`,
    `patch`, `renderDoc yaml opts`; no option reaches a reader or `Patch`, as in `printPatch`),
    `CliRT.Env` (what the OS returns: bytes of the first / second input, result of writing `-o`),
    `CliRT.proc Ls b fl e` = THE PROCESS: `cliM b fl` on the `LibResults` obtained by making exactly the
    calls of the plan `planOf b fl` on the library `Ls v1` the plan selects (`Ls true` the v1, `Ls false`
    the v2 library), `CliRT.emitted o` the bytes that leave the program (`-o` file if written, else
    stdout), `CliRT.PatchTwin fl fl2`: `fl2` is `jd -p [the same flags]` (`-p` set, no `-t` / `-version` /
    `-port` / git driver, the same `-f -set -mset -setkeys -precision -yaml -color -v2`, ANY `-o`, one or two
    arguments).
    1. SAME OPTIONS, SAME LIBRARY, SAME READERS (`patch_run_same_options`, `patch_run_same_library`,
       `patch_run_plan`, `plans_agree`): for every binary, every diff command line and every `-p` twin the
       two plans name the same library, the same option list and the same COLOR flag, and both read
       `flag.Arg(0)` first. No flag combination with different option lists exists in the model.
    2. RELATIVE TO THE LIBRARY ROUND TRIP (`cli_round_trip`; `core_round_trip` for one library on `cliM`
       directly): `CliRT.LibRoundTrip L fmt color opts a b Post` says, for ONE pair of parsed documents:
       whatever text `T` the diff of `a` and `b` renders to in the format `fmt`, the reader of that format
       accepts `T`, `patch a` of the diff read succeeds with `r`, and `Post r`. IF it holds for what the
       inputs parse to, the first process did not exit 2, FILE1 of the second run holds the bytes the
       first run emitted, its second input the bytes of the first input of the first run, and writing
       its `-o` file (if any) succeeds, THEN the second process exits 0 with nothing on stderr and emits
       EXACTLY `Json(options…)` / `Yaml(options…)` of that `r` — on stdout without `-o`, in the file (and
       nothing on stdout) with `-o`. All three binaries, formats jd / patch / merge, JSON / YAML, `-o` in
       either run, file or stdin in either run, first exit status 0 or 1: the CLI adds nothing to and
       loses nothing from the library round trip.
    3. HYPOTHESIS-FREE ON THE LIBRARY SIDE FOR THE NATIVE FORMAT, LIST READING (`native_cli_round_trip`):
       `Ls false` is the model of the v2 library (`CliRT.nativeLib nc Y`: `readJsonM`, `diffM`, `renderM`,
       `readDiffM`, `patchM`, `jsonM`, …; the YAML carrier `Y` is a parameter about which nothing is
       assumed), `-f jd`, no `-set -mset -setkeys`, no `-color`, any `-precision`, any `-yaml`, any `-o`, one or
       two arguments. `LibRoundTrip` is discharged by C02 (E4) (`Jd.E2E.diff_print_read_patch`); what remains
       are the hypotheses of THAT theorem on the two parsed documents (list documents, sorted keys,
       finite numbers, `HashOK`, `ZeroOK`, `voidFree`, `shortArrays`, the codec contract on encoding/json)
       and the OS hypotheses of 2. The first run is PROVED not to fail: it exits 0 or 1 (1 exactly
       when the text is not empty) and emits `Render(a.Diff(b))`; the second exits 0 and emits the
       rendering of a document structurally equal to `b` that `Equals` `b`.
    4. `-color` BREAKS THE ROUND TRIP (`color_breaks_round_trip`, `color_no_library_round_trip`): `-color`
       is in the flag set of the property, and `jd -color a b` followed by `jd -p -color T a` — the same
       flags, the same library, the same option list, the same reader — exits 1 and then 2:
       `ReadDiffString` rejects the ANSI escape sequences. This is not an inconsistency between the
       two runs of the CLI: COLOUR OUTPUT IS NOT INPUT FOR `jd -p` (README: "-color  Print color diff.";
       confirmed on the real binary: "invalid diff at line 2"). The harness therefore does NOT run
       the round-trip leg with `-color`; what holds of colour output is C02 (`color_is_plain_plus_ansi`:
       stripping the escape sequences gives the plain text).
  NOT STATED HERE: that `haveDiff` is false exactly when the two inputs are Equal (that is C05, about
  the library). NOT PROVED: the instantiation of `LibRoundTrip` for `-f patch` and `-f merge` and for the
  `-set` / `-mset` / `-setkeys` readings. For `-f patch` / `-f merge` the library theorems (C10, C11 / C12) are
  stated on the operation list resp. the merge DOCUMENT, not on the TEXT: what is missing is the
  library-level text parse-back (`readPatchM nc text`, `readMergeM nc text` of what `renderPatchM` /
  `renderMergeM` print, i.e. `parseJson` of `jsonM` under the codec contract) — library work, not CLI
  work; `cli_round_trip` covers these formats RELATIVE to it. For the set readings in the native
  format the library theorems exist (C02 E5–E7) but are not plugged into `LibRoundTrip` here. The v1
  library (`Ls true`) is covered by 1 and 2 only. Process-level round trips in all formats are
  checked by correspondence (without `-color`).
-/
import JdProofs.CliProofs
import JdProofs.CliRoundTrip
import JdProofs.CliExitCodes
import JdProofs.CliRoundTripModesEx
import JdProofs.CliRoundTripModesPatch
import JdProofs.CliRoundTripModes
import JdProps.C14V1
import JdProps.C14MergeSet
import JdProps.C05V1

set_option autoImplicit false

namespace Jd.Props.C14
open Jd Jd.Cli

/-- the exit status is 0, 1 or 2 -/
theorem exit_is_0_1_or_2 (b : Binary) (fl : Flags) (r : LibResults) :
    (cliM b fl r).exit = 0 ∨ (cliM b fl r).exit = 1 ∨ (cliM b fl r).exit = 2 :=
  exit_range b fl r

/-- exit status 2 exactly when one of the checks made for these flags reported an error -/
theorem exit_2_iff_some_check_failed (b : Binary) (fl : Flags) (r : LibResults) :
    (cliM b fl r).exit = 2 ↔ ∃ c ∈ checks b fl r, ∃ e, c = .error e :=
  exit_two_iff_error b fl r

/-- … and the whole outcome (log record or usage text) is determined by the FIRST failing check -/
theorem outcome_is_first_failing_check (b : Binary) (fl : Flags) (r : LibResults) (e : Err)
    (h : firstErr (checks b fl r) = some e) : cliM b fl r = outcomeOf b (.error e) :=
  outcome_of_first_error b fl r e h

/-- on exit 2 no output file is written and stdout is empty or the usage text -/
theorem on_error_nothing_is_written {b : Binary} {fl : Flags} {r : LibResults}
    (h : (cliM b fl r).exit = 2) :
    (cliM b fl r).outfile = none ∧
      ((cliM b fl r).stdout = "" ∨ (cliM b fl r).stdout = usageText b) :=
  error_writes_nothing h

/-- diff mode, no error: the program emits exactly the library rendering `s` for the format chosen
    with `-f` (on stdout, or in the `-o` file and then nothing on stdout), exits 0 iff there is no
    difference and 1 iff there is -/
theorem diff_mode_prints_library_output_and_exits_0_or_1 {b : Binary} {fl : Flags} {r : LibResults}
    (hm : isDiffMode fl) (hne : (cliM b fl r).exit ≠ 2) :
    ∃ s, libRendering fl r = some s ∧
      ((cliM b fl r).exit = 0 ↔ haveDiff fl r s = false) ∧
      ((cliM b fl r).exit = 1 ↔ haveDiff fl r s = true) ∧
      (fl.o = "" → (cliM b fl r).stdout = s ∧ (cliM b fl r).outfile = none) ∧
      (fl.o ≠ "" → (cliM b fl r).stdout = "" ∧ (cliM b fl r).outfile = some s) :=
  diff_mode_contract hm hne

/-- `-o F` in every mode (diff, patch, translate), no error: nothing on stdout, the file holds
    exactly the bytes that stdout carries without `-o`, and the exit status is the same -/
theorem output_flag_writes_same_bytes {b : Binary} {fl : Flags} {r : LibResults}
    (ho : fl.o ≠ "") (hv : fl.version = false) (hp : fl.port = 0) (hg : fl.gitDiffDriver = false)
    (hne : (cliM b fl r).exit ≠ 2) :
    (cliM b fl r).stdout = "" ∧
    (cliM b fl r).outfile = some (cliM b { fl with o := "" } r).stdout ∧
    (cliM b { fl with o := "" } r).outfile = none ∧
    (cliM b fl r).exit = (cliM b { fl with o := "" } r).exit :=
  output_flag ho hv hp hg hne

/-- the top-level binary builds the same v2 option list as v2/jd -/
theorem options_top_eq_v2jd (fl : Flags) : optionsOfTopV2 fl = optionsOf fl :=
  optionsOf_top_eq_v2jd fl

/-- with -v2=false the v1 metadata list is the image of the v2 option list under the renaming -/
theorem v1_metadata_is_image_of_options (fl : Flags) :
    metadataOfTopV1 fl = (optionsOf fl).map (List.map toV1) :=
  metadata_v1_is_image fl

/-- all three binaries hand the same options to the library -/
theorem all_binaries_same_options (b : Binary) (fl : Flags) : parsedOptions b fl = optionsOf fl :=
  parsedOptions_same b fl

/-- diff / patch mode: the second input from stdin ≡ from a named file -/
theorem stdin_equals_file (b : Binary) (fl : Flags) (r : LibResults)
    (hv : fl.version = false) (hp : fl.port = 0) (hg : fl.gitDiffDriver = false) (ht : fl.t = "") :
    cliM b { fl with nargs := 1 } r = cliM b { fl with nargs := 2 } r :=
  stdin_equiv_file b fl r hv hp hg ht

/-- translate mode: the input from stdin ≡ from a named file -/
theorem stdin_equals_file_translate (b : Binary) (fl : Flags) (r : LibResults)
    (hv : fl.version = false) (hp : fl.port = 0) (hg : fl.gitDiffDriver = false) (ht : fl.t ≠ "") :
    cliM b { fl with nargs := 0 } r = cliM b { fl with nargs := 1 } r :=
  stdin_equiv_file_translate b fl r hv hp hg ht

/-! Non-vacuity: `jd a b` with two readable, parsable inputs that differ: diff mode, exit 1, stdout is
    the library's rendering. -/

private def exFlags : Flags := { nargs := 2 }
private def exLib : LibResults :=
  { file1 := .ok (), file2 := .ok (), parse1 := .ok (), parse2 := .ok (), diffLen := 1,
    renderJd := "@ [\"a\"]\n- 1\n+ 2\n" }

example : isDiffMode exFlags ∧ (cliM .v2jd exFlags exLib).exit = 1 ∧
    (cliM .v2jd exFlags exLib).stdout = exLib.renderJd ∧ (cliM .top exFlags exLib).exit ≠ 2 :=
  ⟨⟨rfl, rfl, rfl, rfl, rfl⟩, by decide, by decide, by decide⟩

/-! ## The `-p` round trip on the CLI model

  Names of `Jd.CliRT` are written qualified (also those of `Jd.DPL`, `Jd.E2E`, `Jd.NativeRT`, `Jd.Spec` in
  `native_cli_round_trip`). -/

/-- the canonical `-p` twin of a diff command line: the same flags with `-p`, any `-o`, one or two
    positional arguments (so `CliRT.PatchTwin` is inhabited for every diff command line) -/
theorem canonical_patch_twin {fl : Flags} (hm : isDiffMode fl) (o2 : String) (n2 : Nat)
    (hn : n2 = 1 ∨ n2 = 2) : CliRT.PatchTwin fl { fl with p := true, o := o2, nargs := n2 } :=
  CliRT.patchTwin_with hm o2 n2 hn

/-- **same option list**: the `-p` run computes the option list of the diff run, in every binary -/
theorem patch_run_same_options (b : Binary) {fl fl2 : Flags} (h : CliRT.PatchTwin fl fl2) :
    parsedOptions b fl2 = parsedOptions b fl :=
  CliRT.parsedOptions_twin b h

/-- **same library** (v1 or v2) -/
theorem patch_run_same_library (b : Binary) {fl fl2 : Flags} (h : CliRT.PatchTwin fl fl2) :
    libIsV1 b fl2 = libIsV1 b fl :=
  CliRT.libIsV1_twin b h

/-- the plan of the `-p` twin: mode "patch", the library, option list and COLOR flag of the diff
    run; the diff is ALWAYS the first positional argument, the document to patch the second one or
    stdin -/
theorem patch_run_plan (b : Binary) {fl fl2 : Flags} (h : CliRT.PatchTwin fl fl2) {opts : List Opt}
    (ho : parsedOptions b fl = .ok opts) :
    planOf b fl2 = some ⟨"patch", libIsV1 b fl, opts, fl.color,
      [.arg 0, if fl2.nargs = 1 then .stdin else .arg 1]⟩ :=
  CliRT.planOf_twin b h ho

/-- **the two runs call the same library with the same option list**: whenever the diff run has a
    plan `p1`, the `-p` twin has a plan `p2` with `p1.mode = "diff"`, `p2.mode = "patch"`, the same library,
    options and COLOR flag, and both read the first positional argument first (the document `a` in
    the diff run, the diff text in the `-p` run) -/
theorem plans_agree (b : Binary) {fl fl2 : Flags} (hm : isDiffMode fl) (h : CliRT.PatchTwin fl fl2)
    {p1 : Plan} (h1 : planOf b fl = some p1) :
    ∃ p2, planOf b fl2 = some p2 ∧ p1.mode = "diff" ∧ p2.mode = "patch" ∧ p2.v1 = p1.v1 ∧
      p2.opts = p1.opts ∧ p2.color = p1.color ∧ parsedOptions b fl = .ok p1.opts ∧
      parsedOptions b fl2 = .ok p1.opts ∧ p1.srcs.head? = some (.arg 0) ∧
      p2.srcs.head? = some (.arg 0) :=
  CliRT.plans_agree b hm h h1

/-- **the CLI round trip, relative to the library round trip; one library, on `cliM` directly.**
    `CliRT.resultsDiff L opts color fl e` / `CliRT.resultsPatch L opts fl e` are the `LibResults` obtained by
    making the calls of a diff run / a `-p` run on the library `L` with the inputs `e` -/
theorem core_round_trip {N D : Type} (L : CliRT.Lib N D) (b : Binary) {fl fl2 : Flags}
    {e1 e2 : CliRT.Env} {opts : List Opt} (hm : isDiffMode fl) (h : CliRT.PatchTwin fl fl2)
    (ho : parsedOptions b fl = .ok opts)
    (hne : (cliM b fl (CliRT.resultsDiff L opts fl.color fl e1)).exit ≠ 2)
    (hT : e2.in1 = .ok (CliRT.emitted (cliM b fl (CliRT.resultsDiff L opts fl.color fl e1))))
    (ha : e2.in2 = e1.in1) (hw : fl2.o = "" ∨ e2.write = .ok ())
    (Post : N → N → N → Prop)
    (hrt : ∀ ta tb a b' fmt, e1.in1 = .ok ta → e1.in2 = .ok tb → L.readDoc fl.yaml ta = .ok a →
      L.readDoc fl.yaml tb = .ok b' → formatOf fl.f = some fmt →
      CliRT.LibRoundTrip L fmt fl.color opts a b' (Post a b')) :
    ∃ ta tb a b' fmt T d' r, e1.in1 = .ok ta ∧ e1.in2 = .ok tb ∧ L.readDoc fl.yaml ta = .ok a ∧
      L.readDoc fl.yaml tb = .ok b' ∧ formatOf fl.f = some fmt ∧
      CliRT.renderAs L fmt fl.color (L.diff opts a b') = .ok T ∧
      CliRT.emitted (cliM b fl (CliRT.resultsDiff L opts fl.color fl e1)) = T ∧
      ((cliM b fl (CliRT.resultsDiff L opts fl.color fl e1)).exit = 0 ∨
       (cliM b fl (CliRT.resultsDiff L opts fl.color fl e1)).exit = 1) ∧
      L.readDiff fmt T = .ok d' ∧ L.patch a d' = .ok r ∧ Post a b' r ∧
      (cliM b fl2 (CliRT.resultsPatch L opts fl2 e2)).exit = 0 ∧
      CliRT.emitted (cliM b fl2 (CliRT.resultsPatch L opts fl2 e2)) = L.renderDoc fl.yaml opts r ∧
      (cliM b fl2 (CliRT.resultsPatch L opts fl2 e2)).stderr = "" ∧
      (fl2.o = "" →
        (cliM b fl2 (CliRT.resultsPatch L opts fl2 e2)).stdout = L.renderDoc fl.yaml opts r ∧
        (cliM b fl2 (CliRT.resultsPatch L opts fl2 e2)).outfile = none) ∧
      (fl2.o ≠ "" → (cliM b fl2 (CliRT.resultsPatch L opts fl2 e2)).stdout = "" ∧
        (cliM b fl2 (CliRT.resultsPatch L opts fl2 e2)).outfile
          = some (L.renderDoc fl.yaml opts r)) :=
  CliRT.core_round_trip L b hm h ho hne hT ha hw Post hrt

/-- **C14, last sentence, on the CLI model, relative to the library round trip** (all three
    binaries, formats jd / patch / merge, JSON / YAML, `-o` in either run, file or stdin in either
    run). IF the first process `jd [flags] a b` did not exit 2, FILE1 of the second run `jd -p [flags]`
    holds the bytes the first run emitted, its second input the bytes of the first input of the first
    run, writing its `-o` file (if any) succeeds, and the library the plan selects has the round-trip
    property for the parsed documents (`CliRT.LibRoundTrip`, postcondition `Post a b r`), THEN the two
    plans exist and name the same library and option list; the inputs of the first run were read
    and parsed to `a`, `b'`; the first run emitted the rendering `T` of their diff in the format of `-f`
    and exited 0 or 1; `T` is read back, `patch a` of it gives `r` with `Post a b' r`; and the second
    process exits 0, writes nothing to stderr, and emits EXACTLY `renderDoc fl.yaml opts r` — on stdout
    (and no file) without `-o`, in the file (and nothing on stdout) with `-o` -/
theorem cli_round_trip (Ls : Bool → CliRT.LibPack) (b : Binary) {fl fl2 : Flags}
    {e1 e2 : CliRT.Env} (hm : isDiffMode fl) (h : CliRT.PatchTwin fl fl2)
    (hne : (CliRT.proc Ls b fl e1).exit ≠ 2)
    (hT : e2.in1 = .ok (CliRT.emitted (CliRT.proc Ls b fl e1)))
    (ha : e2.in2 = e1.in1) (hw : fl2.o = "" ∨ e2.write = .ok ())
    (Post : (Ls (libIsV1 b fl)).N → (Ls (libIsV1 b fl)).N → (Ls (libIsV1 b fl)).N → Prop)
    (hrt : ∀ opts ta tb a b' fmt, parsedOptions b fl = .ok opts → e1.in1 = .ok ta →
      e1.in2 = .ok tb → (Ls (libIsV1 b fl)).lib.readDoc fl.yaml ta = .ok a →
      (Ls (libIsV1 b fl)).lib.readDoc fl.yaml tb = .ok b' → formatOf fl.f = some fmt →
      CliRT.LibRoundTrip (Ls (libIsV1 b fl)).lib fmt fl.color opts a b' (Post a b')) :
    ∃ opts p1 p2 ta tb a b' fmt T d' r,
      planOf b fl = some p1 ∧ planOf b fl2 = some p2 ∧ p1.mode = "diff" ∧ p2.mode = "patch" ∧
      p1.v1 = libIsV1 b fl ∧ p2.v1 = libIsV1 b fl ∧ p1.opts = opts ∧ p2.opts = opts ∧
      e1.in1 = .ok ta ∧ e1.in2 = .ok tb ∧
      (Ls (libIsV1 b fl)).lib.readDoc fl.yaml ta = .ok a ∧
      (Ls (libIsV1 b fl)).lib.readDoc fl.yaml tb = .ok b' ∧ formatOf fl.f = some fmt ∧
      CliRT.renderAs (Ls (libIsV1 b fl)).lib fmt fl.color
        ((Ls (libIsV1 b fl)).lib.diff opts a b') = .ok T ∧
      CliRT.emitted (CliRT.proc Ls b fl e1) = T ∧
      ((CliRT.proc Ls b fl e1).exit = 0 ∨ (CliRT.proc Ls b fl e1).exit = 1) ∧
      (Ls (libIsV1 b fl)).lib.readDiff fmt T = .ok d' ∧
      (Ls (libIsV1 b fl)).lib.patch a d' = .ok r ∧ Post a b' r ∧
      (CliRT.proc Ls b fl2 e2).exit = 0 ∧
      CliRT.emitted (CliRT.proc Ls b fl2 e2) = (Ls (libIsV1 b fl)).lib.renderDoc fl.yaml opts r ∧
      (CliRT.proc Ls b fl2 e2).stderr = "" ∧
      (fl2.o = "" →
        (CliRT.proc Ls b fl2 e2).stdout = (Ls (libIsV1 b fl)).lib.renderDoc fl.yaml opts r ∧
        (CliRT.proc Ls b fl2 e2).outfile = none) ∧
      (fl2.o ≠ "" → (CliRT.proc Ls b fl2 e2).stdout = "" ∧
        (CliRT.proc Ls b fl2 e2).outfile
          = some ((Ls (libIsV1 b fl)).lib.renderDoc fl.yaml opts r)) :=
  CliRT.cli_round_trip Ls b hm h hne hT ha hw Post hrt

/-- **C14, last sentence, END TO END for the native format, list reading, v2 library: no library
    hypothesis.** `jd [-precision e] [-yaml] [-o F] a b` followed by `jd -p [same flags] [-o G] T a`, where
    `Ls false` is the v2 library of the model (`CliRT.nativeLib nc Y`; nothing is assumed about the YAML
    carrier `Y`). If the two inputs are read and parse to `a`, `b'` in the domain of C02 (E4), then the
    first process exits 0 or 1 (1 exactly when the text is not empty) and emits the text `T` of
    `a.Diff(b')` (on stdout, or in the `-o` file); `ReadDiffString T` succeeds, `a.Patch` of it succeeds
    with a list document `r` structurally equal to `b'` that `Equals` `b'` (`DPL.PrecMono`: when
    `-precision` is given); and the second process exits 0, writes nothing to stderr, and emits
    `Json()` / `Yaml()` of `r` — on stdout without `-o`, in the file with `-o` -/
theorem native_cli_round_trip (FL : Spec.FloatLaws) (nc : NumCodec) (Y : CliRT.YamlCarrier)
    (Ls : Bool → CliRT.LibPack) (hL : Ls false = ⟨Json, Diff, CliRT.nativeLib nc Y⟩)
    (b : Binary) {fl fl2 : Flags} {e1 e2 : CliRT.Env}
    (hm : isDiffMode fl) (h : CliRT.PatchTwin fl fl2) (hv2 : libIsV1 b fl = false)
    (hset : fl.set = false) (hmset : fl.mset = false) (hkeys : fl.setkeys = "")
    (hfmt : formatOf fl.f = some .jd) (hcolor : fl.color = false)
    (hn : fl.nargs = 1 ∨ fl.nargs = 2)
    {ta tb : String} {a b' : Json}
    (hi1 : e1.in1 = .ok ta) (hi2 : e1.in2 = .ok tb) (hw1 : fl.o = "" ∨ e1.write = .ok ())
    (hra : (CliRT.nativeLib nc Y).readDoc fl.yaml ta = .ok a)
    (hrb : (CliRT.nativeLib nc Y).readDoc fl.yaml tb = .ok b')
    (ha1 : a.listDoc = true) (ha2 : a.wf = true) (ha3 : a.finiteNums = true)
    (hb1 : b'.listDoc = true) (hb2 : b'.wf = true) (hb3 : b'.finiteNums = true)
    (H : DPL.HashOK [Opt.prec fl.precision] a b') (Z : DPL.ZeroOK a b')
    (hva : E2E.voidFree a = true) (hvb : E2E.voidFree b' = true)
    (hlen : E2E.shortArrays b' = true)
    (hv : ∀ z ∈ DPL.subterms a ++ DPL.subterms b',
      (marshalNode nc z).isSome = true ∧ NativeRT.ValOK nc z)
    (hp : ∀ h ∈ diffM [Opt.prec fl.precision] a b',
      (jsonM nc (pathToJson h.path)).isSome = true ∧ NativeRT.PathOK nc h.path)
    (hT : e2.in1 = .ok (CliRT.emitted (CliRT.proc Ls b fl e1)))
    (ha : e2.in2 = e1.in1) (hw : fl2.o = "" ∨ e2.write = .ok ()) :
    ∃ T d' r,
      renderM nc [] (diffM [Opt.prec fl.precision] a b') = some T ∧
      CliRT.emitted (CliRT.proc Ls b fl e1) = T ∧
      (CliRT.proc Ls b fl e1).exit = (if T = "" then 0 else 1) ∧
      (fl.o = "" → (CliRT.proc Ls b fl e1).stdout = T ∧ (CliRT.proc Ls b fl e1).outfile = none) ∧
      (fl.o ≠ "" → (CliRT.proc Ls b fl e1).stdout = "" ∧
        (CliRT.proc Ls b fl e1).outfile = some T) ∧
      readDiffM nc T = .ok d' ∧ patchM a d' = .ok r ∧
      Spec.specEq r b' = true ∧ Spec.specEq b' r = true ∧ r.listDoc = true ∧
      (DPL.PrecMono [Opt.prec fl.precision] →
        Spec.equivB [Opt.prec fl.precision] r b' = true ∧
        equals [Opt.prec fl.precision] r b' = true) ∧
      (CliRT.proc Ls b fl2 e2).exit = 0 ∧ (CliRT.proc Ls b fl2 e2).stderr = "" ∧
      CliRT.emitted (CliRT.proc Ls b fl2 e2) =
        (CliRT.nativeLib nc Y).renderDoc fl.yaml [Opt.prec fl.precision] r ∧
      (fl2.o = "" → (CliRT.proc Ls b fl2 e2).stdout =
          (CliRT.nativeLib nc Y).renderDoc fl.yaml [Opt.prec fl.precision] r ∧
        (CliRT.proc Ls b fl2 e2).outfile = none) ∧
      (fl2.o ≠ "" → (CliRT.proc Ls b fl2 e2).stdout = "" ∧
        (CliRT.proc Ls b fl2 e2).outfile =
          some ((CliRT.nativeLib nc Y).renderDoc fl.yaml [Opt.prec fl.precision] r)) :=
  CliRT.native_cli_round_trip FL nc Y Ls hL b hm h hv2 hset hmset hkeys hfmt hcolor hn hi1 hi2 hw1
    hra hrb ha1 ha2 ha3 hb1 hb2 hb3 H Z hva hvb hlen hv hp hT ha hw

/-! ### `-color`: colour output is not input for `jd -p`

  `CliRT.ColorWitness.flc` = `jd -color a.json b.json`, `flc2` = `jd -p -color T a.json`, on the files
  `{"a":"ab"}` (`cA`) and `{"a":"ac"}` (`cB`); `cText` = `@ ["a"]` / `- "a␛[31mb␛[0m"` / `+ "a␛[32mc␛[0m"`;
  `CliRT.NativeExample.Ls` is the v2 library of the model with the codec `exCodec`, `o0` = the option list
  `[Precision 0]` of a command line without `-precision`. -/

/-- **the library-level round trip is FALSE with COLOR** (v2 library of the model): `ReadDiffString`
    rejects the coloured text, whatever postcondition is asked -/
theorem color_no_library_round_trip :
    ¬ CliRT.LibRoundTrip (CliRT.nativeLib NativeRT.exCodec CliRT.NativeExample.noYaml) .jd true
        CliRT.NativeExample.o0 CliRT.ColorWitness.cA CliRT.ColorWitness.cB (fun _ => True) :=
  CliRT.ColorWitness.color_no_libRoundTrip

/-- **the round trip of C14 fails for the flag `-color`**: `jd -color a.json b.json` exits 1 and prints
    the coloured text; `jd -p -color T a.json` — a `PatchTwin`: the same flags, library, option list
    and reader, fed exactly those bytes — exits 2 -/
theorem color_breaks_round_trip :
    isDiffMode CliRT.ColorWitness.flc ∧
    CliRT.PatchTwin CliRT.ColorWitness.flc CliRT.ColorWitness.flc2 ∧
    (CliRT.proc CliRT.NativeExample.Ls .v2jd CliRT.ColorWitness.flc CliRT.ColorWitness.ec1).exit = 1 ∧
    (CliRT.proc CliRT.NativeExample.Ls .v2jd CliRT.ColorWitness.flc CliRT.ColorWitness.ec1).stdout
      = CliRT.ColorWitness.cText ∧
    CliRT.ColorWitness.ec2.in1 = .ok (CliRT.emitted
      (CliRT.proc CliRT.NativeExample.Ls .v2jd CliRT.ColorWitness.flc CliRT.ColorWitness.ec1)) ∧
    CliRT.ColorWitness.ec2.in2 = CliRT.ColorWitness.ec1.in1 ∧
    (CliRT.proc CliRT.NativeExample.Ls .v2jd CliRT.ColorWitness.flc2 CliRT.ColorWitness.ec2).exit = 2 :=
  CliRT.ColorWitness.color_breaks_round_trip

/-! Non-vacuity of the round-trip section.
    `native_cli_round_trip` on two concrete JSON files (`CliRT.NativeExample`: `{"k":[true,null,["x"]]}`
    and `{"k":[false,null,["x","y"]],"n":null}`, codec `exCodec`, `jd a.json b.json` then
    `jd -p -o out.json T a.json`): every hypothesis is discharged, only `FloatLaws` remains; the first
    process exits 1 and prints the diff text, the second exits 0, prints nothing and writes to
    `out.json` the JSON text of a document that `Equals` the second file.
    `cli_round_trip` on a toy library (`CliRT.Toy`: format patch, `-o` and stdin in the first run only,
    `-yaml -set -color`, the top-level binary): all hypotheses hold and the conclusion is what
    evaluation gives. -/

example (L : Spec.FloatLaws) :
    ∃ T r, T = CliRT.NativeExample.exText ∧
      (CliRT.proc CliRT.NativeExample.Ls .v2jd CliRT.NativeExample.fl1 CliRT.NativeExample.e1).stdout
        = T ∧
      (CliRT.proc CliRT.NativeExample.Ls .v2jd CliRT.NativeExample.fl1 CliRT.NativeExample.e1).exit
        = 1 ∧
      Spec.specEq r E2E.Example.exB = true ∧ equals CliRT.NativeExample.o0 r E2E.Example.exB = true ∧
      (CliRT.proc CliRT.NativeExample.Ls .v2jd CliRT.NativeExample.fl2 CliRT.NativeExample.e2).exit
        = 0 ∧
      (CliRT.proc CliRT.NativeExample.Ls .v2jd CliRT.NativeExample.fl2 CliRT.NativeExample.e2).stdout
        = "" ∧
      (CliRT.proc CliRT.NativeExample.Ls .v2jd CliRT.NativeExample.fl2 CliRT.NativeExample.e2).outfile
        = some ((jsonM NativeRT.exCodec r).getD "") :=
  CliRT.NativeExample.ex_cli_end_to_end L

example : isDiffMode CliRT.Toy.toyFl ∧ CliRT.PatchTwin CliRT.Toy.toyFl CliRT.Toy.toyFl2 ∧
    (∀ fmt color opts a b,
      CliRT.LibRoundTrip CliRT.Toy.toyLib fmt color opts a b (fun r => r = b)) :=
  ⟨⟨rfl, rfl, rfl, rfl, rfl⟩, canonical_patch_twin ⟨rfl, rfl, rfl, rfl, rfl⟩ "" 2 (.inr rfl),
    CliRT.Toy.toy_libRoundTrip⟩

/-! ## The `-p` round trip in the other readings and formats, without a library hypothesis
   — proofs in JdProofs/CliRoundTripModes*.lean (ns `Jd.CliRTM`); `TwoRuns P1 P2 fl fl2 T code out` bundles what the two
   processes do (first: emits `T`, exits `code`, nothing on stderr, `-o` honoured; second: exits 0, emits `out`). -/

section
open Jd Jd.Spec Jd.Cli Jd.CliRT Jd.CliRTM Jd.PB Jd.Robust Jd.Merge Jd.DPL

/-- **C14 round trip, `-set` / `-mset`, native format, no library hypothesis**: `jd -set a b` then `jd -p -set T a` (stdin or file, `-o` in either run, JSON or YAML): the second process exits 0 and emits the rendering of a document that Equals `b` under the options -/
theorem native_cli_round_trip_setmodes (F : FloatEq0) (FL : FloatLaws) (nc : NumCodec)
    (Y : YamlCarrier) (Ls : Bool → LibPack) (hL : Ls false = ⟨Json, Diff, nativeLib nc Y⟩)
    (b : Binary) {fl fl2 : Flags} {e1 e2 : Env}
    (hm : isDiffMode fl) (h : PatchTwin fl fl2) (hv2 : libIsV1 b fl = false)
    (hsm : fl.set = true ∨ fl.mset = true) (hkeys : fl.setkeys = "") (hprec : fl.precision = 0)
    (hfmt : formatOf fl.f = some .jd) (hcolor : fl.color = false)
    (hn : fl.nargs = 1 ∨ fl.nargs = 2)
    {ta tb : String} {a b' : Json}
    (hi1 : e1.in1 = .ok ta) (hi2 : e1.in2 = .ok tb) (hw1 : fl.o = "" ∨ e1.write = .ok ())
    (hra : (nativeLib nc Y).readDoc fl.yaml ta = .ok a)
    (hrb : (nativeLib nc Y).readDoc fl.yaml tb = .ok b')
    (ha : a.setDoc = true) (hb : b'.setDoc = true)
    (hva : E2E.voidFree a = true) (hvb : E2E.voidFree b' = true)
    (HF : HashFaithful (modeOpts fl) (subterms a ++ subterms b'))
    (hv : ∀ z ∈ subterms a ++ subterms b', (marshalNode nc z).isSome = true ∧ NativeRT.ValOK nc z)
    (hp : ∀ h ∈ diffM (modeOpts fl) a b',
      (jsonM nc (pathToJson h.path)).isSome = true ∧ NativeRT.PathOK nc h.path)
    (hT : e2.in1 = .ok (emitted (proc Ls b fl e1)))
    (ha2 : e2.in2 = e1.in1) (hw : fl2.o = "" ∨ e2.write = .ok ()) :
    ∃ T d' r,
      parsedOptions b fl = .ok (modeOpts fl) ∧
      renderM nc [] (diffM (modeOpts fl) a b') = some T ∧
      readDiffM nc T = .ok d' ∧ patchM a d' = .ok r ∧
      equivB (modeOpts fl) r b' = true ∧ equals (modeOpts fl) r b' = true ∧
      TwoRuns (proc Ls b fl e1) (proc Ls b fl2 e2) fl fl2 T (if T = "" then 0 else 1)
        ((nativeLib nc Y).renderDoc fl.yaml (modeOpts fl) r) :=
  Jd.CliRTM.native_cli_round_trip_setmodes (F := F) (FL := FL) (nc := nc) (Y := Y) (Ls := Ls) (hL := hL) (b := b) (fl := fl) (fl2 := fl2) (e1 := e1) (e2 := e2) (hm := hm) (h := h) (hv2 := hv2) (hsm := hsm) (hkeys := hkeys) (hprec := hprec) (hfmt := hfmt) (hcolor := hcolor) (hn := hn) (ta := ta) (tb := tb) (a := a) (b' := b') (hi1 := hi1) (hi2 := hi2) (hw1 := hw1) (hra := hra) (hrb := hrb) (ha := ha) (hb := hb) (hva := hva) (hvb := hvb) (HF := HF) (hv := hv) (hp := hp) (hT := hT) (ha2 := ha2) (hw := hw)

/-- **C14 round trip, `-setkeys k[,…]`** (with or without `-set`), under `DPK.KeysHyp`; `ks ≠ []` always holds on the command line (`CliRTM.splitKeys_ne_nil`) -/
theorem native_cli_round_trip_setkeys (F : FloatEq0) (FL : FloatLaws) (nc : NumCodec)
    (Y : YamlCarrier) (Ls : Bool → LibPack) (hL : Ls false = ⟨Json, Diff, nativeLib nc Y⟩)
    (b : Binary) {fl fl2 : Flags} {e1 e2 : Env}
    (hm : isDiffMode fl) (h : PatchTwin fl fl2) (hv2 : libIsV1 b fl = false)
    {ks : List String} (hkeys : fl.setkeys ≠ "") (hsk : splitKeys fl.setkeys = .ok ks)
    (hmset : fl.mset = false) (hprec : fl.precision = 0)
    (hfmt : formatOf fl.f = some .jd) (hcolor : fl.color = false)
    (hn : fl.nargs = 1 ∨ fl.nargs = 2)
    {ta tb : String} {a b' : Json}
    (hi1 : e1.in1 = .ok ta) (hi2 : e1.in2 = .ok tb) (hw1 : fl.o = "" ∨ e1.write = .ok ())
    (hra : (nativeLib nc Y).readDoc fl.yaml ta = .ok a)
    (hrb : (nativeLib nc Y).readDoc fl.yaml tb = .ok b')
    (ha : a.setDoc = true) (hb : b'.setDoc = true)
    (hva : E2E.voidFree a = true) (hvb : E2E.voidFree b' = true)
    (KH : DPK.KeysHyp (keysOpts fl ks) ks a b')
    (hv : ∀ z ∈ subterms a ++ subterms b', (marshalNode nc z).isSome = true ∧ NativeRT.ValOK nc z)
    (hp : ∀ h ∈ diffM (keysOpts fl ks) a b',
      (jsonM nc (pathToJson h.path)).isSome = true ∧ NativeRT.PathOK nc h.path)
    (hT : e2.in1 = .ok (emitted (proc Ls b fl e1)))
    (ha2 : e2.in2 = e1.in1) (hw : fl2.o = "" ∨ e2.write = .ok ()) :
    ∃ T d' r,
      parsedOptions b fl = .ok (keysOpts fl ks) ∧
      renderM nc [] (diffM (keysOpts fl ks) a b') = some T ∧
      readDiffM nc T = .ok d' ∧ patchM a d' = .ok r ∧
      equivB (keysOpts fl ks) r b' = true ∧ equals (keysOpts fl ks) r b' = true ∧
      TwoRuns (proc Ls b fl e1) (proc Ls b fl2 e2) fl fl2 T (if T = "" then 0 else 1)
        ((nativeLib nc Y).renderDoc fl.yaml (keysOpts fl ks) r) :=
  Jd.CliRTM.native_cli_round_trip_setkeys (F := F) (FL := FL) (nc := nc) (Y := Y) (Ls := Ls) (hL := hL) (b := b) (fl := fl) (fl2 := fl2) (e1 := e1) (e2 := e2) (hm := hm) (h := h) (hv2 := hv2) (ks := ks) (hkeys := hkeys) (hsk := hsk) (hmset := hmset) (hprec := hprec) (hfmt := hfmt) (hcolor := hcolor) (hn := hn) (ta := ta) (tb := tb) (a := a) (b' := b') (hi1 := hi1) (hi2 := hi2) (hw1 := hw1) (hra := hra) (hrb := hrb) (ha := ha) (hb := hb) (hva := hva) (hvb := hvb) (KH := KH) (hv := hv) (hp := hp) (hT := hT) (ha2 := ha2) (hw := hw)

/-- **C14 round trip, `-f merge`** (list reading, null-free second document, `mergeRTDom`: not a non-object against `{}` = KF-C12-emptyobj); both exclusions are shown necessary (`merge_emptyobj_no_libRoundTrip`, `merge_null_no_libRoundTrip`) -/
theorem merge_cli_round_trip (L : FloatLaws) (nc : NumCodec)
    (Y : YamlCarrier) (Ls : Bool → LibPack) (hL : Ls false = ⟨Json, Diff, nativeLib nc Y⟩)
    (b : Binary) {fl fl2 : Flags} {e1 e2 : Env}
    (hm : isDiffMode fl) (h : PatchTwin fl fl2) (hv2 : libIsV1 b fl = false)
    (hf : fl.f = "merge") (hset : fl.set = false) (hmset : fl.mset = false)
    (hkeys : fl.setkeys = "") (hprec : fl.precision = 0)
    (hn : fl.nargs = 1 ∨ fl.nargs = 2)
    {ta tb : String} {a b' : Json}
    (hi1 : e1.in1 = .ok ta) (hi2 : e1.in2 = .ok tb) (hw1 : fl.o = "" ∨ e1.write = .ok ())
    (hra : (nativeLib nc Y).readDoc fl.yaml ta = .ok a)
    (hrb : (nativeLib nc Y).readDoc fl.yaml tb = .ok b')
    (haw : a.wf = true) (har : a.rawDoc = true)
    (hbw : b'.wf = true) (hbr : b'.rawDoc = true) (hbn : b'.nullFree = true)
    (hbf : b'.finiteNums = true) (hbv : Yaml.voidFree b' = true) (hbN : JText.NumOK nc b' = true)
    (hab : mergeRTDom a b' = true)
    (hT : e2.in1 = .ok (emitted (proc Ls b fl e1)))
    (ha2 : e2.in2 = e1.in1) (hw : fl2.o = "" ∨ e2.write = .ok ()) :
    ∃ T d' r,
      parsedOptions b fl = .ok (mergeOpts fl) ∧
      renderMergeM nc (diffM (mergeOpts fl) a b') = .ok (some T) ∧
      readMergeM nc T = .ok d' ∧ patchM a d' = .ok r ∧
      equals (mergeOpts fl) r b' = true ∧ equivB (mergeOpts fl) r b' = true ∧
      specEq r b' = true ∧ r.listDoc = true ∧
      TwoRuns (proc Ls b fl e1) (proc Ls b fl2 e2) fl fl2 T
        (if (diffM (mergeOpts fl) a b').length > 0 then 1 else 0)
        ((nativeLib nc Y).renderDoc fl.yaml (mergeOpts fl) r) :=
  Jd.CliRTM.merge_cli_round_trip (L := L) (nc := nc) (Y := Y) (Ls := Ls) (hL := hL) (b := b) (fl := fl) (fl2 := fl2) (e1 := e1) (e2 := e2) (hm := hm) (h := h) (hv2 := hv2) (hf := hf) (hset := hset) (hmset := hmset) (hkeys := hkeys) (hprec := hprec) (hn := hn) (ta := ta) (tb := tb) (a := a) (b' := b') (hi1 := hi1) (hi2 := hi2) (hw1 := hw1) (hra := hra) (hrb := hrb) (haw := haw) (har := har) (hbw := hbw) (hbr := hbr) (hbn := hbn) (hbf := hbf) (hbv := hbv) (hbN := hbN) (hab := hab) (hT := hT) (ha2 := ha2) (hw := hw)

/-- **C14 round trip, `-f patch`** (list reading, any `-precision`, any `-color`): through the JSON text, where the `jsonList` tag of a removed array is lost (`renderPatchOps_map_untagHunk`) -/
theorem patch_cli_round_trip (L : FloatLaws) (F : FloatEq0) (nc : NumCodec)
    (Y : YamlCarrier) (Ls : Bool → LibPack) (hL : Ls false = ⟨Json, Diff, nativeLib nc Y⟩)
    (b : Binary) {fl fl2 : Flags} {e1 e2 : Env}
    (hm : isDiffMode fl) (h : PatchTwin fl fl2) (hv2 : libIsV1 b fl = false)
    (hf : fl.f = "patch") (hset : fl.set = false) (hmset : fl.mset = false)
    (hkeys : fl.setkeys = "") (hn : fl.nargs = 1 ∨ fl.nargs = 2)
    {ta tb : String} {a b' : Json}
    (hi1 : e1.in1 = .ok ta) (hi2 : e1.in2 = .ok tb) (hw1 : fl.o = "" ∨ e1.write = .ok ())
    (hra : (nativeLib nc Y).readDoc fl.yaml ta = .ok a)
    (hrb : (nativeLib nc Y).readDoc fl.yaml tb = .ok b')
    (ha : JText.DocOK nc a) (ha3 : a.finiteNums = true)
    (hb : JText.DocOK nc b') (hb3 : b'.finiteNums = true)
    {Na Nb : Nat} (la : PRC.lenLe Na a = true) (lb : PRC.lenLe Nb b' = true)
    (hN : Na + Nb < 2 ^ 53)
    (H : HashOK [Opt.prec fl.precision] a b') (Z : ZeroOK a b')
    (ka : PRC.keysExpressible a = true) (kb : PRC.keysExpressible b' = true)
    (hT : e2.in1 = .ok (emitted (proc Ls b fl e1)))
    (ha2 : e2.in2 = e1.in1) (hw : fl2.o = "" ∨ e2.write = .ok ()) :
    ∃ T d' r,
      parsedOptions b fl = .ok [Opt.prec fl.precision] ∧
      renderPatchM nc (diffM [Opt.prec fl.precision] a b') = .ok (some T) ∧
      readPatchM nc T = .ok d' ∧ patchM a d' = .ok r ∧
      specEq r b' = true ∧ specEq b' r = true ∧ r.listDoc = true ∧
      (PrecMono [Opt.prec fl.precision] →
        equivB [Opt.prec fl.precision] r b' = true ∧ equals [Opt.prec fl.precision] r b' = true) ∧
      TwoRuns (proc Ls b fl e1) (proc Ls b fl2 e2) fl fl2 T (if T = "[]" then 0 else 1)
        ((nativeLib nc Y).renderDoc fl.yaml [Opt.prec fl.precision] r) :=
  Jd.CliRTM.patch_cli_round_trip (L := L) (F := F) (nc := nc) (Y := Y) (Ls := Ls) (hL := hL) (b := b) (fl := fl) (fl2 := fl2) (e1 := e1) (e2 := e2) (hm := hm) (h := h) (hv2 := hv2) (hf := hf) (hset := hset) (hmset := hmset) (hkeys := hkeys) (hn := hn) (ta := ta) (tb := tb) (a := a) (b' := b') (hi1 := hi1) (hi2 := hi2) (hw1 := hw1) (hra := hra) (hrb := hrb) (ha := ha) (ha3 := ha3) (hb := hb) (hb3 := hb3) (Na := Na) (Nb := Nb) (la := la) (lb := lb) (hN := hN) (H := H) (Z := Z) (ka := ka) (kb := kb) (hT := hT) (ha2 := ha2) (hw := hw)

end

end Jd.Props.C14
