/-
  Property C14 — CLI contract: library output, exit status 0/1/2, -o, stdin.
  Statement file (proofs in JdProofs/CliProofs.lean, namespace `Jd.Cli`).

  Model side: `cliM b fl r` (JdModel/Cli.lean) is the decision logic of the two `main.go` files as a
  pure function: `b : Binary` is `v2jd` (v2/jd/main.go), `top` (main.go) or `topV1` (main.go started
  with -v2=false); `fl : Flags` the parsed command line (`nargs` = number of positional arguments);
  `r : LibResults` what the library and the operating system returned for the inputs at hand (parse
  results, renderings, patch result, file read / write results). The library itself is NOT part of
  this model: the statements say that `main` adds nothing to and removes nothing from what the
  library renders, and decides the exit status as documented. The outcome has the fields `exit`,
  `stdout`, `outfile` (bytes written to the `-o` file, or none) and `stderr`.
  The tie to the real binaries is the process-level correspondence (exit status, stdout, `-o` file,
  stderr class compared for the three binaries on every case).

  WHAT IS STATED
    exit status is 0, 1 or 2; it is 2 exactly when one of the checks `main` performs for these flags
    (`checks b fl r`: in program order; WHICH checks are made depends on the flags only) reported an
    error; on exit 2 no file is written and stdout is empty or the usage text;
    diff mode without error: the bytes that leave the program are exactly the library rendering for
    `-f`, exit 0 iff there is no difference (`haveDiff` false), 1 iff there is;
    `-o F`: nothing on stdout, the file holds exactly the bytes stdout carries without `-o`, same exit;
    the option list handed to the library is the same in the three binaries (v1 metadata being the
    image of the v2 options under the renaming `toV1`);
    reading the second input (or the only input, in translate mode) from stdin is equivalent to
    naming a file.
  NOT STATED HERE: that `haveDiff` is false exactly when the two inputs are Equal (that is C05, about
  the library), and the `-p` round trip (C01 / C02 / C09 / C11 / C12 for the three formats; the
  process-level round trips are checked by correspondence).
-/
import JdProofs.CliProofs

namespace Jd.Props.C14
open Jd Jd.Cli

/-- the exit status is 0, 1 or 2 -/
theorem exit_is_0_1_or_2 (b : Binary) (fl : Flags) (r : LibResults) :
    (cliM b fl r).exit = 0 ∨ (cliM b fl r).exit = 1 ∨ (cliM b fl r).exit = 2 :=
  exit_range b fl r

/-- exit status 2 exactly when one of the checks made for these flags reported an error -/
theorem exit_2_iff_some_check_failed (b : Binary) (fl : Flags) (r : LibResults) :
    (cliM b fl r).exit = 2 ↔ ∃ c ∈ checks b fl r, ∃ e, c = .error e :=
  exit_two_iff_error b fl r

/-- … and the whole outcome (log record or usage text) is determined by the FIRST failing check -/
theorem outcome_is_first_failing_check (b : Binary) (fl : Flags) (r : LibResults) (e : Err)
    (h : firstErr (checks b fl r) = some e) : cliM b fl r = outcomeOf b (.error e) :=
  outcome_of_first_error b fl r e h

/-- on exit 2 no output file is written and stdout is empty or the usage text -/
theorem on_error_nothing_is_written {b : Binary} {fl : Flags} {r : LibResults}
    (h : (cliM b fl r).exit = 2) :
    (cliM b fl r).outfile = none ∧
      ((cliM b fl r).stdout = "" ∨ (cliM b fl r).stdout = usageText b) :=
  error_writes_nothing h

/-- diff mode, no error: the program emits exactly the library rendering `s` for the format chosen
    with `-f` (on stdout, or in the `-o` file and then nothing on stdout), exits 0 iff there is no
    difference and 1 iff there is -/
theorem diff_mode_prints_library_output_and_exits_0_or_1 {b : Binary} {fl : Flags} {r : LibResults}
    (hm : isDiffMode fl) (hne : (cliM b fl r).exit ≠ 2) :
    ∃ s, libRendering fl r = some s ∧
      ((cliM b fl r).exit = 0 ↔ haveDiff fl r s = false) ∧
      ((cliM b fl r).exit = 1 ↔ haveDiff fl r s = true) ∧
      (fl.o = "" → (cliM b fl r).stdout = s ∧ (cliM b fl r).outfile = none) ∧
      (fl.o ≠ "" → (cliM b fl r).stdout = "" ∧ (cliM b fl r).outfile = some s) :=
  diff_mode_contract hm hne

/-- `-o F` in every mode (diff, patch, translate), no error: nothing on stdout, the file holds
    exactly the bytes that stdout carries without `-o`, and the exit status is the same -/
theorem output_flag_writes_same_bytes {b : Binary} {fl : Flags} {r : LibResults}
    (ho : fl.o ≠ "") (hv : fl.version = false) (hp : fl.port = 0) (hg : fl.gitDiffDriver = false)
    (hne : (cliM b fl r).exit ≠ 2) :
    (cliM b fl r).stdout = "" ∧
    (cliM b fl r).outfile = some (cliM b { fl with o := "" } r).stdout ∧
    (cliM b { fl with o := "" } r).outfile = none ∧
    (cliM b fl r).exit = (cliM b { fl with o := "" } r).exit :=
  output_flag ho hv hp hg hne

/-- the top-level binary builds the same v2 option list as v2/jd -/
theorem options_top_eq_v2jd (fl : Flags) : optionsOfTopV2 fl = optionsOf fl :=
  optionsOf_top_eq_v2jd fl

/-- with -v2=false the v1 metadata list is the image of the v2 option list under the renaming -/
theorem v1_metadata_is_image_of_options (fl : Flags) :
    metadataOfTopV1 fl = (optionsOf fl).map (List.map toV1) :=
  metadata_v1_is_image fl

/-- all three binaries hand the same options to the library -/
theorem all_binaries_same_options (b : Binary) (fl : Flags) : parsedOptions b fl = optionsOf fl :=
  parsedOptions_same b fl

/-- diff / patch mode: the second input from stdin ≡ from a named file -/
theorem stdin_equals_file (b : Binary) (fl : Flags) (r : LibResults)
    (hv : fl.version = false) (hp : fl.port = 0) (hg : fl.gitDiffDriver = false) (ht : fl.t = "") :
    cliM b { fl with nargs := 1 } r = cliM b { fl with nargs := 2 } r :=
  stdin_equiv_file b fl r hv hp hg ht

/-- translate mode: the input from stdin ≡ from a named file -/
theorem stdin_equals_file_translate (b : Binary) (fl : Flags) (r : LibResults)
    (hv : fl.version = false) (hp : fl.port = 0) (hg : fl.gitDiffDriver = false) (ht : fl.t ≠ "") :
    cliM b { fl with nargs := 0 } r = cliM b { fl with nargs := 1 } r :=
  stdin_equiv_file_translate b fl r hv hp hg ht

/-! Non-vacuity: `jd a b` with two readable, parsable inputs that differ: diff mode, exit 1, stdout is
    the library's rendering. -/

private def exFlags : Flags := { nargs := 2 }
private def exLib : LibResults :=
  { file1 := .ok (), file2 := .ok (), parse1 := .ok (), parse2 := .ok (), diffLen := 1,
    renderJd := "@ [\"a\"]\n- 1\n+ 2\n" }

example : isDiffMode exFlags ∧ (cliM .v2jd exFlags exLib).exit = 1 ∧
    (cliM .v2jd exFlags exLib).stdout = exLib.renderJd ∧ (cliM .top exFlags exLib).exit ≠ 2 :=
  ⟨⟨rfl, rfl, rfl, rfl, rfl⟩, by decide, by decide, by decide⟩

end Jd.Props.C14
